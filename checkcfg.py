"""Per-property configuration of /verif/check: Lean modules holding the property
theorems, the engines (Go test functions of /verif/harness) that tie the model to
/repo and evaluate the implementation-side oracles, and what is trusted."""

COMMON_TRUSTED = [
    "Lean 4.33.0 kernel (thorough tier: re-checked by leanchecker); axioms allowed: propext, Classical.choice, Quot.sound; no sorry/admit/axiom/native_decide/bv_decide (grep + #print axioms on every run)",
    "the hand-written Lean model is a model of the code only as far as the correspondence engines exercised it on this run (counts below)",
    "the Go harness (/verif/harness): generators, canonical printers, recording wrappers around the real file-backed storages, white-box state access through /repo/verif_hooks.go (build tag verif, add-only)",
    "modelled, not verified: Go runtime scheduling inside a critical section, sync.Mutex/Cond, time (virtual clock of testing/synctest), OS/file system, protobuf-go, uint64 wrap-around (indices and terms are Nat)",
]

E3_AE = {"test": "TestE3AppendEntries",
         "env": {"quick": {"VERIF_N": 40000}, "thorough": {"VERIF_N": 120000}},
         "shards": {"quick": 1, "thorough": 16}}
E3_RV = {"test": "TestE3RequestVote",
         "env": {"quick": {"VERIF_STRIDE": 16}, "thorough": {"VERIF_STRIDE": 1}},
         "shards": {"quick": 1, "thorough": 1}}

PROPS = {
    "C06": {
        "level": "proof",
        "lean_modules": ["RaftVerif.Properties.C06"],
        "engines": [E3_AE],
        "explanation": "Handler-level theorems for every node state and every AppendEntries request (reject leaves log/commit/config unchanged; commit index monotone, never past prevIndex+|entries| nor leaderCommit; accepted request agrees with all its entries, keeps every non-conflicting entry, truncates only at a genuine conflict above prevIndex, no fatal, log stays well-formed). Tie: differential run of the real handler over real file-backed storage against the model's appendEntries on the C06 domain, plus the property's statements evaluated directly on what the real code did.",
        "assumptions": ["C06_accept assumes a well-formed follower log (contiguous indices above the base, base <= lastIncludedIndex) and contiguous request entries from prevIndex+1; the other theorems have no hypothesis",
                        "the global statement (same index and term => identical prefixes across nodes) is an invariant of the cluster model, see C01/C07"],
    },
    "C08": {
        "level": "proof",
        "lean_modules": ["RaftVerif.Properties.C08"],
        "engines": [E3_RV, E3_AE],
        "explanation": "Handler-level theorems for every voter state and every RequestVote request (term monotone, prevote pure, vote only for up-to-date logs, granted vote recorded and persisted before the reply, never a second vote in a term) and the sequence theorem C08_one_vote_per_term over all finite stimulus sequences (RequestVote/AppendEntries with arbitrary fields, each completed or cut by a crash after any number of its storage effects, then restart). Tie: exhaustive bounded domain of the property run on the real handler over real storage against the model, storage-effect order included.",
        "assumptions": ["candidate ids are non-empty strings", "restart reads back exactly the last completed SetState (C13)"],
    },
}
