"""Per-property configuration of /verif/check: Lean modules holding the property
theorems, the engines (Go test functions of /verif/harness) that tie the model to
/repo and evaluate the implementation-side oracles, and what is trusted."""

COMMON_TRUSTED = [
    "Lean 4.33.0 kernel (thorough tier: re-checked by leanchecker); axioms allowed: propext, Classical.choice, Quot.sound; no sorry/admit/axiom/native_decide/bv_decide (grep + #print axioms on every run)",
    "the hand-written Lean model is a model of the code only as far as the correspondence engines exercised it on this run (counts below)",
    "the Go harness (/verif/harness): generators, canonical printers, recording wrappers around the real file-backed storages, white-box state access through /repo/verif_hooks.go (build tag verif, add-only)",
    "modelled, not verified: Go runtime scheduling inside a critical section, sync.Mutex/Cond, time (virtual clock of testing/synctest), OS/file system, protobuf-go, uint64 wrap-around (indices and terms are Nat)",
]

E3_AE = {"test": "TestE3AppendEntries",
         "env": {"quick": {"VERIF_N": 40000}, "thorough": {"VERIF_N": 120000}},
         "shards": {"quick": 1, "thorough": 16}}
E3_RV = {"test": "TestE3RequestVote",
         "env": {"quick": {"VERIF_STRIDE": 16}, "thorough": {"VERIF_STRIDE": 1}},
         "shards": {"quick": 1, "thorough": 1}}

E1_CODEC = {"test": "TestE1Codec", "env": {"quick": {"VERIF_N": 4000}, "thorough": {"VERIF_N": 60000}},
            "shards": {"quick": 1, "thorough": 8}}
E2_LOG = {"test": "TestE2LogCrash", "env": {"quick": {"VERIF_SCRIPTS": 8, "VERIF_OPS": 7}, "thorough": {"VERIF_SCRIPTS": 24, "VERIF_OPS": 10}},
          "shards": {"quick": 2, "thorough": 16}}
E2_SS = {"test": "TestE2StateSnapCrash", "env": {"quick": {"VERIF_SCRIPTS": 10, "VERIF_OPS": 9}, "thorough": {"VERIF_SCRIPTS": 40, "VERIF_OPS": 14, "VERIF_MAXCUT": 24}},
         "shards": {"quick": 2, "thorough": 16}}

PROPS = {
    "C06": {
        "level": "proof",
        "lean_modules": ["RaftVerif.Properties.C06"],
        "engines": [E3_AE],
        "explanation": "Handler-level theorems for every node state and every AppendEntries request (reject leaves log/commit/config unchanged; commit index monotone, never past prevIndex+|entries| nor leaderCommit; accepted request agrees with all its entries, keeps every non-conflicting entry, truncates only at a genuine conflict above prevIndex, no fatal, log stays well-formed). Tie: differential run of the real handler over real file-backed storage against the model's appendEntries on the C06 domain, plus the property's statements evaluated directly on what the real code did.",
        "assumptions": ["C06_accept assumes a well-formed follower log (contiguous indices above the base, base <= lastIncludedIndex) and contiguous request entries from prevIndex+1; the other theorems have no hypothesis",
                        "the global statement (same index and term => identical prefixes across nodes) is an invariant of the cluster model, see C01/C07"],
    },
    "C08": {
        "level": "proof",
        "lean_modules": ["RaftVerif.Properties.C08"],
        "engines": [E3_RV, E3_AE],
        "explanation": "Handler-level theorems for every voter state and every RequestVote request (term monotone, prevote pure, vote only for up-to-date logs, granted vote recorded and persisted before the reply, never a second vote in a term) and the sequence theorem C08_one_vote_per_term over all finite stimulus sequences (RequestVote/AppendEntries with arbitrary fields, each completed or cut by a crash after any number of its storage effects, then restart). Tie: exhaustive bounded domain of the property run on the real handler over real storage against the model, storage-effect order included.",
        "assumptions": ["candidate ids are non-empty strings", "restart reads back exactly the last completed SetState (C13)"],
    },
    "C12": {
        "level": "proof",
        "lean_modules": ["RaftVerif.Properties.C12"],
        "engines": [E2_LOG],
        "explanation": "Theorems over the byte-level model of log.bin with the real record codec: after a crash that left ANY byte prefix of an in-flight append, Replay succeeds, returns all entries of returned operations plus a prefix of the in-flight ones intact, and its truncation point restores a file of complete records (so the guarantee holds again for every further operation and reopen cycle); complete files read back exactly; Truncate cuts exactly at record boundaries given correct offsets, Append keeps offsets correct. Tie: operation scripts run on the real log under strace; crash images synthesised from the observed syscalls at every syscall boundary and every byte inside every write; each recovered with the real NewLog+Open+Replay and compared with the sequential specification, with the Lean replay of the same bytes, and exercised again (append+reopen); the syscall program and the bytes of every operation are compared with the model's.",
        "assumptions": ["process-crash model: completed syscalls persist, a write may be cut at any byte, rename/ftruncate atomic; power loss is outside (the fsync before append returns is checked as part of the program shape)",
                        "entries have 64-bit fields and bodies below 2^31 bytes"],
    },
    "C13": {
        "level": "proof",
        "lean_modules": ["RaftVerif.Properties.C13"],
        "engines": [E2_SS],
        "explanation": "Theorems over the file-system model: at every crash point of SetState (after any call, at any byte inside either write) state.bin is the old file or the complete new record, and a reopen reads the last completed or the in-flight value and never fails; in the snapshot directory model only Close makes a snapshot visible, with its complete content, and a reopen drops every open writer. Tie: scripts of SetState / NewSnapshotFile+Write+Close|Discard (overlapping writers, 0..70000 B) on the real storages under strace; crash images at every syscall and sampled bytes; the real constructors, State(), SnapshotFile() and NewRaft run on every image; the syscall program of every operation compared with the model's.",
        "assumptions": ["process-crash model as for C12", "snapshot directory names order by creation time (S10): 'most recent' is judged by close order in the oracle, a divergence would be reported with signature overlapping-writers-older-closed-returned",
                        "sort.Slice under the code's always-false comparator keeps ReadDir's lexicographic order (S11), re-checked on every image"],
    },
    "C19": {
        "level": "proof",
        "lean_modules": ["RaftVerif.Properties.C19"],
        "engines": [E1_CODEC],
        "explanation": "Byte-level theorems: varints, length-prefixed records, log record (incl. offset and entry type 2), term/vote record, and the RPC messages AppendEntriesResponse, RequestVoteRequest/Response, InstallSnapshotRequest/Response decode to what was encoded for all 64-bit field values and payload lengths. Tie: byte-exact agreement of the model's encoders with proto.Marshal as used by the real converters, of its decoders with proto.Unmarshal, on generated values (0/1/127/128/2^32+-1/2^63/2^64-1, nil/empty/1 B/128 B/KB/non-UTF-8 payloads, non-ASCII ids, 0-7 entries of all three types) and on every truncation of sampled encodings; the property's own round-trip statement evaluated on the real code for every value (also Configuration and snapshot metadata).",
        "assumptions": ["AppendEntriesRequest with repeated entries, Configuration (proto maps) and JSON metadata are covered by the differential engine and the implementation-side round-trip oracle, not yet by a Lean theorem",
                        "gRPC framing and the 4 MiB message limit are outside the model (a transport error is non-delivery, not corruption)"],
    },
}
