"""Per-property configuration of /verif/check: Lean modules holding the property
theorems, the engines (Go test functions of /verif/harness) that tie the model to
/repo and evaluate the implementation-side oracles, and what is trusted."""

COMMON_TRUSTED = [
    "Lean 4.33.0 kernel (thorough tier: re-checked by leanchecker); axioms allowed: propext, Classical.choice, Quot.sound; no sorry/admit/axiom/native_decide/bv_decide (grep + #print axioms on every run)",
    "the hand-written Lean model is a model of the code only as far as the correspondence engines exercised it on this run (counts below)",
    "the Go harness (/verif/harness): generators, canonical printers, recording wrappers around the real file-backed storages, white-box state access through /repo/verif_hooks.go (build tag verif, add-only)",
    "modelled, not verified: Go runtime scheduling inside a critical section, sync.Mutex/Cond, time (virtual clock of testing/synctest), OS/file system, protobuf-go, uint64 wrap-around (indices and terms are Nat)",
]

E3_AE = {"test": "TestE3AppendEntries",
         "env": {"quick": {"VERIF_N": 40000}, "thorough": {"VERIF_N": 120000}},
         "shards": {"quick": 1, "thorough": 16}}
E3_RV = {"test": "TestE3RequestVote",
         "env": {"quick": {"VERIF_STRIDE": 16}, "thorough": {"VERIF_STRIDE": 1}},
         "shards": {"quick": 1, "thorough": 1}}

E1_CODEC = {"test": "TestE1Codec", "env": {"quick": {"VERIF_N": 4000}, "thorough": {"VERIF_N": 60000}},
            "shards": {"quick": 1, "thorough": 8}}
E2_LOG = {"test": "TestE2LogCrash", "env": {"quick": {"VERIF_SCRIPTS": 8, "VERIF_OPS": 7}, "thorough": {"VERIF_SCRIPTS": 24, "VERIF_OPS": 10}},
          "shards": {"quick": 2, "thorough": 16}}
E2_SS = {"test": "TestE2StateSnapCrash", "env": {"quick": {"VERIF_SCRIPTS": 10, "VERIF_OPS": 9}, "thorough": {"VERIF_SCRIPTS": 40, "VERIF_OPS": 14, "VERIF_MAXCUT": 24}},
         "shards": {"quick": 2, "thorough": 16}}

E3_EL = {"test": "TestE3Election", "env": {"quick": {"VERIF_N": 700}, "thorough": {"VERIF_N": 6000}},
         "shards": {"quick": 1, "thorough": 8}}
E3_IS = {"test": "TestE3InstallSnapshot", "env": {"quick": {"VERIF_N": 300}, "thorough": {"VERIF_N": 1500}},
         "shards": {"quick": 2, "thorough": 16}}


def E4(profile, qwalks=40, twalks=400, actions=400):
    return {"test": "TestE4Walks", "name": "E4-walks-" + profile,
            "env": {"quick": {"VERIF_PROFILE": profile, "VERIF_WALKS": qwalks, "VERIF_ACTIONS": actions},
                    "thorough": {"VERIF_PROFILE": profile, "VERIF_WALKS": twalks, "VERIF_ACTIONS": actions + 200}},
            "shards": {"quick": 2, "thorough": 16}}


def E4D(scenarios=""):
    return {"test": "TestE4Directed", "env": {"quick": {"VERIF_SCENARIOS": scenarios}, "thorough": {"VERIF_SCENARIOS": scenarios}},
            "shards": {"quick": 1, "thorough": 1}}


CLUSTER_NOTE = "E4: real nodes in a testing/synctest bubble (virtual time), transport that parks every Send* call, real file-backed storage behind recording wrappers, crash = directory image + cut-off zombie; scheduler actions: deliver/hold/lose/duplicate a call, advance time, client writes/reads at any node, two- and one-way partitions, crash/restart, membership changes, snapshots; all property oracles after every action and after a fault-free period"

E3_LD = {"test": "TestE3Leader", "env": {"quick": {"VERIF_N": 250}, "thorough": {"VERIF_N": 1500}},
         "shards": {"quick": 2, "thorough": 16}}
E3_LC = {"test": "TestE3Lifecycle", "env": {"quick": {"VERIF_N": 150}, "thorough": {"VERIF_N": 1200}},
         "shards": {"quick": 1, "thorough": 16}}
E5_API = {"test": "TestE5API", "env": {"quick": {"VERIF_WORDS": 60}, "thorough": {"VERIF_WORDS": 300}},
          "shards": {"quick": 2, "thorough": 16}}
E1_TR = {"test": "TestE1Transport", "env": {"quick": {"VERIF_N": 100}, "thorough": {"VERIF_N": 1200}}, "shards": {"quick": 1, "thorough": 4}}
E5_OPT = {"test": "TestE5Options", "env": {"quick": {}, "thorough": {}}, "shards": {"quick": 1, "thorough": 1}}
E6_RACE = {"test": "TestE6Race", "race": True, "env": {"quick": {"VERIF_SECONDS": 12}, "thorough": {"VERIF_SECONDS": 90}},
           "shards": {"quick": 2, "thorough": 8}, "timeout": {"quick": "10m", "thorough": "30m"}}
TIES = [E3_AE, E3_RV, E3_EL, E3_LD]   # node-level correspondence every cluster-level statement rests on
TIE_NOTE = " The node functions these statements are about are the ones E3 compares with the real handlers and sections on every run (E3: AppendEntries and RequestVote handlers, election and vote replies, and E3-leader: submissions, membership requests, heartbeat rounds, replication replies and the commit/apply/read-only loops of a started node)."


def with_ties(engs, extra=()):
    out = list(engs)
    for e in list(TIES) + list(extra):
        if not any(x["test"] == e["test"] for x in out):
            out.append(e)
    return out


PROPS = {
    "C01": {
        "level": "proof",
        "lean_modules": ["RaftVerif.Properties.C01", "RaftVerif.Properties.C02", "RaftVerif.Properties.C06"],
        "engines": [E4("static"), E4("crash", 30, 300), E4D(), E3_AE],
        "explanation": "Full proof on the replication-layer cluster model (Model/Repl.lean; static membership, no compaction): C01_state_machine_safety — for every reachable state, every later state and any two nodes, the committed prefixes are comparable (so no two state machines, in any incarnation, see different operations at one index); proved by a 23-field inductive invariant (Proofs/ReplInv.lean, ReplSteps1-4.lean, ReplSafety.lean: log matching, leader completeness through dead positions, vote restriction, commit rule) over unboundedly many nodes, terms, entries, message loss/delay/reordering/duplication and crashes; non-vacuity by a concrete reachable committing run (Proofs/ReplExample.lean). Node level: apply order (strictly increasing, own log, at most the commit index). The model's steps are tied to the executable node functions by Proofs/ReplRefine.lean (merge loop = Repl.merge, accepting path, previous-entry guard, vote guard, leader appends), those to the code by E3. Tie and search: " + CLUSTER_NOTE + "; every Apply call of every incarnation is recorded and compared (term and bytes per index, order per state machine instance).",
        "assumptions": ["static membership (C09) and no compaction (C10/C11) in the cluster theorem", "the replication-layer model abstracts match indices by acknowledgements tagged with the request's term (the code ignores replies to requests of another term: fix S6) and the persisted vote by the vote history (C08, C13)", "goroutines spawned by a section prepare their request before the node's next election section (DESIGN.md S26)"],
    },
    "C02": {
        "level": "proof",
        "lean_modules": ["RaftVerif.Properties.C02"],
        "engines": [E3_RV, E3_EL, E4("static"), E4("crash", 30, 300)],
        "explanation": "Full proof on the cluster model: inductive invariant over every reachable state of Model/Cluster.lean (any number of nodes, static configuration with >= 2 voters and any non-voters, requests and replies lost/delayed/reordered/duplicated, late replies after restarts, crashes with term and vote persisted, arbitrary interleaving with all other sections abstracted by OtherStep, which the real AppendEntries handler is proved to satisfy): at most one node ever enters the leader state per term; nodes in the leader state of one term are equal; replication requests of one term name one leader. Built on the same executable functions (requestVote, election, prepareRV, onVoteReply) that the engines compare with the real code: exhaustive RequestVote domain, election()/vote-reply sequences, the hasQuorum table; " + CLUSTER_NOTE,
        "assumptions": ["static configuration with at least two voters (a sole voter: C09/C15 engines)",
                        "S26: election() and the request preparation of the goroutines it spawns are one step (a goroutine whose start is delayed across the node's next election would read the newer term but count into the older round; not reproducible with this harness, recorded in DESIGN.md)",
                        "restart reads back exactly the last completed SetState (C13)"],
    },
    "C03": {
        "level": "proof",
        "lean_modules": ["RaftVerif.Properties.C03"],
        "engines": [E4("static"), E4("reads", 30, 300), E4D()],
        "explanation": "Real-time order, cluster level (Proofs/ReplOrder.lean): C03_real_time_order - in every reachable state in which a quorum has acknowledged a position (i1, T1) of a leader log (that is: every operation up to i1 has completed), an operation appended now by a leader of term >= T1 gets an index beyond i1, and one appended by a deposed leader that does not know it yet (term < T1) lands on a position that no quorum acknowledges in any later state, so it never completes. Proof in two layers. Node level, for every node state: a submission is registered under exactly the index of the entry appended for it (leader's term, submitted bytes); the apply loop answers a registration only with the log entry at that very index; every change of leadership drops all registrations; leader sections never truncate. Cluster level (C03_acknowledged_position_is_final, from the replication-layer safety proof of C01): what a leader has committed is, in every later state, comparable with every node's committed prefix, so the operation acknowledged at index i is the one every replica applies at i. PARTIAL in one respect: the real-time order between different clients is evaluated by the E4 history oracles, not by a theorem. Tie and search: " + CLUSTER_NOTE + "; client histories with several overlapping clients: bytes, reported index/term, state machine result, at-most-once, real-time order.",
        "assumptions": ["static membership"],
    },
    "C04": {
        "level": "proof",
        "lean_modules": ["RaftVerif.Properties.C04"],
        "engines": [E4("static"), E4("crash", 30, 300), E3_AE],
        "explanation": "Proof in two layers. Node level, for every node state: the commit loop only advances the commit index to an entry of the leader's current term stored by the leader plus a hasQuorum set of voters (match index), never backwards; match indices change only through replies to requests of the current term; the leader appends before it sends, a follower appends before it acknowledges (C06_accept). Cluster level (C04_committed_is_stable + C07_committed_in_later_leaders, replication-layer model): a committed prefix stays committed in every later state — across crashes of any nodes and leader changes — and is a prefix of every later leader's log. Durability of the bytes across a process crash is C12 (proved). Tie and search: " + CLUSTER_NOTE + "; at every acknowledgement the logs of all voters (running or crashed image) are inspected for the entry.",
        "assumptions": ["process-crash model; power loss outside (C12)", "static membership, snapshots off"],
    },
    "C05": {
        "level": "proof",
        "lean_modules": ["RaftVerif.Properties.C05"],
        "engines": [E4("reads", 60, 500), E4("static", 20, 200), E4D("S6-read-confirmed-by-older-round,S28-read-index-before-first-commit")],
        "explanation": "Full proof on the timed replication-layer cluster model (Model/ReplRead.lean = the model of C01 plus a logical clock, ghost times of votes/elections/answers/commits, and read registration): C05_linearizable_read — in every reachable state, if the guard under which the code answers a registered read holds (still leader of the term, an entry of its term committed, read index applied, a quorum answered requests of this term built after the registration), then every commit made by any leader before the read was registered lies inside the prefix the read is answered from; no timing assumption; non-vacuity by a concrete reachable serving state. The guard and the read index are the ones of the executable node functions (registerRead, readOnlyStep, onAEReply rounds tagged by read sequence), which E3-leader compares with the code. Section level, after three fix: commits (S5, S6, S28): a linearizable read is served only by a leader that committed in its term, only when verified, only when its read index is applied; a round verifies only reads submitted before the round was created; a new read is younger than every round in flight; the read index covers the commit index and, before the first commit of the term, the whole log; replies of another term and replies of non-voters confirm nothing. The real-time conclusion over cluster runs is tied by " + CLUSTER_NOTE + " with replies held far beyond the election timeout, deposed leaders and the two witnesses of the repaired defects.",
        "assumptions": ["static membership, no compaction in the cluster theorem", "the link between the model's guard (answers to requests built after the registration) and the code's rounds (a round verifies reads whose sequence number is at most the one it was created with; replies of other terms ignored) is the section-level theorems of this file plus E3-leader, not a refinement proof"],
    },
    "C07": {
        "level": "proof",
        "lean_modules": ["RaftVerif.Properties.C07"],
        "engines": [E4("static"), E4("crash", 30, 300), E3_RV],
        "explanation": "Full proof on the replication-layer cluster model: C07_leader_completeness (a position acknowledged by a quorum in its own term is, with its whole prefix, in the log of the leader of every later term) and C07_committed_in_later_leaders, for all reachable states (static membership, no compaction). Node level, for every node state: the vote restriction (lexicographic (last term, last index), for votes and prevotes), a new leader keeps its whole log and appends one no-op, leader sections never truncate; Proofs/ReplRefine.lean ties the model's vote guard and appends to these functions. Tie and search: exhaustive RequestVote domain (long-but-old vs short-but-new logs); " + CLUSTER_NOTE + "; at the first observation of every (term, leader) its log is compared with everything applied anywhere so far.",
        "assumptions": ["static membership"],
    },
    "C09": {
        "level": "proof",
        "lean_modules": ["RaftVerif.Properties.C09"],
        "engines": [E4("churn", 60, 500), E4("snapmember", 20, 300), E4D("S3-lost-removal,S4-membership-two-apart,S24-leader-demotes-itself"), E3_EL],
        "explanation": "Machine-checked for every node state: non-voters never count (hasQuorum = strict majority of voters; the commit rule counts voters only; a non-voter never campaigns; no vote request for or by a non-voter; non-voter replies confirm nothing), quorums of one configuration intersect. The cluster-level statement is FALSE of this code (known findings S3, S4; Lean witness C09_counterexample_removal_not_pending): both are replayed on the real code as directed schedules and reported as KNOWN-FINDING; violations with another signature (e.g. safety broken while all nodes are at most one configuration apart) are reported as violations. Search: " + CLUSTER_NOTE + " with random add-non-voter/promote/remove requests.",
        "assumptions": ["known findings S3, S4 (see known_findings.json)"],
    },
    "C10": {
        "level": "proof",
        "lean_modules": ["RaftVerif.Properties.C10"],
        "engines": [E4("snap", 40, 400), E4("crash", 30, 300), E4("snapmember", 20, 300), E4D("S9-snapshot-overlaps-apply,S20-snapshot-chunk-mixing,S20-mixed-chunks-unparsable,snapshot-under-pending-membership-change")],
        "explanation": "PARTIAL proof. Machine-checked on the model (Model/Snapshot.lean, Properties/C10.lean): the apply step keeps 'state machine = fold of exactly the operation entries of the log up to the applied index' (configuration and no-op entries contribute nothing, every operation entry exactly once, in order); a snapshot whose label and content are read in one step is exact; the label is the applied index and the term of that entry. The real takeSnapshot reads the label and the content in two steps with the apply loop free to run in between: the property is FALSE of the code there (Lean witness C10_counterexample_apply_between_label_and_content; known finding S9, replayed on the real code as a directed schedule) and for snapshots received with mixed chunks (S20). Search and tie: " + CLUSTER_NOTE + "; every snapshot file that ever becomes visible on any node or crash image is parsed (the recording state machine serialises the list of applied indices with a hash chain) and compared with the committed sequence up to its label; violations with another pattern than the two known ones are reported.",
        "assumptions": ["known findings S9 (content-beyond-label) and S20 (content-behind-label), see known_findings.json",
                        "the state machine is the harness's recording machine (deterministic, serialises its full history)"],
    },
    "C11": {
        "level": "proof",
        "lean_modules": ["RaftVerif.Properties.C11"],
        "engines": [E3_IS, E4("snap", 40, 400), E4D("S20-snapshot-chunk-mixing,S20-mixed-chunks-unparsable,S9-snapshot-overlaps-apply")],
        "explanation": "PARTIAL proof. Machine-checked on the three-phase model of InstallSnapshot (enter / wait for the apply loop / restore, exactly the lock structure of the code): a request that is not newer than the node's boundary or applied index changes nothing but term/role/contact; the first phase never touches log, commit or applied index; restore adopts exactly the label (boundary, commit, applied all equal to it, never below the old values) and keeps the log suffix after the label when the log agrees with the label, drops the whole log otherwise; for an honest chunk stream (one snapshot, offsets in order) the received file is exactly the sent bytes (C11_chunks_exact_partial). Cluster level (Proofs/ReplSnapshot.lean): on the replication-layer model of C01 the installation of the snapshot (i, leader's log up to i <= its commit index) at any other node whose term is not ahead is exactly two steps of that model (the request 'previous index 0, entries 1..i' built and accepted: C11_install_is_replication, via install_eq_merge under log matching), so the state after it is reachable and every later state satisfies state-machine safety with it; the installed log starts with the snapshot's prefix (C11_install_preserves_safety); a compaction is invisible at that level given exact snapshots (C10). The unrestricted chunk statement is FALSE of the code (Lean witness C11_counterexample_chunk_mixing, known finding S20: a chunk of another snapshot at the expected offset is accepted). Tie: E3-install (request sequences over the C11 domain vs. the real handler, then AppendEntries/RequestVote probes around the boundary on both), " + CLUSTER_NOTE,
        "assumptions": ["known finding S20 (see known_findings.json)", "the apply loop is idle while phase C runs (the code waits for it)"],
    },
    "C14": {
        "level": "proof",
        "lean_modules": ["RaftVerif.Properties.C14", "RaftVerif.Properties.C12", "RaftVerif.Properties.C13"],
        "engines": [E4("crash", 40, 400), E4("snap", 20, 200), E4D("S10-local-snapshot-finishes-after-a-received-one,S21-crash-between-snapshot-publication-and-log-discard,stop-during-apply-then-restart,S9-snapshot-overlaps-apply"), E2_LOG, E2_SS],
        "explanation": "PARTIAL proof. Cluster level (crash = a step of the replication-layer model: log, term and vote persist as C12/C13 give them at every crash point, role and commit index are lost): C14_safety_across_crash - for a crash of any node in any reachable state and anything afterwards, what any node had applied before and what any node applies later are comparable; C14_restarted_node_can_catch_up - after the crash there is a continuation at whose end every voter, the restarted one included, holds the leader's log with the same commit index, and everything committed before the crash (in particular what the crashed node had applied) is a prefix of it. Machine-checked: what each storage returns after a crash at any point (C12 log: every byte prefix of an in-flight append; C13 term/vote file and snapshot directory: every call boundary and byte); restore() over such an image yields a well-formed node whenever the log base does not exceed the newest visible snapshot label (the code makes a snapshot visible before it trims the log); on well-formed nodes the vote handler (unconditionally), the replication handler, the commit loop and the apply loop never reach a logger.Fatal path; crash steps are part of the models of C02/C08, so one vote per term and election safety hold across restarts. NOT proved: cluster-level safety of applied sequences across restarts (C01). Search and tie: " + CLUSTER_NOTE + "; crash points are armed inside the nodes so that they die between two storage writes of one critical section (before log append / truncate / compact / discard, before SetState, before snapshot create / write / close), the image is restarted with the real constructors and all oracles continue; E2 restarts every byte-level image of every storage.",
        "assumptions": ["process-crash model (completed syscalls persist; a write may be cut at any byte: E2; between storage operations: E4)",
                        "a process abort (logger.Fatal = os.Exit) inside a walk is reported as a C14 violation with signature process-abort"],
    },
    "C15": {
        "level": "proof",
        "lean_modules": ["RaftVerif.Properties.C15"],
        "engines": [E4("static", 40, 400), E4("crash", 30, 300), E4("snap", 20, 200), E4D("S15-sole-voter-with-nonvoter,S27-added-member-starves-after-leader-change,S14-snapshot-retransmission-never-ends,S21-crash-between-snapshot-publication-and-log-discard"), E3_AE],
        "explanation": "PARTIAL (liveness proper needs the timers and a network that eventually delivers: that part is checked by exploration, not proved). Machine-checked, cluster level (Proofs/ReplProgress.lean): NO reachable state of the replication-layer model is a dead end - from every reachable state (whatever crashes, partitions, lost/duplicated/reordered messages, competing candidates and half-done replications produced it) the continuation a fault-free period allows exists and ends with a voter leading a term above all earlier ones, its whole log (old log plus an entry of the new term) committed, every voter holding the same log, commit index and term (C15_convergence_possible), and every prefix any node had committed before is a prefix of that common log (C15_convergence_keeps_committed). Machine-checked, node level: the conflict hint a follower returns lets the leader's next index move strictly below the rejected previous index and never below 1 (so the back-off terminates); a sole voter wins its election without any reply, also with non-voters present (after fix S15/S25); a member learned from a configuration entry starts with next index 1 (after fix S27), so its first request is well-formed. The convergence statement itself (after faults stop: one leader, new operations commit, every replica reaches the same applied sequence, restarted/added nodes catch up by log or snapshot) is evaluated by " + CLUSTER_NOTE + ": after every walk all partitions heal, all crashed nodes restart, delivery is prompt, and within a bounded virtual time there must be exactly one leader, a fresh write must complete at it, and every running member must reach the same applied index and hash.",
        "assumptions": ["liveness is checked by bounded-time exploration, not by a theorem: a violation is a concrete non-converging schedule; absence of one is not a proof",
                        "under membership churn convergence is only demanded when the running nodes agree on the configuration and a majority of its voters is running"],
    },
    "C18": {
        "level": "proof",
        "lean_modules": ["RaftVerif.Properties.C18", "RaftVerif.Properties.C14"],
        "engines": [E5_API, E3_LD, E3_LC, E3_EL, E6_RACE],
        "explanation": "PARTIAL proof. Machine-checked: (regenerated from the source on every run by harness/cmd/extract) every constant of State and OperationType has a String case that returns a literal; the future model (capacity-one channel, non-blocking respond, Await with timeout) resolves by its timeout and keeps only the first answer; the client-facing sections (submit replicated/read-only, AddServer, RemoveServer, Stop) never reach a logger.Fatal path or a run-time panic on well-formed nodes; restore/start yield a well-formed follower (C14); the apply step that applies a membership entry answers its pending future with success, also when applying it makes the leader step down. NOT provable in this model: 'never blocks forever' (Go scheduler, mutexes, wait groups): searched by E5-api (words over the public API on a node of a live cluster: no panic, no call blocked > 5 s virtual, futures resolved by their timeout, committed membership change answered successfully) and E6 (real-time stress: calls must return). Two genuine defects found and repaired: S16 (Stop;Start left the log closed), S29 (Start racing Stop: Stop blocked forever).",
        "assumptions": ["a process abort (logger.Fatal) or panic inside an engine is reported as a C18 violation with signature process-abort",
                        "Bootstrap is called before the first Start or on a stopped node (the documented use); on a running node it is only required not to panic or race"],
    },
    "C20": {
        "level": "proof",
        "lean_modules": ["RaftVerif.Properties.C20"],
        "engines": [E6_RACE],
        "explanation": "PARTIAL proof. The lock skeleton of every method of *Raft is REGENERATED from the source on every run (harness/cmd/extract: flow-sensitive walk over Lock/Unlock/defer/Cond.Wait/calls/go statements, giving for every access to a field of the node whether the mutex is held). Machine-checked over the whole table: every access to protocol state holds the node mutex; what is used without it is never assigned after construction; the walk determined the lock state everywhere and reached every method; the fields of log entries that in-flight requests read without the mutex are never assigned after creation; and (Proofs/Lockset.lean) two accesses under the mutex by different threads are separated by release-then-acquire, i.e. ordered. Outside the model: objects reached through local aliases, the storages' internals, the transport, the state machine. Search for a concrete racing schedule: E6 (race detector compiled in; real-time stress of a 3-4 node cluster with snapshots, membership churn, lifecycle calls and API calls from many goroutines, messages pushed through the transport's converters). Two genuine defects found and repaired: S18 (Bootstrap without the mutex), S29 (tail of Stop without the mutex).",
        "assumptions": ["sync.Mutex is mutual exclusion with release->acquire ordering (Go memory model)",
                        "the extractor (about 500 lines of go/ast walking) is part of the trusted base; its anomalies list must be empty (theorem C20_walk_complete)"],
    },
    "C16": {
        "level": "proof",
        "lean_modules": ["RaftVerif.Properties.C16"],
        "engines": [E3_RV, E3_EL, E4D("S8-stale-candidate-deposes-leader"), E4("static", 20, 200)],
        "explanation": "Cluster level with time (Model/Prevote.lean: terms move only by a candidacy on prevotes of a quorum that fall into the candidate's current round, or by copying another node's term; a prevote is granted only by a node that has not accepted a leader's request within the election timeout; starting rounds, asking, granting, adopting and crashing are otherwise unconstrained): C16_no_candidacy_from_rounds_begun_in_contact - in a run every state of which has the members of a quorum in prompt contact, no prevote round begun during the run can complete (quorum intersection: some member of every prevote quorum is in contact and did not grant); C16_terms_only_copied - without a candidacy no term in the cluster grows beyond what was there, so the leader never meets a higher term. The corner the model leaves open (a round already under way when the period began may complete on prevotes granted before it) is stated, not hidden. Section-level proof after the S8 fix: commit: a voter in fresh contact (or a leader with a valid lease) refuses every vote request and changes nothing; the election loop raises the term only right after a won prevote; a failed candidate goes back to the prevote and keeps term and vote; a prevote never changes the voter (C08_prevote_pure). The interval statement combines these with election safety; its tie is the directed isolation/rejoin schedule (the witness of the repaired defect) and the exhaustive stickiness-guard domain.",
        "assumptions": ["perfect shared virtual clock"],
    },
    "C17": {
        "level": "proof",
        "lean_modules": ["RaftVerif.Properties.C17"],
        "engines": [E4("lease", 60, 500), E3_EL],
        "explanation": "Full proof under the property's timing assumption, on the timed replication-layer model with leases (Model/ReplLease.lean): in every timely run (a node votes only ET after it last answered a replication request; a leader uses an answer only within D of building the request; the lease runs LD from the moment a round reaches its quorum; LD + D <= ET) there is no leader of a later term while a lease is valid (C17_no_later_leader_under_lease), hence a read answered under a valid lease contains every commit made before it was registered (C17_lease_read_fresh); non-vacuity by a concrete timely run with a valid lease. Section level: lease arithmetic (valid strictly before renewal time + duration), renewal only through a quorum of voter replies of the current term (C05 lemmas), a lease read is served with data only under a valid lease, new leaders and followers hold no lease. The freshness conclusion under lease + delay < election timeout is tied by " + CLUSTER_NOTE + " with the scheduler enforcing the delay bound, with and without non-voters.",
        "assumptions": ["perfect shared virtual clock; delay bound enforced by the scheduler (150 ms with lease 100 ms, election timeout 300 ms)"],
    },
    "C06": {
        "level": "proof",
        "lean_modules": ["RaftVerif.Properties.C06"],
        "engines": [E3_AE],
        "explanation": "C06_log_matching: in every reachable state of the replication-layer cluster model two logs that hold an entry of the same term at the same index are identical up to it; Proofs/ReplRefine.lean: the real merge loop and accepting path compute exactly the model's merge. Handler-level theorems for every node state and every AppendEntries request (reject leaves log/commit/config unchanged; commit index monotone, never past prevIndex+|entries| nor leaderCommit; accepted request agrees with all its entries, keeps every non-conflicting entry, truncates only at a genuine conflict above prevIndex, no fatal, log stays well-formed). Tie: differential run of the real handler over real file-backed storage against the model's appendEntries on the C06 domain, plus the property's statements evaluated directly on what the real code did.",
        "assumptions": ["C06_accept assumes a well-formed follower log (contiguous indices above the base, base <= lastIncludedIndex) and contiguous request entries from prevIndex+1; the other theorems have no hypothesis",
                        "the global statement (C06_log_matching: same index and term => identical prefixes across nodes) is proved on the replication-layer cluster model (static membership, no compaction)"],
    },
    "C08": {
        "level": "proof",
        "lean_modules": ["RaftVerif.Properties.C08"],
        "engines": [E3_RV, E3_AE],
        "explanation": "Handler-level theorems for every voter state and every RequestVote request (term monotone, prevote pure, vote only for up-to-date logs, granted vote recorded and persisted before the reply, never a second vote in a term) and the sequence theorem C08_one_vote_per_term over all finite stimulus sequences (RequestVote/AppendEntries with arbitrary fields, each completed or cut by a crash after any number of its storage effects, then restart). Tie: exhaustive bounded domain of the property run on the real handler over real storage against the model, storage-effect order included.",
        "assumptions": ["candidate ids are non-empty strings", "restart reads back exactly the last completed SetState (C13)"],
    },
    "C12": {
        "level": "proof",
        "lean_modules": ["RaftVerif.Properties.C12"],
        "engines": [E2_LOG],
        "explanation": "Theorems over the byte-level model of log.bin with the real record codec: after a crash that left ANY byte prefix of an in-flight append, Replay succeeds, returns all entries of returned operations plus a prefix of the in-flight ones intact, and its truncation point restores a file of complete records (so the guarantee holds again for every further operation and reopen cycle); complete files read back exactly; Truncate cuts exactly at record boundaries given correct offsets, Append keeps offsets correct. Tie: operation scripts run on the real log under strace; crash images synthesised from the observed syscalls at every syscall boundary and every byte inside every write; each recovered with the real NewLog+Open+Replay and compared with the sequential specification, with the Lean replay of the same bytes, and exercised again (append+reopen); the syscall program and the bytes of every operation are compared with the model's.",
        "assumptions": ["process-crash model: completed syscalls persist, a write may be cut at any byte, rename/ftruncate atomic; power loss is outside (the fsync before append returns is checked as part of the program shape)",
                        "entries have 64-bit fields and bodies below 2^31 bytes"],
    },
    "C13": {
        "level": "proof",
        "lean_modules": ["RaftVerif.Properties.C13"],
        "engines": [E2_SS],
        "explanation": "Theorems over the file-system model: at every crash point of SetState (after any call, at any byte inside either write) state.bin is the old file or the complete new record, and a reopen reads the last completed or the in-flight value and never fails; in the snapshot directory model only Close makes a snapshot visible, with its complete content, and a reopen drops every open writer. Tie: scripts of SetState / NewSnapshotFile+Write+Close|Discard (overlapping writers, 0..70000 B) on the real storages under strace; crash images at every syscall and sampled bytes; the real constructors, State(), SnapshotFile() and NewRaft run on every image; the syscall program of every operation compared with the model's.",
        "assumptions": ["process-crash model as for C12", "snapshot directory names order by creation time (S10): 'most recent' is judged by close order in the oracle, a divergence would be reported with signature overlapping-writers-older-closed-returned",
                        "sort.Slice under the code's always-false comparator keeps ReadDir's lexicographic order (S11), re-checked on every image"],
    },
    "C19": {
        "level": "proof",
        "lean_modules": ["RaftVerif.Properties.C19"],
        "engines": [E1_CODEC],
        "explanation": "Byte-level theorems: varints, length-prefixed records, log record (incl. offset and entry type 2), term/vote record, all six RPC messages (AppendEntriesRequest with any number of entries of any type and payload: C19_append_request_roundtrip) and Configuration (two proto maps and an index, entries in any wire order, decoded maps hold exactly the encoded bindings: C19_configuration_roundtrip, C19_configuration_maps) and the snapshot metadata file (decimal numbers, base64: C19_snapshot_metadata_roundtrip) decode to what was encoded for all 64-bit field values and payload lengths. Tie: byte-exact agreement of the model's encoders with proto.Marshal as used by the real converters, of its decoders with proto.Unmarshal, on generated values (0/1/127/128/2^32+-1/2^63/2^64-1, nil/empty/1 B/128 B/KB/non-UTF-8 payloads, non-ASCII ids, 0-7 entries of all three types) and on every truncation of sampled encodings; the property's own round-trip statement evaluated on the real code for every value (also Configuration and snapshot metadata).",
        "assumptions": ["the snapshot metadata reader of the model accepts exactly the canonical form the writer (and encoding/json) produces, not arbitrary JSON (the library is the only producer of these files): C19_snapshot_metadata_roundtrip, tied byte-exactly by E1; Configuration is compared as maps (the order of map entries on the wire is the sender's choice), byte-exact when the maps have at most one entry",
                        "gRPC framing and the 4 MiB message limit are outside the model (a transport error is non-delivery, not corruption)"],
    },
}


# cluster-level properties: node-level ties + the properties their proofs rest on
_DEPS = {
    "C01": ["C02", "C04", "C06", "C07", "C08"],
    "C02": ["C08"],
    "C03": ["C01", "C02", "C07"],
    "C04": ["C01", "C02", "C07", "C12"],
    "C05": ["C01", "C02"],
    "C07": ["C02", "C06", "C08"],
    "C09": ["C10"],   # a snapshot that carries an uncommitted configuration makes it "committed" at the next restart
    "C10": ["C01"],
    "C11": ["C06", "C12"],
    "C14": ["C01", "C02", "C04", "C08"],
    "C15": ["C14"],
    "C16": ["C02"],
    "C17": ["C02", "C05"],
    "C06": ["C12"],
}
_OWNS = {"C14": ["C12", "C13"]}
for _p, _d in _DEPS.items():
    PROPS[_p]["deps"] = _d
    if _p not in ("C06", "C11"):
        # every section that changes term, vote, log, commit index or configuration is part of what a cluster-level
        # statement rests on: the snapshot handler and the lifecycle sections too (round 4 of the seeded changes)
        PROPS[_p]["engines"] = with_ties(PROPS[_p]["engines"], [E3_IS, E3_LC])
        PROPS[_p]["explanation"] += TIE_NOTE
for _p, _o in _OWNS.items():
    PROPS[_p]["owns"] = _o
PROPS["C06"]["engines"] = PROPS["C06"]["engines"] + [E2_LOG]
# the storages under the protocol: the cluster theorems take "what was appended / persisted is what is read
# back, also after a compaction, a truncation or a restart" from C12/C13; their engines run with these checks
STORAGE_NOTE = " The storages the protocol stands on are part of the tie: the E2 engines (operation scripts incl. compact-then-truncate pairs on the real log and the real term/vote and snapshot storages, every crash image reopened) run with this check, and their findings count against it."
for _p in ("C01", "C03", "C04", "C07"):
    PROPS[_p]["engines"] = PROPS[_p]["engines"] + [E2_LOG]
    PROPS[_p]["explanation"] += STORAGE_NOTE
    PROPS[_p]["deps"] = sorted(set(PROPS[_p].get("deps", []) + ["C12", "C06"]))
for _p in ("C02", "C10", "C11"):
    PROPS[_p]["engines"] = PROPS[_p]["engines"] + [E2_SS]
    PROPS[_p]["explanation"] += STORAGE_NOTE
    PROPS[_p]["deps"] = sorted(set(PROPS[_p].get("deps", []) + ["C13"]))
PROPS["C08"]["deps"] = ["C13"]
for _p in ("C15", "C17", "C18"):
    PROPS[_p]["engines"] = PROPS[_p]["engines"] + [E5_OPT]
for _p in ("C15", "C18"):
    PROPS[_p]["engines"] = PROPS[_p]["engines"] + [E1_TR]   # Stop + Restart of a node shuts its transport down and runs it again
# the network assumption of the cluster models (a request is handled by the peer it was addressed to, the answer is
# that peer's): checked on the bundled transport with one sender and three peers that share an IP address or a port
NET_NOTE = " The cluster model's network assumption - a message reaches the peer it was addressed to, or nobody - is checked on the bundled transport (E1-transport: one sender, three peers on loopback sharing an IP address or a port); a failure counts against this check."
for _p in ("C01", "C02", "C03", "C04", "C05", "C07", "C09", "C10", "C11", "C14", "C16", "C17"):
    PROPS[_p]["engines"] = PROPS[_p]["engines"] + [E1_TR]
    PROPS[_p]["explanation"] += NET_NOTE
PROPS["C08"]["engines"] = PROPS["C08"]["engines"] + [E3_EL, E3_LD, E3_LC, E2_SS]
PROPS["C08"]["explanation"] += " The candidate's own term bump and self-vote (election(), the sole-voter shortcut, vote replies), the leader's step-down and a restart are covered by E3-election, E3-leader and E3-lifecycle with the same oracle (what is in memory when the section returns is what the last write to the term/vote storage in that section said)." + STORAGE_NOTE
PROPS["C11"]["engines"] = PROPS["C11"]["engines"] + [E3_AE, E2_LOG]
PROPS["C19"]["engines"] = PROPS["C19"]["engines"] + [E1_TR, E2_LOG, E2_SS]
PROPS["C19"]["deps"] = ["C12", "C13"]
PROPS["C19"]["explanation"] += " The bundled transport itself: E1-transport sends generated requests between two real transports on loopback (incl. requests of several entries adding up to MiB and snapshot chunks up to and beyond the 4 MiB limit) and compares what the handler and the caller see with what was passed in. Storage read-back: the E2 engines (operation scripts on the real log / state / snapshot storages, reopened with the real constructors) report every state without an operation in flight whose read-back differs from what was written."
