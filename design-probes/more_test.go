package probe2

import (
	"encoding/json"
	"fmt"
	"io"
	"sync"
	"testing"
	"testing/synctest"
	"time"

	"github.com/jmsadair/raft"
	"github.com/jmsadair/raft/logging"
)

// S5: replies of non-voters count toward the leadership-confirmation quorum.
func TestS5(t *testing.T) {
	synctest.Test(t, func(t *testing.T) {
		s := newSim(t, "a", "b", "c", "d")
		c0 := map[string]string{"a": s.addrs["a"], "b": s.addrs["b"], "c": s.addrs["c"]}
		for _, id := range []string{"a", "b", "c"} {
			s.mk(id, c0).Start()
		}
		s.mk("d", nil).Start()
		s.auto(2 * time.Second)
		L := s.leader()
		s.nodes[L].AddServer("d", s.addrs["d"], false, time.Second)
		s.auto(time.Second)
		s.nodes[L].SubmitOperation([]byte("w0"), raft.Replicated, time.Second)
		s.auto(300 * time.Millisecond)
		fmt.Println("S5 leader", L, s.status(), "voters:", s.nodes[L].Configuration().IsVoter)
		// old leader keeps only the non-voter d
		var others []string
		for _, id := range []string{"a", "b", "c"} {
			if id != L {
				others = append(others, id)
				s.sever(L, id)
				s.sever("d", id)
			}
		}
		s.auto(3 * time.Second)
		var L2 string
		for _, id := range others {
			if s.nodes[id].Status().State == raft.Leader {
				L2 = id
			}
		}
		w1 := s.nodes[L2].SubmitOperation([]byte("w1"), raft.Replicated, time.Second)
		s.auto(300 * time.Millisecond)
		fmt.Println("S5 new leader", L2, "w1 err=", w1.Await().Error(), s.status())
		rd := s.nodes[L].SubmitOperation([]byte("r"), raft.LinearizableReadOnly, time.Second)
		s.auto(300 * time.Millisecond)
		rr := rd.Await()
		if rr.Error() == nil {
			fmt.Printf("S5 READ SUCCEEDED at old leader confirmed only by non-voter d: sees %v ops (expected 2)\n", rr.Success().ApplicationResponse)
		} else {
			fmt.Println("S5 read failed:", rr.Error())
		}
		ls := s.nodes[L].SubmitOperation([]byte("r"), raft.LeaseBasedReadOnly, time.Second)
		s.auto(100 * time.Millisecond)
		lr := ls.Await()
		fmt.Println("S5 lease read at old leader err=", lr.Error())
		s.stopAll()
	})
}

// S3: two removals back to back.
func TestS3(t *testing.T) {
	synctest.Test(t, func(t *testing.T) {
		s := newSim(t, "a", "b", "c", "d", "e")
		for _, id := range []string{"a", "b", "c", "d", "e"} {
			s.mk(id, s.addrs).Start()
		}
		s.auto(2 * time.Second)
		L := s.leader()
		var rm []string
		for _, id := range []string{"a", "b", "c", "d", "e"} {
			if id != L && len(rm) < 2 {
				rm = append(rm, id)
			}
		}
		f1 := s.nodes[L].RemoveServer(rm[0], time.Second)
		f2 := s.nodes[L].RemoveServer(rm[1], time.Second)
		s.auto(2 * time.Second)
		c := s.nodes[L].Configuration()
		_, in0 := c.Members[rm[0]]
		_, in1 := c.Members[rm[1]]
		fmt.Printf("S3 removed %s then %s back to back: errs=(%v,%v); final members=%d, %s present=%v, %s present=%v\n",
			rm[0], rm[1], f1.Await().Error(), f2.Await().Error(), len(c.Members), rm[0], in0, rm[1], in1)
		s.stopAll()
	})
}

type gatedFSM struct {
	mu    sync.Mutex
	ops   []string
	armed int // NeedSnapshot answers true this many times (applyLoop asks, then snapshotLoop asks again)
	gate  chan struct{}
}

func (f *gatedFSM) Apply(op *raft.Operation) interface{} {
	f.mu.Lock()
	defer f.mu.Unlock()
	if op.OperationType == raft.Replicated {
		f.ops = append(f.ops, fmt.Sprintf("%d:%s", op.LogIndex, op.Bytes))
	}
	return len(f.ops)
}
func (f *gatedFSM) Snapshot(w io.Writer) error {
	<-f.gate // scheduling delay between raft releasing its lock and the state machine taking its own
	f.mu.Lock()
	defer f.mu.Unlock()
	return json.NewEncoder(w).Encode(f.ops)
}
func (f *gatedFSM) Restore(r io.Reader) error {
	f.mu.Lock()
	defer f.mu.Unlock()
	f.ops = nil
	return json.NewDecoder(r).Decode(&f.ops)
}
func (f *gatedFSM) NeedSnapshot(int) bool {
	f.mu.Lock()
	defer f.mu.Unlock()
	if f.armed > 0 {
		f.armed--
		return true
	}
	return false
}

// S9: snapshot label taken before content; restart applies an operation twice.
func TestS9(t *testing.T) {
	synctest.Test(t, func(t *testing.T) {
		s := newSim(t, "a")
		dir := t.TempDir()
		mkNode := func(f *gatedFSM) *raft.Raft {
			base, _ := raft.NewTransport(s.addrs["a"])
			tt := &T{id: "a", addr: s.addrs["a"], n: s.n, base: base}
			r, err := raft.NewRaft("a", s.addrs["a"], f, dir, raft.WithTransport(tt), raft.WithLogLevel(logging.Error))
			if err != nil {
				t.Fatal(err)
			}
			return r
		}
		f := &gatedFSM{gate: make(chan struct{})}
		r := mkNode(f)
		r.Bootstrap(map[string]string{"a": s.addrs["a"]})
		r.Start()
		time.Sleep(2 * time.Second)
		synctest.Wait()
		r.SubmitOperation([]byte("op1"), raft.Replicated, time.Second).Await()
		f.mu.Lock()
		f.armed = 2
		f.mu.Unlock()
		r.SubmitOperation([]byte("op2"), raft.Replicated, time.Second).Await()
		synctest.Wait() // takeSnapshot has labelled the snapshot and is parked inside Snapshot()
		r.SubmitOperation([]byte("op3"), raft.Replicated, time.Second).Await()
		synctest.Wait()
		fmt.Println("S9 applied before the parked Snapshot() proceeds:", f.ops, r.Status())
		close(f.gate)
		synctest.Wait()
		time.Sleep(10 * time.Millisecond)
		synctest.Wait()
		go r.Stop()
		time.Sleep(2 * time.Second)
		synctest.Wait()
		f2 := &gatedFSM{gate: make(chan struct{})}
		close(f2.gate)
		r2 := mkNode(f2)
		fmt.Println("S9 restored from snapshot:", f2.ops, r2.Status())
		r2.Start()
		time.Sleep(2 * time.Second)
		synctest.Wait()
		fmt.Println("S9 after restart + replay:", f2.ops, r2.Status())
		go r2.Stop()
		time.Sleep(2 * time.Second)
	})
}
