package probe2

import (
	"testing"
	"time"

	"github.com/jmsadair/raft"
	"github.com/jmsadair/raft/logging"
)

// S17: run alone (it kills the test process): go test -run '^TestS17$'
func TestS17(t *testing.T) {
	if testing.Short() {
		t.Skip("kills the process")
	}
	s := newSim(t, "a")
	base, _ := raft.NewTransport(s.addrs["a"])
	tt := &T{id: "a", addr: s.addrs["a"], n: s.n, base: base}
	r, err := raft.NewRaft("a", s.addrs["a"], &F{}, t.TempDir(), raft.WithTransport(tt), raft.WithLogLevel(logging.Error),
		raft.WithElectionTimeout(400*time.Microsecond))
	if err != nil {
		t.Fatal(err)
	}
	r.Start()
	time.Sleep(100 * time.Millisecond)
	t.Log("survived")
}
