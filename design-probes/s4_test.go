package probe2

import (
	"fmt"
	"testing"
	"testing/synctest"
	"time"

	"github.com/jmsadair/raft"
)

func TestS4(t *testing.T) {
	synctest.Test(t, func(t *testing.T) {
		s := newSim(t, "a", "b", "c", "d", "e")
		c0 := map[string]string{"a": s.addrs["a"], "b": s.addrs["b"], "c": s.addrs["c"]}
		for _, id := range []string{"a", "b", "c"} {
			s.mk(id, c0).Start()
		}
		s.auto(2 * time.Second)
		L := s.leader()
		var B, C string
		for id := range s.nodes {
			if id != L {
				if B == "" {
					B = id
				} else {
					C = id
				}
			}
		}
		s.nodes[L].SubmitOperation([]byte("w0"), raft.Replicated, time.Second)
		s.auto(300 * time.Millisecond)
		fmt.Println("S4 L,B,C =", L, B, C, s.status())
		// --- C1 = C0 + d, replicated to L,B,D; B must not learn the commit; C gets nothing
		s.mk("d", nil).Start()
		s.sever(L, C)
		s.nodes[L].AddServer("d", s.addrs["d"], true, time.Second)
		synctest.Wait()
		for _, c := range s.take(func(c *call) bool { return c.from == L }) {
			if c.kind == "AE" && (c.to == B || c.to == "d") && len(c.ae.Entries) > 0 {
				s.deliver(c)
				s.reply(c)
			} else {
				s.fail(c)
			}
		}
		s.sever(L, B)
		s.sever("d", B)
		s.sever("d", C)
		notBC := func(c *call) bool { return c.from != B && c.from != C && c.to != B && c.to != C }
		s.autoIf(300*time.Millisecond, notBC, nil)
		fmt.Println("S4 after C1:", s.status(), "L voters:", len(s.nodes[L].Configuration().IsVoter), "B voters:", len(s.nodes[B].Configuration().IsVoter))
		// --- C2 = C1 + e, committed by L,D,E; then op X committed by L,D,E
		s.mk("e", nil).Start()
		s.sever("e", B)
		s.sever("e", C)
		s.nodes[L].AddServer("e", s.addrs["e"], true, time.Second)
		s.autoIf(time.Second, func(c *call) bool { return c.from != B && c.from != C && c.to != B && c.to != C }, nil)
		x := s.nodes[L].SubmitOperation([]byte("X"), raft.Replicated, time.Second)
		s.autoIf(time.Second, func(c *call) bool { return c.from != B && c.from != C && c.to != B && c.to != C }, nil)
		rx := x.Await()
		fmt.Println("S4 X acked err=", rx.Error(), "index", rx.Success().Operation.LogIndex, s.status())
		// --- B and C alone: B wins under C0 (2 of 3); submit Y before C acks the no-op
		onlyBC := func(c *call) bool { return (c.from == B && c.to == C) || (c.from == C && c.to == B) }
		s.autoIf(10*time.Second, onlyBC, func() bool { return s.nodes[B].Status().State == raft.Leader })
		fmt.Println("S4 B leader?", s.nodes[B].Status().State == raft.Leader, s.status())
		y := s.nodes[B].SubmitOperation([]byte("Y"), raft.Replicated, 2*time.Second)
		s.autoIf(2*time.Second, func(c *call) bool {
			return onlyBC(c) && !(c.kind == "AE" && c.from == B && len(c.ae.Entries) == 1)
		}, nil)
		ry := y.Await()
		fmt.Println("S4 Y acked err=", ry.Error(), "index", ry.Success().Operation.LogIndex, s.status())
		for _, id := range []string{L, "d", "e", B, C} {
			s.fsms[id].mu.Lock()
			out := ""
			for _, o := range s.fsms[id].ops {
				out += fmt.Sprintf("%d:%s(t%d) ", o.LogIndex, o.Bytes, o.LogTerm)
			}
			s.fsms[id].mu.Unlock()
			fmt.Println("S4 applied on", id, ":", out)
		}
		s.stopAll()
	})
}
