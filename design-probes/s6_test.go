package probe2

import (
	"fmt"
	"testing"
	"testing/synctest"
	"time"

	"github.com/jmsadair/raft"
)

func TestS6(t *testing.T) {
	synctest.Test(t, func(t *testing.T) {
		s := newSim(t, "a", "b", "c")
		for _, id := range []string{"a", "b", "c"} {
			s.mk(id, s.addrs).Start()
		}
		s.auto(2 * time.Second)
		L := s.leader()
		fmt.Println("S6 leader", L, s.status())
		w0 := s.nodes[L].SubmitOperation([]byte("w0"), raft.Replicated, time.Second)
		s.auto(200 * time.Millisecond)
		fmt.Println("S6 w0", w0.Await().Error(), s.status())
		// wait for a fresh heartbeat round from L, deliver it, hold the replies
		var held []*call
		for len(held) < 2 {
			time.Sleep(time.Millisecond)
			synctest.Wait()
			for _, c := range s.take(func(c *call) bool { return c.from == L && c.kind == "AE" }) {
				s.deliver(c)
				held = append(held, c)
			}
		}
		fmt.Println("S6 holding", len(held), "heartbeat replies generated at", time.Now().Format("05.000"))
		// partition L away; others elect a new leader and commit w1
		for id := range s.nodes {
			if id != L {
				s.sever(L, id)
			}
		}
		s.auto(3 * time.Second)
		var L2 string
		for id, r := range s.nodes {
			if id != L && r.Status().State == raft.Leader {
				L2 = id
			}
		}
		fmt.Println("S6 new leader", L2, s.status())
		w1 := s.nodes[L2].SubmitOperation([]byte("w1"), raft.Replicated, time.Second)
		s.auto(300 * time.Millisecond)
		r1 := w1.Await()
		fmt.Println("S6 w1 acked err=", r1.Error(), "at", time.Now().Format("05.000"), s.status())
		// now the read at the deposed-but-unaware leader
		rd := s.nodes[L].SubmitOperation([]byte("r"), raft.LinearizableReadOnly, time.Second)
		synctest.Wait()
		for _, c := range s.take(func(c *call) bool { return c.from == L }) {
			s.fail(c)
		}
		for _, c := range held {
			s.reply(c)
		}
		synctest.Wait()
		rr := rd.Await()
		if rr.Error() == nil {
			fmt.Printf("S6 READ SUCCEEDED at old leader: sees %v ops; w1 acknowledged before the read was invoked => stale (expected 2)\n", rr.Success().ApplicationResponse)
		} else {
			fmt.Println("S6 read failed:", rr.Error())
		}
		s.stopAll()
	})
}
