package probe2

import (
	"fmt"
	"testing"
	"testing/synctest"
	"time"

	"github.com/jmsadair/raft"
)

// S8: a node left in Candidate state while isolated deposes a healthy leader on rejoin.
func TestS8(t *testing.T) {
	synctest.Test(t, func(t *testing.T) {
		s := newSim(t, "a", "b", "c")
		for _, id := range []string{"a", "b", "c"} {
			s.mk(id, s.addrs).Start()
		}
		s.auto(2 * time.Second)
		L := s.leader()
		var f1, f2 string
		for id := range s.nodes {
			if id != L {
				if f1 == "" {
					f1 = id
				} else {
					f2 = id
				}
			}
		}
		fmt.Println("S8 leader", L, "followers", f1, f2, s.status())
		// isolate the leader; let f1 win a prevote from f2 and become Candidate, then isolate f1.
		s.sever(L, f1)
		s.sever(L, f2)
		deadline := time.Now().Add(5 * time.Second)
		for time.Now().Before(deadline) && s.nodes[f1].Status().State != raft.Candidate {
			for _, c := range s.take(func(*call) bool { return true }) {
				// only let f1's prevotes through to f2; everything else fails
				if c.from == f1 && c.to == f2 && c.kind == "RV" && c.rv.Prevote {
					s.deliver(c)
					s.reply(c)
				} else {
					s.fail(c)
				}
			}
			time.Sleep(time.Millisecond)
			synctest.Wait()
		}
		fmt.Println("S8 f1 is candidate:", s.nodes[f1].Status().State == raft.Candidate, s.status())
		// now: f1 fully isolated; L and f2 reconnected => L in prompt contact with majority {L,f2}
		s.sever(f1, f2)
		s.heal(L, f2)
		s.auto(3 * time.Second)
		before := s.status()
		fmt.Println("S8 majority healthy, f1 isolated 3s:", before)
		tL := s.nodes[L].Status().Term
		// rejoin f1
		s.heal(f1, f2)
		s.heal(L, f1)
		s.auto(200 * time.Millisecond)
		fmt.Println("S8 after rejoin:", s.status())
		st := s.nodes[L].Status()
		if st.State != raft.Leader || st.Term != tL {
			fmt.Printf("S8 LEADER DEPOSED: %s was leader of term %d in contact with a majority, now state=%d term=%d\n", L, tL, st.State, st.Term)
		}
		s.stopAll()
	})
}

// S15: sole voter + non-voter cannot regain leadership after restart.
func TestS15(t *testing.T) {
	synctest.Test(t, func(t *testing.T) {
		s := newSim(t, "a", "b")
		s.mk("a", map[string]string{"a": s.addrs["a"]}).Start()
		s.mk("b", nil).Start()
		s.auto(2 * time.Second)
		f := s.nodes["a"].AddServer("b", s.addrs["b"], false, time.Second)
		s.auto(2 * time.Second)
		_ = f
		fmt.Println("S15 after add non-voter:", s.status(), s.nodes["a"].Configuration().IsVoter)
		go s.nodes["a"].Stop()
		s.auto(2 * time.Second)
		s.mk("a", nil).Start()
		s.auto(20 * time.Second)
		fmt.Println("S15 20s after restart of the sole voter:", s.status())
		w := s.nodes["a"].SubmitOperation([]byte("x"), raft.Replicated, time.Second)
		s.auto(2 * time.Second)
		fmt.Println("S15 submit:", w.Await().Error())
		s.stopAll()
	})
}
