package probe2

import (
	"errors"
	"fmt"
	"io"
	"sync"
	"testing"
	"testing/synctest"
	"time"

	"github.com/jmsadair/raft"
	"github.com/jmsadair/raft/logging"
)

type call struct {
	from, to, kind string
	ae             *raft.AppendEntriesRequest
	rv             *raft.RequestVoteRequest
	is             *raft.InstallSnapshotRequest
	aeR            raft.AppendEntriesResponse
	rvR            raft.RequestVoteResponse
	isR            raft.InstallSnapshotResponse
	delivered      bool
	herr           error
	done           chan error
}

type Net struct {
	mu      sync.Mutex
	byAddr  map[string]*T
	pending []*call
}

type T struct {
	id, addr string
	n        *Net
	base     raft.Transport
	ae       func(*raft.AppendEntriesRequest, *raft.AppendEntriesResponse) error
	rv       func(*raft.RequestVoteRequest, *raft.RequestVoteResponse) error
	is       func(*raft.InstallSnapshotRequest, *raft.InstallSnapshotResponse) error
}

func (t *T) Run() error      { return nil }
func (t *T) Shutdown() error { return nil }
func (t *T) park(c *call) error {
	c.from = t.id
	c.done = make(chan error, 1)
	t.n.mu.Lock()
	if p := t.n.byAddr[c.to]; p != nil {
		c.to = p.id
	}
	t.n.pending = append(t.n.pending, c)
	t.n.mu.Unlock()
	return <-c.done
}
func (t *T) SendAppendEntries(a string, r raft.AppendEntriesRequest) (raft.AppendEntriesResponse, error) {
	c := &call{to: a, kind: "AE", ae: &r}
	err := t.park(c)
	return c.aeR, err
}
func (t *T) SendRequestVote(a string, r raft.RequestVoteRequest) (raft.RequestVoteResponse, error) {
	c := &call{to: a, kind: "RV", rv: &r}
	err := t.park(c)
	return c.rvR, err
}
func (t *T) SendInstallSnapshot(a string, r raft.InstallSnapshotRequest) (raft.InstallSnapshotResponse, error) {
	c := &call{to: a, kind: "IS", is: &r}
	err := t.park(c)
	return c.isR, err
}
func (t *T) RegisterAppendEntriesHandler(h func(*raft.AppendEntriesRequest, *raft.AppendEntriesResponse) error) {
	t.ae = h
}
func (t *T) RegisterRequestVoteHandler(h func(*raft.RequestVoteRequest, *raft.RequestVoteResponse) error) {
	t.rv = h
}
func (t *T) RegsiterInstallSnapshotHandler(h func(*raft.InstallSnapshotRequest, *raft.InstallSnapshotResponse) error) {
	t.is = h
}
func (t *T) EncodeConfiguration(c *raft.Configuration) ([]byte, error) { return t.base.EncodeConfiguration(c) }
func (t *T) DecodeConfiguration(d []byte) (raft.Configuration, error)  { return t.base.DecodeConfiguration(d) }
func (t *T) Address() string                                           { return t.addr }

type F struct {
	mu  sync.Mutex
	ops []raft.Operation
}

func (f *F) Apply(op *raft.Operation) interface{} {
	f.mu.Lock()
	defer f.mu.Unlock()
	if op.OperationType == raft.Replicated {
		f.ops = append(f.ops, *op)
	}
	return len(f.ops)
}
func (f *F) Snapshot(w io.Writer) error { return nil }
func (f *F) Restore(r io.Reader) error  { return nil }
func (f *F) NeedSnapshot(int) bool      { return false }

type Sim struct {
	t     *testing.T
	n     *Net
	nodes map[string]*raft.Raft
	dirs  map[string]string
	addrs map[string]string
	// cut[from][to] = true: calls from→to fail
	cut map[string]map[string]bool
	fsms map[string]*F
}

func newSim(t *testing.T, ids ...string) *Sim {
	s := &Sim{t: t, n: &Net{byAddr: map[string]*T{}}, nodes: map[string]*raft.Raft{}, dirs: map[string]string{}, addrs: map[string]string{}, cut: map[string]map[string]bool{}, fsms: map[string]*F{}}
	for i, id := range ids {
		s.addrs[id] = fmt.Sprintf("127.0.0.1:%d", 9000+i)
	}
	return s
}
func (s *Sim) mk(id string, boot map[string]string) *raft.Raft {
	if s.dirs[id] == "" {
		s.dirs[id] = s.t.TempDir()
	}
	base, _ := raft.NewTransport(s.addrs[id])
	tt := &T{id: id, addr: s.addrs[id], n: s.n, base: base}
	s.n.mu.Lock()
	s.n.byAddr[s.addrs[id]] = tt
	s.n.mu.Unlock()
	f := &F{}
	s.fsms[id] = f
	r, err := raft.NewRaft(id, s.addrs[id], f, s.dirs[id], raft.WithTransport(tt), raft.WithLogLevel(logging.Error))
	if err != nil {
		s.t.Fatal(err)
	}
	if boot != nil {
		if err := r.Bootstrap(boot); err != nil {
			s.t.Fatal(err)
		}
	}
	s.nodes[id] = r
	return r
}
func (s *Sim) sever(a, b string) {
	for _, p := range [][2]string{{a, b}, {b, a}} {
		if s.cut[p[0]] == nil {
			s.cut[p[0]] = map[string]bool{}
		}
		s.cut[p[0]][p[1]] = true
	}
}
func (s *Sim) heal(a, b string) { delete(s.cut[a], b); delete(s.cut[b], a) }
func (s *Sim) take(match func(*call) bool) []*call {
	s.n.mu.Lock()
	defer s.n.mu.Unlock()
	var out, rest []*call
	for _, c := range s.n.pending {
		if match(c) {
			out = append(out, c)
		} else {
			rest = append(rest, c)
		}
	}
	s.n.pending = rest
	return out
}
func (s *Sim) deliver(c *call) {
	if c.delivered {
		return
	}
	c.delivered = true
	s.n.mu.Lock()
	var p *T
	for _, x := range s.n.byAddr {
		if x.id == c.to {
			p = x
		}
	}
	s.n.mu.Unlock()
	if p == nil || p.ae == nil {
		c.herr = errors.New("no such peer")
		return
	}
	fin := make(chan struct{})
	go func() {
		switch c.kind {
		case "AE":
			c.herr = p.ae(c.ae, &c.aeR)
		case "RV":
			c.herr = p.rv(c.rv, &c.rvR)
		case "IS":
			c.herr = p.is(c.is, &c.isR)
		}
		close(fin)
	}()
	<-fin
}
func (s *Sim) reply(c *call) { c.done <- c.herr; synctest.Wait() }
func (s *Sim) fail(c *call)  { c.done <- errors.New("net"); synctest.Wait() }

// auto: for d virtual time, deliver+reply everything (respecting cuts) every ms.
func (s *Sim) auto(d time.Duration) {
	end := time.Now().Add(d)
	for time.Now().Before(end) {
		for {
			cs := s.take(func(*call) bool { return true })
			if len(cs) == 0 {
				break
			}
			for _, c := range cs {
				if s.cut[c.from][c.to] {
					s.fail(c)
					continue
				}
				s.deliver(c)
				s.reply(c)
			}
		}
		time.Sleep(time.Millisecond)
		synctest.Wait()
	}
}
func (s *Sim) leader() string {
	best, bt := "", uint64(0)
	for id, r := range s.nodes {
		st := r.Status()
		if st.State == raft.Leader && st.Term >= bt {
			best, bt = id, st.Term
		}
	}
	return best
}
func (s *Sim) stopAll() {
	for _, r := range s.nodes {
		go r.Stop()
	}
	for i := 0; i < 2000; i++ {
		for _, c := range s.take(func(*call) bool { return true }) {
			c.done <- errors.New("net")
		}
		time.Sleep(time.Millisecond)
	}
}
func (s *Sim) status() string {
	out := ""
	for _, id := range []string{"a", "b", "c", "d", "e"} {
		if r, ok := s.nodes[id]; ok {
			st := r.Status()
			out += fmt.Sprintf("%s[t%d c%d a%d s%d] ", id, st.Term, st.CommitIndex, st.LastApplied, st.State)
		}
	}
	return out
}

// autoIf: like auto but allow decides deliver (true) or fail (false); stop early when until() holds.
func (s *Sim) autoIf(d time.Duration, allow func(*call) bool, until func() bool) {
	end := time.Now().Add(d)
	for time.Now().Before(end) {
		if until != nil && until() {
			return
		}
		for {
			cs := s.take(func(*call) bool { return true })
			if len(cs) == 0 {
				break
			}
			for _, c := range cs {
				if s.cut[c.from][c.to] || !allow(c) {
					s.fail(c)
					continue
				}
				s.deliver(c)
				s.reply(c)
			}
		}
		time.Sleep(time.Millisecond)
		synctest.Wait()
	}
}
