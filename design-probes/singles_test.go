package probe2

import (
	"fmt"
	"os"
	"path/filepath"
	"testing"
	"testing/synctest"
	"time"

	"github.com/jmsadair/raft"
)

// S23 (+S1): same-term vote reset. One real node z, requests fabricated by the test.
func TestS23(t *testing.T) {
	synctest.Test(t, func(t *testing.T) {
		s := newSim(t, "x", "y", "z")
		r := s.mk("z", s.addrs)
		r.Start()
		time.Sleep(700 * time.Millisecond)
		synctest.Wait()
		fmt.Printf("S23 0 %+v\n", r.Status()) // S1: PreCandidate renders as PANIC=...
		var rv raft.RequestVoteResponse
		r.RequestVote(&raft.RequestVoteRequest{CandidateID: "x", Term: 5, LastLogIndex: 9, LastLogTerm: 4}, &rv)
		fmt.Printf("S23 1 vote x: %+v\n", rv)
		time.Sleep(1000 * time.Millisecond) // >= ET + one full ticker period: a tick with stale contact is certain
		synctest.Wait()
		var ae raft.AppendEntriesResponse
		r.AppendEntries(&raft.AppendEntriesRequest{LeaderID: "x", Term: 5, PrevLogIndex: 9, PrevLogTerm: 4}, &ae)
		fmt.Printf("S23 2 ae from x (same term, prev mismatch): %+v\n", ae)
		time.Sleep(310 * time.Millisecond)
		var rv2 raft.RequestVoteResponse
		r.RequestVote(&raft.RequestVoteRequest{CandidateID: "y", Term: 5, LastLogIndex: 9, LastLogTerm: 4}, &rv2)
		fmt.Printf("S23 3 vote y in the same term: %+v  <- second grant in term 5\n", rv2)
		s.stopAll()
	})
}

// S7: commit index beyond the prefix verified against the request.
func TestS7(t *testing.T) {
	synctest.Test(t, func(t *testing.T) {
		s := newSim(t, "a", "b", "c")
		a := s.mk("a", s.addrs)
		a.Start()
		var resp raft.AppendEntriesResponse
		a.AppendEntries(&raft.AppendEntriesRequest{LeaderID: "b", Term: 2, PrevLogIndex: 1, PrevLogTerm: 1,
			Entries: []*raft.LogEntry{raft.NewLogEntry(2, 2, []byte("x"), raft.OperationEntry), raft.NewLogEntry(3, 2, []byte("y"), raft.OperationEntry)}}, &resp)
		a.AppendEntries(&raft.AppendEntriesRequest{LeaderID: "c", Term: 3, PrevLogIndex: 1, PrevLogTerm: 1, LeaderCommit: 3}, &resp)
		synctest.Wait()
		fmt.Printf("S7 heartbeat(prev=1, no entries, leaderCommit=3) on log [1:t1 2:t2 3:t2]: %+v %+v\n", resp, a.Status())
		s.stopAll()
	})
}

// S16: Stop then Start, then any handler that touches the log.
func TestS16(t *testing.T) {
	synctest.Test(t, func(t *testing.T) {
		s := newSim(t, "a", "b", "c")
		a := s.mk("a", s.addrs)
		a.Start()
		go a.Stop()
		s.auto(2 * time.Second)
		fmt.Println("S16 Start after Stop returns:", a.Start())
		func() {
			defer func() { fmt.Println("S16 RequestVote panic:", recover()) }()
			time.Sleep(400 * time.Millisecond)
			var rv raft.RequestVoteResponse
			a.RequestVote(&raft.RequestVoteRequest{CandidateID: "b", Term: 5, LastLogIndex: 9, LastLogTerm: 4}, &rv)
		}()
		s.stopAll()
	})
}

// S20: chunks of two snapshots mixed.
func TestS20(t *testing.T) {
	synctest.Test(t, func(t *testing.T) {
		s := newSim(t, "a", "b", "c")
		a := s.mk("a", s.addrs)
		a.Start()
		cfg, _ := s.n.byAddr[s.addrs["a"]].EncodeConfiguration(raft.NewConfiguration(1, s.addrs))
		var resp raft.InstallSnapshotResponse
		a.InstallSnapshot(&raft.InstallSnapshotRequest{LeaderID: "b", Term: 2, LastIncludedIndex: 20, LastIncludedTerm: 2, Configuration: cfg, Offset: 0, Bytes: []byte("BBBB"), Done: false}, &resp)
		a.InstallSnapshot(&raft.InstallSnapshotRequest{LeaderID: "b", Term: 2, LastIncludedIndex: 10, LastIncludedTerm: 1, Configuration: cfg, Offset: 4, Bytes: nil, Done: true}, &resp)
		synctest.Wait()
		fmt.Printf("S20 after chunk0 of (20,t2) then late last chunk of (10,t1): %+v\n", a.Status())
		ents, _ := os.ReadDir(filepath.Join(s.dirs["a"], "snapshots"))
		for _, e := range ents {
			m, _ := os.ReadFile(filepath.Join(s.dirs["a"], "snapshots", e.Name(), "metadata.json"))
			b, _ := os.ReadFile(filepath.Join(s.dirs["a"], "snapshots", e.Name(), "snapshot.bin"))
			fmt.Printf("S20 on disk %s: %.60s bytes=%q\n", e.Name(), m, b)
		}
		s.stopAll()
	})
}

// S2: membership future never answered.
func TestS2(t *testing.T) {
	synctest.Test(t, func(t *testing.T) {
		s := newSim(t, "a", "b")
		s.mk("a", map[string]string{"a": s.addrs["a"]}).Start()
		s.mk("b", nil).Start()
		s.auto(2 * time.Second)
		f := s.nodes["a"].AddServer("b", s.addrs["b"], false, 3*time.Second)
		s.auto(4 * time.Second)
		c := s.nodes["a"].Configuration()
		fmt.Printf("S2 future err=%v; configuration index=%d members=%d commit=%d\n", f.Await().Error(), c.Index, len(c.Members), s.nodes["a"].Status().CommitIndex)
		s.stopAll()
	})
}

// S12: non-empty temporary snapshot directory left by a crash.
func TestS12(t *testing.T) {
	dir := t.TempDir()
	ss, _ := raft.NewSnapshotStorage(dir)
	f, _ := ss.NewSnapshotFile(3, 1, []byte("cfg"))
	f.Write([]byte("partial"))
	_, err := raft.NewSnapshotStorage(dir)
	fmt.Println("S12 first attempt:", err)
	_, err = raft.NewSnapshotStorage(dir)
	fmt.Println("S12 second attempt:", err)
}

// S13: torn tail of log.bin.
func TestS13(t *testing.T) {
	for _, cut := range []int{1, 4, 6} {
		dir := t.TempDir()
		l, _ := raft.NewLog(dir)
		l.Open()
		l.Replay()
		l.AppendEntry(raft.NewLogEntry(1, 1, []byte("abc"), raft.OperationEntry))
		l.Close()
		p := filepath.Join(dir, "log", "log.bin")
		b, _ := os.ReadFile(p)
		rec := b[4:] // the one real record: header+body
		os.WriteFile(p, append(b, rec[:cut]...), 0o666)
		l2, _ := raft.NewLog(dir)
		l2.Open()
		err := l2.Replay()
		fmt.Printf("S13 cut=%d replay err=%v\n", cut, err)
		if err == nil {
			l2.AppendEntry(raft.NewLogEntry(2, 1, []byte("zz"), raft.OperationEntry))
			l2.Close()
			l3, _ := raft.NewLog(dir)
			l3.Open()
			fmt.Printf("S13 cut=%d append + reopen err=%v\n", cut, l3.Replay())
		}
	}
}

// S11: latent comparator bug; newest snapshot must stay last.
func TestS11(t *testing.T) {
	dir := t.TempDir()
	ss, _ := raft.NewSnapshotStorage(dir)
	for i := 1; i <= 400; i++ {
		f, _ := ss.NewSnapshotFile(uint64(i), 1, nil)
		f.Write([]byte{byte(i)})
		f.Close()
		g, err := ss.SnapshotFile()
		if err != nil || g.Metadata().LastIncludedIndex != uint64(i) {
			fmt.Printf("S11 after %d snapshots: err=%v\n", i, err)
			return
		}
		g.Close()
	}
	fmt.Println("S11 newest stays last for 1..400 snapshots")
}
