#!/usr/bin/env python3
"""Mutant drill: applies each seeded change of /verif/seeded/<id>/patch.diff to /repo, runs the
check of its property (quick tier, evidence and replays redirected to scratch), undoes the change
straight afterwards and records the outcome in seeded/<id>/drill.json.  Usage: drill.py [ids...]
Environment: DRILL_TIER (quick), DRILL_EXTRA=1 also runs the checks named in meta.json "also"."""
import json, os, subprocess, sys, time, shutil
VERIF = os.path.dirname(os.path.abspath(__file__))
REPO = "/repo"
tier = os.environ.get("DRILL_TIER", "quick")
ids = sys.argv[1:] or sorted(os.listdir(os.path.join(VERIF, "seeded")))
scratch = os.path.join(VERIF, "scratch", "drill")
os.makedirs(scratch, exist_ok=True)
for mid in ids:
    d = os.path.join(VERIF, "seeded", mid)
    patch = os.path.join(d, "patch.diff")
    if not os.path.exists(patch):
        continue
    prop = mid.split("-")[0]
    props = [prop] + [p for p in os.environ.get("DRILL_ALSO", "").split(",") if p]
    st = subprocess.run(["git", "-C", REPO, "status", "--porcelain", "--untracked-files=no"], stdout=subprocess.PIPE, text=True).stdout
    if st.strip():
        print("REPO DIRTY, abort:", st); sys.exit(2)
    rc = subprocess.run(["git", "-C", REPO, "apply", patch]).returncode
    if rc != 0:
        print(mid, "patch does not apply"); continue
    res = {"id": mid, "tier": tier, "results": {}}
    try:
        for p in props:
            ev = os.path.join(scratch, mid); os.makedirs(ev, exist_ok=True)
            env = dict(os.environ, VERIF_EVIDENCE_DIR=ev, VERIF_REPLAY_DIR=ev)
            t0 = time.time()
            r = subprocess.run([os.path.join(VERIF, "check"), p, "--tier", tier], cwd=VERIF, env=env, stdout=subprocess.PIPE, stderr=subprocess.STDOUT, text=True)
            lines = [l for l in r.stdout.splitlines() if l.startswith("VIOLATION") or l.startswith("KNOWN-FINDING")]
            first = None
            for l in lines:
                if l.startswith("VIOLATION") and "replay=" in l:
                    rp = l.split("replay=")[1].split()[0]
                    try:
                        j = json.load(open(rp))
                        first = {k: j.get(k) for k in ("kind", "engine", "oracle", "what", "signature", "broken") if k in j}
                        if "finding" in j:
                            f = j["finding"]; first = {k: f.get(k) for k in ("kind", "oracle", "property", "signature")}
                    except Exception as e:
                        first = {"error": str(e)}
                    break
            res["results"][p] = {"rc": r.returncode, "wall_s": round(time.time() - t0, 1), "lines": [l[:300] for l in lines][:8], "first_replay": first}
            print(mid, p, "rc=%d" % r.returncode, "%.0fs" % (time.time() - t0), (lines[0][:160] if lines else ""), flush=True)
    finally:
        subprocess.run(["git", "-C", REPO, "checkout", "--", "."])
    json.dump(res, open(os.path.join(d, "drill.json"), "w"), indent=1)
