package raft

import (
	"sync"
	"testing"
)

func TestS18BootstrapRace(t *testing.T) {
	tmp := t.TempDir()
	fsm := newStateMachineMock(false, 0)
	r, err := NewRaft("a", "127.0.0.1:18081", fsm, tmp)
	if err != nil {
		t.Fatal(err)
	}
	var wg sync.WaitGroup
	wg.Add(2)
	go func() { defer wg.Done(); r.Bootstrap(map[string]string{"a": "127.0.0.1:18081"}) }()
	go func() { defer wg.Done(); _ = r.Configuration(); _ = r.Status() }()
	wg.Wait()
}
