package raft

import (
	"sync"
	"testing"
)

func TestS29StopStartRace(t *testing.T) {
	tmp := t.TempDir()
	fsm := newStateMachineMock(false, 0)
	r, err := NewRaft("a", "127.0.0.1:18082", fsm, tmp)
	if err != nil {
		t.Fatal(err)
	}
	if err := r.Bootstrap(map[string]string{"a": "127.0.0.1:18082"}); err != nil {
		t.Fatal(err)
	}
	if err := r.Start(); err != nil {
		t.Fatal(err)
	}
	for i := 0; i < 20; i++ {
		var wg sync.WaitGroup
		wg.Add(2)
		go func() { defer wg.Done(); r.Stop() }()
		go func() { defer wg.Done(); r.Start() }()
		wg.Wait()
		r.Start()
	}
	r.Stop()
}
