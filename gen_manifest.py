#!/usr/bin/env python3
"""Regenerates MANIFEST.json from checkcfg.PROPS (claimed properties) and NOT_CLAIMED."""
import json, subprocess
from checkcfg import PROPS

NOT_CLAIMED = {}
try:
    from checkcfg import NOT_CLAIMED  # noqa
except ImportError:
    pass

hooks = subprocess.run(["git", "-C", "/repo", "log", "--format=%h", "--", "verif_hooks.go"],
                       stdout=subprocess.PIPE, text=True).stdout.split()
m = {
    "version": 1,
    "setup_cmd": "./check --setup",
    "hooks": {
        "guard": "verif",
        "enable": "go test -c -tags verif in /verif/harness (module verif/harness, go 1.26.8, replace github.com/jmsadair/raft => /repo); the only guarded file is /repo/verif_hooks.go",
        "baseline_off_cmd": "cd /repo && go test -mod=mod -vet=off -count=1 -timeout 25m ./...",
        "source_commits": list(reversed(hooks)),
        "add_only": True,
    },
    "engines": [
        {"name": "E1-codec", "path": "harness/e1_codec_test.go", "serves_properties": ["C19", "C12", "C13"],
         "kind_free_text": "differential: bytes produced/consumed by the real converters + protobuf-go vs. the Lean byte-level codec, both directions, plus truncated inputs"},
        {"name": "E2-fstrace", "path": "harness/fstrace.go, harness/e2_fstrace_test.go, harness/e2_statesnap_test.go, harness/e2_program.go", "serves_properties": ["C12", "C13", "C14"],
         "kind_free_text": "fault enumeration + correspondence: storage operation scripts on the real code under strace; crash images from the observed syscalls at every syscall and byte; real recovery on every image vs. sequential spec and Lean replay; syscall programs vs. the model's"},
        {"name": "E3-handlers", "path": "harness/e3_handlers_test.go, harness/e3_vote_test.go", "serves_properties": ["C06", "C08"],
         "kind_free_text": "differential: real RPC handler over real file-backed storage vs. the Lean model function through the line-protocol driver, bounded domains of the property, plus the property's statements as implementation-side oracles"},
    ],
    "checks": [],
    "not_applicable": [],
    "notes": "Technique family: machine-checked proof in Lean 4 + checked correspondence (DESIGN.md). ./check <id> is the single entry point; known findings in known_findings.json.",
}
ids = ["C%02d" % i for i in range(1, 21)]
for pid in ids:
    if pid in PROPS:
        c = PROPS[pid]
        m["checks"].append({
            "property_id": pid,
            "quick_cmd": "./check %s --tier quick" % pid,
            "thorough_cmd": "./check %s --tier thorough" % pid,
            "evidence_file": "evidence/%s.json" % pid,
            "replay_cmd_template": "./check %s --replay {path}" % pid,
            "engine": ", ".join(e["test"] for e in c["engines"]),
            "level_claimed": {"category": c["level"], "text": c["explanation"], "design_ref": "DESIGN.md 6.%d" % int(pid[1:])},
            "level_note": "; ".join(c.get("assumptions", [])) or "see evidence trusted_base",
            "technique": c.get("technique", "Lean 4 theorems over an executable model + differential correspondence with the real code"),
        })
    else:
        m["not_applicable"].append({"property_id": pid, "reason": NOT_CLAIMED.get(pid, "check under construction (DESIGN.md section 10); not yet claimed")})
json.dump(m, open("MANIFEST.json", "w"), indent=1)
print("claimed:", [c["property_id"] for c in m["checks"]])
