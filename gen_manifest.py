#!/usr/bin/env python3
"""Regenerates MANIFEST.json from checkcfg.PROPS (claimed properties) and NOT_CLAIMED."""
import json, subprocess
from checkcfg import PROPS

NOT_CLAIMED = {}
try:
    from checkcfg import NOT_CLAIMED  # noqa
except ImportError:
    pass

hooks = subprocess.run(["git", "-C", "/repo", "log", "--format=%h", "--", "verif_hooks.go"],
                       stdout=subprocess.PIPE, text=True).stdout.split()
def _serves(test, profile=None):
    out = []
    for pid in sorted(PROPS):
        for e in PROPS[pid]["engines"]:
            if e["test"] == test and (profile is None or e.get("env", {}).get("quick", {}).get("VERIF_PROFILE") == profile):
                out.append(pid)
                break
    return out


ENGINES = [
    {"name": "E1-codec", "path": "harness/e1_codec_test.go", "serves_properties": _serves("TestE1Codec"),
     "kind_free_text": "differential: bytes produced/consumed by the real converters, protobuf-go and encoding/json vs. the Lean byte-level codecs (records, six RPC messages, Configuration, snapshot metadata), both directions, truncated inputs, MiB records on the real log file"},
    {"name": "E1-transport", "path": "harness/e1_transport_test.go", "serves_properties": _serves("TestE1Transport"),
     "kind_free_text": "two real gRPC transports on loopback: what the handler and the caller see vs. what was passed in; shut down and run again"},
    {"name": "E2-log-crash", "path": "harness/fstrace.go, harness/e2_fstrace_test.go, harness/e2_program.go", "serves_properties": _serves("TestE2LogCrash"),
     "kind_free_text": "fault enumeration + correspondence: operation scripts (directed pairs + seeded) on the real log under strace; crash images from the observed syscalls at every syscall and byte; real recovery on every image vs. sequential spec and the Lean replay"},
    {"name": "E2-state-snapshot-crash", "path": "harness/e2_statesnap_test.go", "serves_properties": _serves("TestE2StateSnapCrash"),
     "kind_free_text": "the same for the term/vote and snapshot storages, incl. live reads while writers are open and a whole node constructed over every image"},
    {"name": "E3-appendEntries / E3-requestVote / E3-election / E3-installSnapshot", "path": "harness/e3_handlers_test.go, harness/e3_vote_test.go, harness/e3_sections_test.go, harness/e3_install_test.go", "serves_properties": _serves("TestE3AppendEntries"),
     "kind_free_text": "differential: one critical section of the real node over real storage vs. the Lean model function through the line-protocol driver, on the property's domain, plus the property's statements as implementation-side oracles"},
    {"name": "E3-leader", "path": "harness/e3_leader_test.go", "serves_properties": _serves("TestE3Leader"),
     "kind_free_text": "a started real node driven through submissions, reads, membership calls, heartbeats, replies in any order, second leaderships; compared with the model under every order in which the commit/apply/read-only loops may take the wake-ups"},
    {"name": "E3-lifecycle", "path": "harness/e3_lifecycle_test.go", "serves_properties": _serves("TestE3Lifecycle"),
     "kind_free_text": "restore / Start / Restart / Stop over generated directories vs. Model/Lifecycle; every state machine instance sees strictly increasing indices"},
    {"name": "E4-walks (static, reads, lease, churn, snap, crash, snapmember)", "path": "harness/e4_cluster_test.go, harness/sim.go, harness/node.go", "serves_properties": _serves("TestE4Walks"),
     "kind_free_text": "search: seeded scheduler walks over 1-5 real nodes in a synctest bubble (virtual time, parked transport, real storage, crash images, armed crash points, slow snapshots, membership changes); all property oracles after every action and after a fault-free period"},
    {"name": "E4-directed", "path": "harness/e4_directed_test.go", "serves_properties": _serves("TestE4Directed"),
     "kind_free_text": "directed schedules on real nodes: one per confirmed finding (present or repaired) and per scenario the seeded changes called for"},
    {"name": "E5-api / E5-options", "path": "harness/e5_api_test.go, harness/e5_options_test.go", "serves_properties": sorted(set(_serves("TestE5API") + _serves("TestE5Options"))),
     "kind_free_text": "public API words on one node of a live cluster (no panic, no hang, futures resolve); table of timing options; late Await"},
    {"name": "E6-race", "path": "harness/e6_race_test.go", "serves_properties": _serves("TestE6Race"),
     "kind_free_text": "search only: real-time stress under the race detector"},
    {"name": "extract", "path": "harness/cmd/extract/main.go", "serves_properties": ["C18", "C20"],
     "kind_free_text": "translator: go/ast facts (String tables, lock skeleton with access kinds, entry field tables) regenerated into lean/RaftVerif/Generated/Tables.lean on every run"},
]

m = {
    "version": 1,
    "setup_cmd": "./check --setup",
    "hooks": {
        "guard": "verif",
        "enable": "go test -c -tags verif in /verif/harness (module verif/harness, go 1.26.8, replace github.com/jmsadair/raft => /repo); the only guarded file is /repo/verif_hooks.go",
        "baseline_off_cmd": "cd /repo && go test -mod=mod -vet=off -count=1 -timeout 25m ./...",
        "source_commits": list(reversed(hooks)),
        "add_only": True,
    },
    "engines": ENGINES,
    "checks": [],
    "not_applicable": [],
    "notes": "Technique family: machine-checked proof in Lean 4 + checked correspondence (DESIGN.md). ./check <id> is the single entry point; known findings in known_findings.json.",
}
ids = ["C%02d" % i for i in range(1, 21)]
for pid in ids:
    if pid in PROPS:
        c = PROPS[pid]
        m["checks"].append({
            "property_id": pid,
            "quick_cmd": "./check %s --tier quick" % pid,
            "thorough_cmd": "./check %s --tier thorough" % pid,
            "evidence_file": "evidence/%s.json" % pid,
            "replay_cmd_template": "./check %s --replay {path}" % pid,
            "engine": ", ".join(e["test"] for e in c["engines"]),
            "level_claimed": {"category": c["level"], "text": c["explanation"], "design_ref": "DESIGN.md 6.%d" % int(pid[1:])},
            "level_note": "; ".join(c.get("assumptions", [])) or "see evidence trusted_base",
            "technique": c.get("technique", "Lean 4 theorems over an executable model + differential correspondence with the real code"),
        })
    else:
        m["not_applicable"].append({"property_id": pid, "reason": NOT_CLAIMED.get(pid, "check under construction (DESIGN.md section 10); not yet claimed")})
json.dump(m, open("MANIFEST.json", "w"), indent=1)
print("claimed:", [c["property_id"] for c in m["checks"]])
