// extract regenerates lean/RaftVerif/Generated/Tables.lean from the current source of /repo:
//
//   - the constants of State and OperationType and the case tables of their String methods;
//   - the lock skeleton of every method of *Raft: for each access to a field of the node
//     (r.<field>, read or write) whether the node mutex is held at that point, derived by a
//     flow-sensitive walk of the function body (Lock / Unlock / defer Unlock / Cond.Wait /
//     calls to other methods with the lock state at the call site / go statements);
//   - the fields of LogEntry that are assigned after construction, and the ones that are read by
//     code that runs without the node mutex (the converters of requests.go, used by the transport
//     while a request is in flight).
//
// It is the translator of the C18 (tables) and C20 (lock discipline) obligations: the Lean
// theorems quantify over these tables, so a change of the source changes the obligations.
package main

import (
	"reflect"
	"flag"
	"fmt"
	"go/ast"
	"go/parser"
	"go/token"
	"os"
	"path/filepath"
	"sort"
	"strings"
)

type access struct {
	fn, entry, field string
	kind             int // 0 read, 1 use (method call on the component the field refers to), 2 assign
	held             bool
	line             int
}

type analyzer struct {
	fset      *token.FileSet
	funcs     map[string]*ast.FuncDecl // methods of *Raft by name
	recv      map[string]string        // receiver identifier per method
	accesses  []access
	anomalies []string
	done      map[string]bool // fn@entry analysed
	work      []string
	fields    map[string]bool // fields of struct Raft
}

const (
	N = "unlocked"
	H = "locked"
	U = "unknown"
)

func (a *analyzer) pos(n ast.Node) int { return a.fset.Position(n.Pos()).Line }

func (a *analyzer) anomaly(fn string, n ast.Node, msg string) {
	a.anomalies = append(a.anomalies, fmt.Sprintf("%s:%d: %s", fn, a.pos(n), msg))
}

// isMuCall recognises r.mu.Lock() / r.mu.Unlock().
func isMuCall(e ast.Expr, recv string) string {
	c, ok := e.(*ast.CallExpr)
	if !ok {
		return ""
	}
	s, ok := c.Fun.(*ast.SelectorExpr)
	if !ok {
		return ""
	}
	in, ok := s.X.(*ast.SelectorExpr)
	if !ok {
		return ""
	}
	id, ok := in.X.(*ast.Ident)
	if !ok || id.Name != recv || in.Sel.Name != "mu" {
		return ""
	}
	return s.Sel.Name
}

type ctx struct {
	fn, entry, recv string
	deferUnlock     bool
}

// expr records the accesses inside an expression evaluated in lock state st.
func (a *analyzer) expr(c *ctx, e ast.Node, st string, kind int) {
	if e == nil {
		return
	}
	switch x := e.(type) {
	case *ast.SelectorExpr:
		if id, ok := x.X.(*ast.Ident); ok && id.Name == c.recv {
			if a.fields[x.Sel.Name] {
				a.accesses = append(a.accesses, access{c.fn, c.entry, x.Sel.Name, kind, st == H, a.pos(x)})
			}
			return
		}
		// r.f.g ... : an access to r.f (a write to r.f.g mutates the object r.f refers to)
		a.expr(c, x.X, st, kind)
	case *ast.IndexExpr:
		a.expr(c, x.X, st, kind)
		a.expr(c, x.Index, st, 0)
	case *ast.StarExpr:
		a.expr(c, x.X, st, kind)
	case *ast.CallExpr:
		// a call r.method(...): schedule the callee with the lock state here
		if s, ok := x.Fun.(*ast.SelectorExpr); ok {
			if id, ok := s.X.(*ast.Ident); ok && id.Name == c.recv {
				if _, isM := a.funcs[s.Sel.Name]; isM {
					a.schedule(s.Sel.Name, st, c, x)
				} else if a.fields[s.Sel.Name] {
					a.accesses = append(a.accesses, access{c.fn, c.entry, s.Sel.Name, 0, st == H, a.pos(x)})
				}
			} else {
				// r.f.method(...): a use of the component r.f; methods of components may mutate them
				a.expr(c, s.X, st, 1)
			}
		} else {
			a.expr(c, x.Fun, st, 0)
		}
		for _, arg := range x.Args {
			a.expr(c, arg, st, 0)
		}
	case *ast.FuncLit:
		// a closure evaluated where it stands (deferred or called inline): same lock state
		a.block(c, x.Body.List, st)
	case *ast.UnaryExpr:
		if x.Op == token.AND && kind == 0 {
			kind = 1
		}
		a.expr(c, x.X, st, kind)
	case *ast.BinaryExpr:
		a.expr(c, x.X, st, 0)
		a.expr(c, x.Y, st, 0)
	case *ast.ParenExpr:
		a.expr(c, x.X, st, kind)
	case *ast.CompositeLit:
		for _, el := range x.Elts {
			a.expr(c, el, st, 0)
		}
	case *ast.KeyValueExpr:
		a.expr(c, x.Value, st, 0)
	case *ast.SliceExpr:
		a.expr(c, x.X, st, kind)
		a.expr(c, x.Low, st, 0)
		a.expr(c, x.High, st, 0)
	case *ast.TypeAssertExpr:
		a.expr(c, x.X, st, 0)
	case *ast.Ident, *ast.BasicLit:
	default:
		ast.Inspect(e, func(n ast.Node) bool {
			if s, ok := n.(*ast.SelectorExpr); ok {
				if id, ok := s.X.(*ast.Ident); ok && id.Name == c.recv && a.fields[s.Sel.Name] {
					a.accesses = append(a.accesses, access{c.fn, c.entry, s.Sel.Name, 0, st == H, a.pos(s)})
				}
			}
			return true
		})
	}
}

func (a *analyzer) schedule(fn, st string, c *ctx, at ast.Node) {
	if st == U {
		a.anomaly(c.fn, at, "call of "+fn+" in an undetermined lock state")
		return
	}
	key := fn + "@" + st
	if !a.done[key] {
		a.done[key] = true
		a.work = append(a.work, key)
	}
}

// terminates: the statement list ends control flow of the enclosing block (return / panic / continue / break / goto).
func terminates(stmts []ast.Stmt) bool {
	if len(stmts) == 0 {
		return false
	}
	switch s := stmts[len(stmts)-1].(type) {
	case *ast.ReturnStmt, *ast.BranchStmt:
		return true
	case *ast.ExprStmt:
		if c, ok := s.X.(*ast.CallExpr); ok {
			if id, ok := c.Fun.(*ast.Ident); ok && id.Name == "panic" {
				return true
			}
		}
	case *ast.BlockStmt:
		return terminates(s.List)
	}
	return false
}

func merge(x, y string) string {
	if x == y {
		return x
	}
	return U
}

// block walks statements from lock state st and returns the state after them.
func (a *analyzer) block(c *ctx, stmts []ast.Stmt, st string) string {
	for _, s := range stmts {
		st = a.stmt(c, s, st)
	}
	return st
}

func (a *analyzer) stmt(c *ctx, s ast.Stmt, st string) string {
	switch x := s.(type) {
	case *ast.ExprStmt:
		switch isMuCall(x.X, c.recv) {
		case "Lock":
			if st == H {
				a.anomaly(c.fn, x, "Lock with the mutex already held")
			}
			return H
		case "Unlock":
			if st == N {
				a.anomaly(c.fn, x, "Unlock without the mutex held")
			}
			return N
		}
		// Cond.Wait: needs the lock, returns with it
		if call, ok := x.X.(*ast.CallExpr); ok {
			if sel, ok := call.Fun.(*ast.SelectorExpr); ok && sel.Sel.Name == "Wait" {
				if in, ok := sel.X.(*ast.SelectorExpr); ok && strings.HasSuffix(in.Sel.Name, "Cond") {
					if st != H {
						a.anomaly(c.fn, x, "Cond.Wait without the mutex held")
					}
					return st
				}
			}
		}
		a.expr(c, x.X, st, 0)
	case *ast.DeferStmt:
		if isMuCall(x.Call, c.recv) == "Unlock" {
			c.deferUnlock = true
			return st
		}
		// other deferred calls run at return: with `defer Unlock` registered earlier they run before it (LIFO), lock still held
		a.expr(c, x.Call, st, 0)
	case *ast.GoStmt:
		// arguments are evaluated here; the callee starts without the lock
		if sel, ok := x.Call.Fun.(*ast.SelectorExpr); ok {
			if id, ok := sel.X.(*ast.Ident); ok && id.Name == c.recv {
				if _, isM := a.funcs[sel.Sel.Name]; isM {
					a.schedule(sel.Sel.Name, N, c, x)
				}
			}
		}
		if fl, ok := x.Call.Fun.(*ast.FuncLit); ok {
			a.block(&ctx{fn: c.fn + ".go", entry: N, recv: c.recv}, fl.Body.List, N)
		}
		for _, arg := range x.Call.Args {
			a.expr(c, arg, st, 0)
		}
	case *ast.AssignStmt:
		for _, r := range x.Rhs {
			a.expr(c, r, st, 0)
		}
		for _, l := range x.Lhs {
			a.expr(c, l, st, 2)
		}
	case *ast.IncDecStmt:
		a.expr(c, x.X, st, 2)
	case *ast.ReturnStmt:
		for _, r := range x.Results {
			a.expr(c, r, st, 0)
		}
		want := c.entry
		if c.deferUnlock {
			want = H
		}
		if st != want {
			a.anomaly(c.fn, x, fmt.Sprintf("returns with the mutex %s, entered %s (defer unlock: %v)", st, c.entry, c.deferUnlock))
		}
	case *ast.IfStmt:
		if x.Init != nil {
			st = a.stmt(c, x.Init, st)
		}
		a.expr(c, x.Cond, st, 0)
		t := a.block(c, x.Body.List, st)
		tTerm := terminates(x.Body.List)
		e, eTerm := st, false
		if x.Else != nil {
			switch el := x.Else.(type) {
			case *ast.BlockStmt:
				e = a.block(c, el.List, st)
				eTerm = terminates(el.List)
			default:
				e = a.stmt(c, el, st)
			}
		}
		switch {
		case tTerm && eTerm:
			return st
		case tTerm:
			return e
		case eTerm:
			return t
		default:
			m := merge(t, e)
			if m == U {
				a.anomaly(c.fn, x, "branches leave the mutex in different states")
			}
			return m
		}
	case *ast.ForStmt:
		if x.Init != nil {
			st = a.stmt(c, x.Init, st)
		}
		a.expr(c, x.Cond, st, 0)
		end := a.block(c, x.Body.List, st)
		if x.Post != nil {
			a.stmt(c, x.Post, end)
		}
		if end != st && !terminates(x.Body.List) {
			a.anomaly(c.fn, x, "loop body changes the lock state ("+st+" -> "+end+")")
		}
		return st
	case *ast.RangeStmt:
		a.expr(c, x.X, st, 0)
		end := a.block(c, x.Body.List, st)
		if end != st && !terminates(x.Body.List) {
			a.anomaly(c.fn, x, "loop body changes the lock state ("+st+" -> "+end+")")
		}
		return st
	case *ast.BlockStmt:
		return a.block(c, x.List, st)
	case *ast.SwitchStmt:
		if x.Init != nil {
			st = a.stmt(c, x.Init, st)
		}
		a.expr(c, x.Tag, st, 0)
		return a.clauses(c, x.Body.List, st, x)
	case *ast.TypeSwitchStmt:
		return a.clauses(c, x.Body.List, st, x)
	case *ast.SelectStmt:
		return a.clauses(c, x.Body.List, st, x)
	case *ast.DeclStmt:
		ast.Inspect(x, func(n ast.Node) bool {
			if e, ok := n.(ast.Expr); ok {
				a.expr(c, e, st, 0)
				return false
			}
			return true
		})
	case *ast.BranchStmt, *ast.EmptyStmt, *ast.LabeledStmt:
	case *ast.SendStmt:
		a.expr(c, x.Chan, st, 0)
		a.expr(c, x.Value, st, 0)
	default:
		a.anomaly(c.fn, s, fmt.Sprintf("statement kind %T not analysed", s))
	}
	return st
}

func (a *analyzer) clauses(c *ctx, list []ast.Stmt, st string, at ast.Node) string {
	out := ""
	for _, cl := range list {
		var body []ast.Stmt
		switch k := cl.(type) {
		case *ast.CaseClause:
			for _, e := range k.List {
				a.expr(c, e, st, 0)
			}
			body = k.Body
		case *ast.CommClause:
			if k.Comm != nil {
				a.stmt(c, k.Comm, st)
			}
			body = k.Body
		}
		end := a.block(c, body, st)
		if terminates(body) {
			continue
		}
		if out == "" {
			out = end
		} else if out != end {
			a.anomaly(c.fn, at, "clauses leave the mutex in different states")
			out = U
		}
	}
	if out == "" {
		return st
	}
	return out
}

func lit(s string) string { return "\"" + strings.ReplaceAll(s, "\"", "\\\"") + "\"" }

func strList(xs []string) string {
	q := make([]string, len(xs))
	for i, x := range xs {
		q[i] = lit(x)
	}
	return "[" + strings.Join(q, ", ") + "]"
}

// constBlock returns the names of the constants of type typ, in declaration order.
func constBlock(files []*ast.File, typ string) []string {
	var out []string
	for _, f := range files {
		for _, d := range f.Decls {
			g, ok := d.(*ast.GenDecl)
			if !ok || g.Tok != token.CONST {
				continue
			}
			cur := ""
			var names []string
			for _, sp := range g.Specs {
				vs := sp.(*ast.ValueSpec)
				if vs.Type != nil {
					if id, ok := vs.Type.(*ast.Ident); ok {
						cur = id.Name
					} else {
						cur = ""
					}
				} else if len(vs.Values) > 0 {
					cur = ""
				}
				if cur == typ {
					for _, n := range vs.Names {
						names = append(names, n.Name)
					}
				}
			}
			out = append(out, names...)
		}
	}
	return out
}

// stringCases returns the (constant, literal) pairs of `func (x typ) String()` and what its default does.
func stringCases(files []*ast.File, typ string) (cases [][2]string, def string) {
	def = "none"
	for _, f := range files {
		for _, d := range f.Decls {
			fd, ok := d.(*ast.FuncDecl)
			if !ok || fd.Recv == nil || fd.Name.Name != "String" || len(fd.Recv.List) != 1 {
				continue
			}
			if id, ok := fd.Recv.List[0].Type.(*ast.Ident); !ok || id.Name != typ {
				continue
			}
			ast.Inspect(fd.Body, func(n ast.Node) bool {
				cc, ok := n.(*ast.CaseClause)
				if !ok {
					return true
				}
				res := "other"
				if len(cc.Body) == 1 {
					switch b := cc.Body[0].(type) {
					case *ast.ReturnStmt:
						if len(b.Results) == 1 {
							if bl, ok := b.Results[0].(*ast.BasicLit); ok {
								res = strings.Trim(bl.Value, "\"")
							}
						}
					case *ast.ExprStmt:
						if c, ok := b.X.(*ast.CallExpr); ok {
							if id, ok := c.Fun.(*ast.Ident); ok && id.Name == "panic" {
								res = "panic"
							}
						}
					}
				}
				if cc.List == nil {
					def = res
				}
				for _, e := range cc.List {
					if id, ok := e.(*ast.Ident); ok {
						cases = append(cases, [2]string{id.Name, res})
					}
				}
				return true
			})
		}
	}
	return
}

func main() {
	repo := flag.String("repo", "/repo", "source tree")
	out := flag.String("out", "", "Lean file to write")
	flag.Parse()
	fset := token.NewFileSet()
	pkgs, err := parser.ParseDir(fset, *repo, func(fi os.FileInfo) bool {
		return !strings.HasSuffix(fi.Name(), "_test.go") && fi.Name() != "verif_hooks.go"
	}, 0)
	if err != nil {
		fmt.Fprintln(os.Stderr, err)
		os.Exit(2)
	}
	var files []*ast.File
	var names []string
	for _, p := range pkgs {
		for n := range p.Files {
			names = append(names, n)
		}
	}
	sort.Strings(names)
	for _, n := range names {
		for _, p := range pkgs {
			if f, ok := p.Files[n]; ok {
				files = append(files, f)
			}
		}
	}
	a := &analyzer{fset: fset, funcs: map[string]*ast.FuncDecl{}, recv: map[string]string{}, done: map[string]bool{}, fields: map[string]bool{}}
	var fieldOrder []string
	entryFields := map[string]bool{}
	for _, f := range files {
		for _, d := range f.Decls {
			switch x := d.(type) {
			case *ast.GenDecl:
				for _, sp := range x.Specs {
					ts, ok := sp.(*ast.TypeSpec)
					if !ok {
						continue
					}
					st, ok := ts.Type.(*ast.StructType)
					if !ok {
						continue
					}
					for _, fl := range st.Fields.List {
						for _, n := range fl.Names {
							if ts.Name.Name == "Raft" {
								a.fields[n.Name] = true
								fieldOrder = append(fieldOrder, n.Name)
							}
							if ts.Name.Name == "LogEntry" {
								entryFields[n.Name] = true
							}
						}
					}
				}
			case *ast.FuncDecl:
				if x.Recv != nil && len(x.Recv.List) == 1 {
					if st, ok := x.Recv.List[0].Type.(*ast.StarExpr); ok {
						if id, ok := st.X.(*ast.Ident); ok && id.Name == "Raft" && len(x.Recv.List[0].Names) == 1 {
							a.funcs[x.Name.Name] = x
							a.recv[x.Name.Name] = x.Recv.List[0].Names[0].Name
						}
					}
				}
			}
		}
	}
	// roots: exported methods (public API and RPC handlers) start without the lock
	var roots []string
	for n := range a.funcs {
		if ast.IsExported(n) {
			roots = append(roots, n)
		}
	}
	sort.Strings(roots)
	for _, n := range roots {
		a.done[n+"@"+N] = true
		a.work = append(a.work, n+"@"+N)
	}
	var analysed []string
	for len(a.work) > 0 {
		key := a.work[0]
		a.work = a.work[1:]
		analysed = append(analysed, key)
		parts := strings.Split(key, "@")
		fd := a.funcs[parts[0]]
		c := &ctx{fn: parts[0], entry: parts[1], recv: a.recv[parts[0]]}
		end := a.block(c, fd.Body.List, parts[1])
		want := parts[1]
		if c.deferUnlock {
			want = H
		}
		if end != want && !terminates(fd.Body.List) {
			a.anomaly(parts[0], fd, fmt.Sprintf("falls off the end with the mutex %s, entered %s (defer unlock: %v)", end, parts[1], c.deferUnlock))
		}
	}
	sort.Strings(analysed)
	var never []string
	for n := range a.funcs {
		if !a.done[n+"@"+N] && !a.done[n+"@"+H] {
			never = append(never, n)
		}
	}
	sort.Strings(never)
	// fields of the node assigned anywhere outside NewRaft (the constructor publishes the object afterwards)
	assigned := map[string]bool{}
	for _, ac := range a.accesses {
		if ac.kind == 2 {
			assigned[ac.field] = true
		}
	}
	// LogEntry: fields assigned through a selector outside NewLogEntry / decoders; fields read by the lock-free converters
	written, readUnlocked := map[string]bool{}, map[string]bool{}
	for _, f := range files {
		fname := filepath.Base(fset.Position(f.Pos()).Filename)
		for _, d := range f.Decls {
			fd, ok := d.(*ast.FuncDecl)
			if !ok || fd.Body == nil {
				continue
			}
			ast.Inspect(fd.Body, func(n ast.Node) bool {
				if as, ok := n.(*ast.AssignStmt); ok {
					for _, l := range as.Lhs {
						if s, ok := l.(*ast.SelectorExpr); ok && entryFields[s.Sel.Name] {
							if id, ok := s.X.(*ast.Ident); ok && (strings.Contains(strings.ToLower(id.Name), "entry") || id.Name == "e") {
								written[s.Sel.Name] = true
							}
						}
					}
				}
				return true
			})
			if fname == "requests.go" || fname == "transport.go" {
				ast.Inspect(fd.Body, func(n ast.Node) bool {
					if s, ok := n.(*ast.SelectorExpr); ok && entryFields[s.Sel.Name] {
						if id, ok := s.X.(*ast.Ident); ok && (strings.Contains(strings.ToLower(id.Name), "entry") || id.Name == "e") {
							readUnlocked[s.Sel.Name] = true
						}
					}
					return true
				})
			}
		}
	}
	keys := func(m map[string]bool) []string {
		var o []string
		for k := range m {
			o = append(o, k)
		}
		sort.Strings(o)
		return o
	}
	var b strings.Builder
	b.WriteString("/-\n  Generated/Tables.lean — REGENERATED from /repo on every run by harness/cmd/extract. Do not edit.\n-/\nnamespace Raft.Gen\n\n")
	for _, typ := range []string{"State", "OperationType"} {
		cs := constBlock(files, typ)
		cases, def := stringCases(files, typ)
		lower := strings.ToLower(typ[:1]) + typ[1:]
		fmt.Fprintf(&b, "def %sConsts : List String := %s\n", lower, strList(cs))
		var ps []string
		for _, c := range cases {
			ps = append(ps, fmt.Sprintf("(%s, %s)", lit(c[0]), lit(c[1])))
		}
		fmt.Fprintf(&b, "def %sStringCases : List (String × String) := [%s]\n", lower, strings.Join(ps, ", "))
		fmt.Fprintf(&b, "def %sStringDefault : String := %s\n\n", lower, lit(def))
	}
	// the wire table: message, Go field, wire kind, field number, repeated — read from the struct tags of the
	// generated protobuf code (internal/protobuf/*.pb.go)
	{
		pbset := token.NewFileSet()
		pbpkgs, err := parser.ParseDir(pbset, filepath.Join(*repo, "internal", "protobuf"), func(fi os.FileInfo) bool {
			return strings.HasSuffix(fi.Name(), ".pb.go") && !strings.HasSuffix(fi.Name(), "_grpc.pb.go")
		}, 0)
		if err != nil {
			fmt.Fprintln(os.Stderr, err)
			os.Exit(2)
		}
		var rows []string
		var pbnames []string
		for _, p := range pbpkgs {
			for n := range p.Files {
				pbnames = append(pbnames, n)
			}
		}
		sort.Strings(pbnames)
		for _, n := range pbnames {
			for _, p := range pbpkgs {
				f, ok := p.Files[n]
				if !ok {
					continue
				}
				for _, d := range f.Decls {
					gd, ok := d.(*ast.GenDecl)
					if !ok {
						continue
					}
					for _, sp := range gd.Specs {
						ts, ok := sp.(*ast.TypeSpec)
						if !ok {
							continue
						}
						st, ok := ts.Type.(*ast.StructType)
						if !ok {
							continue
						}
						for _, fl := range st.Fields.List {
							if fl.Tag == nil || len(fl.Names) != 1 {
								continue
							}
							tag := reflect.StructTag(strings.Trim(fl.Tag.Value, "`")).Get("protobuf")
							if tag == "" {
								continue
							}
							parts := strings.Split(tag, ",")
							if len(parts) < 3 {
								continue
							}
							rows = append(rows, fmt.Sprintf("(%s, %s, %s, %s, %v)", lit(ts.Name.Name), lit(fl.Names[0].Name), lit(parts[0]), parts[1], parts[2] == "rep"))
						}
					}
				}
			}
		}
		fmt.Fprintf(&b, "/-- wire table of internal/protobuf: (message, Go field, wire kind, field number, repeated) -/\ndef pbFields : List (String × String × String × Nat × Bool) := [\n  %s]\n\n", strings.Join(rows, ",\n  "))
	}
	fmt.Fprintf(&b, "/-- fields of struct Raft -/\ndef nodeFields : List String := %s\n", strList(fieldOrder))
	fmt.Fprintf(&b, "/-- fields assigned in some method, i.e. after NewRaft published the object -/\ndef mutatedFields : List String := %s\n", strList(keys(assigned)))
	fmt.Fprintf(&b, "/-- analysed (function@lock state at entry) pairs -/\ndef analysed : List String := %s\n", strList(analysed))
	fmt.Fprintf(&b, "/-- methods never reached from an exported method or a go statement -/\ndef unreached : List String := %s\n", strList(never))
	sort.Strings(a.anomalies)
	fmt.Fprintf(&b, "/-- places where the walk could not determine the lock state, or found it inconsistent -/\ndef lockAnomalies : List String := %s\n\n", strList(a.anomalies))
	// dedupe accesses: (fn, entry, field, write, held) with the first line
	type k struct {
		fn, entry, field string
		kind             int
		held             bool
	}
	first := map[k]int{}
	var order []k
	for _, ac := range a.accesses {
		kk := k{ac.fn, ac.entry, ac.field, ac.kind, ac.held}
		if _, ok := first[kk]; !ok {
			first[kk] = ac.line
			order = append(order, kk)
		}
	}
	sort.Slice(order, func(i, j int) bool {
		if order[i].fn != order[j].fn {
			return order[i].fn < order[j].fn
		}
		if order[i].entry != order[j].entry {
			return order[i].entry < order[j].entry
		}
		if order[i].field != order[j].field {
			return order[i].field < order[j].field
		}
		if order[i].kind != order[j].kind {
			return order[i].kind < order[j].kind
		}
		return !order[i].held
	})
	b.WriteString("/-- kind: 0 read, 1 use (method call on / address of the component), 2 assign -/\nstructure Access where\n  fn : String\n  entry : String\n  field : String\n  kind : Nat\n  held : Bool\n  line : Nat\nderiving DecidableEq, Repr\n\n")
	b.WriteString("/-- every access to a field of the node in a method of *Raft, with the lock state the walk derived -/\ndef accesses : List Access := [\n")
	for i, kk := range order {
		sep := ","
		if i == len(order)-1 {
			sep = ""
		}
		fmt.Fprintf(&b, "  ⟨%s, %s, %s, %d, %v, %d⟩%s\n", lit(kk.fn), lit(kk.entry), lit(kk.field), kk.kind, kk.held, first[kk], sep)
	}
	b.WriteString("]\n\n")
	fmt.Fprintf(&b, "/-- LogEntry fields assigned through an entry variable after construction -/\ndef entryFieldsWritten : List String := %s\n", strList(keys(written)))
	fmt.Fprintf(&b, "/-- LogEntry fields read by requests.go / transport.go (run without the node mutex while a request is in flight) -/\ndef entryFieldsReadUnlocked : List String := %s\n", strList(keys(readUnlocked)))
	b.WriteString("\nend Raft.Gen\n")
	if *out == "" {
		fmt.Print(b.String())
		return
	}
	os.MkdirAll(filepath.Dir(*out), 0o755)
	os.Remove(*out)
	if err := os.WriteFile(*out, []byte(b.String()), 0o644); err != nil {
		fmt.Fprintln(os.Stderr, err)
		os.Exit(2)
	}
}
