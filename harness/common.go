// Package harness drives the real jmsadair/raft code (built from /repo with the
// "verif" build tag) and compares it with the Lean model through the line protocol
// of lean/RaftVerif/Driver/Text.lean.
package harness

import (
	"bufio"
	"encoding/json"
	"fmt"
	"io"
	"os"
	"os/exec"
	"sort"
	"strconv"
	"strings"
	"sync"

	"github.com/jmsadair/raft"
)

// ---------------------------------------------------------------- PRNG

// Rng is splitmix64; every random choice of the harness derives from VERIF_SEED.
type Rng struct{ s uint64 }

func NewRng(seed uint64) *Rng { return &Rng{s: seed*0x9E3779B97F4A7C15 + 0x1234567} }
func (r *Rng) Next() uint64 {
	r.s += 0x9E3779B97F4A7C15
	z := r.s
	z = (z ^ (z >> 30)) * 0xBF58476D1CE4E5B9
	z = (z ^ (z >> 27)) * 0x94D049BB133111EB
	return z ^ (z >> 31)
}
func (r *Rng) Intn(n int) int {
	if n <= 0 {
		return 0
	}
	return int(r.Next() % uint64(n))
}
func (r *Rng) Bool() bool { return r.Next()&1 == 1 }
func (r *Rng) Shuffle(n int, swap func(i, j int)) {
	for i := n - 1; i > 0; i-- {
		swap(i, r.Intn(i+1))
	}
}
func (r *Rng) Chance(p int) bool { return r.Intn(100) < p }

func Seed() uint64 {
	if s := os.Getenv("VERIF_SEED"); s != "" {
		if v, err := strconv.ParseUint(s, 10, 64); err == nil {
			return v
		}
	}
	return 1
}

func Tier() string {
	if t := os.Getenv("VERIF_TIER"); t != "" {
		return t
	}
	return "quick"
}

func EnvInt(name string, def int) int {
	if s := os.Getenv(name); s != "" {
		if v, err := strconv.Atoi(s); err == nil {
			return v
		}
	}
	return def
}

// ---------------------------------------------------------------- model-side values

type Cfg struct {
	Index   uint64
	Members [][2]uint64 // (id, voter 0/1), sorted by id
}

func (c *Cfg) String() string {
	if c == nil {
		return "nil"
	}
	parts := []string{fmt.Sprintf("c%d", c.Index)}
	for _, m := range c.Members {
		v := "n"
		if m[1] == 1 {
			v = "v"
		}
		parts = append(parts, fmt.Sprintf("%d%s", m[0], v))
	}
	return strings.Join(parts, "/")
}

func Addr(id uint64) string { return fmt.Sprintf("127.0.0.1:%d", 9000+id) }
func ID(id uint64) string {
	if id == 0 {
		return ""
	}
	return strconv.FormatUint(id, 10)
}
func IDNum(s string) uint64 {
	if s == "" {
		return 0
	}
	v, err := strconv.ParseUint(s, 10, 64)
	if err != nil {
		return 999999
	}
	return v
}

func (c *Cfg) ToRaft() *raft.Configuration {
	if c == nil {
		return nil
	}
	out := &raft.Configuration{Index: c.Index, Members: map[string]string{}, IsVoter: map[string]bool{}}
	for _, m := range c.Members {
		out.Members[ID(m[0])] = Addr(m[0])
		out.IsVoter[ID(m[0])] = m[1] == 1
	}
	return out
}

func CfgFromRaft(c *raft.Configuration) *Cfg {
	if c == nil {
		return nil
	}
	out := &Cfg{Index: c.Index}
	for id := range c.Members {
		v := uint64(0)
		if c.IsVoter[id] {
			v = 1
		}
		out.Members = append(out.Members, [2]uint64{IDNum(id), v})
	}
	sort.Slice(out.Members, func(i, j int) bool { return out.Members[i][0] < out.Members[j][0] })
	return out
}

type Ent struct {
	Index, Term, Kind, Data uint64
	Cfg                     *Cfg
}

func (e Ent) String() string {
	s := fmt.Sprintf("%d.%d.%d.%d", e.Index, e.Term, e.Kind, e.Data)
	if e.Cfg != nil {
		s += "." + e.Cfg.String()
	}
	return s
}

func EntsString(es []Ent) string {
	if len(es) == 0 {
		return "-"
	}
	parts := make([]string, len(es))
	for i, e := range es {
		parts[i] = e.String()
	}
	return strings.Join(parts, ";")
}

var codec raft.Transport

func init() {
	t, err := raft.NewTransport("127.0.0.1:0")
	if err != nil {
		panic(err)
	}
	codec = t
}

func (e Ent) ToRaft() *raft.LogEntry {
	var data []byte
	switch e.Kind {
	case 0:
		data = []byte{}
	case 2:
		if e.Cfg != nil {
			d, err := codec.EncodeConfiguration(e.Cfg.ToRaft())
			if err != nil {
				panic(err)
			}
			data = d
		}
	default:
		data = []byte(strconv.FormatUint(e.Data, 10))
	}
	return raft.NewLogEntry(e.Index, e.Term, data, raft.LogEntryType(e.Kind))
}

func EntFromRaft(e *raft.LogEntry) Ent {
	out := Ent{Index: e.Index, Term: e.Term, Kind: uint64(e.EntryType)}
	switch e.EntryType {
	case raft.ConfigurationEntry:
		c, err := codec.DecodeConfiguration(e.Data)
		if err == nil {
			out.Cfg = CfgFromRaft(&c)
		}
	case raft.NoOpEntry:
	default:
		if v, err := strconv.ParseUint(string(e.Data), 10, 64); err == nil {
			out.Data = v
		} else {
			out.Data = 888888
		}
	}
	return out
}

func EntsToRaft(es []Ent) []*raft.LogEntry {
	out := make([]*raft.LogEntry, len(es))
	for i, e := range es {
		out[i] = e.ToRaft()
	}
	return out
}

type LogSt struct {
	Base, BaseTerm uint64
	Ents           []Ent
}

func (l LogSt) String() string {
	return fmt.Sprintf("L%d.%d:%s", l.Base, l.BaseTerm, EntsString(l.Ents))
}
func (l LogSt) LastIndex() uint64 {
	if len(l.Ents) == 0 {
		return l.Base
	}
	return l.Ents[len(l.Ents)-1].Index
}
func (l LogSt) LastTerm() uint64 {
	if len(l.Ents) == 0 {
		return l.BaseTerm
	}
	return l.Ents[len(l.Ents)-1].Term
}
func (l LogSt) Get(i uint64) *Ent {
	if i <= l.Base || i-l.Base > uint64(len(l.Ents)) {
		return nil
	}
	return &l.Ents[i-l.Base-1]
}

type Fol struct {
	ID, Next, Match uint64
	SnapOpen        bool
}

type NodeSt struct {
	ID                 uint64
	Role               string // L F P C S
	Term, Vote, Leader uint64
	Log                LogSt
	CI, LA, SI, ST     uint64
	Cfg                *Cfg
	Com                *Cfg
	LC, LE             int64 // virtual ms since epoch
	SV                 bool
	Fol                []Fol
	PRep               []uint64
	Reads              []string
	CfgF               string
	Recv               string
	ET, LD             int64
	PW                 bool
	RS                 uint64
}

func b01(b bool) string {
	if b {
		return "1"
	}
	return "0"
}

func (n NodeSt) String() string {
	fols := "-"
	if len(n.Fol) > 0 {
		fs := append([]Fol{}, n.Fol...)
		sort.Slice(fs, func(i, j int) bool { return fs[i].ID < fs[j].ID })
		parts := make([]string, len(fs))
		for i, f := range fs {
			parts[i] = fmt.Sprintf("%d.%d.%d.%s", f.ID, f.Next, f.Match, b01(f.SnapOpen))
		}
		fols = strings.Join(parts, ";")
	}
	prep := "-"
	if len(n.PRep) > 0 {
		parts := make([]string, len(n.PRep))
		for i, p := range n.PRep {
			parts[i] = strconv.FormatUint(p, 10)
		}
		prep = strings.Join(parts, ";")
	}
	reads := "-"
	if len(n.Reads) > 0 {
		reads = strings.Join(n.Reads, ";")
	}
	cfg := n.Cfg
	if cfg == nil {
		cfg = &Cfg{}
	}
	cfgf := n.CfgF
	if cfgf == "" {
		cfgf = "nil"
	}
	recv := n.Recv
	if recv == "" {
		recv = "nil"
	}
	lc, le := n.LC, n.LE
	if lc < 0 {
		lc = 0
	}
	if le < 0 {
		le = 0
	}
	return fmt.Sprintf("id=%d role=%s term=%d vote=%d leader=%d log=%s ci=%d la=%d si=%d st=%d cfg=%s com=%s lc=%d le=%d sv=%s fol=%s prep=%s reads=%s cfgf=%s recv=%s et=%d ld=%d rs=%d pw=%s",
		n.ID, n.Role, n.Term, n.Vote, n.Leader, n.Log.String(), n.CI, n.LA, n.SI, n.ST, cfg.String(), n.Com.String(),
		lc, le, b01(n.SV), fols, prep, reads, cfgf, recv, n.ET, n.LD, n.RS, b01(n.PW))
}

func RoleOf(s raft.State) string {
	switch s {
	case raft.Leader:
		return "L"
	case raft.Follower:
		return "F"
	case raft.PreCandidate:
		return "P"
	case raft.Candidate:
		return "C"
	default:
		return "S"
	}
}
func StateOf(r string) raft.State {
	switch r {
	case "L":
		return raft.Leader
	case "F":
		return raft.Follower
	case "P":
		return raft.PreCandidate
	case "C":
		return raft.Candidate
	default:
		return raft.Shutdown
	}
}

// ---------------------------------------------------------------- key=value helpers

type KV map[string]string

func ParseKV(s string) KV {
	out := KV{}
	for _, tok := range strings.Fields(s) {
		if i := strings.IndexByte(tok, '='); i > 0 {
			out[tok[:i]] = tok[i+1:]
		}
	}
	return out
}

// DiffKV returns the keys (restricted to keys, or all of a's when nil) whose values differ.
func DiffKV(a, b KV, keys []string) []string {
	var out []string
	if keys == nil {
		for k := range a {
			keys = append(keys, k)
		}
		sort.Strings(keys)
	}
	for _, k := range keys {
		if a[k] != b[k] {
			out = append(out, fmt.Sprintf("%s: impl=%s model=%s", k, a[k], b[k]))
		}
	}
	return out
}

// FilterEffects keeps only the effect tokens whose name is in keep.
func FilterEffects(eff string, keep map[string]bool) string {
	eff = strings.TrimPrefix(eff, "eff=")
	if eff == "-" || eff == "" {
		return "-"
	}
	var out []string
	for _, tok := range splitTop(eff) {
		name := tok
		if i := strings.IndexByte(tok, '('); i >= 0 {
			name = tok[:i]
		}
		if keep[name] {
			out = append(out, tok)
		}
	}
	if len(out) == 0 {
		return "-"
	}
	return strings.Join(out, ",")
}

// splitTop splits on commas that are not inside parentheses.
func splitTop(s string) []string {
	var out []string
	depth, start := 0, 0
	for i, c := range s {
		switch c {
		case '(':
			depth++
		case ')':
			depth--
		case ',':
			if depth == 0 {
				out = append(out, s[start:i])
				start = i + 1
			}
		}
	}
	return append(out, s[start:])
}

var StorageEffects = map[string]bool{"ss": true, "la": true, "lt": true, "lc": true, "ld": true,
	"sn": true, "sw": true, "sc": true, "sd": true, "FATAL": true, "PANIC": true}

// ---------------------------------------------------------------- Lean driver

type Driver struct {
	cmd *exec.Cmd
	in  io.WriteCloser
	out *bufio.Reader
	mu  sync.Mutex
}

func DriverPath() string {
	if p := os.Getenv("VERIF_DRIVER"); p != "" {
		return p
	}
	return "/verif/lean/.lake/build/bin/driver"
}

func StartDriver() (*Driver, error) {
	cmd := exec.Command(DriverPath())
	in, err := cmd.StdinPipe()
	if err != nil {
		return nil, err
	}
	out, err := cmd.StdoutPipe()
	if err != nil {
		return nil, err
	}
	cmd.Stderr = os.Stderr
	if err := cmd.Start(); err != nil {
		return nil, err
	}
	return &Driver{cmd: cmd, in: in, out: bufio.NewReaderSize(out, 1<<20)}, nil
}

// Ask sends one line and returns the model's one-line answer.
func (d *Driver) Ask(line string) (string, error) {
	d.mu.Lock()
	defer d.mu.Unlock()
	if _, err := io.WriteString(d.in, line+"\n"); err != nil {
		return "", err
	}
	resp, err := d.out.ReadString('\n')
	return strings.TrimRight(resp, "\n"), err
}

func (d *Driver) Close() {
	d.in.Close()
	d.cmd.Wait()
}

// ---------------------------------------------------------------- results

// Finding is one disagreement or one oracle violation.
type Finding struct {
	Kind      string            `json:"kind"` // "mismatch" | "oracle"
	Property  string            `json:"property"`
	Oracle    string            `json:"oracle,omitempty"`
	Case      string            `json:"case"`
	Impl      string            `json:"impl,omitempty"`
	Model     string            `json:"model,omitempty"`
	Diff      []string          `json:"diff,omitempty"`
	Detail    string            `json:"detail,omitempty"`
	Signature map[string]string `json:"signature,omitempty"`
}

// Report is what every engine run writes to $VERIF_OUT.
type Report struct {
	Engine      string         `json:"engine"`
	Seed        uint64         `json:"seed"`
	Tier        string         `json:"tier"`
	Evaluations int            `json:"evaluations"`
	Distinct    int            `json:"distinct_nontrivial"`
	Rule        string         `json:"rule"`
	Branches    map[string]int `json:"branches"`
	Samples     []string       `json:"samples"`
	Findings    []Finding      `json:"findings"`
	NFindings   int            `json:"n_findings"`
	Exhaustive  bool           `json:"exhaustive"`
	Notes       []string       `json:"notes,omitempty"`
	distinct    map[string]bool
}

func NewReport(engine string) *Report {
	return &Report{Engine: engine, Seed: Seed(), Tier: Tier(), Branches: map[string]int{}, distinct: map[string]bool{}}
}

func (r *Report) Hit(branch string) { r.Branches[branch]++ }
func (r *Report) Case(line string, nontrivial bool) {
	r.Evaluations++
	if nontrivial && !r.distinct[line] {
		r.distinct[line] = true
		r.Distinct++
	}
	if len(r.Samples) < 6 && (r.Evaluations%97 == 1) {
		r.Samples = append(r.Samples, line)
	}
}
func (r *Report) Add(f Finding) {
	r.NFindings++
	if len(r.Findings) < 40 {
		r.Findings = append(r.Findings, f)
	}
}

func (r *Report) Write() error {
	if n := bootProbed.Load(); n > 0 {
		r.Hit("bootstrap-map-edited-after-the-call")
	}
	if d := bootAlias.Load(); d != nil {
		r.Add(Finding{Kind: "oracle", Property: "C09", Case: "Bootstrap(map), then the caller edits its map",
			Oracle:    "a caller that edits the map it passed to Bootstrap changes the node's configuration: the node runs on the caller's map (membership without a log entry; the map is read under the node mutex and written outside it)",
			Impl:      *d,
			Signature: map[string]string{"oracle": "bootstrap-map-aliases-node"}})
	}
	path := os.Getenv("VERIF_OUT")
	if path == "" {
		path = "/dev/stdout"
	}
	if len(r.Samples) == 0 {
		r.Samples = []string{}
	}
	if r.Findings == nil {
		r.Findings = []Finding{}
	}
	data, err := json.MarshalIndent(r, "", " ")
	if err != nil {
		return err
	}
	return os.WriteFile(path, data, 0o644)
}

// ParseReport reads a report written by Report.Write.
func ParseReport(data []byte) (*Report, error) {
	r := &Report{}
	if err := json.Unmarshal(data, r); err != nil {
		return nil, err
	}
	return r, nil
}
