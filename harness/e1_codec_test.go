package harness

import (
	"bytes"
	"encoding/hex"
	"fmt"
	"os"
	"sort"
	"strings"
	"testing"

	"github.com/jmsadair/raft"
)

func hx(b []byte) string {
	if len(b) == 0 {
		return "-"
	}
	return hex.EncodeToString(b)
}

var edgeInts = []uint64{0, 1, 2, 127, 128, 255, 256, 16383, 16384, 1<<32 - 1, 1 << 32, 1<<32 + 1, 1 << 62, 1 << 63, 1<<63 + 1, 1<<64 - 1}

func genU64(rng *Rng) uint64 {
	switch rng.Intn(4) {
	case 0:
		return edgeInts[rng.Intn(len(edgeInts))]
	case 1:
		return uint64(rng.Intn(300))
	case 2:
		return rng.Next() >> uint(rng.Intn(64))
	default:
		return rng.Next()
	}
}

func genBytes(rng *Rng) []byte {
	switch rng.Intn(7) {
	case 0:
		return nil
	case 1:
		return []byte{}
	case 2:
		return []byte{byte(rng.Intn(256))}
	case 3:
		b := make([]byte, 1+rng.Intn(20))
		for i := range b {
			b[i] = byte(rng.Intn(256))
		}
		return b
	case 4:
		b := make([]byte, 120+rng.Intn(20)) // around the one-byte varint length boundary
		for i := range b {
			b[i] = byte(rng.Intn(256))
		}
		return b
	case 5:
		b := make([]byte, 200+rng.Intn(3000))
		for i := range b {
			b[i] = byte(rng.Intn(256))
		}
		return b
	default:
		return []byte{0xff, 0xfe, 0x00, 0x80}
	}
}

var idPool = []string{"", "1", "node-1", "nœud-é", "节点三", "a b", "x=y|z;w", strings.Repeat("k", 130)}

func genID(rng *Rng) string { return idPool[rng.Intn(len(idPool))] }

func genEntries(rng *Rng) []*raft.LogEntry {
	n := []int{0, 0, 1, 1, 2, 3, 7}[rng.Intn(7)]
	out := make([]*raft.LogEntry, n)
	for i := range out {
		out[i] = &raft.LogEntry{Index: genU64(rng), Term: genU64(rng), Data: genBytes(rng),
			EntryType: raft.LogEntryType(rng.Intn(3))}
	}
	return out
}

func wents(es []*raft.LogEntry) string {
	if len(es) == 0 {
		return "-"
	}
	parts := make([]string, len(es))
	for i, e := range es {
		parts[i] = fmt.Sprintf("%d.%d.%d.%s", e.Index, e.Term, uint32(e.EntryType), hx(e.Data))
	}
	return strings.Join(parts, ";")
}

func sameEntries(a, b []*raft.LogEntry) bool {
	if len(a) != len(b) {
		return false
	}
	for i := range a {
		if a[i].Index != b[i].Index || a[i].Term != b[i].Term || a[i].EntryType != b[i].EntryType || !bytes.Equal(a[i].Data, b[i].Data) {
			return false
		}
	}
	return true
}

// codecCheck runs the three-way comparison for one message: the value as text, the
// bytes the real code put on the wire, the value the real receiving side decoded.
func codecCheck(rep *Report, drv *Driver, kind, sent, recvd string, wire []byte, err error, t *testing.T) {
	line := fmt.Sprintf("%s | %s", kind, sent)
	rep.Case(line, len(wire) > 0)
	rep.Hit(kind)
	if err != nil {
		rep.Add(Finding{Kind: "oracle", Property: "C19", Oracle: "message could not be sent through the codec: " + err.Error(), Case: line})
		return
	}
	if recvd != sent {
		rep.Add(Finding{Kind: "oracle", Property: "C19", Oracle: "a field arrived different from what was sent", Case: line, Impl: recvd,
			Detail: "wire=" + hx(wire)})
	}
	enc, e1 := drv.Ask(fmt.Sprintf("ENC | %s | %s", kind, sent))
	if e1 != nil {
		t.Fatal(e1)
	}
	if enc != hx(wire) {
		rep.Add(Finding{Kind: "mismatch", Property: "C19", Case: line, Impl: hx(wire), Model: enc, Diff: []string{"encode: bytes differ"}})
	}
	dec, e2 := drv.Ask(fmt.Sprintf("DEC | %s | %s", kind, hx(wire)))
	if e2 != nil {
		t.Fatal(e2)
	}
	if dec != sent {
		rep.Add(Finding{Kind: "mismatch", Property: "C19", Case: line, Impl: sent, Model: dec, Diff: []string{"decode: model reads the real bytes differently"}})
	}
}

func TestE1Codec(t *testing.T) {
	rep := NewReport("E1-codec")
	rep.Rule = "seeded values per message kind (6 RPC messages, log record, term/vote record, configuration, snapshot metadata): every integer field from {0,1,127,128,2^32+-1,2^63,2^64-1,random widths}, payloads nil/empty/1 B/around 128 B/kilobytes/non-UTF-8, ids ASCII/non-ASCII/130 B, 0-7 entries of all three types; plus every truncation of a sample of encodings; non-trivial = non-empty encoding; distinct by value"
	defer rep.Write()
	drv, err := StartDriver()
	if err != nil {
		t.Fatal(err)
	}
	defer drv.Close()
	rng := NewRng(Seed())
	n := EnvInt("VERIF_N", 3000)
	// large payloads (the property's "arbitrary byte contents"): around 64 KiB, around 1 MiB, several MiB:
	// the record codec and the real log file, written, closed and reopened
	for _, size := range []int{1<<16 - 1, 1 << 16, 1<<20 - 40, 1<<20 + 1, 3<<20 + 7} {
		data := make([]byte, size)
		for k := range data {
			data[k] = byte(rng.Intn(256))
		}
		e := &raft.LogEntry{Index: 2, Term: 3, Data: data, EntryType: raft.OperationEntry}
		line := fmt.Sprintf("LOGREC-LARGE | payload of %d bytes", size)
		rep.Case(line, true)
		rep.Hit("LOGREC-LARGE")
		wire, err := raft.VerifEncodeLogEntry(e)
		if err != nil {
			rep.Add(Finding{Kind: "oracle", Property: "C19", Oracle: "log record could not be encoded: " + err.Error(), Case: line})
			continue
		}
		back, err := raft.VerifDecodeLogEntry(wire)
		if err != nil || back.Index != e.Index || back.Term != e.Term || !bytes.Equal(back.Data, data) {
			rep.Add(Finding{Kind: "oracle", Property: "C19", Oracle: fmt.Sprintf("a log record with a payload of %d bytes was encoded but does not decode to itself (err=%v)", size, err), Case: line,
				Signature: map[string]string{"oracle": "record-roundtrip", "size": "large"}})
		}
		dir, _ := os.MkdirTemp(ScratchRoot(), "verif-e1log-")
		func() {
			defer os.RemoveAll(dir)
			lg, err := raft.NewLog(dir)
			if err != nil {
				t.Fatal(err)
			}
			if err := lg.Open(); err != nil {
				t.Fatal(err)
			}
			lg.Replay()
			small := &raft.LogEntry{Index: 1, Term: 3, Data: []byte("a"), EntryType: raft.OperationEntry}
			after := &raft.LogEntry{Index: 3, Term: 3, Data: []byte("z"), EntryType: raft.OperationEntry}
			if err := lg.AppendEntries([]*raft.LogEntry{small, e, after}); err != nil {
				rep.Add(Finding{Kind: "oracle", Property: "C19", Oracle: fmt.Sprintf("appending an entry of %d bytes failed: %v", size, err), Case: line})
				return
			}
			lg.Close()
			lg2, err := raft.NewLog(dir)
			if err == nil {
				err = lg2.Open()
			}
			if err == nil {
				err = lg2.Replay()
			}
			if err != nil {
				rep.Add(Finding{Kind: "oracle", Property: "C19", Oracle: fmt.Sprintf("a log holding an entry of %d bytes cannot be reopened: %v", size, err), Case: line,
					Signature: map[string]string{"oracle": "log-readback", "size": "large"}})
				return
			}
			defer lg2.Close()
			g, gerr := lg2.GetEntry(2)
			h, herr := lg2.GetEntry(3)
			if gerr != nil || herr != nil || g == nil || h == nil || !bytes.Equal(g.Data, data) || string(h.Data) != "z" || lg2.LastIndex() != 3 {
				rep.Add(Finding{Kind: "oracle", Property: "C19", Oracle: fmt.Sprintf("after reopening, the entry of %d bytes or the entry after it is not what was appended (last index %d, errors %v / %v)", size, lg2.LastIndex(), gerr, herr), Case: line,
					Signature: map[string]string{"oracle": "log-readback", "size": "large"}})
			}
		}()
	}
	for i := 0; i < n; i++ {
		switch i % 10 {
		case 0:
			q := raft.AppendEntriesRequest{LeaderID: genID(rng), Term: genU64(rng), LeaderCommit: genU64(rng), PrevLogIndex: genU64(rng), PrevLogTerm: genU64(rng), Entries: genEntries(rng)}
			wire, r, err := raft.VerifAppendEntriesRequestWire(q)
			f := func(x raft.AppendEntriesRequest) string {
				return fmt.Sprintf("leader=%s term=%d lc=%d pi=%d pt=%d ents=%s", hx([]byte(x.LeaderID)), x.Term, x.LeaderCommit, x.PrevLogIndex, x.PrevLogTerm, wents(x.Entries))
			}
			codecCheck(rep, drv, "AEREQ", f(q), f(r), wire, err, t)
			if err == nil && i%50 == 0 {
				truncations(rep, drv, "AEREQ", wire, func(b []byte) (string, error) {
					x, err := raft.VerifDecodeAppendEntriesRequest(b)
					return f(x), err
				}, t)
			}
		case 1:
			q := raft.AppendEntriesResponse{Term: genU64(rng), Index: genU64(rng), Success: rng.Bool()}
			wire, r, err := raft.VerifAppendEntriesResponseWire(q)
			f := func(x raft.AppendEntriesResponse) string { return fmt.Sprintf("term=%d idx=%d ok=%s", x.Term, x.Index, b01(x.Success)) }
			codecCheck(rep, drv, "AERESP", f(q), f(r), wire, err, t)
		case 2:
			q := raft.RequestVoteRequest{CandidateID: genID(rng), Term: genU64(rng), LastLogIndex: genU64(rng), LastLogTerm: genU64(rng), Prevote: rng.Bool()}
			wire, r, err := raft.VerifRequestVoteRequestWire(q)
			f := func(x raft.RequestVoteRequest) string {
				return fmt.Sprintf("cand=%s term=%d li=%d lt=%d pv=%s", hx([]byte(x.CandidateID)), x.Term, x.LastLogIndex, x.LastLogTerm, b01(x.Prevote))
			}
			codecCheck(rep, drv, "RVREQ", f(q), f(r), wire, err, t)
			if err == nil && i%50 == 2 {
				truncations(rep, drv, "RVREQ", wire, func(b []byte) (string, error) {
					x, err := raft.VerifDecodeRequestVoteRequest(b)
					return f(x), err
				}, t)
			}
		case 3:
			q := raft.RequestVoteResponse{Term: genU64(rng), VoteGranted: rng.Bool()}
			wire, r, err := raft.VerifRequestVoteResponseWire(q)
			f := func(x raft.RequestVoteResponse) string { return fmt.Sprintf("term=%d ok=%s", x.Term, b01(x.VoteGranted)) }
			codecCheck(rep, drv, "RVRESP", f(q), f(r), wire, err, t)
		case 4:
			q := raft.InstallSnapshotRequest{LeaderID: genID(rng), Term: genU64(rng), LastIncludedIndex: genU64(rng), LastIncludedTerm: genU64(rng),
				Configuration: genBytes(rng), Bytes: genBytes(rng), Offset: int64(genU64(rng) >> 1), Done: rng.Bool()}
			wire, r, err := raft.VerifInstallSnapshotRequestWire(q)
			f := func(x raft.InstallSnapshotRequest) string {
				return fmt.Sprintf("term=%d leader=%s li=%d lt=%d cfg=%s off=%d data=%s done=%s", x.Term, hx([]byte(x.LeaderID)), x.LastIncludedIndex,
					x.LastIncludedTerm, hx(x.Configuration), x.Offset, hx(x.Bytes), b01(x.Done))
			}
			codecCheck(rep, drv, "ISREQ", f(q), f(r), wire, err, t)
			if err == nil && i%50 == 4 {
				truncations(rep, drv, "ISREQ", wire, func(b []byte) (string, error) {
					x, err := raft.VerifDecodeInstallSnapshotRequest(b)
					return f(x), err
				}, t)
			}
		case 5:
			q := raft.InstallSnapshotResponse{Term: genU64(rng), BytesWritten: int64(genU64(rng) >> 1)}
			wire, r, err := raft.VerifInstallSnapshotResponseWire(q)
			f := func(x raft.InstallSnapshotResponse) string { return fmt.Sprintf("term=%d bw=%d", x.Term, x.BytesWritten) }
			codecCheck(rep, drv, "ISRESP", f(q), f(r), wire, err, t)
		case 6, 7:
			e := &raft.LogEntry{Index: genU64(rng), Term: genU64(rng), Offset: int64(genU64(rng) >> 1), Data: genBytes(rng), EntryType: raft.LogEntryType(rng.Intn(3))}
			f := func(x *raft.LogEntry) string {
				return fmt.Sprintf("%d.%d.%d.%d.%s", x.Index, x.Term, x.Offset, uint32(x.EntryType), hx(x.Data))
			}
			sent := f(e)
			line := "LOGREC | " + sent
			rep.Case(line, true)
			rep.Hit("LOGREC")
			wire, err := raft.VerifEncodeLogEntry(e)
			if err != nil {
				rep.Add(Finding{Kind: "oracle", Property: "C19", Oracle: "log record could not be encoded: " + err.Error(), Case: line})
				continue
			}
			back, err := raft.VerifDecodeLogEntry(wire)
			if err != nil || f(&back) != sent {
				rep.Add(Finding{Kind: "oracle", Property: "C19", Oracle: "log record read back differs from what was written", Case: line, Impl: f(&back)})
			}
			enc, _ := drv.Ask("ENCLOG | " + sent)
			if enc != hx(wire) {
				rep.Add(Finding{Kind: "mismatch", Property: "C19", Case: line, Impl: hx(wire), Model: enc, Diff: []string{"encode: record bytes differ"}})
			}
			dec, _ := drv.Ask("REPLAY | " + hx(wire))
			want := fmt.Sprintf("ok good=%d ents=%s", len(wire), sent)
			if dec != want {
				rep.Add(Finding{Kind: "mismatch", Property: "C19", Case: line, Impl: want, Model: dec, Diff: []string{"decode: model reads the record differently"}})
			}
		case 8:
			term, vote := genU64(rng), genID(rng)
			sent := fmt.Sprintf("term=%d vote=%s", term, hx([]byte(vote)))
			line := "STATEREC | " + sent
			rep.Case(line, true)
			rep.Hit("STATEREC")
			wire, err := raft.VerifEncodeState(term, vote)
			if err != nil {
				rep.Add(Finding{Kind: "oracle", Property: "C19", Oracle: "term/vote record could not be encoded: " + err.Error(), Case: line})
				continue
			}
			t2, v2, err := raft.VerifDecodeState(wire)
			if err != nil || t2 != term || v2 != vote {
				rep.Add(Finding{Kind: "oracle", Property: "C19", Oracle: "term/vote read back differs from what was written", Case: line, Impl: fmt.Sprintf("term=%d vote=%s", t2, hx([]byte(v2)))})
			}
			enc, _ := drv.Ask("ENCSTATE | " + sent)
			if enc != hx(wire) {
				rep.Add(Finding{Kind: "mismatch", Property: "C19", Case: line, Impl: hx(wire), Model: enc, Diff: []string{"encode: record bytes differ"}})
			}
			dec, _ := drv.Ask("DECSTATE | " + hx(wire))
			if dec != sent {
				rep.Add(Finding{Kind: "mismatch", Property: "C19", Case: line, Impl: sent, Model: dec, Diff: []string{"decode differs"}})
			}
		case 9:
			// configuration and snapshot metadata: implementation-side round trip (map order on the wire is unspecified)
			c := &raft.Configuration{Index: genU64(rng), Members: map[string]string{}, IsVoter: map[string]bool{}}
			for k := 0; k < rng.Intn(6); k++ {
				id := genID(rng)
				c.Members[id] = "127.0.0.1:" + fmt.Sprint(rng.Intn(65536))
				c.IsVoter[id] = rng.Bool()
			}
			line := fmt.Sprintf("CONFIG | index=%d members=%v voters=%v", c.Index, c.Members, c.IsVoter)
			rep.Case(line, true)
			rep.Hit("CONFIG")
			data, err := codec.EncodeConfiguration(c)
			if err != nil {
				rep.Add(Finding{Kind: "oracle", Property: "C19", Oracle: "configuration could not be encoded: " + err.Error(), Case: line})
				continue
			}
			back, err := codec.DecodeConfiguration(data)
			ok := err == nil && back.Index == c.Index && len(back.Members) == len(c.Members) && len(back.IsVoter) == len(c.IsVoter)
			if ok {
				for id, a := range c.Members {
					if back.Members[id] != a || back.IsVoter[id] != c.IsVoter[id] {
						ok = false
					}
				}
			}
			if !ok {
				rep.Add(Finding{Kind: "oracle", Property: "C19", Oracle: "configuration read back differs from what was written", Case: line, Impl: fmt.Sprintf("%v", back)})
			}
			// differential: the model decodes the real bytes, the real decoder decodes the model's bytes
			// (map order on the wire is the sender's choice: compared as maps; byte-exact when there is no choice)
			cfgDifferential(rep, drv, line, c, data, i%50 == 9, t)
			md := &raft.SnapshotMetadata{LastIncludedIndex: genU64(rng), LastIncludedTerm: genU64(rng), Configuration: genBytes(rng)}
			mline := fmt.Sprintf("METADATA | li=%d lt=%d cfg=%s", md.LastIncludedIndex, md.LastIncludedTerm, hx(md.Configuration))
			rep.Case(mline, true)
			rep.Hit("METADATA")
			mb, err := raft.VerifEncodeMetadata(md)
			if err != nil {
				rep.Add(Finding{Kind: "oracle", Property: "C19", Oracle: "metadata could not be encoded", Case: mline})
				continue
			}
			m2, err := raft.VerifDecodeMetadata(mb)
			if err != nil || m2.LastIncludedIndex != md.LastIncludedIndex || m2.LastIncludedTerm != md.LastIncludedTerm || !bytes.Equal(m2.Configuration, md.Configuration) {
				rep.Add(Finding{Kind: "oracle", Property: "C19", Oracle: "snapshot metadata read back differs from what was written", Case: mline, Impl: string(mb)})
			}
			// differential: the model writes the same bytes and reads the real bytes
			carg := "nil"
			if md.Configuration != nil {
				carg = hx(md.Configuration)
			}
			sentM := fmt.Sprintf("li=%d lt=%d cfg=%s", md.LastIncludedIndex, md.LastIncludedTerm, carg)
			encM, _ := drv.Ask("ENC | META | " + sentM)
			if encM != hx(mb) {
				rep.Add(Finding{Kind: "mismatch", Property: "C19", Case: mline, Impl: string(mb), Model: encM, Diff: []string{"encode: metadata bytes differ"}})
			}
			decM, _ := drv.Ask("DEC | META | " + hx(mb))
			if decM != sentM {
				rep.Add(Finding{Kind: "mismatch", Property: "C19", Case: mline, Impl: sentM, Model: decM, Diff: []string{"decode: the model reads the metadata file differently"}})
			}
			rep.Hit("METADATA-differential")
		}
	}
}

// truncations feeds every strict prefix of a valid encoding to both decoders: they must
// accept and reject the same prefixes and agree on the value when they accept.
func truncations(rep *Report, drv *Driver, kind string, wire []byte, dec func([]byte) (string, error), t *testing.T) {
	for k := 0; k < len(wire); k++ {
		if len(wire) > 64 && k%7 != 0 {
			continue
		}
		p := wire[:k]
		line := fmt.Sprintf("TRUNC %s | %s", kind, hx(p))
		rep.Case(line, true)
		rep.Hit("truncated")
		got, err := dec(p)
		model, e := drv.Ask(fmt.Sprintf("DEC | %s | %s", kind, hx(p)))
		if e != nil {
			t.Fatal(e)
		}
		impl := got
		if err != nil {
			impl = "err"
		}
		if impl != model {
			rep.Add(Finding{Kind: "mismatch", Property: "C19", Case: line, Impl: impl, Model: model, Diff: []string{"malformed input: decoders disagree"}})
		}
	}
}

func parseCfgLine(out string) (map[string]string, map[string]bool, uint64, bool) {
	ms, vs := map[string]string{}, map[string]bool{}
	var idx uint64
	unhex := func(h string) (string, bool) {
		if h == "-" {
			return "", true
		}
		b, err := hex.DecodeString(h)
		return string(b), err == nil
	}
	for _, tok := range strings.Fields(out) {
		kv := strings.SplitN(tok, "=", 2)
		if len(kv) != 2 {
			return nil, nil, 0, false
		}
		switch kv[0] {
		case "index":
			if _, err := fmt.Sscan(kv[1], &idx); err != nil {
				return nil, nil, 0, false
			}
		case "members", "voters":
			if kv[1] == "-" {
				continue
			}
			for _, p := range strings.Split(kv[1], ";") {
				ab := strings.SplitN(p, ":", 2)
				if len(ab) != 2 {
					return nil, nil, 0, false
				}
				k, ok := unhex(ab[0])
				if !ok {
					return nil, nil, 0, false
				}
				if kv[0] == "members" {
					v, ok := unhex(ab[1])
					if !ok {
						return nil, nil, 0, false
					}
					ms[k] = v // later entries override earlier ones, as in the Go map
				} else {
					vs[k] = ab[1] == "1"
				}
			}
		}
	}
	return ms, vs, idx, true
}

func cfgEqual(c *raft.Configuration, ms map[string]string, vs map[string]bool, idx uint64) bool {
	if idx != c.Index || len(ms) != len(c.Members) || len(vs) != len(c.IsVoter) {
		return false
	}
	for k, v := range c.Members {
		if got, ok := ms[k]; !ok || got != v {
			return false
		}
	}
	for k, v := range c.IsVoter {
		if got, ok := vs[k]; !ok || got != v {
			return false
		}
	}
	return true
}

func cfgDifferential(rep *Report, drv *Driver, line string, c *raft.Configuration, data []byte, trunc bool, t *testing.T) {
	show := func(x *raft.Configuration) string { return fmt.Sprintf("index=%d members=%v voters=%v", x.Index, x.Members, x.IsVoter) }
	dec, err := drv.Ask("DEC | CFG | " + hx(data))
	if err != nil {
		t.Fatal(err)
	}
	ms, vs, idx, ok := parseCfgLine(dec)
	if dec == "err" || !ok || !cfgEqual(c, ms, vs, idx) {
		rep.Add(Finding{Kind: "mismatch", Property: "C19", Case: line, Impl: show(c) + " wire=" + hx(data), Model: dec, Diff: []string{"decode: the model reads something else from the real bytes"}})
	}
	// the model's encoding, keys in sorted order
	var ids []string
	for k := range c.Members {
		ids = append(ids, k)
	}
	sort.Strings(ids)
	var mp, vp []string
	for _, k := range ids {
		mp = append(mp, hx([]byte(k))+":"+hx([]byte(c.Members[k])))
	}
	ids = ids[:0]
	for k := range c.IsVoter {
		ids = append(ids, k)
	}
	sort.Strings(ids)
	for _, k := range ids {
		vp = append(vp, hx([]byte(k))+":"+b01(c.IsVoter[k]))
	}
	j := func(xs []string) string {
		if len(xs) == 0 {
			return "-"
		}
		return strings.Join(xs, ";")
	}
	enc, err := drv.Ask(fmt.Sprintf("ENC | CFG | index=%d members=%s voters=%s", c.Index, j(mp), j(vp)))
	if err != nil {
		t.Fatal(err)
	}
	var wire []byte
	if enc != "-" {
		wire, _ = hex.DecodeString(enc)
	}
	back, derr := codec.DecodeConfiguration(wire)
	if derr != nil || !cfgEqual(c, back.Members, back.IsVoter, back.Index) {
		rep.Add(Finding{Kind: "mismatch", Property: "C19", Case: line, Impl: fmt.Sprintf("%v err=%v", back, derr), Model: enc, Diff: []string{"encode: the real decoder reads something else from the model's bytes"}})
	}
	if len(c.Members) <= 1 && len(c.IsVoter) <= 1 && enc != hx(data) {
		rep.Add(Finding{Kind: "mismatch", Property: "C19", Case: line, Impl: hx(data), Model: enc, Diff: []string{"encode: bytes differ although the maps leave no choice of order"}})
	}
	rep.Hit("CONFIG-differential")
	if !trunc {
		return
	}
	for k := 0; k < len(data); k++ {
		p := data[:k]
		tl := fmt.Sprintf("TRUNC CFG | %s", hx(p))
		rep.Case(tl, true)
		rep.Hit("truncated")
		got, gerr := codec.DecodeConfiguration(p)
		model, e := drv.Ask("DEC | CFG | " + hx(p))
		if e != nil {
			t.Fatal(e)
		}
		ms, vs, idx, ok := parseCfgLine(model)
		if (gerr != nil) != (model == "err") || (gerr == nil && (!ok || !cfgEqual(&got, ms, vs, idx))) {
			rep.Add(Finding{Kind: "mismatch", Property: "C19", Case: tl, Impl: fmt.Sprintf("%v err=%v", got, gerr), Model: model, Diff: []string{"malformed input: decoders disagree"}})
		}
	}
}
