package harness

import (
	"time"
	"bytes"
	"crypto/sha256"
	"fmt"
	"net"
	"sync"
	"testing"

	"github.com/jmsadair/raft"
)

// E1-transport: the bundled network transport itself, on the loopback interface. Two real
// transports; the receiver's handlers record what arrives and answer with generated
// responses; every request passed to Send* and every response a handler produced must arrive
// with all fields equal (C19), for the value classes of E1-codec plus the sizes only the real
// path sees: requests with several entries whose payloads add up to 0.3-3.5 MiB, snapshot
// chunks up to and beyond the default 4 MiB message limit (beyond: an error is acceptable, a
// different message is not).

func freeAddr(t *testing.T) string {
	l, err := net.Listen("tcp", "127.0.0.1:0")
	if err != nil {
		t.Skip("no loopback: " + err.Error())
	}
	a := l.Addr().String()
	l.Close()
	return a
}

func digestEntries(es []*raft.LogEntry) string {
	h := sha256.New()
	for _, e := range es {
		fmt.Fprintf(h, "%d.%d.%d.%d.", e.Index, e.Term, uint32(e.EntryType), len(e.Data))
		h.Write(e.Data)
	}
	return fmt.Sprintf("n=%d sha=%x", len(es), h.Sum(nil)[:8])
}

func TestE1Transport(t *testing.T) {
	rep := NewReport("E1-transport")
	rep.Rule = "real transports on loopback (one sender, the receiver b, and two further peers: c on b's IP address with another port, d on b's port with another loopback address; every fifth step a request is addressed to c or d and must be handled there and answered from there); seeded AppendEntries / RequestVote / InstallSnapshot requests (integer fields from the E1-codec value classes, ids ASCII/non-ASCII, 0-7 entries of all three types, payloads nil/empty/small/KB and groups of 2-4 entries adding up to 0.3-3.5 MiB, snapshot chunks 0 B-6 MiB) and generated responses; the request seen by the registered handler and the response seen by the caller are compared field by field with what was passed in; beyond the 4 MiB message limit an error is accepted, a delivered message must be intact; non-trivial = delivered"
	defer rep.Write()
	rng := NewRng(Seed() + 31)
	n := EnvInt("VERIF_N", 120)
	a, err := raft.NewTransport(freeAddr(t))
	if err != nil {
		t.Fatal(err)
	}
	baddr := freeAddr(t)
	b, err := raft.NewTransport(baddr)
	if err != nil {
		t.Fatal(err)
	}
	var mu sync.Mutex
	var gotAE raft.AppendEntriesRequest
	var gotRV raft.RequestVoteRequest
	var gotIS raft.InstallSnapshotRequest
	var respAE raft.AppendEntriesResponse
	var respRV raft.RequestVoteResponse
	var respIS raft.InstallSnapshotResponse
	b.RegisterAppendEntriesHandler(func(q *raft.AppendEntriesRequest, r *raft.AppendEntriesResponse) error {
		mu.Lock()
		defer mu.Unlock()
		gotAE = *q
		*r = respAE
		return nil
	})
	b.RegisterRequestVoteHandler(func(q *raft.RequestVoteRequest, r *raft.RequestVoteResponse) error {
		mu.Lock()
		defer mu.Unlock()
		gotRV = *q
		*r = respRV
		return nil
	})
	b.RegsiterInstallSnapshotHandler(func(q *raft.InstallSnapshotRequest, r *raft.InstallSnapshotResponse) error {
		mu.Lock()
		defer mu.Unlock()
		gotIS = *q
		*r = respIS
		return nil
	})
	if err := a.Run(); err != nil {
		t.Fatal(err)
	}
	if err := b.Run(); err != nil {
		t.Fatal(err)
	}
	defer a.Shutdown()
	defer b.Shutdown()
	// further peers of the same sender: c shares b's IP address (another port), d shares b's port (another
	// loopback address, when the host lets us bind it). A request must reach the peer it was addressed to
	// and the answer must be that peer's: every cluster-level theorem assumes it of the network.
	type peer struct {
		name, addr string
		tr         raft.Transport
		last       string
		seen       int
	}
	var peers []*peer
	mkPeer := func(name, addr string) {
		tr, err := raft.NewTransport(addr)
		if err != nil {
			return
		}
		p := &peer{name: name, addr: addr, tr: tr}
		tr.RegisterAppendEntriesHandler(func(q *raft.AppendEntriesRequest, r *raft.AppendEntriesResponse) error {
			mu.Lock()
			defer mu.Unlock()
			p.last, p.seen = q.LeaderID, p.seen+1
			r.Term, r.Index, r.Success = q.Term+1, uint64(len(name)), true
			return nil
		})
		tr.RegisterRequestVoteHandler(func(q *raft.RequestVoteRequest, r *raft.RequestVoteResponse) error {
			mu.Lock()
			defer mu.Unlock()
			p.last, p.seen = q.CandidateID, p.seen+1
			r.Term, r.VoteGranted = q.Term+1, true
			return nil
		})
		tr.RegsiterInstallSnapshotHandler(func(q *raft.InstallSnapshotRequest, r *raft.InstallSnapshotResponse) error {
			mu.Lock()
			defer mu.Unlock()
			p.last, p.seen = q.LeaderID, p.seen+1
			r.Term, r.BytesWritten = q.Term+1, int64(len(q.Bytes))
			return nil
		})
		if err := tr.Run(); err != nil {
			return
		}
		peers = append(peers, p)
	}
	mkPeer("c", freeAddr(t))
	if _, port, err := net.SplitHostPort(baddr); err == nil {
		mkPeer("d", net.JoinHostPort("127.0.0.2", port))
	}
	defer func() {
		for _, p := range peers {
			p.tr.Shutdown()
		}
	}()
	probePeer := func(i int) {
		if len(peers) == 0 {
			return
		}
		p := peers[(i/5)%len(peers)]
		tag := fmt.Sprintf("to-%s-%d", p.name, i)
		term := uint64(1000 + i)
		mu.Lock()
		gotAE, gotRV, gotIS = raft.AppendEntriesRequest{}, raft.RequestVoteRequest{}, raft.InstallSnapshotRequest{}
		respAE, respRV, respIS = raft.AppendEntriesResponse{Term: 5}, raft.RequestVoteResponse{Term: 5}, raft.InstallSnapshotResponse{Term: 5}
		before := p.seen
		mu.Unlock()
		var rterm uint64
		var err error
		kind := []string{"AE", "RV", "IS"}[(i/5/len(peers))%3]
		// a first connection to a peer may take a moment on a loaded machine: non-delivery is only reported
		// after several attempts (a request that arrives at the wrong peer is reported at once)
		for try := 0; try < 20; try++ {
			switch kind {
			case "AE":
				var r raft.AppendEntriesResponse
				r, err = a.SendAppendEntries(p.addr, raft.AppendEntriesRequest{LeaderID: tag, Term: term})
				rterm = r.Term
			case "RV":
				var r raft.RequestVoteResponse
				r, err = a.SendRequestVote(p.addr, raft.RequestVoteRequest{CandidateID: tag, Term: term})
				rterm = r.Term
			default:
				var r raft.InstallSnapshotResponse
				r, err = a.SendInstallSnapshot(p.addr, raft.InstallSnapshotRequest{LeaderID: tag, Term: term, Bytes: []byte("xyz")})
				rterm = r.Term
			}
			mu.Lock()
			elsewhere := gotAE.LeaderID == tag || gotRV.CandidateID == tag || gotIS.LeaderID == tag
			mu.Unlock()
			if err == nil || elsewhere {
				break
			}
			time.Sleep(50 * time.Millisecond)
		}
		line := fmt.Sprintf("ADDRESSEE | %s sent by a to peer %s at %s (b is at %s)", kind, p.name, p.addr, baddr)
		rep.Case(fmt.Sprintf("%s #%d", line, i), err == nil)
		rep.Hit("addressee-" + p.name + "-" + kind)
		mu.Lock()
		arrived := p.seen > before && p.last == tag
		atB := gotAE.LeaderID == tag || gotRV.CandidateID == tag || gotIS.LeaderID == tag
		mu.Unlock()
		if err != nil && !atB {
			rep.Add(Finding{Kind: "oracle", Property: "NET", Oracle: "a request to a further peer of the same sender was not delivered: " + err.Error(), Case: line, Signature: map[string]string{"oracle": "transport-delivers"}})
			return
		}
		if !arrived || atB || rterm != term+1 {
			rep.Add(Finding{Kind: "oracle", Property: "NET", Oracle: "a request was not handled by the peer it was addressed to (a sender with several peers: same IP address and another port, same port and another address)", Case: line,
				Impl:      fmt.Sprintf("handled by the addressed peer: %v; handled by b: %v; answer carries term %d (the addressed peer answers %d, b answers 5)", arrived, atB, rterm, term+1),
				Signature: map[string]string{"oracle": "transport-delivers-to-addressee"}})
		}
	}
	big := func(size int) []byte {
		d := make([]byte, size)
		for i := range d {
			d[i] = byte(rng.Next())
		}
		return d
	}
	for i := 0; i < n; i++ {
		if i == n/3 || i == 2*n/3 {
			// what Stop() and Restart() of a node do to its transport: the same object is shut down and run
			// again (twice in a run); it must serve requests again, the sender must reach it again
			line := fmt.Sprintf("RERUN | transport b shut down and run again (#%d)", i)
			rep.Case(line, true)
			rep.Hit("shutdown-then-run")
			if err := b.Shutdown(); err != nil {
				rep.Add(Finding{Kind: "oracle", Property: "C18", Oracle: "Shutdown of a running transport failed: " + err.Error(), Case: line})
			}
			if err := b.Run(); err != nil {
				rep.Add(Finding{Kind: "oracle", Property: "C18", Oracle: "Run after Shutdown failed: " + err.Error(), Case: line})
			}
			ok := false
			var lastErr error
			for try := 0; try < 40 && !ok; try++ {
				mu.Lock()
				gotRV = raft.RequestVoteRequest{}
				respRV = raft.RequestVoteResponse{Term: 77, VoteGranted: true}
				mu.Unlock()
				r, err := a.SendRequestVote(baddr, raft.RequestVoteRequest{CandidateID: "probe", Term: 77})
				lastErr = err
				mu.Lock()
				ok = err == nil && r.Term == 77 && gotRV.CandidateID == "probe"
				mu.Unlock()
				if !ok {
					time.Sleep(50 * time.Millisecond)
				}
			}
			if !ok {
				rep.Add(Finding{Kind: "oracle", Property: "C15", Oracle: fmt.Sprintf("a transport that was shut down and run again (Stop + Restart of its node) does not serve requests any more: 40 attempts over 2 s failed, last error: %v", lastErr), Case: line,
					Signature: map[string]string{"oracle": "transport-serves-after-rerun"}})
			}
		}
		if i%5 == 3 {
			probePeer(i)
		}
		switch i % 4 {
		case 0, 1:
			q := raft.AppendEntriesRequest{LeaderID: genID(rng), Term: genU64(rng), LeaderCommit: genU64(rng), PrevLogIndex: genU64(rng), PrevLogTerm: genU64(rng), Entries: genEntries(rng)}
			total := 0
			if i%4 == 1 {
				// several large entries in one request
				k := 2 + rng.Intn(3)
				total = []int{300 << 10, 1 << 20, 2200 << 10, 3 << 20, 3500 << 10}[rng.Intn(5)]
				q.Entries = nil
				for j := 0; j < k; j++ {
					q.Entries = append(q.Entries, &raft.LogEntry{Index: uint64(j + 1), Term: genU64(rng), Data: big(total / k), EntryType: raft.LogEntryType(rng.Intn(3))})
				}
			}
			mu.Lock()
			respAE = raft.AppendEntriesResponse{Term: genU64(rng), Index: genU64(rng), Success: rng.Bool()}
			want := respAE
			gotAE = raft.AppendEntriesRequest{}
			mu.Unlock()
			line := fmt.Sprintf("AE over loopback: %d entries, %d payload bytes", len(q.Entries), total)
			sentDigest := digestEntries(q.Entries)
			r, err := a.SendAppendEntries(baddr, q)
			rep.Case(fmt.Sprintf("%s #%d", line, i), err == nil)
			rep.Hit(map[bool]string{true: "ae-large", false: "ae"}[total > 0])
			if err != nil {
				if total < 3<<20 {
					rep.Add(Finding{Kind: "oracle", Property: "C19", Oracle: "a request well below the message limit was not delivered: " + err.Error(), Case: line, Signature: map[string]string{"oracle": "transport-delivers"}})
				}
				continue
			}
			mu.Lock()
			g := gotAE
			mu.Unlock()
			if g.LeaderID != q.LeaderID || g.Term != q.Term || g.LeaderCommit != q.LeaderCommit || g.PrevLogIndex != q.PrevLogIndex || g.PrevLogTerm != q.PrevLogTerm || digestEntries(g.Entries) != sentDigest {
				rep.Add(Finding{Kind: "oracle", Property: "C19", Oracle: "the AppendEntries request seen by the handler differs from the request passed to SendAppendEntries", Case: line,
					Impl: fmt.Sprintf("received: leader=%q term=%d lc=%d prev=%d.%d entries %s", g.LeaderID, g.Term, g.LeaderCommit, g.PrevLogIndex, g.PrevLogTerm, digestEntries(g.Entries)),
					Detail: fmt.Sprintf("sent: leader=%q term=%d lc=%d prev=%d.%d entries %s", q.LeaderID, q.Term, q.LeaderCommit, q.PrevLogIndex, q.PrevLogTerm, sentDigest),
					Signature: map[string]string{"oracle": "transport-roundtrip", "message": "AppendEntriesRequest"}})
			}
			if r != want {
				rep.Add(Finding{Kind: "oracle", Property: "C19", Oracle: "the AppendEntries response seen by the caller differs from the handler's", Case: line,
					Impl: fmt.Sprintf("%+v", r), Detail: fmt.Sprintf("%+v", want), Signature: map[string]string{"oracle": "transport-roundtrip", "message": "AppendEntriesResponse"}})
			}
		case 2:
			q := raft.RequestVoteRequest{CandidateID: genID(rng), Term: genU64(rng), LastLogIndex: genU64(rng), LastLogTerm: genU64(rng), Prevote: rng.Bool()}
			mu.Lock()
			respRV = raft.RequestVoteResponse{Term: genU64(rng), VoteGranted: rng.Bool()}
			want := respRV
			mu.Unlock()
			r, err := a.SendRequestVote(baddr, q)
			line := fmt.Sprintf("RV over loopback #%d", i)
			rep.Case(line, err == nil)
			rep.Hit("rv")
			if err != nil {
				rep.Add(Finding{Kind: "oracle", Property: "C19", Oracle: "a vote request was not delivered: " + err.Error(), Case: line, Signature: map[string]string{"oracle": "transport-delivers"}})
				continue
			}
			mu.Lock()
			g := gotRV
			mu.Unlock()
			if g != q || r != want {
				rep.Add(Finding{Kind: "oracle", Property: "C19", Oracle: "a RequestVote request or response changed on the way", Case: line, Impl: fmt.Sprintf("%+v / %+v", g, r), Detail: fmt.Sprintf("%+v / %+v", q, want),
					Signature: map[string]string{"oracle": "transport-roundtrip", "message": "RequestVote"}})
			}
		default:
			size := []int{0, 1, 100, 32 << 10, 1 << 20, 3 << 20, 4<<20 - 200, 6 << 20}[rng.Intn(8)]
			q := raft.InstallSnapshotRequest{LeaderID: genID(rng), Term: genU64(rng), LastIncludedIndex: genU64(rng), LastIncludedTerm: genU64(rng),
				Configuration: genBytes(rng), Bytes: big(size), Offset: int64(genU64(rng) >> 1), Done: rng.Bool()}
			mu.Lock()
			respIS = raft.InstallSnapshotResponse{Term: genU64(rng), BytesWritten: int64(genU64(rng) >> 1)}
			want := respIS
			gotIS = raft.InstallSnapshotRequest{}
			mu.Unlock()
			r, err := a.SendInstallSnapshot(baddr, q)
			line := fmt.Sprintf("IS over loopback: chunk of %d bytes", size)
			rep.Case(fmt.Sprintf("%s #%d", line, i), err == nil)
			rep.Hit(fmt.Sprintf("is-%d", size))
			if err != nil {
				if size < 3500<<10 {
					rep.Add(Finding{Kind: "oracle", Property: "C19", Oracle: "a snapshot chunk below the message limit was not delivered: " + err.Error(), Case: line, Signature: map[string]string{"oracle": "transport-delivers"}})
				} else {
					rep.Hit("is-over-limit-error")
				}
				continue
			}
			mu.Lock()
			g := gotIS
			mu.Unlock()
			if g.LeaderID != q.LeaderID || g.Term != q.Term || g.LastIncludedIndex != q.LastIncludedIndex || g.LastIncludedTerm != q.LastIncludedTerm ||
				!bytes.Equal(g.Configuration, q.Configuration) || !bytes.Equal(g.Bytes, q.Bytes) || g.Offset != q.Offset || g.Done != q.Done || r != want {
				rep.Add(Finding{Kind: "oracle", Property: "C19", Oracle: "an InstallSnapshot request or response changed on the way", Case: line,
					Impl: fmt.Sprintf("received %d payload bytes, off=%d done=%v resp=%+v", len(g.Bytes), g.Offset, g.Done, r), Detail: fmt.Sprintf("sent %d payload bytes, off=%d done=%v resp=%+v", len(q.Bytes), q.Offset, q.Done, want),
					Signature: map[string]string{"oracle": "transport-roundtrip", "message": "InstallSnapshot"}})
			}
		}
	}
}
