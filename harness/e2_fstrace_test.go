package harness

import (
	"crypto/sha256"
	"runtime"
	"bytes"
	"encoding/hex"
	"fmt"
	"io"
	"os"
	"path/filepath"
	"strconv"
	"strings"
	"testing"

	"github.com/jmsadair/raft"
)

// ---------------------------------------------------------------- child: runs a script against the real storages

func mark(s string) { os.Stdout.Write([]byte("MARK " + s + "\n")) }

func unhx(s string) []byte {
	if s == "-" || s == "" {
		return []byte{}
	}
	b, _ := hex.DecodeString(s)
	return b
}

// parseSEnts parses "i.t.k.datahex;..." (storage script entries).
func parseSEnts(s string) []*raft.LogEntry {
	var out []*raft.LogEntry
	if s == "-" || s == "" {
		return out
	}
	for _, p := range strings.Split(s, ";") {
		f := strings.Split(p, ".")
		i, _ := strconv.ParseUint(f[0], 10, 64)
		t, _ := strconv.ParseUint(f[1], 10, 64)
		k, _ := strconv.ParseUint(f[2], 10, 64)
		out = append(out, &raft.LogEntry{Index: i, Term: t, EntryType: raft.LogEntryType(k), Data: unhx(f[3])})
	}
	return out
}

func TestFSDriverChild(t *testing.T) {
	script := os.Getenv("VERIF_FS_SCRIPT")
	dir := os.Getenv("VERIF_FS_DIR")
	if script == "" {
		t.Skip("not a child")
	}
	data, err := os.ReadFile(script)
	if err != nil {
		t.Fatal(err)
	}
	// every storage call of the script is made by one OS thread: strace orders the events of one
	// thread exactly, but not those of different threads (a goroutine that changes threads after a
	// slow fsync made marks and writes appear out of order, see DESIGN.md section 11)
	runtime.LockOSThread()
	var lg raft.Log
	var st raft.StateStorage
	var sn raft.SnapshotStorage
	writers := map[string]raft.SnapshotFile{}
	for k, line := range strings.Split(strings.TrimSpace(string(data)), "\n") {
		f := strings.Fields(line)
		if len(f) == 0 {
			continue
		}
		mark(fmt.Sprintf("b %d", k))
		var err error
		switch f[0] {
		case "log.open":
			lg, err = raft.NewLog(dir)
			if err == nil {
				err = lg.Open()
			}
			if err == nil {
				err = lg.Replay()
			}
		case "log.again":
			// Open and Replay once more on the SAME object: what restore() does when Restart() follows
			// NewRaft (or a Start that restored) without a Stop in between
			err = lg.Open()
			if err == nil {
				err = lg.Replay()
			}
		case "log.append":
			err = lg.AppendEntries(parseSEnts(f[1]))
		case "log.truncate":
			i, _ := strconv.ParseUint(f[1], 10, 64)
			err = lg.Truncate(i)
		case "log.compact":
			i, _ := strconv.ParseUint(f[1], 10, 64)
			err = lg.Compact(i)
		case "log.discard":
			i, _ := strconv.ParseUint(f[1], 10, 64)
			tm, _ := strconv.ParseUint(f[2], 10, 64)
			err = lg.DiscardEntries(i, tm)
		case "log.close":
			err = lg.Close()
		case "state.open":
			st, err = raft.NewStateStorage(dir)
		case "state.set":
			tm, _ := strconv.ParseUint(f[1], 10, 64)
			err = st.SetState(tm, string(unhx(f[2])))
		case "snap.open":
			sn, err = raft.NewSnapshotStorage(dir)
		case "snap.new":
			i, _ := strconv.ParseUint(f[2], 10, 64)
			tm, _ := strconv.ParseUint(f[3], 10, 64)
			writers[f[1]], err = sn.NewSnapshotFile(i, tm, unhx(f[4]))
		case "snap.write":
			_, err = writers[f[1]].Write(unhx(f[2]))
		case "snap.close":
			err = writers[f[1]].Close()
		case "snap.discard":
			err = writers[f[1]].Discard()
		case "snap.read":
			// the live storage is asked for the newest snapshot while writers may be open
			var rf raft.SnapshotFile
			rf, err = sn.SnapshotFile()
			if err == nil {
				res := "found=0"
				if rf != nil {
					md := rf.Metadata()
					data, rerr := io.ReadAll(rf)
					rf.Close()
					if rerr != nil {
						err = rerr
					} else {
						res = fmt.Sprintf("found=1 idx=%d term=%d len=%d sha=%x", md.LastIncludedIndex, md.LastIncludedTerm, len(data), sha256.Sum256(data))
					}
				}
				if err == nil {
					mark(fmt.Sprintf("e %d ok %s", k, res))
					continue
				}
			}
		case "state.read":
			var tm uint64
			var v string
			tm, v, err = st.State()
			if err == nil {
				mark(fmt.Sprintf("e %d ok term=%d vote=%s", k, tm, hx([]byte(v))))
				continue
			}
		}
		if err != nil {
			mark(fmt.Sprintf("e %d err %s", k, strings.ReplaceAll(err.Error(), "\n", " ")))
		} else {
			mark(fmt.Sprintf("e %d ok", k))
		}
	}
}

// ---------------------------------------------------------------- sequential specification of the log

type specLog struct {
	base, baseTerm uint64
	ents           []*raft.LogEntry
}

func (s specLog) clone() specLog {
	return specLog{s.base, s.baseTerm, append([]*raft.LogEntry{}, s.ents...)}
}
func (s specLog) last() uint64 { return s.base + uint64(len(s.ents)) }
func (s specLog) String() string {
	parts := []string{fmt.Sprintf("base=%d.%d", s.base, s.baseTerm)}
	for _, e := range s.ents {
		parts = append(parts, fmt.Sprintf("%d.%d.%d.%s", e.Index, e.Term, uint32(e.EntryType), hx(e.Data)))
	}
	return strings.Join(parts, " ")
}

// apply returns the state after the operation line.
func (s specLog) apply(line string) specLog {
	f := strings.Fields(line)
	out := s.clone()
	switch f[0] {
	case "log.append":
		out.ents = append(out.ents, parseSEnts(f[1])...)
	case "log.truncate":
		i, _ := strconv.ParseUint(f[1], 10, 64)
		out.ents = out.ents[:i-s.base-1]
	case "log.compact":
		i, _ := strconv.ParseUint(f[1], 10, 64)
		e := s.ents[i-s.base-1]
		out.base, out.baseTerm = e.Index, e.Term
		out.ents = append([]*raft.LogEntry{}, s.ents[i-s.base:]...)
	case "log.discard":
		i, _ := strconv.ParseUint(f[1], 10, 64)
		t, _ := strconv.ParseUint(f[2], 10, 64)
		out.base, out.baseTerm, out.ents = i, t, nil
	}
	return out
}

// genLogScript draws a valid operation script.
func genLogScript(rng *Rng, nops int) []string {
	s := specLog{}
	term := uint64(1)
	script := []string{"log.open"}
	open := true
	payloads := [][]byte{{}, {7}, []byte("hello"), bytes.Repeat([]byte{0xab}, 200)}
	for len(script) < nops+1 {
		if !open {
			script = append(script, "log.open")
			open = true
			continue
		}
		var line string
		switch r := rng.Intn(100); {
		case r < 45 || len(s.ents) == 0:
			n := 1 + rng.Intn(3)
			var parts []string
			for k := 0; k < n; k++ {
				if rng.Chance(30) {
					term++
				}
				parts = append(parts, fmt.Sprintf("%d.%d.%d.%s", s.last()+uint64(k)+1, term, rng.Intn(3), hx(payloads[rng.Intn(len(payloads))])))
			}
			line = "log.append " + strings.Join(parts, ";")
		case r < 60:
			line = fmt.Sprintf("log.truncate %d", s.base+1+uint64(rng.Intn(len(s.ents))))
		case r < 75:
			line = fmt.Sprintf("log.compact %d", s.base+1+uint64(rng.Intn(len(s.ents))))
		case r < 82:
			line = fmt.Sprintf("log.discard %d %d", s.last()+uint64(rng.Intn(3)), term)
		default:
			line = "log.close"
			open = false
		}
		s = s.apply(line)
		script = append(script, line)
	}
	return script
}


// directedLogScripts enumerates every sequence of `depth` operations drawn from
// {append, truncate first/last, compact first/second/last-but-one, discard, close+open} after a
// five-entry prelude, each followed by an append and a reopen: the operation *pairs* (compact then
// truncate, truncate then compact, ...) that random scripts only hit occasionally.
func directedLogScripts(depth int) [][]string {
	prelude := []string{"log.open", "log.append 1.1.1.07;2.1.1.68656c6c6f;3.2.1.;4.2.0.;5.3.1.abab"}
	kinds := []string{"A", "T1", "Tl", "C1", "C2", "Cl", "D", "R", "O"}
	var out [][]string
	var rec func(script []string, s specLog, term uint64, d int)
	rec = func(script []string, s specLog, term uint64, d int) {
		if d == 0 {
			fin := append(append([]string{}, script...), fmt.Sprintf("log.append %d.%d.1.6f6b", s.last()+1, term+1), "log.close", "log.open")
			out = append(out, fin)
			return
		}
		for _, k := range kinds {
			var lines []string
			n := uint64(len(s.ents))
			switch k {
			case "A":
				lines = []string{fmt.Sprintf("log.append %d.%d.1.6161", s.last()+1, term)}
			case "T1":
				if n >= 2 {
					lines = []string{fmt.Sprintf("log.truncate %d", s.base+2)}
				}
			case "Tl":
				if n >= 1 {
					lines = []string{fmt.Sprintf("log.truncate %d", s.last())}
				}
			case "C1":
				if n >= 2 {
					lines = []string{fmt.Sprintf("log.compact %d", s.base+1)}
				}
			case "C2":
				if n >= 3 {
					lines = []string{fmt.Sprintf("log.compact %d", s.base+2)}
				}
			case "Cl":
				if n >= 4 {
					lines = []string{fmt.Sprintf("log.compact %d", s.last()-1)}
				}
			case "D":
				lines = []string{fmt.Sprintf("log.discard %d %d", s.last()+1, term)}
			case "R":
				lines = []string{"log.close", "log.open"}
			case "O":
				lines = []string{"log.again"}
			}
			if lines == nil {
				continue
			}
			ns := s
			for _, l := range lines {
				ns = ns.apply(l)
			}
			rec(append(append([]string{}, script...), lines...), ns, term, d-1)
		}
	}
	s := specLog{}
	for _, l := range prelude {
		s = s.apply(l)
	}
	rec(prelude, s, 3, depth)
	return out
}

// readLog recovers a log from dir exactly as a restarting node does.
func readLog(dir string) (lg raft.Log, got specLog, err error) {
	defer func() {
		if r := recover(); r != nil {
			err = fmt.Errorf("panic: %v", r)
		}
	}()
	lg, err = raft.NewLog(dir)
	if err != nil {
		return nil, got, fmt.Errorf("NewLog: %w", err)
	}
	if err = lg.Open(); err != nil {
		return nil, got, fmt.Errorf("Open: %w", err)
	}
	if err = lg.Replay(); err != nil {
		return nil, got, fmt.Errorf("Replay: %w", err)
	}
	got.base, got.baseTerm, _ = raft.VerifLogBaseOf(lg)
	for i := 1; i <= lg.Size(); i++ {
		e, gerr := lg.GetEntry(got.base + uint64(i))
		if gerr != nil {
			return lg, got, fmt.Errorf("GetEntry(%d): %w", got.base+uint64(i), gerr)
		}
		got.ents = append(got.ents, e)
	}
	if lg.LastIndex() != got.last() && len(got.ents) > 0 && got.ents[len(got.ents)-1].Index != lg.LastIndex() {
		return lg, got, fmt.Errorf("LastIndex %d inconsistent", lg.LastIndex())
	}
	return lg, got, nil
}

func sameSpec(a, b specLog) bool {
	return a.base == b.base && a.baseTerm == b.baseTerm && sameEntries(a.ents, b.ents)
}

type cutPoint struct {
	mut int // apply muts[0:mut] fully
	cut int // then cut bytes of muts[mut] (-1: none)
}

// enumerateCuts lists every crash point: after every mutation, and at every byte inside every write.
func enumerateCuts(muts []Mut, maxPerWrite int) []cutPoint {
	var out []cutPoint
	for i, m := range muts {
		if m.Kind == "mark" || m.Kind == "fsync" {
			continue
		}
		if m.Kind == "write" && len(m.Data) > 1 {
			step := 1
			if maxPerWrite > 0 && len(m.Data) > maxPerWrite {
				step = len(m.Data) / maxPerWrite
			}
			for c := 1; c < len(m.Data); c += step {
				out = append(out, cutPoint{i, c})
			}
		}
		out = append(out, cutPoint{i + 1, -1})
	}
	return out
}

// afterEndMarks: a crash point that follows the last syscall of an operation produces the same
// image as one after the operation returned; it is judged as the latter (the end marks that
// directly follow are counted as passed).
func afterEndMarks(muts []Mut, cp cutPoint) int {
	upto := cp.mut
	if cp.cut >= 0 {
		return upto
	}
	for upto < len(muts) && muts[upto].Kind == "mark" && strings.HasPrefix(muts[upto].Mark, "e ") {
		upto++
	}
	return upto
}

// marksBefore returns the index of the last completed op and the op in flight (-1 if none) at a cut.
func marksBefore(muts []Mut, upto int) (done int, inflight int) {
	done, inflight = -1, -1
	for i := 0; i < upto && i < len(muts); i++ {
		if muts[i].Kind != "mark" {
			continue
		}
		f := strings.Fields(muts[i].Mark)
		k, _ := strconv.Atoi(f[1])
		if f[0] == "b" {
			inflight = k
		} else {
			done = k
			inflight = -1
		}
	}
	return
}

func TestE2LogCrash(t *testing.T) {
	rep := NewReport("E2-log-crash")
	rep.Rule = "every sequence of 2 (thorough: 3) operations from {append, truncate first/last, compact first/second/last-but-one, discard, close+open} after a five-entry prelude, then an append and a reopen, plus seeded operation scripts (append 1-3 entries with payloads 0/1/5/200 B and all entry types, truncate, compact, discard, close, reopen) run against the real file-backed log under strace; a crash image is synthesised from the observed syscalls after every mutating syscall and at every byte inside every write; each image is recovered with the real NewLog+Open+Replay, checked against the sequential specification, against the Lean replay of its log.bin, and then appended to and recovered again; non-trivial = image cut inside an operation; distinct by script+cut"
	defer rep.Write()
	if !StraceAvailable() {
		rep.Notes = append(rep.Notes, "strace/ptrace unavailable: engine could not run")
		t.Fatal("strace unavailable")
	}
	drv, err := StartDriver()
	if err != nil {
		t.Fatal(err)
	}
	defer drv.Close()
	self, _ := os.Executable()
	rng := NewRng(Seed())
	nscripts := EnvInt("VERIF_SCRIPTS", 6)
	nops := EnvInt("VERIF_OPS", 7)
	root, _ := os.MkdirTemp(ScratchRoot(), "verif-e2log-")
	defer os.RemoveAll(root)
	var scripts [][]string
	shard, shards := EnvInt("VERIF_SHARD", 0), EnvInt("VERIF_SHARDS", 1)
	for i, sc := range directedLogScripts(EnvInt("VERIF_DIRECTED", 2)) {
		if i%shards == shard {
			scripts = append(scripts, sc)
		}
	}
	ndirected := len(scripts)
	for sidx := 0; sidx < nscripts; sidx++ {
		scripts = append(scripts, genLogScript(rng, nops))
	}
	for sidx, script := range scripts {
		maxcut := EnvInt("VERIF_MAXCUT", 0)
		if sidx < ndirected {
			maxcut = 3 // directed scripts: every syscall boundary, a few bytes inside each write
			rep.Hit("directed-script")
		}
		scriptPath := filepath.Join(root, fmt.Sprintf("script%d.txt", sidx))
		os.WriteFile(scriptPath, []byte(strings.Join(script, "\n")+"\n"), 0o644)
		live := filepath.Join(root, fmt.Sprintf("live%d", sidx))
		os.MkdirAll(live, 0o777)
		tracePath := filepath.Join(root, fmt.Sprintf("trace%d.txt", sidx))
		if err := TraceChild(self, scriptPath, live, tracePath); err != nil {
			rep.Add(Finding{Kind: "oracle", Property: "C12", Oracle: "an operation script failed on the real log: " + err.Error(), Case: strings.Join(script, " / ")})
			continue
		}
		muts, err := ParseStrace(tracePath, live)
		if keep := os.Getenv("VERIF_KEEP_TRACE"); keep != "" {
			data, _ := os.ReadFile(tracePath)
			os.WriteFile(fmt.Sprintf("%s/trace-%d-%d.txt", keep, os.Getpid(), sidx), append([]byte(strings.Join(script, " / ")+"\n"), data...), 0o644)
		}
		os.Remove(tracePath)
		if err != nil {
			t.Fatal(err)
		}
		// every op must have completed without error in the live run
		for _, m := range muts {
			if m.Kind == "mark" && strings.Contains(m.Mark, " err ") {
				rep.Add(Finding{Kind: "oracle", Property: "C12", Oracle: "operation returned an error: " + m.Mark, Case: strings.Join(script, " / ")})
			}
		}
		checkPrograms(rep, "C12", script, muts)
		checkAppendBytes(rep, drv, script, muts, t)
		// spec states after each op
		states := make([]specLog, len(script)+1)
		for k, line := range script {
			states[k+1] = states[k].apply(line)
		}
		cuts := enumerateCuts(muts, maxcut)
		for ci, cp := range cuts {
			im := NewImage()
			for i := 0; i < cp.mut; i++ {
				im.Apply(muts[i], -1)
			}
			if cp.cut >= 0 {
				im.Apply(muts[cp.mut], cp.cut)
			}
			done, inflight := marksBefore(muts, afterEndMarks(muts, cp))
			caseLine := fmt.Sprintf("script=%s | cut=after %d syscalls%s | done=%d inflight=%d", strings.Join(script, " / "), cp.mut,
				map[bool]string{true: fmt.Sprintf(" + %d bytes of [%s]", cp.cut, muts[min(cp.mut, len(muts)-1)].String()), false: ""}[cp.cut >= 0], done, inflight)
			rep.Case(caseLine, inflight >= 0)
			// allowed outcomes
			before := states[done+1]
			allowed := []specLog{before}
			if inflight >= 0 {
				f := strings.Fields(script[inflight])
				if f[0] == "log.append" {
					es := parseSEnts(f[1])
					for k := 1; k <= len(es); k++ {
						a := before.clone()
						a.ents = append(a.ents, es[:k]...)
						allowed = append(allowed, a)
					}
					rep.Hit("cut-in-append")
				} else {
					allowed = append(allowed, before.apply(script[inflight]))
					rep.Hit("cut-in-" + f[0])
				}
			} else {
				rep.Hit("cut-between-ops")
			}
			dir := filepath.Join(root, fmt.Sprintf("img%d_%d", sidx, ci))
			if err := im.Materialize(dir); err != nil {
				t.Fatal(err)
			}
			lg, got, rerr := readLog(dir)
			observed := got.String()
			if rerr != nil {
				observed = "ERROR " + rerr.Error()
			}
			match := -1
			if rerr == nil {
				for ai, a := range allowed {
					if sameSpec(a, got) {
						match = ai
					}
				}
			}
			if match < 0 {
				sig := map[string]string{"oracle": "recover-log", "where": "cut-" + map[bool]string{true: "inside-op", false: "between-ops"}[inflight >= 0]}
				rep.Add(Finding{Kind: "oracle", Property: "C12", Oracle: "reopening the log after this crash does not yield the completed operations (optionally plus a prefix of the in-flight append)",
					Case: caseLine, Impl: observed, Detail: "expected one of: " + fmt.Sprint(allowed) + " | image: " + im.Describe(), Signature: sig})
				if inflight < 0 {
					rep.Add(Finding{Kind: "oracle", Property: "C19", Oracle: "log entries read back from storage (no operation in flight) are not the entries written",
						Case: caseLine, Impl: observed, Detail: "written: " + before.String(), Signature: map[string]string{"oracle": "readback-log"}})
				}
			}
			// model: Lean replay of the image's log.bin must read what the real code read
			if fileBytes, ok := im.Files["log/log.bin"]; ok && rerr == nil {
				ans, err := drv.Ask("REPLAY | " + hx(fileBytes))
				if err != nil {
					t.Fatal(err)
				}
				if !replayAgrees(ans, got) {
					rep.Add(Finding{Kind: "mismatch", Property: "C12", Case: caseLine, Impl: observed, Model: ans, Diff: []string{"replay: model reads log.bin differently"}})
				}
			}
			// keeps working: append, close, reopen
			if rerr == nil && match >= 0 && (ci%3 == 0 || inflight >= 0) {
				ne := &raft.LogEntry{Index: got.last() + 1, Term: 99, Data: []byte("after-crash"), EntryType: raft.OperationEntry}
				err1 := lg.AppendEntry(ne)
				err2 := lg.Close()
				_, got2, err3 := readLog(dir)
				want := got.clone()
				want.ents = append(want.ents, ne)
				if err1 != nil || err2 != nil || err3 != nil || !sameSpec(want, got2) {
					rep.Add(Finding{Kind: "oracle", Property: "C12", Oracle: "the reopened log does not keep working: append + reopen after recovery lost or corrupted entries",
						Case: caseLine, Impl: fmt.Sprintf("append=%v close=%v reopen=%v got=%s", err1, err2, err3, got2.String()), Detail: "want " + want.String(),
						Signature: map[string]string{"oracle": "recover-log-continue"}})
				}
				if lg2, _, _ := readLog(dir); lg2 != nil {
					lg2.Close()
				}
			} else if lg != nil {
				lg.Close()
			}
			os.RemoveAll(dir)
		}
		os.RemoveAll(live)
	}
}

// replayAgrees compares the model's "ok good=N ents=i.t.off.k.data;..." with what the real Replay returned
// (first model entry is the placeholder = base).
func replayAgrees(ans string, got specLog) bool {
	if !strings.HasPrefix(ans, "ok ") {
		return false
	}
	kv := ParseKV(ans)
	ents := kv["ents"]
	var parts []string
	if ents != "-" && ents != "" {
		parts = strings.Split(ents, ";")
	}
	if len(parts) == 0 {
		// empty file: the real code writes the placeholder
		return got.base == 0 && got.baseTerm == 0 && len(got.ents) == 0
	}
	f := strings.Split(parts[0], ".")
	if f[0] != fmt.Sprint(got.base) || f[1] != fmt.Sprint(got.baseTerm) {
		return false
	}
	if len(parts)-1 != len(got.ents) {
		return false
	}
	for i, e := range got.ents {
		f := strings.Split(parts[i+1], ".")
		if f[0] != fmt.Sprint(e.Index) || f[1] != fmt.Sprint(e.Term) || f[3] != fmt.Sprint(uint32(e.EntryType)) || f[4] != hx(e.Data) {
			return false
		}
	}
	return true
}

var _ = io.EOF

// checkAppendBytes: the bytes the real AppendEntries wrote must be exactly the model's
// records (entry with Offset = end of file at the time), appended at the end of the file.
func checkAppendBytes(rep *Report, drv *Driver, script []string, muts []Mut, t *testing.T) {
	per := opMutations(muts)
	size := map[string]int64{}
	// replay all mutations to know file sizes at each op
	im := NewImage()
	idx := 0
	spec := specLog{}
	for k, line := range script {
		// advance image to the beginning of op k
		for idx < len(muts) {
			m := muts[idx]
			if m.Kind == "mark" && m.Mark == fmt.Sprintf("b %d", k) {
				break
			}
			im.Apply(m, -1)
			idx++
		}
		f := strings.Fields(line)
		specBefore := spec
		spec = spec.apply(line)
		if f[0] == "log.compact" {
			// Compact rewrites the kept suffix into a temporary file with the same loop, from offset 0:
			// the bytes must be the model's writeSeq [] kept (the theorem C12_compact_rewrites_exactly is about it)
			ci, _ := strconv.ParseUint(f[1], 10, 64)
			if ci <= specBefore.base || ci > specBefore.last() {
				continue
			}
			var parts []string
			for _, e := range specBefore.ents[ci-specBefore.base-1:] {
				parts = append(parts, fmt.Sprintf("%d.%d.0.%d.%s", e.Index, e.Term, uint32(e.EntryType), hx(e.Data)))
			}
			ans, err := drv.Ask("WRITESEQ | 0 | " + strings.Join(parts, ";"))
			if err != nil {
				t.Fatal(err)
			}
			want := unhx(ParseKV(ans)["bytes"])
			var got []byte
			tmp := ""
			seq := true
			for _, m := range per[k] {
				if m.Kind == "write" && m.Path != "log/log.bin" && strings.HasPrefix(m.Path, "log/") {
					if tmp == "" {
						tmp = m.Path
					}
					if m.Path != tmp || m.Off != int64(len(got)) {
						seq = false
					}
					got = append(got, m.Data...)
				}
			}
			renamed := false
			for _, m := range per[k] {
				if m.Kind == "rename" && m.Path == tmp && m.Path2 == "log/log.bin" {
					renamed = true
				}
			}
			rep.Hit("compact-bytes")
			if !seq || !renamed || !bytes.Equal(got, want) {
				rep.Add(Finding{Kind: "mismatch", Property: "C12", Case: "bytes of " + line + " on " + specBefore.String(), Impl: hx(got), Model: hx(want),
					Diff: []string{fmt.Sprintf("compact wrote different bytes than the model's writeSeq of the kept entries, or not sequentially into one temporary file renamed over log.bin (sequential=%v renamed=%v)", seq, renamed)}})
			}
			continue
		}
		if f[0] != "log.append" {
			continue
		}
		off := int64(len(im.Files["log/log.bin"]))
		size["log"] = off
		var want []byte
		for _, e := range parseSEnts(f[1]) {
			ans, err := drv.Ask(fmt.Sprintf("ENCLOG | %d.%d.%d.%d.%s", e.Index, e.Term, off+int64(len(want)), uint32(e.EntryType), hx(e.Data)))
			if err != nil {
				t.Fatal(err)
			}
			want = append(want, unhx(ans)...)
		}
		{
			var parts []string
			for _, e := range parseSEnts(f[1]) {
				parts = append(parts, fmt.Sprintf("%d.%d.0.%d.%s", e.Index, e.Term, uint32(e.EntryType), hx(e.Data)))
			}
			ans, err := drv.Ask(fmt.Sprintf("WRITESEQ | %d | %s", off, strings.Join(parts, ";")))
			if err != nil {
				t.Fatal(err)
			}
			if b := unhx(ParseKV(ans)["bytes"]); !bytes.Equal(b, want) {
				rep.Add(Finding{Kind: "mismatch", Property: "C12", Case: "model writeSeq vs per-record encoding of " + line, Impl: hx(want), Model: hx(b),
					Diff: []string{"the model's batch loop (writeSeq) and its per-record encoder disagree"}})
			}
		}
		var got []byte
		pos := off
		okAppend := true
		for _, m := range per[k] {
			if m.Kind == "write" && m.Path == "log/log.bin" {
				if m.Off != pos {
					okAppend = false
				}
				got = append(got, m.Data...)
				pos += int64(len(m.Data))
			}
		}
		rep.Hit("append-bytes")
		if !okAppend || !bytes.Equal(got, want) {
			rep.Add(Finding{Kind: "mismatch", Property: "C12", Case: "bytes of " + line, Impl: hx(got), Model: hx(want),
				Diff: []string{fmt.Sprintf("append wrote different bytes than the model's records, or not at the end of the file (sequential=%v)", okAppend)}})
		}
	}
}
