package harness

import (
	"fmt"
	"regexp"
	"strings"
)

// opMutations returns, per script operation index, the mutations between its MARK b and MARK e.
func opMutations(muts []Mut) map[int][]Mut {
	out := map[int][]Mut{}
	cur := -1
	for _, m := range muts {
		if m.Kind == "mark" {
			f := strings.Fields(m.Mark)
			var k int
			fmt.Sscanf(f[1], "%d", &k)
			if f[0] == "b" {
				cur = k
				out[k] = []Mut{}
			} else {
				cur = -1
			}
			continue
		}
		if cur >= 0 {
			out[cur] = append(out[cur], m)
		}
	}
	return out
}

var tmpName = regexp.MustCompile(`tmp-[a-z]*[0-9]+`)
var snapName = regexp.MustCompile(`snapshot-[0-9]+`)

// normalise renders a mutation list with temporary names replaced by T and sizes instead of bytes.
func normalise(ms []Mut) string {
	var parts []string
	for _, m := range ms {
		p := snapName.ReplaceAllString(tmpName.ReplaceAllString(m.Path, "T"), "S")
		p2 := snapName.ReplaceAllString(tmpName.ReplaceAllString(m.Path2, "T"), "S")
		switch m.Kind {
		case "write":
			parts = append(parts, fmt.Sprintf("write %s", p))
		case "trunc":
			parts = append(parts, fmt.Sprintf("trunc %s", p))
		case "rename":
			parts = append(parts, fmt.Sprintf("rename %s %s", p, p2))
		default:
			parts = append(parts, m.Kind+" "+p)
		}
	}
	return strings.Join(parts, "; ")
}

// programShapes: the syscall program the Lean storage model assumes for each operation
// (Model/FS.lean, Properties/C12.lean, Properties/C13.lean), as a regular expression
// over the normalised trace.
var programShapes = map[string]*regexp.Regexp{
	// every record = header write + body write at the end of log.bin, then one fsync
	"log.append": regexp.MustCompile(`^(write log/log\.bin; (write log/log\.bin; )?)+fsync log/log\.bin$`),
	// one ftruncate, then fsync
	"log.truncate": regexp.MustCompile(`^trunc log/log\.bin; fsync log/log\.bin$`),
	// new file written under a temporary name, synced, then renamed over log.bin
	"log.compact": regexp.MustCompile(`^create log/T; (write log/T; )+fsync log/T; fsync log/log\.bin; rename log/T log/log\.bin$`),
	"log.discard": regexp.MustCompile(`^create log/T; (write log/T; )+fsync log/T; fsync log/log\.bin; rename log/T log/log\.bin$`),
	// Model/FS.lean setStateProg
	"state.set": regexp.MustCompile(`^create state/T; write state/T; (write state/T; )?rename state/T state/state\.bin$`),
	// writer works inside a tmp-snapshot* directory
	"snap.new":   regexp.MustCompile(`^mkdir snapshots/T; create snapshots/T/snapshot\.bin; (trunc snapshots/T/snapshot\.bin; )?create snapshots/T/metadata\.json; (trunc snapshots/T/metadata\.json; )?write snapshots/T/metadata\.json; fsync snapshots/T/metadata\.json$`),
	"snap.write": regexp.MustCompile(`^(write snapshots/T/snapshot\.bin(; )?)*$`),
	// only Close makes the directory visible, by one rename, after fsync
	"snap.close": regexp.MustCompile(`^fsync snapshots/T/snapshot\.bin; rename snapshots/T snapshots/S$`),
}

// checkPrograms compares the observed program of every operation with the model's.
func checkPrograms(rep *Report, prop string, script []string, muts []Mut) {
	per := opMutations(muts)
	for k, line := range script {
		op := strings.Fields(line)[0]
		shape, ok := programShapes[op]
		if !ok {
			continue
		}
		got := normalise(per[k])
		rep.Hit("program:" + op)
		if !shape.MatchString(got) {
			rep.Add(Finding{Kind: "mismatch", Property: prop, Case: "program of " + op + " in script " + shortScript(script),
				Impl: got, Model: shape.String(), Diff: []string{"the system calls of this operation are not the program the storage model assumes"}})
		}
	}
}
