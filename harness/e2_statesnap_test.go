package harness

import (
	"crypto/sha256"
	"bytes"
	"fmt"
	"io"
	"os"
	"path/filepath"
	"strconv"
	"strings"
	"testing"

	"github.com/jmsadair/raft"
)

type snapSpec struct {
	index, term uint64
	cfg, data   []byte
	closed      bool
	seq         int // creation order (position of its snap.new in the script)
}

// newestClosed: "the most recent snapshot whose writer was closed" has two readings when writers
// overlap: closed last, or created last among the closed ones (the storage orders directories
// by creation time). Both are accepted; see DESIGN.md section 11.
func newestClosed(closedOrder []*snapSpec) []*snapSpec {
	if len(closedOrder) == 0 {
		return nil
	}
	byClose := closedOrder[len(closedOrder)-1]
	byCreate := byClose
	for _, c := range closedOrder {
		if c.seq > byCreate.seq {
			byCreate = c
		}
	}
	if byCreate == byClose {
		return []*snapSpec{byClose}
	}
	return []*snapSpec{byClose, byCreate}
}

// readState recovers term/vote from dir as a restarting node does.
func readState(dir string) (term uint64, vote string, err error) {
	defer func() {
		if r := recover(); r != nil {
			err = fmt.Errorf("panic: %v", r)
		}
	}()
	st, err := raft.NewStateStorage(dir)
	if err != nil {
		return 0, "", fmt.Errorf("NewStateStorage: %w", err)
	}
	return st.State()
}

// readSnap recovers the newest snapshot from dir as a restarting node does.
func readSnap(dir string) (found bool, got snapSpec, err error) {
	defer func() {
		if r := recover(); r != nil {
			err = fmt.Errorf("panic: %v", r)
		}
	}()
	sn, err := raft.NewSnapshotStorage(dir)
	if err != nil {
		return false, got, fmt.Errorf("NewSnapshotStorage: %w", err)
	}
	f, err := sn.SnapshotFile()
	if err != nil {
		return false, got, fmt.Errorf("SnapshotFile: %w", err)
	}
	if f == nil {
		return false, got, nil
	}
	defer f.Close()
	md := f.Metadata()
	data, err := io.ReadAll(f)
	if err != nil {
		return true, got, fmt.Errorf("read: %w", err)
	}
	return true, snapSpec{index: md.LastIncludedIndex, term: md.LastIncludedTerm, cfg: md.Configuration, data: data, closed: true}, nil
}

func genStateSnapScript(rng *Rng, nops int) []string {
	script := []string{"state.open", "snap.open"}
	nw := 0
	open := map[string]bool{}
	sizes := []int{0, 1, 37, 4096, 32768, 70000}
	// the label of the first snapshot: small, or just below a power of ten (the next snapshots cross it: the
	// storage must order its snapshots by age whatever their labels look like)
	idx := []uint64{0, 0, 6, 95, 997, 99996}[rng.Intn(6)]
	for len(script) < nops+2 {
		switch r := rng.Intn(100); {
		case r < 8:
			script = append(script, "snap.read")
		case r < 11:
			script = append(script, "state.read")
		case r < 30:
			script = append(script, fmt.Sprintf("state.set %d %s", genU64(rng), hx([]byte(idPool[rng.Intn(len(idPool))]))))
		case r < 50 && len(open) < 2:
			nw++
			w := fmt.Sprintf("w%d", nw)
			open[w] = true
			idx += uint64(1 + rng.Intn(5))
			c := &Cfg{Index: uint64(rng.Intn(int(idx)) + 1), Members: [][2]uint64{{1, 1}, {2, uint64(rng.Intn(2))}, {3, 1}}[:1+rng.Intn(3)]}
			cb, _ := codec.EncodeConfiguration(c.ToRaft())
			script = append(script, fmt.Sprintf("snap.new %s %d %d %s", w, idx, 1+rng.Intn(3), hx(cb)))
		case r < 75 && len(open) > 0:
			for w := range open {
				n := sizes[rng.Intn(len(sizes))]
				b := make([]byte, n)
				for i := range b {
					b[i] = byte(rng.Intn(256))
				}
				script = append(script, fmt.Sprintf("snap.write %s %s", w, hx(b)))
				break
			}
		case r < 93 && len(open) > 0:
			for w := range open {
				script = append(script, "snap.close "+w)
				delete(open, w)
				break
			}
		case len(open) > 0:
			for w := range open {
				script = append(script, "snap.discard "+w)
				delete(open, w)
				break
			}
		default:
			script = append(script, fmt.Sprintf("state.set %d %s", uint64(rng.Intn(9)), hx([]byte("2"))))
		}
	}
	return script
}

func TestE2StateSnapCrash(t *testing.T) {
	rep := NewReport("E2-state-snapshot-crash")
	rep.Rule = "seeded scripts of SetState / NewSnapshotFile+Write+Close|Discard with up to two overlapping writers and payloads 0 B..70000 B, run against the real storages under strace; crash images after every mutating syscall and at sampled bytes inside every write; each image: the real constructors must succeed on the first attempt, State() must return the last completed or the in-flight value, SnapshotFile() the newest closed snapshot complete with matching metadata; then a whole node (NewRaft) is constructed over the image; non-trivial = cut inside an operation"
	defer rep.Write()
	if !StraceAvailable() {
		t.Fatal("strace unavailable")
	}
	self, _ := os.Executable()
	rng := NewRng(Seed() + 17)
	nscripts := EnvInt("VERIF_SCRIPTS", 5)
	nops := EnvInt("VERIF_OPS", 9)
	root, _ := os.MkdirTemp(ScratchRoot(), "verif-e2ss-")
	defer os.RemoveAll(root)
	// directed scripts run first: reads interleaved with writes on ONE storage object (what a node that is
	// stopped and restarted in place does: restore() reads through the object that SetState wrote through),
	// a discarded writer after a closed one, a discarded writer alone
	dcb, _ := codec.EncodeConfiguration((&Cfg{Index: 1, Members: [][2]uint64{{1, 1}, {2, 1}, {3, 1}}}).ToRaft())
	dc := hx(dcb)
	directed := [][]string{
		{"state.open", "snap.open", "state.read", "state.set 5 " + hx([]byte("2")), "state.read", "state.set 7 " + hx([]byte("3")), "state.read", "state.set 7 -", "state.read"},
		{"state.open", "snap.open", "state.set 3 " + hx([]byte("1")), "state.read", "state.set 4 " + hx([]byte("1")), "state.read"},
		{"state.open", "snap.open", "snap.new w1 4 2 " + dc, "snap.write w1 0102", "snap.close w1", "snap.read", "snap.new w2 9 3 " + dc, "snap.write w2 03", "snap.discard w2", "snap.read"},
		{"state.open", "snap.open", "snap.new w1 4 2 " + dc, "snap.write w1 0102", "snap.discard w1", "snap.read"},
		// labels that cross a power of ten, and a newer snapshot with the same label as an older one
		{"state.open", "snap.open", "snap.new w1 9 2 " + dc, "snap.write w1 01", "snap.close w1", "snap.read", "snap.new w2 10 2 " + dc, "snap.write w2 0202", "snap.close w2", "snap.read",
			"snap.new w3 100 3 " + dc, "snap.write w3 030303", "snap.close w3", "snap.read", "snap.new w4 100 3 " + dc, "snap.write w4 04040404", "snap.close w4", "snap.read"},
	}
	// many snapshots in one directory (the library never removes an old one): after each Close the storage, and a
	// second storage object opened over the same directory, must return the snapshot just closed. Labels cross
	// powers of ten and repeat; no strace here, the directory only grows.
	{
		dir := filepath.Join(root, "many")
		os.MkdirAll(dir, 0o755)
		line := "MANY | 40 snapshots closed one after another in one directory, the newest read back after each"
		if sn, err := raft.NewSnapshotStorage(dir); err == nil {
			label := uint64(5)
			okAll := true
			for i := 0; i < 40 && okAll; i++ {
				label += []uint64{0, 1, 3, 40, 900}[rng.Intn(5)]
				f, err := sn.NewSnapshotFile(label, 1+uint64(i%3), dcb)
				if err != nil {
					rep.Add(Finding{Kind: "oracle", Property: "C13", Oracle: "NewSnapshotFile failed in a directory that holds closed snapshots: " + err.Error(), Case: line, Signature: map[string]string{"oracle": "live-snapshot-read"}})
					break
				}
				payload := []byte(fmt.Sprintf("snapshot #%d labelled %d", i, label))
				f.Write(payload)
				if err := f.Close(); err != nil {
					rep.Add(Finding{Kind: "oracle", Property: "C13", Oracle: "Close of a snapshot writer failed: " + err.Error(), Case: line, Signature: map[string]string{"oracle": "live-snapshot-read"}})
					break
				}
				for pass := 0; pass < 2; pass++ {
					var found bool
					var gs snapSpec
					var rerr error
					if pass == 0 {
						if g, err := sn.SnapshotFile(); err != nil || g == nil {
							rerr = fmt.Errorf("SnapshotFile: %v", err)
						} else {
							md := g.Metadata()
							data, _ := io.ReadAll(g)
							g.Close()
							found, gs = true, snapSpec{index: md.LastIncludedIndex, term: md.LastIncludedTerm, data: data}
						}
					} else {
						found, gs, rerr = readSnap(dir)
					}
					rep.Case(fmt.Sprintf("%s #%d.%d", line, i, pass), true)
					rep.Hit("many-snapshots")
					if rerr != nil || !found || gs.index != label || !bytes.Equal(gs.data, payload) {
						okAll = false
						rep.Add(Finding{Kind: "oracle", Property: "C13", Oracle: "SnapshotFile() does not return the most recently closed snapshot (complete, with its metadata) in a directory that holds many", Case: line,
							Impl:      fmt.Sprintf("after closing snapshot #%d (label %d) the %s returned found=%v label=%d %q err=%v", i, label, map[int]string{0: "same storage object", 1: "storage reopened over the directory"}[pass], found, gs.index, gs.data, rerr),
							Signature: map[string]string{"oracle": "live-snapshot-read"}})
						break
					}
				}
			}
		}
	}
	for sidx := 0; sidx < nscripts+len(directed); sidx++ {
		var script []string
		if sidx < len(directed) {
			script = directed[sidx]
		} else {
			script = genStateSnapScript(rng, nops)
		}
		scriptPath := filepath.Join(root, fmt.Sprintf("script%d.txt", sidx))
		os.WriteFile(scriptPath, []byte(strings.Join(script, "\n")+"\n"), 0o644)
		live := filepath.Join(root, fmt.Sprintf("live%d", sidx))
		os.MkdirAll(live, 0o777)
		tracePath := filepath.Join(root, fmt.Sprintf("trace%d.txt", sidx))
		short := shortScript(script)
		if err := TraceChild(self, scriptPath, live, tracePath); err != nil {
			rep.Add(Finding{Kind: "oracle", Property: "C13", Oracle: "a script failed on the real storages: " + err.Error(), Case: short})
			continue
		}
		muts, err := ParseStrace(tracePath, live)
		os.Remove(tracePath)
		if err != nil {
			t.Fatal(err)
		}
		for _, m := range muts {
			if m.Kind == "mark" && strings.Contains(m.Mark, " err ") {
				rep.Add(Finding{Kind: "oracle", Property: "C13", Oracle: "operation returned an error: " + m.Mark, Case: short})
			}
		}
		checkPrograms(rep, "C13", script, muts)
		checkLiveReads(rep, script, muts, short)
		cuts := enumerateCuts(muts, EnvInt("VERIF_MAXCUT", 6))
		for ci, cp := range cuts {
			im := NewImage()
			for i := 0; i < cp.mut; i++ {
				im.Apply(muts[i], -1)
			}
			if cp.cut >= 0 {
				im.Apply(muts[cp.mut], cp.cut)
			}
			done, inflight := marksBefore(muts, afterEndMarks(muts, cp))
			caseLine := fmt.Sprintf("script=%s | cut=after %d syscalls (+%d bytes) | done=%d inflight=%d", short, cp.mut, cp.cut, done, inflight)
			rep.Case(caseLine, inflight >= 0)
			// spec: replay completed ops
			type tv struct {
				t uint64
				v string
			}
			cur := tv{0, ""}
			var inflightTV *tv
			writers := map[string]*snapSpec{}
			var closedOrder []*snapSpec
			var inflightClose *snapSpec
			for k, line := range script {
				if k > done && k != inflight {
					break
				}
				f := strings.Fields(line)
				switch f[0] {
				case "state.set":
					tm, _ := strconv.ParseUint(f[1], 10, 64)
					x := tv{tm, string(unhx(f[2]))}
					if k == inflight {
						inflightTV = &x
					} else {
						cur = x
					}
				case "snap.new":
					if k == inflight {
						continue
					}
					i, _ := strconv.ParseUint(f[2], 10, 64)
					tm, _ := strconv.ParseUint(f[3], 10, 64)
					writers[f[1]] = &snapSpec{index: i, term: tm, cfg: unhx(f[4]), seq: k}
				case "snap.write":
					if k == inflight {
						continue
					}
					writers[f[1]].data = append(writers[f[1]].data, unhx(f[2])...)
				case "snap.close":
					if k == inflight {
						inflightClose = writers[f[1]]
						continue
					}
					writers[f[1]].closed = true
					closedOrder = append(closedOrder, writers[f[1]])
				case "snap.discard":
					if k == inflight {
						continue
					}
					delete(writers, f[1])
				}
			}
			if inflight >= 0 {
				rep.Hit("cut-in-" + strings.Fields(script[inflight])[0])
			} else {
				rep.Hit("cut-between-ops")
			}
			dir := filepath.Join(root, fmt.Sprintf("img%d_%d", sidx, ci))
			if err := im.Materialize(dir); err != nil {
				t.Fatal(err)
			}
			// term/vote
			gt, gv, serr := readState(dir)
			okState := serr == nil && ((gt == cur.t && gv == cur.v) || (inflightTV != nil && gt == inflightTV.t && gv == inflightTV.v))
			if !okState {
				rep.Add(Finding{Kind: "oracle", Property: "C13", Oracle: "term/vote storage after this crash returns neither the last completed value nor the value being written",
					Case: caseLine, Impl: fmt.Sprintf("term=%d vote=%q err=%v", gt, gv, serr), Detail: fmt.Sprintf("last completed=%v in flight=%v | image: %s", cur, inflightTV, describeShort(im)),
					Signature: map[string]string{"oracle": "recover-state"}})
				if inflight < 0 {
					rep.Add(Finding{Kind: "oracle", Property: "C19", Oracle: "the term/vote pair read back from storage (no operation in flight) is not what was written",
						Case: caseLine, Impl: fmt.Sprintf("term=%d vote=%q err=%v", gt, gv, serr), Detail: fmt.Sprintf("written=%v", cur), Signature: map[string]string{"oracle": "readback-state"}})
				}
			}
			// snapshots
			found, gs, nerr := readSnap(dir)
			okSnap := nerr == nil
			if okSnap {
				var want *snapSpec
				if len(closedOrder) > 0 {
					want = closedOrder[len(closedOrder)-1]
				}
				match := func(w *snapSpec) bool {
					return w != nil && found && gs.index == w.index && gs.term == w.term && bytes.Equal(gs.cfg, w.cfg) && bytes.Equal(gs.data, w.data)
				}
				alt := false
				for _, w := range newestClosed(closedOrder) {
					if match(w) {
						alt = true
						if w != want {
							rep.Hit("overlapping-writers-created-last-returned")
						}
					}
				}
				switch {
				case want == nil && !found:
				case alt:
				case inflightClose != nil && match(inflightClose):
				default:
					okSnap = false
				}
			}
			if !okSnap {
				sig := map[string]string{"oracle": "recover-snapshot"}
				if nerr == nil && found && len(closedOrder) > 1 {
					// classify: an older closed snapshot returned because directory names carry the creation time
					for _, c := range closedOrder[:len(closedOrder)-1] {
						if gs.index == c.index && gs.term == c.term && bytes.Equal(gs.data, c.data) {
							sig["pattern"] = "overlapping-writers-older-closed-returned"
						}
					}
				}
				rep.Add(Finding{Kind: "oracle", Property: "C13", Oracle: "snapshot storage after this crash does not return the most recently closed snapshot complete with matching metadata",
					Case: caseLine, Impl: fmt.Sprintf("found=%v index=%d term=%d len=%d err=%v", found, gs.index, gs.term, len(gs.data), nerr),
					Detail: "image: " + describeShort(im), Signature: sig})
				if inflight < 0 && sig["pattern"] == "" {
					rep.Add(Finding{Kind: "oracle", Property: "C19", Oracle: "snapshot content/metadata read back from storage (no operation in flight) is not what was written",
						Case: caseLine, Impl: fmt.Sprintf("found=%v index=%d term=%d len=%d err=%v", found, gs.index, gs.term, len(gs.data), nerr), Signature: map[string]string{"oracle": "readback-snapshot"}})
				}
			}
			// a whole node over the image, first attempt
			if ci%4 == 0 || inflight >= 0 {
				func() {
					defer func() {
						if r := recover(); r != nil {
							rep.Add(Finding{Kind: "oracle", Property: "C13", Oracle: fmt.Sprintf("constructing a node over the crashed directory panicked: %v", r), Case: caseLine,
								Signature: map[string]string{"oracle": "construct-node"}})
						}
					}()
					r, err := raft.NewRaft("1", Addr(1), &NullFSM{}, dir, raft.WithTransport(&NullTransport{addr: Addr(1)}))
					if err != nil {
						rep.Add(Finding{Kind: "oracle", Property: "C13", Oracle: "constructing a node over the crashed directory failed on the first attempt: " + err.Error(), Case: caseLine,
							Detail: "image: " + describeShort(im), Signature: map[string]string{"oracle": "construct-node"}})
					} else {
						if l := r.VerifLog(); l != nil {
							l.Close()
						}
					}
				}()
			}
			os.RemoveAll(dir)
		}
		os.RemoveAll(live)
	}
}

func shortScript(script []string) string {
	var parts []string
	for _, l := range script {
		f := strings.Fields(l)
		for i, x := range f {
			if len(x) > 24 {
				f[i] = fmt.Sprintf("%s..(%dB)", x[:12], len(x)/2)
			}
		}
		parts = append(parts, strings.Join(f, " "))
	}
	return strings.Join(parts, " / ")
}

func describeShort(im *Image) string {
	var parts []string
	for p, d := range im.Files {
		parts = append(parts, fmt.Sprintf("%s(%dB)", p, len(d)))
	}
	for d := range im.Dirs {
		parts = append(parts, d+"/")
	}
	return strings.Join(parts, " ")
}

// checkLiveReads: what the live storages returned for snap.read / state.read (no crash) against
// the sequential specification: the newest *closed* snapshot, complete; the last value set.
func checkLiveReads(rep *Report, script []string, muts []Mut, short string) {
	results := map[int]string{}
	for _, m := range muts {
		if m.Kind != "mark" {
			continue
		}
		f := strings.Fields(m.Mark)
		if len(f) >= 3 && f[0] == "e" && f[2] == "ok" {
			k, _ := strconv.Atoi(f[1])
			results[k] = strings.Join(f[3:], " ")
		}
	}
	curT, curV := uint64(0), ""
	writers := map[string]*snapSpec{}
	var lastClosed *snapSpec
	var closedLive []*snapSpec
	for k, line := range script {
		f := strings.Fields(line)
		switch f[0] {
		case "state.set":
			curT, _ = strconv.ParseUint(f[1], 10, 64)
			curV = string(unhx(f[2]))
		case "snap.new":
			i, _ := strconv.ParseUint(f[2], 10, 64)
			tm, _ := strconv.ParseUint(f[3], 10, 64)
			writers[f[1]] = &snapSpec{index: i, term: tm, cfg: unhx(f[4]), seq: k}
		case "snap.write":
			writers[f[1]].data = append(writers[f[1]].data, unhx(f[2])...)
		case "snap.close":
			lastClosed = writers[f[1]]
			closedLive = append(closedLive, writers[f[1]])
		case "snap.discard":
			delete(writers, f[1])
		case "snap.read":
			want := "found=0"
			if lastClosed != nil {
				want = fmt.Sprintf("found=1 idx=%d term=%d len=%d sha=%x", lastClosed.index, lastClosed.term, len(lastClosed.data), sha256.Sum256(lastClosed.data))
			}
			rep.Hit("live-snap-read")
			okAlt := false
			for _, w := range newestClosed(closedLive) {
				if results[k] == fmt.Sprintf("found=1 idx=%d term=%d len=%d sha=%x", w.index, w.term, len(w.data), sha256.Sum256(w.data)) {
					okAlt = true
				}
			}
			if got, ok := results[k]; ok && got != want && !okAlt {
				open := 0
				for _, w := range writers {
					if !w.closed && w != lastClosed {
						open++
					}
				}
				rep.Add(Finding{Kind: "oracle", Property: "C13", Oracle: "SnapshotFile() on the live storage does not return the most recently closed snapshot (complete, with its metadata)",
					Case: fmt.Sprintf("%s | op #%d snap.read", short, k), Impl: got, Detail: "want " + want, Signature: map[string]string{"oracle": "live-snapshot-read"}})
			}
		case "state.read":
			want := fmt.Sprintf("term=%d vote=%s", curT, hx([]byte(curV)))
			rep.Hit("live-state-read")
			if got, ok := results[k]; ok && got != want {
				rep.Add(Finding{Kind: "oracle", Property: "C13", Oracle: "State() on the live storage does not return the last value set", Case: fmt.Sprintf("%s | op #%d state.read", short, k), Impl: got, Detail: "want " + want,
					Signature: map[string]string{"oracle": "readback-state"}})
			}
		}
	}
}
