package harness

import (
	"sync/atomic"
	"strings"
	"fmt"
	"os"
	"testing"
	"testing/synctest"
	"time"

	"github.com/jmsadair/raft"
)

// ---------------------------------------------------------------- domain generators

// termSeqs returns all non-decreasing term sequences of length n over 1..maxT.
func termSeqs(n int, maxT uint64) [][]uint64 {
	if n == 0 {
		return [][]uint64{{}}
	}
	var out [][]uint64
	for _, p := range termSeqs(n-1, maxT) {
		lo := uint64(1)
		if len(p) > 0 {
			lo = p[len(p)-1]
		}
		for t := lo; t <= maxT; t++ {
			out = append(out, append(append([]uint64{}, p...), t))
		}
	}
	return out
}

func allTermSeqs(maxLen int, maxT uint64) [][]uint64 {
	var out [][]uint64
	for n := 0; n <= maxLen; n++ {
		out = append(out, termSeqs(n, maxT)...)
	}
	return out
}

// mkLog builds a log whose absolute indices 1..len(terms) carry the given terms,
// compacted through base. Payload token = 100*index+term*10+salt so that different
// logs carry different data at equal (index, term) only when salt differs.
func mkLog(terms []uint64, base int, salt uint64) LogSt {
	l := LogSt{}
	if base > 0 {
		l.Base = uint64(base)
		l.BaseTerm = terms[base-1]
	}
	for i := base; i < len(terms); i++ {
		l.Ents = append(l.Ents, Ent{Index: uint64(i + 1), Term: terms[i], Kind: 1, Data: uint64(100*(i+1)) + terms[i]*10 + salt})
	}
	return l
}

type aeCase struct {
	pre NodeSt
	now int64
	req raft.AppendEntriesRequest
	ents []Ent
}

func (c aeCase) reqString() string {
	return fmt.Sprintf("leader=%d term=%d lc=%d pi=%d pt=%d ents=%s", IDNum(c.req.LeaderID), c.req.Term,
		c.req.LeaderCommit, c.req.PrevLogIndex, c.req.PrevLogTerm, EntsString(c.ents))
}
func (c aeCase) line() string {
	return fmt.Sprintf("AE | %d | %s | %s", c.now, c.pre.String(), c.reqString())
}

var cfg3 = &Cfg{Index: 1, Members: [][2]uint64{{1, 1}, {2, 1}, {3, 1}}}

// genAE draws one case of the C06 domain from rng.
func genAE(rng *Rng, seqs [][]uint64, now int64) aeCase {
	ft := seqs[rng.Intn(len(seqs))]
	lt := seqs[rng.Intn(len(seqs))]
	// Bias toward related logs: half of the time the leader log shares a prefix with the follower's.
	if rng.Chance(50) && len(ft) > 0 {
		k := rng.Intn(len(ft) + 1)
		shared := append([]uint64{}, ft[:k]...)
		tail := seqs[rng.Intn(len(seqs))]
		last := uint64(1)
		if k > 0 {
			last = shared[k-1]
		}
		for _, t := range tail {
			if len(shared) >= 5 {
				break
			}
			if t < last {
				t = last
			}
			shared = append(shared, t)
			last = t
		}
		lt = shared
	}
	base := 0
	if len(ft) > 0 && rng.Chance(40) {
		base = 1 + rng.Intn(min(len(ft), 3))
	}
	flog := mkLog(ft, base, 1)
	salt := uint64(1)
	if rng.Chance(30) {
		salt = 2
	}
	T := uint64(3)
	pre := NodeSt{ID: 1, Role: []string{"F", "F", "F", "C", "P", "L"}[rng.Intn(6)], Term: T,
		Vote: []uint64{0, 1, 2, 3}[rng.Intn(4)], Log: flog, Cfg: cfg3, Com: cfg3, SV: true, ET: 300, LD: 100,
		LC: now - int64(rng.Intn(700)), LE: now - 1}
	pre.SI = flog.Base
	pre.ST = flog.BaseTerm
	if rng.Chance(10) && flog.Base > 0 { // snapshot boundary not aligned with the log base (crash leftovers)
		pre.SI = flog.Base + uint64(rng.Intn(2))
		if e := flog.Get(pre.SI); e != nil {
			pre.ST = e.Term
		}
	}
	if rng.Chance(5) {
		// the same crash point with a log that is SHORTER than the received snapshot (S21): after the
		// restart the boundary lies beyond the end of the log
		pre.SI = flog.LastIndex() + 1 + uint64(rng.Intn(3))
		pre.ST = T - uint64(rng.Intn(2))
	}
	if rng.Chance(6) && len(flog.Ents) > 0 {
		// a node restarted from the directory as it is between the two storage writes of InstallSnapshot:
		// the received snapshot is visible, the log not yet discarded and still holding, at the snapshot's
		// index, an uncommitted entry of an older term (restore() takes boundary and term from the snapshot)
		e := flog.Ents[rng.Intn(len(flog.Ents))]
		pre.SI, pre.ST = e.Index, e.Term+1
	}
	li := flog.LastIndex()
	lo := pre.SI
	if li >= lo {
		pre.CI = lo + uint64(rng.Intn(int(li-lo)+1))
	} else {
		pre.CI = lo
	}
	pre.LA = lo + uint64(rng.Intn(int(pre.CI-lo)+1))
	// a configuration entry above the commit index that the node has adopted (a leader adopts a change
	// when it appends it; deposed, it keeps it until a truncation takes the entry away): C09 domain
	if li > pre.CI && rng.Chance(25) {
		j := pre.CI + 1 + uint64(rng.Intn(int(li-pre.CI)))
		for k := range flog.Ents {
			if flog.Ents[k].Index == j {
				nc := &Cfg{Index: j, Members: [][2]uint64{{1, 1}, {2, 1}, {3, 1}, {4, uint64(rng.Intn(2))}}}
				if rng.Chance(30) {
					nc.Members = [][2]uint64{{1, 1}, {2, 1}}
				}
				flog.Ents[k].Kind, flog.Ents[k].Data, flog.Ents[k].Cfg = 2, 0, nc
				pre.Log = flog
				pre.Cfg = nc
			}
		}
	}
	// request
	prev := rng.Intn(len(lt) + 2) // may point one past the leader's log (never built, but a possible input)
	if prev > len(lt) {
		prev = len(lt)
	}
	cnt := rng.Intn(len(lt) - prev + 1)
	var ents []Ent
	for i := prev; i < prev+cnt; i++ {
		ents = append(ents, Ent{Index: uint64(i + 1), Term: lt[i], Kind: 1, Data: uint64(100*(i+1)) + lt[i]*10 + salt})
	}
	if len(ents) > 0 && rng.Chance(12) { // the leader replicates a membership change
		k := rng.Intn(len(ents))
		ents[k].Kind, ents[k].Data = 2, 0
		ents[k].Cfg = &Cfg{Index: ents[k].Index, Members: [][2]uint64{{1, 1}, {2, 1}, {3, 1}, {5, uint64(rng.Intn(2))}}}
	}
	var pt uint64
	if prev > 0 {
		pt = lt[prev-1]
	}
	if rng.Chance(8) {
		pt = uint64(1 + rng.Intn(3))
	}
	rt := []uint64{T - 1, T, T, T, T + 1}[rng.Intn(5)]
	req := raft.AppendEntriesRequest{LeaderID: "2", Term: rt, LeaderCommit: uint64(rng.Intn(7)),
		PrevLogIndex: uint64(prev), PrevLogTerm: pt, Entries: EntsToRaft(ents)}
	return aeCase{pre: pre, now: now, req: req, ents: ents}
}

func aeRespString(r raft.AppendEntriesResponse) string {
	return fmt.Sprintf("term=%d ok=%s idx=%d", r.Term, b01(r.Success), r.Index)
}

// oracleC06 evaluates the handler-level statements of C06 directly on what the real code did.
func oracleC06(c aeCase, resp raft.AppendEntriesResponse, post NodeSt) []string {
	var bad []string
	pre := c.pre
	if post.CI < pre.CI {
		bad = append(bad, fmt.Sprintf("commit index moved backwards %d -> %d", pre.CI, post.CI))
	}
	verified := c.req.PrevLogIndex + uint64(len(c.ents))
	if post.CI > pre.CI && post.CI > verified {
		bad = append(bad, fmt.Sprintf("commit index %d past the verified prefix %d", post.CI, verified))
	}
	if post.CI > pre.CI && post.CI > c.req.LeaderCommit {
		bad = append(bad, fmt.Sprintf("commit index %d past leaderCommit %d", post.CI, c.req.LeaderCommit))
	}
	if post.Term < pre.Term {
		bad = append(bad, "term decreased")
	}
	if !resp.Success {
		if post.Log.String() != pre.Log.String() {
			bad = append(bad, "rejected request changed the log")
		}
		if post.CI != pre.CI {
			bad = append(bad, "rejected request changed the commit index")
		}
		return bad
	}
	// accepted: agrees with the request's entries
	for _, e := range c.ents {
		if e.Index <= post.Log.Base {
			continue
		}
		g := post.Log.Get(e.Index)
		if g == nil || g.Term != e.Term {
			bad = append(bad, fmt.Sprintf("accepted but entry %d.%d not in log", e.Index, e.Term))
		}
	}
	// never removes an entry that does not conflict
	conflict := uint64(0)
	for _, e := range c.ents {
		if g := pre.Log.Get(e.Index); g != nil && g.Term != e.Term {
			conflict = e.Index
			break
		}
	}
	for _, g := range pre.Log.Ents {
		if conflict != 0 && g.Index >= conflict {
			break
		}
		h := post.Log.Get(g.Index)
		if h == nil || h.String() != g.String() {
			bad = append(bad, fmt.Sprintf("non-conflicting entry %s removed or changed (first conflict at %d)", g.String(), conflict))
			break
		}
	}
	if post.Log.Base != pre.Log.Base {
		bad = append(bad, "log base changed")
	}
	return bad
}

// oracleC09: the configuration in force after the handler is the committed one or is carried by an
// entry that is (still) in the log: a change whose entry was truncated away must be rolled back.
func oracleC09(post NodeSt) []string {
	if post.Cfg == nil || post.Com == nil || post.Cfg.String() == post.Com.String() {
		return nil
	}
	e := post.Log.Get(post.Cfg.Index)
	if e == nil || e.Kind != 2 || e.Cfg == nil || e.Cfg.String() != post.Cfg.String() {
		return []string{fmt.Sprintf("the node uses configuration %s, which is neither its committed configuration %s nor carried by an entry of its log (%s): a membership change that exists in no log", post.Cfg.String(), post.Com.String(), post.Log.String())}
	}
	return nil
}

var aeKeys = []string{"role", "term", "vote", "leader", "log", "ci", "la", "si", "st", "cfg", "com", "lc", "pw"}

func TestE3AppendEntries(t *testing.T) {
	rep := NewReport("E3-appendEntries")
	rep.Rule = "seeded draws from the C06 domain (follower/leader logs <=5 entries over 3 terms, shared prefixes, compacted base 0-3, every prev/suffix/leaderCommit/term relation, all roles); non-trivial = request term >= node term (passes the term guard); distinct by canonical input line"
	defer rep.Write()
	drv, err := StartDriver()
	if err != nil {
		t.Fatal(err)
	}
	defer drv.Close()
	n := EnvInt("VERIF_N", 20000)
	rng := NewRng(Seed())
	seqs := allTermSeqs(5, 3)
	root, _ := os.MkdirTemp(ScratchRoot(), "verif-e3ae-")
	defer os.RemoveAll(root)
	logOrderProbe(rep, root)
	synctest.Test(t, func(t *testing.T) {
		time.Sleep(time.Hour) // move away from the epoch so that "stale contact" is representable
		var tn *TNode
		for i := 0; i < n; i++ {
			if i%2000 == 0 {
				dir := fmt.Sprintf("%s/n%d", root, i)
				var err error
				tn, err = NewTNode(NodeOpts{ID: 1, Dir: dir})
				if err != nil {
					t.Fatal(err)
				}
			}
			now := msOf(time.Now())
			c := genAE(rng, seqs, now)
			line := c.line()
			if err := tn.Set(c.pre); err != nil {
				t.Fatal(err)
			}
			var resp raft.AppendEntriesResponse
			herr := tn.R.AppendEntries(&c.req, &resp)
			post := tn.Get()
			eff := tn.Rec.String()
			rep.Case(line, c.req.Term >= c.pre.Term)
			switch {
			case herr != nil:
				rep.Hit("error")
			case !resp.Success && c.req.Term < c.pre.Term:
				rep.Hit("reject-term")
			case !resp.Success:
				rep.Hit("reject-prev")
			case eff != "-" && len(eff) > 3 && eff[:2] == "lt" || containsTok(eff, "lt("):
				rep.Hit("accept-truncate")
			default:
				rep.Hit("accept")
			}
			impl := fmt.Sprintf("%s | %s | eff=%s", aeRespString(resp), post.String(), eff)
			model, err := drv.Ask(line)
			if err != nil {
				t.Fatal(err)
			}
			for _, b := range oracleC06(c, resp, post) {
				rep.Add(Finding{Kind: "oracle", Property: "C06", Oracle: b, Case: line, Impl: impl})
			}
			for _, b := range oracleDurableTV(c.pre, post, eff) {
				rep.Add(Finding{Kind: "oracle", Property: "C08", Oracle: b, Case: line, Impl: impl, Signature: map[string]string{"oracle": "term-vote-durable-before-reply", "handler": "AppendEntries"}})
			}
			for _, b := range oracleC09(post) {
				rep.Add(Finding{Kind: "oracle", Property: "C09", Oracle: b, Case: line, Impl: impl, Signature: map[string]string{"oracle": "configuration-from-log", "handler": "AppendEntries"}})
			}
			if c.pre.Cfg != cfg3 {
				rep.Hit("adopted-uncommitted-configuration")
			}
			compareSections(rep, "C06", line, impl, model, aeKeys, []string{"term", "ok"})
		}
	})
	if rep.NFindings > 0 {
		t.Logf("findings: %d", rep.NFindings)
	}
}

func containsTok(s, tok string) bool {
	for i := 0; i+len(tok) <= len(s); i++ {
		if s[i:i+len(tok)] == tok {
			return true
		}
	}
	return false
}

// compareSections compares "resp | node | eff" lines of implementation and model on
// the given node keys, response keys and the storage-effect projection.
func compareSections(rep *Report, prop, line, impl, model string, nodeKeys, respKeys []string) {
	is := splitSections(impl)
	ms := splitSections(model)
	if len(ms) != 3 {
		rep.Add(Finding{Kind: "mismatch", Property: prop, Case: line, Impl: impl, Model: model, Detail: "model answer malformed"})
		return
	}
	var diff []string
	diff = append(diff, DiffKV(ParseKV(is[0]), ParseKV(ms[0]), respKeys)...)
	diff = append(diff, DiffKV(ParseKV(is[1]), ParseKV(ms[1]), nodeKeys)...)
	ie := FilterEffects(is[2], StorageEffects)
	me := FilterEffects(ms[2], StorageEffects)
	if ie != me {
		diff = append(diff, fmt.Sprintf("effects: impl=%s model=%s", ie, me))
	}
	if len(diff) > 0 {
		rep.Add(Finding{Kind: "mismatch", Property: prop, Case: line, Impl: impl, Model: model, Diff: diff})
	}
}

func splitSections(s string) []string {
	var out []string
	start := 0
	for i := 0; i+2 < len(s); i++ {
		if s[i] == ' ' && s[i+1] == '|' && s[i+2] == ' ' {
			out = append(out, s[start:i])
			start = i + 3
		}
	}
	return append(out, s[start:])
}

// oracleDurableTV: C08 — when a handler returns, the term and vote it leaves in memory are the
// ones on storage: if either changed, the last SetState of the call wrote exactly that pair
// (a crash right after the reply must not bring back an older term or lose the vote).
func oracleDurableTV(pre, post NodeSt, eff string) []string {
	if pre.Term == post.Term && pre.Vote == post.Vote {
		return nil
	}
	last := ""
	for _, tok := range splitTop(strings.TrimPrefix(eff, "eff=")) {
		if strings.HasPrefix(tok, "ss(") {
			last = tok
		}
	}
	want := fmt.Sprintf("ss(%d,%d)", post.Term, post.Vote)
	if last != want {
		return []string{fmt.Sprintf("the handler returned with term %d and vote %d in memory (before: %d, %d) but the last write to the term/vote storage in this call was %q: after a crash the node would come back with an older term or without its vote", post.Term, post.Vote, pre.Term, pre.Vote, last)}
	}
	return nil
}

// logOrderProbe: two AppendEntries requests reach a follower while the disk is slow. The first (term 3,
// entries 1-2) has its log append held back; the second (term 4, a different entry 1) is issued meanwhile;
// then the append is let go. Run one after the other in either order the two requests leave the same state
// (term 4, the log of the term-4 leader: A then B truncates A's entries, B then A rejects A), so whatever the
// node does about locking that is the only correct end state (C06: a log only moves toward its sender's).
func logOrderProbe(rep *Report, root string) {
	tn, err := NewTNode(NodeOpts{ID: 1, Dir: root + "/order"})
	if err != nil {
		rep.Notes = append(rep.Notes, "log-order probe skipped: "+err.Error())
		return
	}
	pre := NodeSt{ID: 1, Role: "F", Term: 3, Log: mkLog([]uint64{}, 0, 1), Cfg: cfg3, Com: cfg3, SV: true, ET: 300, LD: 100}
	if err := tn.Set(pre); err != nil {
		rep.Notes = append(rep.Notes, "log-order probe skipped: "+err.Error())
		return
	}
	line := "LOG-ORDER | AppendEntries of term 3 from node 2 (entries 1-2) with its log append held back, then AppendEntries of term 4 from node 3 (another entry 1), then the append is let go"
	entered, release := make(chan struct{}, 1), make(chan struct{})
	var first atomic.Bool
	first.Store(true)
	tn.Lg.Gate = func() {
		if first.CompareAndSwap(true, false) {
			entered <- struct{}{}
			<-release
		}
	}
	doneA, doneB := make(chan struct{}), make(chan struct{})
	go func() {
		var r raft.AppendEntriesResponse
		tn.R.AppendEntries(&raft.AppendEntriesRequest{LeaderID: ID(2), Term: 3, Entries: EntsToRaft([]Ent{{Index: 1, Term: 3, Kind: 1, Data: 131}, {Index: 2, Term: 3, Kind: 1, Data: 231}})}, &r)
		close(doneA)
	}()
	held := false
	select {
	case <-entered:
		held = true
	case <-time.After(2 * time.Second):
	}
	go func() {
		var r raft.AppendEntriesResponse
		tn.R.AppendEntries(&raft.AppendEntriesRequest{LeaderID: ID(3), Term: 4, Entries: EntsToRaft([]Ent{{Index: 1, Term: 4, Kind: 1, Data: 141}})}, &r)
		close(doneB)
	}()
	overlapped := false
	select {
	case <-doneB:
		overlapped = true
	case <-time.After(150 * time.Millisecond):
	}
	close(release)
	<-doneA
	<-doneB
	tn.Lg.Gate = nil
	post := tn.Get()
	rep.Case(line, held)
	rep.Hit(map[bool]string{true: "log-order:second-ran-during-append", false: "log-order:second-waited"}[overlapped])
	want := "L0.0:1.4.1.141"
	if post.Term != 4 || post.Log.String() != want {
		rep.Add(Finding{Kind: "oracle", Property: "C06", Oracle: "two overlapping AppendEntries requests leave a log that neither order of the two requests produces (the follower's log must be the term-4 sender's)", Case: line,
			Impl:      fmt.Sprintf("term=%d log=%s; the second request returned while the first append was held back: %v", post.Term, post.Log.String(), overlapped),
			Detail:    "want term=4 log=" + want,
			Signature: map[string]string{"oracle": "handlers-serializable-log"}})
	}
}
