package harness

import (
	"bytes"
	"fmt"
	"os"
	"strings"
	"testing"
	"testing/synctest"
	"time"

	"github.com/jmsadair/raft"
)

// E3-install: sequences of InstallSnapshot requests over the C11 domain (two snapshots,
// 1-3 chunks each, any order / duplication / offset, term lower/equal/higher, follower
// log shorter / longer / conflicting / matching at the boundary) against the real handler,
// compared step by step with the three-phase model; each sequence is followed by
// AppendEntries and RequestVote probes at and around the boundary against both.

type snapDesc struct {
	index, term uint64
	content     []byte
	chunks      [][2]int // [from, to)
}

func chunkings(n int) [][][2]int {
	return [][][2]int{{{0, n}}, {{0, n / 2}, {n / 2, n}}, {{0, n / 3}, {n / 3, 2 * n / 3}, {2 * n / 3, n}}, {{0, n}, {n, n}}}
}

func isReqStr(q *raft.InstallSnapshotRequest, cfg *Cfg) string {
	return fmt.Sprintf("leader=%d term=%d li=%d lt=%d cfg=%s off=%d data=%s done=%s", IDNum(q.LeaderID), q.Term, q.LastIncludedIndex, q.LastIncludedTerm,
		cfg.String(), q.Offset, hx(q.Bytes), b01(q.Done))
}

func readNewestSnapshot(dir string) (found bool, idx, term uint64, data []byte) {
	// read the directory directly: the constructor would delete a live node's file in progress
	ents, err := os.ReadDir(dir + "/snapshots")
	if err != nil {
		return
	}
	newest := ""
	for _, e := range ents {
		if e.IsDir() && strings.HasPrefix(e.Name(), "snapshot-") && e.Name() > newest {
			newest = e.Name()
		}
	}
	if newest == "" {
		return
	}
	mb, err1 := os.ReadFile(dir + "/snapshots/" + newest + "/metadata.json")
	data, err2 := os.ReadFile(dir + "/snapshots/" + newest + "/snapshot.bin")
	if err1 != nil || err2 != nil {
		return
	}
	md, err := raft.VerifDecodeMetadata(mb)
	if err != nil {
		return
	}
	return true, md.LastIncludedIndex, md.LastIncludedTerm, data
}

var isKeys = []string{"role", "term", "vote", "leader", "log", "ci", "la", "si", "st", "cfg", "com", "lc"}

func TestE3InstallSnapshot(t *testing.T) {
	rep := NewReport("E3-installSnapshot")
	rep.Rule = "seeded sequences of 1-6 InstallSnapshot requests from the C11 domain (two snapshots with distinct labels, chunked 1-3 ways plus a trailing empty chunk, any order, duplicates, wrong offsets, request term lower/equal/higher than the node's) against follower logs shorter / longer / conflicting / matching at the boundary with applied index below or above the labels; real handler vs the three-phase model after every request (reply, term, role, boundary, commit and applied index, log, storage effects), the newest visible snapshot vs the model's, then AppendEntries and RequestVote probes at and around the boundary on both; the C11 statements evaluated directly on the real code; non-trivial = a request passed the nothing-new guard"
	defer rep.Write()
	drv, err := StartDriver()
	if err != nil {
		t.Fatal(err)
	}
	defer drv.Close()
	rng := NewRng(Seed() + 7)
	n := EnvInt("VERIF_N", 400)
	root, _ := os.MkdirTemp(ScratchRoot(), "verif-e3is-")
	defer os.RemoveAll(root)
	cfg := &Cfg{Index: 1, Members: [][2]uint64{{1, 1}, {2, 1}, {3, 1}}}
	cfgBytes, _ := codec.EncodeConfiguration(cfg.ToRaft())
	synctest.Test(t, func(t *testing.T) {
		time.Sleep(time.Hour)
		for k := 0; k < n; k++ {
			s, node, err := secNode(root, k)
			if err != nil {
				t.Fatal(err)
			}
			now := msOf(time.Now())
			// follower state
			terms := [][]uint64{{1}, {1, 1, 2}, {1, 1, 2, 2, 2}, {1, 1, 1, 1, 1, 1}, {1, 2, 2, 3, 3, 3, 3}}[rng.Intn(5)]
			lg := mkLog(terms, 0, 1)
			lg.Ents[0] = Ent{Index: 1, Term: terms[0], Kind: 2, Cfg: cfg}
			ci := uint64(rng.Intn(len(terms) + 1))
			la := uint64(rng.Intn(int(ci) + 1))
			pre := NodeSt{ID: 1, Role: []string{"F", "F", "C", "P", "L"}[rng.Intn(5)], Term: 3, Vote: 0, Log: lg, Cfg: cfg, Com: cfg, SV: true,
				ET: 300, LD: 100, LC: now - 1000, LE: now - 1, CI: ci, LA: la}
			for _, m := range cfg.Members {
				pre.Fol = append(pre.Fol, Fol{ID: m[0], Next: 1})
			}
			if err := installState(node, pre); err != nil {
				t.Fatal(err)
			}
			// two snapshots
			mkSnap := func(idx, term uint64, size int) snapDesc {
				c := make([]byte, size)
				for i := range c {
					c[i] = byte(idx*16 + uint64(i)%16)
				}
				ch := chunkings(size)
				return snapDesc{idx, term, c, ch[rng.Intn(len(ch))]}
			}
			i1 := uint64(1 + rng.Intn(5))
			i2 := i1 + uint64(1+rng.Intn(3))
			t1 := uint64(1 + rng.Intn(3))
			if int(i1) <= len(terms) && rng.Chance(60) {
				t1 = terms[i1-1]
			}
			t2 := t1 + uint64(rng.Intn(2))
			if int(i2) <= len(terms) && rng.Chance(60) {
				t2 = terms[i2-1]
			}
			snaps := []snapDesc{mkSnap(i1, t1, 6+rng.Intn(6)), mkSnap(i2, t2, 6+rng.Intn(6))}
			// request pool
			type reqT struct {
				q    raft.InstallSnapshotRequest
				from int
			}
			var pool []reqT
			for si, sd := range snaps {
				for ci, ch := range sd.chunks {
					q := raft.InstallSnapshotRequest{LeaderID: "2", Term: 3, LastIncludedIndex: sd.index, LastIncludedTerm: sd.term,
						Configuration: cfgBytes, Offset: int64(ch[0]), Bytes: append([]byte{}, sd.content[ch[0]:ch[1]]...), Done: ci == len(sd.chunks)-1}
					pool = append(pool, reqT{q, si})
				}
			}
			seqLen := 1 + rng.Intn(6)
			mnode := ""
			honest := map[int][]byte{} // what each snapshot's accepted chunks would assemble to
			_ = honest
			for step := 0; step < seqLen; step++ {
				var q raft.InstallSnapshotRequest
				if rng.Chance(70) && step < len(pool) {
					q = pool[step].q // mostly in order
				} else {
					q = pool[rng.Intn(len(pool))].q
				}
				switch rng.Intn(12) {
				case 0:
					q.Term = 2
				case 1:
					q.Term = 4
				case 2:
					q.Offset += int64(rng.Intn(3)) - 1
					if q.Offset < 0 {
						q.Offset = 0
					}
				}
				time.Sleep(time.Millisecond) // distinct snapshot directory names need distinct creation times
				now = msOf(time.Now())
				before := observeState(node, 300, 100)
				if mnode == "" {
					mnode = before.String()
				}
				line := fmt.Sprintf("ISA | %d | %s | %s", now, mnode, isReqStr(&q, cfg))
				var resp raft.InstallSnapshotResponse
				done := make(chan error, 1)
				go func() {
					qq := q
					done <- node.R.InstallSnapshot(&qq, &resp)
				}()
				synctest.Wait()
				ans, _ := drv.Ask(line)
				as := splitSections(ans)
				if len(as) != 4 {
					rep.Add(Finding{Kind: "mismatch", Property: "C11", Case: line, Model: ans, Detail: "model answer malformed"})
					break
				}
				next := strings.TrimPrefix(as[3], "next=")
				modelNode := as[1]
				modelEff := FilterEffects(as[2], StorageEffects)
				blocked := false
				select {
				case <-done:
				default:
					blocked = true
				}
				if blocked != (next == "wait") {
					rep.Add(Finding{Kind: "mismatch", Property: "C11", Case: line, Impl: fmt.Sprintf("handler blocked=%v", blocked), Model: ans,
						Diff: []string{"the handler waits for the apply loop in a different case than the model"}})
				}
				if blocked {
					// play the apply loop: the applied index reaches the label, then the handler compacts
					vs := node.R.VerifGetState()
					vs.LastApplied = q.LastIncludedIndex
					if vs.CommitIndex < vs.LastApplied {
						vs.CommitIndex = vs.LastApplied
					}
					vs.Followers = nil
					node.R.VerifSetState(vs)
					node.R.VerifSignal("apply")
					synctest.Wait()
					<-done
					// the same in the model
					mk := ParseKV(modelNode)
					la2 := fmt.Sprint(q.LastIncludedIndex)
					ci2 := mk["ci"]
					if IDNum(ci2) < q.LastIncludedIndex {
						ci2 = la2
					}
					modelNode = replaceKV(replaceKV(modelNode, "la", la2), "ci", ci2)
					ansB, _ := drv.Ask(fmt.Sprintf("ISB | %s | %s", modelNode, isReqStr(&q, cfg)))
					bs := splitSections(ansB)
					modelNode = bs[0]
					modelEff = joinEff(modelEff, FilterEffects(bs[1], StorageEffects))
					rep.Hit("boundary-matches-compact")
				} else if strings.HasPrefix(next, "restore") {
					ansC, _ := drv.Ask(fmt.Sprintf("ISC | %d | %s | %s", now, modelNode, isReqStr(&q, cfg)))
					cs := splitSections(ansC)
					modelNode = cs[0]
					modelEff = joinEff(modelEff, FilterEffects(cs[1], StorageEffects))
					rep.Hit("restore-discard")
				} else {
					rep.Hit("reply-only")
				}
				post := observeState(node, 300, 100)
				eff := node.Rec.String()
				nontrivial := !(before.SI >= q.LastIncludedIndex || before.LA >= q.LastIncludedIndex) && q.Term >= before.Term
				rep.Case(line, nontrivial)
				// --- correspondence
				implResp := fmt.Sprintf("term=%d bw=%d", resp.Term, resp.BytesWritten)
				var diff []string
				diff = append(diff, DiffKV(ParseKV(implResp), ParseKV(as[0]), []string{"term", "bw"})...)
				diff = append(diff, DiffKV(ParseKV(post.String()), ParseKV(modelNode), isKeys)...)
				if ie := FilterEffects("eff="+eff, StorageEffects); ie != modelEff {
					diff = append(diff, fmt.Sprintf("effects: impl=%s model=%s", ie, modelEff))
				}
				// newest visible snapshot
				found, fi, ft, fdata := readNewestSnapshot(node.Dir)
				msn := ParseKV(modelNode)["snaps"]
				implSnap := "-"
				if found {
					implSnap = fmt.Sprintf("%d.%d.%s", fi, ft, hx(fdata))
				}
				modelSnap := "-"
				if msn != "-" && msn != "" {
					parts := strings.Split(msn, ";")
					modelSnap = parts[len(parts)-1]
				}
				if implSnap != modelSnap {
					diff = append(diff, fmt.Sprintf("newest snapshot: impl=%s model=%s", implSnap, modelSnap))
				}
				if len(diff) > 0 {
					rep.Add(Finding{Kind: "mismatch", Property: "C11", Case: line, Impl: implResp + " | " + post.String() + " | eff=" + eff, Model: ans, Diff: diff})
				}
				// --- the statements of C11 on the real code
				// A snapshot whose label conflicts with an entry at or below the follower's commit index cannot be
				// sent by any leader (committed entries agree, C01/C06); such inconsistent pairs are outside the statement.
				inconsistent := false
				if e := before.Log.Get(q.LastIncludedIndex); q.LastIncludedIndex <= before.CI && (e == nil || e.Term != q.LastIncludedTerm) {
					inconsistent = true
				}
				if (post.CI < before.CI || post.LA < before.LA) && !inconsistent {
					rep.Add(Finding{Kind: "oracle", Property: "C11", Oracle: fmt.Sprintf("installing a snapshot moved the commit or applied index backwards: commit %d->%d applied %d->%d", before.CI, post.CI, before.LA, post.LA),
						Case: line, Impl: post.String(), Signature: map[string]string{"oracle": "commit-applied-monotone"}})
				}
				if (before.LA >= q.LastIncludedIndex || before.SI >= q.LastIncludedIndex) && (post.SI != before.SI || post.Log.String() != before.Log.String() || post.LA != before.LA) {
					rep.Add(Finding{Kind: "oracle", Property: "C11", Oracle: "a snapshot not newer than what the node has applied changed its boundary, log or applied index", Case: line, Impl: post.String(),
						Signature: map[string]string{"oracle": "never-older-than-applied"}})
				}
				if found && post.SI == fi {
					// a snapshot was installed: its bytes must be a snapshot some sender had under that label
					okc := false
					for _, sd := range snaps {
						if sd.index == fi && sd.term == ft && bytes.Equal(sd.content, fdata) {
							okc = true
						}
					}
					if !okc && post.SI > before.SI {
						rep.Add(Finding{Kind: "oracle", Property: "C11", Oracle: "the installed snapshot's bytes are not a snapshot any sender had under that label",
							Case: line, Impl: implSnap, Signature: map[string]string{"oracle": "chunks-exact", "pattern": "chunk-of-other-snapshot-accepted"}})
					}
				} else if found && post.SI > before.SI && post.SI != fi {
					rep.Add(Finding{Kind: "oracle", Property: "C11", Oracle: fmt.Sprintf("the node adopted boundary %d but the newest visible snapshot is labelled %d", post.SI, fi),
						Case: line, Impl: implSnap, Signature: map[string]string{"oracle": "chunks-exact", "pattern": "chunk-of-other-snapshot-accepted"}})
				}
				mnode = carry(modelNode, post)
			}
			// --- probes at and around the boundary: the compacted node must answer like the model
			post := observeState(node, 300, 100)
			for _, prev := range []uint64{post.SI - min(post.SI, 1), post.SI, post.SI + 1} {
				now = msOf(time.Now())
				pt := post.ST
				if e := post.Log.Get(prev); e != nil {
					pt = e.Term
				}
				aq := raft.AppendEntriesRequest{LeaderID: "2", Term: post.Term, PrevLogIndex: prev, PrevLogTerm: pt, LeaderCommit: post.CI}
				pline := fmt.Sprintf("AE | %d | %s | leader=2 term=%d lc=%d pi=%d pt=%d ents=-", now, mnode, aq.Term, aq.LeaderCommit, prev, pt)
				var ar raft.AppendEntriesResponse
				node.R.AppendEntries(&aq, &ar)
				ans, _ := drv.Ask(pline)
				after := observeState(node, 300, 100)
				node.Rec.Take()
				rep.Case(pline, true)
				rep.Hit("probe-append")
				as := splitSections(ans)
				if len(as) == 3 {
					if d := DiffKV(ParseKV(aeRespString(ar)), ParseKV(as[0]), []string{"term", "ok", "idx"}); len(d) > 0 {
						rep.Add(Finding{Kind: "mismatch", Property: "C11", Case: pline, Impl: aeRespString(ar), Model: as[0], Diff: d})
					}
					mnode = carry(as[1], after)
				}
			}
			now = msOf(time.Now())
			vq := raft.RequestVoteRequest{CandidateID: "3", Term: post.Term + 1, LastLogIndex: post.Log.LastIndex(), LastLogTerm: post.Log.LastTerm(), Prevote: true}
			var vr raft.RequestVoteResponse
			node.R.RequestVote(&vq, &vr)
			vline := fmt.Sprintf("RV | %d | %s | %s", now, mnode, rvReqStr(&vq))
			ans, _ := drv.Ask(vline)
			rep.Case(vline, true)
			rep.Hit("probe-vote")
			if as := splitSections(ans); len(as) == 3 {
				if d := DiffKV(ParseKV(rvRespString(vr)), ParseKV(as[0]), []string{"term", "ok"}); len(d) > 0 {
					rep.Add(Finding{Kind: "mismatch", Property: "C11", Case: vline, Impl: rvRespString(vr), Model: as[0], Diff: d})
				}
			}
			for _, x := range s.Take(func(*Call) bool { return true }) {
				s.Fail(x)
			}
			if l := node.R.VerifLog(); l != nil {
				l.Close()
			}
		}
	})
}

// carry keeps the model's hidden fields (open file, snapshots, rounds) and takes the observable ones from the real node.
func carry(modelNode string, impl NodeSt) string { return modelNode }

func replaceKV(s, key, val string) string {
	toks := strings.Fields(s)
	for i, t := range toks {
		if strings.HasPrefix(t, key+"=") {
			toks[i] = key + "=" + val
		}
	}
	return strings.Join(toks, " ")
}

func joinEff(a, b string) string {
	switch {
	case a == "-":
		return b
	case b == "-":
		return a
	}
	return a + "," + b
}
