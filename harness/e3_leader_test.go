package harness

import (
	"fmt"
	"os"
	"sort"
	"strconv"
	"strings"
	"sync"
	"testing"
	"testing/synctest"
	"time"

	"github.com/jmsadair/raft"
)

// E3-leader: the leader-side critical sections of a *started* real node (client submissions of
// all three operation types, membership requests, heartbeat rounds, replication replies in any
// order with any content, and the commit / apply / read-only loops they wake) against the model
// functions submitReplicated, submitReadOnly, addServer, removeServer, heartbeat, prepareAE,
// onAEReply, commitStep, applyStep, readOnlyStep. After every action the node runs to quiescence
// (virtual time frozen) and is compared with the model after the same section followed by the
// loop wake-ups its signal effects ask for; every request the node sends is compared with what
// prepareAE builds; every future is compared with what the model says the client is told.

type lfut struct {
	kind string // rep lin lease cfg
	key  uint64 // rep: index (0 until known), reads: tag, cfg: index
	mu   sync.Mutex
	done bool
	err  string
	idx  uint64
	cfg  *raft.Configuration // cfg: what a successful membership future handed to the caller
	scribbled bool
}

func (f *lfut) snapshot() (bool, string, uint64) {
	f.mu.Lock()
	defer f.mu.Unlock()
	return f.done, f.err, f.idx
}

func observeLeader(n *SimNode) NodeSt {
	st := observeState(n, 300, 100)
	vs := n.R.VerifGetState()
	rd := append([]raft.VerifPendingRead{}, vs.PendingReadOnly...)
	sort.Slice(rd, func(i, j int) bool { return rd[i].Sequence < rd[j].Sequence })
	for _, p := range rd {
		tag, _ := strconv.ParseUint(string(p.Bytes), 10, 64)
		st.Reads = append(st.Reads, fmt.Sprintf("%d.%s.%d.%s.%d", tag, b01(p.OperationType == raft.LeaseBasedReadOnly), p.ReadIndex, b01(p.QuorumVerified), p.Sequence))
	}
	if vs.ConfigurationPending {
		st.CfgF = strconv.FormatUint(vs.ConfigurationWaitIndex, 10)
	}
	return st
}

var leaderKeys = []string{"role", "term", "vote", "log", "ci", "la", "cfg", "com", "le", "sv", "fol", "prep", "reads", "cfgf", "rs"}

func hasEff(eff, name string) bool {
	for _, tok := range splitTop(strings.TrimPrefix(eff, "eff=")) {
		if tok == name || strings.HasPrefix(tok, name+"(") {
			return true
		}
	}
	return false
}

func multiset(eff string) string {
	eff = strings.TrimPrefix(eff, "eff=")
	if eff == "-" || eff == "" {
		return "-"
	}
	t := splitTop(eff)
	sort.Strings(t)
	return strings.Join(t, ",")
}

func TestE3Leader(t *testing.T) {
	rep := NewReport("E3-leader")
	rep.Rule = "seeded leader states (and a few non-leader ones) of a started real node: 2-5 members with non-voters, several logs with and without an entry of the current term, commit index anywhere, follower next/match indices anywhere, lease valid/expired, verification flag on/off; 3-9 actions each from {submit replicated, linearizable read, lease read, heartbeat, AddServer, RemoveServer, answer one outstanding replication call with success / failure and hint / equal, higher or lower term, fail one call}; after every action the node runs to quiescence and is compared with the model section plus the loop wake-ups its signals ask for (role, term, vote, log, commit and applied index, both configurations, lease, verification flag, follower indices, pending operations and reads, membership future, read sequence, storage effects), every request sent with prepareAE, every client answer with the model's; non-trivial = the action changed the node or sent a request"
	defer rep.Write()
	drv, err := StartDriver()
	if err != nil {
		t.Fatal(err)
	}
	defer drv.Close()
	rng := NewRng(Seed() + 4242)
	n := EnvInt("VERIF_N", 300)
	root, _ := os.MkdirTemp(ScratchRoot(), "verif-e3ld-")
	defer os.RemoveAll(root)
	synctest.Test(t, func(t *testing.T) {
		time.Sleep(time.Hour)
		s, node, err := secNode(root, 0)
		if err != nil {
			t.Fatal(err)
		}
		if err := s.Start(1); err != nil {
			t.Fatal(err)
		}
		ask := func(line string) []string {
			ans, err := drv.Ask(line)
			if err != nil {
				t.Fatal(err)
			}
			return splitSections(ans)
		}
		for k := 0; k < n; k++ {
			now := msOf(time.Now())
			// ---- reset: a request of a higher term makes the node a follower and drops every pending operation
			node.R.VerifSetState(raft.VerifState{State: raft.Follower, CurrentTerm: 1, Configuration: (&Cfg{Index: 1, Members: [][2]uint64{{1, 1}, {2, 1}}}).ToRaft(),
				CommittedConfiguration: (&Cfg{Index: 1, Members: [][2]uint64{{1, 1}, {2, 1}}}).ToRaft(), Followers: map[string]raft.VerifFollower{}})
			var rr raft.AppendEntriesResponse
			node.R.AppendEntries(&raft.AppendEntriesRequest{LeaderID: ID(2), Term: 2}, &rr)
			synctest.Wait()
			for _, c := range s.Take(func(*Call) bool { return true }) {
				s.Fail(c)
			}
			synctest.Wait()
			// ---- state
			cfg := genCfg(rng, 1)
			terms := [][]uint64{{1}, {1, 2}, {1, 3}, {2, 3, 3}, {1, 1, 2, 3, 3}, {1, 2, 2, 2}}[rng.Intn(6)]
			lg := mkLog(terms, 0, 1)
			last := lg.LastIndex()
			ci := uint64(rng.Intn(int(last) + 1))
			role := "L"
			if rng.Chance(8) {
				role = []string{"F", "C", "P"}[rng.Intn(3)]
			}
			// the apply loop may lag behind the commit index (a restarted node, a slow state machine): in a quarter
			// of the states the applied index is anywhere below it and the loop sleeps until the next signal
			la := ci
			if rng.Chance(25) {
				la = uint64(rng.Intn(int(ci) + 1))
			}
			pre := NodeSt{ID: 1, Role: role, Term: 3, Vote: 1, Leader: 1, Log: lg, Cfg: cfg, Com: cfg, SV: rng.Bool(), ET: 300, LD: 100,
				LC: now, LE: now + []int64{-1, 0, 1, 60}[rng.Intn(4)], CI: ci, LA: la, RS: uint64(rng.Intn(3))}
			if la < ci {
				rep.Hit("state:applied<commit")
			}
			for _, m := range cfg.Members {
				if m[0] == 1 {
					continue
				}
				nx := 1 + uint64(rng.Intn(int(last)+1))
				pre.Fol = append(pre.Fol, Fol{ID: m[0], Next: nx, Match: uint64(rng.Intn(int(nx)))})
			}
			if err := installState(node, pre); err != nil {
				t.Fatal(err)
			}
			mnode := pre.String()
			var futs []*lfut
			outstanding := map[*Call]string{} // call -> model round id
			nextTag := uint64(1000 * (k + 1))
			steps := 3 + rng.Intn(7)
			for st := 0; st < steps; st++ {
				now = msOf(time.Now())
				before := observeLeader(node).String()
								var line, what string
				var newFut *lfut
				act := rng.Intn(100)
				var calls []*Call
				for c := range outstanding {
					calls = append(calls, c)
				}
				sort.Slice(calls, func(i, j int) bool { return calls[i].ID < calls[j].ID })
				switch {
				case act < 20:
					nextTag++
					what = "submit"
					line = fmt.Sprintf("SUBMIT | %d | %s | data=%d", now, mnode, nextTag)
					newFut = &lfut{kind: "rep"}
					buf := []byte(strconv.FormatUint(nextTag, 10))
					fut := node.R.SubmitOperation(buf, raft.Replicated, time.Hour)
					// the caller's buffer is the caller's again once the call has returned (a re-used encoding
					// buffer): overwriting it must not change the operation that was submitted
					for i := range buf {
						buf[i] = '7'
					}
					rep.Hit("submitted-buffer-overwritten")
					go func(f *lfut) {
						res := fut.Await()
						f.mu.Lock()
						f.done = true
						if res.Error() != nil {
							f.err = res.Error().Error()
						} else {
							f.idx = res.Success().Operation.LogIndex
						}
						f.mu.Unlock()
					}(newFut)
				case act < 40:
					nextTag++
					lease := rng.Chance(45)
					what = map[bool]string{true: "lease-read", false: "lin-read"}[lease]
					line = fmt.Sprintf("SUBMITRO | %d | %s | tag=%d lease=%s", now, mnode, nextTag, b01(lease))
					newFut = &lfut{kind: map[bool]string{true: "lease", false: "lin"}[lease], key: nextTag}
					typ := raft.LinearizableReadOnly
					if lease {
						typ = raft.LeaseBasedReadOnly
					}
					fut := node.R.SubmitOperation([]byte(strconv.FormatUint(nextTag, 10)), typ, time.Hour)
					go func(f *lfut) {
						res := fut.Await()
						f.mu.Lock()
						f.done = true
						if res.Error() != nil {
							f.err = res.Error().Error()
						}
						f.mu.Unlock()
					}(newFut)
				case act < 45:
					what = "heartbeat"
					line = fmt.Sprintf("HEARTBEAT | %d | %s", now, mnode)
					node.R.VerifHeartbeat()
				case act < 48:
					// a second leadership of the same node (next term) while requests of the first are still in
					// flight: their replies must count for nothing (new operation table, read sequence restarts)
					what = "lead-again"
					line = fmt.Sprintf("LEADAGAIN | %d | %s", now, mnode)
					node.R.VerifLeadAgain()
				case act < 54:
					id := uint64(2 + rng.Intn(5))
					voter := rng.Bool()
					what = "add"
					// AddServer replaces the follower record of an existing member; a reply to a request sent
					// before that updates the orphaned record. The model has no record identity: such
					// calls are failed first (documented domain restriction).
					for _, c := range calls {
						if c.To == id {
							s.Fail(c)
							delete(outstanding, c)
						}
					}
					synctest.Wait()
					line = fmt.Sprintf("ADD | %d | %s | id=%d voter=%s", now, mnode, id, b01(voter))
					newFut = &lfut{kind: "cfg"}
					fut := node.R.AddServer(ID(id), Addr(id), voter, time.Hour)
					go func(f *lfut) {
						res := fut.Await()
						f.mu.Lock()
						f.done = true
						if res.Error() != nil {
							f.err = res.Error().Error()
						} else {
							c := res.Success()
							f.idx, f.cfg = c.Index, &c
						}
						f.mu.Unlock()
					}(newFut)
				case act < 60:
					id := uint64(1 + rng.Intn(6))
					what = "remove"
					line = fmt.Sprintf("REMOVE | %d | %s | id=%d", now, mnode, id)
					newFut = &lfut{kind: "cfg"}
					fut := node.R.RemoveServer(ID(id), time.Hour)
					go func(f *lfut) {
						res := fut.Await()
						f.mu.Lock()
						f.done = true
						if res.Error() != nil {
							f.err = res.Error().Error()
						} else {
							c := res.Success()
							f.idx, f.cfg = c.Index, &c
						}
						f.mu.Unlock()
					}(newFut)
				default:
					if len(calls) == 0 {
						what = "heartbeat"
						line = fmt.Sprintf("HEARTBEAT | %d | %s", now, mnode)
						node.R.VerifHeartbeat()
						break
					}
					c := calls[rng.Intn(len(calls))]
					round := outstanding[c]
					delete(outstanding, c)
					what = "reply"
					respS := "err"
					if c.Kind != "AE" || rng.Chance(10) {
						s.Fail(c)
						if c.Kind != "AE" {
							// InstallSnapshot goroutines are C11's; nothing to compare here
							synctest.Wait()
							continue
						}
					} else {
						r := raft.AppendEntriesResponse{Term: c.AE.Term, Success: rng.Chance(60)}
						switch rng.Intn(12) {
						case 0:
							r.Term = c.AE.Term + 1 + uint64(rng.Intn(2))
						case 1:
							r.Term = c.AE.Term - 1
						}
						if !r.Success {
							r.Index = 1 + uint64(rng.Intn(int(c.AE.PrevLogIndex)+1))
						}
						c.AER = r
						c.Delivered = true
						respS = fmt.Sprintf("term=%d ok=%s idx=%d", r.Term, b01(r.Success), r.Index)
						s.Reply(c)
					}
					line = fmt.Sprintf("AEREPLY | %d | %s | peer=%d round=%s | %s | %s", now, mnode, c.To, round, aeReqStr(c.AE), respS)
				}
				synctest.Wait()
				// a caller owns what the API hands it: scribbling over a returned configuration (here: emptied, voter
				// bits flipped, a stranger added) must not reach the node — the comparison below would show it
				if c := node.R.Configuration(); c.Members != nil {
					for id := range c.Members {
						delete(c.Members, id)
					}
					for id := range c.IsVoter {
						c.IsVoter[id] = !c.IsVoter[id]
					}
					c.Members["99"], c.IsVoter["99"] = "scribble", true
					rep.Hit("returned-configuration-scribbled")
				}
				// ---- model: the section, then the loops its signals wake, in every order the scheduler may pick
				sec := ask(line)
				submitOut := ""
				if len(sec) > 2 && strings.HasPrefix(sec[2], "out=") {
					submitOut = sec[2]
				}
				outs := exploreCascade(ask, now, sec)
				post := observeLeader(node)
				eff := node.Rec.String()
				changed := post.String() != before
				newCalls := s.Take(func(*Call) bool { return true })
				sort.Slice(newCalls, func(i, j int) bool { return newCalls[i].ID < newCalls[j].ID })
				rep.Case(line, changed || len(newCalls) > 0)
				rep.Hit("action:" + what)
				if len(outs) > 1 {
					rep.Hit("cascade-orders>1")
				}
				if newFut != nil {
					futs = append(futs, newFut)
					if strings.Contains(submitOut, "accepted") {
						var idx uint64
						fmt.Sscanf(submitOut[strings.Index(submitOut, "accepted")+len("accepted"):], " %d", &idx)
						newFut.key = idx
					}
				}
				var firstDiff *Finding
				var chosen *cascadeOutcome
				var chosenRounds map[*Call]string
				for oi := range outs {
					o := &outs[oi]
					f, rounds := compareOutcome(drv, o, post, eff, newCalls, futs, newFut, submitOut, line, what)
					if f == nil {
						chosen, chosenRounds = o, rounds
						break
					}
					if firstDiff == nil {
						firstDiff = f
					}
				}
				if chosen == nil {
					firstDiff.Diff = append(firstDiff.Diff, fmt.Sprintf("(none of the %d loop orders of the model matches; shown: commit, apply, read-only order)", len(outs)))
					rep.Add(*firstDiff)
					for _, c := range newCalls {
						s.Fail(c)
					}
					break
				}
				// a member that left the follower table and is in it again has a NEW record: requests in
				// flight to it belong to the orphaned one (the model has no record identity): fail them
				recreated := map[string][]int{}
				{
					was := map[string]bool{}
					for _, f := range strings.Split(ParseKV(mnode)["fol"], ";") {
						was[strings.Split(f, ".")[0]] = true
					}
					for si, st := range chosen.states {
						now := map[string]bool{}
						for _, f := range strings.Split(ParseKV(st)["fol"], ";") {
							id := strings.Split(f, ".")[0]
							now[id] = true
							if !was[id] {
								recreated[id] = append(recreated[id], si)
								for c := range outstanding {
									if fmt.Sprint(c.To) == id {
										s.Fail(c)
										delete(outstanding, c)
									}
								}
							}
						}
						was = now
					}
					synctest.Wait()
				}
				mnode = chosen.final
				// reads a pass took and never answered (it lost leadership in between) stay unresolved for good
				{
					held := map[string]bool{}
					for _, ev := range chosen.events {
						if strings.HasPrefix(ev, "take:") {
							held[strings.TrimPrefix(ev, "take:")] = true
						} else if strings.HasPrefix(ev, "ok:read:") || strings.HasPrefix(ev, "err:read:") {
							delete(held, ev[strings.Index(ev, ":")+1:])
						}
					}
					for _, f := range futs {
						if (f.kind == "lin" || f.kind == "lease") && held["read:"+strconv.FormatUint(f.key, 10)] && !f.resolvedSeen() {
							f.markSeen()
							rep.Hit("read-orphaned-by-interrupted-pass")
						}
					}
				}
				for c, r := range chosenRounds {
					var round, at int
					fmt.Sscanf(r, "%d@%d", &round, &at)
					// a request spawned before its peer's record was re-created in this same cascade
					// also belongs to the orphaned record
					orphan := false
					for _, ri := range recreated[fmt.Sprint(c.To)] {
						if ri > at {
							orphan = true
						}
					}
					if orphan {
						s.Fail(c)
						continue
					}
					outstanding[c] = strconv.Itoa(round)
					rep.Hit("request:" + c.Kind)
				}
				for _, c := range newCalls {
					if _, ok := chosenRounds[c]; !ok {
						s.Fail(c)
					}
				}
				for _, f := range futs {
					if done, ferr, _ := f.snapshot(); done && !f.resolvedSeen() {
						f.markSeen()
						rep.Hit("future:" + f.kind + map[bool]string{true: ":error", false: ":ok"}[ferr != ""])
					}
				}
				// the configuration a successful membership future delivers belongs to the caller: modifying it
				// (voter bits flipped, a stranger added) must not change the node's own configuration
				corrupted := false
				for _, f := range futs {
					f.mu.Lock()
					c, was := f.cfg, f.scribbled
					f.scribbled = f.scribbled || c != nil
					f.mu.Unlock()
					if c == nil || was {
						continue
					}
					cb := node.R.Configuration()
					beforeC := CfgFromRaft(&cb).String()
					for id := range c.IsVoter {
						c.IsVoter[id] = !c.IsVoter[id]
					}
					if c.Members != nil {
						c.Members["99"] = "scribble"
					}
					ca := node.R.Configuration()
					afterC := CfgFromRaft(&ca).String()
					rep.Hit("future-configuration-scribbled")
					if beforeC != afterC {
						corrupted = true
						rep.Add(Finding{Kind: "oracle", Property: "C09", Case: line,
							Oracle: "a caller that modifies the configuration a successful membership future handed it changes the node's own configuration: the result shares its maps with the node (configuration in force no longer the one in the log; voter bits decide quorums)",
							Impl:   fmt.Sprintf("node configuration before the caller touched its copy: %s, after: %s", beforeC, afterC),
							Signature: map[string]string{"oracle": "returned-configuration-aliases-node"}})
					}
				}
				if corrupted {
					for c := range outstanding {
						s.Fail(c)
					}
					break
				}
			}
			for c := range outstanding {
				s.Fail(c)
			}
			synctest.Wait()
		}
		s.StopAll()
		time.Sleep(3 * time.Hour) // let every awaited future reach its timeout inside the bubble
	})
}

var lfutSeen sync.Map

func (f *lfut) resolvedSeen() bool { _, ok := lfutSeen.Load(f); return ok }
func (f *lfut) markSeen()          { lfutSeen.Store(f, true) }

// cascadeOutcome is one order in which the commit, apply and read-only loops may take the
// wake-ups a section leaves behind.
type cascadeOutcome struct {
	final  string
	states []string // model node after the section and after every loop step
	effs   []string
	spawns []string // "peer@stateIndex"
	events []string // client-visible events in order: ok:<key> err:<key> ff fcf
}

func exploreCascade(ask func(string) []string, now int64, sec []string) []cascadeOutcome {
	var out []cascadeOutcome
	seen := map[string]bool{}
	collect := func(o *cascadeOutcome, e string, at int) {
		e = strings.TrimPrefix(e, "eff=")
		if e == "-" || e == "" {
			return
		}
		for _, tok := range splitTop(e) {
			o.effs = append(o.effs, tok)
			if strings.HasPrefix(tok, "ae(") {
				o.spawns = append(o.spawns, fmt.Sprintf("%s@%d", strings.TrimSuffix(strings.TrimPrefix(tok, "ae("), ")"), at))
			}
			if tok == "ff" || tok == "fcf" {
				o.events = append(o.events, tok)
			}
		}
	}
	// busy: the read-only loop is answering the reads it collected, with the mutex released around
	// every state machine call: a wake-up that arrives meanwhile finds nobody waiting and is lost
	// (the read it would have served stays pending until the next round signals again)
	// rest: reads the pass has taken out of the pending table but not answered yet. The loop answers them
	// one by one with the mutex released around each state machine call, so the other loops can run
	// in between; when it gets the mutex back and the node is no longer leader it leaves the loop and
	// the reads it still holds are answered by nobody (their futures time out).
	var rec func(o cascadeOutcome, sigC, sigA, sigR bool, depth int)
	var recB func(o cascadeOutcome, sigC, sigA, sigR, busy bool, rest []string, depth int)
	rec = func(o cascadeOutcome, sigC, sigA, sigR bool, depth int) { recB(o, sigC, sigA, sigR, false, nil, depth) }
	recB = func(o cascadeOutcome, sigC, sigA, sigR, busy bool, rest []string, depth int) {
		if len(out) >= 400 {
			return
		}
		clone := func() cascadeOutcome {
			return cascadeOutcome{o.final, append([]string{}, o.states...), append([]string{}, o.effs...), append([]string{}, o.spawns...), append([]string{}, o.events...)}
		}
		if busy {
			// the pass ends now ...
			e := clone()
			if len(rest) > 0 && ParseKV(e.final)["role"] == "L" {
				e.events = append(e.events, rest...)
			}
			recB(e, sigC, sigA, sigR, false, nil, depth+1)
			// ... or later, after other loops ran; what they signal to the read-only loop is lost
			sigR = false
		}
		if (!sigC && !sigA && !sigR) || depth > 40 {
			if busy && len(rest) > 0 {
				return // covered by "the pass ends now"
			}
			key := o.final + "|" + strings.Join(o.events, ",") + "|" + multiset(strings.Join(o.effs, ","))
			if !seen[key] {
				seen[key] = true
				out = append(out, o)
			}
			return
		}
		if sigC {
			n := clone()
			r := ask(fmt.Sprintf("COMMIT | %d | %s", now, n.final))
			n.final = r[0]
			n.states = append(n.states, r[0])
			collect(&n, r[1], len(n.states)-1)
			recB(n, hasEff(r[1], "sigC"), sigA || hasEff(r[1], "sigA"), (sigR || hasEff(r[1], "sigR")) && !busy, busy, rest, depth+1)
		}
		if sigA {
			n := clone()
			r := ask(fmt.Sprintf("APPLY | %d | %s", now, n.final))
			ap := strings.TrimPrefix(r[2], "applied=")
			if ap == "none" {
				collect(&n, r[1], len(n.states)-1)
				recB(n, sigC, false, sigR, busy, rest, depth+1)
			} else {
				n.final = r[0]
				n.states = append(n.states, r[0])
				collect(&n, r[1], len(n.states)-1)
				f := strings.Split(ap, ".")
				if f[len(f)-1] == "1" {
					switch f[0] {
					case "op":
						n.events = append(n.events, "ok:rep:"+f[1])
					case "config":
						n.events = append(n.events, "ok:cfg:"+f[1])
					}
				}
				recB(n, sigC || hasEff(r[1], "sigC"), true, !busy, busy, rest, depth+1)
			}
		}
		if sigR {
			n := clone()
			r := ask(fmt.Sprintf("READONLY | %d | %s", now, n.final))
			n.final = r[0]
			n.states = append(n.states, r[0])
			var revs []string
			for _, x := range strings.Split(strings.TrimPrefix(r[1], "outs="), ";") {
				f := strings.Split(x, ".")
				if len(f) == 2 && f[0] == "served" {
					revs = append(revs, "ok:read:"+f[1])
				} else if len(f) == 2 && f[0] == "invalid" {
					revs = append(revs, "err:read:"+f[1])
				}
			}
			// every read of the pass answered before anything else runs
			full := n
			full.events = append(append([]string{}, n.events...), revs...)
			recB(full, sigC, sigA, false, len(revs) > 0, nil, depth+1)
			// or only some of them (any non-empty proper subset: the pass walks a Go map), the others held
			if len(revs) >= 2 && len(revs) <= 4 {
				for mask := 1; mask < (1<<len(revs))-1; mask++ {
					part := n
					part.events = append([]string{}, n.events...)
					var held []string
					for i, ev := range revs {
						if mask&(1<<i) != 0 {
							part.events = append(part.events, ev)
						} else {
							part.events = append(part.events, "take:"+ev[strings.Index(ev, ":")+1:])
							held = append(held, ev)
						}
					}
					recB(part, sigC, sigA, false, true, held, depth+1)
				}
			}
		}
	}
	o := cascadeOutcome{final: sec[0], states: []string{sec[0]}}
	collect(&o, sec[1], 0)
	rec(o, hasEff(sec[1], "sigC"), hasEff(sec[1], "sigA"), hasEff(sec[1], "sigR"), 0)
	return out
}

// compareOutcome compares what the node did with one model outcome; nil = they agree.
func compareOutcome(drv *Driver, o *cascadeOutcome, post NodeSt, eff string, newCalls []*Call, futs []*lfut, newFut *lfut, submitOut, line, what string) (*Finding, map[*Call]string) {
	// ---- state
	is := ParseKV(post.String())
	ms := ParseKV(o.final)
	sortReads := func(s string) string {
		if s == "-" || s == "" {
			return "-"
		}
		p := strings.Split(s, ";")
		sort.Slice(p, func(i, j int) bool {
			a, b := strings.Split(p[i], "."), strings.Split(p[j], ".")
			x, _ := strconv.Atoi(a[len(a)-1])
			y, _ := strconv.Atoi(b[len(b)-1])
			return x < y
		})
		return strings.Join(p, ";")
	}
	sortList := func(s string) string {
		if s == "-" || s == "" {
			return "-"
		}
		p := strings.Split(s, ";")
		sort.Strings(p)
		return strings.Join(p, ";")
	}
	is["reads"], ms["reads"] = sortReads(is["reads"]), sortReads(ms["reads"])
	is["fol"], ms["fol"] = sortList(is["fol"]), sortList(ms["fol"])
	is["prep"], ms["prep"] = sortList(is["prep"]), sortList(ms["prep"])
	if d := DiffKV(is, ms, leaderKeys); len(d) > 0 {
		return &Finding{Kind: "mismatch", Property: "C04", Case: line, Impl: post.String(), Model: o.final, Diff: append([]string{"after " + what + " and the loops it wakes"}, d...)}, nil
	}
	if ie, me := multiset(FilterEffects("eff="+eff, StorageEffects)), multiset(FilterEffects("eff="+strings.Join(o.effs, ","), StorageEffects)); ie != me {
		return &Finding{Kind: "mismatch", Property: "C04", Case: line, Impl: ie, Model: me, Diff: []string{"storage effects differ"}}, nil
	}
	// ---- requests
	type spawnRec struct {
		peer  uint64
		at    int
		round int
		used  bool
	}
	var srecs []*spawnRec
	for _, sp := range o.spawns {
		var peer uint64
		var at int
		fmt.Sscanf(sp, "%d@%d", &peer, &at)
		nr, _ := strconv.Atoi(ParseKV(o.states[at])["nr"])
		srecs = append(srecs, &spawnRec{peer: peer, at: at, round: nr - 1})
	}
	rounds := map[*Call]string{}
	// which spawn may have produced which call: the request must be what prepareAE builds in one of
	// the states after the spawn. Calls and spawns are then matched one to one (backtracking: a
	// call of a later round can also look like one of an earlier spawn).
	cand := make([][]int, len(newCalls))
	wants := make([][]string, len(newCalls))
	for ci, c := range newCalls {
		for si, sr := range srecs {
			if sr.peer != c.To {
				continue
			}
			for j := sr.at; j < len(o.states); j++ {
				pa, _ := drv.Ask(fmt.Sprintf("PREPAE | %s | peer=%d", o.states[j], sr.peer))
				wants[ci] = append(wants[ci], pa)
				if (c.Kind == "AE" && pa == aeReqStr(c.AE)) || (c.Kind == "IS" && pa == "snapshot") {
					cand[ci] = append(cand[ci], si)
					break
				}
			}
		}
	}
	assign := make([]int, len(newCalls))
	var match func(ci int) bool
	match = func(ci int) bool {
		if ci == len(newCalls) {
			return true
		}
		for _, si := range cand[ci] {
			if srecs[si].used {
				continue
			}
			srecs[si].used = true
			assign[ci] = si
			if match(ci + 1) {
				return true
			}
			srecs[si].used = false
		}
		return false
	}
	if !match(0) {
		for ci, c := range newCalls {
			if len(cand[ci]) == 0 {
				return &Finding{Kind: "mismatch", Property: "C04", Case: line, Impl: c.String(), Model: strings.Join(wants[ci], " / "), Diff: []string{"a request was sent that prepareAE does not build in any state after its spawn"}}, nil
			}
		}
		return &Finding{Kind: "mismatch", Property: "C04", Case: line, Impl: fmt.Sprintf("%d requests", len(newCalls)), Model: fmt.Sprintf("%d spawns", len(srecs)), Diff: []string{"the requests sent cannot be matched one to one with the goroutines the model spawns"}}, nil
	}
	for ci, c := range newCalls {
		rounds[c] = fmt.Sprintf("%d@%d", srecs[assign[ci]].round, srecs[assign[ci]].at)
	}
	for _, sr := range srecs {
		if sr.used {
			continue
		}
		silent := false
		for j := sr.at; j < len(o.states); j++ {
			pa, _ := drv.Ask(fmt.Sprintf("PREPAE | %s | peer=%d", o.states[j], sr.peer))
			if pa == "nothing" {
				silent = true
			}
		}
		if !silent {
			return &Finding{Kind: "mismatch", Property: "C04", Case: line, Impl: "no request to peer " + strconv.FormatUint(sr.peer, 10), Model: "request expected", Diff: []string{"the model sends a request the node did not send"}}, nil
		}
	}
	// ---- what clients were told: replay the model's events in order
	type res struct{ done, err bool }
	want := map[*lfut]res{}
	keyOf := func(f *lfut) string {
		return map[string]string{"rep": "rep:", "lin": "read:", "lease": "read:", "cfg": "cfg:"}[f.kind] + strconv.FormatUint(f.key, 10)
	}
	if newFut != nil && !strings.Contains(submitOut, "accepted") && !strings.Contains(submitOut, "registered") {
		want[newFut] = res{true, !strings.Contains(submitOut, "already")}
	}
	// the node has ONE slot for a membership future: a request accepted while another is still
	// unanswered takes the slot over and the older future is orphaned (it times out): only the
	// owner of the slot is answered by `fcf` (known finding S3 is how two get accepted)
	var owner *lfut
	for _, f := range futs {
		if f.kind == "cfg" && f.key != 0 {
			owner = f
		}
	}
	taken := map[*lfut]bool{} // out of the pending table, held by the read-only pass: `ff` does not reach them
	for _, ev := range o.events {
		for _, f := range futs {
			if f.resolvedSeen() {
				continue
			}
			if _, ok := want[f]; ok {
				continue
			}
			if ev == "take:"+keyOf(f) {
				taken[f] = true
				continue
			}
			switch {
			case ev == "ff" && f.kind != "cfg" && !taken[f], ev == "fcf" && f == owner:
				// only futures the model still tracks are answered; a submission refused at once is in `want` already
				want[f] = res{true, true}
			case ev == "ok:"+keyOf(f):
				want[f] = res{true, false}
			case ev == "err:"+keyOf(f):
				want[f] = res{true, true}
			}
		}
	}
	for _, f := range futs {
		if f.resolvedSeen() {
			continue
		}
		done, ferr, _ := f.snapshot()
		w := want[f]
		if done != w.done || (done && (ferr != "") != w.err) {
			return &Finding{Kind: "mismatch", Property: "C03", Case: line, Impl: fmt.Sprintf("future %s: resolved=%v err=%q", keyOf(f), done, ferr),
				Model: fmt.Sprintf("resolved=%v error=%v (events %v)", w.done, w.err, o.events), Diff: []string{"the client is told something else than the model says"}}, nil
		}
	}
	return nil, rounds
}
