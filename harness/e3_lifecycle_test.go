package harness

import (
	"fmt"
	"os"
	"sort"
	"strings"
	"testing"
	"testing/synctest"
	"time"

	"github.com/jmsadair/raft"
)

// E3-lifecycle: restore() / Start / Restart / Stop of the real node against Model/Lifecycle.lean.
// A directory is prepared through the real storages (term/vote, a log with configuration
// entries anywhere, optionally a snapshot whose label lies inside, at the end of or beyond the
// log). Variant "fresh": a new node object over the directory (what a crash leaves) is started.
// Variant "in-place": a running node that has applied a prefix is stopped and started or
// restarted again, same object, same state machine. After every lifecycle call the node is
// compared with the model; then a heartbeat commits the whole log and the node applies it:
// no state machine instance may see an index twice or out of order (C01).

var lifeKeys = []string{"role", "term", "vote", "log", "ci", "la", "si", "st", "cfg", "com", "fol", "lc"}

func normCom(kv KV) {
	if kv["com"] == "c0" {
		kv["com"] = "nil"
	}
}

func TestE3Lifecycle(t *testing.T) {
	rep := NewReport("E3-lifecycle")
	rep.Rule = "seeded directories written through the real storages (term/vote; logs of 0-7 entries with 0-3 configuration entries anywhere; no snapshot or one labelled inside / at the end of / beyond the log, log compacted to it or not) x {new object over the directory, running node stopped then Start()ed, stopped then Restart()ed} x in-memory state of the running node (role F/C/L, commit and applied index anywhere in the log, configuration in force and committed one); after Stop and after Start/Restart the real node vs the model (role, term, vote, log, commit/applied index, boundary, both configurations, follower table); then a heartbeat commits the log: every state machine instance sees strictly increasing indices; non-trivial = the directory holds a configuration entry or a snapshot"
	defer rep.Write()
	drv, err := StartDriver()
	if err != nil {
		t.Fatal(err)
	}
	defer drv.Close()
	rng := NewRng(Seed() + 777)
	n := EnvInt("VERIF_N", 200)
	root, _ := os.MkdirTemp(ScratchRoot(), "verif-e3lc-")
	defer os.RemoveAll(root)
	synctest.Test(t, func(t *testing.T) {
		time.Sleep(time.Hour)
		for k := 0; k < n; k++ {
			s := NewSim(fmt.Sprintf("%s/c%d", root, k), SimOpts{})
			node, err := s.Boot(1, "", 0, nil)
			if err != nil {
				t.Fatal(err)
			}
			node.FSM.Lenient = true
			// ---- the directory
			nent := rng.Intn(8)
			var ents []Ent
			term := uint64(1)
			cfgs := []*Cfg{}
			for i := 1; i <= nent; i++ {
				if rng.Chance(30) {
					term++
				}
				e := Ent{Index: uint64(i), Term: term, Kind: 1, Data: uint64(100 + i)}
				if rng.Chance(28) {
					c := genCfg(rng, 1)
					c.Index = uint64(i)
					e = Ent{Index: uint64(i), Term: term, Kind: 2, Cfg: c}
					cfgs = append(cfgs, c)
				} else if rng.Chance(15) {
					e.Kind, e.Data = 0, 0
				}
				ents = append(ents, e)
			}
			dterm, dvote := term+uint64(rng.Intn(2)), uint64(rng.Intn(3))
			var snapS = "nil"
			var snapIdx, snapTerm uint64
			var snapCfg *Cfg
			compacted := false
			if rng.Chance(45) {
				snapIdx = uint64(rng.Intn(nent + 2))
				if snapIdx == 0 {
					snapIdx = 1
				}
				snapTerm = 1
				if int(snapIdx) <= nent {
					snapTerm = ents[snapIdx-1].Term
				}
				snapCfg = genCfg(rng, 1)
				snapCfg.Index = snapIdx
				snapS = fmt.Sprintf("%d.%d.%s", snapIdx, snapTerm, snapCfg.String())
				compacted = rng.Bool() || int(snapIdx) > nent
			}
			dlog := LogSt{Ents: ents}
			if compacted {
				dlog = LogSt{Base: snapIdx, BaseTerm: snapTerm}
				for _, e := range ents {
					if e.Index > snapIdx {
						dlog.Ents = append(dlog.Ents, e)
					}
				}
			}
			if err := node.RawState.SetState(dterm, ID(dvote)); err != nil {
				t.Fatal(err)
			}
			if err := node.RawLog.DiscardEntries(dlog.Base, dlog.BaseTerm); err != nil {
				t.Fatal(err)
			}
			if err := node.RawLog.AppendEntries(EntsToRaft(dlog.Ents)); err != nil {
				t.Fatal(err)
			}
			if snapCfg != nil {
				cb, _ := codec.EncodeConfiguration(snapCfg.ToRaft())
				f, err := node.RawSnap.NewSnapshotFile(snapIdx, snapTerm, cb)
				if err != nil {
					t.Fatal(err)
				}
				f.Write([]byte("{}"))
				if err := f.Close(); err != nil {
					t.Fatal(err)
				}
			}
			diskArgs := fmt.Sprintf("term=%d vote=%d dlog=%s snap=%s", dterm, dvote, dlog.String(), snapS)
			nontrivial := len(cfgs) > 0 || snapCfg != nil
			variant := []string{"fresh", "start", "restart"}[rng.Intn(3)]
			rep.Hit("variant:" + variant)
			now := msOf(time.Now())
			var mnode string
			switch variant {
			case "fresh":
				node.RawLog.Close()
				n2, err := s.Boot(1, node.Dir, 1, nil)
				if err != nil {
					rep.Add(Finding{Kind: "oracle", Property: "C14", Oracle: "creating a node over a directory written by the storages failed: " + err.Error(), Case: diskArgs,
						Signature: map[string]string{"oracle": "restart-total"}})
					continue
				}
				n2.FSM.Lenient = true
				node = n2
				if err := node.R.Start(); err != nil {
					rep.Add(Finding{Kind: "oracle", Property: "C14", Oracle: "starting a node over a directory written by the storages failed: " + err.Error(), Case: diskArgs,
						Signature: map[string]string{"oracle": "restart-total"}})
					continue
				}
				synctest.Wait()
				line := fmt.Sprintf("START | %d | %s | restore=1 stopped=0 %s", now, NodeSt{ID: 1, Role: "S", ET: 300, LD: 100, SV: true}.String(), diskArgs)
				ans, _ := drv.Ask(line)
				rep.Case(line, nontrivial)
				post := observeState(node, 300, 100)
				is, ms := ParseKV(post.String()), ParseKV(ans)
				normCom(is)
				normCom(ms)
				if d := DiffKV(is, ms, lifeKeys); len(d) > 0 {
					rep.Add(Finding{Kind: "mismatch", Property: "C14", Case: line, Impl: post.String(), Model: ans, Diff: append([]string{"after NewRaft + Start over the directory"}, d...)})
				}
				mnode = ans
			default:
				// a running node whose memory agrees with the directory, with a prefix applied
				if err := node.R.Start(); err != nil {
					t.Fatal(err)
				}
				synctest.Wait()
				last := dlog.LastIndex()
				lo := dlog.Base
				if snapIdx > lo {
					lo = snapIdx
				}
				ci := lo
				if last > lo {
					ci = lo + uint64(rng.Intn(int(last-lo)+1))
				}
				cfg, com := genCfg(rng, 1), genCfg(rng, 1)
				if len(cfgs) > 0 {
					cfg = cfgs[len(cfgs)-1]
				}
				pre := NodeSt{ID: 1, Role: []string{"F", "F", "C", "L"}[rng.Intn(4)], Term: dterm, Vote: dvote, Log: dlog, CI: ci, LA: lo, SI: snapIdx, ST: snapTerm,
					Cfg: cfg, Com: com, SV: true, ET: 300, LD: 100, LC: now, LE: now}
				for _, m := range cfg.Members {
					if m[0] != 1 {
						pre.Fol = append(pre.Fol, Fol{ID: m[0], Next: last + 1})
					}
				}
				vs := raft.VerifState{State: StateOf(pre.Role), CurrentTerm: pre.Term, VotedFor: ID(pre.Vote), CommitIndex: ci, LastApplied: lo,
					LastIncludedIndex: snapIdx, LastIncludedTerm: snapTerm, Configuration: cfg.ToRaft(), CommittedConfiguration: com.ToRaft(),
					LastContact: atMs(now), LeaseExpiration: atMs(now), ShouldVerifyQuorum: true, Followers: map[string]raft.VerifFollower{}}
				for _, f := range pre.Fol {
					vs.Followers[ID(f.ID)] = raft.VerifFollower{NextIndex: f.Next}
				}
				node.R.VerifSetState(vs)
				node.R.VerifSignal("apply")
				synctest.Wait()
				for _, c := range s.Take(func(*Call) bool { return true }) {
					s.Fail(c)
				}
				synctest.Wait()
				running := observeState(node, 300, 100)
				mnode = running.String()
				// ---- Stop
				node.R.Stop()
				synctest.Wait()
				sl := fmt.Sprintf("STOP | %s", mnode)
				sa, _ := drv.Ask(sl)
				rep.Case(sl, nontrivial)
				post := observeState(node, 300, 100)
				is, ms := ParseKV(post.String()), ParseKV(splitSections(sa)[0])
				normCom(is)
				normCom(ms)
				// the log of a stopped node is closed: it is compared again after the start
				if d := DiffKV(is, ms, []string{"role", "term", "vote", "ci", "la", "si", "st", "cfg", "com", "fol"}); len(d) > 0 {
					rep.Add(Finding{Kind: "mismatch", Property: "C14", Case: sl, Impl: post.String(), Model: sa, Diff: append([]string{"after Stop"}, d...)})
					continue
				}
				mnode = splitSections(sa)[0]
				// ---- Start / Restart on the same object (Stop took virtual time: the start happens now)
				now = msOf(time.Now())
				var serr error
				if variant == "start" {
					serr = node.R.Start()
				} else {
					serr = node.R.Restart()
				}
				if serr != nil {
					rep.Add(Finding{Kind: "oracle", Property: "C14", Oracle: "starting a stopped node again failed: " + serr.Error(), Case: diskArgs, Signature: map[string]string{"oracle": "restart-total"}})
					continue
				}
				synctest.Wait()
				line := fmt.Sprintf("START | %d | %s | restore=%s stopped=1 %s", now, mnode, b01(variant == "restart"), diskArgs)
				ans, _ := drv.Ask(line)
				rep.Case(line, nontrivial)
				post = observeState(node, 300, 100)
				is, ms = ParseKV(post.String()), ParseKV(ans)
				normCom(is)
				normCom(ms)
				if d := DiffKV(is, ms, lifeKeys); len(d) > 0 {
					rep.Add(Finding{Kind: "mismatch", Property: "C14", Case: line, Impl: post.String(), Model: ans, Diff: append([]string{"after Stop and " + variant}, d...)})
				}
				mnode = ans
			}
			// ---- a heartbeat commits the whole log; the node applies it
			st := observeState(node, 300, 100)
			var resp raft.AppendEntriesResponse
			node.R.AppendEntries(&raft.AppendEntriesRequest{LeaderID: ID(2), Term: st.Term, PrevLogIndex: st.Log.LastIndex(), PrevLogTerm: st.Log.LastTerm(), LeaderCommit: st.Log.LastIndex()}, &resp)
			synctest.Wait()
			s.Recd.mu.Lock()
			applies := append([]ApplyRec{}, s.Recd.Applies...)
			s.Recd.mu.Unlock()
			sort.SliceStable(applies, func(i, j int) bool { return applies[i].Seq < applies[j].Seq })
			lastIdx := map[string]uint64{}
			for _, a := range applies {
				key := fmt.Sprintf("object %d instance %d", a.Inc, a.Instance)
				if prev, ok := lastIdx[key]; ok && a.Index <= prev {
					var seq []string
					for _, b := range applies {
						seq = append(seq, fmt.Sprintf("%d@%d.%d", b.Index, b.Inc, b.Instance))
					}
					rep.Add(Finding{Kind: "oracle", Property: "C01", Oracle: "one state machine instance was handed an index again (or out of order) after a " + variant,
						Case: diskArgs + " | variant=" + variant + " | node=" + mnode, Impl: strings.Join(seq, " "), Signature: map[string]string{"oracle": "apply-once-per-instance", "after": variant}})
					break
				}
				lastIdx[key] = a.Index
			}
			s.StopAll()
		}
		time.Sleep(3 * time.Hour)
	})
}
