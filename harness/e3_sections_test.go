package harness

import (
	"fmt"
	"os"
	"sort"
	"strings"
	"testing"
	"testing/synctest"
	"time"

	"github.com/jmsadair/raft"
)

// E3-sections: the leader/candidate critical sections, one at a time, on a real node
// whose state is installed through the verif hooks, with a transport that parks calls.

func genCfg(rng *Rng, self uint64) *Cfg {
	n := 2 + rng.Intn(4)
	c := &Cfg{Index: 1}
	for i := 1; i <= n; i++ {
		v := uint64(1)
		if rng.Chance(20) {
			v = 0
		}
		c.Members = append(c.Members, [2]uint64{uint64(i), v})
	}
	if rng.Chance(8) { // the node itself is not a member
		var m [][2]uint64
		for _, x := range c.Members {
			if x[0] != self {
				m = append(m, x)
			}
		}
		c.Members = m
	}
	return c
}

func secNode(root string, k int) (*Sim, *SimNode, error) {
	s := NewSim(fmt.Sprintf("%s/s%d", root, k), SimOpts{})
	n, err := s.Boot(1, "", 0, nil)
	if err == nil {
		n.FSM.Lenient = true
	}
	return s, n, err
}

// installState puts a model state into the sim node (log through the real log).
func installState(n *SimNode, st NodeSt) error {
	if err := n.RawLog.DiscardEntries(st.Log.Base, st.Log.BaseTerm); err != nil {
		return err
	}
	if err := n.RawLog.AppendEntries(EntsToRaft(st.Log.Ents)); err != nil {
		return err
	}
	vs := raft.VerifState{
		State: StateOf(st.Role), CurrentTerm: st.Term, VotedFor: ID(st.Vote), LeaderID: ID(st.Leader),
		CommitIndex: st.CI, LastApplied: st.LA, LastIncludedIndex: st.SI, LastIncludedTerm: st.ST,
		Configuration: st.Cfg.ToRaft(), CommittedConfiguration: st.Com.ToRaft(),
		LastContact: atMs(st.LC), LeaseExpiration: atMs(st.LE), ShouldVerifyQuorum: st.SV,
		Followers: map[string]raft.VerifFollower{}, PrevoteWon: st.PW, ReadSequence: st.RS,
	}
	for _, f := range st.Fol {
		vs.Followers[ID(f.ID)] = raft.VerifFollower{NextIndex: f.Next, MatchIndex: f.Match}
	}
	n.R.VerifSetState(vs)
	n.Rec.Take()
	return nil
}

func observeState(n *SimNode, et, ld int64) NodeSt {
	vs := n.R.VerifGetState()
	st := NodeSt{ID: n.ID, Role: RoleOf(vs.State), Term: vs.CurrentTerm, Vote: IDNum(vs.VotedFor), Leader: IDNum(vs.LeaderID),
		Log: n.LogOf(), CI: vs.CommitIndex, LA: vs.LastApplied, SI: vs.LastIncludedIndex, ST: vs.LastIncludedTerm,
		Cfg: CfgFromRaft(vs.Configuration), Com: CfgFromRaft(vs.CommittedConfiguration), LC: msOf(vs.LastContact),
		LE: msOf(vs.LeaseExpiration), SV: vs.ShouldVerifyQuorum, PRep: vs.PendingReplicated, ET: et, LD: ld, PW: vs.PrevoteWon, RS: vs.ReadSequence}
	for id, f := range vs.Followers {
		st.Fol = append(st.Fol, Fol{ID: IDNum(id), Next: f.NextIndex, Match: f.MatchIndex, SnapOpen: f.SnapshotOpen})
	}
	return st
}

func rvReqStr(q *raft.RequestVoteRequest) string {
	return fmt.Sprintf("cand=%d term=%d li=%d lt=%d pv=%s", IDNum(q.CandidateID), q.Term, q.LastLogIndex, q.LastLogTerm, b01(q.Prevote))
}
func aeReqStr(q *raft.AppendEntriesRequest) string {
	ents := make([]Ent, len(q.Entries))
	for i, e := range q.Entries {
		ents[i] = EntFromRaft(e)
	}
	return fmt.Sprintf("leader=%d term=%d lc=%d pi=%d pt=%d ents=%s", IDNum(q.LeaderID), q.Term, q.LeaderCommit, q.PrevLogIndex, q.PrevLogTerm, EntsString(ents))
}

func cmpNode(rep *Report, prop, line, what string, impl NodeSt, modelText string, keys []string) {
	is := ParseKV(impl.String())
	ms := ParseKV(splitSections(modelText)[0])
	// the follower table is a Go map: compare it as a set
	for _, kv := range []map[string]string{is, ms} {
		if f, ok := kv["fol"]; ok && f != "-" && f != "" {
			p := strings.Split(f, ";")
			sort.Strings(p)
			kv["fol"] = strings.Join(p, ";")
		}
	}
	if d := DiffKV(is, ms, keys); len(d) > 0 {
		rep.Add(Finding{Kind: "mismatch", Property: prop, Case: line, Impl: impl.String(), Model: modelText, Diff: append([]string{what}, d...)})
	}
}

var electKeys = []string{"role", "term", "vote", "pw", "log", "ci", "fol", "le", "sv", "rs", "prep", "cfg", "com"}

func TestE3Election(t *testing.T) {
	rep := NewReport("E3-election")
	rep.Rule = "seeded node states (role F/P/C/L/shutdown, prevote-won flag, vote none/self/other, contact age around the election timeout, 2-5 members with non-voters, node voter/non-voter/not a member, several logs) driven through election() and then through vote replies (granted/refused, equal/higher/lower term, any order, some calls failing) released one at a time; after every step the real node is compared with the model (role, term, vote, prevote flag, log, storage effects, requests sent); non-trivial = the election sent requests; plus the hasQuorum table for 0-7 voters x 0-3 non-voters x every count"
	defer rep.Write()
	drv, err := StartDriver()
	if err != nil {
		t.Fatal(err)
	}
	defer drv.Close()
	rng := NewRng(Seed() + 99)
	n := EnvInt("VERIF_N", 600)
	root, _ := os.MkdirTemp(ScratchRoot(), "verif-e3el-")
	defer os.RemoveAll(root)
	synctest.Test(t, func(t *testing.T) {
		time.Sleep(time.Hour)
		s, node, err := secNode(root, 0)
		if err != nil {
			t.Fatal(err)
		}
		// ---- hasQuorum table (exhaustive)
		for voters := 0; voters <= 7; voters++ {
			for non := 0; non <= 3; non++ {
				c := &Cfg{Index: 1}
				for i := 1; i <= voters+non; i++ {
					v := uint64(1)
					if i > voters {
						v = 0
					}
					c.Members = append(c.Members, [2]uint64{uint64(i), v})
				}
				installState(node, NodeSt{ID: 1, Role: "F", Cfg: c, Com: c, ET: 300, LD: 100, SV: true})
				for count := 0; count <= 9; count++ {
					got := node.R.VerifHasQuorum(count)
					ans, _ := drv.Ask(fmt.Sprintf("QUORUM | %s | %d", c.String(), count))
					line := fmt.Sprintf("QUORUM | %s | %d", c.String(), count)
					rep.Case(line, true)
					rep.Hit("quorum-table")
					if b01(got) != ans {
						rep.Add(Finding{Kind: "mismatch", Property: "C02", Case: line, Impl: b01(got), Model: ans, Diff: []string{"hasQuorum differs"}})
					}
					// the statement itself: a quorum is a strict majority of the voters
					if got != (2*count > voters) {
						rep.Add(Finding{Kind: "oracle", Property: "C02", Oracle: fmt.Sprintf("hasQuorum(%d) with %d voters and %d non-voters is %v: not a strict majority of the voters", count, voters, non, got), Case: line,
							Signature: map[string]string{"oracle": "quorum-majority"}})
					}
				}
			}
		}
		// ---- elections
		for k := 0; k < n; k++ {
			now := msOf(time.Now())
			cfg := genCfg(rng, 1)
			terms := [][]uint64{{}, {1}, {1, 2}, {2, 2, 3}}[rng.Intn(4)]
			lg := mkLog(terms, 0, 1)
			pre := NodeSt{ID: 1, Role: []string{"F", "F", "P", "C", "C", "L"}[rng.Intn(6)], Term: 3, Vote: []uint64{0, 1, 2}[rng.Intn(3)],
				Log: lg, Cfg: cfg, Com: cfg, SV: true, ET: 300, LD: 100, LC: now - []int64{0, 150, 299, 300, 301, 900}[rng.Intn(6)], LE: now - 1,
				PW: rng.Bool(), CI: 0, LA: 0}
			for _, m := range cfg.Members {
				// replication state left over from an earlier leadership of this node (it is only reset in becomeLeader)
				f := Fol{ID: m[0], Next: 1}
				if rng.Chance(70) {
					f.Next = 1 + uint64(rng.Intn(len(terms)+2))
					f.Match = uint64(rng.Intn(len(terms) + 1))
				}
				pre.Fol = append(pre.Fol, f)
			}
			if err := installState(node, pre); err != nil {
				t.Fatal(err)
			}
			line := fmt.Sprintf("ELECTION | %d | %s", now, pre.String())
			node.R.VerifElection()
			synctest.Wait()
			post := observeState(node, 300, 100)
			eff := node.Rec.String()
			calls := s.Take(func(*Call) bool { return true })
			model, _ := drv.Ask(line)
			msec := splitSections(model)
			rep.Case(line, len(calls) > 0)
			switch {
			case len(calls) == 0:
				rep.Hit("election-idle")
			case calls[0].Kind == "RV" && calls[0].RV.Prevote:
				rep.Hit("election-prevote")
			case calls[0].Kind == "RV":
				rep.Hit("election-real")
			default:
				rep.Hit("election-single-leader")
			}
			cmpNode(rep, "C02", line, "after election()", post, model, electKeys)
			for _, b := range oracleDurableTV(pre, post, eff) {
				rep.Add(Finding{Kind: "oracle", Property: "C08", Oracle: strings.Replace(b, "the handler returned", "election() returned", 1), Case: line, Impl: post.String(),
					Signature: map[string]string{"oracle": "term-vote-durable-before-reply", "handler": "election"}})
			}
			if ie, me := FilterEffects("eff="+eff, StorageEffects), FilterEffects(msec[1], StorageEffects); ie != me {
				rep.Add(Finding{Kind: "mismatch", Property: "C02", Case: line, Impl: ie, Model: me, Diff: []string{"storage effects of election() differ"}})
			}
			// requests: one per spawn effect of the model that prepares a request
			var implReqs, modelReqs []string
			for _, c := range calls {
				if c.Kind == "RV" {
					implReqs = append(implReqs, fmt.Sprintf("%d:%s", c.To, rvReqStr(c.RV)))
				}
			}
			mnode := msec[0]
			for _, tok := range splitTop(strings.TrimPrefix(msec[1], "eff=")) {
				if strings.HasPrefix(tok, "rv(") {
					var peer uint64
					var pv int
					fmt.Sscanf(tok, "rv(%d,%d)", &peer, &pv)
					ans, _ := drv.Ask(fmt.Sprintf("PREPRV | %s | peer=%d pv=%d", mnode, peer, pv))
					if ans != "nothing" {
						modelReqs = append(modelReqs, fmt.Sprintf("%d:%s", peer, ans))
					}
				}
			}
			sort.Strings(implReqs)
			sort.Strings(modelReqs)
			if strings.Join(implReqs, " ; ") != strings.Join(modelReqs, " ; ") {
				rep.Add(Finding{Kind: "mismatch", Property: "C02", Case: line, Impl: strings.Join(implReqs, " ; "), Model: strings.Join(modelReqs, " ; "), Diff: []string{"vote requests sent differ"}})
			}
			// ---- replies, one at a time, in random order
			mkv := ParseKV(mnode)
			round := "0"
			if r := mkv["rvr"]; r != "-" && r != "" {
				round = strings.Split(strings.Split(r, ";")[0], ".")[0]
			}
			rng.Shuffle(len(calls), func(i, j int) { calls[i], calls[j] = calls[j], calls[i] })
			cur := post
			for _, c := range calls {
				if c.Kind != "RV" {
					s.Fail(c)
					continue
				}
				now = msOf(time.Now())
				var respS string
				if rng.Chance(12) {
					respS = "err"
					s.Fail(c)
				} else {
					c.RVR = raft.RequestVoteResponse{VoteGranted: rng.Chance(65), Term: c.RV.Term}
					switch rng.Intn(10) {
					case 0:
						c.RVR.Term = c.RV.Term + 1 + uint64(rng.Intn(2))
					case 1:
						if c.RV.Term > 0 {
							c.RVR.Term = c.RV.Term - 1
						}
					}
					c.Delivered = true
					respS = fmt.Sprintf("term=%d ok=%s", c.RVR.Term, b01(c.RVR.VoteGranted))
					s.Reply(c)
				}
				synctest.Wait()
				rline := fmt.Sprintf("VOTEREPLY | %d | %s | peer=%d round=%s | %s | %s", now, mnode, c.To, round, rvReqStr(c.RV), respS)
				ans, _ := drv.Ask(rline)
				prev := cur
				post := observeState(node, 300, 100)
				cur = post
				eff := node.Rec.String()
				rep.Case(rline, respS != "err")
				as := splitSections(ans)
				cmpNode(rep, "C02", rline, "after the vote reply", post, ans, electKeys)
				for _, b := range oracleDurableTV(prev, post, eff) {
					rep.Add(Finding{Kind: "oracle", Property: "C08", Oracle: strings.Replace(b, "the handler returned", "the vote reply was processed", 1), Case: rline, Impl: post.String(),
						Signature: map[string]string{"oracle": "term-vote-durable-before-reply", "handler": "vote-reply"}})
				}
				if ie, me := FilterEffects("eff="+eff, StorageEffects), FilterEffects(as[1], StorageEffects); ie != me {
					rep.Add(Finding{Kind: "mismatch", Property: "C02", Case: rline, Impl: ie, Model: me, Diff: []string{"storage effects of the vote reply differ"}})
				}
				if post.Role == "L" && ParseKV(mnode)["role"] != "L" {
					rep.Hit("became-leader")
				}
				mnode = as[0]
				// replication calls of a new leader are not part of this engine
				for _, x := range s.Take(func(x *Call) bool { return x.Kind != "RV" }) {
					s.Fail(x)
				}
			}
			for _, x := range s.Take(func(*Call) bool { return true }) {
				s.Fail(x)
			}
			synctest.Wait()
		}
	})
}
