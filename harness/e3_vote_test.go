package harness

import (
	"strings"
	"fmt"
	"os"
	"sync/atomic"
	"testing"
	"testing/synctest"
	"time"

	"github.com/jmsadair/raft"
)

type rvCase struct {
	pre NodeSt
	now int64
	req raft.RequestVoteRequest
}

func (c rvCase) reqString() string {
	return fmt.Sprintf("cand=%d term=%d li=%d lt=%d pv=%s", IDNum(c.req.CandidateID), c.req.Term,
		c.req.LastLogIndex, c.req.LastLogTerm, b01(c.req.Prevote))
}
func (c rvCase) line() string {
	return fmt.Sprintf("RV | %d | %s | %s", c.now, c.pre.String(), c.reqString())
}

// rvDomain enumerates the bounded domain of C08: request terms {T-1,T,T+1,T+2} x 3
// candidate ids x last index/term around the voter's x prevote x voter (role, votedFor in
// {none,a,b,self}, contact fresh/stale/boundary, lease valid/lapsed) x a few voter logs.
func rvDomain(now int64) []rvCase {
	var out []rvCase
	T := uint64(3)
	logs := [][]uint64{{}, {1}, {1, 2}, {1, 1, 2}, {2, 2, 3}}
	for _, terms := range logs {
		for _, base := range []int{0, len(terms)} {
			if base > 0 && len(terms) == 0 {
				continue
			}
			flog := mkLog(terms, base, 1)
			li, lt := flog.LastIndex(), flog.LastTerm()
			for _, role := range []string{"F", "P", "C", "L"} {
				for _, vote := range []uint64{0, 2, 3, 1} {
					for _, contact := range []int64{0, 299, 300, 301, 900} {
						for _, lease := range []int64{-1, 0, 1, 50} {
							if role != "L" && lease > 0 {
								continue
							}
							pre := NodeSt{ID: 1, Role: role, Term: T, Vote: vote, Log: flog, Cfg: cfg3, Com: cfg3, SV: true,
								ET: 300, LD: 100, LC: now - contact, LE: now + lease, SI: flog.Base, ST: flog.BaseTerm,
								CI: flog.Base, LA: flog.Base}
							for _, rt := range []uint64{T - 1, T, T + 1, T + 2} {
								for _, cand := range []uint64{2, 3, 4} {
									for _, pv := range []bool{false, true} {
										for di := -1; di <= 1; di++ {
											for dt := -1; dt <= 1; dt++ {
												qi := int64(li) + int64(di)
												qt := int64(lt) + int64(dt)
												if qi < 0 || qt < 0 {
													continue
												}
												req := raft.RequestVoteRequest{CandidateID: ID(cand), Term: rt,
													LastLogIndex: uint64(qi), LastLogTerm: uint64(qt), Prevote: pv}
												out = append(out, rvCase{pre: pre, now: now, req: req})
											}
										}
									}
								}
							}
						}
					}
				}
			}
		}
	}
	return out
}

func rvRespString(r raft.RequestVoteResponse) string {
	return fmt.Sprintf("term=%d ok=%s", r.Term, b01(r.VoteGranted))
}

// oracleC08 evaluates the handler-level statements of C08 on what the real code did.
func oracleC08(c rvCase, resp raft.RequestVoteResponse, post NodeSt, eff string) []string {
	var bad []string
	pre := c.pre
	if post.Term < pre.Term || resp.Term < pre.Term {
		bad = append(bad, "term decreased")
	}
	if c.req.Prevote {
		if post.Term != pre.Term || post.Vote != pre.Vote || post.Role != pre.Role || post.LC != pre.LC || eff != "-" {
			bad = append(bad, fmt.Sprintf("prevote changed the voter: term %d->%d vote %d->%d role %s->%s contact %d->%d storage %s",
				pre.Term, post.Term, pre.Vote, post.Vote, pre.Role, post.Role, pre.LC, post.LC, eff))
		}
	}
	if resp.VoteGranted {
		lt, li := pre.Log.LastTerm(), pre.Log.LastIndex()
		if c.req.LastLogTerm < lt || (c.req.LastLogTerm == lt && c.req.LastLogIndex < li) {
			bad = append(bad, fmt.Sprintf("vote granted to a candidate with an older log: candidate (%d,%d) voter (%d,%d)",
				c.req.LastLogTerm, c.req.LastLogIndex, lt, li))
		}
		if !c.req.Prevote {
			if c.req.Term == pre.Term && pre.Vote != 0 && pre.Vote != IDNum(c.req.CandidateID) {
				bad = append(bad, fmt.Sprintf("second vote in term %d: had voted for %d, now grants %s", pre.Term, pre.Vote, c.req.CandidateID))
			}
			if post.Vote != IDNum(c.req.CandidateID) || post.Term != c.req.Term {
				bad = append(bad, "granted vote not recorded in the node state")
			}
			want := fmt.Sprintf("ss(%d,%d)", c.req.Term, IDNum(c.req.CandidateID))
			if !containsTok(eff, want) {
				bad = append(bad, "granted vote not persisted before the reply: storage effects "+eff)
			}
			if resp.Term != c.req.Term {
				bad = append(bad, "granted reply carries a different term than the request")
			}
		}
	}
	return bad
}

var rvKeys = []string{"role", "term", "vote", "leader", "log", "ci", "lc", "pw", "cfg", "com"}

func TestE3RequestVote(t *testing.T) {
	rep := NewReport("E3-requestVote")
	rep.Rule = "exhaustive product: 5 voter logs x compacted or not x 4 roles x votedFor {none,2,3,self} x contact age {0,299,300,301,900} ms x lease {lapsed,boundary,valid} x request term {T-1..T+2} x 3 candidates x prevote x last index/term in {-1,0,+1}^2 around the voter's; non-trivial = passes the stickiness guard"
	defer rep.Write()
	drv, err := StartDriver()
	if err != nil {
		t.Fatal(err)
	}
	defer drv.Close()
	root, _ := os.MkdirTemp(ScratchRoot(), "verif-e3rv-")
	defer os.RemoveAll(root)
	stride := EnvInt("VERIF_STRIDE", 1)
	off := int(Seed()) % stride
	persistOrderProbe(rep, root)
	synctest.Test(t, func(t *testing.T) {
		time.Sleep(time.Hour)
		now := msOf(time.Now())
		cases := rvDomain(now)
		rep.Exhaustive = stride == 1
		var tn *TNode
		k := 0
		for i := off; i < len(cases); i += stride {
			c := cases[i]
			if k%2000 == 0 {
				var err error
				tn, err = NewTNode(NodeOpts{ID: 1, Dir: fmt.Sprintf("%s/n%d", root, k)})
				if err != nil {
					t.Fatal(err)
				}
			}
			k++
			line := c.line()
			if err := tn.Set(c.pre); err != nil {
				t.Fatal(err)
			}
			var resp raft.RequestVoteResponse
			herr := tn.R.RequestVote(&c.req, &resp)
			post := tn.Get()
			eff := tn.Rec.String()
			sticky := (c.now-c.pre.LC < 300) || (c.pre.LE > c.now)
			rep.Case(line, !sticky)
			switch {
			case herr != nil:
				rep.Hit("error")
			case sticky:
				rep.Hit("sticky")
			case resp.VoteGranted && c.req.Prevote:
				rep.Hit("prevote-granted")
			case resp.VoteGranted:
				rep.Hit("vote-granted")
			default:
				rep.Hit("refused")
			}
			impl := fmt.Sprintf("%s | %s | eff=%s", rvRespString(resp), post.String(), eff)
			model, err := drv.Ask(line)
			if err != nil {
				t.Fatal(err)
			}
			for _, b := range oracleC08(c, resp, post, eff) {
				if strings.HasPrefix(b, "vote granted to a candidate with an older log") && !c.req.Prevote {
					// the election restriction is what leader completeness rests on: the same observation, stated for C07
					rep.Add(Finding{Kind: "oracle", Property: "C07", Oracle: "a real vote was granted to a candidate whose log lacks entries the voter holds (any of them may be committed): " + b, Case: line, Impl: impl,
						Signature: map[string]string{"oracle": "election-restriction", "handler": "RequestVote"}})
				}
				rep.Add(Finding{Kind: "oracle", Property: "C08", Oracle: b, Case: line, Impl: impl})
			}
			for _, b := range oracleDurableTV(c.pre, post, eff) {
				rep.Add(Finding{Kind: "oracle", Property: "C08", Oracle: b, Case: line, Impl: impl, Signature: map[string]string{"oracle": "term-vote-durable-before-reply", "handler": "RequestVote"}})
			}
			compareSections(rep, "C08", line, impl, model, rvKeys, []string{"term", "ok"})
		}
	})
}

// persistOrderProbe: two requests that both change term/vote reach the node while the disk is slow: the
// first one's write to the term/vote storage is held back, the second request (a higher term) is issued
// meanwhile, then the write is let go. Whatever the node does about locking, when both handlers have
// returned the term and vote on disk must be the ones in memory (C08: what was answered survives a
// restart); a node that lets the second request finish first and then completes the first one's write
// ends with the older pair on disk. Real time (a mutex wait is not a durable block for synctest).
func persistOrderProbe(rep *Report, root string) {
	tn, err := NewTNode(NodeOpts{ID: 1, Dir: root + "/order"})
	if err != nil {
		rep.Notes = append(rep.Notes, "persist-order probe skipped: "+err.Error())
		return
	}
	call := func(kind string, term, from uint64) {
		if kind == "RV" {
			var r raft.RequestVoteResponse
			tn.R.RequestVote(&raft.RequestVoteRequest{CandidateID: ID(from), Term: term, LastLogIndex: 9, LastLogTerm: term}, &r)
		} else {
			var r raft.AppendEntriesResponse
			tn.R.AppendEntries(&raft.AppendEntriesRequest{LeaderID: ID(from), Term: term}, &r)
		}
	}
	for _, pair := range [][2]string{{"RV", "AE"}, {"AE", "RV"}, {"RV", "RV"}, {"AE", "AE"}} {
		pre := NodeSt{ID: 1, Role: "F", Term: 3, Log: mkLog([]uint64{1}, 0, 1), Cfg: cfg3, Com: cfg3, SV: true, ET: 300, LD: 100}
		if err := tn.Set(pre); err != nil {
			rep.Notes = append(rep.Notes, "persist-order probe skipped: "+err.Error())
			return
		}
		line := fmt.Sprintf("PERSIST-ORDER | %s of term 5 from node 2 with its term/vote write held back, then %s of term 6 from node 3, then the write is let go", pair[0], pair[1])
		entered, release := make(chan struct{}, 1), make(chan struct{})
		var first atomic.Bool
		first.Store(true)
		tn.St.Gate = func(uint64, string) {
			if first.CompareAndSwap(true, false) {
				entered <- struct{}{}
				<-release
			}
		}
		doneA, doneB := make(chan struct{}), make(chan struct{})
		go func() { call(pair[0], 5, 2); close(doneA) }()
		held := false
		select {
		case <-entered:
			held = true
		case <-time.After(2 * time.Second):
		}
		go func() { call(pair[1], 6, 3); close(doneB) }()
		overlapped := false
		select {
		case <-doneB:
			overlapped = true
		case <-time.After(150 * time.Millisecond):
		}
		close(release)
		<-doneA
		<-doneB
		tn.St.Gate = nil
		vs := tn.R.VerifGetState()
		dt, dv, derr := tn.RawState.State()
		rep.Case(line, held)
		rep.Hit(map[bool]string{true: "persist-order:second-ran-during-write", false: "persist-order:second-waited"}[overlapped])
		if derr != nil || dt != vs.CurrentTerm || dv != vs.VotedFor {
			rep.Add(Finding{Kind: "oracle", Property: "C08", Oracle: "after two overlapping requests the term and vote on disk are not the ones in memory: the node has answered with a term a restart would take back", Case: line,
				Impl:      fmt.Sprintf("memory: term=%d vote=%q; term/vote storage: term=%d vote=%q err=%v; the second request returned while the first write was held back: %v", vs.CurrentTerm, vs.VotedFor, dt, dv, derr, overlapped),
				Signature: map[string]string{"oracle": "durable-term-vote-order"}})
		}
	}
}
