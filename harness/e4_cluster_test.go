//go:debug randautoseed=0
//go:debug randseednop=0
package harness

import (
	"bytes"
	"encoding/json"
	"errors"
	"fmt"
	"math/rand"
	"os"
	"path/filepath"
	"runtime"
	"sort"
	"strings"
	"sync"
	"testing"
	"testing/synctest"
	"time"

	"github.com/jmsadair/raft"
)

// ---------------------------------------------------------------- client history

type ClientOp struct {
	ID        int
	Kind      string // rep lin lease add remove
	Node      uint64
	Payload   string
	Target    uint64 // membership: server id
	Voter     bool
	InvokeSeq int
	InvokeAt  time.Time
	Timeout   time.Duration
	Done      bool
	RespSeq   int
	RespAt    time.Time
	Err       string
	Index     uint64
	Term      uint64
	Bytes     string
	Read      ReadResult
	HasRead   bool
	Cfg       *Cfg
}

type World struct {
	S        *Sim
	chunkSeen map[*Call]bool
	isFatal  func() bool
	tainted  map[uint64]map[[2]uint64]bool // node -> labels of received snapshot files that took a chunk of another snapshot
	rng      *Rng
	rep      *Report
	prof     string
	seq      int
	mu       sync.Mutex
	Ops      []*ClientOp
	Trace    []string
	leaders  map[uint64]map[uint64]bool // term -> ids
	firstLead map[[2]uint64]bool
	crashed  map[uint64]string // id -> image dir
	crashLogs map[uint64]LogSt
	armed     map[uint64]bool
	tripCount int
	incs     map[uint64]int
	voters   []uint64
	walkID   string
	bounded  time.Duration // max delay enforced by the scheduler (0: none)
	maxTermSeen map[uint64]uint64
	violated map[string]bool
	members  map[uint64]bool
	scenario string
	healthyLeader, healthyTerm uint64
	maxSpread int // largest difference between the member sets of two running nodes seen so far
}

var liveTrace = os.Getenv("VERIF_LIVE_TRACE") != ""

func (w *World) note(format string, a ...interface{}) {
	w.Trace = append(w.Trace, fmt.Sprintf("[%6dms] ", msOf(time.Now())-3600000) + fmt.Sprintf(format, a...))
	if liveTrace {
		fmt.Fprintf(os.Stderr, "%d %s\n", time.Now().UnixNano(), w.Trace[len(w.Trace)-1])
	}
}

func (w *World) tick() int { w.seq++; return w.seq }

func (w *World) violate(prop, oracle, detail string, sig map[string]string) {
	// Safety under membership changes is C09's statement; C01-C04 and C07 quantify over static membership.
	if sig != nil && sig["membership"] == "changing" && (prop == "C01" || prop == "C02" || prop == "C03" || prop == "C04" || prop == "C07") {
		prop = "C09"
		if w.maxSpread >= 2 {
			sig["pattern"] = "configs-two-apart"
		}
	}
	key := prop + "|" + oracle
	if w.violated[key] {
		return
	}
	w.violated[key] = true
	tr := w.Trace
	if len(tr) > 400 {
		tr = tr[len(tr)-400:]
	}
	w.rep.Add(Finding{Kind: "oracle", Property: prop, Oracle: oracle, Case: w.walkID, Detail: detail + "\nTRACE (last actions):\n" + strings.Join(tr, "\n"), Signature: sig})
}

// submit issues a client operation and awaits it in its own goroutine.
func (w *World) submit(kind string, node uint64, target uint64, voter bool) {
	n := w.S.Nodes[node]
	if n == nil {
		return
	}
	op := &ClientOp{ID: len(w.Ops) + 1, Kind: kind, Node: node, Target: target, Voter: voter, InvokeSeq: w.tick(), InvokeAt: time.Now(),
		Timeout: time.Duration(200+w.rng.Intn(1500)) * time.Millisecond}
	op.Payload = fmt.Sprintf("%s-%d", w.walkID, op.ID)
	w.mu.Lock()
	w.Ops = append(w.Ops, op)
	w.mu.Unlock()
	w.note("client op %d: %s at node %d target=%d voter=%v", op.ID, kind, node, target, voter)
	finish := func(err error) {
		w.mu.Lock()
		defer w.mu.Unlock()
		op.Done = true
		op.RespSeq = w.tick()
		op.RespAt = time.Now()
		if err != nil {
			op.Err = err.Error()
		}
	}
	defer func() {
		if r := recover(); r != nil {
			w.violate("C18", "a public API call panicked", fmt.Sprintf("%s at node %d: %v", kind, node, r), map[string]string{"oracle": "api-panic", "call": kind})
		}
	}()
	switch kind {
	case "rep", "lin", "lease":
		typ := map[string]raft.OperationType{"rep": raft.Replicated, "lin": raft.LinearizableReadOnly, "lease": raft.LeaseBasedReadOnly}[kind]
		buf := []byte(op.Payload)
		fut := n.R.SubmitOperation(buf, typ, op.Timeout)
		// the client re-uses its buffer as soon as the call has returned (an encoder writing the next request):
		// what was submitted is what the buffer held when SubmitOperation was called
		for i := range buf {
			buf[i] = '#'
		}
		go func() {
			res := fut.Await()
			if n.Rec.Tripped() {
				finish(errors.New("node died before answering"))
				return
			}
			if res.Error() != nil {
				finish(res.Error())
				return
			}
			r := res.Success()
			w.mu.Lock()
			op.Index, op.Term, op.Bytes = r.Operation.LogIndex, r.Operation.LogTerm, string(r.Operation.Bytes)
			// ... and what a future hands back is the caller's too: it decodes in place, here it wipes the bytes
			for i := range r.Operation.Bytes {
				r.Operation.Bytes[i] = '%'
			}
			if rr, ok := r.ApplicationResponse.(ReadResult); ok {
				op.Read, op.HasRead = rr, true
			}
			w.mu.Unlock()
			finish(nil)
		}()
	case "add":
		fut := n.R.AddServer(ID(target), Addr(target), voter, op.Timeout)
		go func() {
			res := fut.Await()
			if n.Rec.Tripped() {
				finish(errors.New("node died before answering"))
				return
			}
			if res.Error() != nil {
				finish(res.Error())
				return
			}
			c := res.Success()
			w.mu.Lock()
			op.Cfg = CfgFromRaft(&c)
			w.mu.Unlock()
			finish(nil)
		}()
	case "remove":
		fut := n.R.RemoveServer(ID(target), op.Timeout)
		go func() {
			res := fut.Await()
			if n.Rec.Tripped() {
				finish(errors.New("node died before answering"))
				return
			}
			if res.Error() != nil {
				finish(res.Error())
				return
			}
			c := res.Success()
			w.mu.Lock()
			op.Cfg = CfgFromRaft(&c)
			w.mu.Unlock()
			finish(nil)
		}()
	}
	synctest.Wait()
}

// ---------------------------------------------------------------- oracles evaluated after every action

func (w *World) trackSpread() {
	ids := w.S.IDs()
	cfgs := make([]raft.Configuration, len(ids))
	for i, id := range ids {
		cfgs[i] = w.S.Nodes[id].R.Configuration()
	}
	for i := range cfgs {
		for j := i + 1; j < len(cfgs); j++ {
			if len(cfgs[i].Members) == 0 || len(cfgs[j].Members) == 0 {
				continue
			}
			d := 0
			for m := range cfgs[i].Members {
				if _, ok := cfgs[j].Members[m]; !ok || cfgs[i].IsVoter[m] != cfgs[j].IsVoter[m] {
					d++
				}
			}
			for m := range cfgs[j].Members {
				if _, ok := cfgs[i].Members[m]; !ok {
					d++
				}
			}
			if d > w.maxSpread {
				w.maxSpread = d
			}
		}
	}
}

func (w *World) observe() {
	if w.isChurn() {
		w.trackSpread()
	}
	for _, e := range w.S.Errors {
		w.violate("C18", "a handler panicked", e, map[string]string{"oracle": "handler-panic"})
	}
	// C02: leaders per term from Status and from requests
	for _, id := range w.S.IDs() {
		st := w.S.Nodes[id].R.Status()
		if st.Term < w.maxTermSeen[id] {
			w.violate("C08", "a node's term decreased", fmt.Sprintf("node %d: %d -> %d", id, w.maxTermSeen[id], st.Term), map[string]string{"oracle": "term-monotone"})
		}
		w.maxTermSeen[id] = st.Term
		if st.State == raft.Leader {
			w.leaderSeen(st.Term, id, "Status()")
			key := [2]uint64{st.Term, id}
			if !w.firstLead[key] {
				w.firstLead[key] = true
				w.note("node %d is leader of term %d", id, st.Term)
				w.checkLeaderComplete(id, st.Term)
			}
		}
	}
	w.S.Net.mu.Lock()
	calls := append([]*Call{}, w.S.Net.All...)
	w.S.Net.mu.Unlock()
	for _, c := range calls {
		if c.Kind == "AE" {
			w.leaderSeen(c.AE.Term, IDNum(c.AE.LeaderID), "AppendEntries request")
		} else if c.Kind == "IS" {
			w.leaderSeen(c.IS.Term, IDNum(c.IS.LeaderID), "InstallSnapshot request")
			w.checkChunk(c)
		}
	}
	w.checkApplied()
	w.checkClients()
	w.checkCompaction()
}

func (w *World) leaderSeen(term, id uint64, how string) {
	if w.leaders[term] == nil {
		w.leaders[term] = map[uint64]bool{}
	}
	if !w.leaders[term][id] {
		w.leaders[term][id] = true
		if len(w.leaders[term]) > 1 {
			var ids []uint64
			for x := range w.leaders[term] {
				ids = append(ids, x)
			}
			sort.Slice(ids, func(i, j int) bool { return ids[i] < ids[j] })
			w.violate("C02", "two leaders in one term", fmt.Sprintf("term %d has leaders %v (last seen through %s)", term, ids, how),
				map[string]string{"oracle": "one-leader-per-term", "membership": w.membershipTag()})
		}
	}
}

// isChurn: the profile changes the membership while it runs
func (w *World) isChurn() bool { return w.prof == "churn" || w.prof == "snapmember" }

func (w *World) membershipTag() string {
	if w.isChurn() {
		return "changing"
	}
	// a single voter together with non-voting members
	for _, id := range w.S.IDs() {
		c := w.S.Nodes[id].R.Configuration()
		voters := 0
		for _, v := range c.IsVoter {
			if v {
				voters++
			}
		}
		if voters == 1 && len(c.Members) > 1 {
			return "sole-voter-with-nonvoters"
		}
	}
	return "static"
}

type appliedEntry struct {
	term uint64
	data string
	node uint64
}

// authoritative returns index -> (term, data) over every Apply ever made anywhere.
func (w *World) authoritative() (map[uint64]appliedEntry, []uint64) {
	w.S.Recd.mu.Lock()
	defer w.S.Recd.mu.Unlock()
	m := map[uint64]appliedEntry{}
	for _, a := range w.S.Recd.Applies {
		if _, ok := m[a.Index]; !ok {
			m[a.Index] = appliedEntry{a.Term, a.Data, a.Node}
		}
	}
	var idx []uint64
	for i := range m {
		idx = append(idx, i)
	}
	sort.Slice(idx, func(i, j int) bool { return idx[i] < idx[j] })
	return m, idx
}

func (w *World) checkApplied() {
	w.S.Recd.mu.Lock()
	applies := append([]ApplyRec{}, w.S.Recd.Applies...)
	w.S.Recd.mu.Unlock()
	first := map[uint64]ApplyRec{}
	lastIdx := map[[3]int]uint64{}
	for _, a := range applies {
		if f, ok := first[a.Index]; ok {
			if f.Term != a.Term || f.Data != a.Data {
				w.violate("C01", "two replicas applied different operations at the same index",
					fmt.Sprintf("index %d: node %d applied (term %d, %q), node %d applied (term %d, %q)", a.Index, f.Node, f.Term, f.Data, a.Node, a.Term, a.Data),
					map[string]string{"oracle": "sm-safety", "membership": w.membershipTag()})
			}
		} else {
			first[a.Index] = a
		}
		key := [3]int{int(a.Node), a.Inc, a.Instance}
		if li, ok := lastIdx[key]; ok && a.Index <= li {
			prop, sig := "C01", map[string]string{"oracle": "apply-order", "snapshots": fmt.Sprint(w.S.Opts.SnapEvery > 0)}
			if w.S.Opts.SnapEvery > 0 {
				prop = "C10"
			}
			w.violate(prop, "a state machine instance was handed operations out of increasing index order (or one twice)",
				fmt.Sprintf("node %d incarnation %d instance %d: index %d after %d", a.Node, a.Inc, a.Instance, a.Index, li), sig)
		}
		lastIdx[key] = a.Index
	}
}

// checkLeaderComplete: C07 — a new leader holds every entry applied anywhere so far.
func (w *World) checkLeaderComplete(id, term uint64) {
	auth, idx := w.authoritative()
	lg := w.S.Nodes[id].LogOf()
	for _, i := range idx {
		a := auth[i]
		if a.term >= term {
			continue
		}
		if i <= lg.Base {
			continue
		}
		e := lg.Get(i)
		if e == nil || e.Term != a.term {
			w.violate("C07", "a node became leader without holding an entry that was already committed (applied somewhere)",
				fmt.Sprintf("leader %d of term %d misses index %d (term %d, %q); its log: %s", id, term, i, a.term, a.data, lg.String()),
				map[string]string{"oracle": "leader-complete", "membership": w.membershipTag()})
			return
		}
	}
}


func (w *World) checkClients() {
	w.mu.Lock()
	ops := append([]*ClientOp{}, w.Ops...)
	w.mu.Unlock()
	auth, _ := w.authoritative()
	byPayload := map[string][]uint64{}
	for i, a := range auth {
		byPayload[a.data] = append(byPayload[a.data], i)
	}
	now := time.Now()
	for _, op := range ops {
		w.mu.Lock()
		done, errS := op.Done, op.Err
		w.mu.Unlock()
		if !done {
			if now.Sub(op.InvokeAt) > op.Timeout+50*time.Millisecond {
				w.violate("C18", "a future did not resolve by its timeout", fmt.Sprintf("op %d (%s at node %d) invoked %v ago, timeout %v", op.ID, op.Kind, op.Node, now.Sub(op.InvokeAt), op.Timeout),
					map[string]string{"oracle": "future-resolves", "call": op.Kind})
			}
			continue
		}
		if op.Kind == "rep" {
			if idxs := byPayload[op.Payload]; len(idxs) > 1 {
				w.violate("C03", "one submission occupies two committed positions", fmt.Sprintf("op %d payload %q applied at indices %v", op.ID, op.Payload, idxs),
					map[string]string{"oracle": "applied-once", "membership": w.membershipTag()})
			}
		}
		if errS != "" {
			continue
		}
		switch op.Kind {
		case "rep":
			if op.Bytes != op.Payload {
				w.violate("C03", "a successful future returned different bytes than were submitted", fmt.Sprintf("op %d submitted %q got %q", op.ID, op.Payload, op.Bytes),
					map[string]string{"oracle": "future-truth", "membership": w.membershipTag()})
			}
			a, ok := auth[op.Index]
			if !ok || a.data != op.Payload || a.term != op.Term {
				w.violate("C03", "a successful future reports a log position where that operation was not applied",
					fmt.Sprintf("op %d (%q) reports index %d term %d; applied there: %+v (known=%v)", op.ID, op.Payload, op.Index, op.Term, a, ok), map[string]string{"oracle": "future-truth", "membership": w.membershipTag()})
			}
			if op.HasRead && op.Read.LastIndex != op.Index {
				w.violate("C03", "a successful future carries the state machine result of a different application",
					fmt.Sprintf("op %d index %d result says last index %d", op.ID, op.Index, op.Read.LastIndex), map[string]string{"oracle": "future-truth", "membership": w.membershipTag()})
			}
		case "lin", "lease":
			if !op.HasRead {
				continue
			}
			if op.Kind == "lease" && w.bounded == 0 {
				continue // C17 is only claimed under the timing assumption
			}
			prop := map[string]string{"lin": "C05", "lease": "C17"}[op.Kind]
			for _, wop := range ops {
				if wop.Kind != "rep" || !wop.Done || wop.Err != "" {
					continue
				}
				if wop.RespSeq < op.InvokeSeq && wop.Index > op.Read.LastIndex {
					w.violate(prop, "a read that succeeded missed a replicated operation acknowledged before the read was invoked",
						fmt.Sprintf("read op %d (%s at node %d, invoked seq %d) saw the prefix up to index %d (count %d); write op %d (index %d) was acknowledged at seq %d",
							op.ID, op.Kind, op.Node, op.InvokeSeq, op.Read.LastIndex, op.Read.Count, wop.ID, wop.Index, wop.RespSeq),
						map[string]string{"oracle": "read-fresh", "kind": op.Kind, "membership": w.membershipTag()})
				}
			}
		case "add", "remove":
			if op.Cfg != nil {
				has, isV := false, false
				for _, m := range op.Cfg.Members {
					if m[0] == op.Target {
						has, isV = true, m[1] == 1
					}
				}
				if (op.Kind == "add" && (!has || isV != op.Voter)) || (op.Kind == "remove" && has) {
					w.violate("C09", "a membership future succeeded with a configuration that does not contain the requested change",
						fmt.Sprintf("op %d %s target %d voter=%v got %s", op.ID, op.Kind, op.Target, op.Voter, op.Cfg.String()), map[string]string{"oracle": "config-future-truth"})
				}
			}
		}
	}
	// C03 real-time order between replicated operations
	for _, a := range ops {
		if a.Kind != "rep" || !a.Done || a.Err != "" {
			continue
		}
		for _, b := range ops {
			if b.Kind != "rep" || b.ID == a.ID || a.RespSeq >= b.InvokeSeq {
				continue
			}
			if idxs := byPayload[b.Payload]; len(idxs) > 0 && idxs[0] < a.Index {
				w.violate("C03", "an operation invoked after another one was acknowledged is ordered before it",
					fmt.Sprintf("op %d acked at index %d (seq %d); op %d invoked at seq %d applied at index %d", a.ID, a.Index, a.RespSeq, b.ID, b.InvokeSeq, idxs[0]),
					map[string]string{"oracle": "real-time-order", "membership": w.membershipTag()})
			}
		}
	}
}

// checkAckDurability: C04 — at the moment of an acknowledgement a majority of voters stores the entry.
func (w *World) checkAckDurability(seen map[int]bool) {
	w.mu.Lock()
	ops := append([]*ClientOp{}, w.Ops...)
	w.mu.Unlock()
	for _, op := range ops {
		if op.Kind != "rep" || !op.Done || op.Err != "" || seen[op.ID] {
			continue
		}
		seen[op.ID] = true
		if w.isChurn() {
			continue
		}
		holders := 0
		var detail []string
		for _, v := range w.voters {
			var lg LogSt
			if n := w.S.Nodes[v]; n != nil {
				lg = n.LogOf()
			} else if l, ok := w.crashLogs[v]; ok {
				lg = l
			}
			e := lg.Get(op.Index)
			if (e != nil && e.Term == op.Term) || op.Index <= lg.Base {
				holders++
			}
			detail = append(detail, fmt.Sprintf("%d:%s", v, lg.String()))
		}
		if 2*holders <= len(w.voters) {
			w.violate("C04", "an operation was acknowledged while stored in the logs of no majority of the voters",
				fmt.Sprintf("op %d index %d term %d held by %d of %d voters; logs: %s", op.ID, op.Index, op.Term, holders, len(w.voters), strings.Join(detail, " | ")),
				map[string]string{"oracle": "ack-on-majority", "membership": w.membershipTag()})
		}
	}
}

// ---------------------------------------------------------------- one random walk

type profile struct {
	name                                                           string
	nodes                                                          int
	pDeliver, pHold, pFail, pDup, pTime, pWrite, pLin, pLease      int
	pPartition, pCrash, pMember                                    int
	snapEvery, pad                                                 int
	bounded                                                        time.Duration
	longDelays                                                     bool
	safeMember                                                     bool // membership actions only toggle the one spare node
}

var profiles = map[string]profile{
	"static": {name: "static", pDeliver: 50, pHold: 6, pFail: 6, pDup: 3, pTime: 18, pWrite: 10, pLin: 2, pPartition: 3, pCrash: 2},
	"reads":  {name: "reads", pDeliver: 42, pHold: 10, pFail: 6, pDup: 2, pTime: 18, pWrite: 8, pLin: 10, pPartition: 4, longDelays: true},
	"lease":  {name: "lease", pDeliver: 55, pHold: 0, pFail: 8, pDup: 0, pTime: 16, pWrite: 8, pLease: 9, pPartition: 4, bounded: 150 * time.Millisecond},
	"churn":  {name: "churn", pDeliver: 52, pHold: 5, pFail: 5, pDup: 2, pTime: 16, pWrite: 8, pLin: 1, pPartition: 3, pCrash: 1, pMember: 8},
	"snap":   {name: "snap", pDeliver: 55, pHold: 5, pFail: 5, pDup: 3, pTime: 14, pWrite: 14, pPartition: 2, pCrash: 2, snapEvery: 5},
	"crash":  {name: "crash", pDeliver: 50, pHold: 4, pFail: 5, pDup: 2, pTime: 16, pWrite: 12, pPartition: 2, pCrash: 9, snapEvery: 7},
	// snapshots together with membership changes that stay quorum-compatible: one spare node is added
	// (non-voting or voting), promoted, demoted, removed; any two configurations this reaches differ by at
	// most one voter (C09_quorums_of_adjacent_configurations_intersect), so S3/S4 are out of reach
	"snapmember": {name: "snapmember", pDeliver: 52, pHold: 5, pFail: 5, pDup: 2, pTime: 14, pWrite: 12, pPartition: 2, pCrash: 2, pMember: 6, snapEvery: 5, safeMember: true},
}

func runWalk(t *testing.T, rep *Report, prof profile, seed uint64, walk int, actions int) {
	// one P and a fixed seed of the library's math/rand source (go:debug randautoseed=0, reseeded per
	// walk below): together with the canonical order of parked calls a walk replays the same way
	defer runtime.GOMAXPROCS(runtime.GOMAXPROCS(1))
	rand.Seed(int64(seed*1000003 + uint64(walk)))
	rng := NewRng(seed*1000003 + uint64(walk))
	nn := prof.nodes
	if nn == 0 {
		nn = []int{1, 2, 3, 3, 3, 4, 5, 5}[rng.Intn(8)]
	}
	root, _ := os.MkdirTemp(ScratchRoot(), "verif-e4-")
	defer os.RemoveAll(root)
	pad := 0
	if prof.snapEvery > 0 && rng.Chance(30) {
		pad = []int{0, 1000, 40000, 70000}[rng.Intn(4)]
	}
	synctest.Test(t, func(t *testing.T) {
		time.Sleep(time.Hour)
		s := NewSim(root, SimOpts{SnapEvery: prof.snapEvery, PadBytes: pad})
		var badMu sync.Mutex
		var bad []string
		var badNodes []uint64
		s.OnBadRestore = func(node uint64, size int, err error) {
			badMu.Lock()
			bad = append(bad, fmt.Sprintf("node %d: Restore was handed %d bytes that are not a state machine image: %v", node, size, err))
			badNodes = append(badNodes, node)
			badMu.Unlock()
		}
		w := &World{S: s, rng: rng, rep: rep, prof: prof.name, leaders: map[uint64]map[uint64]bool{}, firstLead: map[[2]uint64]bool{},
			crashed: map[uint64]string{}, crashLogs: map[uint64]LogSt{}, armed: map[uint64]bool{}, incs: map[uint64]int{}, maxTermSeen: map[uint64]uint64{},
			violated: map[string]bool{}, members: map[uint64]bool{}, bounded: prof.bounded,
			walkID: fmt.Sprintf("walk profile=%s seed=%d walk=%d nodes=%d actions=%d", prof.name, seed, walk, nn, actions)}
		var boot []uint64
		for i := 1; i <= nn; i++ {
			boot = append(boot, uint64(i))
		}
		w.voters = boot
		for _, id := range boot {
			if _, err := s.Boot(id, "", 0, boot); err != nil {
				t.Fatal(err)
			}
			w.members[id] = true
		}
		for _, id := range boot {
			if err := s.Start(id); err != nil {
				t.Fatal(err)
			}
		}
		w.isFatal = func() bool { badMu.Lock(); defer badMu.Unlock(); return len(bad) > 0 }
		spare := uint64(nn + 1)
		halted := false
		// the library ends the process when Restore fails (logger.Fatal): the walk ends with this finding
		badRestore := func() bool {
			badMu.Lock()
			defer badMu.Unlock()
			if len(bad) == 0 {
				return false
			}
			w.checkSnapshots()
			pat := "restore-unparsable"
			if len(w.tainted[badNodes[0]]) > 0 {
				pat = "restore-of-mixed-chunks"
			}
			w.violate("C10", "a state machine was restored from bytes that are not a state machine image", bad[0],
				map[string]string{"oracle": "snapshot-exact", "pattern": pat})
			return true
		}
		held := []*Call{}
		acked := map[int]bool{}
		// slow snapshots: now and then the next Snapshot() call of a node parks (its label is already
		// fixed, the lock released) and is let go a few actions later, so that entries are applied,
		// requests handled and other snapshots installed while it runs
		slowSnap := map[uint64]int{}
		slowFSM := map[uint64]*SimFSM{} // the incarnation whose gate is set (it may be a zombie by the time of the release)
		releaseSnap := func(id uint64) {
			if f := slowFSM[id]; f != nil && f.GateSnapshot != nil {
				close(f.GateSnapshot)
				f.GateSnapshot = nil
			}
			delete(slowSnap, id)
			delete(slowFSM, id)
		}
		for a := 0; a < actions; a++ {
			if prof.snapEvery > 0 {
				for _, id := range sortedKeys(slowSnap) {
					slowSnap[id]--
					if slowSnap[id] <= 0 || s.Nodes[id] == nil || s.Nodes[id].FSM != slowFSM[id] {
						w.note("node %d: a parked Snapshot() call (if any) continues", id)
						releaseSnap(id)
					}
				}
				if ids := s.IDs(); len(ids) > 0 && rng.Chance(3) {
					id := ids[rng.Intn(len(ids))]
					if _, busy := slowSnap[id]; !busy && s.Nodes[id].FSM.GateSnapshot == nil && !w.armed[id] {
						s.Nodes[id].FSM.GateSnapshot = make(chan struct{})
						slowFSM[id] = s.Nodes[id].FSM
						slowSnap[id] = 2 + rng.Intn(12)
						w.note("node %d: its next Snapshot() call will park for %d actions", id, slowSnap[id])
					}
				}
			}
			r := rng.Intn(100)
			total := 0
			pick := func(p int) bool { total += p; return r < total }
			pending := s.PendingCalls()
			if os.Getenv("VERIF_DUMP_TRACE") != "" {
				var ks []string
				for _, c := range pending {
					ks = append(ks, c.String())
				}
				w.note("pending(%d): %s", len(pending), strings.Join(ks, " | "))
			}
			switch {
			case pick(prof.pDeliver):
				if len(pending) == 0 {
					time.Sleep(time.Duration(1+rng.Intn(20)) * time.Millisecond)
					synctest.Wait()
					break
				}
				c := pending[rng.Intn(len(pending))]
				// under a delay bound, the oldest call goes first once it is about to exceed the bound
				if prof.bounded > 0 {
					for _, x := range pending {
						if time.Since(x.Created) > time.Since(c.Created) {
							c = x
						}
					}
				}
				s.Take(func(x *Call) bool { return x == c })
				if s.IsCut(c.From, c.To) {
					w.note("fail %s (partition)", c)
					s.Fail(c)
					break
				}
				s.Deliver(c)
				if c.HandlerReturned() {
					w.note("deliver+reply %s -> %s", c, respString(c))
					s.Reply(c)
				} else {
					w.note("deliver %s (handler blocked)", c)
					held = append(held, c)
				}
			case pick(prof.pHold):
				// deliver now, answer later (possibly much later)
				if len(pending) > 0 {
					c := pending[rng.Intn(len(pending))]
					s.Take(func(x *Call) bool { return x == c })
					if s.IsCut(c.From, c.To) {
						s.Fail(c)
						break
					}
					s.Deliver(c)
					w.note("deliver (reply held) %s -> %s", c, respString(c))
					held = append(held, c)
				} else if len(held) > 0 {
					i := rng.Intn(len(held))
					c := held[i]
					if c.HandlerReturned() {
						held = append(held[:i], held[i+1:]...)
						w.note("late reply %s -> %s", c, respString(c))
						s.Reply(c)
					}
				}
			case pick(prof.pFail):
				if len(pending) > 0 {
					c := pending[rng.Intn(len(pending))]
					s.Take(func(x *Call) bool { return x == c })
					w.note("lose %s", c)
					s.Fail(c)
				}
			case pick(prof.pDup):
				// duplicated request: the handler sees an old request again, nobody reads the answer
				all := s.AllCalls()
				if len(all) > 0 {
					c := all[rng.Intn(len(all))]
					if c.Delivered && !s.IsCut(c.From, c.To) && s.Nodes[c.To] != nil {
						d := &Call{ID: -c.ID, Seq: -c.num(), From: c.From, To: c.To, Kind: c.Kind, AE: c.AE, RV: c.RV, IS: c.IS, done: make(chan error, 1)}
						w.note("duplicate delivery of %s", c)
						s.Deliver(d)
					}
				}
			case pick(prof.pTime):
				d := []time.Duration{time.Millisecond, 5 * time.Millisecond, 20 * time.Millisecond, 50 * time.Millisecond, 150 * time.Millisecond, 400 * time.Millisecond, 700 * time.Millisecond}[rng.Intn(7)]
				if prof.bounded > 0 {
					// never let a parked call exceed the delay bound: deliver everything first
					w.pumpAll(held)
					held = held[:0]
					if d > 50*time.Millisecond {
						d = 50 * time.Millisecond
					}
				}
				w.note("time +%v", d)
				time.Sleep(d)
				synctest.Wait()
			case pick(prof.pWrite):
				w.submit("rep", w.pickNode(), 0, false)
			case pick(prof.pLin):
				w.submit("lin", w.pickNode(), 0, false)
			case pick(prof.pLease):
				w.submit("lease", w.pickNode(), 0, false)
			case pick(prof.pPartition):
				ids := s.IDs()
				if rng.Chance(35) {
					w.note("heal all partitions")
					s.HealAll()
				} else if len(ids) >= 2 {
					x, y := ids[rng.Intn(len(ids))], ids[rng.Intn(len(ids))]
					if x != y {
						if rng.Chance(25) {
							w.note("one-way partition %d -/-> %d", x, y)
							s.Cut[[2]uint64{x, y}] = true
						} else {
							w.note("partition %d <-/-> %d", x, y)
							s.Sever(x, y)
						}
					}
				}
			case pick(prof.pCrash):
				if len(w.crashed) > 0 && rng.Chance(60) {
					for _, id := range sortedKeys(w.crashed) {
						img := w.crashed[id]
						w.incs[id]++
						w.note("restart node %d", id)
						if err := w.restart(id, img); err != nil {
							w.violate("C14", "creating and starting a node over the directory of a crashed node failed", fmt.Sprintf("node %d: %v", id, err),
								map[string]string{"oracle": "restart-total"})
						}
						delete(w.crashed, id)
						break
					}
				} else if ids := s.IDs(); len(ids) > 0 && len(w.crashed)+len(w.armed) < (nn-1)/2+1 {
					id := ids[rng.Intn(len(ids))]
					if w.armed[id] {
						break
					}
					if rng.Chance(55) {
						// crash point between two storage writes: fires inside a critical section
						k, kind := 1+rng.Intn(5), ""
						if prof.snapEvery > 0 && rng.Chance(50) {
							// aim at the rare windows: snapshot made visible / log trimmed / truncation
							k, kind = 1+rng.Intn(2), []string{"lc", "ld", "sc", "lt", "sn", "sw"}[rng.Intn(6)]
						}
						w.note("arm crash point at node %d: before its storage operation #%d from now (kind %q)", id, k, kind)
						w.armed[id] = true
						s.ArmCrash(id, k, kind)
						break
					}
					w.crashLogs[id] = s.Nodes[id].LogOf()
					w.note("crash node %d", id)
					w.crashed[id] = s.Crash(id)
				}
			case pick(prof.pMember):
				if len(s.IDs()) == 0 {
					break
				}
				lead := s.Leader()
				if lead == 0 {
					lead = w.pickNode()
				}
				if prof.safeMember {
					if w.S.Nodes[spare] == nil && w.crashed[spare] == "" {
						if _, err := s.Boot(spare, "", 0, nil); err == nil {
							s.Start(spare)
						}
					}
					switch rng.Intn(3) {
					case 0:
						w.submit("add", lead, spare, false)
						w.members[spare] = true
					case 1:
						w.submit("add", lead, spare, true)
						w.members[spare] = true
					default:
						w.submit("remove", lead, spare, false)
					}
					break
				}
				switch rng.Intn(4) {
				case 0:
					if !w.members[spare] && w.S.Nodes[spare] == nil && w.crashed[spare] == "" && spare <= uint64(nn+2) {
						if _, err := s.Boot(spare, "", 0, nil); err == nil {
							s.Start(spare)
						}
					}
					w.submit("add", lead, spare, false)
					w.members[spare] = true
				case 1:
					w.submit("add", lead, spare, true)
				case 2:
					ids := s.IDs()
					w.submit("remove", lead, ids[rng.Intn(len(ids))], false)
				default:
					if w.members[spare] && rng.Chance(50) {
						spare++
					}
					ids := s.IDs()
					w.submit("add", lead, ids[rng.Intn(len(ids))], true)
				}
			}
			w.drain()
			w.collectTrips()
			w.trackMixing()
			if badRestore() {
				halted = true
				break
			}
			w.observe()
			w.checkAckDurability(acked)
			if len(w.violated) > 0 && a > actions/2 {
				break
			}
		}
		if halted {
			for _, id := range sortedKeys(slowSnap) {
				releaseSnap(id)
			}
			rep.Case(w.walkID, len(w.Ops) > 0)
			rep.Evaluations += len(w.Trace)
			rep.Hit("walk:" + prof.name)
			rep.Hit("walk-ended-by-fatal-restore")
			s.StopAll()
			return
		}
		for _, id := range sortedKeys(slowSnap) {
			releaseSnap(id)
		}
		// ---- quiet period: heal, restart, deliver promptly; the cluster must converge (C15)
		w.note("--- quiet period ---")
		s.HealAll()
		for _, id := range sortedKeys(w.armed) {
			s.Disarm(id)
		}
		w.collectTrips()
		for _, id := range sortedKeys(w.crashed) {
			img := w.crashed[id]
			w.incs[id]++
			if err := w.restart(id, img); err != nil {
				w.violate("C14", "creating and starting a node over the directory of a crashed node failed", fmt.Sprintf("node %d: %v", id, err), map[string]string{"oracle": "restart-total"})
			}
			delete(w.crashed, id)
		}
		for _, c := range held {
			if c.HandlerReturned() {
				s.Reply(c)
			}
		}
		w.quiet()
		w.trackMixing()
		if !badRestore() {
			w.observe()
			w.checkSnapshots()
		}
		if f := os.Getenv("VERIF_DUMP_TRACE"); f != "" {
			if strings.HasSuffix(f, "/") {
				f += fmt.Sprintf("%s-%d-%d.txt", prof.name, seed, walk)
			}
			os.WriteFile(f, []byte(strings.Join(w.Trace, "\n")+"\n"), 0o644)
		}
		rep.Case(w.walkID, len(w.Ops) > 0)
		rep.Evaluations += len(w.Trace) // scheduler actions executed and checked by the oracles
		rep.Hit("walk:" + prof.name)
		rep.Hit(fmt.Sprintf("nodes:%d", nn))
		s.StopAll()
		for _, z := range s.Zombies {
			_ = z
		}
	})
}

func respString(c *Call) string {
	if c.HErr != nil {
		return "error " + c.HErr.Error()
	}
	switch c.Kind {
	case "AE":
		return fmt.Sprintf("t%d ok=%v idx=%d", c.AER.Term, c.AER.Success, c.AER.Index)
	case "RV":
		return fmt.Sprintf("t%d granted=%v", c.RVR.Term, c.RVR.VoteGranted)
	default:
		return fmt.Sprintf("t%d written=%d", c.ISR.Term, c.ISR.BytesWritten)
	}
}

// drain lets a few virtual microseconds pass so that slow state machine calls finish and
// successive actions never share a timestamp.
func (w *World) drain() {
	n := 2
	if w.S.Opts.SnapEvery > 0 {
		n = 24
	}
	for i := 0; i < n; i++ {
		sleepToResidue(500)
		synctest.Wait()
	}
}

// collectTrips: crash points that fired since the last action.
func (w *World) collectTrips() {
	for _, id := range w.S.Tripped() {
		at := w.S.Nodes[id].Rec.TripAt
		img := w.S.FinishTrip(id)
		delete(w.armed, id)
		w.crashed[id] = img
		w.crashLogs[id] = LogOfDir(img)
		w.note("node %d died at its armed crash point, just before storage operation %s; image log %s", id, at, w.crashLogs[id].String())
		w.tripCount++
		w.rep.Hit("crash-before:" + strings.SplitN(at, "(", 2)[0])
	}
}

func (w *World) pumpAll(held []*Call) {
	for _, c := range held {
		if c.HandlerReturned() {
			w.S.Reply(c)
		}
	}
	w.S.Pump()
}

func (w *World) pickNode() uint64 {
	ids := w.S.IDs()
	if len(ids) == 0 {
		return 0
	}
	if l := w.S.Leader(); l != 0 && w.rng.Chance(70) {
		return l
	}
	return ids[w.rng.Intn(len(ids))]
}

func (w *World) restart(id uint64, img string) (err error) {
	defer func() {
		if r := recover(); r != nil {
			err = fmt.Errorf("panic: %v", r)
		}
	}()
	return w.S.Restart(id, img, w.incs[id])
}

// quiet: fault-free period; then one leader, a fresh operation completes, everyone catches up.
// settled: under membership churn the liveness oracles only apply when the running nodes agree
// on the configuration and a majority of its voters is running (the walk may have added a
// voter that never existed, or removed the nodes that hold the log).
func (w *World) settled() bool {
	if !w.isChurn() {
		return true
	}
	var ref string
	for i, id := range w.S.IDs() {
		c := w.S.Nodes[id].R.Configuration()
		cs := CfgFromRaft(&c).String()
		cs = cs[strings.Index(cs+"/", "/"):]
		if i == 0 {
			ref = cs
		} else if cs != ref {
			return false
		}
		voters, up := 0, 0
		for m, v := range c.IsVoter {
			if v {
				voters++
				if w.S.Nodes[IDNum(m)] != nil {
					up++
				}
			}
		}
		if 2*up <= voters {
			return false
		}
	}
	return true
}

// fatal: the code under test has ended its process (a Restore failed; see runWalk).
func (w *World) fatal() bool { return w.isFatal != nil && w.isFatal() }

func (w *World) quiet() {
	s := w.S
	et := s.Opts.ET
	if !w.settled() {
		s.Run(6*et, 5*time.Millisecond, nil)
		if w.fatal() {
			return
		}
		if !w.settled() {
			w.rep.Hit("quiet-skipped-unsettled-membership")
			return
		}
	}
	ok := s.Run(12*et, 5*time.Millisecond, func() bool { return w.fatal() || (s.Leader() != 0 && w.allCaughtUp()) })
	if w.fatal() {
		return
	}
	lead := s.Leader()
	if lead == 0 {
		w.violate("C15", "no leader after a fault-free period of 12 election timeouts with all members running", s.StatusLine(), map[string]string{"oracle": "eventual-leader", "membership": w.membershipTag()})
		return
	}
	// exactly one leader
	n := 0
	for _, id := range s.IDs() {
		if s.Nodes[id].R.Status().State == raft.Leader {
			n++
		}
	}
	if n != 1 {
		w.violate("C15", "not exactly one leader after the fault-free period", s.StatusLine(), map[string]string{"oracle": "one-leader-eventually", "membership": w.membershipTag()})
	}
	// a fresh operation completes
	before := len(w.Ops)
	w.submit("rep", lead, 0, false)
	op := w.Ops[before]
	s.Run(6*et, 5*time.Millisecond, func() bool { w.mu.Lock(); defer w.mu.Unlock(); return op.Done || w.fatal() })
	if w.fatal() {
		return
	}
	w.mu.Lock()
	done, errS := op.Done, op.Err
	w.mu.Unlock()
	if !done || errS != "" {
		w.violate("C15", "a fresh replicated operation did not complete in the fault-free period", fmt.Sprintf("op done=%v err=%q; %s", done, errS, s.StatusLine()),
			map[string]string{"oracle": "progress", "membership": w.membershipTag()})
	}
	ok = s.Run(8*et, 5*time.Millisecond, func() bool { return w.fatal() || w.allCaughtUp() })
	if w.fatal() {
		return
	}
	if !ok {
		diag := ""
		if l := s.Leader(); l != 0 {
			vs := s.Nodes[l].R.VerifGetState()
			for id, f := range vs.Followers {
				diag += fmt.Sprintf(" fol[%s next=%d match=%d snapOpen=%v]", id, f.NextIndex, f.MatchIndex, f.SnapshotOpen)
			}
			diag += fmt.Sprintf(" leader: si=%d log=%s", vs.LastIncludedIndex, s.Nodes[l].LogOf().String())
		}
		for _, id := range s.IDs() {
			vs := s.Nodes[id].R.VerifGetState()
			diag += fmt.Sprintf(" | node %d: si=%d snapshotOpen=%v(label %d) log=%s", id, vs.LastIncludedIndex, vs.SnapshotOpen, vs.SnapshotMetadata.LastIncludedIndex, s.Nodes[id].LogOf().String())
		}
		diag += fmt.Sprintf(" | pending=%d blocked=%d", len(s.PendingCalls()), len(s.Blocked))
		w.violate("C15", "a running member did not reach the leader's applied sequence in the fault-free period", s.StatusLine()+" | "+w.appliedSummary()+" |"+diag,
			map[string]string{"oracle": "catch-up", "membership": w.membershipTag(), "snapshots": fmt.Sprint(s.Opts.SnapEvery > 0), "pattern": w.catchUpPattern()})
	}
}

// catchUpPattern tells a replica that is behind from one that has reached the leader's applied
// index with a different state (which no amount of time repairs: the consequence of an inexact
// snapshot, C10 findings S9/S20).
func (w *World) catchUpPattern() string {
	lead := w.S.Leader()
	if lead == 0 {
		return "no-leader"
	}
	la := w.S.Nodes[lead].R.Status().LastApplied
	ls := w.S.Nodes[lead].FSM.State()
	behind, differs := false, false
	cfg := w.S.Nodes[lead].R.Configuration()
	for _, id := range w.S.IDs() {
		if _, member := cfg.Members[ID(id)]; !member {
			continue // like allCaughtUp: a node that is not (or no longer) a member owes nothing
		}
		st := w.S.Nodes[id].R.Status()
		fs := w.S.Nodes[id].FSM.State()
		if st.LastApplied < la {
			behind = true
		} else if fs.Hash != ls.Hash || fs.Count != ls.Count {
			differs = true
		}
	}
	switch {
	case differs && !behind:
		return "state-differs-at-equal-applied-index"
	case differs:
		return "behind-and-state-differs"
	default:
		return "behind"
	}
}

func (w *World) appliedSummary() string {
	var parts []string
	for _, id := range w.S.IDs() {
		st := w.S.Nodes[id].FSM.State()
		parts = append(parts, fmt.Sprintf("%d:count=%d last=%d hash=%s", id, st.Count, st.LastIndex, st.Hash))
	}
	return strings.Join(parts, " ")
}

func (w *World) allCaughtUp() bool {
	lead := w.S.Leader()
	if lead == 0 {
		return false
	}
	ls := w.S.Nodes[lead].FSM.State()
	lst := w.S.Nodes[lead].R.Status()
	if lst.LastApplied != lst.CommitIndex {
		return false
	}
	cfg := w.S.Nodes[lead].R.Configuration()
	for _, id := range w.S.IDs() {
		if _, member := cfg.Members[ID(id)]; !member {
			continue
		}
		st := w.S.Nodes[id].FSM.State()
		if st.Hash != ls.Hash || st.Count != ls.Count {
			return false
		}
	}
	return true
}

// trackMixing collects, per node, the received snapshot files into which the handler of a request
// with a different label wrote or which it closed (the known defect S20), and reports the event.
func (w *World) trackMixing() {
	for _, id := range w.S.IDs() {
		for _, m := range w.S.Nodes[id].Rec.TakeMixed() {
			if w.tainted == nil {
				w.tainted = map[uint64]map[[2]uint64]bool{}
			}
			if w.tainted[id] == nil {
				w.tainted[id] = map[[2]uint64]bool{}
			}
			w.tainted[id][m.File] = true
			w.note("node %d: the handler of a chunk labelled (%d,t%d) did a %s on the file received for (%d,t%d)", id, m.Req[0], m.Req[1], m.Op, m.File[0], m.File[1])
			w.violate("C11", "a chunk of one snapshot was accepted into the received file of another",
				fmt.Sprintf("node %d: file for (%d,t%d), %s by the handler of a chunk of (%d,t%d)", id, m.File[0], m.File[1], m.Op, m.Req[0], m.Req[1]),
				map[string]string{"oracle": "chunks-exact", "pattern": "chunk-of-other-snapshot-accepted"})
		}
	}
}

// checkChunk: C10/C11 — the bytes an InstallSnapshot request carries are the bytes, at that offset, of a
// snapshot of the sender that is labelled as the request says (label and content travel together).
func (w *World) checkChunk(c *Call) {
	if w.chunkSeen == nil {
		w.chunkSeen = map[*Call]bool{}
	}
	if w.chunkSeen[c] || len(c.IS.Bytes) == 0 {
		return
	}
	w.chunkSeen[c] = true
	n := w.S.Nodes[c.From]
	if n == nil || n.Inc != c.FromInc {
		return // sent by an incarnation that has crashed since: its directory is not observable any more
	}
	dir := filepath.Join(n.Dir, "snapshots")
	ents, _ := os.ReadDir(dir)
	labelled := 0
	for _, e := range ents {
		if !e.IsDir() || !strings.HasPrefix(e.Name(), "snapshot-") {
			continue
		}
		var meta raft.SnapshotMetadata
		md, err := os.ReadFile(filepath.Join(dir, e.Name(), "metadata.json"))
		if err != nil || json.Unmarshal(md, &meta) != nil {
			continue
		}
		if meta.LastIncludedIndex != c.IS.LastIncludedIndex || meta.LastIncludedTerm != c.IS.LastIncludedTerm {
			continue
		}
		labelled++
		data, err := os.ReadFile(filepath.Join(dir, e.Name(), "snapshot.bin"))
		if err == nil && int64(len(data)) >= c.IS.Offset+int64(len(c.IS.Bytes)) && bytes.Equal(data[c.IS.Offset:c.IS.Offset+int64(len(c.IS.Bytes))], c.IS.Bytes) {
			return
		}
	}
	w.violate("C10", "an InstallSnapshot request carries bytes that are not the bytes of a snapshot of the sender with the label the request gives",
		fmt.Sprintf("%s: the sender (node %d) holds %d snapshot(s) labelled (%d,t%d), none has these %d bytes at offset %d", c, c.From, labelled, c.IS.LastIncludedIndex, c.IS.LastIncludedTerm, len(c.IS.Bytes), c.IS.Offset),
		map[string]string{"oracle": "chunk-belongs-to-label"})
}

// checkCompaction: C11 — what a log no longer holds is covered by a visible snapshot of that node (a
// compaction never goes beyond the newest snapshot's label). Evaluated after every action.
func (w *World) checkCompaction() {
	if w.S.Opts.SnapEvery == 0 {
		return
	}
	for _, id := range w.S.IDs() {
		base, _, ok := raft.VerifLogBaseOf(w.S.Nodes[id].RawLog)
		if !ok || base == 0 {
			continue
		}
		dir := filepath.Join(w.S.Nodes[id].Dir, "snapshots")
		ents, _ := os.ReadDir(dir)
		var newest uint64
		for _, e := range ents {
			if !e.IsDir() || !strings.HasPrefix(e.Name(), "snapshot-") {
				continue
			}
			var meta raft.SnapshotMetadata
			if md, err := os.ReadFile(filepath.Join(dir, e.Name(), "metadata.json")); err == nil && json.Unmarshal(md, &meta) == nil && meta.LastIncludedIndex > newest {
				newest = meta.LastIncludedIndex
			}
		}
		if base > newest {
			w.violate("C11", "the log was trimmed beyond the newest visible snapshot: the entries in between exist nowhere on this node",
				fmt.Sprintf("node %d: log starts after index %d, newest visible snapshot is labelled %d", id, base, newest),
				map[string]string{"oracle": "compaction-covered-by-snapshot"})
		}
	}
}

// checkSnapshots: C10 — every snapshot on any disk holds exactly the operations up to its label.
func (w *World) checkSnapshots() {
	if w.S.Opts.SnapEvery == 0 {
		return
	}
	_, idx := w.authoritative()
	for _, id := range w.S.IDs() {
		dir := filepath.Join(w.S.Nodes[id].Dir, "snapshots")
		ents, _ := os.ReadDir(dir)
		for _, e := range ents {
			if !e.IsDir() || !strings.HasPrefix(e.Name(), "snapshot-") {
				continue
			}
			md, err1 := os.ReadFile(filepath.Join(dir, e.Name(), "metadata.json"))
			data, err2 := os.ReadFile(filepath.Join(dir, e.Name(), "snapshot.bin"))
			if err1 != nil || err2 != nil {
				continue
			}
			var meta raft.SnapshotMetadata
			var st FSMState
			if json.Unmarshal(md, &meta) != nil {
				continue
			}
			if err := json.Unmarshal(data, &st); err != nil {
				pat := "incomplete"
				if w.tainted[id][[2]uint64{meta.LastIncludedIndex, meta.LastIncludedTerm}] {
					// the scheduler saw a chunk of another snapshot go into this very file (S20)
					pat = "mixed-chunks"
				}
				w.violate("C10", "a visible snapshot does not hold a complete state machine image", fmt.Sprintf("node %d %s: %v (%d bytes)", id, e.Name(), err, len(data)),
					map[string]string{"oracle": "snapshot-exact", "pattern": pat})
				continue
			}
			// the configuration a snapshot carries is the one committed at its label: never one whose
			// entry lies beyond the label (it may never commit), never one a log contradicts
			if rc, err := codec.DecodeConfiguration(meta.Configuration); err == nil {
				sc := CfgFromRaft(&rc)
				if sc.Index > meta.LastIncludedIndex {
					w.violate("C10", "a snapshot carries a configuration from beyond its label",
						fmt.Sprintf("node %d %s: label %d, configuration %s (index %d)", id, e.Name(), meta.LastIncludedIndex, sc.String(), sc.Index),
						map[string]string{"oracle": "snapshot-configuration", "pattern": "beyond-label"})
				} else {
					for _, oid := range w.S.IDs() {
						lg := w.S.Nodes[oid].LogOf()
						if x := lg.Get(sc.Index); x != nil && x.Kind == 2 && x.Cfg != nil && x.Cfg.String() != sc.String() && sc.Index <= w.S.Nodes[oid].R.Status().CommitIndex {
							w.violate("C10", "a snapshot carries a configuration that differs from the committed entry at its index",
								fmt.Sprintf("node %d %s: label %d, configuration %s; node %d holds %s committed at that index", id, e.Name(), meta.LastIncludedIndex, sc.String(), oid, x.Cfg.String()),
								map[string]string{"oracle": "snapshot-configuration", "pattern": "differs-from-log"})
						}
					}
				}
			}
			var want []uint64
			for _, i := range idx {
				if i <= meta.LastIncludedIndex {
					want = append(want, i)
				}
			}
			if fmt.Sprint(want) != fmt.Sprint(st.Indices) && !(len(want) == 0 && len(st.Indices) == 0) {
				pat := "content-behind-label"
				if len(st.Indices) > 0 && st.Indices[len(st.Indices)-1] > meta.LastIncludedIndex {
					pat = "content-beyond-label"
				}
				w.violate("C10", "a snapshot's content is not the effect of exactly the committed operations up to its label",
					fmt.Sprintf("node %d %s label=%d content indices=%v expected=%v", id, e.Name(), meta.LastIncludedIndex, st.Indices, want),
					map[string]string{"oracle": "snapshot-exact", "pattern": pat})
			}
		}
	}
}

var _ = errors.New

func TestE4Walks(t *testing.T) {
	profName := os.Getenv("VERIF_PROFILE")
	if profName == "" {
		profName = "static"
	}
	prof, ok := profiles[profName]
	if !ok {
		t.Fatalf("unknown profile %s", profName)
	}
	rep := NewReport("E4-walks-" + profName)
	rep.Rule = "seeded random walks of the scheduler over 1-5 real nodes in a synctest bubble (virtual time, parked transport, real file storage): deliver/hold/lose/duplicate calls, advance time, client writes and reads at any node, partitions (two- and one-way), crashes with directory images and restarts, profile-specific membership changes / snapshots / delay bounds; all property oracles evaluated after every action and after a final fault-free period; non-trivial = the walk issued client operations; distinct by (profile, seed, walk)"
	defer rep.Write()
	walks := EnvInt("VERIF_WALKS", 20)
	actions := EnvInt("VERIF_ACTIONS", 400)
	shard, shards := EnvInt("VERIF_SHARD", 0), EnvInt("VERIF_SHARDS", 1)
	for k := 0; k < walks; k++ {
		if k%shards != shard {
			continue
		}
		// if the code under test exits the process (logger.Fatal), this file says in which walk
		os.WriteFile(os.Getenv("VERIF_OUT")+".current", []byte(fmt.Sprintf("walk profile=%s seed=%d walk=%d actions=%d", profName, Seed(), k, actions)), 0o644)
		runWalk(t, rep, prof, Seed(), k, actions)
		rep.Write()
	}
	os.Remove(os.Getenv("VERIF_OUT") + ".current")
}

func sortedKeys[V any](m map[uint64]V) []uint64 {
	ks := make([]uint64, 0, len(m))
	for k := range m {
		ks = append(ks, k)
	}
	sort.Slice(ks, func(i, j int) bool { return ks[i] < ks[j] })
	return ks
}
