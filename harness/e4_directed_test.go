package harness

import (
	"path/filepath"
	"fmt"
	"os"
	"strings"
	"testing"
	"testing/synctest"
	"time"

	"github.com/jmsadair/raft"
)

// Directed schedules: every confirmed finding of DESIGN.md 1.1 that is still present, and
// the witnesses of the defects that were repaired (they must stay silent).

func newWorld(t *testing.T, rep *Report, name string, root string, opts SimOpts, boot []uint64) *World {
	s := NewSim(root, opts)
	w := &World{S: s, rng: NewRng(Seed()), rep: rep, prof: "directed", leaders: map[uint64]map[uint64]bool{}, firstLead: map[[2]uint64]bool{},
		crashed: map[uint64]string{}, crashLogs: map[uint64]LogSt{}, incs: map[uint64]int{}, maxTermSeen: map[uint64]uint64{},
		violated: map[string]bool{}, members: map[uint64]bool{}, walkID: "directed scenario " + name, scenario: name}
	w.voters = boot
	for _, id := range boot {
		if _, err := s.Boot(id, "", 0, boot); err != nil {
			t.Fatal(err)
		}
	}
	for _, id := range boot {
		s.Start(id)
	}
	return w
}

// auto: for d of virtual time deliver and answer what `allow` admits (failing the rest), stop when until() holds.
func (w *World) auto(d time.Duration, allow func(*Call) bool, until func() bool) bool {
	end := time.Now().Add(d)
	for time.Now().Before(end) {
		if until != nil && until() {
			return true
		}
		for {
			cs := w.S.Take(func(*Call) bool { return true })
			if len(cs) == 0 {
				break
			}
			for _, c := range cs {
				if w.S.IsCut(c.From, c.To) || (allow != nil && !allow(c)) {
					w.note("fail %s", c)
					w.S.Fail(c)
					continue
				}
				if c.Kind == "IS" {
					sleepToResidue(500)
				}
				w.S.Deliver(c)
				w.note("deliver+reply %s -> %s", c, respString(c))
				if c.HandlerReturned() {
					w.S.Reply(c)
				} else {
					w.S.Blocked = append(w.S.Blocked, c)
				}
			}
			var still []*Call
			for _, c := range w.S.Blocked {
				if c.HandlerReturned() {
					w.S.Reply(c)
				} else {
					still = append(still, c)
				}
			}
			w.S.Blocked = still
		}
		time.Sleep(time.Millisecond)
		synctest.Wait()
		w.observe()
	}
	return until != nil && until()
}

func (w *World) waitLeader(d time.Duration) uint64 {
	w.auto(d, nil, func() bool { return w.S.Leader() != 0 })
	return w.S.Leader()
}

func (w *World) lastOp() *ClientOp { return w.Ops[len(w.Ops)-1] }
func (w *World) opDone(op *ClientOp) bool {
	w.mu.Lock()
	defer w.mu.Unlock()
	return op.Done
}
func (w *World) others(x uint64) []uint64 {
	var out []uint64
	for _, id := range w.S.IDs() {
		if id != x {
			out = append(out, id)
		}
	}
	return out
}

var scenarios = map[string]func(t *testing.T, rep *Report, root string){
	// S6: a heartbeat round sent before the read confirms the read
	"S6-read-confirmed-by-older-round": func(t *testing.T, rep *Report, root string) {
		w := newWorld(t, rep, "S6-read-confirmed-by-older-round", root, SimOpts{}, []uint64{1, 2, 3})
		L := w.waitLeader(3 * time.Second)
		w.submit("rep", L, 0, false)
		w.auto(300*time.Millisecond, nil, nil)
		// a fresh heartbeat round: deliver, hold the replies
		var held []*Call
		for len(held) < 2 {
			time.Sleep(time.Millisecond)
			synctest.Wait()
			for _, c := range w.S.Take(func(c *Call) bool { return c.From == L && c.Kind == "AE" }) {
				w.S.Deliver(c)
				w.note("deliver (reply held) %s", c)
				held = append(held, c)
			}
		}
		for _, o := range w.others(L) {
			w.S.Sever(L, o)
		}
		w.auto(4*time.Second, nil, func() bool { l := w.S.Leader(); return l != 0 && l != L && w.S.Nodes[l].R.Status().Term > w.S.Nodes[L].R.Status().Term })
		var L2 uint64
		for _, o := range w.others(L) {
			if w.S.Nodes[o].R.Status().State == raft.Leader {
				L2 = o
			}
		}
		w.submit("rep", L2, 0, false)
		w1 := w.lastOp()
		w.auto(500*time.Millisecond, nil, func() bool { return w.opDone(w1) })
		w.submit("lin", L, 0, false)
		for _, c := range w.S.Take(func(c *Call) bool { return c.From == L }) {
			w.S.Fail(c)
		}
		for _, c := range held {
			w.note("late reply %s -> %s", c, respString(c))
			w.S.Reply(c)
		}
		w.auto(100*time.Millisecond, nil, nil)
		w.observe()
		w.S.StopAll()
	},
	// S28: read registered with a commit index taken before the first commit of the term
	"S28-read-index-before-first-commit": func(t *testing.T, rep *Report, root string) {
		w := newWorld(t, rep, "S28-read-index-before-first-commit", root, SimOpts{}, []uint64{1, 2, 3})
		L := w.waitLeader(3 * time.Second)
		F := w.others(L)[0]
		G := w.others(L)[1]
		w.submit("rep", L, 0, false)
		w0 := w.lastOp()
		w.auto(300*time.Millisecond, nil, func() bool { return w.opDone(w0) })
		w.auto(100*time.Millisecond, nil, nil)
		// F's state machine becomes slow: the next apply parks
		w.S.Nodes[F].FSM.GateApply = make(chan struct{})
		w.submit("rep", L, 0, false)
		w1 := w.lastOp()
		// w1 is replicated to F and G and acknowledged, but F never hears that it is committed
		w.auto(300*time.Millisecond, func(c *Call) bool { return !(c.From == L && c.To == F && c.AE != nil && c.AE.LeaderCommit >= 4) }, func() bool { return w.opDone(w1) })
		// the leader disappears; F wins the next election; its first AppendEntries are held back
		w.S.Sever(L, F)
		w.S.Sever(L, G)
		w.auto(5*time.Second, func(c *Call) bool { return !(c.From == G && c.Kind == "RV") && !(c.From == F && c.Kind == "AE") },
			func() bool { return w.S.Nodes[F].R.Status().State == raft.Leader })
		if w.S.Nodes[F].R.Status().State != raft.Leader {
			rep.Notes = append(rep.Notes, "S28: F did not become leader")
		}
		// read right after the election, before the no-op of the term is committed
		w.note("status before the read: %s", w.S.StatusLine())
		w.submit("lin", F, 0, false)
		rd := w.lastOp()
		w.auto(500*time.Millisecond, nil, func() bool { return w.opDone(rd) })
		if os.Getenv("VERIF_DEBUG") != "" {
			fmt.Println(strings.Join(w.Trace, "\n"))
			fmt.Printf("read: %+v\n", *rd)
			fmt.Println(w.S.StatusLine(), w.appliedSummary())
		}
		close(w.S.Nodes[F].FSM.GateApply)
		w.S.Nodes[F].FSM.GateApply = nil
		w.auto(100*time.Millisecond, nil, nil)
		w.observe()
		w.S.StopAll()
	},
	// S8: an isolated node left in Candidate state deposes a healthy leader when it rejoins
	"S8-stale-candidate-deposes-leader": func(t *testing.T, rep *Report, root string) {
		w := newWorld(t, rep, "S8-stale-candidate-deposes-leader", root, SimOpts{}, []uint64{1, 2, 3})
		// let node 1 win a prevote, then isolate it before any real vote arrives
		var X uint64
		w.auto(3*time.Second, func(c *Call) bool { return c.Kind == "RV" && c.RV.Prevote }, func() bool {
			for _, id := range w.S.IDs() {
				if w.S.Nodes[id].R.Status().State == raft.Candidate {
					X = id
					return true
				}
			}
			return false
		})
		if X == 0 {
			rep.Notes = append(rep.Notes, "S8: no candidate emerged")
			w.S.StopAll()
			return
		}
		for _, o := range w.others(X) {
			w.S.Sever(X, o)
		}
		// the other two form a healthy majority
		w.auto(4*time.Second, nil, func() bool { l := w.S.Leader(); return l != 0 && l != X })
		L := w.S.Leader()
		w.submit("rep", L, 0, false)
		w.auto(3*time.Second, nil, nil)
		t0 := w.S.Nodes[L].R.Status().Term
		w.healthyLeader, w.healthyTerm = L, t0
		w.note("healthy leader %d in term %d; node %d isolated in term %d", L, t0, X, w.S.Nodes[X].R.Status().Term)
		w.S.HealAll()
		w.auto(1*time.Second, nil, nil)
		st := w.S.Nodes[L].R.Status()
		if st.State != raft.Leader || st.Term != t0 {
			w.violate("C16", "a leader in prompt contact with a majority stepped down or the majority's term increased when an isolated node rejoined",
				fmt.Sprintf("leader %d term %d before rejoin; after: %s", L, t0, w.S.StatusLine()),
				map[string]string{"oracle": "no-disruption", "outsider": "was-candidate-when-isolated"})
		}
		w.S.StopAll()
	},
	// S15: a sole voter with a non-voter never regains leadership after a restart
	"S15-sole-voter-with-nonvoter": func(t *testing.T, rep *Report, root string) {
		w := newWorld(t, rep, "S15-sole-voter-with-nonvoter", root, SimOpts{}, []uint64{1})
		w.waitLeader(2 * time.Second)
		w.submit("rep", 1, 0, false)
		w.auto(200*time.Millisecond, nil, nil)
		w.S.Boot(2, "", 0, nil)
		w.S.Start(2)
		w.submit("add", 1, 2, false)
		w.auto(1500*time.Millisecond, nil, nil)
		img := w.S.Crash(1)
		w.incs[1]++
		w.S.Restart(1, img, 1)
		w.prof = "directed-nonvoter"
		w.quiet()
		w.S.StopAll()
	},
	// S27: a member whose addition is committed by a successor of the leader that proposed it never gets any entry
	"S27-added-member-starves-after-leader-change": func(t *testing.T, rep *Report, root string) {
		w := newWorld(t, rep, "S27-added-member-starves-after-leader-change", root, SimOpts{}, []uint64{1, 2, 3})
		L := w.waitLeader(3 * time.Second)
		B := w.others(L)[0]
		w.submit("rep", L, 0, false)
		w.auto(300*time.Millisecond, nil, nil)
		w.S.Boot(4, "", 0, nil)
		w.S.Start(4)
		w.submit("add", L, 4, false)
		// the configuration entry reaches B only; then the leader dies
		for _, c := range w.S.Take(func(c *Call) bool { return true }) {
			if c.From == L && c.To == B && c.Kind == "AE" && len(c.AE.Entries) > 0 {
				w.S.Deliver(c)
				w.note("deliver+reply %s -> %s", c, respString(c))
				w.S.Reply(c)
			} else {
				w.S.Fail(c)
			}
		}
		w.crashLogs[L] = w.S.Nodes[L].LogOf()
		w.S.Crash(L)
		w.note("crash node %d", L)
		w.auto(6*time.Second, nil, func() bool { return w.S.Leader() != 0 })
		w.quiet()
		w.S.StopAll()
	},
	// S14: a snapshot of 32 KiB or more whose last reply is lost: the follower has it, answers
	// "nothing new" with BytesWritten 0, and the leader alternates between offset 0 and the end
	// of the file for ever; the follower never receives another entry
	"S14-snapshot-retransmission-never-ends": func(t *testing.T, rep *Report, root string) {
		w := newWorld(t, rep, "S14-snapshot-retransmission-never-ends", root, SimOpts{SnapEvery: 5, PadBytes: 40000}, []uint64{1, 2, 3})
		L := w.waitLeader(3 * time.Second)
		F := w.others(L)[0]
		w.submit("rep", L, 0, false)
		w.auto(300*time.Millisecond, nil, nil)
		// F is cut off while the leader writes, snapshots and compacts
		w.S.Sever(L, F)
		w.S.Sever(w.others(L)[1], F)
		for i := 0; i < 9; i++ {
			w.submit("rep", L, 0, false)
			w.auto(100*time.Millisecond, nil, nil)
		}
		w.auto(500*time.Millisecond, nil, nil)
		w.S.HealAll()
		// the snapshot reaches F completely; the reply to the request that completes it is lost
		lost := false
		w.auto(3*time.Second, func(c *Call) bool {
			if !lost && c.Kind == "IS" && c.To == F && c.IS.Done {
				sleepToResidue(500)
				w.S.Deliver(c)
				w.note("deliver, reply lost: %s -> %s", c, respString(c))
				if !c.HandlerReturned() {
					w.S.Blocked = append(w.S.Blocked, c)
					for i := 0; i < 200 && !c.HandlerReturned(); i++ {
						time.Sleep(time.Millisecond)
						synctest.Wait()
					}
				}
				if vs := w.S.Nodes[F].R.VerifGetState(); vs.LastIncludedIndex >= c.IS.LastIncludedIndex {
					lost = true // installed by this very request: its reply is lost
				} else if c.HandlerReturned() {
					w.S.Reply(c)
				}
				return false // Fail(c): the caller sees a transport error
			}
			return true
		}, func() bool { return lost })
		w.note("--- from here on nothing is lost (installed at F: %v) ---", lost)
		w.quiet()
		if os.Getenv("VERIF_DEBUG") != "" {
			fmt.Println(strings.Join(w.Trace, "\n"))
			fmt.Println(w.S.StatusLine(), w.appliedSummary())
		}
		w.S.StopAll()
	},
	// S10: snapshot directories are named after the instant their writer was CREATED and the newest name is
	// "the most recent snapshot". A received snapshot whose file was created first (first chunk) and a local
	// snapshot created after it but finished later: which one does a restart restore from?
	"S10-local-snapshot-finishes-after-a-received-one": func(t *testing.T, rep *Report, root string) {
		w := newWorld(t, rep, "S10-local-snapshot-finishes-after-a-received-one", root, SimOpts{SnapEvery: 5, PadBytes: 40000}, []uint64{1, 2, 3})
		L := w.waitLeader(3 * time.Second)
		F, O := w.others(L)[0], w.others(L)[1]
		for i := 0; i < 2; i++ {
			w.submit("rep", L, 0, false)
			w.auto(100*time.Millisecond, nil, nil)
		}
		// F keeps receiving and committing, but its applies park: a backlog of committed, unapplied entries
		fsm := w.S.Nodes[F].FSM
		fsm.GateApply = make(chan struct{})
		for i := 0; i < 4; i++ {
			w.submit("rep", L, 0, false)
			w.auto(100*time.Millisecond, nil, nil)
		}
		// F is cut off; the leader writes on, snapshots and compacts beyond F's log
		w.S.Sever(L, F)
		w.S.Sever(O, F)
		for i := 0; i < 9; i++ {
			w.submit("rep", L, 0, false)
			w.auto(100*time.Millisecond, nil, nil)
		}
		w.auto(500*time.Millisecond, nil, nil)
		w.S.HealAll()
		// the first request of the transfer reaches F (the file is created), everything after it is lost for now
		first := false
		w.auto(3*time.Second, func(c *Call) bool {
			if c.Kind == "IS" && c.To == F {
				// (the sender's file position ran ahead while F was cut off: F first answers a request beyond its
				// offset with "I have 0 bytes", then the content arrives)
				if first {
					return false
				}
				if c.IS.Offset == 0 && !c.IS.Done {
					first = true
				}
				return true
			}
			return !(c.Kind == "AE" && c.To == F)
		}, func() bool { return first && w.S.Nodes[F].R.VerifGetState().SnapshotOpen })
		noTransfer := func(c *Call) bool { return !((c.Kind == "IS" || c.Kind == "AE") && c.To == F) }
		if !first || !w.S.Nodes[F].R.VerifGetState().SnapshotOpen {
			rep.Notes = append(rep.Notes, "S10: the first chunk did not open a file at F (scenario did not reach its window)")
			if os.Getenv("VERIF_DEBUG") != "" {
				fmt.Println(strings.Join(w.Trace, "\n"))
				fmt.Println(w.S.StatusLine())
			}
			w.S.StopAll()
			return
		}
		// F applies its backlog and starts a local snapshot, which parks inside Snapshot()
		fsm.GateSnapshot = make(chan struct{})
		close(fsm.GateApply)
		fsm.GateApply = nil
		parked := func() bool {
			fsm.mu.Lock()
			defer fsm.mu.Unlock()
			for _, p := range fsm.Parked {
				if p == "snapshot" {
					return true
				}
			}
			return false
		}
		w.auto(2*time.Second, noTransfer, parked)
		if !parked() {
			rep.Notes = append(rep.Notes, "S10: F did not start a local snapshot (scenario did not reach its window)")
			close(fsm.GateSnapshot)
			fsm.GateSnapshot = nil
			w.S.StopAll()
			return
		}
		// the rest of the transfer arrives: the received snapshot is published and installed
		w.auto(3*time.Second, nil, func() bool {
			return w.S.Nodes[F].R.VerifGetState().LastIncludedIndex >= w.S.Nodes[L].R.VerifGetState().LastIncludedIndex
		})
		inst := w.S.Nodes[F].R.VerifGetState().LastIncludedIndex
		// now the local snapshot finishes
		close(fsm.GateSnapshot)
		fsm.GateSnapshot = nil
		w.auto(500*time.Millisecond, nil, nil)
		w.note("F installed the snapshot labelled %d; snapshots on its disk: %d", inst, countSnapshots(w.S.Nodes[F].Dir))
		rep.Hit(fmt.Sprintf("S10:snapshots-on-disk:%d", countSnapshots(w.S.Nodes[F].Dir)))
		// what a restart makes of that directory
		img := w.S.Crash(F)
		w.incs[F]++
		if err := w.S.Restart(F, img, 1); err != nil {
			w.violate("C14", "creating and starting a node over the directory of a crashed node failed", fmt.Sprintf("node %d: %v", F, err),
				map[string]string{"oracle": "restart-total", "pattern": "older-snapshot-published-last"})
			w.S.StopAll()
			return
		}
		w.quiet()
		w.S.StopAll()
	},
	// S24: AddServer(leader itself, non-voting): the leader demotes itself, keeps leading, and keeps counting
	// itself ("matches := 1") when it decides what is committed
	"S24-leader-demotes-itself": func(t *testing.T, rep *Report, root string) {
		w := newWorld(t, rep, "S24-leader-demotes-itself", root, SimOpts{}, []uint64{1, 2, 3})
		w.prof = "churn"
		L := w.waitLeader(3 * time.Second)
		A, B := w.others(L)[0], w.others(L)[1]
		w.submit("rep", L, 0, false)
		w.auto(300*time.Millisecond, nil, nil)
		w.submit("add", L, L, false)
		d := w.lastOp()
		w.auto(2*time.Second, nil, func() bool { return w.opDone(d) })
		w.auto(300*time.Millisecond, nil, nil)
		cfg := w.S.Nodes[L].R.Configuration()
		st := w.S.Nodes[L].R.Status()
		if cfg.IsVoter[ID(L)] || st.State != raft.Leader {
			rep.Notes = append(rep.Notes, fmt.Sprintf("S24: the demotion was refused or the leader stepped down (voter=%v state=%v err=%q): nothing to observe", cfg.IsVoter[ID(L)], st.State, d.Err))
			w.S.StopAll()
			return
		}
		rep.Hit("S24:non-voting-leader")
		// B is cut off: of the two voters only A can store what the non-voting leader appends
		w.S.Sever(L, B)
		w.S.Sever(A, B)
		w.submit("rep", L, 0, false)
		x := w.lastOp()
		w.auto(2*time.Second, nil, func() bool { return w.opDone(x) })
		if w.opDone(x) && x.Err == "" {
			holders := 0
			for _, v := range []uint64{A, B} {
				if e := w.S.Nodes[v].LogOf().Get(x.Index); e != nil {
					holders++
				}
			}
			if holders < 2 {
				w.violate("C09", "a non-voting member counted toward commitment: an operation was acknowledged while stored on no majority of the voters",
					fmt.Sprintf("leader %d demoted itself to non-voter and kept leading; voters are %d and %d; operation at index %d acknowledged with %d of 2 voters holding it", L, A, B, x.Index, holders),
					map[string]string{"oracle": "non-voter-counts-for-commit", "pattern": "leader-demoted-itself"})
			}
		}
		w.S.StopAll()
	},
	// S21: a follower whose log is SHORTER than the snapshot it receives dies between the publication of the
	// snapshot and the discard of its log; restarted, its boundary lies beyond the end of its log
	"S21-crash-between-snapshot-publication-and-log-discard": func(t *testing.T, rep *Report, root string) {
		w := newWorld(t, rep, "S21-crash-between-snapshot-publication-and-log-discard", root, SimOpts{SnapEvery: 5}, []uint64{1, 2, 3})
		w.armed = map[uint64]bool{}
		L := w.waitLeader(3 * time.Second)
		F, O := w.others(L)[0], w.others(L)[1]
		w.submit("rep", L, 0, false)
		w.auto(300*time.Millisecond, nil, nil)
		w.S.Sever(L, F)
		w.S.Sever(O, F)
		for i := 0; i < 9; i++ {
			w.submit("rep", L, 0, false)
			w.auto(100*time.Millisecond, nil, nil)
		}
		w.auto(500*time.Millisecond, nil, nil)
		// F dies just before it discards its log (the snapshot it received is already published)
		w.S.ArmCrash(F, 1, "ld")
		w.armed[F] = true
		w.S.HealAll()
		w.auto(3*time.Second, nil, func() bool { return len(w.S.Tripped()) > 0 })
		if len(w.S.Tripped()) == 0 {
			rep.Notes = append(rep.Notes, "S21: the crash point did not fire (scenario did not reach its window)")
			w.S.Disarm(F)
			w.S.StopAll()
			return
		}
		w.collectTrips()
		rep.Hit("S21:crashed-before-discard")
		w.incs[F]++
		if err := w.restart(F, w.crashed[F]); err != nil {
			w.violate("C14", "creating and starting a node over the directory of a crashed node failed", fmt.Sprintf("node %d: %v", F, err), map[string]string{"oracle": "restart-total"})
			w.S.StopAll()
			return
		}
		delete(w.crashed, F)
		vs := w.S.Nodes[F].R.VerifGetState()
		w.note("restarted F: boundary %d, log %s", vs.LastIncludedIndex, w.S.Nodes[F].LogOf().String())
		w.quiet()
		w.observe()
		w.S.StopAll()
	},
	// S3: two removals back to back: the second is built from the un-updated configuration
	"S3-lost-removal": func(t *testing.T, rep *Report, root string) {
		w := newWorld(t, rep, "S3-lost-removal", root, SimOpts{}, []uint64{1, 2, 3, 4, 5})
		L := w.waitLeader(3 * time.Second)
		w.submit("rep", L, 0, false)
		w.auto(300*time.Millisecond, nil, nil)
		o := w.others(L)
		w.submit("remove", L, o[0], false)
		r1 := w.lastOp()
		w.submit("remove", L, o[1], false)
		r2 := w.lastOp()
		w.auto(2*time.Second, nil, func() bool { return w.opDone(r1) && w.opDone(r2) })
		w.auto(500*time.Millisecond, nil, nil)
		cfg := w.S.Nodes[L].R.Configuration()
		_, back := cfg.Members[ID(o[0])]
		if r2.Err != "pending" && back && !strings.Contains(r2.Err, "only one membership change") {
			w.violate("C09", "a removal that was accepted is undone by the next accepted membership change (lost update)",
				fmt.Sprintf("RemoveServer(%d) then RemoveServer(%d) both accepted (errors %q, %q); final configuration %v", o[0], o[1], r1.Err, r2.Err, cfg.Members),
				map[string]string{"oracle": "config-lost-update"})
		}
		w.S.StopAll()
	},
	// S9: the state machine is snapshotted with the lock released: the label is taken before the content
	"S9-snapshot-overlaps-apply": func(t *testing.T, rep *Report, root string) {
		w := newWorld(t, rep, "S9-snapshot-overlaps-apply", root, SimOpts{SnapEvery: 3}, []uint64{1})
		w.waitLeader(2 * time.Second)
		// the next Snapshot() call parks before it reads the state
		w.S.Nodes[1].FSM.GateSnapshot = make(chan struct{})
		w.submit("rep", 1, 0, false) // index 3: log size reaches the threshold, takeSnapshot labels the snapshot 3 and parks in Snapshot()
		w.auto(50*time.Millisecond, nil, nil)
		w.submit("rep", 1, 0, false) // index 4 is applied while the snapshot is parked
		w.auto(50*time.Millisecond, nil, nil)
		close(w.S.Nodes[1].FSM.GateSnapshot)
		w.S.Nodes[1].FSM.GateSnapshot = nil
		w.auto(100*time.Millisecond, nil, nil)
		w.observe()
		w.checkSnapshots()
		// restart: restore + replay must equal uninterrupted application
		img := w.S.Crash(1)
		w.incs[1]++
		w.S.Restart(1, img, 1)
		w.auto(2*time.Second, nil, nil)
		w.observe()
		w.S.StopAll()
	},
	// Stop() arrives while an acknowledged operation is inside StateMachine.Apply; the same Raft value is
	// restarted with the same state machine: every operation must reach that state machine exactly once
	"stop-during-apply-then-restart": func(t *testing.T, rep *Report, root string) {
		w := newWorld(t, rep, "stop-during-apply-then-restart", root, SimOpts{}, []uint64{1})
		w.waitLeader(2 * time.Second)
		n := w.S.Nodes[1]
		w.submit("rep", 1, 0, false)
		w.auto(100*time.Millisecond, nil, nil)
		n.FSM.GateApply = make(chan struct{})
		w.submit("rep", 1, 0, false) // committed at once (sole voter); its Apply parks
		w.auto(50*time.Millisecond, nil, nil)
		stopped := make(chan error, 1)
		go func() { n.R.Stop(); stopped <- nil }() // Stop waits for the apply loop
		time.Sleep(time.Millisecond)
		synctest.Wait()
		close(n.FSM.GateApply)
		n.FSM.GateApply = nil
		for i := 0; i < 5000; i++ {
			select {
			case <-stopped:
				i = 5000
			default:
				for _, c := range w.S.Take(func(*Call) bool { return true }) {
					w.S.Fail(c)
				}
				time.Sleep(time.Millisecond)
				synctest.Wait()
			}
		}
		if err := n.R.Restart(); err != nil {
			w.violate("C18", "Restart of a stopped node failed", err.Error(), map[string]string{"oracle": "restart-in-place"})
			w.S.StopAll()
			return
		}
		w.waitLeader(3 * time.Second)
		w.submit("rep", 1, 0, false)
		x := w.lastOp()
		w.auto(2*time.Second, nil, func() bool { return w.opDone(x) })
		w.observe()
		w.S.StopAll()
	},
	// a snapshot taken while a membership change is appended but not committed: it must carry the
	// committed configuration, not the one the leader already uses
	"snapshot-under-pending-membership-change": func(t *testing.T, rep *Report, root string) {
		w := newWorld(t, rep, "snapshot-under-pending-membership-change", root, SimOpts{SnapEvery: 3}, []uint64{1})
		w.prof = "churn"
		w.waitLeader(2 * time.Second)
		w.S.Nodes[1].FSM.GateApply = make(chan struct{})
		w.submit("rep", 1, 0, false) // committed at once (sole voter); its Apply parks
		w.auto(50*time.Millisecond, nil, nil)
		w.submit("add", 1, 2, true) // appended, adopted by the leader; node 2 does not exist: never committed
		w.auto(50*time.Millisecond, nil, nil)
		close(w.S.Nodes[1].FSM.GateApply)
		w.S.Nodes[1].FSM.GateApply = nil
		w.auto(300*time.Millisecond, nil, nil)
		w.checkSnapshots()
		if n := countSnapshots(w.S.Nodes[1].Dir); n == 0 {
			rep.Notes = append(rep.Notes, "snapshot-under-pending-membership-change: no snapshot was taken (scenario did not reach its window)")
		} else {
			rep.Hit("snapshot-under-pending-change:snapshots-seen")
		}
		w.S.StopAll()
	},
	// S4: nodes two configurations apart: two disjoint quorums, two operations at one index
	"S4-membership-two-apart": func(t *testing.T, rep *Report, root string) {
		w := newWorld(t, rep, "S4-membership-two-apart", root, SimOpts{}, []uint64{1, 2, 3})
		w.prof = "churn"
		L := w.waitLeader(3 * time.Second)
		B, C := w.others(L)[0], w.others(L)[1]
		w.submit("rep", L, 0, false)
		w.auto(300*time.Millisecond, nil, nil)
		// C1 = C0 + 4, replicated to L, B, 4; B must not learn the commit; C gets nothing
		w.S.Boot(4, "", 0, nil)
		w.S.Start(4)
		w.S.Sever(L, C)
		w.submit("add", L, 4, true)
		for _, c := range w.S.Take(func(c *Call) bool { return c.From == L }) {
			if c.Kind == "AE" && (c.To == B || c.To == 4) && len(c.AE.Entries) > 0 {
				w.S.Deliver(c)
				w.note("deliver+reply %s -> %s", c, respString(c))
				w.S.Reply(c)
			} else {
				w.S.Fail(c)
			}
		}
		w.S.Sever(L, B)
		w.S.Sever(4, B)
		w.S.Sever(4, C)
		notBC := func(c *Call) bool { return c.From != B && c.From != C && c.To != B && c.To != C }
		w.auto(400*time.Millisecond, notBC, nil)
		// C2 = C1 + 5 committed by L, 4, 5; then X committed by L, 4, 5
		w.S.Boot(5, "", 0, nil)
		w.S.Start(5)
		w.S.Sever(5, B)
		w.S.Sever(5, C)
		w.submit("add", L, 5, true)
		w.auto(time.Second, notBC, nil)
		w.submit("rep", L, 0, false)
		x := w.lastOp()
		w.auto(time.Second, notBC, func() bool { return w.opDone(x) })
		// B and C alone: B wins under C0 with 2 of 3 and commits Y at the same index
		onlyBC := func(c *Call) bool { return (c.From == B && c.To == C) || (c.From == C && c.To == B) }
		w.auto(10*time.Second, onlyBC, func() bool { return w.S.Nodes[B].R.Status().State == raft.Leader })
		w.submit("rep", B, 0, false)
		y := w.lastOp()
		w.auto(2*time.Second, func(c *Call) bool { return onlyBC(c) && !(c.Kind == "AE" && c.From == B && len(c.AE.Entries) == 1) }, func() bool { return w.opDone(y) })
		w.auto(300*time.Millisecond, func(c *Call) bool { return onlyBC(c) || notBC(c) }, nil)
		w.observe()
		w.S.StopAll()
	},
	// S20: a late chunk of an older snapshot lands in the file of a newer one
	"S20-snapshot-chunk-mixing": func(t *testing.T, rep *Report, root string) {
		s := NewSim(root, SimOpts{})
		n, err := s.Boot(1, "", 0, nil)
		if err != nil {
			t.Fatal(err)
		}
		s.Start(1)
		cfg, _ := codec.EncodeConfiguration((&Cfg{Index: 1, Members: [][2]uint64{{1, 1}, {2, 1}}}).ToRaft())
		var resp raft.InstallSnapshotResponse
		r1 := &raft.InstallSnapshotRequest{LeaderID: "2", Term: 2, LastIncludedIndex: 20, LastIncludedTerm: 2, Configuration: cfg, Bytes: []byte(`{"count":0,"last_index":0,"hash":"","indices":null}`), Offset: 0, Done: false}
		n.Tr.is(r1, &resp)
		r2 := &raft.InstallSnapshotRequest{LeaderID: "2", Term: 2, LastIncludedIndex: 10, LastIncludedTerm: 1, Configuration: cfg, Bytes: []byte{}, Offset: int64(len(r1.Bytes)), Done: true}
		func() {
			defer func() {
				if r := recover(); r != nil {
					rep.Notes = append(rep.Notes, fmt.Sprintf("S20: handler panicked: %v", r))
				}
			}()
			n.Tr.is(r2, &resp)
		}()
		synctest.Wait()
		sn, _ := raft.NewSnapshotStorage(n.Dir)
		f, _ := sn.SnapshotFile()
		if f != nil {
			md := f.Metadata()
			st := n.R.Status()
			if md.LastIncludedIndex != st.LastApplied || md.LastIncludedIndex == 20 {
				w := &World{S: s, rep: rep, violated: map[string]bool{}, walkID: "directed scenario S20-snapshot-chunk-mixing"}
				w.violate("C11", "interleaved chunks of two snapshots produced an installed snapshot that no sender had",
					fmt.Sprintf("chunk 0 of snapshot (20,t2), then a late empty last chunk of snapshot (10,t1) at the same offset: the file labelled %d was closed and installed, node reports lastApplied=%d", md.LastIncludedIndex, st.LastApplied),
					map[string]string{"oracle": "chunks-exact", "pattern": "chunk-of-other-snapshot-accepted"})
			}
			f.Close()
		}
		s.StopAll()
	},
	// S20, second face: the late chunk carries bytes; the file for the newer label is closed holding an
	// image followed by bytes of the other snapshot, is published, and is handed to Restore
	// (the library ends the process when Restore refuses it)
	"S20-mixed-chunks-unparsable": func(t *testing.T, rep *Report, root string) {
		s := NewSim(root, SimOpts{SnapEvery: 1000})
		var bad []string
		s.OnBadRestore = func(node uint64, size int, err error) {
			bad = append(bad, fmt.Sprintf("node %d: Restore was handed %d bytes that are not a state machine image: %v", node, size, err))
		}
		n, err := s.Boot(1, "", 0, nil)
		if err != nil {
			t.Fatal(err)
		}
		s.Start(1)
		w := &World{S: s, rep: rep, violated: map[string]bool{}, walkID: "directed scenario S20-mixed-chunks-unparsable"}
		cfg, _ := codec.EncodeConfiguration((&Cfg{Index: 1, Members: [][2]uint64{{1, 1}, {2, 1}}}).ToRaft())
		var resp raft.InstallSnapshotResponse
		r1 := &raft.InstallSnapshotRequest{LeaderID: "2", Term: 2, LastIncludedIndex: 20, LastIncludedTerm: 2, Configuration: cfg, Bytes: []byte(`{"count":0,"last_index":0,"hash":"","indices":null}`), Offset: 0, Done: false}
		n.Rec.SetIS(20, 2)
		n.Tr.is(r1, &resp)
		r2 := &raft.InstallSnapshotRequest{LeaderID: "2", Term: 2, LastIncludedIndex: 10, LastIncludedTerm: 1, Configuration: cfg, Bytes: []byte("cHBwcHBw"), Offset: int64(len(r1.Bytes)), Done: true}
		n.Rec.SetIS(10, 1)
		n.Tr.is(r2, &resp)
		n.Rec.ClearIS()
		synctest.Wait()
		w.trackMixing()
		w.checkSnapshots()
		if len(bad) > 0 {
			pat := "restore-unparsable"
			if len(w.tainted[1]) > 0 {
				pat = "restore-of-mixed-chunks"
			}
			w.violate("C10", "a state machine was restored from bytes that are not a state machine image", bad[0],
				map[string]string{"oracle": "snapshot-exact", "pattern": pat})
		}
		s.StopAll()
	},
}

func TestE4Directed(t *testing.T) {
	rep := NewReport("E4-directed")
	rep.Rule = "directed schedules replayed on real nodes: one per confirmed finding of DESIGN.md 1.1 (present or repaired); each run evaluates all property oracles; non-trivial = every scenario; distinct by scenario name"
	defer rep.Write()
	want := os.Getenv("VERIF_SCENARIOS")
	for name, fn := range scenarios {
		if want != "" && !strings.Contains(","+want+",", ","+name+",") {
			continue
		}
		root, _ := os.MkdirTemp(ScratchRoot(), "verif-e4d-")
		os.WriteFile(os.Getenv("VERIF_OUT")+".current", []byte("directed scenario "+name), 0o644)
		synctest.Test(t, func(t *testing.T) {
			time.Sleep(time.Hour)
			fn(t, rep, root)
		})
		os.RemoveAll(root)
		rep.Case("scenario "+name, true)
		rep.Hit(name)
		rep.Write()
	}
	os.Remove(os.Getenv("VERIF_OUT") + ".current")
}

func countSnapshots(nodeDir string) int {
	ents, _ := os.ReadDir(filepath.Join(nodeDir, "snapshots"))
	n := 0
	for _, e := range ents {
		if e.IsDir() && strings.HasPrefix(e.Name(), "snapshot-") {
			n++
		}
	}
	return n
}
