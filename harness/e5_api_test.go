package harness

import (
	"fmt"
	"os"
	"strings"
	"sync"
	"testing"
	"testing/synctest"
	"time"

	"github.com/jmsadair/raft"
)

// E5-api: words over the public API on one node ("subject") of a live three-node cluster:
// Bootstrap (valid / without the node / on a node that has state), Start, Restart, Stop in any
// order and repetition, a new object over the stopped node's directory, submissions of every
// operation type, AddServer / RemoveServer (incl. the node itself, unknown ids, empty ids),
// Status, Configuration and the String renderings of everything they return — in every state
// the cluster activity puts the subject in (follower, pre-candidate, candidate, leader,
// shutdown). Oracles (C18): no call panics; no call blocks for more than five virtual seconds;
// the process is not terminated (seen by the check as a dead engine); every future resolves
// within its timeout; a membership change submitted to a leader that is still leader when the
// entry is applied resolves successfully with a configuration containing the change.

type apiFut struct {
	kind     string
	invoked  time.Time
	timeout  time.Duration
	mu       sync.Mutex
	done     bool
	doneAt   time.Time
	err      string
	cfg      *raft.Configuration
	target   uint64
	voter    bool
	node     *SimNode
	leaderAt uint64 // term in which the submitting node was leader at submission (0: was not leader)
	termDone uint64 // the node's term when the future resolved
	already  bool   // the requested change was in force at the node when it was submitted
}

func TestE5API(t *testing.T) {
	rep := NewReport("E5-api")
	rep.Rule = "seeded words of 10-30 public API calls on one node of a live 3-node cluster (real nodes, virtual time, parked transport with prompt delivery between calls): Bootstrap valid/invalid, Start, Restart, Stop repeated and ill-ordered, new object over a stopped node's directory, SubmitOperation of all three types (and an invalid type), AddServer/RemoveServer with known, unknown, own and empty ids, Status, Configuration, String() of every state and operation type seen, time steps of 1-700 ms with partitions of the subject; oracles: no panic, no call blocked > 5 s virtual, every future resolved within its timeout (+50 ms), committed membership change answered successfully to a submitter that stayed leader; non-trivial = the word contains a lifecycle call; distinct by word"
	defer rep.Write()
	rng := NewRng(Seed() + 5151)
	n := EnvInt("VERIF_WORDS", 60)
	cur := os.Getenv("VERIF_OUT") + ".current"
	for w := 0; w < n; w++ {
		seed := rng.Next() % 1000000007
		runAPIWord(t, rep, seed, w, cur)
	}
	os.Remove(cur)
}

func runAPIWord(t *testing.T, rep *Report, seed uint64, widx int, cur string) {
	rng := NewRng(seed)
	root, _ := os.MkdirTemp(ScratchRoot(), "verif-e5-")
	defer os.RemoveAll(root)
	synctest.Test(t, func(t *testing.T) {
		time.Sleep(time.Hour)
		s := NewSim(root, SimOpts{})
		boot := []uint64{1, 2, 3}
		preBoot := rng.Chance(70) // otherwise the subject is created without Bootstrap and the word may call it
		for _, id := range boot {
			b := boot
			if id == 1 && !preBoot {
				b = nil
			}
			if _, err := s.Boot(id, "", 0, b); err != nil {
				t.Fatal(err)
			}
		}
		for _, id := range []uint64{2, 3} {
			s.Start(id)
		}
		subj := s.Nodes[1]
		started := false
		inc := 0
		var word []string
		var futs []*apiFut
		caseID := fmt.Sprintf("word seed=%d", seed)
		violate := func(oracle, detail string, sig map[string]string) {
			rep.Add(Finding{Kind: "oracle", Property: "C18", Oracle: oracle, Case: caseID, Detail: detail + "\nWORD: " + strings.Join(word, " ; "), Signature: sig})
		}
		// call runs one API call in its own goroutine: panics are caught, a call that does not
		// return within 5 virtual seconds (with the network serving promptly) is reported
		call := func(name string, f func()) bool {
			word = append(word, name)
			os.WriteFile(cur, []byte(caseID+" | "+strings.Join(word, " ; ")), 0o644)
			done := make(chan struct{})
			var pan interface{}
			go func() {
				defer close(done)
				defer func() {
					if r := recover(); r != nil {
						pan = r
					}
				}()
				f()
			}()
			synctest.Wait()
			for i := 0; i < 100; i++ {
				select {
				case <-done:
					if pan != nil {
						violate("a public API call panicked", fmt.Sprintf("%s: %v", name, pan), map[string]string{"oracle": "api-panic", "call": strings.Fields(name)[0]})
						return false
					}
					return true
				default:
				}
				s.Pump()
				time.Sleep(50 * time.Millisecond)
				synctest.Wait()
			}
			violate("a public API call did not return within 5 s of virtual time", name, map[string]string{"oracle": "api-blocked", "call": strings.Fields(name)[0]})
			return false
		}
		track := func(kind string, timeout time.Duration, target uint64, voter bool, await func() (string, *raft.Configuration)) {
			st := subj.R.Status()
			f := &apiFut{kind: kind, invoked: time.Now(), timeout: timeout, target: target, voter: voter, node: subj}
			if st.State == raft.Leader {
				f.leaderAt = st.Term
			}
			if kind == "add" || kind == "remove" {
				c := subj.R.Configuration()
				_, isM := c.Members[ID(target)]
				f.already = (kind == "remove" && !isM) || (kind == "add" && isM && c.IsVoter[ID(target)] == voter)
			}
			futs = append(futs, f)
			go func() {
				e, c := await()
				td := f.node.R.Status().Term
				f.mu.Lock()
				f.done, f.doneAt, f.err, f.cfg, f.termDone = true, time.Now(), e, c, td
				f.mu.Unlock()
			}()
		}
		nsteps := 10 + rng.Intn(21)
		lifecycle := false
		// half of the words begin with the subject running, a third of those with the subject as leader
		if preBoot && rng.Bool() {
			call("Start", func() {
				if err := subj.R.Start(); err == nil {
					started = true
					subj.Up = true
				}
			})
			s.Run(time.Second, 10*time.Millisecond, func() bool { return s.Leader() != 0 })
			if rng.Chance(65) {
				word = append(word, "make-leader")
				for round := 0; round < 8 && s.Leader() != 1; round++ {
					if l := s.Leader(); l != 0 {
						for _, o := range boot {
							if o != l {
								s.Sever(l, o)
							}
						}
					}
					s.Run(1200*time.Millisecond, 10*time.Millisecond, func() bool { l := s.Leader(); return l != 0 && !s.IsCut(l, 1) && !s.IsCut(l, l%3+1) })
					s.HealAll()
					s.Run(400*time.Millisecond, 10*time.Millisecond, nil)
				}
				if s.Leader() == 1 {
					rep.Hit("subject-leader-at-start")
				}
			}
		}
		for st := 0; st < nsteps; st++ {
			switch r := rng.Intn(100); {
			case r < 8:
				lifecycle = true
				name := "Start"
				if rng.Chance(25) {
					subj.Tr.FailRun = true
					name = "Start (transport cannot listen)"
					rep.Hit("start-with-failing-transport")
				}
				call(name, func() {
					subj.R.Start()
					// the code hands the transport's error back AFTER it has started the node: whether the node
					// runs is what Status() says, not what Start() returned
					if subj.R.Status().State != raft.Shutdown {
						started = true
						subj.Up = true
					}
				})
				subj.Tr.FailRun = false
			case r < 13:
				lifecycle = true
				name := "Restart"
				if rng.Chance(25) {
					subj.Tr.FailRun = true
					name = "Restart (transport cannot listen)"
					rep.Hit("start-with-failing-transport")
				}
				call(name, func() {
					subj.R.Restart()
					if subj.R.Status().State != raft.Shutdown {
						started = true
						subj.Up = true
					}
				})
				subj.Tr.FailRun = false
			case r < 21:
				lifecycle = true
				call("Stop", func() { subj.R.Stop(); started = false })
			case r < 26:
				lifecycle = true
				m := map[string]string{}
				kind := rng.Intn(3)
				switch kind {
				case 0:
					for _, b := range boot {
						m[ID(b)] = Addr(b)
					}
				case 1:
					m[ID(2)] = Addr(2)
				case 2:
					m[ID(1)] = Addr(1)
				}
				call(fmt.Sprintf("Bootstrap kind=%d", kind), func() { subj.R.Bootstrap(m) })
			case r < 29:
				// a new object over the directory of the stopped subject (what a process restart does)
				if !started {
					lifecycle = true
					inc++
					ok := call("NewRaft over the directory", func() {
						subj.RawLog.Close()
						n2, err := s.Boot(1, subj.Dir, inc, nil)
						if err != nil {
							violate("creating a node over the directory of a stopped node failed", err.Error(), map[string]string{"oracle": "restart-total"})
							return
						}
						subj = n2
					})
					_ = ok
				}
			case r < 45:
				typ := []raft.OperationType{raft.Replicated, raft.LinearizableReadOnly, raft.LeaseBasedReadOnly, raft.OperationType(7)}[rng.Intn(7)%4]
				to := time.Duration(100+rng.Intn(900)) * time.Millisecond
				var fut raft.Future[raft.OperationResponse]
				if call(fmt.Sprintf("SubmitOperation type=%d timeout=%v", typ, to), func() { fut = subj.R.SubmitOperation([]byte(fmt.Sprintf("w%d-%d", widx, st)), typ, to) }) && fut != nil {
					track("op", to, 0, false, func() (string, *raft.Configuration) {
						res := fut.Await()
						if res.Error() != nil {
							return res.Error().Error(), nil
						}
						_ = res.Success().Operation.OperationType.String()
						return "", nil
					})
				}
			case r < 55:
				id := []uint64{4, 2, 1, 5, 0}[rng.Intn(5)]
				voter := rng.Bool()
				to := time.Duration(200+rng.Intn(1500)) * time.Millisecond
				if id == 4 || id == 5 {
					if s.Nodes[id] == nil {
						if _, err := s.Boot(id, "", 0, nil); err == nil {
							s.Start(id)
						}
					}
				}
				var fut raft.Future[raft.Configuration]
				if call(fmt.Sprintf("AddServer id=%d voter=%v timeout=%v", id, voter, to), func() { fut = subj.R.AddServer(ID(id), Addr(id), voter, to) }) && fut != nil {
					track("add", to, id, voter, func() (string, *raft.Configuration) {
						res := fut.Await()
						if res.Error() != nil {
							return res.Error().Error(), nil
						}
						c := res.Success()
						_ = c.String()
						return "", &c
					})
				}
			case r < 63:
				id := []uint64{4, 2, 1, 3, 9, 0}[rng.Intn(6)]
				to := time.Duration(200+rng.Intn(1500)) * time.Millisecond
				var fut raft.Future[raft.Configuration]
				if call(fmt.Sprintf("RemoveServer id=%d timeout=%v", id, to), func() { fut = subj.R.RemoveServer(ID(id), to) }) && fut != nil {
					track("remove", to, id, false, func() (string, *raft.Configuration) {
						res := fut.Await()
						if res.Error() != nil {
							return res.Error().Error(), nil
						}
						c := res.Success()
						_ = c.String()
						return "", &c
					})
				}
			case r < 72:
				call("Status+String", func() {
					st := subj.R.Status()
					_ = st.State.String()
					_ = fmt.Sprintf("%v %s", st, st.State)
					rep.Hit("rendered-state:" + st.State.String())
				})
			case r < 78:
				call("Configuration+String", func() {
					c := subj.R.Configuration()
					_ = c.String()
					_ = c.Clone()
				})
			case r < 84:
				// isolate / reconnect the subject: it becomes pre-candidate, candidate, deposed leader ...
				if rng.Bool() {
					word = append(word, "isolate")
					s.Sever(1, 2)
					s.Sever(1, 3)
				} else {
					word = append(word, "heal")
					s.HealAll()
				}
			default:
				d := []time.Duration{time.Millisecond, 20 * time.Millisecond, 150 * time.Millisecond, 400 * time.Millisecond, 700 * time.Millisecond}[rng.Intn(5)]
				word = append(word, fmt.Sprintf("time+%v", d))
				s.Run(d, 10*time.Millisecond, nil)
			}
			s.Pump()
			synctest.Wait()
			for _, e := range s.Errors {
				violate("a handler panicked", e, map[string]string{"oracle": "handler-panic"})
			}
			s.Errors = nil
			// futures: resolved by the timeout
			now := time.Now()
			for _, f := range futs {
				f.mu.Lock()
				done := f.done
				f.mu.Unlock()
				if !done && now.Sub(f.invoked) > f.timeout+50*time.Millisecond {
					violate("a future did not resolve by its timeout", fmt.Sprintf("%s invoked %v ago, timeout %v", f.kind, now.Sub(f.invoked), f.timeout), map[string]string{"oracle": "future-resolves", "call": f.kind})
					f.mu.Lock()
					f.done = true
					f.mu.Unlock()
				}
			}
		}
		// let everything time out, then judge the membership futures
		s.HealAll()
		s.Run(2500*time.Millisecond, 10*time.Millisecond, nil)
		now := time.Now()
		for _, f := range futs {
			f.mu.Lock()
			done, ferr, cfg := f.done, f.err, f.cfg
			f.mu.Unlock()
			if !done && now.Sub(f.invoked) > f.timeout+50*time.Millisecond {
				violate("a future did not resolve by its timeout", fmt.Sprintf("%s invoked %v ago, timeout %v", f.kind, now.Sub(f.invoked), f.timeout), map[string]string{"oracle": "future-resolves", "call": f.kind})
			}
			if done && f.doneAt.Sub(f.invoked) > f.timeout+50*time.Millisecond {
				violate("a future resolved later than its timeout", fmt.Sprintf("%s resolved after %v, timeout %v", f.kind, f.doneAt.Sub(f.invoked), f.timeout), map[string]string{"oracle": "future-resolves", "call": f.kind})
			}
			if done {
				rep.Hit("future:" + f.kind + map[bool]string{true: ":error", false: ":ok"}[ferr != ""])
			}
			if done && ferr != "" && !strings.Contains(ferr, "timed out") && !strings.Contains(ferr, "timeout") && f.leaderAt != 0 && f.termDone == f.leaderAt && (f.kind == "add" || f.kind == "remove") && !f.already && f.doneAt.After(f.invoked) {
				// the submitter was leader and its term never moved: if the change is in force on the
				// rest of the cluster and nothing else in the word asked for it, it committed under this leader
				same := 0
				for _, g := range futs {
					if g.kind == f.kind && g.target == f.target && g.voter == f.voter {
						same++
					}
				}
				inForce := 0
				for _, id := range []uint64{2, 3} {
					if nd := s.Nodes[id]; nd != nil {
						c := nd.R.Configuration()
						_, isM := c.Members[ID(f.target)]
						if (f.kind == "remove" && !isM && len(c.Members) > 0) || (f.kind == "add" && isM && c.IsVoter[ID(f.target)] == f.voter) {
							inForce++
						}
					}
				}
				if same == 1 && inForce == 2 && f.target != 0 {
					violate("a membership change committed under the leader it was submitted to (its term never changed) but its future failed",
						fmt.Sprintf("%s target=%d: %s", f.kind, f.target, ferr), map[string]string{"oracle": "membership-future-success", "call": f.kind})
				}
			}
			if done && ferr == "" && cfg != nil {
				_, isM := cfg.Members[ID(f.target)]
				switch {
				case f.kind == "add" && (!isM || cfg.IsVoter[ID(f.target)] != f.voter):
					violate("a successful AddServer future reports a configuration without the requested change", cfg.String(), map[string]string{"oracle": "membership-answer", "call": "add"})
				case f.kind == "remove" && isM:
					violate("a successful RemoveServer future reports a configuration that still contains the server", cfg.String(), map[string]string{"oracle": "membership-answer", "call": "remove"})
				}
			}
		}
		rep.Case(caseID+" "+strings.Join(word, ";"), lifecycle)
		rep.Evaluations += len(word)
		s.StopAll()
		time.Sleep(time.Hour)
	})
}
