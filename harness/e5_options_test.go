package harness

// E5-options: the timing options a user may pass, on a real single-voter node in virtual time:
// every accepted combination starts, elects itself, serves and stops without a panic or a process
// exit (the election ticker draws from an interval computed from the election timeout), and the
// leader lease never reaches further into the future than the configured lease duration
// (C17's premise is about the duration the user configured, not one the library substituted).

import (
	"fmt"
	"os"
	"testing"
	"testing/synctest"
	"time"

	"github.com/jmsadair/raft"
)

func TestE5Options(t *testing.T) {
	rep := NewReport("E5-options")
	rep.Rule = "table of (election timeout, heartbeat interval, lease duration): election timeouts 1 ms, 2 ms, 3 ms, 7 ms, 50 ms, 300 ms x heartbeats 1 ms .. 100 ms x leases 1 ms .. 250 ms; each accepted combination: NewRaft, Bootstrap (sole voter), Start, run 30 election timeouts while writes and lease reads are submitted, Stop; oracles: no panic / process exit, the node becomes leader, at every observation lease expiration <= now + configured lease duration"
	defer rep.Write()
	root, _ := os.MkdirTemp(ScratchRoot(), "verif-e5o-")
	defer os.RemoveAll(root)
	ms := time.Millisecond
	ets := []time.Duration{1 * ms, 2 * ms, 3 * ms, 7 * ms, 50 * ms, 300 * ms}
	hbs := []time.Duration{1 * ms, 5 * ms, 50 * ms, 100 * ms}
	lds := []time.Duration{1 * ms, 30 * ms, 60 * ms, 100 * ms, 250 * ms}
	k := 0
	for _, et := range ets {
		for _, hb := range hbs {
			for _, ld := range lds {
				k++
				line := fmt.Sprintf("OPTIONS | et=%v hb=%v ld=%v", et, hb, ld)
				os.WriteFile(os.Getenv("VERIF_OUT")+".current", []byte(line), 0o644)
				rep.Case(line, true)
				dir := fmt.Sprintf("%s/c%d", root, k)
				synctest.Test(t, func(t *testing.T) {
					time.Sleep(time.Hour)
					s := NewSim(dir, SimOpts{ET: et, HB: hb, LD: ld})
					if _, err := s.Boot(1, "", 0, []uint64{1}); err != nil {
						rep.Hit("options-refused")
						return
					}
					rep.Hit("options-accepted")
					if err := s.Start(1); err != nil {
						rep.Add(Finding{Kind: "oracle", Property: "C18", Oracle: "Start failed with accepted options: " + err.Error(), Case: line, Signature: map[string]string{"oracle": "options-start"}})
						return
					}
					n := s.Nodes[1]
					led := false
					for i := 0; i < 60; i++ {
						time.Sleep(et / 2)
						synctest.Wait()
						s.Pump()
						vs := n.R.VerifGetState()
						if vs.State == raft.Leader {
							led = true
							if i%7 == 0 {
								n.R.SubmitOperation([]byte("w"), raft.Replicated, 50*ms)
								n.R.SubmitOperation([]byte("r"), raft.LeaseBasedReadOnly, 50*ms)
							}
							if over := vs.LeaseExpiration.Sub(time.Now()); over > ld {
								rep.Add(Finding{Kind: "oracle", Property: "C17", Oracle: fmt.Sprintf("the leader lease reaches %v into the future although the configured lease duration is %v", over, ld), Case: line,
									Signature: map[string]string{"oracle": "lease-within-configured-duration"}})
								break
							}
						}
					}
					if !led {
						rep.Add(Finding{Kind: "oracle", Property: "C15", Oracle: "a sole voter did not become leader within 30 election timeouts", Case: line, Signature: map[string]string{"oracle": "options-sole-voter-leads"}})
					}
					s.StopAll()
				})
			}
		}
	}
	// ---- late Await: a result that arrived within the timeout is what Await returns, whenever it is called
	os.WriteFile(os.Getenv("VERIF_OUT")+".current", []byte("LATE-AWAIT"), 0o644)
	synctest.Test(t, func(t *testing.T) {
		time.Sleep(time.Hour)
		s := NewSim(root+"/late", SimOpts{})
		if _, err := s.Boot(1, "", 0, []uint64{1}); err != nil {
			t.Fatal(err)
		}
		s.Start(1)
		s.Run(3*time.Second, 10*ms, func() bool { return s.Leader() == 1 })
		n := s.Nodes[1]
		for j := 0; j < 12; j++ {
			line := fmt.Sprintf("LATE-AWAIT | #%d", j)
			rep.Case(line, true)
			rep.Hit("late-await")
			term := n.R.Status().Term
			var await func() error
			what := "a replicated operation"
			if j%3 == 2 {
				what = "a membership change (AddServer of a non-voter)"
				f := n.R.AddServer(ID(uint64(20+j)), Addr(uint64(20+j)), false, 200*ms)
				await = func() error { return f.Await().Error() }
			} else {
				f := n.R.SubmitOperation([]byte(fmt.Sprintf("late-%d", j)), raft.Replicated, 200*ms)
				await = func() error { return f.Await().Error() }
			}
			// the sole voter commits and applies at once; the caller comes back for the result much later
			for i := 0; i < 8; i++ {
				time.Sleep(50 * ms)
				synctest.Wait()
				s.Pump()
			}
			st := n.R.Status()
			err := await()
			if err != nil && st.State == raft.Leader && st.Term == term {
				rep.Add(Finding{Kind: "oracle", Property: "C18", Oracle: fmt.Sprintf("%s committed and was applied within milliseconds at a node that stayed leader of the same term, its future (timeout 200 ms) was awaited 400 ms after the submission and returned: %v", what, err),
					Case: line, Signature: map[string]string{"oracle": "late-await-keeps-result"}})
				break
			}
		}
		s.StopAll()
	})
	os.Remove(os.Getenv("VERIF_OUT") + ".current")
}
