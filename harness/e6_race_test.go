package harness

import (
	stdnet "net"
	"encoding/binary"
	"errors"
	"fmt"
	"io"
	"math/rand"
	"os"
	"path/filepath"
	"sync"
	"sync/atomic"
	"testing"
	"time"

	"github.com/jmsadair/raft"
	"github.com/jmsadair/raft/logging"
)

// E6-race: the search engine of C20. Real time, real goroutines, the race detector compiled in
// (the check builds this binary with -race). Three nodes over real file storage with small
// election/heartbeat intervals and a snapshot threshold of a few entries; an in-process
// transport that pushes every message through the converters and protobuf marshalling the
// bundled transport uses (so requests in flight are read exactly the way the real transport
// reads them) and then calls the peer's registered handler; clients hammer the public API from
// many goroutines: submissions of all three types at every node, membership changes
// (add non-voter, promote, remove, re-add), Status/Configuration polling, Stop/Start/Restart of
// a node, Bootstrap on a running node. A race report of the detector fails the test; the check
// turns the report into the replay of a C20 violation.

type raceFSM struct {
	mu    sync.Mutex
	count uint64
	every int
}

func (f *raceFSM) Apply(op *raft.Operation) interface{} {
	f.mu.Lock()
	defer f.mu.Unlock()
	if op.OperationType == raft.Replicated {
		f.count++
	}
	return f.count
}
func (f *raceFSM) Snapshot(w io.Writer) error {
	f.mu.Lock()
	c := f.count
	f.mu.Unlock()
	var b [8]byte
	binary.BigEndian.PutUint64(b[:], c)
	_, err := w.Write(b[:])
	return err
}
func (f *raceFSM) Restore(r io.Reader) error {
	b, err := io.ReadAll(r)
	if err != nil {
		return err
	}
	f.mu.Lock()
	if len(b) >= 8 {
		f.count = binary.BigEndian.Uint64(b[:8])
	}
	f.mu.Unlock()
	return nil
}
func (f *raceFSM) NeedSnapshot(size int) bool { return f.every > 0 && size >= f.every }

type raceNet struct {
	mu    sync.RWMutex
	peers map[string]*raceTransport
}

type raceTransport struct {
	addr string
	net  *raceNet
	mu   sync.RWMutex
	up   bool
	ae   func(*raft.AppendEntriesRequest, *raft.AppendEntriesResponse) error
	rv   func(*raft.RequestVoteRequest, *raft.RequestVoteResponse) error
	is   func(*raft.InstallSnapshotRequest, *raft.InstallSnapshotResponse) error
}

func (t *raceTransport) Run() error      { t.mu.Lock(); t.up = true; t.mu.Unlock(); return nil }
func (t *raceTransport) Shutdown() error { t.mu.Lock(); t.up = false; t.mu.Unlock(); return nil }
func (t *raceTransport) peer(a string) (*raceTransport, error) {
	t.net.mu.RLock()
	p := t.net.peers[a]
	t.net.mu.RUnlock()
	if p == nil {
		return nil, errors.New("no such peer")
	}
	p.mu.RLock()
	up := p.up
	p.mu.RUnlock()
	if !up {
		return nil, errors.New("peer down")
	}
	return p, nil
}
func (t *raceTransport) SendAppendEntries(a string, r raft.AppendEntriesRequest) (raft.AppendEntriesResponse, error) {
	p, err := t.peer(a)
	if err != nil {
		return raft.AppendEntriesResponse{}, err
	}
	// what the bundled transport does to the request before it leaves
	_, got, err := raft.VerifAppendEntriesRequestWire(r)
	if err != nil {
		return raft.AppendEntriesResponse{}, err
	}
	var resp raft.AppendEntriesResponse
	p.mu.RLock()
	h := p.ae
	p.mu.RUnlock()
	if h == nil {
		return resp, errors.New("no handler")
	}
	if err := h(&got, &resp); err != nil {
		return resp, err
	}
	_, back, err := raft.VerifAppendEntriesResponseWire(resp)
	return back, err
}
func (t *raceTransport) SendRequestVote(a string, r raft.RequestVoteRequest) (raft.RequestVoteResponse, error) {
	p, err := t.peer(a)
	if err != nil {
		return raft.RequestVoteResponse{}, err
	}
	_, got, err := raft.VerifRequestVoteRequestWire(r)
	if err != nil {
		return raft.RequestVoteResponse{}, err
	}
	var resp raft.RequestVoteResponse
	p.mu.RLock()
	h := p.rv
	p.mu.RUnlock()
	if h == nil {
		return resp, errors.New("no handler")
	}
	if err := h(&got, &resp); err != nil {
		return resp, err
	}
	return resp, nil
}
func (t *raceTransport) SendInstallSnapshot(a string, r raft.InstallSnapshotRequest) (raft.InstallSnapshotResponse, error) {
	p, err := t.peer(a)
	if err != nil {
		return raft.InstallSnapshotResponse{}, err
	}
	_, got, err := raft.VerifInstallSnapshotRequestWire(r)
	if err != nil {
		return raft.InstallSnapshotResponse{}, err
	}
	var resp raft.InstallSnapshotResponse
	p.mu.RLock()
	h := p.is
	p.mu.RUnlock()
	if h == nil {
		return resp, errors.New("no handler")
	}
	if err := h(&got, &resp); err != nil {
		return resp, err
	}
	return resp, nil
}
func (t *raceTransport) RegisterAppendEntriesHandler(h func(*raft.AppendEntriesRequest, *raft.AppendEntriesResponse) error) {
	t.mu.Lock()
	t.ae = h
	t.mu.Unlock()
}
func (t *raceTransport) RegisterRequestVoteHandler(h func(*raft.RequestVoteRequest, *raft.RequestVoteResponse) error) {
	t.mu.Lock()
	t.rv = h
	t.mu.Unlock()
}
func (t *raceTransport) RegsiterInstallSnapshotHandler(h func(*raft.InstallSnapshotRequest, *raft.InstallSnapshotResponse) error) {
	t.mu.Lock()
	t.is = h
	t.mu.Unlock()
}
func (t *raceTransport) EncodeConfiguration(c *raft.Configuration) ([]byte, error) {
	return codec.EncodeConfiguration(c)
}
func (t *raceTransport) DecodeConfiguration(d []byte) (raft.Configuration, error) {
	return codec.DecodeConfiguration(d)
}
func (t *raceTransport) Address() string { return t.addr }

func TestE6Race(t *testing.T) {
	rep := NewReport("E6-race")
	rep.Rule = "real-time stress of a 3-4 node in-process cluster (real file storage, election timeout 150 ms, heartbeat 30 ms, snapshot every 6 entries, messages pushed through the transport's converters) with 4 submitters of all operation types at every node, a membership churner (add non-voter / promote / remove / re-add), a Status+Configuration poller, a lifecycle goroutine (Stop, Start, Restart, Bootstrap on running nodes), two goroutines awaiting one future, and next to the cluster three bundled network transports on loopback with four senders and a shutdown-and-run-again goroutine — all concurrently for VERIF_SECONDS; built with the race detector: a report is a violation; non-trivial = a call completed; counts = API calls issued"
	defer rep.Write()
	secs := EnvInt("VERIF_SECONDS", 10)
	root, _ := os.MkdirTemp(ScratchRoot(), "verif-e6-")
	defer os.RemoveAll(root)
	net := &raceNet{peers: map[string]*raceTransport{}}
	ids := []uint64{1, 2, 3, 4}
	nodes := map[uint64]*raft.Raft{}
	var nmu sync.RWMutex
	boot := map[string]string{}
	for _, id := range ids[:3] {
		boot[ID(id)] = Addr(id)
	}
	for _, id := range ids {
		tr := &raceTransport{addr: Addr(id), net: net}
		net.peers[Addr(id)] = tr
		r, err := raft.NewRaft(ID(id), Addr(id), &raceFSM{every: 6}, filepath.Join(root, fmt.Sprintf("n%d", id)),
			raft.WithTransport(tr), raft.WithLogLevel(logging.Fatal), raft.WithElectionTimeout(150*time.Millisecond),
			raft.WithHeartbeatInterval(30*time.Millisecond), raft.WithLeaseDuration(60*time.Millisecond))
		if err != nil {
			t.Fatal(err)
		}
		if id <= 3 {
			if err := r.Bootstrap(boot); err != nil {
				t.Fatal(err)
			}
		}
		if err := r.Start(); err != nil {
			t.Fatal(err)
		}
		nodes[id] = r
	}
	var calls, oks atomic.Int64
	stop := make(chan struct{})
	var wg sync.WaitGroup
	node := func(rng *rand.Rand) *raft.Raft {
		nmu.RLock()
		defer nmu.RUnlock()
		return nodes[ids[rng.Intn(len(ids))]]
	}
	worker := func(seed int64, f func(rng *rand.Rand)) {
		wg.Add(1)
		go func() {
			defer wg.Done()
			rng := rand.New(rand.NewSource(seed))
			for {
				select {
				case <-stop:
					return
				default:
				}
				f(rng)
			}
		}()
	}
	seed := int64(Seed())
	for k := 0; k < 4; k++ {
		worker(seed*100+int64(k), func(rng *rand.Rand) {
			typ := []raft.OperationType{raft.Replicated, raft.Replicated, raft.LinearizableReadOnly, raft.LeaseBasedReadOnly}[rng.Intn(4)]
			calls.Add(1)
			res := node(rng).SubmitOperation([]byte("x"), typ, 80*time.Millisecond).Await()
			if res.Error() == nil {
				oks.Add(1)
				_ = res.Success().Operation.OperationType.String()
			} else {
				time.Sleep(200 * time.Microsecond)
			}
		})
	}
	worker(seed*100+10, func(rng *rand.Rand) {
		n := node(rng)
		calls.Add(1)
		switch rng.Intn(4) {
		case 0:
			n.AddServer(ID(4), Addr(4), false, 100*time.Millisecond).Await()
		case 1:
			n.AddServer(ID(4), Addr(4), true, 100*time.Millisecond).Await()
		case 2:
			n.RemoveServer(ID(4), 100*time.Millisecond).Await()
		default:
			// only node 4 changes its membership: any two configurations out of {1,2,3}, {1,2,3,4n},
			// {1,2,3,4v} have intersecting quorums, so the known unsafe membership patterns (S3/S4,
			// known findings of C09) cannot fire here and diverge the logs
			n.AddServer(ID(4), Addr(4), rng.Intn(2) == 0, 100*time.Millisecond).Await()
		}
	})
	worker(seed*100+11, func(rng *rand.Rand) {
		n := node(rng)
		calls.Add(2)
		st := n.Status()
		_ = st.State.String()
		c := n.Configuration()
		_ = c.String()
		time.Sleep(time.Millisecond)
	})
	// one future, two goroutines waiting for it (a caller with a watchdog next to its worker): Await is
	// public API too
	worker(seed*100+13, func(rng *rand.Rand) {
		fut := node(rng).SubmitOperation([]byte("y"), raft.Replicated, 60*time.Millisecond)
		calls.Add(2)
		done := make(chan struct{})
		go func() { fut.Await(); close(done) }()
		fut.Await()
		<-done
	})
	// the bundled network transport under the same detector (the cluster above talks through an in-process
	// one): three real transports on loopback, four senders using all three RPCs towards all peers, one
	// goroutine that shuts a transport down and runs it again (what Stop and Restart of its node do)
	{
		var trs []raft.Transport
		var addrs []string
		for i := 0; i < 3; i++ {
			l, err := stdnet.Listen("tcp", "127.0.0.1:0")
			if err != nil {
				break
			}
			addr := l.Addr().String()
			l.Close()
			tr, err := raft.NewTransport(addr)
			if err != nil {
				break
			}
			tr.RegisterAppendEntriesHandler(func(q *raft.AppendEntriesRequest, r *raft.AppendEntriesResponse) error {
				r.Term, r.Success = q.Term, true
				return nil
			})
			tr.RegisterRequestVoteHandler(func(q *raft.RequestVoteRequest, r *raft.RequestVoteResponse) error {
				r.Term = q.Term
				return nil
			})
			tr.RegsiterInstallSnapshotHandler(func(q *raft.InstallSnapshotRequest, r *raft.InstallSnapshotResponse) error {
				r.Term, r.BytesWritten = q.Term, int64(len(q.Bytes))
				return nil
			})
			if err := tr.Run(); err != nil {
				break
			}
			trs, addrs = append(trs, tr), append(addrs, addr)
		}
		if len(trs) == 3 {
			rep.Hit("bundled-transport-stressed")
			defer func() {
				for _, tr := range trs {
					tr.Shutdown()
				}
			}()
			for k := 0; k < 4; k++ {
				worker(seed*100+20+int64(k), func(rng *rand.Rand) {
					from, to := trs[rng.Intn(3)], addrs[rng.Intn(3)]
					calls.Add(1)
					switch rng.Intn(3) {
					case 0:
						from.SendAppendEntries(to, raft.AppendEntriesRequest{LeaderID: "s", Term: 3, Entries: []*raft.LogEntry{{Index: 1, Term: 3, Data: []byte("abc")}}})
					case 1:
						from.SendRequestVote(to, raft.RequestVoteRequest{CandidateID: "s", Term: 3})
					default:
						from.SendInstallSnapshot(to, raft.InstallSnapshotRequest{LeaderID: "s", Term: 3, Bytes: []byte("xyz")})
					}
				})
			}
			worker(seed*100+30, func(rng *rand.Rand) {
				tr := trs[rng.Intn(3)]
				calls.Add(2)
				tr.Shutdown()
				time.Sleep(time.Duration(rng.Intn(3)) * time.Millisecond)
				tr.Run()
				time.Sleep(30 * time.Millisecond)
			})
		}
	}
	worker(seed*100+12, func(rng *rand.Rand) {
		n := node(rng)
		calls.Add(1)
		switch rng.Intn(5) {
		case 0:
			n.Stop()
		case 1:
			n.Start()
		case 2:
			n.Restart()
		case 3:
			n.Bootstrap(boot)
		default:
			n.Stop()
			n.Start()
		}
		time.Sleep(time.Duration(20+rng.Intn(150)) * time.Millisecond)
	})
	worker(seed*100+13, func(rng *rand.Rand) {
		// the same lifecycle calls from a second goroutine: Stop and Start race with each other
		n := node(rng)
		calls.Add(1)
		if rng.Intn(2) == 0 {
			n.Start()
		} else {
			n.Stop()
		}
		time.Sleep(time.Duration(50+rng.Intn(200)) * time.Millisecond)
	})
	time.Sleep(time.Duration(secs) * time.Second)
	close(stop)
	done := make(chan struct{})
	go func() { wg.Wait(); close(done) }()
	select {
	case <-done:
	case <-time.After(30 * time.Second):
		rep.Add(Finding{Kind: "oracle", Property: "C18", Oracle: "a public API call did not return within 30 s after the stress stopped (hang)", Case: fmt.Sprintf("seed=%d", seed),
			Signature: map[string]string{"oracle": "api-blocked", "engine": "E6"}})
	}
	for _, n := range nodes {
		n.Stop()
	}
	rep.Evaluations = int(calls.Load())
	rep.Case(fmt.Sprintf("stress seed=%d seconds=%d", seed, secs), oks.Load() > 0)
	rep.Hit(fmt.Sprintf("calls:%d", calls.Load()/1000*1000))
	rep.Hit(fmt.Sprintf("completed-ok:%d", oks.Load()/100*100))
	snaps := 0
	for _, id := range ids {
		if ents, err := os.ReadDir(filepath.Join(root, fmt.Sprintf("n%d", id), "snapshots")); err == nil {
			snaps += len(ents)
		}
	}
	rep.Hit(fmt.Sprintf("snapshot-dirs:%d", snaps))
	if oks.Load() == 0 {
		rep.Notes = append(rep.Notes, "no submission completed successfully in this run")
	}
}
