package harness

import (
	"bytes"
	"bufio"
	"fmt"
	"os"
	"os/exec"
	"path/filepath"
	"regexp"
	"sort"
	"strconv"
	"strings"
)

// Mut is one file-system mutation (or a MARK line / fsync) observed in a syscall trace.
type Mut struct {
	Kind  string // create write trunc rename unlink rmdir mkdir fsync mark
	Path  string // relative to the traced root
	Path2 string
	Data  []byte
	Off   int64
	Size  int64
	Mark  string
}

func (m Mut) String() string {
	switch m.Kind {
	case "write":
		return fmt.Sprintf("write %s @%d %s", m.Path, m.Off, hx(m.Data))
	case "trunc":
		return fmt.Sprintf("trunc %s %d", m.Path, m.Size)
	case "rename":
		return fmt.Sprintf("rename %s %s", m.Path, m.Path2)
	case "mark":
		return "MARK " + m.Mark
	default:
		return m.Kind + " " + m.Path
	}
}

var straceLine = regexp.MustCompile(`^(\d+)\s+(.*)$`)

func unhexEsc(s string) string {
	// strace -xx prints every byte as \xNN
	var b []byte
	for i := 0; i < len(s); {
		if i+3 < len(s) && s[i] == '\\' && s[i+1] == 'x' {
			v, err := strconv.ParseUint(s[i+2:i+4], 16, 8)
			if err == nil {
				b = append(b, byte(v))
				i += 4
				continue
			}
		}
		b = append(b, s[i])
		i++
	}
	return string(b)
}

// splitArgs splits a syscall argument list at top-level commas.
func splitArgs(s string) []string {
	var out []string
	depth, inq, start := 0, false, 0
	for i := 0; i < len(s); i++ {
		c := s[i]
		switch {
		case c == '"':
			inq = !inq
		case inq:
		case c == '<' || c == '(' || c == '[' || c == '{':
			depth++
		case c == '>' || c == ')' || c == ']' || c == '}':
			depth--
		case c == ',' && depth == 0:
			out = append(out, strings.TrimSpace(s[start:i]))
			start = i + 1
		}
	}
	return append(out, strings.TrimSpace(s[start:]))
}

var fdArg = regexp.MustCompile(`^(-?\d+|AT_FDCWD)(?:<(.*)>)?$`)

func parseFd(a string) (int, string) {
	m := fdArg.FindStringSubmatch(a)
	if m == nil {
		return -1, ""
	}
	fd := -100
	if m[1] != "AT_FDCWD" {
		fd, _ = strconv.Atoi(m[1])
	}
	return fd, unhexEsc(m[2])
}

func parseStr(a string) string {
	a = strings.TrimSuffix(a, "...")
	if len(a) >= 2 && a[0] == '"' {
		return unhexEsc(a[1 : len(a)-1])
	}
	return a
}

var retSep = regexp.MustCompile(`\)\s+= `)

// ParseStrace turns a `strace -f -y -xx` log into the ordered list of mutations under root.
func ParseStrace(path, root string) ([]Mut, error) {
	f, err := os.Open(path)
	if err != nil {
		return nil, err
	}
	defer f.Close()
	sc := bufio.NewScanner(f)
	sc.Buffer(make([]byte, 1<<20), 1<<28)
	pending := map[string]string{}
	offsets := map[int]int64{}
	var muts []Mut
	rel := func(p string) (string, bool) {
		if p == root {
			return ".", true
		}
		if strings.HasPrefix(p, root+"/") {
			return p[len(root)+1:], true
		}
		return "", false
	}
	for sc.Scan() {
		m := straceLine.FindStringSubmatch(sc.Text())
		if m == nil {
			continue
		}
		pid, rest := m[1], m[2]
		if strings.HasSuffix(rest, "<unfinished ...>") {
			pending[pid] = strings.TrimSuffix(rest, "<unfinished ...>")
			continue
		}
		if strings.HasPrefix(rest, "<... ") {
			i := strings.Index(rest, "resumed>")
			if i < 0 {
				continue
			}
			rest = pending[pid] + rest[i+len("resumed>"):]
			delete(pending, pid)
		}
		op := strings.IndexByte(rest, '(')
		// strace pads short lines ("<... write resumed>)              = 4"): any run of blanks before "= "
		eq, eqEnd := -1, -1
		if locs := retSep.FindAllStringIndex(rest, -1); len(locs) > 0 {
			eq, eqEnd = locs[len(locs)-1][0], locs[len(locs)-1][1]
		}
		if op < 0 || eq < 0 || eq < op {
			continue
		}
		name := rest[:op]
		args := splitArgs(rest[op+1 : eq])
		retS := strings.Fields(rest[eqEnd:])
		if len(retS) == 0 {
			continue
		}
		retTok := retS[0]
		retFdPath := ""
		if i := strings.IndexByte(retTok, '<'); i >= 0 {
			retFdPath = unhexEsc(strings.TrimSuffix(retTok[i+1:], ">"))
			retTok = retTok[:i]
		}
		ret, err := strconv.ParseInt(retTok, 10, 64)
		if err != nil || ret < 0 {
			continue
		}
		switch name {
		case "openat":
			if len(args) < 3 {
				continue
			}
			offsets[int(ret)] = 0
			p, ok := rel(retFdPath)
			if !ok {
				continue
			}
			flags := args[2]
			if strings.Contains(flags, "O_CREAT") {
				muts = append(muts, Mut{Kind: "create", Path: p})
			}
			if strings.Contains(flags, "O_TRUNC") {
				muts = append(muts, Mut{Kind: "trunc", Path: p, Size: 0})
			}
		case "read":
			fd, _ := parseFd(args[0])
			offsets[fd] += ret
		case "lseek":
			fd, _ := parseFd(args[0])
			offsets[fd] = ret
		case "write":
			fd, p := parseFd(args[0])
			data := []byte(parseStr(args[1]))
			if int64(len(data)) > ret {
				data = data[:ret]
			}
			if fd == 1 || fd == 2 {
				s := string(data)
				for _, ln := range strings.Split(s, "\n") {
					if strings.HasPrefix(ln, "MARK ") {
						muts = append(muts, Mut{Kind: "mark", Mark: strings.TrimPrefix(ln, "MARK ")})
					}
				}
				continue
			}
			off := offsets[fd]
			offsets[fd] += ret
			if rp, ok := rel(p); ok {
				muts = append(muts, Mut{Kind: "write", Path: rp, Off: off, Data: data})
			}
		case "pwrite64":
			_, p := parseFd(args[0])
			data := []byte(parseStr(args[1]))
			off, _ := strconv.ParseInt(args[3], 10, 64)
			if rp, ok := rel(p); ok {
				muts = append(muts, Mut{Kind: "write", Path: rp, Off: off, Data: data})
			}
		case "ftruncate":
			_, p := parseFd(args[0])
			size, _ := strconv.ParseInt(args[1], 10, 64)
			if rp, ok := rel(p); ok {
				muts = append(muts, Mut{Kind: "trunc", Path: rp, Size: size})
			}
		case "fsync", "fdatasync":
			_, p := parseFd(args[0])
			if rp, ok := rel(p); ok {
				muts = append(muts, Mut{Kind: "fsync", Path: rp})
			}
		case "rename", "renameat", "renameat2":
			var a, b string
			if name == "rename" {
				a, b = parseStr(args[0]), parseStr(args[1])
			} else {
				_, d1 := parseFd(args[0])
				_, d2 := parseFd(args[2])
				a, b = parseStr(args[1]), parseStr(args[3])
				if !filepath.IsAbs(a) {
					a = filepath.Join(d1, a)
				}
				if !filepath.IsAbs(b) {
					b = filepath.Join(d2, b)
				}
			}
			ra, ok1 := rel(a)
			rb, ok2 := rel(b)
			if ok1 && ok2 {
				muts = append(muts, Mut{Kind: "rename", Path: ra, Path2: rb})
			}
		case "unlink", "unlinkat", "rmdir":
			var p string
			kind := "unlink"
			if name == "unlinkat" {
				_, d := parseFd(args[0])
				p = parseStr(args[1])
				if !filepath.IsAbs(p) {
					p = filepath.Join(d, p)
				}
				if len(args) > 2 && strings.Contains(args[2], "AT_REMOVEDIR") {
					kind = "rmdir"
				}
			} else {
				p = parseStr(args[0])
				if name == "rmdir" {
					kind = "rmdir"
				}
			}
			if rp, ok := rel(p); ok {
				muts = append(muts, Mut{Kind: kind, Path: rp})
			}
		case "mkdir", "mkdirat":
			var p string
			if name == "mkdirat" {
				_, d := parseFd(args[0])
				p = parseStr(args[1])
				if !filepath.IsAbs(p) {
					p = filepath.Join(d, p)
				}
			} else {
				p = parseStr(args[0])
			}
			if rp, ok := rel(p); ok {
				muts = append(muts, Mut{Kind: "mkdir", Path: rp})
			}
		}
	}
	return muts, sc.Err()
}

// Image is a directory tree in memory.
type Image struct {
	Files map[string][]byte
	Dirs  map[string]bool
}

func NewImage() *Image { return &Image{Files: map[string][]byte{}, Dirs: map[string]bool{}} }

func (im *Image) Clone() *Image {
	out := NewImage()
	for k, v := range im.Files {
		out.Files[k] = append([]byte{}, v...)
	}
	for k := range im.Dirs {
		out.Dirs[k] = true
	}
	return out
}

// Apply performs one mutation; cut >= 0 applies only the first cut bytes of a write.
func (im *Image) Apply(m Mut, cut int) {
	switch m.Kind {
	case "create":
		if _, ok := im.Files[m.Path]; !ok {
			im.Files[m.Path] = []byte{}
		}
	case "write":
		data := m.Data
		if cut >= 0 && cut < len(data) {
			data = data[:cut]
		}
		f := im.Files[m.Path]
		for int64(len(f)) < m.Off {
			f = append(f, 0)
		}
		end := m.Off + int64(len(data))
		if int64(len(f)) < end {
			f = append(f, make([]byte, end-int64(len(f)))...)
		}
		copy(f[m.Off:], data)
		im.Files[m.Path] = f
	case "trunc":
		f := im.Files[m.Path]
		if int64(len(f)) > m.Size {
			f = f[:m.Size]
		}
		for int64(len(f)) < m.Size {
			f = append(f, 0)
		}
		im.Files[m.Path] = f
	case "rename":
		if d, ok := im.Files[m.Path]; ok {
			im.Files[m.Path2] = d
			delete(im.Files, m.Path)
			return
		}
		if im.Dirs[m.Path] {
			delete(im.Dirs, m.Path)
			im.Dirs[m.Path2] = true
			pre := m.Path + "/"
			for k, v := range im.Files {
				if strings.HasPrefix(k, pre) {
					im.Files[m.Path2+"/"+k[len(pre):]] = v
					delete(im.Files, k)
				}
			}
			for k := range im.Dirs {
				if strings.HasPrefix(k, pre) {
					im.Dirs[m.Path2+"/"+k[len(pre):]] = true
					delete(im.Dirs, k)
				}
			}
		}
	case "unlink":
		delete(im.Files, m.Path)
	case "rmdir":
		delete(im.Dirs, m.Path)
	case "mkdir":
		im.Dirs[m.Path] = true
	}
}

// Materialize writes the image under dir (which must not exist or be empty).
func (im *Image) Materialize(dir string) error {
	if err := os.MkdirAll(dir, 0o777); err != nil {
		return err
	}
	var dirs []string
	for d := range im.Dirs {
		dirs = append(dirs, d)
	}
	sort.Strings(dirs)
	for _, d := range dirs {
		if err := os.MkdirAll(filepath.Join(dir, d), 0o777); err != nil {
			return err
		}
	}
	for p, data := range im.Files {
		full := filepath.Join(dir, p)
		if err := os.MkdirAll(filepath.Dir(full), 0o777); err != nil {
			return err
		}
		if err := os.WriteFile(full, data, 0o666); err != nil {
			return err
		}
	}
	return nil
}

func (im *Image) Describe() string {
	var names []string
	for p, d := range im.Files {
		names = append(names, fmt.Sprintf("%s=%s", p, hx(d)))
	}
	for d := range im.Dirs {
		names = append(names, d+"/")
	}
	sort.Strings(names)
	return strings.Join(names, " ")
}

// StraceAvailable reports whether ptrace-based tracing works here.
func StraceAvailable() bool {
	cmd := exec.Command("strace", "-o", "/dev/null", "-e", "trace=write", "true")
	return cmd.Run() == nil
}

// TraceChild runs this test binary's FS driver on a script under strace.
func TraceChild(self, script, root, traceOut string) error {
	cmd := exec.Command("strace", "-f", "-y", "-xx", "-s", "4194304", "-o", traceOut,
		"-e", "trace=openat,read,write,pwrite64,lseek,ftruncate,rename,renameat,renameat2,unlink,unlinkat,rmdir,mkdir,mkdirat,fsync,fdatasync",
		self, "-test.run", "^TestFSDriverChild$", "-test.count=1")
	cmd.Env = append(os.Environ(), "VERIF_FS_SCRIPT="+script, "VERIF_FS_DIR="+root)
	out, err := cmd.CombinedOutput()
	for attempt := 0; err != nil && attempt < 3 && bytes.Contains(out, []byte("strace: ptrace(")); attempt++ {
		// the tracer itself failed (seen under load when the tracee exits: "ptrace(PTRACE_LISTEN, ...):
		// Input/output error", exit status 1 although the script passed): not an observation about the
		// code under test. Start over on an empty directory.
		os.RemoveAll(root)
		os.MkdirAll(root, 0o777)
		os.Remove(traceOut)
		cmd = exec.Command("strace", "-f", "-y", "-xx", "-s", "4194304", "-o", traceOut,
			"-e", "trace=openat,read,write,pwrite64,lseek,ftruncate,rename,renameat,renameat2,unlink,unlinkat,rmdir,mkdir,mkdirat,fsync,fdatasync",
			self, "-test.run", "^TestFSDriverChild$", "-test.count=1")
		cmd.Env = append(os.Environ(), "VERIF_FS_SCRIPT="+script, "VERIF_FS_DIR="+root)
		out, err = cmd.CombinedOutput()
	}
	if err != nil {
		return fmt.Errorf("fs driver child failed: %v: %s", err, out)
	}
	return nil
}
