package harness

import (
	"fmt"
	"os"
	"testing"
)

// TestParseTraceFile prints the mutations ParseStrace reads from a kept trace (debugging aid:
// VERIF_TRACE_FILE=<trace> VERIF_TRACE_ROOT=<live dir the trace was made in>).
func TestParseTraceFile(t *testing.T) {
	f := os.Getenv("VERIF_TRACE_FILE")
	if f == "" {
		t.Skip("no VERIF_TRACE_FILE")
	}
	muts, err := ParseStrace(f, os.Getenv("VERIF_TRACE_ROOT"))
	if err != nil {
		t.Fatal(err)
	}
	for i, m := range muts {
		fmt.Printf("%3d %s\n", i, m.String())
	}
}
