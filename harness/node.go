package harness

import (
	"errors"
	"fmt"
	"io"
	"os"
	"runtime"
	"strings"
	"sync"
	"time"

	"github.com/jmsadair/raft"
	"github.com/jmsadair/raft/logging"
)

// Rec records, in order, every storage operation a node performs.
type Rec struct {
	mu      sync.Mutex
	eff     []string
	armed   int    // > 0: the armed-th next storage operation trips the crash point (before it executes)
	tripped bool   // the crash point fired: everything this incarnation does from now on is after its "death"
	armKind string // when set, only operations of this kind count
	TripAt  string // the storage operation that did not happen any more
	onTrip  func() // takes the directory image and cuts the incarnation off; runs inside the storage call
	curIS   *[2]uint64 // label (index, term) of the InstallSnapshot request whose handler runs now (set by the scheduler)
	Mixed   []MixEvent // a chunk of one snapshot was written into (or closed) the received file of another
}

// MixEvent: the handler of a request labelled Req wrote to, or closed, the file created for File.
type MixEvent struct {
	File, Req [2]uint64
	Op        string
}

// SetIS tells the recorder which InstallSnapshot request is being handled. The handler writes
// and closes the received file before it first releases the node's mutex, and the scheduler
// delivers one request at a time, so the request in force during those calls is this one.
func (r *Rec) SetIS(idx, term uint64) {
	r.mu.Lock()
	r.curIS = &[2]uint64{idx, term}
	r.mu.Unlock()
}
func (r *Rec) ClearIS() {
	r.mu.Lock()
	r.curIS = nil
	r.mu.Unlock()
}
func (r *Rec) TakeMixed() []MixEvent {
	r.mu.Lock()
	defer r.mu.Unlock()
	out := r.Mixed
	r.Mixed = nil
	return out
}
func (r *Rec) mixCheck(f *recSnapFile, op string) {
	if !f.received {
		return
	}
	r.mu.Lock()
	if r.curIS != nil && *r.curIS != f.label {
		r.Mixed = append(r.Mixed, MixEvent{File: f.label, Req: *r.curIS, Op: op})
	}
	r.mu.Unlock()
}

// inInstallSnapshot: is the calling goroutine inside the InstallSnapshot handler?
func inInstallSnapshot() bool {
	pc := make([]uintptr, 24)
	n := runtime.Callers(2, pc)
	fr := runtime.CallersFrames(pc[:n])
	for {
		f, more := fr.Next()
		if strings.HasSuffix(f.Function, "(*Raft).InstallSnapshot") {
			return true
		}
		if !more {
			return false
		}
	}
}

// gate is called at the start of every storage operation: an armed crash point fires between two
// storage operations of one critical section (the node still holds its mutex).
func (r *Rec) gate(op string) {
	r.mu.Lock()
	if r.armed > 0 && !r.tripped && (r.armKind == "" || strings.HasPrefix(op, r.armKind)) {
		r.armed--
		if r.armed == 0 {
			r.tripped = true
			r.TripAt = op
			f := r.onTrip
			r.mu.Unlock()
			if f != nil {
				f()
			}
			return
		}
	}
	r.mu.Unlock()
}
func (r *Rec) Arm(k int, kind string, f func()) {
	r.mu.Lock()
	r.armed, r.armKind, r.onTrip = k, kind, f
	r.mu.Unlock()
}
func (r *Rec) Tripped() bool {
	r.mu.Lock()
	defer r.mu.Unlock()
	return r.tripped
}

func (r *Rec) add(s string) {
	r.gate(s)
	r.mu.Lock()
	r.eff = append(r.eff, s)
	if len(r.eff) > 4096 {
		r.eff = r.eff[2048:]
	}
	r.mu.Unlock()
}
func (r *Rec) Take() []string {
	r.mu.Lock()
	defer r.mu.Unlock()
	out := r.eff
	r.eff = nil
	return out
}
func (r *Rec) String() string {
	e := r.Take()
	if len(e) == 0 {
		return "-"
	}
	return strings.Join(e, ",")
}

// RecLog wraps the real file-backed log.
type RecLog struct {
	raft.Log
	rec *Rec
	// Gate, when set, is called before an append reaches the real log (a slow disk, see the overlap probes)
	Gate func()
}

func (l *RecLog) AppendEntry(e *raft.LogEntry) error {
	l.rec.add("la(" + EntsString([]Ent{EntFromRaft(e)}) + ")")
	return l.Log.AppendEntry(e)
}
func (l *RecLog) AppendEntries(es []*raft.LogEntry) error {
	ents := make([]Ent, len(es))
	for i, e := range es {
		ents[i] = EntFromRaft(e)
	}
	l.rec.add("la(" + EntsString(ents) + ")")
	if g := l.Gate; g != nil {
		g()
	}
	return l.Log.AppendEntries(es)
}
func (l *RecLog) Truncate(i uint64) error {
	l.rec.add(fmt.Sprintf("lt(%d)", i))
	return l.Log.Truncate(i)
}
func (l *RecLog) Compact(i uint64) error {
	l.rec.add(fmt.Sprintf("lc(%d)", i))
	return l.Log.Compact(i)
}
func (l *RecLog) DiscardEntries(i, t uint64) error {
	l.rec.add(fmt.Sprintf("ld(%d,%d)", i, t))
	return l.Log.DiscardEntries(i, t)
}

// RecState wraps the real term/vote storage.
type RecState struct {
	raft.StateStorage
	rec *Rec
	// Gate, when set, is called before the write reaches the real storage (a slow disk: the overlap probe of
	// E3-requestVote holds one write back and looks at what other handlers do meanwhile)
	Gate func(term uint64, vote string)
}

func (s *RecState) SetState(term uint64, vote string) error {
	s.rec.add(fmt.Sprintf("ss(%d,%d)", term, IDNum(vote)))
	if g := s.Gate; g != nil {
		g(term, vote)
	}
	return s.StateStorage.SetState(term, vote)
}

// RecSnap wraps the real snapshot storage.
type RecSnap struct {
	raft.SnapshotStorage
	rec *Rec
}

type recSnapFile struct {
	raft.SnapshotFile
	rec      *Rec
	writer   bool
	received bool      // created by the InstallSnapshot handler (not by the node's own snapshot)
	label    [2]uint64 // (index, term) it was created for
}

func (s *RecSnap) NewSnapshotFile(i, t uint64, c []byte) (raft.SnapshotFile, error) {
	s.rec.add(fmt.Sprintf("sn(%d,%d)", i, t))
	f, err := s.SnapshotStorage.NewSnapshotFile(i, t, c)
	if err != nil {
		return nil, err
	}
	return &recSnapFile{SnapshotFile: f, rec: s.rec, writer: true, received: inInstallSnapshot(), label: [2]uint64{i, t}}, nil
}
func (f *recSnapFile) Write(p []byte) (int, error) {
	f.rec.add(fmt.Sprintf("sw(%d)", len(p)))
	f.rec.mixCheck(f, "write")
	return f.SnapshotFile.Write(p)
}
func (f *recSnapFile) Close() error {
	if f.writer {
		f.rec.add("sc")
		f.rec.mixCheck(f, "close")
	}
	return f.SnapshotFile.Close()
}
func (f *recSnapFile) Discard() error {
	if f.writer {
		f.rec.add("sd")
	}
	return f.SnapshotFile.Discard()
}

// NullTransport never delivers anything; used for single-section runs.
type NullTransport struct {
	addr string
	mu   sync.Mutex
	sent []string
	AE   func(*raft.AppendEntriesRequest, *raft.AppendEntriesResponse) error
	RV   func(*raft.RequestVoteRequest, *raft.RequestVoteResponse) error
	IS   func(*raft.InstallSnapshotRequest, *raft.InstallSnapshotResponse) error
}

func (t *NullTransport) Run() error      { return nil }
func (t *NullTransport) Shutdown() error { return nil }
func (t *NullTransport) note(s string) {
	t.mu.Lock()
	t.sent = append(t.sent, s)
	t.mu.Unlock()
}
func (t *NullTransport) SendAppendEntries(a string, r raft.AppendEntriesRequest) (raft.AppendEntriesResponse, error) {
	t.note("AE>" + a)
	return raft.AppendEntriesResponse{}, errors.New("null transport")
}
func (t *NullTransport) SendRequestVote(a string, r raft.RequestVoteRequest) (raft.RequestVoteResponse, error) {
	t.note("RV>" + a)
	return raft.RequestVoteResponse{}, errors.New("null transport")
}
func (t *NullTransport) SendInstallSnapshot(a string, r raft.InstallSnapshotRequest) (raft.InstallSnapshotResponse, error) {
	t.note("IS>" + a)
	return raft.InstallSnapshotResponse{}, errors.New("null transport")
}
func (t *NullTransport) RegisterAppendEntriesHandler(h func(*raft.AppendEntriesRequest, *raft.AppendEntriesResponse) error) {
	t.AE = h
}
func (t *NullTransport) RegisterRequestVoteHandler(h func(*raft.RequestVoteRequest, *raft.RequestVoteResponse) error) {
	t.RV = h
}
func (t *NullTransport) RegsiterInstallSnapshotHandler(h func(*raft.InstallSnapshotRequest, *raft.InstallSnapshotResponse) error) {
	t.IS = h
}
func (t *NullTransport) EncodeConfiguration(c *raft.Configuration) ([]byte, error) {
	return codec.EncodeConfiguration(c)
}
func (t *NullTransport) DecodeConfiguration(d []byte) (raft.Configuration, error) {
	return codec.DecodeConfiguration(d)
}
func (t *NullTransport) Address() string { return t.addr }

// NullFSM ignores everything.
type NullFSM struct {
	mu      sync.Mutex
	Applied []raft.Operation
}

func (f *NullFSM) Apply(op *raft.Operation) interface{} {
	f.mu.Lock()
	defer f.mu.Unlock()
	f.Applied = append(f.Applied, *op)
	return len(f.Applied)
}
func (f *NullFSM) Snapshot(w io.Writer) error { return nil }
func (f *NullFSM) Restore(r io.Reader) error  { _, err := io.ReadAll(r); return err }
func (f *NullFSM) NeedSnapshot(int) bool      { return false }

// ScratchRoot is where throw-away directories live (never under /repo or /verif).
func ScratchRoot() string {
	if d := os.Getenv("VERIF_SCRATCH"); d != "" {
		return d
	}
	if st, err := os.Stat("/dev/shm"); err == nil && st.IsDir() {
		return "/dev/shm"
	}
	return os.TempDir()
}

// TNode is a real node over real file-backed storages with recording wrappers.
type TNode struct {
	R       *raft.Raft
	Dir     string
	Rec     *Rec
	RawLog  raft.Log
	RawState raft.StateStorage
	St      *RecState
	Lg      *RecLog
	FSM     *NullFSM
	Tr      raft.Transport
	ID      uint64
	ET, LD  time.Duration
}

type NodeOpts struct {
	ID        uint64
	Dir       string
	Transport raft.Transport
	FSM       raft.StateMachine
	ET, LD, HB time.Duration
}

// NewTNode creates a node (not started) over Dir.
func NewTNode(o NodeOpts) (*TNode, error) {
	rec := &Rec{}
	rawLog, err := raft.NewLog(o.Dir)
	if err != nil {
		return nil, err
	}
	st, err := raft.NewStateStorage(o.Dir)
	if err != nil {
		return nil, err
	}
	sn, err := raft.NewSnapshotStorage(o.Dir)
	if err != nil {
		return nil, err
	}
	tn := &TNode{Dir: o.Dir, Rec: rec, RawLog: rawLog, ID: o.ID, ET: o.ET, LD: o.LD, RawState: st, St: &RecState{StateStorage: st, rec: rec}, Lg: &RecLog{Log: rawLog, rec: rec}}
	tr := o.Transport
	if tr == nil {
		tr = &NullTransport{addr: Addr(o.ID)}
	}
	tn.Tr = tr
	var fsm raft.StateMachine = o.FSM
	if fsm == nil {
		tn.FSM = &NullFSM{}
		fsm = tn.FSM
	}
	opts := []raft.Option{
		raft.WithTransport(tr), raft.WithLog(tn.Lg),
		raft.WithStateStorage(tn.St),
		raft.WithSnapshotStorage(&RecSnap{SnapshotStorage: sn, rec: rec}),
		raft.WithLogLevel(logging.Fatal),
	}
	if o.ET != 0 {
		opts = append(opts, raft.WithElectionTimeout(o.ET))
	} else {
		tn.ET = 300 * time.Millisecond
	}
	if o.LD != 0 {
		opts = append(opts, raft.WithLeaseDuration(o.LD))
	} else {
		tn.LD = 100 * time.Millisecond
	}
	if o.HB != 0 {
		opts = append(opts, raft.WithHeartbeatInterval(o.HB))
	}
	r, err := raft.NewRaft(ID(o.ID), Addr(o.ID), fsm, o.Dir, opts...)
	if err != nil {
		return nil, err
	}
	tn.R = r
	rec.Take()
	return tn, nil
}

// SetLog replaces the content of the node's log.
func (tn *TNode) SetLog(l LogSt) error {
	setLogCalls++
	if l.Base > 0 && setLogCalls%2 == 0 {
		// every second compacted pre-state is produced the way a local snapshot produces it: the entry at
		// the boundary is appended and the real Compact cuts the log there (the other half is produced the
		// way an installed snapshot does, by DiscardEntries). What the log answers afterwards (base, base
		// term, entries) must be the same; every engine that starts from a LogSt thereby also exercises Compact.
		pt := l.BaseTerm
		if l.Base == 1 {
			pt = 0
		}
		if err := tn.RawLog.DiscardEntries(l.Base-1, pt); err != nil {
			return err
		}
		ents := append([]*raft.LogEntry{{Index: l.Base, Term: l.BaseTerm, Data: []byte("boundary"), EntryType: raft.OperationEntry}}, EntsToRaft(l.Ents)...)
		if err := tn.RawLog.AppendEntries(ents); err != nil {
			return err
		}
		return tn.RawLog.Compact(l.Base)
	}
	if err := tn.RawLog.DiscardEntries(l.Base, l.BaseTerm); err != nil {
		return err
	}
	return tn.RawLog.AppendEntries(EntsToRaft(l.Ents))
}

var setLogCalls int

// GetLog reads the log back through the Log interface.
func (tn *TNode) GetLog() LogSt {
	base, bt, _ := raft.VerifLogBaseOf(tn.RawLog)
	out := LogSt{Base: base, BaseTerm: bt}
	n := tn.RawLog.Size()
	for i := 1; i <= n; i++ {
		e, err := tn.RawLog.GetEntry(base + uint64(i))
		if err != nil {
			out.Ents = append(out.Ents, Ent{Index: 777777})
			continue
		}
		out.Ents = append(out.Ents, EntFromRaft(e))
	}
	return out
}

// Epoch is the origin of virtual time inside a synctest bubble.
var Epoch = time.Date(2000, 1, 1, 0, 0, 0, 0, time.UTC)

func msOf(t time.Time) int64 { return t.Sub(Epoch).Milliseconds() }
func atMs(ms int64) time.Time { return Epoch.Add(time.Duration(ms) * time.Millisecond) }

// Set installs a model state into the real node.
func (tn *TNode) Set(n NodeSt) error {
	if err := tn.SetLog(n.Log); err != nil {
		return err
	}
	vs := raft.VerifState{
		State: StateOf(n.Role), CurrentTerm: n.Term, VotedFor: ID(n.Vote), LeaderID: ID(n.Leader),
		CommitIndex: n.CI, LastApplied: n.LA, LastIncludedIndex: n.SI, LastIncludedTerm: n.ST,
		Configuration: n.Cfg.ToRaft(), CommittedConfiguration: n.Com.ToRaft(),
		LastContact: atMs(n.LC), LeaseExpiration: atMs(n.LE), ShouldVerifyQuorum: n.SV,
		Followers: map[string]raft.VerifFollower{},
	}
	for _, f := range n.Fol {
		vs.Followers[ID(f.ID)] = raft.VerifFollower{NextIndex: f.Next, MatchIndex: f.Match}
	}
	tn.R.VerifSetState(vs)
	tn.Rec.Take()
	return nil
}

// Get reads the real node's state back in model terms.
func (tn *TNode) Get() NodeSt {
	vs := tn.R.VerifGetState()
	n := NodeSt{ID: tn.ID, Role: RoleOf(vs.State), Term: vs.CurrentTerm, Vote: IDNum(vs.VotedFor),
		Leader: IDNum(vs.LeaderID), Log: tn.GetLog(), CI: vs.CommitIndex, LA: vs.LastApplied,
		SI: vs.LastIncludedIndex, ST: vs.LastIncludedTerm, Cfg: CfgFromRaft(vs.Configuration),
		Com: CfgFromRaft(vs.CommittedConfiguration), LC: msOf(vs.LastContact), LE: msOf(vs.LeaseExpiration),
		SV: vs.ShouldVerifyQuorum, PRep: vs.PendingReplicated,
		ET: tn.ET.Milliseconds(), LD: tn.LD.Milliseconds()}
	for id, f := range vs.Followers {
		n.Fol = append(n.Fol, Fol{ID: IDNum(id), Next: f.NextIndex, Match: f.MatchIndex, SnapOpen: f.SnapshotOpen})
	}
	if vs.ConfigurationPending {
		n.CfgF = fmt.Sprint(vs.ConfigurationWaitIndex)
	}
	if vs.SnapshotOpen {
		n.Recv = fmt.Sprintf("%d.%d", vs.SnapshotMetadata.LastIncludedIndex, vs.SnapshotMetadata.LastIncludedTerm)
	}
	return n
}
