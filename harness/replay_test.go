package harness

import (
	"fmt"
	"os"
	"strings"
	"testing"
)

// TestReplayCase re-runs the case named by a replay file (`./check <id> --replay <file>`):
// a random walk (profile, seed, walk number, length), a directed scenario, an API word; for the
// case-per-line engines (E1-E3) the whole engine is run again with the recorded seed and tier and
// the findings for that case are printed. Exit status 1 = the violation reproduces.
func TestReplayCase(t *testing.T) {
	c := os.Getenv("VERIF_REPLAY_CASE")
	if c == "" {
		t.Skip("no VERIF_REPLAY_CASE")
	}
	engine := os.Getenv("VERIF_REPLAY_ENGINE")
	os.Setenv("VERIF_OUT", os.DevNull)
	rep := NewReport("replay")
	root, _ := os.MkdirTemp(ScratchRoot(), "verif-replay-")
	defer os.RemoveAll(root)
	show := func(match func(Finding) bool) {
		n := 0
		for _, f := range rep.Findings {
			if match != nil && !match(f) {
				continue
			}
			n++
			fmt.Printf("REPRODUCED property=%s kind=%s\n  oracle: %s\n  case: %s\n  observed: %s\n  model: %s\n  diff: %v\n  signature: %v\n", f.Property, f.Kind, f.Oracle, f.Case, f.Impl, f.Model, f.Diff, f.Signature)
			if f.Detail != "" {
				fmt.Printf("  detail: %s\n", f.Detail)
			}
		}
		if n > 0 {
			t.Fail()
		} else {
			fmt.Println("NOT REPRODUCED: the case ran without a finding (schedules of real goroutines are not fully deterministic: try again, or the tree differs from the one the replay was made on)")
		}
	}
	switch {
	case strings.HasPrefix(c, "walk profile="):
		var prof string
		var seed uint64
		var walk, nodes, actions int
		if _, err := fmt.Sscanf(c, "walk profile=%s seed=%d walk=%d nodes=%d actions=%d", &prof, &seed, &walk, &nodes, &actions); err != nil {
			t.Fatalf("cannot parse %q: %v", c, err)
		}
		p, ok := profiles[prof]
		if !ok {
			t.Fatalf("unknown profile %q", prof)
		}
		runWalk(t, rep, p, seed, walk, actions)
		show(nil)
	case strings.HasPrefix(c, "directed scenario "):
		name := strings.TrimPrefix(c, "directed scenario ")
		f, ok := scenarios[name]
		if !ok {
			t.Fatalf("unknown scenario %q", name)
		}
		f(t, rep, root)
		show(nil)
	case strings.HasPrefix(c, "word seed="):
		var seed uint64
		fmt.Sscanf(c, "word seed=%d", &seed)
		runAPIWord(t, rep, seed, 0, os.DevNull)
		show(nil)
	default:
		// a case of a line-per-case engine: run the engine again (same seed and tier from the environment)
		out := root + "/engine.json"
		os.Setenv("VERIF_OUT", out)
		run := map[string]func(*testing.T){
			"E1-codec": TestE1Codec, "E1-transport": TestE1Transport, "E2-log-crash": TestE2LogCrash, "E2-state-snapshot-crash": TestE2StateSnapCrash,
			"E3-appendEntries": TestE3AppendEntries, "E3-requestVote": TestE3RequestVote, "E3-election": TestE3Election,
			"E3-installSnapshot": TestE3InstallSnapshot, "E3-leader": TestE3Leader, "E3-lifecycle": TestE3Lifecycle, "E5-api": TestE5API, "E6-race": TestE6Race,
		}[engine]
		if run == nil {
			t.Fatalf("no replay for engine %q (case %q)", engine, c)
		}
		t.Run("engine", run)
		data, err := os.ReadFile(out)
		if err != nil {
			t.Fatal(err)
		}
		r2, err := ParseReport(data)
		if err != nil {
			t.Fatal(err)
		}
		rep.Findings = r2.Findings
		show(func(f Finding) bool { return f.Case == c })
	}
}
