package harness

// sim.go — deterministic simulation of real nodes inside a testing/synctest bubble
// (engine E4): a network that parks every Send* call until the scheduler delivers,
// answers or fails it, a recording state machine whose calls can be parked, real
// file-backed storage behind recording wrappers, crash = directory image + zombie.

import (
	"sync/atomic"
	"bytes"
	"crypto/sha256"
	"encoding/binary"
	"encoding/json"
	"errors"
	"fmt"
	"io"
	"os"
	"path/filepath"
	"sort"
	"strings"
	"sync"
	"testing/synctest"
	"time"

	"github.com/jmsadair/raft"
	"github.com/jmsadair/raft/logging"
)

// ---------------------------------------------------------------- network

type Call struct {
	ID          int
	From, To    uint64
	Kind        string // AE RV IS
	AE          *raft.AppendEntriesRequest
	RV          *raft.RequestVoteRequest
	IS          *raft.InstallSnapshotRequest
	AER         raft.AppendEntriesResponse
	RVR         raft.RequestVoteResponse
	ISR         raft.InstallSnapshotResponse
	Delivered   bool
	HErr        error
	Created     time.Time
	DeliveredAt time.Time
	FromInc     int
	Seq         int // canonical number, assigned when the scheduler first sees the call (stable across runs, unlike ID)
	done        chan error
	handlerDone chan struct{}
	answered    bool
	callee      *SimTransport
}

func (c *Call) Term() uint64 {
	switch c.Kind {
	case "AE":
		return c.AE.Term
	case "RV":
		return c.RV.Term
	default:
		return c.IS.Term
	}
}

func (c *Call) num() int {
	if c.Seq != 0 {
		return c.Seq
	}
	return c.ID
}

func (c *Call) String() string {
	switch c.Kind {
	case "AE":
		return fmt.Sprintf("#%d AE %d->%d t%d prev=%d.%d n=%d lc=%d", c.num(), c.From, c.To, c.AE.Term, c.AE.PrevLogIndex, c.AE.PrevLogTerm, len(c.AE.Entries), c.AE.LeaderCommit)
	case "RV":
		return fmt.Sprintf("#%d RV %d->%d t%d last=%d.%d pv=%v", c.num(), c.From, c.To, c.RV.Term, c.RV.LastLogIndex, c.RV.LastLogTerm, c.RV.Prevote)
	default:
		return fmt.Sprintf("#%d IS %d->%d t%d label=%d.%d off=%d n=%d done=%v", c.num(), c.From, c.To, c.IS.Term, c.IS.LastIncludedIndex, c.IS.LastIncludedTerm, c.IS.Offset, len(c.IS.Bytes), c.IS.Done)
	}
}

type Net struct {
	mu      sync.Mutex
	byAddr  map[string]*SimTransport
	Pending []*Call
	All     []*Call
	nextID  int
	nextSeq int
}

type SimTransport struct {
	FailRun bool // the next Run() fails
	id   uint64
	inc  int
	addr string
	n    *Net
	dead bool
	ae   func(*raft.AppendEntriesRequest, *raft.AppendEntriesResponse) error
	rv   func(*raft.RequestVoteRequest, *raft.RequestVoteResponse) error
	is   func(*raft.InstallSnapshotRequest, *raft.InstallSnapshotResponse) error
}

// Run fails once when FailRun is set (the listen address is taken, the listener cannot be created):
// Start/Restart must hand the error back and leave the node usable.
func (t *SimTransport) Run() error {
	if t.FailRun {
		t.FailRun = false
		return errors.New("could not create listener: address already in use")
	}
	return nil
}
func (t *SimTransport) Shutdown() error { return nil }
func (t *SimTransport) park(c *Call) error {
	t.n.mu.Lock()
	if t.dead {
		t.n.mu.Unlock()
		return errors.New("transport of a crashed node")
	}
	c.From = t.id
	c.FromInc = t.inc
	c.done = make(chan error, 1)
	c.Created = time.Now()
	t.n.nextID++
	c.ID = t.n.nextID
	t.n.Pending = append(t.n.Pending, c)
	t.n.All = append(t.n.All, c)
	t.n.mu.Unlock()
	return <-c.done
}
func addrID(a string) uint64 {
	var p uint64
	fmt.Sscanf(a[strings.LastIndexByte(a, ':')+1:], "%d", &p)
	return p - 9000
}
func (t *SimTransport) SendAppendEntries(a string, r raft.AppendEntriesRequest) (raft.AppendEntriesResponse, error) {
	// the request shares *LogEntry pointers with the sender's log: copy what is observed
	cp := r
	cp.Entries = make([]*raft.LogEntry, len(r.Entries))
	for i, e := range r.Entries {
		x := *e
		x.Data = append([]byte{}, e.Data...)
		cp.Entries[i] = &x
	}
	c := &Call{To: addrID(a), Kind: "AE", AE: &cp}
	err := t.park(c)
	return c.AER, err
}
func (t *SimTransport) SendRequestVote(a string, r raft.RequestVoteRequest) (raft.RequestVoteResponse, error) {
	c := &Call{To: addrID(a), Kind: "RV", RV: &r}
	err := t.park(c)
	return c.RVR, err
}
func (t *SimTransport) SendInstallSnapshot(a string, r raft.InstallSnapshotRequest) (raft.InstallSnapshotResponse, error) {
	cp := r
	cp.Bytes = append([]byte{}, r.Bytes...)
	c := &Call{To: addrID(a), Kind: "IS", IS: &cp}
	err := t.park(c)
	return c.ISR, err
}
func (t *SimTransport) RegisterAppendEntriesHandler(h func(*raft.AppendEntriesRequest, *raft.AppendEntriesResponse) error) {
	t.ae = h
}
func (t *SimTransport) RegisterRequestVoteHandler(h func(*raft.RequestVoteRequest, *raft.RequestVoteResponse) error) {
	t.rv = h
}
func (t *SimTransport) RegsiterInstallSnapshotHandler(h func(*raft.InstallSnapshotRequest, *raft.InstallSnapshotResponse) error) {
	t.is = h
}
func (t *SimTransport) EncodeConfiguration(c *raft.Configuration) ([]byte, error) {
	return codec.EncodeConfiguration(c)
}
func (t *SimTransport) DecodeConfiguration(d []byte) (raft.Configuration, error) {
	return codec.DecodeConfiguration(d)
}
func (t *SimTransport) Address() string { return t.addr }

// ---------------------------------------------------------------- state machine

// FSMState is a hash chain over the applied replicated operations: its content
// determines exactly which operations were applied, in which order.
type FSMState struct {
	Count     int      `json:"count"`
	LastIndex uint64   `json:"last_index"`
	Hash      string   `json:"hash"`
	Indices   []uint64 `json:"indices"`
	Pad       []byte   `json:"pad,omitempty"`
}

type ApplyRec struct {
	Node     uint64
	Inc      int
	Instance int // bumped by every Restore
	Index    uint64
	Term     uint64
	Data     string
	At       time.Time
	Seq      int
}

type Recorder struct {
	mu       sync.Mutex
	Applies  []ApplyRec
	Restores []string
	Snaps    []string
	seq      int
}

type SimFSM struct {
	mu        sync.Mutex
	node      uint64
	inc       int
	instance  int
	st        FSMState
	rec       *Recorder
	detached  bool
	SnapEvery int  // NeedSnapshot threshold on log size (0: never)
	PadBytes  int  // extra payload in snapshots
	Lenient   bool // Restore accepts arbitrary bytes (handler-level engines use synthetic snapshot content)
	OnBadRestore func(node uint64, size int, err error) // when set, a Restore of unparsable content is reported here instead of failing
	// gates: when non-nil the call parks until the scheduler sends on it
	GateApply, GateSnapshot, GateRestore chan struct{}
	Parked                               []string
}

func chain(prev string, index uint64, data []byte) string {
	h := sha256.New()
	h.Write([]byte(prev))
	var b [8]byte
	binary.BigEndian.PutUint64(b[:], index)
	h.Write(b[:])
	h.Write(data)
	return fmt.Sprintf("%x", h.Sum(nil)[:8])
}

// ReadResult is what a read-only operation returns: the prefix it saw.
type ReadResult struct {
	Count     int
	LastIndex uint64
	Hash      string
}

func (f *SimFSM) wait(gate chan struct{}, what string) {
	if gate == nil {
		return
	}
	f.mu.Lock()
	f.Parked = append(f.Parked, what)
	f.mu.Unlock()
	<-gate
}

func (f *SimFSM) Apply(op *raft.Operation) interface{} {
	if op.OperationType == raft.Replicated {
		f.wait(f.GateApply, fmt.Sprintf("apply %d", op.LogIndex))
		if f.SnapEvery > 0 {
			// Applying takes time. Under the frozen virtual clock two snapshots of one node could
			// otherwise be created in the same nanosecond and collide on their directory name.
			sleepToResidue(0)
		}
	}
	f.mu.Lock()
	defer f.mu.Unlock()
	if op.OperationType != raft.Replicated {
		return ReadResult{f.st.Count, f.st.LastIndex, f.st.Hash}
	}
	f.st.Count++
	f.st.LastIndex = op.LogIndex
	f.st.Hash = chain(f.st.Hash, op.LogIndex, op.Bytes)
	f.st.Indices = append(f.st.Indices, op.LogIndex)
	if !f.detached {
		f.rec.mu.Lock()
		f.rec.seq++
		f.rec.Applies = append(f.rec.Applies, ApplyRec{f.node, f.inc, f.instance, op.LogIndex, op.LogTerm, string(op.Bytes), time.Now(), f.rec.seq})
		f.rec.mu.Unlock()
	}
	return ReadResult{f.st.Count, f.st.LastIndex, f.st.Hash}
}

func (f *SimFSM) Snapshot(w io.Writer) error {
	f.wait(f.GateSnapshot, "snapshot")
	if f.SnapEvery > 0 {
		// Taking a snapshot takes time. Snapshot directories are named after the nanosecond of their
		// publication: under the frozen virtual clock two snapshots taken back to back (a backlog after a
		// slow one), or one taken and one received, would otherwise be published in the same nanosecond.
		// Own snapshots end at residue 250 of the microsecond (applies at 0, the scheduler acts at 500).
		sleepToResidue(250)
	}
	f.mu.Lock()
	st := f.st
	st.Indices = append([]uint64{}, f.st.Indices...)
	if f.PadBytes > 0 {
		st.Pad = bytes.Repeat([]byte{'p'}, f.PadBytes)
	}
	f.mu.Unlock()
	data, _ := json.Marshal(st)
	if !f.detached {
		f.rec.mu.Lock()
		f.rec.Snaps = append(f.rec.Snaps, fmt.Sprintf("node=%d inc=%d count=%d last=%d hash=%s", f.node, f.inc, st.Count, st.LastIndex, st.Hash))
		f.rec.mu.Unlock()
	}
	_, err := w.Write(data)
	return err
}

func (f *SimFSM) Restore(r io.Reader) error {
	f.wait(f.GateRestore, "restore")
	data, err := io.ReadAll(r)
	if err != nil {
		return err
	}
	var st FSMState
	if err := json.Unmarshal(data, &st); err != nil {
		if !f.Lenient {
			if f.OnBadRestore == nil {
				return fmt.Errorf("snapshot content does not parse (%d bytes): %w", len(data), err)
			}
			// the library ends the process (logger.Fatal) when Restore fails: report instead, the scheduler ends the walk
			f.OnBadRestore(f.node, len(data), err)
		}
		st = FSMState{}
	}
	st.Pad = nil
	f.mu.Lock()
	f.st = st
	f.instance++
	f.mu.Unlock()
	if !f.detached {
		f.rec.mu.Lock()
		f.rec.Restores = append(f.rec.Restores, fmt.Sprintf("node=%d inc=%d count=%d last=%d hash=%s", f.node, f.inc, st.Count, st.LastIndex, st.Hash))
		f.rec.mu.Unlock()
	}
	return nil
}

func (f *SimFSM) NeedSnapshot(size int) bool { return f.SnapEvery > 0 && size >= f.SnapEvery }

func (f *SimFSM) State() FSMState {
	f.mu.Lock()
	defer f.mu.Unlock()
	st := f.st
	st.Indices = append([]uint64{}, f.st.Indices...)
	return st
}

// sleepToResidue sleeps until the next virtual instant whose nanosecond count is
// congruent to r modulo 1000. State machine calls end at residue 0, the scheduler acts at
// residue 500: a locally taken snapshot and a received one never share a creation time.
func sleepToResidue(r int64) {
	now := time.Now().UnixNano()
	d := (r - now%1000 + 1000) % 1000
	if d == 0 {
		d = 1000
	}
	time.Sleep(time.Duration(d))
}

// ---------------------------------------------------------------- nodes

type SimNode struct {
	ID         uint64
	Inc        int
	Dir        string
	R          *raft.Raft
	Tr         *SimTransport
	FSM        *SimFSM
	Rec        *Rec
	RawLog     raft.Log
	Up         bool
	StorageOps int
	TripImg    string
	RawState   raft.StateStorage
	RawSnap    raft.SnapshotStorage
}

type SimOpts struct {
	ET, HB, LD time.Duration
	SnapEvery  int
	PadBytes   int
}

type Sim struct {
	Root    string
	Net     *Net
	Nodes   map[uint64]*SimNode
	Zombies []*SimNode
	Recd    *Recorder
	Opts    SimOpts
	Cut     map[[2]uint64]bool // Cut[{from,to}]: calls from->to fail
	Errors  []string
	Blocked []*Call
	dirSeq  int
	OnBadRestore func(node uint64, size int, err error) // see SimFSM.OnBadRestore; set before Boot
}

func NewSim(root string, opts SimOpts) *Sim {
	if opts.ET == 0 {
		opts.ET = 300 * time.Millisecond
	}
	if opts.HB == 0 {
		opts.HB = 50 * time.Millisecond
	}
	if opts.LD == 0 {
		opts.LD = 100 * time.Millisecond
	}
	return &Sim{Root: root, Net: &Net{byAddr: map[string]*SimTransport{}}, Nodes: map[uint64]*SimNode{}, Recd: &Recorder{},
		Opts: opts, Cut: map[[2]uint64]bool{}}
}

// Boot creates (or re-creates over dir) a node. boot != nil bootstraps it with that membership.
func (s *Sim) Boot(id uint64, dir string, inc int, boot []uint64) (*SimNode, error) {
	if dir == "" {
		s.dirSeq++
		dir = filepath.Join(s.Root, fmt.Sprintf("n%d-%d", id, s.dirSeq))
	}
	rec := &Rec{}
	rawLog, err := raft.NewLog(dir)
	if err != nil {
		return nil, fmt.Errorf("NewLog: %w", err)
	}
	st, err := raft.NewStateStorage(dir)
	if err != nil {
		return nil, fmt.Errorf("NewStateStorage: %w", err)
	}
	sn, err := raft.NewSnapshotStorage(dir)
	if err != nil {
		return nil, fmt.Errorf("NewSnapshotStorage: %w", err)
	}
	tr := &SimTransport{id: id, inc: inc, addr: Addr(id), n: s.Net}
	fsm := &SimFSM{node: id, inc: inc, rec: s.Recd, SnapEvery: s.Opts.SnapEvery, PadBytes: s.Opts.PadBytes, OnBadRestore: s.OnBadRestore}
	r, err := raft.NewRaft(ID(id), Addr(id), fsm, dir,
		raft.WithTransport(tr), raft.WithLog(&RecLog{Log: rawLog, rec: rec}),
		raft.WithStateStorage(&RecState{StateStorage: st, rec: rec}),
		raft.WithSnapshotStorage(&RecSnap{SnapshotStorage: sn, rec: rec}),
		raft.WithLogLevel(logging.Fatal), raft.WithElectionTimeout(s.Opts.ET),
		raft.WithHeartbeatInterval(s.Opts.HB), raft.WithLeaseDuration(s.Opts.LD))
	if err != nil {
		return nil, fmt.Errorf("NewRaft: %w", err)
	}
	if boot != nil {
		m := map[string]string{}
		for _, b := range boot {
			m[ID(b)] = Addr(b)
		}
		if err := r.Bootstrap(m); err != nil {
			return nil, fmt.Errorf("Bootstrap: %w", err)
		}
		// the map is the caller's (an application keeps its table of peers and goes on editing it): emptying it
		// and adding a stranger after Bootstrap has returned must not change the node's configuration
		cb := r.Configuration()
		before := CfgFromRaft(&cb).String()
		for k := range m {
			delete(m, k)
		}
		m["99"] = "scribble"
		ca := r.Configuration()
		if after := CfgFromRaft(&ca).String(); after != before {
			bootAliasSet(fmt.Sprintf("node %d bootstrapped with %v: configuration %s; after the caller edited its own map: %s", id, boot, before, after))
		}
		bootProbed.Add(1)
	}
	n := &SimNode{ID: id, Inc: inc, Dir: dir, R: r, Tr: tr, FSM: fsm, Rec: rec, RawLog: rawLog, RawState: st, RawSnap: sn}
	s.Net.mu.Lock()
	s.Net.byAddr[Addr(id)] = tr
	s.Net.mu.Unlock()
	s.Nodes[id] = n
	return n, nil
}

func bootAliasSet(d string) { bootAlias.CompareAndSwap(nil, &d) }

// what the Bootstrap probe of Boot saw (reported by every engine's Report.Write)
var bootAlias atomic.Pointer[string]
var bootProbed atomic.Int64

// alignStart: every incarnation starts in its own 10 µs class of the millisecond. The library's
// election tickers sleep whole milliseconds and draw their next timeout from ONE process-wide
// math/rand source: started like this, no two tickers (zombies included) ever wake at the same
// instant, so the order of the draws - and with it every timeout - is the same in every run.
func alignStart(id uint64, inc int) {
	class := int64((id*12+uint64(inc%12))%100)*10_000 + 500
	d := (class - time.Now().UnixNano()%1_000_000 + 1_000_000) % 1_000_000
	time.Sleep(time.Duration(d))
}

func (s *Sim) Start(id uint64) error {
	n := s.Nodes[id]
	alignStart(id, n.Inc)
	if err := n.R.Start(); err != nil {
		return err
	}
	n.Up = true
	synctest.Wait()
	return nil
}

// Crash cuts the running incarnation off (zombie) and keeps an image of its directory as of now.
func (s *Sim) Crash(id uint64) string {
	n := s.Nodes[id]
	s.dirSeq++
	img := filepath.Join(s.Root, fmt.Sprintf("n%d-%d", id, s.dirSeq))
	copyDir(n.Dir, img)
	s.Net.mu.Lock()
	n.Tr.dead = true
	n.Tr.ae, n.Tr.rv, n.Tr.is = nil, nil, nil
	s.Net.mu.Unlock()
	n.FSM.mu.Lock()
	n.FSM.detached = true
	n.FSM.mu.Unlock()
	n.Up = false
	s.Zombies = append(s.Zombies, n)
	// fail everything the zombie has in flight so that its goroutines can finish
	s.Net.mu.Lock()
	all := append([]*Call{}, s.Net.All...)
	s.Net.mu.Unlock()
	s.Take(func(c *Call) bool { return c.From == id && c.FromInc == n.Inc })
	for _, c := range all {
		if c.From == id && c.FromInc == n.Inc && !c.answered {
			c.answered = true
			c.done <- errors.New("crashed")
		}
	}
	go n.R.Stop()
	synctest.Wait()
	delete(s.Nodes, id)
	return img
}

// ArmCrash arms a crash point inside the node: its k-th next storage operation does not happen
// before the directory image is taken, i.e. the node dies between two storage writes of one
// critical section. The incarnation lives on as a cut-off zombie over its old directory.
func (s *Sim) ArmCrash(id uint64, k int, kind string) {
	n := s.Nodes[id]
	s.dirSeq++
	img := filepath.Join(s.Root, fmt.Sprintf("n%d-%d", id, s.dirSeq))
	n.Rec.Arm(k, kind, func() {
		copyDir(n.Dir, img)
		n.TripImg = img
		s.Net.mu.Lock()
		n.Tr.dead = true
		for _, c := range s.Net.All {
			if c.From == id && c.FromInc == n.Inc && !c.answered {
				c.answered = true
				c.done <- errors.New("crashed")
			}
		}
		s.Net.mu.Unlock()
		n.FSM.mu.Lock()
		n.FSM.detached = true
		n.FSM.mu.Unlock()
	})
}

// Disarm removes a crash point that has not fired.
func (s *Sim) Disarm(id uint64) {
	if n := s.Nodes[id]; n != nil {
		n.Rec.Arm(0, "", nil)
	}
}

// Tripped lists running nodes whose armed crash point has fired.
func (s *Sim) Tripped() []uint64 {
	var out []uint64
	for _, id := range s.IDs() {
		if s.Nodes[id].Rec.Tripped() {
			out = append(out, id)
		}
	}
	return out
}

// FinishTrip does the scheduler-side bookkeeping of a fired crash point and returns the image.
func (s *Sim) FinishTrip(id uint64) string {
	n := s.Nodes[id]
	s.Net.mu.Lock()
	n.Tr.ae, n.Tr.rv, n.Tr.is = nil, nil, nil
	s.Net.mu.Unlock()
	n.Up = false
	s.Zombies = append(s.Zombies, n)
	s.Take(func(c *Call) bool { return c.From == id && c.FromInc == n.Inc })
	go n.R.Stop()
	synctest.Wait()
	delete(s.Nodes, id)
	return n.TripImg
}

// LogOfDir reads the log of a directory image the way a restart would (Open + Replay).
func LogOfDir(dir string) (out LogSt) {
	defer func() { recover() }()
	l, err := raft.NewLog(dir)
	if err != nil {
		return
	}
	if err := l.Open(); err != nil {
		return
	}
	defer l.Close()
	if err := l.Replay(); err != nil {
		return
	}
	n := &SimNode{RawLog: l}
	return n.LogOf()
}

// Restart builds a new incarnation over an image.
func (s *Sim) Restart(id uint64, img string, inc int) error {
	n, err := s.Boot(id, img, inc, nil)
	if err != nil {
		return err
	}
	alignStart(id, inc)
	if err := n.R.Start(); err != nil {
		return err
	}
	n.Up = true
	synctest.Wait()
	return nil
}

func copyDir(src, dst string) {
	filepath.Walk(src, func(p string, info os.FileInfo, err error) error {
		if err != nil {
			return nil
		}
		rel, _ := filepath.Rel(src, p)
		if info.IsDir() {
			os.MkdirAll(filepath.Join(dst, rel), 0o777)
			return nil
		}
		data, err := os.ReadFile(p)
		if err == nil {
			os.MkdirAll(filepath.Dir(filepath.Join(dst, rel)), 0o777)
			os.WriteFile(filepath.Join(dst, rel), data, 0o666)
		}
		return nil
	})
}

// Take removes and returns the parked calls that match.
func (s *Sim) Take(match func(*Call) bool) []*Call {
	s.Net.mu.Lock()
	defer s.Net.mu.Unlock()
	var out, rest []*Call
	for _, c := range s.Net.Pending {
		if match(c) {
			out = append(out, c)
		} else {
			rest = append(rest, c)
		}
	}
	s.Net.Pending = rest
	return out
}

func (s *Sim) PendingCalls() []*Call {
	s.Net.mu.Lock()
	defer s.Net.mu.Unlock()
	cs := canonicalOrder(append([]*Call{}, s.Net.Pending...))
	for _, c := range cs {
		if c.Seq == 0 {
			s.Net.nextSeq++
			c.Seq = s.Net.nextSeq
		}
	}
	return cs
}

// AllCalls returns every call ever made, in canonical order.
func (s *Sim) AllCalls() []*Call {
	s.Net.mu.Lock()
	defer s.Net.mu.Unlock()
	return canonicalOrder(append([]*Call{}, s.Net.All...))
}

// canonicalOrder makes the scheduler's choices independent of the order in which the sender
// goroutines happened to reach the transport (Go map iteration over the members, goroutine
// scheduling): by creation instant (virtual), sender, receiver, kind, content, arrival.
func canonicalOrder(cs []*Call) []*Call {
	key := func(c *Call) string {
		x := *c
		x.ID, x.Seq = 0, 0
		return x.String()
	}
	sort.SliceStable(cs, func(i, j int) bool {
		a, b := cs[i], cs[j]
		if !a.Created.Equal(b.Created) {
			return a.Created.Before(b.Created)
		}
		if a.From != b.From {
			return a.From < b.From
		}
		if a.To != b.To {
			return a.To < b.To
		}
		if a.Kind != b.Kind {
			return a.Kind < b.Kind
		}
		if ka, kb := key(a), key(b); ka != kb {
			return ka < kb
		}
		return a.ID < b.ID
	})
	return cs
}

// Deliver runs the callee's handler on the request (in its own goroutine: InstallSnapshot may block).
func (s *Sim) Deliver(c *Call) {
	if c.Delivered {
		return
	}
	c.Delivered = true
	c.DeliveredAt = time.Now()
	s.Net.mu.Lock()
	p := s.Net.byAddr[Addr(c.To)]
	var ae = p != nil && p.ae != nil && !p.dead
	s.Net.mu.Unlock()
	if !ae {
		c.HErr = errors.New("peer down")
		return
	}
	c.handlerDone = make(chan struct{})
	c.callee = p
	var rec *Rec
	if n := s.Nodes[c.To]; n != nil && n.Tr == p {
		rec = n.Rec
	}
	go func() {
		defer close(c.handlerDone)
		defer func() {
			if r := recover(); r != nil {
				c.HErr = fmt.Errorf("handler panic: %v", r)
				s.Errors = append(s.Errors, fmt.Sprintf("PANIC in %s handler of node %d: %v", c.Kind, c.To, r))
			}
		}()
		switch c.Kind {
		case "AE":
			req := *c.AE
			c.HErr = p.ae(&req, &c.AER)
		case "RV":
			req := *c.RV
			c.HErr = p.rv(&req, &c.RVR)
		case "IS":
			req := *c.IS
			if rec != nil {
				rec.SetIS(req.LastIncludedIndex, req.LastIncludedTerm)
			}
			c.HErr = p.is(&req, &c.ISR)
		}
	}()
	synctest.Wait()
}

// HandlerReturned reports whether a delivered call's handler has finished.
func (c *Call) HandlerReturned() bool {
	if c.handlerDone == nil {
		return c.Delivered
	}
	select {
	case <-c.handlerDone:
		return true
	default:
		return false
	}
}

// Reply hands the produced response (or the handler's error) to the parked caller.
func (s *Sim) Reply(c *Call) {
	if c.handlerDone != nil {
		select {
		case <-c.handlerDone:
		default:
			return // handler still blocked (InstallSnapshot waiting): cannot answer yet
		}
	}
	if c.answered {
		return
	}
	c.answered = true
	s.Net.mu.Lock()
	dead := c.callee != nil && c.callee.dead
	s.Net.mu.Unlock()
	if dead {
		// the callee crashed before its answer left: the answer is lost
		c.done <- errors.New("peer crashed")
	} else {
		c.done <- c.HErr
	}
	synctest.Wait()
}

// Fail makes the parked call return a transport error.
func (s *Sim) Fail(c *Call) {
	if c.answered {
		return
	}
	c.answered = true
	c.done <- errors.New("network")
	synctest.Wait()
}

func (s *Sim) IsCut(from, to uint64) bool { return s.Cut[[2]uint64{from, to}] }
func (s *Sim) Sever(a, b uint64) {
	s.Cut[[2]uint64{a, b}] = true
	s.Cut[[2]uint64{b, a}] = true
}
func (s *Sim) Heal(a, b uint64) {
	delete(s.Cut, [2]uint64{a, b})
	delete(s.Cut, [2]uint64{b, a})
}
func (s *Sim) HealAll() { s.Cut = map[[2]uint64]bool{} }

// Pump delivers and answers every parked call (failing those across a cut) until none is left.
func (s *Sim) Pump() int {
	n := 0
	for round := 0; round < 1000; round++ {
		cs := s.Take(func(*Call) bool { return true })
		if len(cs) == 0 {
			return n
		}
		for _, c := range cs {
			n++
			if s.IsCut(c.From, c.To) {
				s.Fail(c)
				continue
			}
			if c.Kind == "IS" {
				sleepToResidue(500)
			}
			s.Deliver(c)
			if c.HandlerReturned() {
				s.Reply(c)
			} else {
				// handler blocked (InstallSnapshot waiting for the apply loop): answer it later
				s.Blocked = append(s.Blocked, c)
			}
		}
		var still []*Call
		for _, c := range s.Blocked {
			if c.HandlerReturned() {
				s.Reply(c)
			} else {
				still = append(still, c)
			}
		}
		s.Blocked = still
	}
	return n
}

// Run lets virtual time pass for d with prompt delivery every step.
func (s *Sim) Run(d, step time.Duration, until func() bool) bool {
	end := time.Now().Add(d)
	for time.Now().Before(end) {
		s.Pump()
		if until != nil && until() {
			return true
		}
		time.Sleep(step)
		synctest.Wait()
	}
	s.Pump()
	return until != nil && until()
}

func (s *Sim) Leader() uint64 {
	best, bt := uint64(0), uint64(0)
	ids := s.IDs()
	for _, id := range ids {
		st := s.Nodes[id].R.Status()
		if st.State == raft.Leader && st.Term >= bt {
			best, bt = id, st.Term
		}
	}
	return best
}

func (s *Sim) IDs() []uint64 {
	var ids []uint64
	for id := range s.Nodes {
		ids = append(ids, id)
	}
	sort.Slice(ids, func(i, j int) bool { return ids[i] < ids[j] })
	return ids
}

func (s *Sim) StatusLine() string {
	var parts []string
	for _, id := range s.IDs() {
		st := s.Nodes[id].R.Status()
		parts = append(parts, fmt.Sprintf("%d[%s t%d c%d a%d]", id, RoleOf(st.State), st.Term, st.CommitIndex, st.LastApplied))
	}
	return strings.Join(parts, " ")
}

// StopAll shuts everything down, failing parked calls until all goroutines are gone.
func (s *Sim) StopAll() {
	for _, n := range s.Nodes {
		s.Net.mu.Lock()
		n.Tr.dead = true
		s.Net.mu.Unlock()
		if n.FSM.GateApply != nil {
			close(n.FSM.GateApply)
			n.FSM.GateApply = nil
		}
		if n.FSM.GateSnapshot != nil {
			close(n.FSM.GateSnapshot)
			n.FSM.GateSnapshot = nil
		}
		go n.R.Stop()
	}
	for i := 0; i < 3000; i++ {
		s.Take(func(*Call) bool { return true })
		s.Net.mu.Lock()
		all := append([]*Call{}, s.Net.All...)
		s.Net.mu.Unlock()
		for _, c := range all {
			if !c.answered {
				c.answered = true
				select {
				case c.done <- errors.New("shutdown"):
				default:
				}
			}
		}
		time.Sleep(time.Millisecond)
	}
}

// LogOf reads a node's log through the real Log interface.
func (n *SimNode) LogOf() LogSt {
	base, bt, _ := raft.VerifLogBaseOf(n.RawLog)
	out := LogSt{Base: base, BaseTerm: bt}
	defer func() { recover() }()
	size := n.RawLog.Size()
	for i := 1; i <= size; i++ {
		e, err := n.RawLog.GetEntry(base + uint64(i))
		if err != nil {
			break
		}
		out.Ents = append(out.Ents, EntFromRaft(e))
	}
	return out
}
