import RaftVerif.Driver.Text
import RaftVerif.Driver.StorageText
open Raft Raft.Text

/-- One input line → one output line. -/
def stepLine (line : String) : String :=
  let secs := (line.splitOn "|").map (fun s => s.trimAscii.toString)
  match secs with
  | ["AE", now, node, req] =>
    match appendEntries (parseNode node) (natOr now) (parseAEReq req) with
    | none => "err"
    | some (n', r, eff) => s!"{showAEResp r} | {showNode n'} | {showEffects eff}"
  | ["RV", now, node, req] =>
    match requestVote (parseNode node) (natOr now) (parseRVReq req) with
    | none => "err"
    | some (n', r, eff) => s!"{showRVResp r} | {showNode n'} | {showEffects eff}"
  | ["ECHO", node] => showNode (parseNode node)
  | _ => match storageLine secs with
    | some r => r
    | none => "bad-op"

partial def loop (h : IO.FS.Stream) (out : IO.FS.Stream) : IO Unit := do
  let line ← h.getLine
  if line.isEmpty then return ()
  out.putStrLn (stepLine line)
  out.flush
  loop h out

def main : IO Unit := do loop (← IO.getStdin) (← IO.getStdout)
