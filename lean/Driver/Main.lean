import RaftVerif.Driver.Text
import RaftVerif.Driver.StorageText
open Raft Raft.Text

/-- One input line → one output line. -/
def stepLine (line : String) : String :=
  let secs := (line.splitOn "|").map (fun s => s.trimAscii.toString)
  match secs with
  | ["AE", now, node, req] =>
    match appendEntries (parseNode node) (natOr now) (parseAEReq req) with
    | none => "err"
    | some (n', r, eff) => s!"{showAEResp r} | {showNode n'} | {showEffects eff}"
  | ["RV", now, node, req] =>
    match requestVote (parseNode node) (natOr now) (parseRVReq req) with
    | none => "err"
    | some (n', r, eff) => s!"{showRVResp r} | {showNode n'} | {showEffects eff}"
  | ["CASCADE", now, node] =>
    -- one wake-up of the commit loop, then the apply loop until it has nothing to do,
    -- then one wake-up of the read-only loop
    let nowN := natOr now
    let r0 := (parseNode node).commitStep nowN
    let rec applyAll (fuel : Nat) (n : Node) (acc : List String) : Node × List String :=
      match fuel with
      | 0 => (n, acc)
      | fuel + 1 =>
        let r := n.applyStep nowN
        match r.2.2 with
        | .none => (r.1, acc ++ (if r.2.1.isEmpty then [] else ["FATAL"]))
        | .noop i => applyAll fuel r.1 (acc ++ [s!"noop.{i}"])
        | .config i _ _ => applyAll fuel r.1 (acc ++ [s!"config.{i}"])
        | .op e _ => applyAll fuel r.1 (acc ++ [s!"op.{e.index}"])
    let r1 := applyAll 64 r0.1 []
    let r2 := r1.1.readOnlyStep nowN
    let outs := r2.2.map (fun o => match o with | .served t => s!"served.{t}" | .invalidLease t => s!"invalid.{t}")
    s!"{showNode r2.1} | {showEffects r0.2} | applied={joinList r1.2} outs={joinList outs}"
  | ["ISA", now, node, req] =>
    match (parseNode node).installA (natOr now) (parseISReq req) with
    | none => "err"
    | some (n', r, eff, nx) => s!"{showISResp r} | {showNode n'} | {showEffects eff} | next={showISNext nx}"
  | ["ISB", node, req] =>
    let r := (parseNode node).installB (parseISReq req)
    s!"{showNode r.1} | {showEffects r.2}"
  | ["ISC", now, node, req] =>
    let r := (parseNode node).installC (natOr now) (parseISReq req)
    s!"{showNode r.1} | {showEffects r.2}"
  | ["STOP", node] =>
    let r := (parseNode node).stop
    s!"{showNode r.1} | {showEffects r.2}"
  | ["START", now, node, args] =>
    -- args: restore=0/1 stopped=0/1 term=T vote=V dlog=<log> snap=nil|i.t.<cfg>
    let kv := parseKV args
    let snap : Option (Nat × Nat × Config) :=
      let sv := kv.get "snap" "nil"
      if sv == "nil" then none else
      match sv.splitOn "." with
      | i :: t :: rest => some (natOr i, natOr t, parseConfig (".".intercalate rest))
      | _ => none
    let d : Node.Disk := { term := natOr (kv.get "term"), vote := natOr (kv.get "vote"), log := parseLog (kv.get "dlog" "L0.0:-"), snap := snap }
    showNode ((parseNode node).start (natOr now) (parseBool (kv.get "restore")) (parseBool (kv.get "stopped")) d)
  | ["ECHO", node] => showNode (parseNode node)
  | ["QUORUM", cfg, count] => showBool ((parseConfig cfg).hasQuorum (natOr count))
  | ["ELECTION", now, node] =>
    let r := (parseNode node).election (natOr now)
    s!"{showNode r.1} | {showEffects r.2}"
  | ["LEADAGAIN", now, node] =>
    let n := parseNode node
    if n.role = .shutdown then s!"{showNode n} | {showEffects []}" else
    let r0 := n.becomeFollower (natOr now) 2 (n.term + 1)
    let r1 := r0.1.becomeCandidate
    let r2 := r1.1.becomeLeader (natOr now)
    s!"{showNode r2.1} | {showEffects (r0.2 ++ r1.2 ++ r2.2)}"
  | ["HEARTBEAT", now, node] =>
    let r := (parseNode node).heartbeat (natOr now)
    s!"{showNode r.1} | {showEffects r.2}"
  | ["PREPRV", node, args] =>
    let kv := parseKV args
    match (parseNode node).prepareRV (natOr (kv.get "peer")) (parseBool (kv.get "pv")) with
    | none => "nothing"
    | some q => showRVReq q
  | ["VOTEREPLY", now, node, args, req, resp] =>
    let kv := parseKV args
    let r := (parseNode node).onVoteReply (natOr now) (natOr (kv.get "peer")) (natOr (kv.get "round")) (parseRVReq req) (parseRVResp resp)
    s!"{showNode r.1} | {showEffects r.2}"
  | ["PREPAE", node, args] =>
    let kv := parseKV args
    match (parseNode node).prepareAE (natOr (kv.get "peer")) with
    | .nothing => "nothing"
    | .snapshot => "snapshot"
    | .fatal => "FATAL"
    | .panic => "PANIC"
    | .request q => showAEReq q
  | ["AEREPLY", now, node, args, req, resp] =>
    let kv := parseKV args
    let r := (parseNode node).onAEReply (natOr now) (natOr (kv.get "peer")) (natOr (kv.get "round")) (parseAEReq req) (parseAEResp resp)
    s!"{showNode r.1} | {showEffects r.2.1} | snap={showBool r.2.2}"
  | ["COMMIT", now, node] =>
    let r := (parseNode node).commitStep (natOr now)
    s!"{showNode r.1} | {showEffects r.2}"
  | ["APPLY", now, node] =>
    let r := (parseNode node).applyStep (natOr now)
    let a := match r.2.2 with
      | .none => "none"
      | .noop i => s!"noop.{i}"
      | .config i c ans => s!"config.{i}.{showConfig c}.{showBool ans}"
      | .op e f => s!"op.{showEntry e}.{showBool f}"
    s!"{showNode r.1} | {showEffects r.2.1} | applied={a}"
  | ["READONLY", now, node] =>
    let r := (parseNode node).readOnlyStep (natOr now)
    let outs := r.2.map (fun o => match o with | .served t => s!"served.{t}" | .invalidLease t => s!"invalid.{t}")
    s!"{showNode r.1} | outs={joinList outs}"
  | ["SUBMIT", now, node, args] =>
    let kv := parseKV args
    let r := (parseNode node).submitReplicated (natOr now) (natOr (kv.get "data"))
    s!"{showNode r.1} | {showEffects r.2.1} | out={reprStr r.2.2}"
  | ["SUBMITRO", now, node, args] =>
    let kv := parseKV args
    let r := (parseNode node).submitReadOnly (natOr now) (natOr (kv.get "tag")) (parseBool (kv.get "lease"))
    s!"{showNode r.1} | {showEffects r.2.1} | out={reprStr r.2.2}"
  | ["ADD", now, node, args] =>
    let kv := parseKV args
    let r := (parseNode node).addServer (natOr now) (natOr (kv.get "id")) (parseBool (kv.get "voter"))
    s!"{showNode r.1} | {showEffects r.2.1} | out={reprStr r.2.2}"
  | ["REMOVE", now, node, args] =>
    let kv := parseKV args
    let r := (parseNode node).removeServer (natOr now) (natOr (kv.get "id"))
    s!"{showNode r.1} | {showEffects r.2.1} | out={reprStr r.2.2}"
  | _ => match storageLine secs with
    | some r => r
    | none => "bad-op"

partial def loop (h : IO.FS.Stream) (out : IO.FS.Stream) : IO Unit := do
  let line ← h.getLine
  if line.isEmpty then return ()
  out.putStrLn (stepLine line)
  out.flush
  loop h out

def main : IO Unit := do loop (← IO.getStdin) (← IO.getStdout)
