import RaftVerif.Model.Types
import RaftVerif.Model.Log
import RaftVerif.Model.Node
import RaftVerif.Model.Handlers
