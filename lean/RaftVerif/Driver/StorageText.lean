/-
  Driver/StorageText.lean — line protocol for the byte-level models (codec, log file).
-/
import RaftVerif.Driver.Text
import RaftVerif.Model.LogFile
import RaftVerif.Model.Meta
namespace Raft.Text
open Raft.Bytes Raft.Codec Raft.LogFile

def hexOr (s : String) : Bytes := if s == "-" then [] else fromHex s
def showHex (b : Bytes) : String := if b.isEmpty then "-" else toHex b

def showSEntry (e : SEntry) : String := s!"{e.index}.{e.term}.{e.offset}.{e.kind}.{showHex e.data}"
def parseSEntry (s : String) : SEntry :=
  match s.splitOn "." with
  | [i, t, o, k, d] => { index := natOr i, term := natOr t, offset := natOr o, kind := natOr k, data := hexOr d }
  | _ => default

def showWEntry (e : WEntry) : String := s!"{e.index}.{e.term}.{e.kind}.{showHex e.data}"
def parseWEntry (s : String) : WEntry :=
  match s.splitOn "." with
  | [i, t, k, d] => { index := natOr i, term := natOr t, kind := natOr k, data := hexOr d }
  | _ => default

def storageLine (secs : List String) : Option String :=
  match secs with
  | ["REPLAY", hex] =>
    match replay decodeLogBody (hexOr hex) with
    | .corrupt => some "corrupt"
    | .ok es good => some s!"ok good={good} ents={joinList (es.map showSEntry)}"
  | ["WRITESEQ", start, ents] =>
    -- the write loop of AppendEntries / Compact from a file of `start` bytes: the bytes it adds and the offsets it stores
    let r := writeSeq (List.replicate (natOr start) 0) ((splitList ents).map parseSEntry)
    some s!"bytes={showHex (r.1.drop (natOr start))} offs={joinList (r.2.map (fun e => toString e.offset))}"
  | ["ENCLOG", e] => some (showHex (frame (encodeLogBody (parseSEntry e))))
  | ["ENCSTATE", kvs] =>
    let kv := parseKV kvs
    some (showHex (frame (encodeStateBody { term := natOr (kv.get "term"), votedFor := hexOr (kv.get "vote" "-") })))
  | ["DECSTATE", hex] =>
    match readBe32 (hexOr hex) with
    | none => some "err"
    | some (len, rest) =>
      if rest.length < len then some "err" else
      match decodeStateBody (rest.take len) with
      | none => some "err"
      | some s => some s!"term={s.term} vote={showHex s.votedFor}"
  | ["ENC", "AEREQ", kvs] =>
    let kv := parseKV kvs
    let q : WAEReq := { leaderId := hexOr (kv.get "leader" "-"), term := natOr (kv.get "term"), leaderCommit := natOr (kv.get "lc"),
                        prevIndex := natOr (kv.get "pi"), prevTerm := natOr (kv.get "pt"),
                        entries := (splitList (kv.get "ents" "-")).map parseWEntry }
    some (showHex (encodeFields (aeReqFields q)))
  | ["DEC", "AEREQ", hex] =>
    match decodeAEReq (hexOr hex) with
    | none => some "err"
    | some q => some s!"leader={showHex q.leaderId} term={q.term} lc={q.leaderCommit} pi={q.prevIndex} pt={q.prevTerm} ents={joinList (q.entries.map showWEntry)}"
  | ["ENC", "AERESP", kvs] =>
    let kv := parseKV kvs
    some (showHex (encodeFields (aeRespFields { term := natOr (kv.get "term"), index := natOr (kv.get "idx"), success := parseBool (kv.get "ok") })))
  | ["DEC", "AERESP", hex] =>
    match decodeAEResp (hexOr hex) with
    | none => some "err"
    | some r => some s!"term={r.term} idx={r.index} ok={showBool r.success}"
  | ["ENC", "RVREQ", kvs] =>
    let kv := parseKV kvs
    let q : WRVReq := { candidate := hexOr (kv.get "cand" "-"), term := natOr (kv.get "term"),
                        lastIndex := natOr (kv.get "li"), lastTerm := natOr (kv.get "lt"), prevote := parseBool (kv.get "pv") }
    some (showHex (encodeFields (rvReqFields q)))
  | ["DEC", "RVREQ", hex] =>
    match decodeRVReq (hexOr hex) with
    | none => some "err"
    | some q => some s!"cand={showHex q.candidate} term={q.term} li={q.lastIndex} lt={q.lastTerm} pv={showBool q.prevote}"
  | ["ENC", "RVRESP", kvs] =>
    let kv := parseKV kvs
    some (showHex (encodeFields (rvRespFields { term := natOr (kv.get "term"), granted := parseBool (kv.get "ok") })))
  | ["DEC", "RVRESP", hex] =>
    match decodeRVResp (hexOr hex) with
    | none => some "err"
    | some r => some s!"term={r.term} ok={showBool r.granted}"
  | ["ENC", "ISREQ", kvs] =>
    let kv := parseKV kvs
    let q : WISReq := { term := natOr (kv.get "term"), leader := hexOr (kv.get "leader" "-"),
                        lastIndex := natOr (kv.get "li"), lastTerm := natOr (kv.get "lt"), configuration := hexOr (kv.get "cfg" "-"),
                        offset := natOr (kv.get "off"), data := hexOr (kv.get "data" "-"), isDone := parseBool (kv.get "done") }
    some (showHex (encodeFields (isReqFields q)))
  | ["DEC", "ISREQ", hex] =>
    match decodeISReq (hexOr hex) with
    | none => some "err"
    | some q => some s!"term={q.term} leader={showHex q.leader} li={q.lastIndex} lt={q.lastTerm} cfg={showHex q.configuration} off={q.offset} data={showHex q.data} done={showBool q.isDone}"
  | ["ENC", "ISRESP", kvs] =>
    let kv := parseKV kvs
    some (showHex (encodeFields (isRespFields { term := natOr (kv.get "term"), bytesWritten := natOr (kv.get "bw") })))
  | ["DEC", "ISRESP", hex] =>
    match decodeISResp (hexOr hex) with
    | none => some "err"
    | some r => some s!"term={r.term} bw={r.bytesWritten}"
  | ["ENC", "CFG", kvs] =>
    let kv := parseKV kvs
    let pair := fun (t : String) => match t.splitOn ":" with
      | [k, v] => (hexOr k, v)
      | _ => ([], "-")
    let c : WCfg := { index := natOr (kv.get "index"),
                      members := (splitList (kv.get "members" "-")).map (fun t => ((pair t).1, hexOr (pair t).2)),
                      voters := (splitList (kv.get "voters" "-")).map (fun t => ((pair t).1, parseBool (pair t).2)) }
    some (showHex (encodeFields (cfgFields c)))
  | ["DEC", "CFG", hex] =>
    match decodeCfg (hexOr hex) with
    | none => some "err"
    | some c =>
      let ms := joinList (c.members.map (fun kv => s!"{showHex kv.1}:{showHex kv.2}"))
      let vs := joinList (c.voters.map (fun kv => s!"{showHex kv.1}:{showBool kv.2}"))
      some s!"index={c.index} members={ms} voters={vs}"
  | ["ENC", "META", kvs] =>
    let kv := parseKV kvs
    let c := kv.get "cfg" "nil"
    let m : Raft.Meta.SnapMeta := { index := natOr (kv.get "li"), term := natOr (kv.get "lt"), config := if c == "nil" then none else some (hexOr c) }
    some (showHex (Raft.Meta.encodeMeta m))
  | ["DEC", "META", hex] =>
    match Raft.Meta.decodeMeta (hexOr hex) with
    | none => some "err"
    | some m => some s!"li={m.index} lt={m.term} cfg={match m.config with | none => "nil" | some c => showHex c}"
  | _ => none

end Raft.Text
