/-
  Driver/Text.lean — the line protocol between the Go harness and the model.

  A line is `KIND | section | section …`; a section is a list of `key=value` tokens.
  Values: naturals; entries `i.t.k.d` (configuration entries `i.t.2.d.<config>`);
  configurations `c<index>/<id>v/<id>n…`; lists separated by `;` (`-` = empty).
-/
import RaftVerif.Model.Snapshot
import RaftVerif.Model.Lifecycle
namespace Raft.Text

def natOr (s : String) (d : Nat := 0) : Nat := (s.toNat?).getD d

def splitList (s : String) (sep : String := ";") : List String :=
  if s == "-" || s == "" then [] else s.splitOn sep

def joinList (xs : List String) (sep : String := ";") : String :=
  if xs.isEmpty then "-" else sep.intercalate xs

/-- `c<index>/<id>v/<id>n` -/
def showConfig (c : Config) : String :=
  "/".intercalate (("c" ++ toString c.index) :: c.members.map (fun m => toString m.1 ++ (if m.2 then "v" else "n")))

def parseConfig (s : String) : Config :=
  match s.splitOn "/" with
  | [] => Config.empty
  | h :: ms =>
    { index := natOr (h.drop 1).toString,
      members := ms.filterMap (fun m =>
        if m.isEmpty then none else
        let idS := (m.dropEnd 1).toString
        some (natOr idS, m.back == 'v')) }

def showOptConfig : Option Config → String
  | none => "nil"
  | some c => showConfig c

def parseOptConfig (s : String) : Option Config :=
  if s == "nil" || s == "" then none else some (parseConfig s)

def showEntry (e : Entry) : String :=
  let b := s!"{e.index}.{e.term}.{e.kind}.{e.data}"
  match e.cfg with
  | some c => b ++ "." ++ showConfig c
  | none => b

def parseEntry (s : String) : Entry :=
  match s.splitOn "." with
  | [i, t, k, d] => { index := natOr i, term := natOr t, kind := natOr k, data := natOr d }
  | [i, t, k, d, c] => { index := natOr i, term := natOr t, kind := natOr k, data := natOr d, cfg := some (parseConfig c) }
  | _ => default

def showEntries (es : List Entry) : String := joinList (es.map showEntry)
def parseEntries (s : String) : List Entry := (splitList s).map parseEntry

/-- `L<base>.<baseTerm>:<entries>` -/
def showLog (l : Log) : String := s!"L{l.base}.{l.baseTerm}:" ++ showEntries l.ents

def parseLog (s : String) : Log :=
  match s.splitOn ":" with
  | [h, es] =>
    match (h.drop 1).toString.splitOn "." with
    | [b, bt] => { base := natOr b, baseTerm := natOr bt, ents := parseEntries es }
    | _ => {}
  | _ => {}

def showRole : Role → String
  | .leader => "L" | .follower => "F" | .precandidate => "P" | .candidate => "C" | .shutdown => "S"

def parseRole (s : String) : Role :=
  match s with
  | "L" => .leader | "F" => .follower | "P" => .precandidate | "C" => .candidate | _ => .shutdown

def showBool (b : Bool) : String := if b then "1" else "0"
def parseBool (s : String) : Bool := s == "1"

def showFollower (f : Follower) : String := s!"{f.id}.{f.next}.{f.mtch}.{showBool f.snapOpen}"
def parseFollower (s : String) : Follower :=
  match s.splitOn "." with
  | [i, n, m, o] => { id := natOr i, next := natOr n, mtch := natOr m, snapOpen := parseBool o }
  | _ => default

def showRead (r : PendingRead) : String := s!"{r.tag}.{showBool r.lease}.{r.readIndex}.{showBool r.verified}.{r.seq}"
def parseRead (s : String) : PendingRead :=
  match s.splitOn "." with
  | [t, l, ri, v] => { tag := natOr t, lease := parseBool l, readIndex := natOr ri, verified := parseBool v }
  | [t, l, ri, v, sq] => { tag := natOr t, lease := parseBool l, readIndex := natOr ri, verified := parseBool v, seq := natOr sq }
  | _ => default

def showBytesN (b : List Nat) : String :=
  if b.isEmpty then "-" else String.ofList (b.flatMap (fun x =>
    let h := fun (d : Nat) => if d < 10 then Char.ofNat (48 + d) else Char.ofNat (87 + d)
    [h (x / 16), h (x % 16)]))
def parseBytesN (s : String) : List Nat :=
  if s == "-" || s == "" then [] else
  let hv := fun (c : Char) => if c.toNat ≥ 48 ∧ c.toNat ≤ 57 then c.toNat - 48 else if c.toNat ≥ 97 ∧ c.toNat ≤ 102 then c.toNat - 87 else 0
  let rec go : List Char → List Nat
    | a :: b :: rest => (hv a * 16 + hv b) :: go rest
    | _ => []
  go s.toList

def showRecv : Option RecvSnap → String
  | none => "nil"
  | some r => s!"{r.index}.{r.term}.{r.written}.{showBytesN r.data}"
def parseRecv (s : String) : Option RecvSnap :=
  match s.splitOn "." with
  | [i, t, w] => some { index := natOr i, term := natOr t, written := natOr w }
  | [i, t, w, d] => some { index := natOr i, term := natOr t, written := natOr w, data := parseBytesN d }
  | _ => none

def showSnapFile (f : SnapFile) : String := s!"{f.index}.{f.term}.{showBytesN f.data}"
def parseSnapFile (s : String) : SnapFile :=
  match s.splitOn "." with
  | [i, t, d] => { index := natOr i, term := natOr t, data := parseBytesN d }
  | _ => default

/-- key=value section → lookup -/
abbrev KV := List (String × String)

def parseKV (s : String) : KV :=
  (s.trimAscii.toString.splitOn " ").filterMap (fun tok =>
    match tok.splitOn "=" with
    | [k, v] => some (k, v)
    | _ => none)

def KV.get (kv : KV) (k : String) (d : String := "") : String :=
  match kv.find? (·.1 == k) with
  | some p => p.2
  | none => d

def insertSorted (f : Follower) : List Follower → List Follower
  | [] => [f]
  | g :: gs => if f.id ≤ g.id then f :: g :: gs else g :: insertSorted f gs

def sortFollowers (fs : List Follower) : List Follower := fs.foldr insertSorted []

def parseRound (s : String) : Nat × Nat :=
  match s.splitOn "." with
  | [a, b] => (natOr a, natOr b)
  | _ => (0, 0)

def parseRound3 (s : String) : Nat × Nat × Nat :=
  match s.splitOn "." with
  | [a, b, c] => (natOr a, natOr b, natOr c)
  | [a, b] => (natOr a, natOr b, 0)
  | _ => (0, 0, 0)

def showNode (n : Node) : String :=
  " ".intercalate [
    s!"id={n.id}", s!"role={showRole n.role}", s!"term={n.term}", s!"vote={n.votedFor}",
    s!"leader={n.leaderId}", s!"log={showLog n.log}", s!"ci={n.commitIndex}", s!"la={n.lastApplied}",
    s!"si={n.snapIndex}", s!"st={n.snapTerm}", s!"cfg={showConfig n.config}",
    s!"com={showOptConfig n.committed}", s!"lc={n.lastContact}", s!"le={n.leaseExpiry}",
    s!"sv={showBool n.shouldVerify}",
    s!"fol={joinList ((sortFollowers n.followers).map showFollower)}",
    s!"prep={joinList (n.pendingRep.map toString)}",
    s!"reads={joinList (n.pendingReads.map showRead)}",
    s!"cfgf={match n.cfgFuture with | none => "nil" | some i => toString i}",
    s!"recv={showRecv n.recv}", s!"et={n.et}", s!"ld={n.leaseDur}",
    s!"rvr={joinList (n.rvRounds.map (fun r => s!"{r.1}.{r.2}"))}",
    s!"aer={joinList (n.aeRounds.map (fun r => s!"{r.1}.{r.2.1}.{r.2.2}"))}", s!"nr={n.nextRound}",
    s!"rs={n.readSeq}", s!"pw={showBool n.prevoteWon}",
    s!"snaps={joinList (n.snaps.map showSnapFile)}" ]

def parseNode (s : String) : Node :=
  let kv := parseKV s
  { id := natOr (kv.get "id"), role := parseRole (kv.get "role" "F"), term := natOr (kv.get "term"),
    votedFor := natOr (kv.get "vote"), leaderId := natOr (kv.get "leader"),
    log := parseLog (kv.get "log" "L0.0:-"), commitIndex := natOr (kv.get "ci"),
    lastApplied := natOr (kv.get "la"), snapIndex := natOr (kv.get "si"), snapTerm := natOr (kv.get "st"),
    config := parseConfig (kv.get "cfg" "c0"), committed := parseOptConfig (kv.get "com" "nil"),
    lastContact := natOr (kv.get "lc"), leaseExpiry := natOr (kv.get "le"),
    shouldVerify := parseBool (kv.get "sv" "1"),
    followers := (splitList (kv.get "fol" "-")).map parseFollower,
    pendingRep := (splitList (kv.get "prep" "-")).map natOr,
    pendingReads := (splitList (kv.get "reads" "-")).map parseRead,
    cfgFuture := (kv.get "cfgf" "nil").toNat?,
    recv := parseRecv (kv.get "recv" "nil"),
    et := natOr (kv.get "et" "300") 300, leaseDur := natOr (kv.get "ld" "100") 100,
    rvRounds := (splitList (kv.get "rvr" "-")).map parseRound,
    aeRounds := (splitList (kv.get "aer" "-")).map parseRound3,
    nextRound := natOr (kv.get "nr"), readSeq := natOr (kv.get "rs"), prevoteWon := parseBool (kv.get "pw" "0"),
    snaps := (splitList (kv.get "snaps" "-")).map parseSnapFile }

def showEffect : Effect → String
  | .setState t v => s!"ss({t},{v})"
  | .logAppend es => s!"la({showEntries es})"
  | .logTruncate i => s!"lt({i})"
  | .logCompact i => s!"lc({i})"
  | .logDiscard i t => s!"ld({i},{t})"
  | .failFutures => "ff"
  | .failConfigFuture => "fcf"
  | .resetSnapshots => "rs"
  | .signalApply => "sigA" | .signalCommit => "sigC" | .signalReadOnly => "sigR"
  | .signalElection => "sigE" | .signalSnapshot => "sigS"
  | .spawnAE p => s!"ae({p})"
  | .spawnRV p pv => s!"rv({p},{showBool pv})"
  | .snapNew i t => s!"sn({i},{t})"
  | .snapWrite n => s!"sw({n})"
  | .snapClose => "sc"
  | .snapDiscard => "sd"
  | .fatal => "FATAL"
  | .panic => "PANIC"

def showEffects (es : List Effect) : String :=
  "eff=" ++ (if es.isEmpty then "-" else ",".intercalate (es.map showEffect))

def parseAEReq (s : String) : AEReq :=
  let kv := parseKV s
  { leaderId := natOr (kv.get "leader"), term := natOr (kv.get "term"), leaderCommit := natOr (kv.get "lc"),
    prevIndex := natOr (kv.get "pi"), prevTerm := natOr (kv.get "pt"), entries := parseEntries (kv.get "ents" "-") }

def showAEResp (r : AEResp) : String := s!"term={r.term} ok={showBool r.success} idx={r.index}"

def parseRVReq (s : String) : RVReq :=
  let kv := parseKV s
  { candidate := natOr (kv.get "cand"), term := natOr (kv.get "term"), lastIndex := natOr (kv.get "li"),
    lastTerm := natOr (kv.get "lt"), prevote := parseBool (kv.get "pv") }

def showRVResp (r : RVResp) : String := s!"term={r.term} ok={showBool r.granted}"

def showAEReq (q : AEReq) : String :=
  s!"leader={q.leaderId} term={q.term} lc={q.leaderCommit} pi={q.prevIndex} pt={q.prevTerm} ents={showEntries q.entries}"
def showRVReq (q : RVReq) : String :=
  s!"cand={q.candidate} term={q.term} li={q.lastIndex} lt={q.lastTerm} pv={showBool q.prevote}"
def parseAEResp (s : String) : Option AEResp :=
  if s.trimAscii.toString == "err" then none else
  let kv := parseKV s
  some { term := natOr (kv.get "term"), success := parseBool (kv.get "ok"), index := natOr (kv.get "idx") }
def parseRVResp (s : String) : Option RVResp :=
  if s.trimAscii.toString == "err" then none else
  let kv := parseKV s
  some { term := natOr (kv.get "term"), granted := parseBool (kv.get "ok") }

def parseISReq (s : String) : ISReq :=
  let kv := parseKV s
  { leaderId := natOr (kv.get "leader"), term := natOr (kv.get "term"), lastIndex := natOr (kv.get "li"),
    lastTerm := natOr (kv.get "lt"), config := parseConfig (kv.get "cfg" "c0"), offset := natOr (kv.get "off"),
    data := parseBytesN (kv.get "data" "-"), isDone := parseBool (kv.get "done") }
def showISResp (r : ISResp) : String := s!"term={r.term} bw={r.bytesWritten}"
def showISNext : ISNext → String
  | .reply => "reply"
  | .waitApplied => "wait"
  | .restore f => s!"restore.{showSnapFile f}"

end Raft.Text
