/-
  Model/Bytes.lean — byte-level primitives of the wire and file formats: protobuf
  base-128 varints, tags, length-delimited fields, and the 4-byte big-endian length
  prefix of the log/state files. Bytes are `Nat`s below 256 kept in lists (`Byte`).
-/
namespace Raft.Bytes

abbrev Byte := Nat
abbrev Bytes := List Byte

/-- protobuf varint, least-significant group first. Structural recursion on a group
    budget: ten groups cover every value below 2^70 (the code's integers are 64-bit). -/
def encodeVarintAux : Nat → Nat → Bytes
  | 0, n => [n % 128]
  | fuel + 1, n => if n < 128 then [n] else (n % 128 + 128) :: encodeVarintAux fuel (n / 128)

def encodeVarint (n : Nat) : Bytes := encodeVarintAux 9 n

/-- Decodes one varint from the front; `fuel` bounds the number of groups (protobuf
    reads at most 10). Returns the value and the rest. -/
def decodeVarintAux : Nat → Bytes → Option (Nat × Bytes)
  | 0, _ => none
  | _ + 1, [] => none
  | fuel + 1, b :: bs =>
    if b < 128 then some (b, bs)
    else match decodeVarintAux fuel bs with
      | none => none
      | some (v, rest) => some ((b - 128) + 128 * v, rest)

def decodeVarint (bs : Bytes) : Option (Nat × Bytes) := decodeVarintAux 10 bs

/-- 4-byte big-endian length (binary.Write of an int32). -/
def be32 (n : Nat) : Bytes := [n / 16777216 % 256, n / 65536 % 256, n / 256 % 256, n % 256]

def readBe32 : Bytes → Option (Nat × Bytes)
  | a :: b :: c :: d :: rest => some (a * 16777216 + b * 65536 + c * 256 + d, rest)
  | _ => none

/-- A decoded protobuf field. -/
inductive Field
  | varint (num : Nat) (v : Nat)
  | bytes (num : Nat) (v : Bytes)
deriving DecidableEq, Repr

def tagVarint (num : Nat) : Bytes := encodeVarint (num * 8)
def tagBytes (num : Nat) : Bytes := encodeVarint (num * 8 + 2)

def encodeField : Field → Bytes
  | .varint num v => tagVarint num ++ encodeVarint v
  | .bytes num v => tagBytes num ++ encodeVarint v.length ++ v

def encodeFields (fs : List Field) : Bytes := (fs.map encodeField).flatten

/-- Parses a whole message into its fields (wire types 0 and 2 only; anything else
    is an error, as are truncated inputs). -/
def parseFields : Nat → Bytes → Option (List Field)
  | 0, _ => none
  | fuel + 1, bs =>
    if bs = [] then some [] else
    match decodeVarint bs with
    | none => none
    | some (tag, rest) =>
      if tag % 8 = 0 then
        match decodeVarint rest with
        | none => none
        | some (v, rest') =>
          match parseFields fuel rest' with
          | none => none
          | some fs => some (.varint (tag / 8) v :: fs)
      else if tag % 8 = 2 then
        match decodeVarint rest with
        | none => none
        | some (len, rest') =>
          if rest'.length < len then none
          else match parseFields fuel (rest'.drop len) with
            | none => none
            | some fs => some (.bytes (tag / 8) (rest'.take len) :: fs)
      else none

def parseMessage (bs : Bytes) : Option (List Field) := parseFields (bs.length + 1) bs

/-- proto3 "last one wins" for scalar fields; default when absent. -/
def getVarint (fs : List Field) (num : Nat) : Nat :=
  fs.foldl (fun acc f => match f with
    | .varint n v => if n = num then v else acc
    | _ => acc) 0

def getBytes (fs : List Field) (num : Nat) : Bytes :=
  fs.foldl (fun acc f => match f with
    | .bytes n v => if n = num then v else acc
    | _ => acc) []

def hexDigit (n : Nat) : Char := if n < 10 then Char.ofNat (48 + n) else Char.ofNat (87 + n)
def toHex (bs : Bytes) : String := String.ofList (bs.flatMap (fun b => [hexDigit (b / 16), hexDigit (b % 16)]))
def hexVal (c : Char) : Nat :=
  if c.toNat ≥ 48 ∧ c.toNat ≤ 57 then c.toNat - 48
  else if c.toNat ≥ 97 ∧ c.toNat ≤ 102 then c.toNat - 87
  else if c.toNat ≥ 65 ∧ c.toNat ≤ 70 then c.toNat - 55 else 0
def fromHexList : List Char → Bytes
  | a :: b :: rest => (hexVal a * 16 + hexVal b) :: fromHexList rest
  | _ => []
def fromHex (s : String) : Bytes := fromHexList s.toList

end Raft.Bytes
