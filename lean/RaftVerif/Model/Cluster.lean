/-
  Model/Cluster.lean — the election layer of the cluster transition system.

  Nodes are the executable `Node` of the handler model; the cluster composes their
  critical sections (`election`, `prepareRV`, `requestVote`, `onVoteReply`) with a
  network that may lose, delay, reorder and duplicate, with crashes, and with every
  other section of a node abstracted by what it may do to the election state
  (`OtherStep`). All bookkeeping is monotone ghost history (DESIGN.md §3.1):

  * `requests` — every RequestVote call ever created: (src, round, dst, request);
  * `replies`  — every reply any delivery of a call ever produced;
  * `returned` — calls whose caller has processed a reply (each at most once: a `Send*`
                 call returns once);
  * `granters` — calls whose processed reply was a grant (what the round counter counts);
  * `votes`    — every (term, voter, candidate) a node ever held as its persisted vote;
  * `leaders`  — every (term, node) that ever entered the leader state.

  Modelling assumption (recorded in the trusted base, see DESIGN.md S26): the goroutines
  a section spawns build their requests from the state the section left, i.e. `election`
  and the `prepareRV` of the calls it spawns are one step.
-/
import RaftVerif.Model.Leader
namespace Raft

abbrev CallId := Nat × Nat × Nat        -- (src, round, dst)

structure Cluster where
  nodes : Nat → Node
  requests : List (CallId × RVReq) := []
  replies : List (CallId × RVReq × RVResp) := []
  returned : List CallId := []
  granters : List (CallId × RVReq) := []
  votes : List (Nat × Nat × Nat) := []
  leaders : List (Nat × Nat) := []

namespace Cluster

def setNode (c : Cluster) (i : Nat) (n : Node) : Nat → Node := fun j => if j = i then n else c.nodes j

/-- Ghost: a node's persisted vote is recorded whenever its (term, vote) pair changes to a
    non-empty vote. -/
def voteDelta (i : Nat) (n n' : Node) : List (Nat × Nat × Nat) :=
  if n'.votedFor ≠ 0 ∧ (n'.term ≠ n.term ∨ n'.votedFor ≠ n.votedFor) then [(n'.term, i, n'.votedFor)] else []

/-- Ghost: entering the leader state (or leading a new term) is recorded. -/
def leaderDelta (i : Nat) (n n' : Node) : List (Nat × Nat) :=
  if n'.role = .leader ∧ (n.role ≠ .leader ∨ n.term ≠ n'.term) then [(n'.term, i)] else []

/-- The node part of every step: replace node `i`, extend the ghost history. -/
def withNode (c : Cluster) (i : Nat) (n' : Node) : Cluster :=
  { c with nodes := c.setNode i n',
           votes := voteDelta i (c.nodes i) n' ++ c.votes,
           leaders := leaderDelta i (c.nodes i) n' ++ c.leaders }

/-- The calls an election section spawns, with the requests their goroutines build. -/
def spawnedCalls (n' : Node) (rid : Nat) (eff : List Effect) : List (CallId × RVReq) :=
  eff.filterMap fun e =>
    match e with
    | .spawnRV peer pv =>
      match n'.prepareRV peer pv with
      | some q => some ((n'.id, rid, peer), q)
      | none => none
    | _ => none

/-- What any other critical section (replication, apply, client calls, snapshots,
    membership-free bookkeeping) may do to the election state of a node: term and vote
    move as allowed by `TVStep`-style rules, leadership is never gained, a leader keeps
    its term, vote rounds are left alone, identity and configuration are kept. -/
structure OtherStep (n n' : Node) : Prop where
  id_eq : n'.id = n.id
  config_eq : n'.config = n.config
  term_le : n.term ≤ n'.term
  vote_keep : n'.term = n.term → n'.votedFor = n.votedFor
  vote_reset : n'.term ≠ n.term → n'.votedFor = 0
  no_new_leader : n'.role = .leader → n.role = .leader ∧ n'.term = n.term
  rounds_eq : n'.rvRounds = n.rvRounds
  nextRound_le : n.nextRound ≤ n'.nextRound

/-- A crash and restart: term and vote are what was persisted, everything volatile is
    reset, the goroutines of the old incarnation are gone (their calls never return). -/
structure CrashStep (n n' : Node) : Prop where
  id_eq : n'.id = n.id
  config_eq : n'.config = n.config
  term_eq : n'.term = n.term
  vote_eq : n'.votedFor = n.votedFor
  role_eq : n'.role = .follower
  rounds_eq : n'.rvRounds = []
  nextRound_le : n.nextRound ≤ n'.nextRound

inductive Step : Cluster → Cluster → Prop
  /-- one iteration of the election loop of node `i`, together with the requests of the
      goroutines it spawns -/
  | election (c : Cluster) (i now : Nat) :
      Step c { (c.withNode i ((c.nodes i).election now).1) with
               requests := spawnedCalls ((c.nodes i).election now).1 (c.nodes i).nextRound ((c.nodes i).election now).2
                             ++ c.requests }
  /-- a created call is delivered (possibly again, possibly late, possibly after a
      restart of the callee): the callee's handler runs, the reply joins the soup -/
  | deliver (c : Cluster) (k : CallId) (q : RVReq) (now : Nat) (n' : Node) (r : RVResp) (eff : List Effect) :
      (k, q) ∈ c.requests →
      requestVote (c.nodes k.2.2) now q = some (n', r, eff) →
      Step c { (c.withNode k.2.2 n') with replies := (k, q, r) :: c.replies }
  /-- the caller of a call that has not returned yet processes one of its replies -/
  | ret (c : Cluster) (k : CallId) (q : RVReq) (r : RVResp) (now : Nat) :
      (k, q) ∈ c.requests → (k, q, r) ∈ c.replies → k ∉ c.returned →
      Step c { (c.withNode k.1 ((c.nodes k.1).onVoteReply now k.2.2 k.2.1 q (some r)).1) with
               returned := k :: c.returned,
               granters := (if r.granted then [(k, q)] else []) ++ c.granters }
  /-- the call fails (transport error): it returns without a reply -/
  | fail (c : Cluster) (k : CallId) (q : RVReq) :
      (k, q) ∈ c.requests → k ∉ c.returned →
      Step c { c with returned := k :: c.returned }
  /-- any other section of node `i` -/
  | other (c : Cluster) (i : Nat) (n' : Node) :
      OtherStep (c.nodes i) n' → Step c (c.withNode i n')
  /-- node `i` crashes and restarts; the calls of the dead incarnation never return -/
  | crash (c : Cluster) (i : Nat) (n' : Node) :
      CrashStep (c.nodes i) n' →
      Step c { (c.withNode i n') with
               returned := (c.requests.map (·.1)).filter (fun k => k.1 = i) ++ c.returned }

inductive Reachable (init : Cluster) : Cluster → Prop
  | base : Reachable init init
  | step {c c'} : Reachable init c → Step c c' → Reachable init c'

end Cluster
end Raft
