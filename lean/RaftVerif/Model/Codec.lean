/-
  Model/Codec.lean — the records the code stores and sends, as protobuf messages
  (internal/protobuf/raft.proto). Go's proto.Marshal emits known fields in field-number
  order and omits zero scalars and empty byte strings (proto3); that is `optV`/`optB`.
-/
import RaftVerif.Model.Bytes
namespace Raft.Codec
open Raft.Bytes

def optV (num v : Nat) : List Field := if v = 0 then [] else [.varint num v]
def optB (num : Nat) (v : Bytes) : List Field := if v = [] then [] else [.bytes num v]

/-- `LogEntry` as stored in log.bin (with the `Offset` field) -/
structure SEntry where
  index : Nat
  term : Nat
  offset : Nat := 0
  data : Bytes := []
  kind : Nat := 0
deriving DecidableEq, Repr, Inhabited

def logFields (e : SEntry) : List Field :=
  optV 1 e.index ++ optV 2 e.term ++ optV 3 e.offset ++ optB 4 e.data ++ optV 5 e.kind

def encodeLogBody (e : SEntry) : Bytes := encodeFields (logFields e)

def decodeLogBody (bs : Bytes) : Option SEntry :=
  (parseMessage bs).map fun fs =>
    { index := getVarint fs 1, term := getVarint fs 2, offset := getVarint fs 3,
      data := getBytes fs 4, kind := getVarint fs 5 }

/-- `StorageState` of state.bin -/
structure SState where
  term : Nat
  votedFor : Bytes := []
deriving DecidableEq, Repr, Inhabited

def stateFields (s : SState) : List Field := optV 1 s.term ++ optB 2 s.votedFor
def encodeStateBody (s : SState) : Bytes := encodeFields (stateFields s)
def decodeStateBody (bs : Bytes) : Option SState :=
  (parseMessage bs).map fun fs => { term := getVarint fs 1, votedFor := getBytes fs 2 }

/-- A length-prefixed record of log.bin / state.bin. -/
def frame (body : Bytes) : Bytes := be32 body.length ++ body

/-! RPC messages (wire). Entries on the wire carry no offset. -/

structure WEntry where
  index : Nat
  term : Nat
  data : Bytes := []
  kind : Nat := 0
deriving DecidableEq, Repr, Inhabited

def wentryFields (e : WEntry) : List Field := optV 1 e.index ++ optV 2 e.term ++ optB 4 e.data ++ optV 5 e.kind
def decodeWEntry (bs : Bytes) : Option WEntry :=
  (parseMessage bs).map fun fs => { index := getVarint fs 1, term := getVarint fs 2, data := getBytes fs 4, kind := getVarint fs 5 }

structure WAEReq where
  leaderId : Bytes
  term : Nat
  leaderCommit : Nat
  prevIndex : Nat
  prevTerm : Nat
  entries : List WEntry
deriving DecidableEq, Repr, Inhabited

/-- repeated message fields are always emitted, also when the sub-message is empty. -/
def aeReqFields (q : WAEReq) : List Field :=
  optB 1 q.leaderId ++ optV 2 q.term ++ optV 3 q.leaderCommit ++ optV 4 q.prevIndex ++ optV 5 q.prevTerm ++
  q.entries.map (fun e => Field.bytes 6 (encodeFields (wentryFields e)))

def getRepeated (fs : List Field) (num : Nat) : List Bytes :=
  fs.filterMap fun f => match f with
    | .bytes n v => if n = num then some v else none
    | _ => none

def decodeAEReq (bs : Bytes) : Option WAEReq :=
  match parseMessage bs with
  | none => none
  | some fs =>
    match (getRepeated fs 6).mapM decodeWEntry with
    | none => none
    | some es => some { leaderId := getBytes fs 1, term := getVarint fs 2, leaderCommit := getVarint fs 3,
                        prevIndex := getVarint fs 4, prevTerm := getVarint fs 5, entries := es }

structure WAEResp where
  term : Nat
  index : Nat
  success : Bool
deriving DecidableEq, Repr, Inhabited
def aeRespFields (r : WAEResp) : List Field := optV 1 r.term ++ optV 2 r.index ++ optV 3 (if r.success then 1 else 0)
def decodeAEResp (bs : Bytes) : Option WAEResp :=
  (parseMessage bs).map fun fs => { term := getVarint fs 1, index := getVarint fs 2, success := getVarint fs 3 != 0 }

structure WRVReq where
  candidate : Bytes
  term : Nat
  lastIndex : Nat
  lastTerm : Nat
  prevote : Bool
deriving DecidableEq, Repr, Inhabited
def rvReqFields (q : WRVReq) : List Field :=
  optB 1 q.candidate ++ optV 2 q.term ++ optV 3 q.lastIndex ++ optV 4 q.lastTerm ++ optV 5 (if q.prevote then 1 else 0)
def decodeRVReq (bs : Bytes) : Option WRVReq :=
  (parseMessage bs).map fun fs => { candidate := getBytes fs 1, term := getVarint fs 2, lastIndex := getVarint fs 3,
                                    lastTerm := getVarint fs 4, prevote := getVarint fs 5 != 0 }

structure WRVResp where
  term : Nat
  granted : Bool
deriving DecidableEq, Repr, Inhabited
def rvRespFields (r : WRVResp) : List Field := optV 1 r.term ++ optV 2 (if r.granted then 1 else 0)
def decodeRVResp (bs : Bytes) : Option WRVResp :=
  (parseMessage bs).map fun fs => { term := getVarint fs 1, granted := getVarint fs 2 != 0 }

structure WISReq where
  term : Nat
  leader : Bytes
  lastIndex : Nat
  lastTerm : Nat
  configuration : Bytes
  offset : Nat
  data : Bytes
  isDone : Bool
deriving DecidableEq, Repr, Inhabited
def isReqFields (q : WISReq) : List Field :=
  optV 1 q.term ++ optB 2 q.leader ++ optV 3 q.lastIndex ++ optV 4 q.lastTerm ++ optB 5 q.configuration ++
  optV 6 q.offset ++ optB 7 q.data ++ optV 8 (if q.isDone then 1 else 0)
def decodeISReq (bs : Bytes) : Option WISReq :=
  (parseMessage bs).map fun fs =>
    ({ term := getVarint fs 1
       leader := getBytes fs 2
       lastIndex := getVarint fs 3
       lastTerm := getVarint fs 4
       configuration := getBytes fs 5
       offset := getVarint fs 6
       data := getBytes fs 7
       isDone := getVarint fs 8 != 0 } : WISReq)

structure WISResp where
  term : Nat
  bytesWritten : Nat
deriving DecidableEq, Repr, Inhabited
def isRespFields (r : WISResp) : List Field := optV 1 r.term ++ optV 2 r.bytesWritten
def decodeISResp (bs : Bytes) : Option WISResp :=
  (parseMessage bs).map fun fs => { term := getVarint fs 1, bytesWritten := getVarint fs 2 }

end Raft.Codec

namespace Raft.Codec
open Raft.Bytes

/-! `Configuration`: two proto maps and an index. A map is a repeated entry message
    (key = field 1, value = field 2; protobuf-go always emits both, also when empty or
    false) in an unspecified order; the model keeps association lists in wire order, so a
    statement for every list is a statement for every order the Go map iteration can take.
    On decoding, a later entry for the same key overrides an earlier one (`lookupLast`). -/
structure WCfg where
  members : List (Bytes × Bytes) := []
  voters : List (Bytes × Bool) := []
  index : Nat := 0
deriving DecidableEq, Repr, Inhabited

def memberField (kv : Bytes × Bytes) : Field := .bytes 1 (encodeFields [.bytes 1 kv.1, .bytes 2 kv.2])
def voterField (kv : Bytes × Bool) : Field := .bytes 2 (encodeFields [.bytes 1 kv.1, .varint 2 (if kv.2 then 1 else 0)])

def cfgFields (c : WCfg) : List Field := c.members.map memberField ++ c.voters.map voterField ++ optV 3 c.index

def decodeMember (bs : Bytes) : Option (Bytes × Bytes) :=
  (parseMessage bs).map fun fs => (getBytes fs 1, getBytes fs 2)
def decodeVoter (bs : Bytes) : Option (Bytes × Bool) :=
  (parseMessage bs).map fun fs => (getBytes fs 1, getVarint fs 2 != 0)

def decodeCfg (bs : Bytes) : Option WCfg :=
  match parseMessage bs with
  | none => none
  | some fs =>
    match (getRepeated fs 1).mapM decodeMember, (getRepeated fs 2).mapM decodeVoter with
    | some ms, some vs => some { members := ms, voters := vs, index := getVarint fs 3 }
    | _, _ => none

/-- the value a Go map holds for `k` after the entries were inserted in wire order -/
def lookupLast {α : Type} (l : List (Bytes × α)) (k : Bytes) : Option α :=
  l.foldl (fun acc kv => if kv.1 = k then some kv.2 else acc) none

end Raft.Codec
