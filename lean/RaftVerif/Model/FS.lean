/-
  Model/FS.lean — a small file-system model under the process-crash assumption:
  completed system calls persist, a `write` may be cut at any byte, `rename`, `unlink`
  and `ftruncate` are atomic. Files are named by strings; directories are name prefixes
  and a directory rename moves every file below it.
-/
import RaftVerif.Model.Codec
namespace Raft.FS
open Raft.Bytes

abbrev FS := String → Option Bytes

inductive Sys
  | create (p : String)                 -- open(O_CREAT): empty file if absent
  | append (p : String) (bs : Bytes)    -- write at the end of the file
  | rename (a b : String)               -- rename(2) of a file
  | unlink (p : String)
  | truncate (p : String) (n : Nat)
  | fsync (p : String)

def Sys.apply (fs : FS) : Sys → FS
  | .create p => fun q => if q = p then (match fs p with | some b => some b | none => some []) else fs q
  | .append p bs => fun q => if q = p then (match fs p with | some b => some (b ++ bs) | none => none) else fs q
  | .rename a b => fun q => if q = b then fs a else if q = a then none else fs q
  | .unlink p => fun q => if q = p then none else fs q
  | .truncate p n => fun q => if q = p then (fs p).map (·.take n) else fs q
  | .fsync _ => fs

def run (fs : FS) (prog : List Sys) : FS := prog.foldl Sys.apply fs

/-- The file system a crash leaves: the first `k` calls completed; if the next call
    is a write, its first `cut` bytes may have reached the file. -/
def crashImage (fs : FS) (prog : List Sys) (k cut : Nat) : FS :=
  let done := run fs (prog.take k)
  match prog[k]? with
  | some (.append p bs) => Sys.apply done (.append p (bs.take cut))
  | _ => done

end Raft.FS
