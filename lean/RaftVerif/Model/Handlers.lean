/-
  Model/Handlers.lean — the RPC handlers `AppendEntries` and `RequestVote` of raft.go,
  one total function each. A `shutdown` node returns an error in the code; that is
  `none` here.
-/
import RaftVerif.Model.Node
namespace Raft

structure AEReq where
  leaderId : Nat
  term : Nat
  leaderCommit : Nat
  prevIndex : Nat
  prevTerm : Nat
  entries : List Entry
deriving DecidableEq, Repr, Inhabited

structure AEResp where
  term : Nat
  success : Bool
  index : Nat := 0
deriving DecidableEq, Repr, Inhabited

structure RVReq where
  candidate : Nat
  term : Nat
  lastIndex : Nat
  lastTerm : Nat
  prevote : Bool
deriving DecidableEq, Repr, Inhabited

structure RVResp where
  term : Nat
  granted : Bool
deriving DecidableEq, Repr, Inhabited

/-- `existing.IsConflict(entry)`. -/
def isConflict (existing e : Entry) : Bool := existing.index == e.index && existing.term != e.term

/-- The loop that looks for the first index of the conflicting term
    (`for ; index > r.lastIncludedIndex; index--`). Returns the final `index`, or
    `none` when `GetEntry` fails (a `Fatalf`). -/
def conflictScan (l : Log) (snapIndex t : Nat) : Nat → Option Nat
  | 0 => some 0
  | i + 1 =>
    if i + 1 > snapIndex then
      match l.get? (i + 1) with
      | none => none
      | some e => if e.term != t then some (i + 1) else conflictScan l snapIndex t i
    else some (i + 1)

/-- Outcome of the merge loop over `request.Entries`. -/
inductive MergeOut
  | ok (log : Log) (truncAt : Option Nat) (toAppend : List Entry)
  | fatal
deriving Repr

/-- The `for i, entry := range request.Entries` loop: find the first entry that is
    beyond the log or conflicts; truncate at a conflict. -/
def mergeScan (l : Log) : List Entry → MergeOut
  | [] => .ok l none []
  | e :: es =>
    if l.lastIndex < e.index then .ok l none (e :: es)
    else match l.get? e.index with
      | none => .fatal
      | some ex =>
        if !(isConflict ex e) then mergeScan l es
        else match l.truncate e.index with
          | none => .fatal
          | some l' => .ok l' (some e.index) (e :: es)

/-- `AppendEntries(request, response)`. -/
def appendEntries (n : Node) (now : Nat) (q : AEReq) : Option (Node × AEResp × List Effect) :=
  if n.role = .shutdown then none else
  if q.term < n.term then some (n, { term := n.term, success := false }, []) else
  let n1 := { n with lastContact := now, leaderId := q.leaderId }
  let (n2, e2) := if q.term > n1.term then n1.becomeFollower now q.leaderId q.term else (n1, [])
  let (n3, e3) :=
    if q.term = n2.term ∧ (n2.role = .candidate ∨ n2.role = .precandidate)
    then n2.becomeFollower now q.leaderId q.term else (n2, [])
  let eff := e2 ++ e3
  let rT := n2.term
  let reject (i : Nat) : Option (Node × AEResp × List Effect) :=
    some (n3, { term := rT, success := false, index := i }, eff)
  if n3.snapIndex > q.prevIndex then reject (n3.snapIndex + 1) else
  if n3.log.nextIndex ≤ q.prevIndex then reject n3.log.nextIndex else
  if n3.snapIndex = q.prevIndex ∧ n3.snapTerm ≠ q.prevTerm then reject n3.snapIndex else
  let prevCheck : Option (Option Nat) :=   -- none = fatal; some none = ok; some (some i) = reject i
    if n3.snapIndex < q.prevIndex then
      match n3.log.get? q.prevIndex with
      | none => none
      | some pe =>
        if pe.term ≠ q.prevTerm then
          match conflictScan n3.log n3.snapIndex pe.term (q.prevIndex - 1) with
          | none => none
          | some i => some (some (i + 1))
        else some none
    else some none
  match prevCheck with
  | none => some (n3, { term := rT, success := false }, eff ++ [.fatal])
  | some (some i) => reject i
  | some none =>
    match mergeScan n3.log q.entries with
    | .fatal => some (n3, { term := rT, success := true }, eff ++ [.fatal])
    | .ok l1 truncAt toAppend =>
      let n4 := { n3 with log := l1 }
      let (n5, e5) :=
        match truncAt with
        | some ti =>
          if ti ≤ n4.config.index then
            let (m, em) := n4.nextConfiguration now n4.committed
            (m, [Effect.logTruncate ti] ++ em)
          else (n4, [Effect.logTruncate ti])
        | none => (n4, [])
      let n6 := { n5 with log := n5.log.append toAppend }
      let lastVerified := q.prevIndex + q.entries.length
      let c := min q.leaderCommit lastVerified
      let (n7, e7) := if c > n6.commitIndex then ({ n6 with commitIndex := c }, [Effect.signalApply]) else (n6, [])
      some (n7, { term := rT, success := true }, eff ++ e5 ++ [Effect.logAppend toAppend] ++ e7)

/-- `RequestVote(request, response)`. -/
def requestVote (n : Node) (now : Nat) (q : RVReq) : Option (Node × RVResp × List Effect) :=
  if n.role = .shutdown then none else
  if n.leaseValid now || n.contactFresh now then some (n, { term := n.term, granted := false }, []) else
  if q.term < n.term then some (n, { term := n.term, granted := false }, []) else
  let (n1, e1) := if !q.prevote ∧ q.term > n.term then n.becomeFollower now q.candidate q.term else (n, [])
  if !q.prevote ∧ n1.votedFor ≠ 0 ∧ n1.votedFor ≠ q.candidate then
    some (n1, { term := n1.term, granted := false }, e1) else
  if q.lastTerm < n1.log.lastTerm ∨ (q.lastTerm = n1.log.lastTerm ∧ n1.log.lastIndex > q.lastIndex) then
    some (n1, { term := n1.term, granted := false }, e1) else
  if q.prevote then some (n1, { term := n1.term, granted := true }, e1)
  else
    some ({ n1 with lastContact := now, votedFor := q.candidate },
          { term := n1.term, granted := true }, e1 ++ [.setState n1.term q.candidate])

end Raft
