/-
  Model/Handlers.lean — the RPC handlers `AppendEntries` and `RequestVote` of raft.go,
  one total function each. A `shutdown` node returns an error in the code; that is
  `none` here.
-/
import RaftVerif.Model.Node
namespace Raft

structure AEReq where
  leaderId : Nat
  term : Nat
  leaderCommit : Nat
  prevIndex : Nat
  prevTerm : Nat
  entries : List Entry
deriving DecidableEq, Repr, Inhabited

structure AEResp where
  term : Nat
  success : Bool
  index : Nat := 0
deriving DecidableEq, Repr, Inhabited

structure RVReq where
  candidate : Nat
  term : Nat
  lastIndex : Nat
  lastTerm : Nat
  prevote : Bool
deriving DecidableEq, Repr, Inhabited

structure RVResp where
  term : Nat
  granted : Bool
deriving DecidableEq, Repr, Inhabited

/-- `existing.IsConflict(entry)`. -/
def isConflict (existing e : Entry) : Bool := existing.index == e.index && existing.term != e.term

/-- The loop that looks for the first index of the conflicting term
    (`for ; index > r.lastIncludedIndex; index--`). Returns the final `index`, or
    `none` when `GetEntry` fails (a `Fatalf`). -/
def conflictScan (l : Log) (snapIndex t : Nat) : Nat → Option Nat
  | 0 => some 0
  | i + 1 =>
    if i + 1 > snapIndex then
      match l.get? (i + 1) with
      | none => none
      | some e => if e.term != t then some (i + 1) else conflictScan l snapIndex t i
    else some (i + 1)

/-- Outcome of the merge loop over `request.Entries`. -/
inductive MergeOut
  | ok (log : Log) (truncAt : Option Nat) (toAppend : List Entry)
  | fatal
deriving Repr

/-- The `for i, entry := range request.Entries` loop: find the first entry that is
    beyond the log or conflicts; truncate at a conflict. -/
def mergeScan (l : Log) : List Entry → MergeOut
  | [] => .ok l none []
  | e :: es =>
    if l.lastIndex < e.index then .ok l none (e :: es)
    else match l.get? e.index with
      | none => .fatal
      | some ex =>
        if !(isConflict ex e) then mergeScan l es
        else match l.truncate e.index with
          | none => .fatal
          | some l' => .ok l' (some e.index) (e :: es)

/-- Term handling at the top of `AppendEntries` (after the stale-term rejection):
    contact/leader bookkeeping, step to the request's term, leave (pre)candidacy. -/
def aeEnter (n : Node) (now : Nat) (q : AEReq) : Node × List Effect :=
  let n1 := { n with lastContact := now, leaderId := q.leaderId }
  let r2 := if q.term > n1.term then n1.becomeFollower now q.leaderId q.term else (n1, [])
  let r3 :=
    if q.term = r2.1.term ∧ (r2.1.role = .candidate ∨ r2.1.role = .precandidate)
    then r2.1.becomeFollower now q.leaderId q.term else (r2.1, [])
  (r3.1, r2.2 ++ r3.2)

/-- Result of the four previous-entry checks. -/
inductive PrevCheck
  | ok
  | reject (hint : Nat)
  | fatal
deriving DecidableEq, Repr

def aePrevCheck (n : Node) (q : AEReq) : PrevCheck :=
  if n.snapIndex > q.prevIndex then .reject (n.snapIndex + 1) else
  if n.log.nextIndex ≤ q.prevIndex then .reject n.log.nextIndex else
  if n.snapIndex = q.prevIndex ∧ n.snapTerm ≠ q.prevTerm then .reject n.snapIndex else
  if n.snapIndex < q.prevIndex then
    match n.log.get? q.prevIndex with
    | none => .fatal
    | some pe =>
      if pe.term ≠ q.prevTerm then
        match conflictScan n.log n.snapIndex pe.term (q.prevIndex - 1) with
        | none => .fatal
        | some i => .reject (i + 1)
      else .ok
  else .ok

/-- The accepting part of `AppendEntries`: merge, configuration fallback, append, commit. -/
def aeAccept (n : Node) (now : Nat) (q : AEReq) : Node × List Effect :=
  match mergeScan n.log q.entries with
  | .fatal => (n, [.fatal])
  | .ok l1 truncAt toAppend =>
    let n4 := { n with log := l1 }
    let r5 : Node × List Effect :=
      match truncAt with
      | some ti =>
        if ti ≤ n4.config.index then
          ((n4.nextConfiguration now n4.committed).1, [Effect.logTruncate ti] ++ (n4.nextConfiguration now n4.committed).2)
        else (n4, [Effect.logTruncate ti])
      | none => (n4, [])
    let n6 := { r5.1 with log := r5.1.log.append toAppend }
    let c := min q.leaderCommit (q.prevIndex + q.entries.length)
    let r7 : Node × List Effect :=
      if c > n6.commitIndex then ({ n6 with commitIndex := c }, [Effect.signalApply]) else (n6, [])
    (r7.1, r5.2 ++ [Effect.logAppend toAppend] ++ r7.2)

/-- `AppendEntries(request, response)`. -/
def appendEntries (n : Node) (now : Nat) (q : AEReq) : Option (Node × AEResp × List Effect) :=
  if n.role = .shutdown then none else
  if q.term < n.term then some (n, { term := n.term, success := false }, []) else
  let r3 := aeEnter n now q
  let rT := r3.1.term
  match aePrevCheck r3.1 q with
  | .reject i => some (r3.1, { term := rT, success := false, index := i }, r3.2)
  | .fatal => some (r3.1, { term := rT, success := false }, r3.2 ++ [.fatal])
  | .ok =>
    let r := aeAccept r3.1 now q
    some (r.1, { term := rT, success := true }, r3.2 ++ r.2)

/-- The optional step to the request's term at the top of `RequestVote`. -/
def rvEnter (n : Node) (now : Nat) (q : RVReq) : Node × List Effect :=
  if !q.prevote ∧ q.term > n.term then n.becomeFollower now q.candidate q.term else (n, [])

/-- `RequestVote(request, response)`. -/
def requestVote (n : Node) (now : Nat) (q : RVReq) : Option (Node × RVResp × List Effect) :=
  if n.role = .shutdown then none else
  if n.leaseValid now || n.contactFresh now then some (n, { term := n.term, granted := false }, []) else
  if q.term < n.term then some (n, { term := n.term, granted := false }, []) else
  let r1 := rvEnter n now q
  if !q.prevote ∧ r1.1.votedFor ≠ 0 ∧ r1.1.votedFor ≠ q.candidate then
    some (r1.1, { term := r1.1.term, granted := false }, r1.2) else
  if q.lastTerm < r1.1.log.lastTerm ∨ (q.lastTerm = r1.1.log.lastTerm ∧ r1.1.log.lastIndex > q.lastIndex) then
    some (r1.1, { term := r1.1.term, granted := false }, r1.2) else
  if q.prevote then some (r1.1, { term := r1.1.term, granted := true }, r1.2)
  else
    some ({ r1.1 with lastContact := now, votedFor := q.candidate },
          { term := r1.1.term, granted := true }, r1.2 ++ [.setState r1.1.term q.candidate])

end Raft
