/-
  Model/Leader.lean — the remaining critical sections of raft.go: elections, vote and
  replication replies, commit, apply, read-only operations, client submissions and
  membership changes. Sections that release the lock around a blocking call are split
  at the release point (`prepare…` / `on…Reply`).
-/
import RaftVerif.Model.Handlers
namespace Raft
namespace Node

def bumpRound (rs : List (Nat × Nat)) (id : Nat) : List (Nat × Nat) :=
  rs.map fun r => if r.1 = id then (r.1, r.2 + 1) else r

def roundCount (rs : List (Nat × Nat)) (id : Nat) : Nat :=
  match rs.find? (·.1 = id) with
  | some r => r.2
  | none => 0

def bumpAERound (rs : List (Nat × Nat × Nat)) (id : Nat) : List (Nat × Nat × Nat) :=
  rs.map fun r => if r.1 = id then (r.1, r.2.1 + 1, r.2.2) else r

def aeRoundCount (rs : List (Nat × Nat × Nat)) (id : Nat) : Nat :=
  match rs.find? (·.1 = id) with
  | some r => r.2.1
  | none => 0

def aeRoundSeq (rs : List (Nat × Nat × Nat)) (id : Nat) : Nat :=
  match rs.find? (·.1 = id) with
  | some r => r.2.2
  | none => 0

/-- `tryApplyReadOnlyOperations(readSequence)`: mark the reads submitted no later than
    `seq` verified, renew the lease. -/
def tryApplyReadOnly (n : Node) (now seq : Nat) : Node × List Effect :=
  ({ n with pendingReads := n.pendingReads.map (fun r => if r.seq ≤ seq then { r with verified := true } else r),
            leaseExpiry := now + n.leaseDur, shouldVerify := true },
   [.signalReadOnly])

/-- what the node counts for itself when it counts voters: 1 if it is a voter, 0 otherwise (fix S24:
    a leader that demoted itself to a non-voting member keeps leading until it learns of a successor) -/
def selfCount (n : Node) : Nat := if n.config.isVoter n.id then 1 else 0

/-- `sendAppendEntriesToPeers`: a new round whose counter starts with the node itself (if it votes), one
    goroutine per other member. -/
def sendAEToPeers (n : Node) (now : Nat) : Node × List Effect :=
  let r1 : Node × List Effect :=
    if n.config.isSingle n.id then
      let e0 := if n.log.lastIndex > n.commitIndex then [Effect.signalCommit] else []
      let r := n.tryApplyReadOnly now n.readSeq
      (r.1, e0 ++ r.2)
    else (n, [])
  let rid := r1.1.nextRound
  (({ r1.1 with aeRounds := (rid, n.selfCount, n.readSeq) :: r1.1.aeRounds, nextRound := rid + 1 } : Node),
   r1.2 ++ (r1.1.config.memberIds.filter (· ≠ n.id)).map Effect.spawnAE)

/-- `becomeLeader`. -/
def becomeLeader (n : Node) (now : Nat) : Node × List Effect :=
  let n1 := { n with role := .leader, pendingRep := [], pendingReads := [], shouldVerify := true, leaseExpiry := now,
                     readSeq := 0,
                     followers := n.followers.map (fun (f : Follower) => { f with next := n.log.lastIndex + 1, mtch := 0 }) }
  let r2 := n1.resetSnapshots
  let noop : Entry := { index := r2.1.log.nextIndex, term := r2.1.term, kind := kNoop, data := 0 }
  let n3 := { r2.1 with log := r2.1.log.append [noop] }
  let r4 := n3.sendAEToPeers now
  (r4.1, r2.2 ++ [.logAppend [noop]] ++ r4.2)

/-- `becomeCandidate`. -/
def becomeCandidate (n : Node) : Node × List Effect :=
  ({ n with role := .candidate, term := n.term + 1, votedFor := n.id }, [.setState (n.term + 1) n.id])

/-- `sendRequestVoteToPeers`. -/
def sendRVToPeers (n : Node) (now : Nat) : Node × List Effect :=
  if n.config.isSingle n.id then
    let r1 := if n.role ≠ .candidate then n.becomeCandidate else (n, [])
    let r2 := r1.1.becomeLeader now
    (r2.1, r1.2 ++ r2.2)
  else
    let rid := n.nextRound
    let pv := decide (n.role = .precandidate)
    ({ n with rvRounds := (rid, 1) :: n.rvRounds, nextRound := rid + 1 },
     ((n.config.voterIds.filter (· ≠ n.id)).map (fun i => Effect.spawnRV i pv)))

/-- `election()`: one iteration of the election loop body. -/
def election (n : Node) (now : Nat) : Node × List Effect :=
  if n.role = .leader ∨ n.role = .shutdown ∨ n.config.isVoter n.id = false ∨ n.contactFresh now then (n, [])
  else
    let n1 := if n.role = .follower ∨ (n.role = .candidate ∧ n.prevoteWon = false)
              then { n with role := .precandidate } else n
    let r2 := if n1.role = .candidate then ({ n1 with prevoteWon := false } : Node).becomeCandidate else (n1, [])
    let r3 := r2.1.sendRVToPeers now
    (r3.1, r2.2 ++ r3.2)

/-- First half of `sendRequestVote`: the request this goroutine builds, from the
    node's *current* term and log (`none`: nothing is sent). -/
def prepareRV (n : Node) (peer : Nat) (prevote : Bool) : Option RVReq :=
  if n.config.isVoter peer = false ∨ n.config.isVoter n.id = false then none
  else some { candidate := n.id, term := if prevote then n.term + 1 else n.term,
              lastIndex := n.log.lastIndex, lastTerm := n.log.lastTerm, prevote := prevote }

/-- Second half of `sendRequestVote`: the reply arrives (`none`: transport error). -/
def onVoteReply (n : Node) (now : Nat) (peer round : Nat) (q : RVReq) (resp : Option RVResp) : Node × List Effect :=
  match resp with
  | none => (n, [])
  | some r =>
    if n.role = .shutdown then (n, []) else
    if n.term > q.term then (n, []) else
    let n1 := if r.granted then { n with rvRounds := bumpRound n.rvRounds round } else n
    if r.term > q.term then n1.becomeFollower now peer r.term else
    let votes := roundCount n1.rvRounds round
    let r2 : Node × List Effect :=
      if n1.config.hasQuorum votes ∧ n1.role = .precandidate
      then ({ n1 with role := .candidate, prevoteWon := true }, [Effect.signalElection]) else (n1, [])
    if !q.prevote ∧ r2.1.config.hasQuorum votes ∧ r2.1.role = .candidate then
      let r3 := r2.1.becomeLeader now
      (r3.1, r2.2 ++ r3.2)
    else r2

/-- What a replication goroutine sends. -/
inductive AEPlan
  | nothing
  | snapshot                 -- `sendInstallSnapshot`
  | request (q : AEReq)
  | fatal
  | panic
deriving Repr

/-- First half of `sendAppendEntries`. -/
def prepareAE (n : Node) (peer : Nat) : AEPlan :=
  if n.role ≠ .leader ∨ n.config.isMember peer = false then .nothing else
  match n.followers.find? (·.id = peer) with
  | none => .panic
  | some f =>
    if f.next ≤ n.snapIndex then .snapshot else
    let prevIndex := max (f.next - 1) n.snapIndex
    let prevTerm : Option Nat :=
      if prevIndex > n.snapIndex ∧ prevIndex < n.log.nextIndex then (n.log.get? prevIndex).map (·.term)
      else some n.snapTerm
    let cnt := n.log.nextIndex - f.next
    let ents := (List.range cnt).map (fun k => n.log.get? (f.next + k))
    match prevTerm, ents.mapM (fun x => x) with
    | some pt, some es =>
      .request { leaderId := n.id, term := n.term, leaderCommit := n.commitIndex, prevIndex := prevIndex,
                 prevTerm := pt, entries := es }
    | _, _ => .fatal

def setFollower (n : Node) (peer : Nat) (g : Follower → Follower) : Node :=
  { n with followers := n.followers.map (fun f => if f.id = peer then g f else f) }

/-- Second half of `sendAppendEntries`. `wantSnapshot` in the result says that the same
    goroutine goes on with `sendInstallSnapshot`. -/
def onAEReply (n : Node) (now : Nat) (peer round : Nat) (q : AEReq) (resp : Option AEResp) :
    Node × List Effect × Bool :=
  match resp with
  | none => (n, [], false)
  | some r =>
    if n.config.isMember peer = false ∨ n.role ≠ .leader then (n, [], false) else
    if n.term ≠ q.term then (n, [], false) else
    if r.term > n.term then
      let x := n.becomeFollower now peer r.term
      (x.1, x.2, false)
    else
    let r1 : Node × List Effect :=
      if n.config.isVoter peer then
        let n0 := { n with aeRounds := bumpAERound n.aeRounds round }
        if n0.config.hasQuorum (aeRoundCount n0.aeRounds round)
        then n0.tryApplyReadOnly now (aeRoundSeq n0.aeRounds round) else (n0, [])
      else (n, [])
    if !r.success then
      let n2 := r1.1.setFollower peer (fun f => { f with next := r.index })
      (n2, r1.2, decide (r.index ≤ n2.snapIndex))
    else
      let m := q.prevIndex + q.entries.length
      match r1.1.followers.find? (·.id = peer) with
      | none => (r1.1, r1.2 ++ [.panic], false)
      | some f =>
        if m > f.mtch then
          let n2 := r1.1.setFollower peer (fun f => { f with next := max f.next (m + 1), mtch := m })
          (n2, r1.2 ++ (if m > n2.commitIndex then [Effect.signalCommit] else []), false)
        else (r1.1, r1.2, false)

/-- The commit scan of `commitLoop` from `index` upward (`fuel` entries). -/
def commitScan (n : Node) : Nat → Nat → Nat → Option Nat
  | 0, _, best => some best
  | fuel + 1, index, best =>
    match n.log.get? index with
    | none => none
    | some e =>
      if e.term ≠ n.term then commitScan n fuel (index + 1) best
      else
        let cnt := n.selfCount + (n.followers.filter (fun f => f.id ≠ n.id && n.config.isVoter f.id && decide (f.mtch ≥ index))).length
        commitScan n fuel (index + 1) (if n.config.hasQuorum cnt then index else best)

/-- One wake-up of `commitLoop`. -/
def commitStep (n : Node) (now : Nat) : Node × List Effect :=
  if n.role ≠ .leader then (n, []) else
  match commitScan n (n.log.lastIndex - n.commitIndex) (n.commitIndex + 1) n.commitIndex with
  | none => (n, [.fatal])
  | some c =>
    if c > n.commitIndex then
      let r := ({ n with commitIndex := c } : Node).sendAEToPeers now
      (r.1, [.signalApply] ++ r.2)
    else (n, [])

/-- What one step of `applyLoop` hands to the outside. -/
inductive Applied
  | none
  | noop (index : Nat)
  | config (index : Nat) (c : Config) (answered : Bool)
  | op (e : Entry) (hadFuture : Bool)
deriving Repr, DecidableEq

/-- One iteration of the inner loop of `applyLoop`, with `fsm.Apply` taken as part of
    the step (the split version for the snapshot windows is in Model/Snapshot.lean). -/
def applyStep (n : Node) (now : Nat) : Node × List Effect × Applied :=
  if n.lastApplied < n.commitIndex ∧ n.role ≠ .shutdown then
    match n.log.get? (n.lastApplied + 1) with
    | none => (n, [.fatal], .none)
    | some e =>
      if e.kind = kNoop then ({ n with lastApplied := n.lastApplied + 1 }, [], .noop e.index)
      else if e.kind = kConfig then
        match e.cfg with
        | none => (n, [.fatal], .none)
        | some c =>
          let r := n.applyConfiguration now c
          let answered := decide (r.1.cfgFuture = some e.index)
          ({ r.1 with lastApplied := r.1.lastApplied + 1, cfgFuture := if answered then none else r.1.cfgFuture },
           r.2, .config e.index c answered)
      else if e.kind = kOp then
        ({ n with lastApplied := n.lastApplied + 1, pendingRep := n.pendingRep.filter (· ≠ e.index) }, [],
         .op e (n.pendingRep.contains e.index))
      else (n, [.fatal], .none)
  else (n, [], .none)

/-- Outcome of serving one pending read. -/
inductive ReadOut
  | served (tag : Nat)
  | invalidLease (tag : Nat)
deriving Repr, DecidableEq

/-- One wake-up of `readOnlyLoop` (reads are served in list order; the code iterates a map). -/
def readOnlyStep (n : Node) (now : Nat) : Node × List ReadOut :=
  if n.role ≠ .leader then (n, []) else
  match n.committedThisTerm with
  | some true =>
    let ok := fun (r : PendingRead) => (r.lease || r.verified) && decide (r.readIndex ≤ n.lastApplied)
    let served := n.pendingReads.filter ok
    ({ n with pendingReads := n.pendingReads.filter (fun r => !ok r) },
     served.map (fun r => if r.lease && !(n.leaseValid now) then .invalidLease r.tag else .served r.tag))
  | _ => (n, [])

/-- Client-visible answer of a submission that is answered at once. -/
inductive SubmitOut
  | notLeader | noCommitThisTerm | pendingConfig | already | accepted (index : Nat) | registered
deriving Repr, DecidableEq

/-- `submitReplicatedOperation`. -/
def submitReplicated (n : Node) (now : Nat) (data : Nat) : Node × List Effect × SubmitOut :=
  if n.role ≠ .leader then (n, [], .notLeader) else
  let e : Entry := { index := n.log.nextIndex, term := n.term, kind := kOp, data := data }
  let n1 := { n with log := n.log.append [e], pendingRep := n.pendingRep ++ [e.index] }
  let r := n1.sendAEToPeers now
  (r.1, [.logAppend [e]] ++ r.2, .accepted e.index)

/-- The registration part of `submitReadOnlyOperation`: number the read, pick its read index. -/
def registerRead (n : Node) (tag : Nat) (lease : Bool) : Node × PendingRead :=
  let readIndex := match n.committedThisTerm with
    | some false => n.log.lastIndex
    | _ => n.commitIndex
  let rd : PendingRead := { tag := tag, lease := lease, readIndex := readIndex, seq := n.readSeq + 1 }
  ({ n with pendingReads := n.pendingReads ++ [rd], readSeq := n.readSeq + 1 }, rd)

/-- `submitReadOnlyOperation`. -/
def submitReadOnly (n : Node) (now : Nat) (tag : Nat) (lease : Bool) : Node × List Effect × SubmitOut :=
  if n.role ≠ .leader then (n, [], .notLeader) else
  let reg := n.registerRead tag lease
  let n1 := reg.1
  let e1 := if lease ∧ reg.2.readIndex ≤ n1.lastApplied then [Effect.signalReadOnly] else []
  if !lease ∧ n1.shouldVerify then
    let r := n1.sendAEToPeers now
    ({ r.1 with shouldVerify := false }, e1 ++ r.2, .registered)
  else (n1, e1, .registered)

def Config.insert (c : Config) (id : Nat) (voter : Bool) : List (Nat × Bool) :=
  let rest := c.members.filter (·.1 ≠ id)
  let rec ins : List (Nat × Bool) → List (Nat × Bool)
    | [] => [(id, voter)]
    | m :: ms => if id < m.1 then (id, voter) :: m :: ms else m :: ins ms
  ins rest

/-- `AddServer(id, address, isVoter)`. -/
def addServer (n : Node) (now : Nat) (id : Nat) (voter : Bool) : Node × List Effect × SubmitOut :=
  if n.role ≠ .leader then (n, [], .notLeader) else
  match n.committedThisTerm with
  | none => (n, [.fatal], .notLeader)
  | some false => (n, [], .noCommitThisTerm)
  | some true =>
    if n.pendingConfig then (n, [], .pendingConfig) else
    if n.config.isMember id ∧ n.config.isVoter id = voter then (n, [], .already) else
    let c : Config := { index := n.log.nextIndex, members := Config.insert n.config id voter }
    let e : Entry := { index := c.index, term := n.term, kind := kConfig, data := 0, cfg := some c }
    let n1 := { n with log := n.log.append [e], config := c, cfgFuture := some c.index,
                       followers := (n.followers.filter (fun (f : Follower) => f.id ≠ id)) ++ [({ id := id, next := 1 } : Follower)] }
    let r := n1.sendAEToPeers now
    (r.1, [.logAppend [e]] ++ r.2, .accepted c.index)

/-- `RemoveServer(id)`. The node's own configuration is *not* switched (as in the code). -/
def removeServer (n : Node) (now : Nat) (id : Nat) : Node × List Effect × SubmitOut :=
  if n.role ≠ .leader then (n, [], .notLeader) else
  match n.committedThisTerm with
  | none => (n, [.fatal], .notLeader)
  | some false => (n, [], .noCommitThisTerm)
  | some true =>
    if n.pendingConfig then (n, [], .pendingConfig) else
    if n.config.isMember id = false then (n, [], .already) else
    let c : Config := { index := n.log.nextIndex, members := n.config.members.filter (·.1 ≠ id) }
    let e : Entry := { index := c.index, term := n.term, kind := kConfig, data := 0, cfg := some c }
    let n1 := { n with log := n.log.append [e], cfgFuture := some c.index }
    let r := n1.sendAEToPeers now
    (r.1, [.logAppend [e]] ++ r.2, .accepted c.index)

/-- One iteration of `heartbeatLoop`. -/
def heartbeat (n : Node) (now : Nat) : Node × List Effect :=
  if n.role = .shutdown ∨ n.role = .follower then (n, []) else n.sendAEToPeers now

end Node
end Raft
