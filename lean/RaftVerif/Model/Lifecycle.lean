/-
  Model/Lifecycle.lean — `Stop`, `start(restore)` and `restore()` of raft.go.

  `restore()` runs over the *existing* object: what it does not assign keeps its value
  (commit index, applied index and the state machine survive an in-place Stop/Start when
  there is no snapshot on disk). A nil configuration pointer is the empty configuration.
-/
import RaftVerif.Model.Leader
namespace Raft
namespace Node

def cfgIsNil (c : Config) : Bool := c.index == 0 && c.members.isEmpty

/-- the configuration scan of `restore()` over the entries after the snapshot boundary -/
def restoreScan : List Entry → Config → Option Config → Config × Option Config
  | [], cfg, com => (cfg, com)
  | e :: es, cfg, com =>
    if e.kind = kConfig then
      match e.cfg with
      | some c => restoreScan es c (if cfgIsNil cfg then com else some cfg)
      | none => restoreScan es cfg com          -- undecodable: the code returns an error (not modelled)
    else restoreScan es cfg com

/-- What the storages hand to `restore()`. -/
structure Disk where
  term : Nat
  vote : Nat
  log : Log
  snap : Option (Nat × Nat × Config)            -- newest visible snapshot: label and configuration

/-- does the log stop short of the snapshot's last entry, or contradict it? (a crash between the
    publication of a received snapshot and the discard of the log: fix S21) -/
def logMissesBoundary (l : Log) (i t : Nat) : Bool :=
  decide (l.lastIndex < i) || (match l.get? i with
    | some e => decide (e.term ≠ t)
    | none => false)

/-- `restore()`. -/
def restore (n : Node) (d : Disk) : Node :=
  let n1 := { n with term := d.term, votedFor := d.vote, log := d.log }
  let n2 := match d.snap with
    | some (i, t, c) =>
      { n1 with snapIndex := i, snapTerm := t, commitIndex := i, lastApplied := i, config := c, committed := some c,
                log := if logMissesBoundary n1.log i t then n1.log.discard i t else n1.log }
    | none => n1
  let r := restoreScan (n2.log.ents.filter (fun e => decide (n2.snapIndex < e.index))) n2.config n2.committed
  { n2 with config := r.1, committed := r.2 }

/-- `Stop()`. -/
def stop (n : Node) : Node × List Effect :=
  if n.role = .shutdown then (n, []) else
  let r := ({ n with role := .shutdown } : Node).resetSnapshots
  (r.1, r.2)

/-- `start(restore)`; `stopped` = the object has been stopped before. -/
def start (n : Node) (now : Nat) (restoreFlag stopped : Bool) (d : Disk) : Node :=
  if n.role ≠ .shutdown then n else
  let n1 := if restoreFlag || stopped then n.restore d else n
  { n1 with followers := n1.config.memberIds.map (fun i => ({ id := i } : Follower)),
            lastContact := now, role := .follower }

end Node
end Raft
