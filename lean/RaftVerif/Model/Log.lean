/-
  Model/Log.lean — the in-memory view of `persistentLog` (log.go).

  `entries[0]` of the code is a placeholder whose (Index, Term) is the compaction
  base; it is `base`/`baseTerm` here and `ents` is `entries[1:]`. Every accessor is
  the code's definition, including position arithmetic (`GetEntry` indexes by
  `index - entries[0].Index`, `LastIndex` reads the *stored* index of the last
  element), so model and code agree also on logs that are not contiguous.
-/
import RaftVerif.Model.Types
namespace Raft

structure Log where
  base : Nat := 0
  baseTerm : Nat := 0
  ents : List Entry := []
deriving DecidableEq, Repr, Inhabited

namespace Log

def lastIndex (l : Log) : Nat :=
  match l.ents.getLast? with
  | some e => e.index
  | none => l.base

def lastTerm (l : Log) : Nat :=
  match l.ents.getLast? with
  | some e => e.term
  | none => l.baseTerm

def nextIndex (l : Log) : Nat := l.lastIndex + 1

/-- `Size()` = `len(entries) - 1`. -/
def size (l : Log) : Nat := l.ents.length

/-- `Contains(index)`: `!(logIndex <= 0 || logIndex >= len(entries))` with
    `logIndex = index - entries[0].Index` in uint64 (an index below the base wraps
    to a huge value and is rejected by the second test). -/
def contains (l : Log) (i : Nat) : Bool := decide (l.base < i) && decide (i - l.base ≤ l.ents.length)

/-- `GetEntry(index)`; `none` is the error return. -/
def get? (l : Log) (i : Nat) : Option Entry :=
  if l.contains i then l.ents[i - l.base - 1]? else none

/-- `AppendEntries(entries)`. -/
def append (l : Log) (es : List Entry) : Log := { l with ents := l.ents ++ es }

/-- `Truncate(index)`: deletes everything at and after `index`; `none` is the error. -/
def truncate (l : Log) (i : Nat) : Option Log :=
  if l.contains i then some { l with ents := l.ents.take (i - l.base - 1) } else none

/-- `Compact(index)`: the entry at `index` becomes the new placeholder. -/
def compact (l : Log) (i : Nat) : Option Log :=
  if l.contains i then
    match l.ents[i - l.base - 1]? with
    | some e => some { base := e.index, baseTerm := e.term, ents := l.ents.drop (i - l.base) }
    | none => none
  else none

/-- `DiscardEntries(index, term)`. -/
def discard (_l : Log) (i t : Nat) : Log := { base := i, baseTerm := t, ents := [] }

/-- Entries are stored at consecutive indices starting right after the base. -/
def Contig : Nat → List Entry → Prop
  | _, [] => True
  | b, e :: es => e.index = b + 1 ∧ Contig (b + 1) es

instance : (b : Nat) → (es : List Entry) → Decidable (Contig b es)
  | _, [] => isTrue trivial
  | b, e :: es =>
    match decEq e.index (b + 1), instDecidableContig (b + 1) es with
    | isTrue h1, isTrue h2 => isTrue ⟨h1, h2⟩
    | isFalse h1, _ => isFalse (fun h => h1 h.1)
    | _, isFalse h2 => isFalse (fun h => h2 h.2)

/-- Well-formed log: stored indices are contiguous above the base. -/
def WF (l : Log) : Prop := Contig l.base l.ents

instance (l : Log) : Decidable l.WF := by unfold WF; infer_instance

end Log
end Raft
