/-
  Model/LogFile.lean — log.bin as bytes: what `Replay` (with the torn-tail repair of the
  `fix:` commit) reads back, parametric in the record body codec.
-/
import RaftVerif.Model.Codec
namespace Raft.LogFile
open Raft.Bytes Raft.Codec

/-- Result of scanning a log file. -/
inductive Scan (α : Type)
  | ok (entries : List α) (goodSize : Nat)      -- complete records and the end of the last one
  | corrupt                                      -- a complete record whose body does not decode
deriving Repr, DecidableEq

/-- One pass of `Replay`: read `[len][body]` records; stop silently at a torn tail
    (fewer than 4 header bytes, or fewer body bytes than announced). `pos` is the
    offset of `bs` in the file. -/
def scan {α : Type} (dec : Bytes → Option α) : Nat → Nat → Bytes → Scan α
  | 0, pos, _ => .ok [] pos
  | fuel + 1, pos, bs =>
    match readBe32 bs with
    | none => .ok [] pos
    | some (len, rest) =>
      if rest.length < len then .ok [] pos
      else match dec (rest.take len) with
        | none => .corrupt
        | some e =>
          match scan dec fuel (pos + 4 + len) (rest.drop len) with
          | .corrupt => .corrupt
          | .ok es good => .ok (e :: es) good

def replay {α : Type} (dec : Bytes → Option α) (file : Bytes) : Scan α := scan dec (file.length + 1) 0 file

/-- The file `Replay` leaves behind: truncated to the last complete record, and the
    placeholder record appended when there is none. -/
def repaired (file : Bytes) (good : Nat) : Bytes := file.take good

/-- The loop shared by `AppendEntries` and `Compact` (log.go): every entry is given the
    current end of the file as its offset, then its record is written there. -/
def writeSeq (file : Bytes) : List SEntry → Bytes × List SEntry
  | [] => (file, [])
  | e :: es =>
    let e' : SEntry := { e with offset := file.length }
    let r := writeSeq (file ++ frame (encodeLogBody e')) es
    (r.1, e' :: r.2)

end Raft.LogFile
