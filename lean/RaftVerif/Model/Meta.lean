/-
  Model/Meta.lean — the snapshot metadata file (metadata.json): what encoding/json writes for
  `SnapshotMetadata{LastIncludedIndex, LastIncludedTerm uint64; Configuration []byte}`:
  `{"last_included_index":N,"last_included_term":N,"configuration":"<base64>"}` (`null` for a
  nil slice), decimal numbers, standard base64 with padding. The reader here accepts exactly
  what this writer (and Go's) produces — the only producer of these files is the library.
-/
import RaftVerif.Model.Bytes
namespace Raft.Meta
open Raft.Bytes

/-! ### decimal -/

/-- digits of `n`, most significant first, in front of `acc`; `fuel` bounds the number of digits -/
def decAux : Nat → Nat → Bytes → Bytes
  | 0, n, acc => (48 + n % 10) :: acc
  | fuel + 1, n, acc => if n < 10 then (48 + n) :: acc else decAux fuel (n / 10) ((48 + n % 10) :: acc)

/-- decimal rendering (twenty digits cover 2^64) -/
def encDec (n : Nat) : Bytes := decAux 19 n []

def isDigit (b : Nat) : Bool := decide (48 ≤ b ∧ b ≤ 57)

/-- reads a run of digits: value so far, rest -/
def readDigits : Bytes → Nat → Nat × Bytes
  | [], v => (v, [])
  | b :: bs, v => if isDigit b then readDigits bs (v * 10 + (b - 48)) else (v, b :: bs)

/-- a number: at least one digit -/
def readDec (bs : Bytes) : Option (Nat × Bytes) :=
  match bs with
  | b :: _ => if isDigit b then some (readDigits bs 0) else none
  | [] => none

/-! ### base64 (RFC 4648, with padding) -/

def b64char (i : Nat) : Nat :=
  if i < 26 then 65 + i else if i < 52 then 97 + (i - 26) else if i < 62 then 48 + (i - 52) else if i = 62 then 43 else 47

def b64val (c : Nat) : Option Nat :=
  if 65 ≤ c ∧ c ≤ 90 then some (c - 65)
  else if 97 ≤ c ∧ c ≤ 122 then some (c - 97 + 26)
  else if 48 ≤ c ∧ c ≤ 57 then some (c - 48 + 52)
  else if c = 43 then some 62
  else if c = 47 then some 63
  else none

def b64enc : List Nat → List Nat
  | [] => []
  | [a] => [b64char (a / 4), b64char (a % 4 * 16), 61, 61]
  | [a, b] => [b64char (a / 4), b64char (a % 4 * 16 + b / 16), b64char (b % 16 * 4), 61]
  | a :: b :: c :: rest =>
    b64char (a / 4) :: b64char (a % 4 * 16 + b / 16) :: b64char (b % 16 * 4 + c / 64) :: b64char (c % 64) :: b64enc rest

/-- decodes up to (not including) the closing quote; `fuel` > number of groups -/
def b64dec : Nat → List Nat → Option (List Nat × List Nat)
  | 0, _ => none
  | fuel + 1, bs =>
    match bs with
    | [] => none
    | w :: r1 =>
      if w = 34 then some ([], bs) else
      match r1 with
      | x :: y :: z :: rest =>
        match b64val w, b64val x with
        | some p, some q =>
          if y = 61 ∧ z = 61 then (if q % 16 = 0 then some ([p * 4 + q / 16], rest) else none)
          else match b64val y with
            | none => none
            | some r =>
              if z = 61 then (if r % 4 = 0 then some ([p * 4 + q / 16, q % 16 * 16 + r / 4], rest) else none)
              else match b64val z with
                | none => none
                | some t =>
                  match b64dec fuel rest with
                  | some (out, rest') => some ((p * 4 + q / 16) :: (q % 16 * 16 + r / 4) :: (r % 4 * 64 + t) :: out, rest')
                  | none => none
        | _, _ => none
      | _ => none

/-! ### the file -/

structure SnapMeta where
  index : Nat
  term : Nat
  config : Option Bytes     -- `none`: a nil slice (`null`)
deriving DecidableEq, Repr

def str (s : String) : Bytes := s.toList.map Char.toNat

def k1 : Bytes := str "{\"last_included_index\":"
def k2 : Bytes := str ",\"last_included_term\":"
def k3 : Bytes := str ",\"configuration\":"

def encodeMeta (m : SnapMeta) : Bytes :=
  k1 ++ encDec m.index ++ k2 ++ encDec m.term ++ k3 ++
    (match m.config with
     | none => str "null"
     | some c => [34] ++ b64enc c ++ [34]) ++ [125]

def dropPrefix (p bs : Bytes) : Option Bytes := if bs.take p.length = p then some (bs.drop p.length) else none

def decodeMeta (bs : Bytes) : Option SnapMeta :=
  match dropPrefix k1 bs with
  | none => none
  | some r1 =>
  match readDec r1 with
  | none => none
  | some (i, r2) =>
  match dropPrefix k2 r2 with
  | none => none
  | some r3 =>
  match readDec r3 with
  | none => none
  | some (t, r4) =>
  match dropPrefix k3 r4 with
  | none => none
  | some r5 =>
    if r5 = str "null}" then some ⟨i, t, none⟩ else
    match r5 with
    | 34 :: r6 =>
      match b64dec (r6.length + 1) r6 with
      | some (c, [34, 125]) => some ⟨i, t, some c⟩
      | _ => none
    | _ => none

end Raft.Meta
