/-
  Model/Node.lean — the state of one node (`Raft` struct of raft.go) and the
  role-transition helpers (`becomeFollower`, `stepdown`, `nextConfiguration`, …).

  One Lean function per critical section: `f : Node → inputs → Node × output × List Effect`.
  Time is an input (`now`, in the unit of the election timeout); the code reads
  `time.Now()` at the corresponding places.
-/
import RaftVerif.Model.Log
namespace Raft

/-- `follower` struct: replication state a leader keeps per other member. -/
structure Follower where
  id : Nat
  next : Nat := 0
  mtch : Nat := 0
  snapOpen : Bool := false
deriving DecidableEq, Repr, Inhabited

/-- A pending read-only operation (`Operation` in `pendingReadOnly`). -/
structure PendingRead where
  tag : Nat
  lease : Bool
  readIndex : Nat
  verified : Bool := false
  seq : Nat := 0                      -- position in the sequence of reads submitted to this leader
deriving DecidableEq, Repr, Inhabited

/-- The snapshot file being received (`r.snapshot`). -/
structure RecvSnap where
  index : Nat
  term : Nat
  written : Nat
  data : List Nat := []               -- the bytes written so far
deriving DecidableEq, Repr, Inhabited

/-- A snapshot directory that `Close` made visible: the label of its metadata (taken from
    the request that *created* the file) and its bytes. -/
structure SnapFile where
  index : Nat
  term : Nat
  data : List Nat
deriving DecidableEq, Repr, Inhabited

structure Node where
  id : Nat
  role : Role := .follower
  term : Nat := 0
  votedFor : Nat := 0                 -- 0 renders "" (no vote)
  leaderId : Nat := 0
  log : Log := {}
  commitIndex : Nat := 0
  lastApplied : Nat := 0
  snapIndex : Nat := 0                -- lastIncludedIndex
  snapTerm : Nat := 0                 -- lastIncludedTerm
  config : Config := Config.empty
  committed : Option Config := none
  lastContact : Nat := 0
  leaseExpiry : Nat := 0
  shouldVerify : Bool := true
  followers : List Follower := []
  pendingRep : List Nat := []
  pendingReads : List PendingRead := []
  cfgFuture : Option Nat := none      -- log index the membership future waits for
  recv : Option RecvSnap := none
  et : Nat := 300                     -- election timeout
  leaseDur : Nat := 100
  /-- per-round shared counters of the reply goroutines (`votesRecieved`, `numResponses`):
      (round id, count). A round is created by `sendRequestVoteToPeers` /
      `sendAppendEntriesToPeers`; its goroutines keep the pointer for as long as they live. -/
  rvRounds : List (Nat × Nat) := []
  /-- replication rounds also remember the number of the last read submitted before them -/
  aeRounds : List (Nat × Nat × Nat) := []
  nextRound : Nat := 0
  readSeq : Nat := 0                  -- `operationManager.readSequence`
  prevoteWon : Bool := false
  snaps : List SnapFile := []         -- visible snapshots, oldest first
deriving DecidableEq, Repr, Inhabited

namespace Node

/-- `time.Since(r.lastContact) < r.options.electionTimeout`. -/
def contactFresh (n : Node) (now : Nat) : Bool := decide (now < n.lastContact + n.et)
/-- `leaderLease.isValid()`: `time.Now().Before(expiration)`. -/
def leaseValid (n : Node) (now : Nat) : Bool := decide (now < n.leaseExpiry)

/-- `resetSnapshotFiles`. -/
def resetSnapshots (n : Node) : Node × List Effect :=
  ({ n with followers := n.followers.map (fun f => { f with snapOpen := false }), recv := none },
   if n.recv.isSome then [.snapDiscard] else [])

/-- `becomeFollower(leaderID, term)` (with the same-term vote kept, see the `fix:` commit). -/
def becomeFollower (n : Node) (now leader term : Nat) : Node × List Effect :=
  let vote := if term > n.term then 0 else n.votedFor
  let n1 := { n with role := .follower, term := term, leaderId := leader, votedFor := vote }
  let (n2, e2) := n1.resetSnapshots
  ({ n2 with pendingRep := [], pendingReads := [], shouldVerify := true, leaseExpiry := now,
             cfgFuture := none, readSeq := 0 },
   [.setState term vote] ++ e2 ++ [.failFutures] ++ (if n.cfgFuture.isSome then [.failConfigFuture] else []))

/-- `stepdown()`: leave leadership after being removed; term and vote are not persisted. -/
def stepdown (n : Node) (now : Nat) : Node × List Effect :=
  ({ n with role := .follower, pendingRep := [], pendingReads := [], shouldVerify := true,
            leaseExpiry := now, readSeq := 0 },
   [.failFutures])

/-- `nextConfiguration(next)`; `none` is the nil pointer the truncation fallback may pass. -/
def nextConfiguration (n : Node) (now : Nat) (next : Option Config) : Node × List Effect :=
  match next with
  | none => (n, [.panic])
  | some c =>
    let (n1, e1) :=
      if c.isMember n.id then (n, [])
      else
        let (a, ea) := if n.role = .leader then n.stepdown now else (n, [])
        let (b, eb) := a.resetSnapshots
        (b, ea ++ eb)
    let addedIds := c.memberIds.filter (fun i => !(n1.config.isMember i))
    let kept := n1.followers.filter (fun f =>
      (!(n1.config.isMember f.id) || c.isMember f.id) && !(addedIds.contains f.id))
    let added := addedIds.map (fun i => ({ id := i, next := 1 } : Follower))
    ({ n1 with followers := kept ++ added, config := c }, e1)

/-- `applyConfiguration(data)` with `data` already decoded. -/
def applyConfiguration (n : Node) (now : Nat) (c : Config) : Node × List Effect :=
  match n.committed with
  | some cc => if c.index ≤ cc.index then (n, []) else
      let (n1, e1) := n.nextConfiguration now (some c)
      ({ n1 with committed := some c }, e1)
  | none =>
      let (n1, e1) := n.nextConfiguration now (some c)
      ({ n1 with committed := some c }, e1)

/-- `committedThisTerm()`. -/
def committedThisTerm (n : Node) : Option Bool :=
  if n.log.contains n.commitIndex then
    match n.log.get? n.commitIndex with
    | some e => some (e.term == n.term)
    | none => none
  else some (n.snapTerm == n.term)

/-- `pendingConfigurationChange()`. -/
def pendingConfig (n : Node) : Bool :=
  match n.committed with
  | none => true
  | some cc => cc.index != n.config.index

end Node
end Raft
