/-
  Model/Prevote.lean — prevote and stickiness at the cluster level, with time (C16).

  Terms move in two ways only: a node that has collected prevotes of a quorum IN ITS CURRENT
  ROUND becomes a candidate (term + 1), or a node adopts the term of another node from a message.
  A node grants a prevote only when it has not accepted a request of a leader within the election
  timeout `ET` (the stickiness guard of the RequestVote handler, which sits in front of
  everything else: C16_sticky_refuses; the election loop raises the term only after a won
  prevote: C16_term_only_after_prevote). Everything else is left open: any node may start a round,
  ask, be granted by whoever is not in contact, adopt, crash (contact is volatile) at any time;
  messages are not modelled (a grant is usable from the moment it is given, for ever, by the
  round it falls into — more than the code allows, which ties a reply to its round's id).
-/
import RaftVerif.Model.Repl
namespace Raft
namespace Prevote

structure PState where
  now : Nat := 0
  term : Nat → Nat := fun _ => 0
  heard : Nat → Option Nat := fun _ => none    -- when the node last accepted a request of a leader
  roundStart : Nat → Nat := fun _ => 0         -- when the node's current prevote round began
  grants : List (Nat × Nat × Nat) := []        -- (candidate, voter, time)

def setAt {α : Type} (f : Nat → α) (i : Nat) (x : α) : Nat → α := fun j => if j = i then x else f j

def inContact (ET : Nat) (s : PState) (m : Nat) : Prop := ∃ h, s.heard m = some h ∧ s.now < h + ET

inductive PStep (cfg : Config) (ET : Nat) : PState → PState → Prop
  | tick (s : PState) (d : Nat) : PStep cfg ET s { s with now := s.now + d }
  | contact (s : PState) (m : Nat) : PStep cfg ET s { s with heard := setAt s.heard m (some s.now) }
  | startRound (s : PState) (c : Nat) : PStep cfg ET s { s with roundStart := setAt s.roundStart c s.now }
  | grant (s : PState) (c m : Nat) : ¬ inContact ET s m →
      PStep cfg ET s { s with grants := (c, m, s.now) :: s.grants }
  | candidacy (s : PState) (c : Nat) (Q : List Nat) : Repl.IsQuorum cfg Q →
      (∀ m ∈ Q, ∃ τ, s.roundStart c ≤ τ ∧ (c, m, τ) ∈ s.grants) →
      PStep cfg ET s { s with term := setAt s.term c (s.term c + 1) }
  | adopt (s : PState) (n k : Nat) : s.term n < s.term k →
      PStep cfg ET s { s with term := setAt s.term n (s.term k) }
  | crash (s : PState) (n : Nat) : PStep cfg ET s { s with heard := setAt s.heard n none }

inductive PReachable (cfg : Config) (ET : Nat) : PState → Prop
  | base : PReachable cfg ET {}
  | step {s s'} : PReachable cfg ET s → PStep cfg ET s s' → PReachable cfg ET s'

/-- a run from `s0` every state of which satisfies `P` -/
inductive RunP (cfg : Config) (ET : Nat) (P : PState → Prop) (s0 : PState) : PState → Prop
  | base : P s0 → RunP cfg ET P s0 s0
  | step {a b} : RunP cfg ET P s0 a → PStep cfg ET a b → P b → RunP cfg ET P s0 b

/-- every member of `Q` is in prompt contact with a leader -/
def QContact (ET : Nat) (Q : List Nat) (s : PState) : Prop := ∀ m ∈ Q, inContact ET s m

end Prevote
end Raft
