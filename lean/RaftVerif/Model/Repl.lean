/-
  Model/Repl.lean — the replication layer of the cluster transition system.

  The election layer (Model/Cluster.lean) composes the executable node functions and
  abstracts replication by `OtherStep`. This file is the other half: a cluster whose steps
  are the log-changing sections of the code, each reduced to what it does to
  (term, role, log, commit index) of one node, over a network that may lose, delay,
  reorder and duplicate (requests live in a monotone soup, a delivery picks any of them,
  any number of times), with crashes (log and vote persist, everything else is lost).
  Static configuration, no compaction (snapshots: C10/C11; membership: C09).

  The correspondence with the node functions of Model/{Handlers,Leader}.lean — that is,
  with the code, through E3/E4 — is Proofs/ReplRefine.lean: `merge` is `mergeScan`,
  the accept branch of `recvAE` is `aeAccept`, `clientAppend` is `submitReplicated`,
  `becomeLeader` is `Node.becomeLeader`, `advanceCommit` is `commitStep`.

  Ghost history (monotone):
  * `votes` — (term, voter, candidate): every vote ever granted (it is also the persisted
              vote: a node votes at most once per term because it consults this record);
  * `glog`  — the log of the leader of each term, as long as it leads (append-only);
  * `acked` — (node, index, term): the node answered success to a request of that term
              covering the log up to that index (the leader "acks" its own appends).
-/
import RaftVerif.Model.Types
namespace Raft
namespace Repl

structure AEntry where
  term : Nat
  payload : Nat
deriving DecidableEq, Repr, Inhabited

inductive ARole
  | follower | candidate | leader
deriving DecidableEq, Repr, Inhabited

structure ANode where
  term : Nat := 0
  role : ARole := .follower
  log : List AEntry := []
  commit : Nat := 0
deriving Repr, Inhabited

/-- term of the entry at (1-based) index `i`; 0 at index 0 and beyond the end. -/
def termAt (l : List AEntry) (i : Nat) : Nat :=
  match i with
  | 0 => 0
  | i + 1 => match l[i]? with
    | some e => e.term
    | none => 0

def lastTerm (l : List AEntry) : Nat := termAt l l.length

structure AEMsg where
  term : Nat
  prev : Nat
  prevTerm : Nat
  entries : List AEntry
  commit : Nat
  stamp : Nat := 0          -- ghost: when the request was built (any value here; Model/ReplRead.lean pins it to its clock)
deriving DecidableEq, Repr, Inhabited

structure RVMsg where
  term : Nat
  cand : Nat
  lastIdx : Nat
  lastTerm : Nat
deriving DecidableEq, Repr, Inhabited

structure AState where
  nodes : Nat → ANode
  aes : List AEMsg := []
  rvs : List RVMsg := []
  votes : List (Nat × Nat × Nat) := []
  glog : Nat → Option (Nat × List AEntry) := fun _ => none
  acked : List (Nat × Nat × Nat) := []

/-- The follower's merge loop (`mergeScan` of the handler model, on positions): walk the
    request's entries; an entry beyond the end appends the rest; a term mismatch cuts the
    log there and appends the rest; matching entries are skipped. `pos` = index of the
    entry before the current one. -/
def merge (log : List AEntry) (pos : Nat) : List AEntry → List AEntry
  | [] => log
  | e :: es =>
    match log[pos]? with
    | none => log ++ (e :: es)
    | some x => if x.term = e.term then merge log (pos + 1) es else log.take pos ++ (e :: es)

def IsQuorum (cfg : Config) (Q : List Nat) : Prop :=
  Q.Nodup ∧ (∀ v ∈ Q, cfg.isVoter v = true) ∧ cfg.hasQuorum Q.length = true

def setNode (s : AState) (i : Nat) (n : ANode) : Nat → ANode := fun j => if j = i then n else s.nodes j

def upToDate (q : RVMsg) (l : List AEntry) : Prop :=
  q.lastTerm > lastTerm l ∨ (q.lastTerm = lastTerm l ∧ q.lastIdx ≥ l.length)

inductive Step (cfg : Config) : AState → AState → Prop
  /-- election timeout: next term, vote for itself, ask everybody -/
  | timeout (s : AState) (i : Nat) :
      (s.nodes i).role ≠ .leader →
      Step cfg s { s with
        nodes := setNode s i { s.nodes i with term := (s.nodes i).term + 1, role := .candidate },
        votes := ((s.nodes i).term + 1, i, i) :: s.votes,
        rvs := ⟨(s.nodes i).term + 1, i, (s.nodes i).log.length, lastTerm (s.nodes i).log⟩ :: s.rvs }
  /-- a voter grants a (real) vote: the request is not older than its term, it has not voted
      for anybody else in that term, the candidate's log is at least as up to date -/
  | grant (s : AState) (m : Nat) (q : RVMsg) :
      q ∈ s.rvs → (s.nodes m).term ≤ q.term →
      (∀ c, (q.term, m, c) ∈ s.votes → c = q.cand) →
      upToDate q (s.nodes m).log →
      Step cfg s { s with
        nodes := setNode s m { s.nodes m with term := q.term,
                                              role := if (s.nodes m).term < q.term then .follower else (s.nodes m).role },
        votes := (q.term, m, q.cand) :: s.votes }
  /-- a candidate that holds the votes of a quorum for its term becomes leader and appends a no-op -/
  | becomeLeader (s : AState) (c : Nat) (Q : List Nat) :
      (s.nodes c).role = .candidate → IsQuorum cfg Q →
      (∀ m ∈ Q, ((s.nodes c).term, m, c) ∈ s.votes) →
      Step cfg s { s with
        nodes := setNode s c { s.nodes c with role := .leader, log := (s.nodes c).log ++ [⟨(s.nodes c).term, 0⟩] },
        glog := fun t => if t = (s.nodes c).term then some (c, (s.nodes c).log ++ [⟨(s.nodes c).term, 0⟩]) else s.glog t,
        acked := (c, (s.nodes c).log.length + 1, (s.nodes c).term) :: s.acked }
  /-- a leader appends a client operation -/
  | clientAppend (s : AState) (l : Nat) (payload : Nat) :
      (s.nodes l).role = .leader →
      Step cfg s { s with
        nodes := setNode s l { s.nodes l with log := (s.nodes l).log ++ [⟨(s.nodes l).term, payload⟩] },
        glog := fun t => if t = (s.nodes l).term then some (l, (s.nodes l).log ++ [⟨(s.nodes l).term, payload⟩]) else s.glog t,
        acked := (l, (s.nodes l).log.length + 1, (s.nodes l).term) :: s.acked }
  /-- a leader builds a replication request from any point of its log, with any number of entries -/
  | sendAE (s : AState) (l prev k stamp : Nat) :
      (s.nodes l).role = .leader → prev ≤ (s.nodes l).log.length →
      Step cfg s { s with
        aes := ⟨(s.nodes l).term, prev, termAt (s.nodes l).log prev, ((s.nodes l).log.drop prev).take k, (s.nodes l).commit, stamp⟩ :: s.aes }
  /-- a node accepts a replication request: previous entry matches -/
  | recvAEok (s : AState) (n : Nat) (m : AEMsg) :
      m ∈ s.aes → (s.nodes n).term ≤ m.term →
      ((s.nodes n).role ≠ .leader ∨ (s.nodes n).term < m.term) →
      m.prev ≤ (s.nodes n).log.length → termAt (s.nodes n).log m.prev = m.prevTerm →
      Step cfg s { s with
        nodes := setNode s n { term := m.term, role := .follower,
                               log := merge (s.nodes n).log m.prev m.entries,
                               commit := max (s.nodes n).commit (min m.commit (m.prev + m.entries.length)) },
        acked := (n, m.prev + m.entries.length, m.term) :: s.acked }
  /-- a node rejects a replication request of a current or newer term: only term and role move -/
  | recvAErej (s : AState) (n : Nat) (m : AEMsg) :
      m ∈ s.aes → (s.nodes n).term ≤ m.term →
      ((s.nodes n).role ≠ .leader ∨ (s.nodes n).term < m.term) →
      Step cfg s { s with nodes := setNode s n { s.nodes n with term := m.term, role := .follower } }
  /-- a leader advances its commit index to an entry of its own term stored by a quorum -/
  | advanceCommit (s : AState) (l i : Nat) (Q : List Nat) :
      (s.nodes l).role = .leader → i ≤ (s.nodes l).log.length → termAt (s.nodes l).log i = (s.nodes l).term →
      IsQuorum cfg Q → (∀ m ∈ Q, ∃ j, i ≤ j ∧ (m, j, (s.nodes l).term) ∈ s.acked) →
      Step cfg s { s with nodes := setNode s l { s.nodes l with commit := max (s.nodes l).commit i } }
  /-- a node learns of a higher term from any message -/
  | higherTerm (s : AState) (n t : Nat) :
      (s.nodes n).term < t →
      Step cfg s { s with nodes := setNode s n { s.nodes n with term := t, role := .follower } }
  /-- crash and restart: log (and vote: `votes`) persist -/
  | crash (s : AState) (n : Nat) :
      Step cfg s { s with nodes := setNode s n { s.nodes n with role := .follower, commit := 0 } }

def init : AState := { nodes := fun _ => {} }

inductive Reachable (cfg : Config) : AState → Prop
  | base : Reachable cfg init
  | step {s s'} : Reachable cfg s → Step cfg s s' → Reachable cfg s'

end Repl
end Raft
