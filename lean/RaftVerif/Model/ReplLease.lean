/-
  Model/ReplLease.lean — leases on top of the timed replication-layer model.

  Parameters: `ET` (election timeout), `LD` (lease duration), `D` (bound on the time from
  building a replication request to processing its answer at the leader). A run is *timely*
  when (1) a node votes — for itself or another — only `ET` after it last answered a
  replication request (the stickiness guard of `RequestVote` and of the election loop), and
  (2) a leader uses an answer only within `D` of building the request. The leader renews its
  lease to `now + LD` when a quorum (itself included) has answered the requests of one round
  (one build time), as `tryApplyReadOnlyOperations` does.
-/
import RaftVerif.Model.ReplRead
namespace Raft
namespace Repl

structure LState where
  r : RState
  contact : Nat → Nat := fun _ => 0                       -- when the node last answered a replication request
  proc : List (Nat × Nat × Nat × Nat × Nat) := []         -- (leader, node, term, stamp, time): answer processed
  leases : List (Nat × Nat × Nat) := []                   -- (leader, term, valid untl)

inductive LStep (cfg : Config) (ET LD D : Nat) : LState → LState → Prop
  /-- a step of the timed model in which node `m` casts a vote: only `ET` after its last answer -/
  | vote (l : LState) (r' : RState) (T m c : Nat) :
      RStep cfg l.r r' → r'.voteAt = (T, m, c, l.r.now) :: l.r.voteAt → r'.hbAck = l.r.hbAck →
      l.contact m + ET ≤ l.r.now →
      LStep cfg ET LD D l { l with r := r' }
  /-- a step in which node `n` answers a replication request: its contact time is now -/
  | answer (l : LState) (r' : RState) (n T st : Nat) :
      RStep cfg l.r r' → r'.voteAt = l.r.voteAt → r'.hbAck = (n, T, st, l.r.now) :: l.r.hbAck →
      LStep cfg ET LD D l { l with r := r', contact := fun j => if j = n then l.r.now else l.contact j }
  /-- any other step of the timed model (also: time passing) -/
  | quiet (l : LState) (r' : RState) :
      RStep cfg l.r r' → r'.voteAt = l.r.voteAt → r'.hbAck = l.r.hbAck →
      LStep cfg ET LD D l { l with r := r' }
  /-- the leader processes an answer, within `D` of building the request -/
  | process (l : LState) (ldr m T st τa : Nat) :
      (m, T, st, τa) ∈ l.r.hbAck → l.r.now ≤ st + D →
      LStep cfg ET LD D l { l with proc := (ldr, m, T, st, l.r.now) :: l.proc }
  /-- the round built at `st` has reached a quorum: the lease is renewed -/
  | renew (l : LState) (ldr st : Nat) (Q : List Nat) :
      (l.r.s.nodes ldr).role = .leader → IsQuorum cfg Q →
      (∀ m ∈ Q, m = ldr ∨ ∃ τp, (ldr, m, (l.r.s.nodes ldr).term, st, τp) ∈ l.proc) → l.r.now ≤ st + D →
      LStep cfg ET LD D l { l with leases := (ldr, (l.r.s.nodes ldr).term, l.r.now + LD) :: l.leases }

def linit : LState := { r := rinit }

inductive LReachable (cfg : Config) (ET LD D : Nat) : LState → Prop
  | base : LReachable cfg ET LD D linit
  | step {l l'} : LReachable cfg ET LD D l → LStep cfg ET LD D l l' → LReachable cfg ET LD D l'

/-- the lease of `ldr` for its current term is valid now -/
def LeaseValid (l : LState) (ldr : Nat) : Prop :=
  (l.r.s.nodes ldr).role = .leader ∧ ∃ untl, (ldr, (l.r.s.nodes ldr).term, untl) ∈ l.leases ∧ l.r.now < untl

end Repl
end Raft
