/-
  Model/ReplRead.lean — the replication-layer model with a logical clock and linearizable reads.

  Every step of Model/Repl.lean is lifted unchanged; the clock advances by one per step and a
  ghost history records *when* a vote was cast, a leader elected, a replication request
  answered (with the time the request was built), a commit index advanced; a leader may
  register a read (`readSubmit`), taking the read index the code takes. `CanServe` is the
  guard under which the code answers the read.
-/
import RaftVerif.Model.Repl
namespace Raft
namespace Repl

structure Read where
  leader : Nat
  term : Nat
  readIndex : Nat
  time : Nat
deriving DecidableEq, Repr

structure CommitEv where
  leader : Nat
  term : Nat
  index : Nat
  pre : List AEntry        -- the committed prefix the leader answered for
  time : Nat
deriving DecidableEq, Repr

structure RState where
  s : AState
  now : Nat := 0
  voteAt : List (Nat × Nat × Nat × Nat) := []   -- (term, voter, candidate, time)
  electAt : List (Nat × Nat × Nat) := []        -- (term, leader, time)
  hbAck : List (Nat × Nat × Nat × Nat) := []    -- (node, term, stamp of the request, time of the answer)
  commitAt : List CommitEv := []
  reads : List Read := []

/-! the states the steps of Model/Repl.lean lead to, as functions -/

def timeoutS (s : AState) (i : Nat) : AState := { s with
  nodes := setNode s i { s.nodes i with term := (s.nodes i).term + 1, role := .candidate },
  votes := ((s.nodes i).term + 1, i, i) :: s.votes,
  rvs := ⟨(s.nodes i).term + 1, i, (s.nodes i).log.length, lastTerm (s.nodes i).log⟩ :: s.rvs }

def grantS (s : AState) (m : Nat) (q : RVMsg) : AState := { s with
  nodes := setNode s m { s.nodes m with term := q.term,
                                        role := if (s.nodes m).term < q.term then .follower else (s.nodes m).role },
  votes := (q.term, m, q.cand) :: s.votes }

def becomeLeaderS (s : AState) (c : Nat) : AState := { s with
  nodes := setNode s c { s.nodes c with role := .leader, log := (s.nodes c).log ++ [⟨(s.nodes c).term, 0⟩] },
  glog := fun t => if t = (s.nodes c).term then some (c, (s.nodes c).log ++ [⟨(s.nodes c).term, 0⟩]) else s.glog t,
  acked := (c, (s.nodes c).log.length + 1, (s.nodes c).term) :: s.acked }

def clientAppendS (s : AState) (l payload : Nat) : AState := { s with
  nodes := setNode s l { s.nodes l with log := (s.nodes l).log ++ [⟨(s.nodes l).term, payload⟩] },
  glog := fun t => if t = (s.nodes l).term then some (l, (s.nodes l).log ++ [⟨(s.nodes l).term, payload⟩]) else s.glog t,
  acked := (l, (s.nodes l).log.length + 1, (s.nodes l).term) :: s.acked }

def sendAES (s : AState) (l prev k stamp : Nat) : AState := { s with
  aes := ⟨(s.nodes l).term, prev, termAt (s.nodes l).log prev, ((s.nodes l).log.drop prev).take k, (s.nodes l).commit, stamp⟩ :: s.aes }

def recvAEokS (s : AState) (n : Nat) (m : AEMsg) : AState := { s with
  nodes := setNode s n { term := m.term, role := .follower,
                         log := merge (s.nodes n).log m.prev m.entries,
                         commit := max (s.nodes n).commit (min m.commit (m.prev + m.entries.length)) },
  acked := (n, m.prev + m.entries.length, m.term) :: s.acked }

def recvAErejS (s : AState) (n : Nat) (m : AEMsg) : AState :=
  { s with nodes := setNode s n { s.nodes n with term := m.term, role := .follower } }

def advanceCommitS (s : AState) (l i : Nat) : AState :=
  { s with nodes := setNode s l { s.nodes l with commit := max (s.nodes l).commit i } }

def higherTermS (s : AState) (n t : Nat) : AState :=
  { s with nodes := setNode s n { s.nodes n with term := t, role := .follower } }

def crashS (s : AState) (n : Nat) : AState :=
  { s with nodes := setNode s n { s.nodes n with role := .follower, commit := 0 } }

/-- the read index `registerRead` takes: the commit index once an entry of the leader's own
    term is committed, the end of the log before that (fix S28) -/
def readIndexOf (n : ANode) : Nat := if termAt n.log n.commit = n.term then n.commit else n.log.length

inductive RStep (cfg : Config) : RState → RState → Prop
  | timeout (r : RState) (i : Nat) : (r.s.nodes i).role ≠ .leader →
      RStep cfg r { r with s := timeoutS r.s i, now := r.now + 1,
                           voteAt := ((r.s.nodes i).term + 1, i, i, r.now) :: r.voteAt }
  | grant (r : RState) (m : Nat) (q : RVMsg) :
      q ∈ r.s.rvs → (r.s.nodes m).term ≤ q.term → (∀ c, (q.term, m, c) ∈ r.s.votes → c = q.cand) →
      upToDate q (r.s.nodes m).log →
      RStep cfg r { r with s := grantS r.s m q, now := r.now + 1, voteAt := (q.term, m, q.cand, r.now) :: r.voteAt }
  | becomeLeader (r : RState) (c : Nat) (Q : List Nat) :
      (r.s.nodes c).role = .candidate → IsQuorum cfg Q → (∀ m ∈ Q, ((r.s.nodes c).term, m, c) ∈ r.s.votes) →
      RStep cfg r { r with s := becomeLeaderS r.s c, now := r.now + 1,
                           electAt := ((r.s.nodes c).term, c, r.now) :: r.electAt }
  | clientAppend (r : RState) (l payload : Nat) : (r.s.nodes l).role = .leader →
      RStep cfg r { r with s := clientAppendS r.s l payload, now := r.now + 1 }
  | sendAE (r : RState) (l prev k : Nat) : (r.s.nodes l).role = .leader → prev ≤ (r.s.nodes l).log.length →
      RStep cfg r { r with s := sendAES r.s l prev k r.now, now := r.now + 1 }
  | recvAEok (r : RState) (n : Nat) (m : AEMsg) :
      m ∈ r.s.aes → (r.s.nodes n).term ≤ m.term → ((r.s.nodes n).role ≠ .leader ∨ (r.s.nodes n).term < m.term) →
      m.prev ≤ (r.s.nodes n).log.length → termAt (r.s.nodes n).log m.prev = m.prevTerm →
      RStep cfg r { r with s := recvAEokS r.s n m, now := r.now + 1, hbAck := (n, m.term, m.stamp, r.now) :: r.hbAck }
  | recvAErej (r : RState) (n : Nat) (m : AEMsg) :
      m ∈ r.s.aes → (r.s.nodes n).term ≤ m.term → ((r.s.nodes n).role ≠ .leader ∨ (r.s.nodes n).term < m.term) →
      RStep cfg r { r with s := recvAErejS r.s n m, now := r.now + 1, hbAck := (n, m.term, m.stamp, r.now) :: r.hbAck }
  | advanceCommit (r : RState) (l i : Nat) (Q : List Nat) :
      (r.s.nodes l).role = .leader → i ≤ (r.s.nodes l).log.length → termAt (r.s.nodes l).log i = (r.s.nodes l).term →
      IsQuorum cfg Q → (∀ m ∈ Q, ∃ j, i ≤ j ∧ (m, j, (r.s.nodes l).term) ∈ r.s.acked) →
      RStep cfg r { r with s := advanceCommitS r.s l i, now := r.now + 1,
                           commitAt := ⟨l, (r.s.nodes l).term, max (r.s.nodes l).commit i,
                                        (r.s.nodes l).log.take (max (r.s.nodes l).commit i), r.now⟩ :: r.commitAt }
  | higherTerm (r : RState) (n t : Nat) : (r.s.nodes n).term < t →
      RStep cfg r { r with s := higherTermS r.s n t, now := r.now + 1 }
  | crash (r : RState) (n : Nat) :
      RStep cfg r { r with s := crashS r.s n, now := r.now + 1 }
  /-- a leader registers a linearizable read -/
  | readSubmit (r : RState) (l : Nat) : (r.s.nodes l).role = .leader →
      RStep cfg r { r with now := r.now + 1,
                           reads := ⟨l, (r.s.nodes l).term, readIndexOf (r.s.nodes l), r.now⟩ :: r.reads }
  /-- time passes: any amount, with nothing happening -/
  | tick (r : RState) (d : Nat) : RStep cfg r { r with now := r.now + 1 + d }

def rinit : RState := { s := init }

inductive RReachable (cfg : Config) : RState → Prop
  | base : RReachable cfg rinit
  | step {r r'} : RReachable cfg r → RStep cfg r r' → RReachable cfg r'

/-- The guard under which the code answers a registered read with the state machine as of
    applied index `a`: still leader of the read's term; an entry of that term is committed;
    the read index is applied; and a quorum (the leader counts itself) answered replication
    requests of this term that were built after the read was registered. -/
def CanServe (cfg : Config) (r : RState) (rd : Read) (a : Nat) (Q : List Nat) : Prop :=
  rd ∈ r.reads ∧ (r.s.nodes rd.leader).role = .leader ∧ (r.s.nodes rd.leader).term = rd.term ∧
  termAt (r.s.nodes rd.leader).log (r.s.nodes rd.leader).commit = rd.term ∧
  rd.readIndex ≤ a ∧ a ≤ (r.s.nodes rd.leader).commit ∧
  IsQuorum cfg Q ∧ ∀ m ∈ Q, m = rd.leader ∨ ∃ stamp τ, rd.time ≤ stamp ∧ (m, rd.term, stamp, τ) ∈ r.hbAck

end Repl
end Raft
