/-
  Model/Snapshot.lean — `InstallSnapshot` (three phases), `takeSnapshot` (two phases) and
  the state machine as far as snapshots are concerned.

  `InstallSnapshot` holds the lock except (i) while it waits on `applyCond` for the apply
  loop to reach the label when the boundary entry matches, and (ii) around
  `fsm.Restore`. The phases are `installA` (everything up to those points), `installB`
  (after the wait: compact) and `installC` (after the restore: adopt the label, discard
  the log, apply the configuration).
-/
import RaftVerif.Model.Leader
namespace Raft

structure ISReq where
  leaderId : Nat
  term : Nat
  lastIndex : Nat
  lastTerm : Nat
  config : Config
  offset : Nat
  data : List Nat
  isDone : Bool
deriving DecidableEq, Repr, Inhabited

structure ISResp where
  term : Nat
  bytesWritten : Nat := 0
deriving DecidableEq, Repr, Inhabited

/-- How the handler continues after its first locked section. -/
inductive ISNext
  | reply                          -- returns now
  | waitApplied                    -- boundary entry matches: wait for the apply loop, then compact
  | restore (f : SnapFile)         -- restore the state machine from the newest snapshot, then discard the log
deriving DecidableEq, Repr

namespace Node

/-- Term handling at the top of `InstallSnapshot` (after the stale-term rejection). -/
def isEnter (n : Node) (now : Nat) (q : ISReq) : Node × List Effect :=
  let r1 := if n.term < q.term then n.becomeFollower now q.leaderId q.term else (n, [])
  let r2 :=
    if q.term = r1.1.term ∧ (r1.1.role = .candidate ∨ r1.1.role = .precandidate)
    then r1.1.becomeFollower now q.leaderId q.term else (r1.1, [])
  ({ r2.1 with lastContact := now }, r1.2 ++ r2.2)

/-- Discard an incomplete snapshot with a smaller label. -/
def isDiscardOlder (n : Node) (q : ISReq) : Node × List Effect :=
  match n.recv with
  | some f => if f.index < q.lastIndex then ({ n with recv := none }, [.snapDiscard]) else (n, [])
  | none => (n, [])

/-- Create a file if none is open: its metadata carries the label of *this* request. -/
def isOpenFile (n : Node) (q : ISReq) : Node × List Effect × RecvSnap :=
  match n.recv with
  | some f => (n, [], f)
  | none =>
    let f : RecvSnap := { index := q.lastIndex, term := q.lastTerm, written := 0 }
    ({ n with recv := some f }, [.snapNew q.lastIndex q.lastTerm], f)

/-- Close: the file becomes visible under the label of the request that created it; the
    node adopts the label of *this* request; decide how to go on. -/
def isClose (n : Node) (f : RecvSnap) (q : ISReq) : Node × ISNext :=
  let file : SnapFile := { index := f.index, term := f.term, data := f.data }
  let n4 := { n with recv := none, snaps := n.snaps ++ [file], snapIndex := q.lastIndex, snapTerm := q.lastTerm }
  match n4.log.get? q.lastIndex with
  | some e =>
    if e.term = q.lastTerm then (n4, .waitApplied)
    else (n4, .restore (n4.snaps.getLast?.getD file))
  | none => (n4, .restore (n4.snaps.getLast?.getD file))

/-- First locked section of `InstallSnapshot`. -/
def installA (n : Node) (now : Nat) (q : ISReq) : Option (Node × ISResp × List Effect × ISNext) :=
  if n.role = .shutdown then none else
  if n.term > q.term then some (n, { term := n.term }, [], .reply) else
  let r0 := n.isEnter now q
  let rT := r0.1.term
  -- nothing new
  -- (the chunk is acknowledged so that the leader finishes the transfer: fix S14)
  if r0.1.snapIndex ≥ q.lastIndex ∨ r0.1.lastApplied ≥ q.lastIndex then
    some (r0.1, { term := rT, bytesWritten := q.offset + q.data.length }, r0.2, .reply) else
  let r1 := r0.1.isDiscardOlder q
  let r2 := r1.1.isOpenFile q
  let f := r2.2.2
  let eff := r0.2 ++ r1.2 ++ r2.2.1
  if q.offset ≠ f.written then some (r2.1, { term := rT, bytesWritten := f.written }, eff, .reply) else
  let f' : RecvSnap := { f with written := f.written + q.data.length, data := f.data ++ q.data }
  let n3 := { r2.1 with recv := some f' }
  let eff3 := eff ++ (if q.data.isEmpty then [] else [.snapWrite q.data.length])
  if !q.isDone then some (n3, { term := rT, bytesWritten := f'.written }, eff3, .reply) else
  let r4 := n3.isClose f' q
  some (r4.1, { term := rT, bytesWritten := f'.written }, eff3 ++ [.snapClose], r4.2)

/-- After the wait on `applyCond` (runs when `lastApplied ≥ label` or the node stopped). -/
def installB (n : Node) (q : ISReq) : Node × List Effect :=
  if n.role = .shutdown ∨ n.snapIndex > q.lastIndex then (n, []) else
  match n.log.compact q.lastIndex with
  | some l => ({ n with log := l }, [.logCompact q.lastIndex])
  | none => (n, [.logCompact q.lastIndex, .fatal])

/-- After `fsm.Restore` returned. -/
def installC (n : Node) (now : Nat) (q : ISReq) : Node × List Effect :=
  if n.role = .shutdown then (n, []) else
  let n1 := { n with lastApplied := q.lastIndex, commitIndex := q.lastIndex, log := n.log.discard q.lastIndex q.lastTerm }
  let r := n1.applyConfiguration now q.config
  (r.1, [.logDiscard q.lastIndex q.lastTerm] ++ r.2)

/-- What `takeSnapshot` fixes while it still holds the lock: the label. -/
structure SnapLabel where
  index : Nat
  term : Nat
  config : Config
deriving DecidableEq, Repr

/-- First locked section of `takeSnapshot` (`none`: no snapshot is taken). -/
def snapshotBegin (n : Node) : Option (SnapLabel × List Effect) :=
  if n.lastApplied ≤ n.snapIndex then none else
  match n.committed with
  | none => none
  | some cc =>
    if cc.index > n.lastApplied then none else
    match n.log.get? n.lastApplied with
    | none => some (⟨0, 0, cc⟩, [.fatal])
    | some e => some (⟨e.index, e.term, cc⟩, [.snapNew e.index e.term])

/-- Second locked section of `takeSnapshot`, after `fsm.Snapshot` wrote `content` with the
    lock released: the file is closed (published) here, under the lock, unless the snapshot
    was overtaken. -/
def snapshotEnd (n : Node) (l : SnapLabel) (content : List Nat) : Node × List Effect :=
  -- overtaken by an installed snapshot while the lock was released: not published (fix S10)
  if l.index ≤ n.snapIndex then (n, [.snapDiscard]) else
  let n1 : Node := { n with snaps := n.snaps ++ [{ index := l.index, term := l.term, data := content }] }
  match n1.log.compact l.index with
  | some lg =>
    let r := ({ n1 with snapIndex := l.index, snapTerm := l.term, log := lg } : Node).resetSnapshots
    (r.1, [.snapClose, .logCompact l.index] ++ r.2)
  | none => (n1, [.snapClose, .logCompact l.index, .fatal])

end Node

/-! ### The state machine, as far as exactness is concerned

A state machine instance is the list of operation indices applied to it since it was
created or last restored (the harness's state machine is a hash chain over exactly that). -/

structure NodeF where
  node : Node
  fsm : List Nat := []
deriving Repr

namespace NodeF

/-- one iteration of the apply loop, with the state machine -/
def apply (x : NodeF) (now : Nat) : NodeF :=
  let r := x.node.applyStep now
  match r.2.2 with
  | .op e _ => { node := r.1, fsm := x.fsm ++ [e.index] }
  | _ => { x with node := r.1 }

/-- `fsm.Snapshot` at this instant: the content is the state machine as it is *now* -/
def snapshotContent (x : NodeF) : List Nat := x.fsm

/-- a whole local snapshot with nothing scheduled between label and content -/
def snapshotSerial (x : NodeF) : Option (NodeF × Node.SnapLabel) :=
  match x.node.snapshotBegin with
  | none => none
  | some (l, _) => some ({ x with node := (x.node.snapshotEnd l x.snapshotContent).1 }, l)

end NodeF
end Raft
