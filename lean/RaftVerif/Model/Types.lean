/-
  Model/Types.lean — data of the protocol layer.

  Core Lean only (no Mathlib): this file is linked into the driver executable.

  Conventions (DESIGN.md §3.1):
  * node ids are `Nat` (an injective renaming of the string ids of the code; `0` is
    never a node id: it renders the empty string, i.e. "no vote");
  * indices, terms, times are `Nat` (uint64 wrap-around is outside the model);
  * a configuration is an association list `id ↦ isVoter` kept sorted by id.
-/
namespace Raft

/-- `LogEntryType` of log.go, kept open (`Nat`) like the wire format. -/
abbrev kNoop : Nat := 0
abbrev kOp : Nat := 1
abbrev kConfig : Nat := 2

/-- `Configuration` of configuration.go without addresses. -/
structure Config where
  index : Nat
  members : List (Nat × Bool)
deriving DecidableEq, Repr, Inhabited

namespace Config
def empty : Config := ⟨0, []⟩
def isMember (c : Config) (id : Nat) : Bool := c.members.any (·.1 == id)
/-- `r.configuration.IsVoter[id]` (false for an absent key). -/
def isVoter (c : Config) (id : Nat) : Bool := c.members.any (fun m => m.1 == id && m.2)
/-- number of voters, the loop of `hasQuorum`. -/
def voters (c : Config) : Nat := (c.members.filter (·.2)).length
def voterIds (c : Config) : List Nat := (c.members.filter (·.2)).map (·.1)
def memberIds (c : Config) : List Nat := c.members.map (·.1)
/-- `hasQuorum(count)`: `count > voters/2`. -/
def hasQuorum (c : Config) (count : Nat) : Bool := decide (count > c.voters / 2)
/-- `isSingleServerCluster`: this node is the only voter (non-voters may exist). -/
def isSingle (c : Config) (self : Nat) : Bool := c.voters == 1 && c.isVoter self
end Config

/-- `LogEntry` of log.go. `data` is an opaque payload token for operations; a
    configuration entry carries its decoded configuration in `cfg`. The `Offset`
    field is a storage detail and lives in the storage model. -/
structure Entry where
  index : Nat
  term : Nat
  kind : Nat := kOp
  data : Nat := 0
  cfg : Option Config := none
deriving DecidableEq, Repr, Inhabited

inductive Role
  | leader | follower | precandidate | candidate | shutdown
deriving DecidableEq, Repr, Inhabited

/-- Ordered, externally visible actions performed inside one critical section. -/
inductive Effect
  | setState (term : Nat) (vote : Nat)          -- `persistTermAndVote` (vote 0 = "")
  | logAppend (es : List Entry)                 -- `log.AppendEntries`
  | logTruncate (i : Nat)                       -- `log.Truncate`
  | logCompact (i : Nat)                        -- `log.Compact`
  | logDiscard (i t : Nat)                      -- `log.DiscardEntries`
  | failFutures                                 -- `notifyLostLeaderShip`
  | failConfigFuture                            -- membership future answered ErrNotLeader
  | resetSnapshots                              -- `resetSnapshotFiles`
  | signalApply | signalCommit | signalReadOnly | signalElection | signalSnapshot
  | spawnAE (peer : Nat)                        -- `go sendAppendEntries`
  | spawnRV (peer : Nat) (prevote : Bool)       -- `go sendRequestVote`
  | snapNew (i t : Nat)                         -- `NewSnapshotFile`
  | snapWrite (n : Nat)
  | snapClose
  | snapDiscard
  | fatal                                       -- `logger.Fatal*` = os.Exit(1)
  | panic                                       -- a Go run-time panic
deriving DecidableEq, Repr, Inhabited

end Raft
