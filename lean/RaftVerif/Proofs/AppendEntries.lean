/-
  Proofs/AppendEntries.lean — the handler analysed once: what `appendEntries` does to
  log, commit index, term, and which effects it emits.
-/
import RaftVerif.Proofs.LogLemmas
import RaftVerif.Proofs.NodeLemmas
namespace Raft
open Log

theorem get?_append_le {l : Log} (h : l.WF) {es : List Entry} {i : Nat} (hi : i ≤ l.lastIndex) :
    (l.append es).get? i = l.get? i := by
  by_cases hb : l.base < i
  · exact get?_append_left ((wf_contains_iff h).mpr ⟨hb, hi⟩)
  · have c1 : l.contains i = false := by
      cases hc : l.contains i with
      | false => rfl
      | true => have := contains_iff.mp hc; omega
    have c2 : (l.append es).contains i = false := by
      cases hc : (l.append es).contains i with
      | false => rfl
      | true => have := contains_iff.mp hc; simp at this; omega
    simp [get?, c1, c2]

/-- Entries appended contiguously after a well-formed log are found at their index. -/
theorem get?_append_right {l : Log} (h : l.WF) {es : List Entry} (hc : Contig l.lastIndex es) :
    ∀ e ∈ es, (l.append es).get? e.index = some e := by
  intro e he
  obtain ⟨k, hk, hek⟩ := List.getElem_of_mem he
  have hidx := contig_getElem hc k hk
  rw [hek] at hidx
  have hli := wf_lastIndex h
  have hcont : (l.append es).contains e.index = true := by
    rw [contains_iff]; simp; omega
  unfold get?
  simp only [hcont, if_true, append_base, append_ents]
  rw [List.getElem?_append_right (by omega)]
  have : e.index - l.base - 1 - l.ents.length = k := by omega
  rw [this, List.getElem?_eq_getElem hk, hek]

/-- Specification of the merge loop on a well-formed log and a contiguous request. -/
theorem mergeScan_spec {l : Log} (hl : l.WF) :
    ∀ (es : List Entry) (p : Nat), Contig p es → l.base ≤ p → p ≤ l.lastIndex →
    ∃ l' t app, mergeScan l es = .ok l' t app ∧
      l'.WF ∧ l'.base = l.base ∧ l'.baseTerm = l.baseTerm ∧ Contig l'.lastIndex app ∧ p ≤ l'.lastIndex ∧
      (t = none → l' = l) ∧
      (∀ c, t = some c → p < c ∧ l.truncate c = some l' ∧
          ∃ e ∈ es, e.index = c ∧ ∃ ex, l.get? c = some ex ∧ ex.term ≠ e.term) ∧
      (∀ i, i ≤ p → (l'.append app).get? i = l.get? i) ∧
      (∀ e ∈ es, ∃ g, (l'.append app).get? e.index = some g ∧ g.term = e.term) := by
  intro es
  induction es with
  | nil =>
    intro p _ hb hp
    refine ⟨l, none, [], rfl, hl, rfl, rfl, trivial, hp, fun _ => rfl, ?_, ?_, ?_⟩
    · intro c hc; simp at hc
    · intro i _; simp
    · intro e he; simp at he
  | cons e es ih =>
    intro p hc hb hp
    obtain ⟨he, hces⟩ := hc
    unfold mergeScan
    by_cases hlt : l.lastIndex < e.index
    · -- beyond the log: append everything that is left
      simp only [hlt, if_true]
      have hpl : p = l.lastIndex := by omega
      have hcont : Contig l.lastIndex (e :: es) := by rw [← hpl]; exact ⟨he, hces⟩
      refine ⟨l, none, e :: es, rfl, hl, rfl, rfl, hcont, hp, fun _ => rfl, ?_, ?_, ?_⟩
      · intro c hc; simp at hc
      · intro i hi; exact get?_append_le hl (by omega)
      · intro e' he'; exact ⟨e', get?_append_right hl hcont e' he', rfl⟩
    · simp only [hlt, if_false]
      have hcont : l.contains e.index = true := (wf_contains_iff hl).mpr ⟨by omega, by omega⟩
      have hsome := get?_isSome_of_contains hcont
      obtain ⟨ex, hex⟩ := Option.isSome_iff_exists.mp hsome
      have hexi := wf_get?_index hl hex
      simp only [hex]
      by_cases hconf : isConflict ex e = true
      · -- conflict: truncate here and append the rest of the request
        simp only [hconf, Bool.not_true, Bool.false_eq_true, if_false]
        rw [truncate_eq_some hcont]
        simp only
        have htr : l.truncate e.index = some { l with ents := l.ents.take (e.index - l.base - 1) } :=
          truncate_eq_some hcont
        obtain ⟨hw', hb', hbt', _, _⟩ := wf_truncate hl htr
        have hli' := truncate_lastIndex hl htr
        have hcont' : Contig ({ l with ents := l.ents.take (e.index - l.base - 1) } : Log).lastIndex (e :: es) := by
          rw [hli', show e.index - 1 = p by omega]; exact ⟨he, hces⟩
        have hterm : ex.term ≠ e.term := by
          unfold isConflict at hconf
          simp only [Bool.and_eq_true, beq_iff_eq, bne_iff_ne, ne_eq] at hconf
          exact hconf.2
        refine ⟨_, some e.index, e :: es, rfl, hw', hb', hbt', hcont', by rw [hli']; omega, ?_, ?_, ?_, ?_⟩
        · intro h; simp at h
        · intro c hc
          injection hc with hc; subst hc
          exact ⟨by omega, htr, e, List.mem_cons_self, rfl, ex, hex, hterm⟩
        · intro i hi
          rw [get?_append_le hw' (by rw [hli']; omega)]
          exact get?_truncate_lt hl htr (by omega)
        · intro e' he'
          exact ⟨e', get?_append_right hw' hcont' e' he', rfl⟩
      · -- same term: keep the existing entry and look at the next one
        have hnc : isConflict ex e = false := by simpa using hconf
        simp only [hnc, Bool.not_false, if_true]
        obtain ⟨l', t, app, hm, hw', hb', hbt', hca, hpl, htn, hts, hpres, hall⟩ :=
          ih (p + 1) hces (by omega) (by omega)
        refine ⟨l', t, app, hm, hw', hb', hbt', hca, by omega, htn, ?_, ?_, ?_⟩
        · intro c hc
          obtain ⟨h1, h2, e', he', h3⟩ := hts c hc
          exact ⟨by omega, h2, e', List.mem_cons_of_mem _ he', h3⟩
        · intro i hi; exact hpres i (by omega)
        · intro e' he'
          rcases List.mem_cons.mp he' with rfl | he'
          · have hterm : ex.term = e'.term := by
              unfold isConflict at hnc
              simp only [hexi, beq_self_eq_true, Bool.true_and, bne_eq_false_iff_eq] at hnc
              exact hnc
            exact ⟨ex, by rw [hpres e'.index (by omega)]; exact hex, hterm⟩
          · exact hall e' he'

end Raft

namespace Raft
open Log

/-! ### `aeEnter` -/

theorem aeEnter_log (n : Node) (now : Nat) (q : AEReq) : (aeEnter n now q).1.log = n.log := by
  unfold aeEnter; simp only; split <;> split <;> simp
theorem aeEnter_commitIndex (n : Node) (now : Nat) (q : AEReq) : (aeEnter n now q).1.commitIndex = n.commitIndex := by
  unfold aeEnter; simp only; split <;> split <;> simp
theorem aeEnter_lastApplied (n : Node) (now : Nat) (q : AEReq) : (aeEnter n now q).1.lastApplied = n.lastApplied := by
  unfold aeEnter; simp only; split <;> split <;> simp
theorem aeEnter_config (n : Node) (now : Nat) (q : AEReq) : (aeEnter n now q).1.config = n.config := by
  unfold aeEnter; simp only; split <;> split <;> simp
theorem aeEnter_committed (n : Node) (now : Nat) (q : AEReq) : (aeEnter n now q).1.committed = n.committed := by
  unfold aeEnter; simp only; split <;> split <;> simp
theorem aeEnter_snapIndex (n : Node) (now : Nat) (q : AEReq) : (aeEnter n now q).1.snapIndex = n.snapIndex := by
  unfold aeEnter; simp only; split <;> split <;> simp
theorem aeEnter_snapTerm (n : Node) (now : Nat) (q : AEReq) : (aeEnter n now q).1.snapTerm = n.snapTerm := by
  unfold aeEnter; simp only; split <;> split <;> simp
theorem aeEnter_term (n : Node) (now : Nat) (q : AEReq) (h : n.term ≤ q.term) : (aeEnter n now q).1.term = q.term := by
  unfold aeEnter; simp only; split <;> split <;> simp <;> omega
theorem aeEnter_no_fatal (n : Node) (now : Nat) (q : AEReq) : Effect.fatal ∉ (aeEnter n now q).2 := by
  unfold aeEnter; simp only
  split <;> split <;> simp [Node.becomeFollower_no_fatal]

/-- The vote survives `aeEnter` unless the term grows. -/
theorem aeEnter_votedFor (n : Node) (now : Nat) (q : AEReq) (h : n.term ≤ q.term) :
    (aeEnter n now q).1.votedFor = if q.term > n.term then 0 else n.votedFor := by
  unfold aeEnter; simp only
  split <;> split <;> simp <;> omega

/-! ### `aePrevCheck` -/

theorem aePrevCheck_ok {n : Node} {q : AEReq} (h : aePrevCheck n q = .ok) :
    n.snapIndex ≤ q.prevIndex ∧ q.prevIndex ≤ n.log.lastIndex ∧
    (n.snapIndex < q.prevIndex → ∃ pe, n.log.get? q.prevIndex = some pe ∧ pe.term = q.prevTerm) ∧
    (n.snapIndex = q.prevIndex → n.snapTerm = q.prevTerm) := by
  unfold aePrevCheck at h
  split at h; · simp at h
  split at h; · simp at h
  split at h; · simp at h
  rename_i h1 h2 h3
  unfold Log.nextIndex at h2
  refine ⟨by omega, by omega, ?_, ?_⟩
  · intro hlt
    simp only [hlt, if_true] at h
    split at h
    · simp at h
    · rename_i pe hpe
      split at h
      · split at h <;> simp at h
      · rename_i hne; exact ⟨pe, hpe, by simpa using hne⟩
  · intro heq
    by_cases hh : n.snapTerm = q.prevTerm
    · exact hh
    · exact absurd ⟨heq, hh⟩ h3

/-! ### `aeAccept` -/

/-- Preconditions under which the accepting path is analysed: a well-formed log whose
    base is covered by the snapshot boundary, and a request whose entries are
    contiguous from `prevIndex + 1` (every request a leader builds is). -/
structure AEPre (n : Node) (q : AEReq) : Prop where
  wf : n.log.WF
  base_le : n.log.base ≤ n.snapIndex
  contig : Contig q.prevIndex q.entries

theorem aeAccept_spec {n : Node} {now : Nat} {q : AEReq} (hp : AEPre n q)
    (h1 : n.snapIndex ≤ q.prevIndex) (h2 : q.prevIndex ≤ n.log.lastIndex) :
    let r := aeAccept n now q
    Effect.fatal ∉ r.2 ∧ r.1.log.WF ∧ r.1.log.base = n.log.base ∧
    (∀ e ∈ q.entries, ∃ g, r.1.log.get? e.index = some g ∧ g.term = e.term) ∧
    (∀ i, i ≤ q.prevIndex → r.1.log.get? i = n.log.get? i) ∧
    (∀ i g, n.log.get? i = some g →
        (∀ e ∈ q.entries, e.index ≤ i → ∃ ex, n.log.get? e.index = some ex ∧ ex.term = e.term) →
        r.1.log.get? i = some g) ∧
    (∀ c, Effect.logTruncate c ∈ r.2 → q.prevIndex < c ∧
        ∃ e ∈ q.entries, e.index = c ∧ ∃ ex, n.log.get? c = some ex ∧ ex.term ≠ e.term) := by
  obtain ⟨l', t, app, hm, hw', hb', _, hca, hpl, htn, hts, hpres, hall⟩ :=
    mergeScan_spec hp.wf q.entries q.prevIndex hp.contig (by have := hp.base_le; omega) h2
  -- the log after the section is `l'.append app`, whatever the configuration fallback does
  have hlog : (aeAccept n now q).1.log = l'.append app := by
    unfold aeAccept; simp only [hm]
    cases t with
    | none => simp only; split <;> rfl
    | some ti =>
      simp only
      split <;> split <;> simp [Node.nextConfiguration_log]
  have heff : ∀ c, Effect.logTruncate c ∈ (aeAccept n now q).2 → t = some c := by
    intro c hc
    unfold aeAccept at hc; simp only [hm] at hc
    cases t with
    | none =>
      simp only at hc
      split at hc <;> simp at hc
    | some ti =>
      simp only at hc
      have hnt : Effect.logTruncate c ∉ (Node.nextConfiguration { n with log := l' } now n.committed).2 := by
        unfold Node.nextConfiguration
        cases n.committed with
        | none => simp
        | some cc =>
          simp only
          split
          · simp
          · unfold Node.stepdown Node.resetSnapshots
            split <;> simp <;> split <;> simp
      split at hc <;> split at hc <;> simp at hc
      all_goals first
        | (rcases hc with hc | hc
           · rw [hc]
           · exact absurd hc hnt)
        | (rw [hc])
  have hnf : Effect.fatal ∉ (aeAccept n now q).2 := by
    unfold aeAccept; simp only [hm]
    cases t with
    | none => simp only; split <;> simp
    | some ti =>
      simp only
      have := Node.nextConfiguration_no_fatal { n with log := l' } now n.committed
      split <;> split <;> simp [this]
  refine ⟨hnf, ?_, ?_, ?_, ?_, ?_, ?_⟩
  · rw [hlog]; exact wf_append hw' hca
  · rw [hlog]; simp [hb']
  · intro e he; rw [hlog]; exact hall e he
  · intro i hi; rw [hlog]; exact hpres i hi
  · intro i g hg hnc
    rw [hlog]
    have hic : n.log.contains i = true := (get?_eq_some_iff.mp hg).1
    have hil := (wf_contains_iff hp.wf).mp hic
    cases t with
    | none =>
      rw [htn rfl, get?_append_le hp.wf hil.2]; exact hg
    | some c =>
      obtain ⟨_, htr, e, he, hec, ex, hex, hne⟩ := hts c rfl
      have hlt : i < c := by
        by_cases hci : c ≤ i
        · obtain ⟨ex', hex', hterm⟩ := hnc e he (by omega)
          rw [hec, hex] at hex'
          injection hex' with hex'
          subst hex'
          exact absurd hterm hne
        · omega
      rw [get?_append_le hw' (by rw [truncate_lastIndex hp.wf htr]; omega), get?_truncate_lt hp.wf htr hlt]
      exact hg
  · intro c hc
    obtain ⟨h3, _, h5⟩ := hts c (heff c hc)
    exact ⟨h3, h5⟩

theorem aeAccept_commitIndex (n : Node) (now : Nat) (q : AEReq) :
    let r := aeAccept n now q
    n.commitIndex ≤ r.1.commitIndex ∧
    r.1.commitIndex ≤ max n.commitIndex (q.prevIndex + q.entries.length) ∧
    r.1.commitIndex ≤ max n.commitIndex q.leaderCommit := by
  unfold aeAccept
  cases hm : mergeScan n.log q.entries with
  | fatal => simp only; omega
  | ok l1 t app =>
    simp only
    cases t with
    | none =>
      simp only
      split <;> simp_all <;> omega
    | some ti =>
      simp only
      split <;> split <;> simp_all [Node.nextConfiguration_commitIndex] <;> omega

theorem aeAccept_term (n : Node) (now : Nat) (q : AEReq) :
    (aeAccept n now q).1.term = n.term ∧ (aeAccept n now q).1.votedFor = n.votedFor := by
  unfold aeAccept
  cases hm : mergeScan n.log q.entries with
  | fatal => simp
  | ok l1 t app =>
    simp only
    cases t with
    | none => simp only; split <;> simp
    | some ti =>
      simp only
      split <;> split <;> simp [Node.nextConfiguration_term, Node.nextConfiguration_votedFor]

end Raft

namespace Raft

theorem aeEnter_id (n : Node) (now : Nat) (q : AEReq) : (aeEnter n now q).1.id = n.id := by
  unfold aeEnter; simp only; split <;> split <;> simp
theorem aeEnter_rvRounds (n : Node) (now : Nat) (q : AEReq) : (aeEnter n now q).1.rvRounds = n.rvRounds := by
  unfold aeEnter; simp only; split <;> split <;> rfl
theorem aeEnter_nextRound (n : Node) (now : Nat) (q : AEReq) : (aeEnter n now q).1.nextRound = n.nextRound := by
  unfold aeEnter; simp only; split <;> split <;> rfl
theorem aeEnter_role_leader (n : Node) (now : Nat) (q : AEReq) :
    (aeEnter n now q).1.role = .leader → n.role = .leader ∧ ¬ (q.term > n.term) := by
  unfold aeEnter; simp only
  split
  · split <;> (intro h; simp at h)
  · rename_i hgt
    split
    · intro h; simp at h
    · intro h; exact ⟨h, hgt⟩

/-- The accepting part leaves identity, vote rounds and leadership alone, and keeps the
    configuration when the committed configuration is the configuration (static membership). -/
theorem aeAccept_frame (m : Node) (now : Nat) (q : AEReq) :
    (aeAccept m now q).1.id = m.id ∧ (aeAccept m now q).1.rvRounds = m.rvRounds ∧
    (aeAccept m now q).1.nextRound = m.nextRound ∧ ((aeAccept m now q).1.role = .leader → m.role = .leader) ∧
    (m.committed = some m.config → (aeAccept m now q).1.config = m.config) := by
  unfold aeAccept
  cases hmm : mergeScan m.log q.entries with
  | fatal => exact ⟨rfl, rfl, rfl, fun h => h, fun _ => rfl⟩
  | ok l1 t app =>
    simp only
    cases t with
    | none => simp only; split <;> exact ⟨rfl, rfl, rfl, fun h => h, fun _ => rfl⟩
    | some ti =>
      simp only
      have a1 := Node.nextConfiguration_id { m with log := l1 } now m.committed
      have a2 := Node.nextConfiguration_rvRounds { m with log := l1 } now m.committed
      have a3 := Node.nextConfiguration_nextRound { m with log := l1 } now m.committed
      have a4 := Node.nextConfiguration_role_leader { m with log := l1 } now m.committed
      have a5 : m.committed = some m.config →
          (Node.nextConfiguration { m with log := l1 } now m.committed).1.config = m.config := by
        intro hc; rw [hc]; exact Node.nextConfiguration_config _ now m.config
      split <;> split
      · exact ⟨a1, a2, a3, a4, a5⟩
      · exact ⟨a1, a2, a3, a4, a5⟩
      · exact ⟨rfl, rfl, rfl, fun h => h, fun _ => rfl⟩
      · exact ⟨rfl, rfl, rfl, fun h => h, fun _ => rfl⟩

end Raft
