/-
  Proofs/Codec.lean — round trips of the byte-level formats.
-/
import RaftVerif.Model.LogFile
namespace Raft.Bytes

theorem encodeVarintAux_ne_nil (fuel n : Nat) : encodeVarintAux fuel n ≠ [] := by
  cases fuel with
  | zero => simp [encodeVarintAux]
  | succ fuel => unfold encodeVarintAux; split <;> simp

theorem encodeVarint_ne_nil (n : Nat) : encodeVarint n ≠ [] := encodeVarintAux_ne_nil 9 n

theorem decodeVarintAux_encode : ∀ (fuel n : Nat) (rest : Bytes), n < 128 ^ (fuel + 1) →
    decodeVarintAux (fuel + 1) (encodeVarintAux fuel n ++ rest) = some (n, rest) := by
  intro fuel
  induction fuel with
  | zero =>
    intro n rest h
    have hn : n < 128 := by simpa using h
    have : n % 128 = n := Nat.mod_eq_of_lt hn
    simp [encodeVarintAux, decodeVarintAux, this, hn]
  | succ fuel ih =>
    intro n rest h
    unfold encodeVarintAux
    by_cases hn : n < 128
    · simp [hn, decodeVarintAux]
    · simp only [hn, if_false, List.cons_append, decodeVarintAux]
      have hb : ¬ (n % 128 + 128 < 128) := by omega
      simp only [hb, if_false]
      have hdiv : n / 128 < 128 ^ (fuel + 1) := by
        have : 128 ^ (fuel + 1 + 1) = 128 * 128 ^ (fuel + 1) := by rw [Nat.pow_succ]; omega
        rw [this] at h
        exact Nat.div_lt_of_lt_mul h
      rw [ih (n / 128) rest hdiv]
      simp only [Option.some.injEq, Prod.mk.injEq, and_true]
      omega

/-- Every value below 2^64 (indeed below 2^70) survives the varint codec. -/
theorem decodeVarint_encode (n : Nat) (rest : Bytes) (h : n < 2 ^ 64) :
    decodeVarint (encodeVarint n ++ rest) = some (n, rest) := by
  unfold decodeVarint encodeVarint
  apply decodeVarintAux_encode 9
  have : (2 : Nat) ^ 64 ≤ 128 ^ 10 := by decide
  omega

/-- Bounds under which a field survives the codec: tag and values fit 64 bits. -/
def Field.Valid : Field → Prop
  | .varint num v => num * 8 < 2 ^ 64 ∧ v < 2 ^ 64
  | .bytes num v => num * 8 + 2 < 2 ^ 64 ∧ v.length < 2 ^ 64

theorem parseFields_encode : ∀ (fs : List Field) (fuel : Nat), (∀ f ∈ fs, f.Valid) → fs.length < fuel →
    parseFields fuel (encodeFields fs) = some fs := by
  intro fs
  induction fs with
  | nil =>
    intro fuel _ hf
    cases fuel with
    | zero => omega
    | succ fuel => simp [encodeFields, parseFields]
  | cons f fs ih =>
    intro fuel hv hf
    cases fuel with
    | zero => omega
    | succ fuel =>
      have hvf := hv f List.mem_cons_self
      have hrest := ih fuel (fun g hg => hv g (List.mem_cons_of_mem _ hg)) (by simp at hf; omega)
      have henc : encodeFields (f :: fs) = encodeField f ++ encodeFields fs := by simp [encodeFields]
      rw [henc]
      cases f with
      | varint num v =>
        obtain ⟨h1, h2⟩ := hvf
        have hne : tagVarint num ++ encodeVarint v ++ encodeFields fs ≠ [] := by
          unfold tagVarint; intro h
          have := encodeVarint_ne_nil (num * 8)
          simp_all
        unfold parseFields
        simp only [encodeField, hne, if_false]
        rw [show tagVarint num ++ encodeVarint v ++ encodeFields fs = encodeVarint (num * 8) ++ (encodeVarint v ++ encodeFields fs) by
          simp [tagVarint]]
        rw [decodeVarint_encode _ _ h1]
        simp only [Nat.mul_mod_left, if_true]
        rw [decodeVarint_encode _ _ h2]
        simp only [hrest]
        have : num * 8 / 8 = num := by omega
        simp [this]
      | bytes num v =>
        obtain ⟨h1, h2⟩ := hvf
        have hne : tagBytes num ++ encodeVarint v.length ++ v ++ encodeFields fs ≠ [] := by
          unfold tagBytes; intro h
          have := encodeVarint_ne_nil (num * 8 + 2)
          simp_all
        unfold parseFields
        simp only [encodeField, hne, if_false]
        rw [show tagBytes num ++ encodeVarint v.length ++ v ++ encodeFields fs =
            encodeVarint (num * 8 + 2) ++ (encodeVarint v.length ++ (v ++ encodeFields fs)) by simp [tagBytes]]
        rw [decodeVarint_encode _ _ h1]
        have m0 : ¬ ((num * 8 + 2) % 8 = 0) := by omega
        have m2 : (num * 8 + 2) % 8 = 2 := by omega
        simp only [m0, m2, if_true, ↓reduceIte]
        rw [decodeVarint_encode _ _ h2]
        have hlen : ¬ ((v ++ encodeFields fs).length < v.length) := by simp
        simp only [hlen, if_false, List.drop_left, List.take_left, hrest]
        have : (num * 8 + 2) / 8 = num := by omega
        simp [this]

theorem parseMessage_encode (fs : List Field) (hv : ∀ f ∈ fs, f.Valid) :
    parseMessage (encodeFields fs) = some fs := by
  unfold parseMessage
  apply parseFields_encode fs _ hv
  -- every field occupies at least one byte
  have : ∀ (gs : List Field), gs.length ≤ (encodeFields gs).length := by
    intro gs
    induction gs with
    | nil => simp [encodeFields]
    | cons g gs ih =>
      have henc : encodeFields (g :: gs) = encodeField g ++ encodeFields gs := by simp [encodeFields]
      rw [henc, List.length_append, List.length_cons]
      have : 1 ≤ (encodeField g).length := by
        cases g with
        | varint num v =>
          have := List.length_pos_iff.mpr (encodeVarint_ne_nil (num * 8))
          simp only [encodeField, tagVarint, List.length_append]; omega
        | bytes num v =>
          have := List.length_pos_iff.mpr (encodeVarint_ne_nil (num * 8 + 2))
          simp only [encodeField, tagBytes, List.length_append]; omega
      omega
  have := this fs
  omega

theorem readBe32_be32 (n : Nat) (rest : Bytes) (h : n < 2 ^ 32) : readBe32 (be32 n ++ rest) = some (n, rest) := by
  simp only [be32, List.cons_append, List.nil_append, readBe32, Option.some.injEq, Prod.mk.injEq, and_true]
  omega

end Raft.Bytes

namespace Raft.Codec
open Raft.Bytes

/-! Linear-time evaluation of the field getters on canonical field lists. -/

def vStep (num : Nat) (acc : Nat) (f : Field) : Nat :=
  match f with
  | .varint n v => if n = num then v else acc
  | _ => acc

def bStep (num : Nat) (acc : Bytes) (f : Field) : Bytes :=
  match f with
  | .bytes n v => if n = num then v else acc
  | _ => acc

theorem getVarint_eq (fs : List Field) (num : Nat) : getVarint fs num = fs.foldl (vStep num) 0 := by
  unfold getVarint; congr 1
theorem getBytes_eq (fs : List Field) (num : Nat) : getBytes fs num = fs.foldl (bStep num) [] := by
  unfold getBytes; congr 1

theorem foldl_vStep_optV (num k v acc : Nat) (rest : List Field) :
    (optV k v ++ rest).foldl (vStep num) acc =
      rest.foldl (vStep num) (if k = num then (if v = 0 then acc else v) else acc) := by
  unfold optV; split <;> simp [vStep] <;> split <;> simp_all

theorem foldl_vStep_optB (num k acc : Nat) (v : Bytes) (rest : List Field) :
    (optB k v ++ rest).foldl (vStep num) acc = rest.foldl (vStep num) acc := by
  unfold optB; split <;> simp [vStep]

theorem foldl_bStep_optV (num k v : Nat) (acc : Bytes) (rest : List Field) :
    (optV k v ++ rest).foldl (bStep num) acc = rest.foldl (bStep num) acc := by
  unfold optV; split <;> simp [bStep]

theorem foldl_bStep_optB (num k : Nat) (acc v : Bytes) (rest : List Field) :
    (optB k v ++ rest).foldl (bStep num) acc =
      rest.foldl (bStep num) (if k = num then (if v = [] then acc else v) else acc) := by
  unfold optB; split <;> simp [bStep] <;> split <;> simp_all

end Raft.Codec
