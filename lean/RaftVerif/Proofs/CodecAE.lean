/-
  Proofs/CodecAE.lean — round trip of the AppendEntries request: a message with a repeated
  embedded message (the log entries), the one RPC that carries user data.
-/
import RaftVerif.Proofs.Codec
set_option linter.unusedSimpArgs false
namespace Raft.Bytes

theorem encodeVarintAux_length (fuel n : Nat) : (encodeVarintAux fuel n).length ≤ fuel + 1 := by
  induction fuel generalizing n with
  | zero => simp [encodeVarintAux]
  | succ fuel ih =>
    unfold encodeVarintAux
    split
    · simp
    · have := ih (n / 128)
      simp only [List.length_cons]; omega

theorem encodeVarint_length (n : Nat) : (encodeVarint n).length ≤ 10 := encodeVarintAux_length 9 n

theorem encodeFields_append (a b : List Field) : encodeFields (a ++ b) = encodeFields a ++ encodeFields b := by
  simp [encodeFields]

theorem encodeFields_nil : encodeFields [] = [] := by simp [encodeFields]

theorem encodeFields_single (f : Field) : encodeFields [f] = encodeField f := by simp [encodeFields]

end Raft.Bytes

namespace Raft.Codec
open Raft.Bytes

theorem optV_length (num v : Nat) : (encodeFields (optV num v)).length ≤ 20 := by
  unfold optV; split
  · simp [encodeFields]
  · rw [encodeFields_single]
    have h1 := encodeVarint_length (num * 8)
    have h2 := encodeVarint_length v
    simp only [encodeField, tagVarint, List.length_append]; omega

theorem optB_length (num : Nat) (v : Bytes) : (encodeFields (optB num v)).length ≤ 20 + v.length := by
  unfold optB; split
  · simp [encodeFields]
  · rw [encodeFields_single]
    have h1 := encodeVarint_length (num * 8 + 2)
    have h2 := encodeVarint_length v.length
    simp only [encodeField, tagBytes, List.length_append]; omega

/-- an encoded entry is at most 80 bytes longer than its payload -/
theorem wentry_length (e : WEntry) : (encodeFields (wentryFields e)).length ≤ 80 + e.data.length := by
  unfold wentryFields
  simp only [encodeFields_append, List.length_append]
  have h1 := optV_length 1 e.index
  have h2 := optV_length 2 e.term
  have h3 := optB_length 4 e.data
  have h4 := optV_length 5 e.kind
  omega

def WEntry.Valid (e : WEntry) : Prop :=
  e.index < 2 ^ 64 ∧ e.term < 2 ^ 64 ∧ e.kind < 2 ^ 64 ∧ e.data.length < 2 ^ 63

private theorem optV_valid' (num v : Nat) (hn : num < 16) (hv : v < 2 ^ 64) : ∀ f ∈ optV num v, f.Valid := by
  intro f hf; unfold optV at hf; split at hf
  · simp at hf
  · simp only [List.mem_singleton] at hf; subst hf; exact ⟨by omega, hv⟩

private theorem optB_valid' (num : Nat) (v : Bytes) (hn : num < 16) (hv : v.length < 2 ^ 64) : ∀ f ∈ optB num v, f.Valid := by
  intro f hf; unfold optB at hf; split at hf
  · simp at hf
  · simp only [List.mem_singleton] at hf; subst hf; exact ⟨by omega, hv⟩

/-- a wire entry survives its codec -/
theorem wentry_roundtrip (e : WEntry) (h : e.Valid) : decodeWEntry (encodeFields (wentryFields e)) = some e := by
  obtain ⟨h1, h2, h3, h4⟩ := h
  unfold decodeWEntry
  have hv : ∀ f ∈ wentryFields e, f.Valid := by
    intro f hf
    simp only [wentryFields, List.mem_append] at hf
    rcases hf with ((hf | hf) | hf) | hf
    · exact optV_valid' 1 _ (by omega) h1 f hf
    · exact optV_valid' 2 _ (by omega) h2 f hf
    · exact optB_valid' 4 _ (by omega) (by omega) f hf
    · exact optV_valid' 5 _ (by omega) h3 f hf
  rw [parseMessage_encode _ hv]
  cases e
  simp only [wentryFields, optV, optB, Option.map_some, Option.some.injEq]
  split <;> split <;> split <;> split <;> simp_all [getVarint, getBytes]

/-- the repeated field, as fields -/
def repFields (es : List WEntry) : List Field := es.map (fun e => Field.bytes 6 (encodeFields (wentryFields e)))

theorem getRepeated_append (a b : List Field) (num : Nat) : getRepeated (a ++ b) num = getRepeated a num ++ getRepeated b num := by
  simp [getRepeated, List.filterMap_append]

theorem getRepeated_optV (k v num : Nat) : getRepeated (optV k v) num = [] := by
  unfold optV getRepeated; split <;> simp

theorem getRepeated_optB_ne (k : Nat) (v : Bytes) (num : Nat) (h : k ≠ num) : getRepeated (optB k v) num = [] := by
  unfold optB getRepeated; split <;> simp [h]

theorem getRepeated_rep (es : List WEntry) : getRepeated (repFields es) 6 = es.map (fun e => encodeFields (wentryFields e)) := by
  induction es with
  | nil => simp [repFields, getRepeated]
  | cons e es ih =>
    simp only [repFields, getRepeated, List.map_cons, List.filterMap_cons] at ih ⊢
    simp [ih]

theorem foldl_vStep_rep (num acc : Nat) (es : List WEntry) : (repFields es).foldl (vStep num) acc = acc := by
  induction es with
  | nil => simp [repFields]
  | cons e es ih => simp only [repFields, List.map_cons, List.foldl_cons, vStep] at ih ⊢; exact ih

theorem foldl_bStep_rep (num : Nat) (acc : Bytes) (es : List WEntry) (h : num ≠ 6) : (repFields es).foldl (bStep num) acc = acc := by
  induction es with
  | nil => simp [repFields]
  | cons e es ih =>
    simp only [repFields, List.map_cons, List.foldl_cons, bStep] at ih ⊢
    rw [if_neg (by omega)]; exact ih

theorem mapM_decode (es : List WEntry) (h : ∀ e ∈ es, e.Valid) :
    (es.map (fun e => encodeFields (wentryFields e))).mapM decodeWEntry = some es := by
  induction es with
  | nil => simp
  | cons e es ih =>
    have he := wentry_roundtrip e (h e List.mem_cons_self)
    have hes := ih (fun x hx => h x (List.mem_cons_of_mem _ hx))
    simp only [List.map_cons, List.mapM_cons, he, hes]
    rfl

def WAEReq.Valid (q : WAEReq) : Prop :=
  q.leaderId.length < 2 ^ 64 ∧ q.term < 2 ^ 64 ∧ q.leaderCommit < 2 ^ 64 ∧ q.prevIndex < 2 ^ 64 ∧ q.prevTerm < 2 ^ 64 ∧
  ∀ e ∈ q.entries, e.Valid

/-- **AppendEntries requests survive the wire**: any number of entries, any payloads (empty
    ones included), all three entry types. -/
theorem aeReq_roundtrip (q : WAEReq) (h : q.Valid) : decodeAEReq (encodeFields (aeReqFields q)) = some q := by
  obtain ⟨h0, h1, h2, h3, h4, hes⟩ := h
  have hfields : aeReqFields q = optB 1 q.leaderId ++ (optV 2 q.term ++ (optV 3 q.leaderCommit ++ (optV 4 q.prevIndex ++ (optV 5 q.prevTerm ++ repFields q.entries)))) := by
    simp [aeReqFields, repFields]
  have hv : ∀ f ∈ aeReqFields q, f.Valid := by
    intro f hf
    rw [hfields] at hf
    simp only [List.mem_append] at hf
    rcases hf with hf | hf | hf | hf | hf | hf
    · exact optB_valid' 1 _ (by omega) h0 f hf
    · exact optV_valid' 2 _ (by omega) h1 f hf
    · exact optV_valid' 3 _ (by omega) h2 f hf
    · exact optV_valid' 4 _ (by omega) h3 f hf
    · exact optV_valid' 5 _ (by omega) h4 f hf
    · simp only [repFields, List.mem_map] at hf
      obtain ⟨e, he, rfl⟩ := hf
      have := wentry_length e
      have hd := (hes e he).2.2.2
      exact ⟨by omega, by omega⟩
  unfold decodeAEReq
  rw [parseMessage_encode _ hv]
  simp only
  have hrep : getRepeated (aeReqFields q) 6 = q.entries.map (fun e => encodeFields (wentryFields e)) := by
    rw [hfields]
    simp only [getRepeated_append, getRepeated_optV, getRepeated_optB_ne 1 _ 6 (by omega), getRepeated_rep, List.nil_append]
  rw [hrep, mapM_decode _ hes]
  simp only
  cases q with
  | mk leaderId term leaderCommit prevIndex prevTerm entries =>
    simp only at hfields
    simp only [Option.some.injEq, getVarint_eq, getBytes_eq, hfields]
    simp only [foldl_vStep_optV, foldl_vStep_optB, foldl_bStep_optV, foldl_bStep_optB, foldl_vStep_rep,
      foldl_bStep_rep 1 _ _ (by omega)]
    simp
    (repeat' constructor) <;> (intro h; simp [h])

end Raft.Codec
