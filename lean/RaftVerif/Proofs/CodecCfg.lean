/-
  Proofs/CodecCfg.lean — round trip of `Configuration` (two proto maps and an index).
-/
import RaftVerif.Proofs.CodecAE
set_option linter.unusedSimpArgs false
namespace Raft.Codec
open Raft.Bytes

def WCfg.Valid (c : WCfg) : Prop :=
  c.index < 2 ^ 64 ∧ (∀ kv ∈ c.members, kv.1.length < 2 ^ 62 ∧ kv.2.length < 2 ^ 62) ∧ (∀ kv ∈ c.voters, kv.1.length < 2 ^ 62)

theorem bytesField_length (num : Nat) (v : Bytes) : (encodeField (.bytes num v)).length ≤ 20 + v.length := by
  have h1 := encodeVarint_length (num * 8 + 2)
  have h2 := encodeVarint_length v.length
  simp only [encodeField, tagBytes, List.length_append]; omega

theorem varintField_length (num v : Nat) : (encodeField (.varint num v)).length ≤ 20 := by
  have h1 := encodeVarint_length (num * 8)
  have h2 := encodeVarint_length v
  simp only [encodeField, tagVarint, List.length_append]; omega

theorem encodeFields_pair (a b : Field) : encodeFields [a, b] = encodeField a ++ encodeField b := by
  simp [encodeFields]

theorem member_roundtrip (kv : Bytes × Bytes) (h1 : kv.1.length < 2 ^ 62) (h2 : kv.2.length < 2 ^ 62) :
    decodeMember (encodeFields [.bytes 1 kv.1, .bytes 2 kv.2]) = some kv := by
  unfold decodeMember
  have hv : ∀ f ∈ [Field.bytes 1 kv.1, Field.bytes 2 kv.2], f.Valid := by
    intro f hf
    simp only [List.mem_cons, List.mem_nil_iff, or_false] at hf
    rcases hf with rfl | rfl
    · exact ⟨by omega, by omega⟩
    · exact ⟨by omega, by omega⟩
  rw [parseMessage_encode _ hv]
  simp [getBytes]

theorem voter_roundtrip (kv : Bytes × Bool) (h1 : kv.1.length < 2 ^ 62) :
    decodeVoter (encodeFields [.bytes 1 kv.1, .varint 2 (if kv.2 then 1 else 0)]) = some kv := by
  unfold decodeVoter
  have hv : ∀ f ∈ [Field.bytes 1 kv.1, Field.varint 2 (if kv.2 then 1 else 0)], f.Valid := by
    intro f hf
    simp only [List.mem_cons, List.mem_nil_iff, or_false] at hf
    rcases hf with rfl | rfl
    · exact ⟨by omega, by omega⟩
    · exact ⟨by omega, by split <;> omega⟩
  rw [parseMessage_encode _ hv]
  obtain ⟨k, b⟩ := kv
  cases b <;> simp [getBytes, getVarint]

theorem getRepeated_members (ms : List (Bytes × Bytes)) (num : Nat) :
    getRepeated (ms.map memberField) num = if num = 1 then ms.map (fun kv => encodeFields [.bytes 1 kv.1, .bytes 2 kv.2]) else [] := by
  induction ms with
  | nil => simp [getRepeated]
  | cons kv ms ih =>
    simp only [getRepeated, List.map_cons, List.filterMap_cons, memberField] at ih ⊢
    by_cases h : num = 1
    · subst h; simp at ih ⊢; exact ih
    · have h' : ¬ (1 = num) := fun e => h e.symm
      simp [h, h'] at ih ⊢; exact ih

theorem getRepeated_voters (vs : List (Bytes × Bool)) (num : Nat) :
    getRepeated (vs.map voterField) num = if num = 2 then vs.map (fun kv => encodeFields [.bytes 1 kv.1, .varint 2 (if kv.2 then 1 else 0)]) else [] := by
  induction vs with
  | nil => simp [getRepeated]
  | cons kv vs ih =>
    simp only [getRepeated, List.map_cons, List.filterMap_cons, voterField] at ih ⊢
    by_cases h : num = 2
    · subst h; simp at ih ⊢; exact ih
    · have h' : ¬ (2 = num) := fun e => h e.symm
      simp [h, h'] at ih ⊢; exact ih

theorem mapM_members (ms : List (Bytes × Bytes)) (h : ∀ kv ∈ ms, kv.1.length < 2 ^ 62 ∧ kv.2.length < 2 ^ 62) :
    (ms.map (fun kv => encodeFields [.bytes 1 kv.1, .bytes 2 kv.2])).mapM decodeMember = some ms := by
  induction ms with
  | nil => simp
  | cons kv ms ih =>
    have he := member_roundtrip kv (h kv List.mem_cons_self).1 (h kv List.mem_cons_self).2
    have hes := ih (fun x hx => h x (List.mem_cons_of_mem _ hx))
    simp only [List.map_cons, List.mapM_cons, he, hes]
    rfl

theorem mapM_voters (vs : List (Bytes × Bool)) (h : ∀ kv ∈ vs, kv.1.length < 2 ^ 62) :
    (vs.map (fun kv => encodeFields [.bytes 1 kv.1, .varint 2 (if kv.2 then 1 else 0)])).mapM decodeVoter = some vs := by
  induction vs with
  | nil => simp
  | cons kv vs ih =>
    have he := voter_roundtrip kv (h kv List.mem_cons_self)
    have hes := ih (fun x hx => h x (List.mem_cons_of_mem _ hx))
    simp only [List.map_cons, List.mapM_cons, he, hes]
    rfl

theorem foldl_vStep_bytesOnly (num acc : Nat) (fs : List Field) (h : ∀ f ∈ fs, ∃ n v, f = .bytes n v) :
    fs.foldl (vStep num) acc = acc := by
  induction fs with
  | nil => simp
  | cons f fs ih =>
    obtain ⟨n, v, rfl⟩ := h _ List.mem_cons_self
    simp only [List.foldl_cons, vStep]
    exact ih (fun g hg => h g (List.mem_cons_of_mem _ hg))

/-- **Configurations survive their codec**, entries in any order. -/
theorem cfg_roundtrip (c : WCfg) (h : c.Valid) : decodeCfg (encodeFields (cfgFields c)) = some c := by
  obtain ⟨hi, hm, hvv⟩ := h
  have hv : ∀ f ∈ cfgFields c, f.Valid := by
    intro f hf
    simp only [cfgFields, List.mem_append, List.mem_map] at hf
    rcases hf with (⟨kv, hkv, rfl⟩ | ⟨kv, hkv, rfl⟩) | hf
    · obtain ⟨h1, h2⟩ := hm kv hkv
      have l1 := bytesField_length 1 kv.1
      have l2 := bytesField_length 2 kv.2
      refine ⟨by omega, ?_⟩
      rw [encodeFields_pair, List.length_append]; omega
    · have h1 := hvv kv hkv
      have l1 := bytesField_length 1 kv.1
      have l2 := varintField_length 2 (if kv.2 then 1 else 0)
      refine ⟨by omega, ?_⟩
      rw [encodeFields_pair, List.length_append]; omega
    · unfold optV at hf; split at hf
      · simp at hf
      · simp only [List.mem_singleton] at hf; subst hf; exact ⟨by omega, hi⟩
  unfold decodeCfg
  rw [parseMessage_encode _ hv]
  simp only
  have r1 : getRepeated (cfgFields c) 1 = c.members.map (fun kv => encodeFields [.bytes 1 kv.1, .bytes 2 kv.2]) := by
    simp [cfgFields, getRepeated_append, getRepeated_members, getRepeated_voters, getRepeated_optV]
  have r2 : getRepeated (cfgFields c) 2 = c.voters.map (fun kv => encodeFields [.bytes 1 kv.1, .varint 2 (if kv.2 then 1 else 0)]) := by
    simp [cfgFields, getRepeated_append, getRepeated_members, getRepeated_voters, getRepeated_optV]
  rw [r1, r2, mapM_members _ hm, mapM_voters _ hvv]
  simp only
  have hidx : getVarint (cfgFields c) 3 = c.index := by
    rw [getVarint_eq]
    simp only [cfgFields, List.foldl_append]
    rw [foldl_vStep_bytesOnly 3 0 _ (by intro f hf; simp only [List.mem_map] at hf; obtain ⟨kv, _, rfl⟩ := hf; exact ⟨_, _, rfl⟩)]
    rw [foldl_vStep_bytesOnly 3 0 _ (by intro f hf; simp only [List.mem_map] at hf; obtain ⟨kv, _, rfl⟩ := hf; exact ⟨_, _, rfl⟩)]
    unfold optV; split
    · simp_all
    · simp [vStep]
  rw [hidx]

/-- the map a decoder builds from entries in wire order: for distinct keys, every key maps to
    its value, whatever the order -/
theorem lookupLast_of_nodup {α : Type} (l : List (Bytes × α)) (hn : (l.map (·.1)).Nodup) (kv : Bytes × α) (h : kv ∈ l) :
    lookupLast l kv.1 = some kv.2 := by
  unfold lookupLast
  suffices ∀ (acc : Option α), (kv ∈ l → l.foldl (fun acc x => if x.1 = kv.1 then some x.2 else acc) acc = some kv.2) by
    exact this none h
  induction l with
  | nil => intro _ h; simp at h
  | cons x xs ih =>
    intro acc hmem
    simp only [List.map_cons, List.nodup_cons] at hn
    simp only [List.foldl_cons]
    rcases List.mem_cons.mp hmem with rfl | hin
    · simp only [if_true]
      -- no later entry has this key
      have : ∀ (ys : List (Bytes × α)) (a : Option α), (∀ y ∈ ys, y.1 ≠ kv.1) →
          ys.foldl (fun acc x => if x.1 = kv.1 then some x.2 else acc) a = a := by
        intro ys
        induction ys with
        | nil => intro a _; rfl
        | cons y ys ihy =>
          intro a hy
          simp only [List.foldl_cons]
          rw [if_neg (hy y List.mem_cons_self)]
          exact ihy a (fun z hz => hy z (List.mem_cons_of_mem _ hz))
      apply this
      intro y hy heq
      exact hn.1 (by rw [← heq]; exact List.mem_map_of_mem hy)
    · exact ih hn.2 hin _ hin

end Raft.Codec
