/-
  Proofs/Compaction.lean — a node whose log has been compacted handles AppendEntries like a node
  that holds the full log (C11, third clause).

  `Compacted l l' i t`: `l'` is `l` with everything up to `i` cut away (boundary term `t`). The
  relation is preserved by what the handler does to a log (truncate above the boundary, append),
  reads above the boundary agree (`get?`, `contains`, last index), so the merge loop makes the
  same decisions (`mergeScan_compacted`) and the accepting part has the same effects and the
  same resulting state, with the resulting logs again related (`aeAccept_compacted`).
-/
import RaftVerif.Model.Handlers
import RaftVerif.Proofs.LogLemmas
import RaftVerif.Proofs.NodeLemmas
set_option linter.unusedSimpArgs false
set_option linter.unusedVariables false
namespace Raft
open Node Log

/-- `l'` is `l` with everything up to `i` compacted away (boundary term `t`) -/
structure Compacted (l l' : Log) (i t : Nat) : Prop where
  base : l'.base = i
  bterm : l'.baseTerm = t
  ents : l'.ents = l.ents.drop (i - l.base)
  lo : l.base ≤ i
  hi : i ≤ l.base + l.ents.length

theorem Compacted.lastIndex {l l' : Log} {i t : Nat} (h : Compacted l l' i t) (hw : l.WF) : l'.lastIndex = l.lastIndex ∧ l'.WF := by
  have hwf' : l'.WF := by
    unfold WF; rw [h.base, h.ents]
    have := contig_drop hw (i - l.base) (by have := h.hi; omega)
    rwa [show l.base + (i - l.base) = i by have := h.lo; omega] at this
  refine ⟨?_, hwf'⟩
  rw [wf_lastIndex hwf', wf_lastIndex hw, h.base, h.ents, List.length_drop]
  have := h.hi; have := h.lo; omega

theorem Compacted.contains {l l' : Log} {i t j : Nat} (h : Compacted l l' i t) (hj : i < j) :
    l'.contains j = l.contains j := by
  have e1 : l'.contains j = true ↔ l.contains j = true := by
    rw [contains_iff, contains_iff, h.base, h.ents, List.length_drop]
    have := h.hi; have := h.lo; omega
  cases h1 : l'.contains j <;> cases h2 : l.contains j <;> simp_all

theorem Compacted.get? {l l' : Log} {i t j : Nat} (h : Compacted l l' i t) (hj : i < j) : l'.get? j = l.get? j := by
  unfold Log.get?
  rw [h.contains hj]
  split
  · rw [h.ents, h.base, List.getElem?_drop]
    congr 1; have := h.lo; omega
  · rfl

theorem Compacted.truncate {l l' l1 : Log} {i t j : Nat} (h : Compacted l l' i t) (hj : i < j) (ht : l.truncate j = some l1) :
    ∃ l1', l'.truncate j = some l1' ∧ Compacted l1 l1' i t := by
  unfold Log.truncate at ht ⊢
  rw [h.contains hj]
  split at ht
  · rename_i hc
    simp only [hc, if_true]
    injection ht with ht
    subst ht
    have hb := contains_iff.mp hc
    refine ⟨_, rfl, ⟨h.base, h.bterm, ?_, h.lo, ?_⟩⟩
    · simp only [h.ents, h.base]
      rw [List.take_drop]
      congr 2; have := h.lo; omega
    · simp only [List.length_take]; have := h.lo; omega
  · simp at ht

theorem Compacted.truncate_none {l l' : Log} {i t j : Nat} (h : Compacted l l' i t) (hj : i < j) (ht : l.truncate j = none) :
    l'.truncate j = none := by
  unfold Log.truncate at ht ⊢
  rw [h.contains hj]
  split at ht
  · simp at ht
  · rename_i hc; simp [hc]

theorem Compacted.append {l l' : Log} {i t : Nat} (h : Compacted l l' i t) (es : List Entry) :
    Compacted (l.append es) (l'.append es) i t := by
  refine ⟨h.base, h.bterm, ?_, h.lo, ?_⟩
  · simp only [Log.append, h.ents]
    rw [List.drop_append_of_le_length (by have := h.hi; have := h.lo; omega)]
  · simp only [Log.append, List.length_append]; have := h.hi; omega

/-- the merge loop makes the same decisions on the compacted log -/
theorem mergeScan_compacted : ∀ (es : List Entry) (l l' : Log) (i t : Nat), l.WF → Compacted l l' i t →
    (∀ e ∈ es, i < e.index) →
    match mergeScan l es with
    | .fatal => mergeScan l' es = .fatal
    | .ok l1 tr ta => ∃ l1', mergeScan l' es = .ok l1' tr ta ∧ Compacted l1 l1' i t
  | [], l, l', i, t, hw, h, _ => by
    simp only [mergeScan]
    exact ⟨l', rfl, h⟩
  | e :: es, l, l', i, t, hw, h, hall => by
    have hei : i < e.index := hall e List.mem_cons_self
    have hrest : ∀ x ∈ es, i < x.index := fun x hx => hall x (List.mem_cons_of_mem _ hx)
    have hli := (h.lastIndex hw).1
    have ih := mergeScan_compacted es l l' i t hw h hrest
    unfold mergeScan
    rw [hli, h.get? hei]
    by_cases h1 : l.lastIndex < e.index
    · simp only [h1, if_true]
      exact ⟨l', rfl, h⟩
    · simp only [h1, if_false]
      cases hg : l.get? e.index with
      | none => simp
      | some ex =>
        simp only
        by_cases hcf : isConflict ex e = true
        · simp only [hcf, Bool.not_true, Bool.false_eq_true, if_false]
          cases htr : l.truncate e.index with
          | none => simp [h.truncate_none hei htr]
          | some l1 =>
            obtain ⟨l1', h1', hc1⟩ := h.truncate hei htr
            simp only [h1']
            exact ⟨l1', rfl, hc1⟩
        · have : isConflict ex e = false := by simpa using hcf
          simp only [this, Bool.not_false, if_true]
          exact ih

theorem nextConfiguration_withLog (n : Node) (l' : Log) (i t now : Nat) (c : Option Config) :
    Node.nextConfiguration { n with log := l', snapIndex := i, snapTerm := t } now c =
      ({ (n.nextConfiguration now c).1 with log := l', snapIndex := i, snapTerm := t }, (n.nextConfiguration now c).2) := by
  unfold Node.nextConfiguration Node.stepdown Node.resetSnapshots
  cases c with
  | none => rfl
  | some c =>
    simp only
    split
    · rfl
    · split <;> rfl

/-- the part of `aeAccept` after the merge loop -/
def aeFinish (n4 : Node) (now : Nat) (q : AEReq) (truncAt : Option Nat) (toAppend : List Entry) : Node × List Effect :=
  let r5 : Node × List Effect :=
    match truncAt with
    | some ti =>
      if ti ≤ n4.config.index then
        ((n4.nextConfiguration now n4.committed).1, [Effect.logTruncate ti] ++ (n4.nextConfiguration now n4.committed).2)
      else (n4, [Effect.logTruncate ti])
    | none => (n4, [])
  let n6 := { r5.1 with log := r5.1.log.append toAppend }
  let c := min q.leaderCommit (q.prevIndex + q.entries.length)
  let r7 : Node × List Effect :=
    if c > n6.commitIndex then ({ n6 with commitIndex := c }, [Effect.signalApply]) else (n6, [])
  (r7.1, r5.2 ++ [Effect.logAppend toAppend] ++ r7.2)

theorem aeAccept_eq (n : Node) (now : Nat) (q : AEReq) :
    aeAccept n now q = match mergeScan n.log q.entries with
      | .fatal => (n, [.fatal])
      | .ok l1 tr ta => aeFinish { n with log := l1 } now q tr ta := by
  unfold aeAccept aeFinish
  rfl

theorem aeFinish_compacted (n : Node) (l1 l1' : Log) (i t now : Nat) (q : AEReq) (tr : Option Nat) (ta : List Entry)
    (hc : Compacted l1 l1' i t) :
    ∃ L', aeFinish { n with log := l1', snapIndex := i, snapTerm := t } now q tr ta =
        ({ (aeFinish { n with log := l1 } now q tr ta).1 with log := L', snapIndex := i, snapTerm := t },
         (aeFinish { n with log := l1 } now q tr ta).2) ∧
      Compacted (aeFinish { n with log := l1 } now q tr ta).1.log L' i t := by
  refine ⟨l1'.append ta, ?_, ?_⟩
  · cases tr with
    | none =>
      unfold aeFinish
      simp only
      split <;> rfl
    | some ti =>
      unfold aeFinish
      simp only
      by_cases hti : ti ≤ n.config.index
      · simp only [hti, if_true]
        have e := nextConfiguration_withLog { n with log := l1 } l1' i t now n.committed
        simp only at e
        rw [e]
        simp only [nextConfiguration_log]
        split <;> rfl
      · simp only [hti, if_false]
        split <;> rfl
  · have key : (aeFinish { n with log := l1 } now q tr ta).1.log = l1.append ta := by
      cases tr with
      | none => unfold aeFinish; simp only; split <;> rfl
      | some ti =>
        unfold aeFinish
        simp only
        by_cases hti : ti ≤ n.config.index
        · simp only [hti, if_true]
          split <;> simp [nextConfiguration_log]
        · simp only [hti, if_false]
          split <;> rfl
    rw [key]
    exact hc.append ta

/-- **The accepting part of AppendEntries on a compacted node**: same effects, same resulting state,
    and the resulting log is the full-log node's resulting log, compacted at the same boundary. -/
theorem aeAccept_compacted (n : Node) (l' : Log) (i t now : Nat) (q : AEReq) (hw : n.log.WF)
    (hc : Compacted n.log l' i t) (hall : ∀ e ∈ q.entries, i < e.index) :
    ∃ L', aeAccept { n with log := l', snapIndex := i, snapTerm := t } now q =
        ({ (aeAccept n now q).1 with log := L', snapIndex := i, snapTerm := t }, (aeAccept n now q).2) ∧
      Compacted (aeAccept n now q).1.log L' i t := by
  have hm := mergeScan_compacted q.entries n.log l' i t hw hc hall
  rw [aeAccept_eq, aeAccept_eq]
  simp only
  cases hms : mergeScan n.log q.entries with
  | fatal =>
    rw [hms] at hm
    simp only [hm]
    exact ⟨l', rfl, hc⟩
  | ok l1 tr ta =>
    rw [hms] at hm
    obtain ⟨l1', hm', hc1⟩ := hm
    simp only [hm']
    exact aeFinish_compacted n l1 l1' i t now q tr ta hc1

theorem aeEnter_with3 (n : Node) (l' : Log) (i t now : Nat) (q : AEReq) :
    aeEnter { n with log := l', snapIndex := i, snapTerm := t } now q =
      ({ (aeEnter n now q).1 with log := l', snapIndex := i, snapTerm := t }, (aeEnter n now q).2) := by
  unfold aeEnter Node.becomeFollower Node.resetSnapshots
  simp only
  by_cases h1 : q.term > n.term
  · simp only [h1, if_true]
    by_cases h2 : n.role = .candidate ∨ n.role = .precandidate
    · simp [h2]
    · simp [h2]
  · simp only [h1, if_false]
    by_cases h2 : q.term = n.term ∧ (n.role = .candidate ∨ n.role = .precandidate)
    · simp only [h2, and_self, if_true]
    · simp only [h2, if_false]

end Raft
