/-
  Proofs/DecOrder.lean — the names of the snapshot directories. The storage names a published
  snapshot `snapshot-<UnixNano>` (decimal, no padding) and takes "the most recent" to be the
  last name in the order of the directory listing, which is byte-wise lexicographic
  (`os.ReadDir` sorts by file name; the comparison function of `directories()` parses the
  full path with the pattern `snapshot-%d`, fails at the first byte and so never reorders).
  Lexicographic order on decimal renderings is numeric order exactly when the renderings
  have the same number of digits: proved here, for every width.
-/
import RaftVerif.Proofs.Meta
set_option linter.unusedSimpArgs false
set_option linter.unusedVariables false
namespace Raft.Meta
open Raft.Bytes

/-- byte-wise lexicographic order (file names in a directory listing) -/
def lexLt : List Nat → List Nat → Bool
  | [], [] => false
  | [], _ :: _ => true
  | _ :: _, [] => false
  | a :: as, b :: bs => if a < b then true else if b < a then false else lexLt as bs

/-- fixed-width decimal rendering: `k` digits, most significant first -/
def fixedDec : Nat → Nat → List Nat
  | 0, _ => []
  | k + 1, n => fixedDec k (n / 10) ++ [48 + n % 10]

theorem fixedDec_length : ∀ (k n : Nat), (fixedDec k n).length = k := by
  intro k
  induction k with
  | zero => intro n; rfl
  | succ k ih => intro n; simp [fixedDec, ih]

/-- the library's rendering of a number with exactly `k+1` digits is the fixed-width one -/
theorem decAux_fixed : ∀ (k fuel n : Nat) (acc : List Nat), k ≤ fuel → 10 ^ k ≤ n → n < 10 ^ (k + 1) →
    decAux fuel n acc = fixedDec (k + 1) n ++ acc := by
  intro k
  induction k with
  | zero =>
    intro fuel n acc _ h1 h2
    have hn : n < 10 := by simpa using h2
    cases fuel with
    | zero => simp [decAux, fixedDec]
    | succ f => simp [decAux, fixedDec, hn, Nat.mod_eq_of_lt hn]
  | succ k ih =>
    intro fuel n acc hk h1 h2
    cases fuel with
    | zero => omega
    | succ f =>
      have e1 : 10 ^ (k + 1) = 10 * 10 ^ k := by rw [Nat.pow_succ]; omega
      have e2 : 10 ^ (k + 1 + 1) = 10 * 10 ^ (k + 1) := by rw [Nat.pow_succ]; omega
      have hp : 0 < 10 ^ k := Nat.pow_pos (by omega)
      have hn : ¬ n < 10 := by omega
      unfold decAux
      rw [if_neg hn]
      have hlo : 10 ^ k ≤ n / 10 := by
        rw [e1] at h1
        exact (Nat.le_div_iff_mul_le (by omega)).mpr (by omega)
      have hhi : n / 10 < 10 ^ (k + 1) := by
        rw [e2] at h2
        exact Nat.div_lt_of_lt_mul h2
      rw [ih f (n / 10) _ (by omega) hlo hhi]
      conv => rhs; rw [fixedDec]
      simp

theorem lexLt_irrefl : ∀ (xs : List Nat), lexLt xs xs = false := by
  intro xs
  induction xs with
  | nil => rfl
  | cons a as ih => simp [lexLt, ih]

/-- comparing two names of the same length that differ in their last byte at most ... -/
theorem lexLt_snoc : ∀ (xs ys : List Nat) (a b : Nat), xs.length = ys.length →
    lexLt (xs ++ [a]) (ys ++ [b]) = (lexLt xs ys || (decide (xs = ys) && decide (a < b))) := by
  intro xs
  induction xs with
  | nil =>
    intro ys a b h
    cases ys with
    | nil =>
      simp only [List.nil_append, lexLt]
      by_cases hab : a < b
      · simp [hab]
      · by_cases hba : b < a <;> simp [hab, hba]
    | cons y ys => simp at h
  | cons x xs ih =>
    intro ys a b h
    cases ys with
    | nil => simp at h
    | cons y ys =>
      simp only [List.cons_append, lexLt]
      by_cases hxy : x < y
      · simp [hxy]
      · by_cases hyx : y < x
        · have : x ≠ y := by omega
          simp [hxy, hyx, this]
        · have : x = y := by omega
          subst this
          simp only [hxy, if_false]
          rw [ih ys a b (by simpa using h)]
          simp

theorem lexLt_prefix : ∀ (p xs ys : List Nat), lexLt (p ++ xs) (p ++ ys) = lexLt xs ys := by
  intro p
  induction p with
  | nil => intro xs ys; rfl
  | cons a p ih => intro xs ys; simp [lexLt, ih]

theorem mod_pow_succ (a k : Nat) : a % 10 ^ (k + 1) = a % 10 + 10 * (a / 10 % 10 ^ k) := by
  have e : 10 ^ (k + 1) = 10 * 10 ^ k := by rw [Nat.pow_succ]; omega
  rw [e, Nat.mod_mul]

/-- fixed-width renderings are equal / ordered exactly as the numbers are (modulo the width) -/
theorem fixedDec_order : ∀ (k a b : Nat),
    (fixedDec k a = fixedDec k b ↔ a % 10 ^ k = b % 10 ^ k) ∧
    (lexLt (fixedDec k a) (fixedDec k b) = true ↔ a % 10 ^ k < b % 10 ^ k) := by
  intro k
  induction k with
  | zero => intro a b; simp [fixedDec, lexLt, Nat.mod_one]
  | succ k ih =>
    intro a b
    obtain ⟨ihe, ihl⟩ := ih (a / 10) (b / 10)
    have ha := mod_pow_succ a k
    have hb := mod_pow_succ b k
    have ha10 : a % 10 < 10 := Nat.mod_lt _ (by omega)
    have hb10 : b % 10 < 10 := Nat.mod_lt _ (by omega)
    constructor
    · simp only [fixedDec]
      constructor
      · intro h
        have hl : (fixedDec k (a / 10)).length = (fixedDec k (b / 10)).length := by
          rw [fixedDec_length, fixedDec_length]
        obtain ⟨h1, h2⟩ := List.append_inj h hl
        have := ihe.mp h1
        have h3 : 48 + a % 10 = 48 + b % 10 := by simpa using h2
        omega
      · intro h
        have h1 : a / 10 % 10 ^ k = b / 10 % 10 ^ k := by omega
        have h2 : a % 10 = b % 10 := by omega
        rw [ihe.mpr h1, h2]
    · simp only [fixedDec]
      rw [lexLt_snoc _ _ _ _ (by rw [fixedDec_length, fixedDec_length])]
      simp only [Bool.or_eq_true, Bool.and_eq_true, decide_eq_true_eq]
      rw [ihl, ihe]
      omega

/-- **names of one width sort by time**: for two numbers with the same number of digits (at most
    twenty), the library's decimal renderings compare byte-wise as the numbers compare -/
theorem encDec_order (k a b : Nat) (hk : k ≤ 19) (ha1 : 10 ^ k ≤ a) (ha2 : a < 10 ^ (k + 1))
    (hb1 : 10 ^ k ≤ b) (hb2 : b < 10 ^ (k + 1)) :
    (lexLt (encDec a) (encDec b) = true ↔ a < b) ∧ (encDec a = encDec b ↔ a = b) := by
  unfold encDec
  rw [decAux_fixed k 19 a [] hk ha1 ha2, decAux_fixed k 19 b [] hk hb1 hb2]
  simp only [List.append_nil]
  obtain ⟨he, hl⟩ := fixedDec_order (k + 1) a b
  rw [Nat.mod_eq_of_lt ha2, Nat.mod_eq_of_lt hb2] at he hl
  exact ⟨hl, he⟩

/-- and of different widths they do not: `9` sorts after `10` (why the names must be time stamps of
    one width and not, say, log indices) -/
theorem encDec_order_fails_across_widths : lexLt (encDec 10) (encDec 9) = true := by decide

end Raft.Meta
