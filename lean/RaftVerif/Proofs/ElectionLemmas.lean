/-
  Proofs/ElectionLemmas.lean — what `election`, `prepareRV` and `onVoteReply` do to the
  election state of a node.
-/
import RaftVerif.Proofs.NodeLemmas
import RaftVerif.Model.Leader
set_option linter.unusedSimpArgs false
set_option linter.unusedVariables false
namespace Raft
namespace Node

/-! ### helpers that never touch term, vote, identity, vote rounds -/

@[simp] theorem tryApplyReadOnly_fields (n : Node) (now seq : Nat) :
    (n.tryApplyReadOnly now seq).1.term = n.term ∧ (n.tryApplyReadOnly now seq).1.votedFor = n.votedFor ∧
    (n.tryApplyReadOnly now seq).1.role = n.role ∧ (n.tryApplyReadOnly now seq).1.id = n.id ∧
    (n.tryApplyReadOnly now seq).1.config = n.config ∧ (n.tryApplyReadOnly now seq).1.rvRounds = n.rvRounds ∧
    (n.tryApplyReadOnly now seq).1.nextRound = n.nextRound ∧ (n.tryApplyReadOnly now seq).1.log = n.log :=
  ⟨rfl, rfl, rfl, rfl, rfl, rfl, rfl, rfl⟩

theorem sendAEToPeers_fields (n : Node) (now : Nat) :
    (n.sendAEToPeers now).1.term = n.term ∧ (n.sendAEToPeers now).1.votedFor = n.votedFor ∧
    (n.sendAEToPeers now).1.role = n.role ∧ (n.sendAEToPeers now).1.id = n.id ∧
    (n.sendAEToPeers now).1.config = n.config ∧ (n.sendAEToPeers now).1.rvRounds = n.rvRounds ∧
    (n.sendAEToPeers now).1.nextRound = n.nextRound + 1 := by
  unfold sendAEToPeers
  simp only
  split <;> simp [tryApplyReadOnly]

theorem sendAEToPeers_reads (n : Node) (now : Nat) :
    (n.sendAEToPeers now).1.readSeq = n.readSeq ∧
    (n.sendAEToPeers now).1.aeRounds = (n.nextRound, n.selfCount, n.readSeq) :: n.aeRounds ∧
    (n.sendAEToPeers now).1.pendingReads =
      (if n.config.isSingle n.id then (n.tryApplyReadOnly now n.readSeq).1.pendingReads else n.pendingReads) := by
  unfold sendAEToPeers
  simp only
  split <;> exact ⟨rfl, rfl, rfl⟩

theorem becomeLeader_fields (n : Node) (now : Nat) :
    (n.becomeLeader now).1.term = n.term ∧ (n.becomeLeader now).1.votedFor = n.votedFor ∧
    (n.becomeLeader now).1.role = .leader ∧ (n.becomeLeader now).1.id = n.id ∧
    (n.becomeLeader now).1.config = n.config ∧ (n.becomeLeader now).1.rvRounds = n.rvRounds ∧
    (n.becomeLeader now).1.nextRound = n.nextRound + 1 := by
  unfold becomeLeader
  simp only []
  refine ⟨?_, ?_, ?_, ?_, ?_, ?_, ?_⟩
  · rw [(sendAEToPeers_fields _ _).1]; rfl
  · rw [(sendAEToPeers_fields _ _).2.1]; rfl
  · rw [(sendAEToPeers_fields _ _).2.2.1]; rfl
  · rw [(sendAEToPeers_fields _ _).2.2.2.1]; rfl
  · rw [(sendAEToPeers_fields _ _).2.2.2.2.1]; rfl
  · rw [(sendAEToPeers_fields _ _).2.2.2.2.2.1]; rfl
  · rw [(sendAEToPeers_fields _ _).2.2.2.2.2.2]; rfl

theorem becomeFollower_rounds (n : Node) (now l t : Nat) :
    (n.becomeFollower now l t).1.rvRounds = n.rvRounds ∧ (n.becomeFollower now l t).1.nextRound = n.nextRound := ⟨rfl, rfl⟩

/-- A configuration with at least two voters is never the single-server case. -/
theorem not_single_of_two (c : Config) (id : Nat) (h : 2 ≤ c.voters) : c.isSingle id = false := by
  unfold Config.isSingle
  have : (c.voters == 1) = false := by
    cases hh : c.voters == 1 with
    | false => rfl
    | true => simp at hh; omega
  simp [this]

/-! ### `election` -/

/-- The outcomes of one election-loop iteration in a cluster with at least two voters. -/
inductive ElectionOutcome (n : Node) (n' : Node) (eff : List Effect) : Prop
  | idle : n' = n → eff = [] → ElectionOutcome n n' eff
  | prevote :
      n'.role = .precandidate → n'.term = n.term → n'.votedFor = n.votedFor → n'.id = n.id → n'.config = n.config →
      n'.rvRounds = (n.nextRound, 1) :: n.rvRounds → n'.nextRound = n.nextRound + 1 →
      eff = (n.config.voterIds.filter (· ≠ n.id)).map (fun i => Effect.spawnRV i true) →
      n'.config.isVoter n'.id = true → ElectionOutcome n n' eff
  | real :
      n'.role = .candidate → n'.term = n.term + 1 → n'.votedFor = n.id → n'.id = n.id → n'.config = n.config →
      n'.rvRounds = (n.nextRound, 1) :: n.rvRounds → n'.nextRound = n.nextRound + 1 →
      eff = Effect.setState (n.term + 1) n.id :: (n.config.voterIds.filter (· ≠ n.id)).map (fun i => Effect.spawnRV i false) →
      n'.config.isVoter n'.id = true → ElectionOutcome n n' eff

theorem election_outcome (n : Node) (now : Nat) (h2 : 2 ≤ n.config.voters) :
    ElectionOutcome n (n.election now).1 (n.election now).2 := by
  have hs := not_single_of_two n.config n.id h2
  unfold election
  by_cases hidle : n.role = .leader ∨ n.role = .shutdown ∨ n.config.isVoter n.id = false ∨ n.contactFresh now = true
  · simp only [hidle, if_true]; exact .idle rfl rfl
  · simp only [hidle, if_false]
    have hv : n.config.isVoter n.id = true := by
      cases hh : n.config.isVoter n.id with
      | true => rfl
      | false => exact absurd (Or.inr (Or.inr (Or.inl hh))) hidle
    have hnl : n.role ≠ .leader := fun h => hidle (Or.inl h)
    have hns : n.role ≠ .shutdown := fun h => hidle (Or.inr (Or.inl h))
    by_cases hpre : n.role = .follower ∨ (n.role = .candidate ∧ n.prevoteWon = false)
    · -- a (new) prevote
      simp only [hpre, if_true]
      simp only [reduceCtorEq, if_false, List.nil_append]
      unfold sendRVToPeers
      simp only [hs, Bool.false_eq_true, if_false, decide_true]
      exact .prevote rfl rfl rfl rfl rfl rfl rfl rfl hv
    · simp only [hpre, if_false]
      by_cases hc : n.role = .candidate
      · -- won the prevote before: a real election in the next term
        simp only [hc, if_true]
        unfold becomeCandidate sendRVToPeers
        simp only [hs, Bool.false_eq_true, if_false, reduceCtorEq, decide_false]
        exact .real rfl rfl rfl rfl rfl rfl rfl (by simp) hv
      · -- still a pre-candidate: another prevote
        have hp : n.role = .precandidate := by
          cases hr : n.role <;> simp_all
        simp only [hc, if_false, List.nil_append]
        unfold sendRVToPeers
        simp only [hs, Bool.false_eq_true, if_false, hp, decide_true]
        exact .prevote rfl rfl rfl rfl rfl rfl rfl rfl hv

/-! ### `prepareRV` -/

theorem prepareRV_some {n : Node} {peer : Nat} {pv : Bool} {q : RVReq} (h : n.prepareRV peer pv = some q) :
    q.candidate = n.id ∧ q.prevote = pv ∧ q.term = (if pv then n.term + 1 else n.term) ∧
    n.config.isVoter peer = true ∧ n.config.isVoter n.id = true := by
  unfold prepareRV at h
  split at h
  · simp at h
  · rename_i hh
    injection h with h; subst h
    refine ⟨rfl, rfl, rfl, ?_, ?_⟩
    · cases hp : n.config.isVoter peer with
      | true => rfl
      | false => exact absurd (Or.inl hp) hh
    · cases hp : n.config.isVoter n.id with
      | true => rfl
      | false => exact absurd (Or.inr hp) hh

/-! ### `onVoteReply` -/

theorem bumpRound_mem {rs : List (Nat × Nat)} {id : Nat} {x : Nat × Nat} (h : x ∈ bumpRound rs id) :
    (x.1 = id ∧ ∃ c, (id, c) ∈ rs ∧ x.2 = c + 1) ∨ (x.1 ≠ id ∧ x ∈ rs) := by
  unfold bumpRound at h
  obtain ⟨y, hy, rfl⟩ := List.mem_map.mp h
  by_cases hid : y.1 = id
  · left; simp only [hid, if_true]; exact ⟨trivial, y.2, by rw [← hid]; exact hy, rfl⟩
  · right; simp only [hid, if_false]; exact ⟨hid, hy⟩

theorem roundCount_mem_or_zero (rs : List (Nat × Nat)) (id : Nat) :
    roundCount rs id = 0 ∨ (id, roundCount rs id) ∈ rs := by
  unfold roundCount
  cases h : rs.find? (·.1 = id) with
  | none => left; rfl
  | some r =>
    right
    have hm := List.mem_of_find?_eq_some h
    have hp := List.find?_some h
    simp only [decide_eq_true_eq] at hp
    simp only
    rw [← hp]; exact hm

/-- Everything `onVoteReply` can do, as far as elections are concerned. -/
structure VoteReplySpec (n : Node) (q : RVReq) (round : Nat) (r : RVResp) (n' : Node) : Prop where
  id_eq : n'.id = n.id
  config_eq : n'.config = n.config
  term_le : n.term ≤ n'.term
  vote_keep : n'.term = n.term → n'.votedFor = n.votedFor
  vote_reset : n'.term ≠ n.term → n'.votedFor = 0
  rounds : n'.rvRounds = n.rvRounds ∨ (r.granted = true ∧ n'.rvRounds = bumpRound n.rvRounds round)
  nextRound_le : n.nextRound ≤ n'.nextRound
  new_leader : n'.role = .leader → n.role ≠ .leader →
    q.prevote = false ∧ n.term ≤ q.term ∧ n'.term = n.term ∧
    n.config.hasQuorum (roundCount n'.rvRounds round) = true
  leader_term : n'.role = .leader → n'.term = n.term

theorem onVoteReply_spec (n : Node) (now peer round : Nat) (q : RVReq) (r : RVResp) :
    VoteReplySpec n q round r (n.onVoteReply now peer round q (some r)).1 := by
  unfold onVoteReply
  simp only
  by_cases hsd : n.role = .shutdown
  · simp only [hsd, if_true]
    exact ⟨rfl, rfl, Nat.le_refl _, fun _ => rfl, fun h => absurd rfl h, Or.inl rfl, Nat.le_refl _, fun h _ => by simp [hsd] at h, fun _ => rfl⟩
  simp only [hsd, if_false]
  by_cases hstale : n.term > q.term
  · simp only [hstale, if_true]
    exact ⟨rfl, rfl, Nat.le_refl _, fun _ => rfl, fun h => absurd rfl h, Or.inl rfl, Nat.le_refl _, fun h hn => absurd h hn, fun _ => rfl⟩
  simp only [hstale, if_false]
  have hle : n.term ≤ q.term := by omega
  -- the node after the optional counter increment
  generalize hn1 : (if r.granted = true then { n with rvRounds := bumpRound n.rvRounds round } else n) = n1
  have h1 : n1.id = n.id ∧ n1.config = n.config ∧ n1.term = n.term ∧ n1.votedFor = n.votedFor ∧ n1.role = n.role ∧
      n1.nextRound = n.nextRound ∧ (n1.rvRounds = n.rvRounds ∨ (r.granted = true ∧ n1.rvRounds = bumpRound n.rvRounds round)) := by
    subst hn1
    split
    · rename_i hg; exact ⟨rfl, rfl, rfl, rfl, rfl, rfl, Or.inr ⟨hg, rfl⟩⟩
    · exact ⟨rfl, rfl, rfl, rfl, rfl, rfl, Or.inl rfl⟩
  obtain ⟨a1, a2, a3, a4, a5, a6, a7⟩ := h1
  by_cases hhigh : r.term > q.term
  · -- a higher term in the reply: step down
    simp only [hhigh, if_true]
    have hgt : r.term > n1.term := by omega
    refine { id_eq := ?_, config_eq := ?_, term_le := ?_, vote_keep := ?_, vote_reset := ?_, rounds := ?_,
             nextRound_le := ?_, new_leader := ?_, leader_term := ?_ }
    · rw [becomeFollower_id]; exact a1
    · rw [becomeFollower_config]; exact a2
    · rw [becomeFollower_term]; omega
    · intro h; rw [becomeFollower_term] at h; omega
    · intro _; rw [becomeFollower_votedFor]; simp [hgt]
    · rw [(becomeFollower_rounds n1 now peer r.term).1]; exact a7
    · rw [(becomeFollower_rounds n1 now peer r.term).2, a6]; exact Nat.le_refl _
    · intro h _; rw [becomeFollower_role] at h; exact absurd h (by simp)
    · intro h; rw [becomeFollower_role] at h; exact absurd h (by simp)
  simp only [hhigh, if_false]
  -- becoming leader from a node `m` that agrees with `n1` on everything but role/prevote flag
  have leaderCase : ∀ (m : Node), m.id = n1.id → m.config = n1.config → m.term = n1.term → m.votedFor = n1.votedFor →
      m.rvRounds = n1.rvRounds → m.nextRound = n1.nextRound →
      (!q.prevote) = true → n1.config.hasQuorum (roundCount n1.rvRounds round) = true →
      VoteReplySpec n q round r (m.becomeLeader now).1 := by
    intro m m1 m2 m3 m4 m5 m6 hq hquo
    obtain ⟨b1, b2, b3, b4, b5, b6, b7⟩ := becomeLeader_fields m now
    refine { id_eq := ?_, config_eq := ?_, term_le := ?_, vote_keep := ?_, vote_reset := ?_, rounds := ?_,
             nextRound_le := ?_, new_leader := ?_, leader_term := ?_ }
    · rw [b4, m1]; exact a1
    · rw [b5, m2]; exact a2
    · rw [b1, m3, a3]; exact Nat.le_refl _
    · intro _; rw [b2, m4]; exact a4
    · intro h; rw [b1, m3, a3] at h; exact absurd rfl h
    · rw [b6, m5]; exact a7
    · rw [b7, m6, a6]; omega
    · intro _ _
      refine ⟨by simpa using hq, hle, by rw [b1, m3]; exact a3, ?_⟩
      rw [b6, m5, ← a2]; exact hquo
    · intro _; rw [b1, m3]; exact a3
  have stay : ∀ (m : Node), m.id = n1.id → m.config = n1.config → m.term = n1.term → m.votedFor = n1.votedFor →
      m.rvRounds = n1.rvRounds → m.nextRound = n1.nextRound → (m.role = .leader → n.role = .leader) →
      VoteReplySpec n q round r m := by
    intro m m1 m2 m3 m4 m5 m6 hrole
    refine { id_eq := ?_, config_eq := ?_, term_le := ?_, vote_keep := ?_, vote_reset := ?_, rounds := ?_,
             nextRound_le := ?_, new_leader := ?_, leader_term := ?_ }
    · rw [m1]; exact a1
    · rw [m2]; exact a2
    · rw [m3, a3]; exact Nat.le_refl _
    · intro _; rw [m4]; exact a4
    · intro h; rw [m3, a3] at h; exact absurd rfl h
    · rw [m5]; exact a7
    · rw [m6, a6]; exact Nat.le_refl _
    · intro h hn; exact absurd (hrole h) hn
    · intro _; rw [m3]; exact a3
  by_cases hpq : n1.config.hasQuorum (roundCount n1.rvRounds round) = true ∧ n1.role = .precandidate
  · -- prevote won (or a late real-vote quorum reaching a pre-candidate)
    simp only [hpq, and_self, if_true]
    by_cases hq : (!q.prevote) = true
    · simp only [hq, true_and, and_self, if_true]
      exact leaderCase _ rfl rfl rfl rfl rfl rfl hq hpq.1
    · simp only [hq, false_and, if_false]
      exact stay _ rfl rfl rfl rfl rfl rfl (fun h => by simp at h)
  · simp only [hpq, if_false]
    by_cases hlead : (!q.prevote) = true ∧ n1.config.hasQuorum (roundCount n1.rvRounds round) = true ∧ n1.role = .candidate
    · simp only [hlead, and_self, if_true, List.nil_append]
      exact leaderCase n1 rfl rfl rfl rfl rfl rfl hlead.1 hlead.2.1
    · simp only [hlead, if_false]
      exact stay n1 rfl rfl rfl rfl rfl rfl (fun h => by rw [a5] at h; exact h)

end Node
end Raft

namespace Raft

/-- `requestVote` as far as elections are concerned. -/
theorem requestVote_frame {n n' : Node} {now : Nat} {q : RVReq} {r : RVResp} {eff : List Effect}
    (h : requestVote n now q = some (n', r, eff)) :
    n'.id = n.id ∧ n'.config = n.config ∧ n'.rvRounds = n.rvRounds ∧ n'.nextRound = n.nextRound ∧
    (n'.role = .leader → n.role = .leader ∧ n'.term = n.term) := by
  unfold requestVote at h
  have key : (rvEnter n now q).1.id = n.id ∧ (rvEnter n now q).1.config = n.config ∧
      (rvEnter n now q).1.rvRounds = n.rvRounds ∧ (rvEnter n now q).1.nextRound = n.nextRound ∧
      ((rvEnter n now q).1.role = .leader → n.role = .leader ∧ (rvEnter n now q).1.term = n.term) := by
    unfold rvEnter
    split
    · refine ⟨by simp, by simp, rfl, rfl, fun h => by simp at h⟩
    · exact ⟨rfl, rfl, rfl, rfl, fun h => ⟨h, rfl⟩⟩
  split at h; · simp at h
  split at h; · injection h with h; injection h with h1 h2; subst h1; exact ⟨rfl, rfl, rfl, rfl, fun h => ⟨h, rfl⟩⟩
  split at h; · injection h with h; injection h with h1 h2; subst h1; exact ⟨rfl, rfl, rfl, rfl, fun h => ⟨h, rfl⟩⟩
  simp only at h
  split at h; · injection h with h; injection h with h1 h2; subst h1; exact key
  split at h; · injection h with h; injection h with h1 h2; subst h1; exact key
  split at h
  · injection h with h; injection h with h1 h2; subst h1; exact key
  · injection h with h; injection h with h1 h2; subst h1; exact key

end Raft
