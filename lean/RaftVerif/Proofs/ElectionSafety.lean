/-
  Proofs/ElectionSafety.lean — the inductive invariant of the election layer and
  election safety (at most one leader per term), for every reachable cluster state.
-/
import RaftVerif.Model.Cluster
import RaftVerif.Proofs.ElectionLemmas
import RaftVerif.Properties.C08
set_option linter.unusedSimpArgs false
set_option linter.unusedVariables false
namespace Raft
namespace Cluster
open Node

/-- number of counted grants of round `rid` of node `i` -/
def countG (gs : List (CallId × RVReq)) (i rid : Nat) : Nat :=
  (gs.filter (fun g => g.1.1 = i ∧ g.1.2.1 = rid)).length

/-- What every step does to the node it changes. -/
structure NodeStepOK (n n' : Node) : Prop where
  id_eq : n'.id = n.id
  config_eq : n'.config = n.config
  tv : TVStep (n.term, n.votedFor) (n'.term, n'.votedFor)
  nextRound_le : n.nextRound ≤ n'.nextRound

structure Inv (cfg : Config) (c : Cluster) : Prop where
  ids : ∀ i, (c.nodes i).id = i
  cfgs : ∀ i, (c.nodes i).config = cfg
  vote_nz : ∀ t v x, (t, v, x) ∈ c.votes → x ≠ 0
  vote_le : ∀ t v x, (t, v, x) ∈ c.votes → t ≤ (c.nodes v).term
  vote_cur : ∀ t v x, (t, v, x) ∈ c.votes → t = (c.nodes v).term → (c.nodes v).votedFor = x
  cur_vote : ∀ v, (c.nodes v).votedFor ≠ 0 → ((c.nodes v).term, v, (c.nodes v).votedFor) ∈ c.votes
  vote_uniq : ∀ t v x y, (t, v, x) ∈ c.votes → (t, v, y) ∈ c.votes → x = y
  rq_cand : ∀ k q, (k, q) ∈ c.requests → q.candidate = k.1
  rq_round : ∀ k q, (k, q) ∈ c.requests → k.2.1 < (c.nodes k.1).nextRound
  rq_voter : ∀ k q, (k, q) ∈ c.requests → cfg.isVoter k.2.2 = true ∧ k.2.2 ≠ k.1 ∧ cfg.isVoter k.1 = true
  rq_term : ∀ k q, (k, q) ∈ c.requests → q.prevote = false → q.term ≤ (c.nodes k.1).term
  rq_self : ∀ k q, (k, q) ∈ c.requests → q.prevote = false → (q.term, k.1, k.1) ∈ c.votes
  rq_same : ∀ k q k' q', (k, q) ∈ c.requests → (k', q') ∈ c.requests → k'.1 = k.1 → k'.2.1 = k.2.1 →
    q'.term = q.term ∧ q'.prevote = q.prevote
  rp_req : ∀ k q r, (k, q, r) ∈ c.replies → (k, q) ∈ c.requests
  rp_vote : ∀ k q r, (k, q, r) ∈ c.replies → r.granted = true → q.prevote = false → (q.term, k.2.2, q.candidate) ∈ c.votes
  gr_req : ∀ k q, (k, q) ∈ c.granters → (k, q) ∈ c.requests ∧ k ∈ c.returned ∧ ∃ r, (k, q, r) ∈ c.replies ∧ r.granted = true
  gr_nodup : (c.granters.map (·.1)).Nodup
  rd_lt : ∀ i rid cnt, (rid, cnt) ∈ (c.nodes i).rvRounds → rid < (c.nodes i).nextRound
  rd_cnt : ∀ i rid cnt, (rid, cnt) ∈ (c.nodes i).rvRounds → cnt ≤ 1 + countG c.granters i rid
  ld_quorum : ∀ t i, (t, i) ∈ c.leaders → ∃ Q : List Nat, Q.Nodup ∧
    (∀ v ∈ Q, cfg.isVoter v = true ∧ (t, v, i) ∈ c.votes) ∧ cfg.hasQuorum Q.length = true

/-! ### Quorum intersection -/

theorem hasQuorum_mono (cfg : Config) {a b : Nat} (h : a ≤ b) (ha : cfg.hasQuorum a = true) : cfg.hasQuorum b = true := by
  unfold Config.hasQuorum at *
  simp only [decide_eq_true_eq] at *
  omega

/-- Two sets of voters that each pass `hasQuorum` share a voter. -/
theorem quorums_intersect (cfg : Config) (hnd : cfg.voterIds.Nodup) (Q1 Q2 : List Nat) (h1 : Q1.Nodup) (h2 : Q2.Nodup)
    (s1 : ∀ v ∈ Q1, cfg.isVoter v = true) (s2 : ∀ v ∈ Q2, cfg.isVoter v = true)
    (q1 : cfg.hasQuorum Q1.length = true) (q2 : cfg.hasQuorum Q2.length = true) : ∃ v, v ∈ Q1 ∧ v ∈ Q2 := by
  -- voters as a list
  have hvl : cfg.voterIds.length = cfg.voters := by simp [Config.voterIds, Config.voters]
  have hmem : ∀ v, cfg.isVoter v = true → v ∈ cfg.voterIds := by
    intro v hv
    unfold Config.isVoter at hv
    simp only [List.any_eq_true, Bool.and_eq_true, beq_iff_eq] at hv
    obtain ⟨m, hm, h1, h2⟩ := hv
    unfold Config.voterIds
    exact List.mem_map.mpr ⟨m, List.mem_filter.mpr ⟨hm, h2⟩, h1⟩
  by_cases hex : ∃ v, v ∈ Q1 ∧ v ∈ Q2
  · exact hex
  · exfalso
    have hdisj : ∀ v, v ∈ Q1 → v ∉ Q2 := fun v hv hv2 => hex ⟨v, hv, hv2⟩
    have hnd12 : (Q1 ++ Q2).Nodup := by
      rw [List.nodup_append]
      exact ⟨h1, h2, fun a ha b hb hab => hdisj a ha (hab ▸ hb)⟩
    have hsub : (Q1 ++ Q2) ⊆ cfg.voterIds := by
      intro v hv
      rcases List.mem_append.mp hv with h | h
      · exact hmem v (s1 v h)
      · exact hmem v (s2 v h)
    have hlen := List.Nodup.length_le_of_subset hnd12 hsub
    rw [List.length_append, hvl] at hlen
    unfold Config.hasQuorum at q1 q2
    simp only [decide_eq_true_eq] at q1 q2
    omega

/-! ### The node-local part of every step -/

theorem voteDelta_cases (i : Nat) (n n' : Node) :
    (voteDelta i n n' = [] ∧ (n'.votedFor = 0 ∨ (n'.term = n.term ∧ n'.votedFor = n.votedFor))) ∨
    (voteDelta i n n' = [(n'.term, i, n'.votedFor)] ∧ n'.votedFor ≠ 0) := by
  unfold voteDelta
  by_cases h : n'.votedFor ≠ 0 ∧ (n'.term ≠ n.term ∨ n'.votedFor ≠ n.votedFor)
  · right; rw [if_pos h]; exact ⟨rfl, h.1⟩
  · left; rw [if_neg h]; refine ⟨rfl, ?_⟩
    by_cases h0 : n'.votedFor = 0
    · left; exact h0
    · right
      have : ¬ (n'.term ≠ n.term ∨ n'.votedFor ≠ n.votedFor) := fun hh => h ⟨h0, hh⟩
      constructor
      · exact Classical.byContradiction fun hh => this (Or.inl hh)
      · exact Classical.byContradiction fun hh => this (Or.inr hh)

/-- The vote part of the invariant survives any step that changes one node as `NodeStepOK` allows. -/
theorem votes_step {cfg : Config} {c : Cluster} (hi : Inv cfg c) (i : Nat) (n' : Node) (hok : NodeStepOK (c.nodes i) n') :
    let c' := c.withNode i n'
    (∀ j, (c'.nodes j).id = j) ∧ (∀ j, (c'.nodes j).config = cfg) ∧
    (∀ t v x, (t, v, x) ∈ c'.votes → x ≠ 0) ∧
    (∀ t v x, (t, v, x) ∈ c'.votes → t ≤ (c'.nodes v).term) ∧
    (∀ t v x, (t, v, x) ∈ c'.votes → t = (c'.nodes v).term → (c'.nodes v).votedFor = x) ∧
    (∀ v, (c'.nodes v).votedFor ≠ 0 → ((c'.nodes v).term, v, (c'.nodes v).votedFor) ∈ c'.votes) ∧
    (∀ t v x y, (t, v, x) ∈ c'.votes → (t, v, y) ∈ c'.votes → x = y) ∧
    (∀ t v x, (t, v, x) ∈ c.votes → (t, v, x) ∈ c'.votes) := by
  intro c'
  obtain ⟨hid, hcf, ⟨htle, htv⟩, _⟩ := hok
  simp only at htle htv
  have hnode : ∀ j, c'.nodes j = if j = i then n' else c.nodes j := fun j => rfl
  have hvotes : c'.votes = voteDelta i (c.nodes i) n' ++ c.votes := rfl
  have hold : ∀ t v x, (t, v, x) ∈ c.votes → (t, v, x) ∈ c'.votes := by
    intro t v x h; rw [hvotes]; exact List.mem_append_right _ h
  -- facts about old votes of node i seen from the new state
  have old_le : ∀ t x, (t, i, x) ∈ c.votes → t ≤ n'.term := fun t x h => Nat.le_trans (hi.vote_le t i x h) htle
  have old_cur : ∀ t x, (t, i, x) ∈ c.votes → t = n'.term → n'.votedFor = x := by
    intro t x h ht
    have h1 := hi.vote_le t i x h
    have heq : n'.term = (c.nodes i).term := by omega
    have hx := hi.vote_cur t i x h (by omega)
    rcases htv heq with h2 | h2
    · rw [h2]; exact hx
    · exact absurd (hx ▸ h2) (hi.vote_nz t i x h)
  refine ⟨?_, ?_, ?_, ?_, ?_, ?_, ?_, hold⟩
  · intro j; rw [hnode]; split
    · rename_i h; rw [hid, h]; exact hi.ids i
    · exact hi.ids j
  · intro j; rw [hnode]; split
    · rw [hcf]; exact hi.cfgs i
    · exact hi.cfgs j
  · intro t v x h
    rw [hvotes] at h
    rcases List.mem_append.mp h with h1 | h1
    · rcases voteDelta_cases i (c.nodes i) n' with ⟨he, _⟩ | ⟨he, hnz⟩
      · rw [he] at h1; simp at h1
      · rw [he] at h1; simp only [List.mem_singleton, Prod.mk.injEq] at h1; rw [h1.2.2]; exact hnz
    · exact hi.vote_nz t v x h1
  · intro t v x h
    rw [hvotes] at h
    rcases List.mem_append.mp h with h1 | h1
    · rcases voteDelta_cases i (c.nodes i) n' with ⟨he, _⟩ | ⟨he, hnz⟩
      · rw [he] at h1; simp at h1
      · rw [he] at h1; simp only [List.mem_singleton, Prod.mk.injEq] at h1
        rw [hnode, h1.2.1, h1.1]; simp
    · rw [hnode]
      by_cases hv : v = i
      · rw [if_pos hv]; rw [hv] at h1; exact old_le t x h1
      · rw [if_neg hv]; exact hi.vote_le t v x h1
  · intro t v x h ht
    rw [hvotes] at h
    rcases List.mem_append.mp h with h1 | h1
    · rcases voteDelta_cases i (c.nodes i) n' with ⟨he, _⟩ | ⟨he, hnz⟩
      · rw [he] at h1; simp at h1
      · rw [he] at h1; simp only [List.mem_singleton, Prod.mk.injEq] at h1
        rw [hnode, h1.2.1, h1.2.2]; simp
    · rw [hnode] at ht ⊢
      by_cases hv : v = i
      · rw [if_pos hv] at ht ⊢; rw [hv] at h1; exact old_cur t x h1 ht
      · rw [if_neg hv] at ht ⊢; exact hi.vote_cur t v x h1 ht
  · intro v hv
    rw [hnode] at hv ⊢
    by_cases hvi : v = i
    · subst hvi
      simp only [if_true] at hv ⊢
      rw [hvotes]
      rcases voteDelta_cases v (c.nodes v) n' with ⟨he, hz | ⟨e1, e2⟩⟩ | ⟨he, hnz⟩
      · exact absurd hz hv
      · rw [e1, e2]; apply List.mem_append_right; exact hi.cur_vote v (by rw [← e2]; exact hv)
      · rw [he]; simp
    · simp only [hvi, if_false] at hv ⊢
      exact hold _ _ _ (hi.cur_vote v hv)
  · intro t v x y hx hy
    rw [hvotes] at hx hy
    rcases List.mem_append.mp hx with hx1 | hx1 <;> rcases List.mem_append.mp hy with hy1 | hy1
    · rcases voteDelta_cases i (c.nodes i) n' with ⟨he, _⟩ | ⟨he, hnz⟩
      · rw [he] at hx1; simp at hx1
      · rw [he] at hx1 hy1; simp only [List.mem_singleton, Prod.mk.injEq] at hx1 hy1; rw [hx1.2.2, hy1.2.2]
    · rcases voteDelta_cases i (c.nodes i) n' with ⟨he, _⟩ | ⟨he, hnz⟩
      · rw [he] at hx1; simp at hx1
      · rw [he] at hx1; simp only [List.mem_singleton, Prod.mk.injEq] at hx1
        obtain ⟨e1, e2, e3⟩ := hx1
        rw [e2] at hy1
        rw [e3]; exact old_cur t y hy1 e1
    · rcases voteDelta_cases i (c.nodes i) n' with ⟨he, _⟩ | ⟨he, hnz⟩
      · rw [he] at hy1; simp at hy1
      · rw [he] at hy1; simp only [List.mem_singleton, Prod.mk.injEq] at hy1
        obtain ⟨e1, e2, e3⟩ := hy1
        rw [e2] at hx1
        rw [e3]; exact (old_cur t x hx1 e1).symm
    · exact hi.vote_uniq t v x y hx1 hy1

/-! ### Static side conditions on the configuration -/

structure CfgOK (cfg : Config) : Prop where
  two : 2 ≤ cfg.voters
  nodup : cfg.voterIds.Nodup
  zero : cfg.isVoter 0 = false

theorem countG_mono (gs : List (CallId × RVReq)) (g : List (CallId × RVReq)) (i rid : Nat) :
    countG gs i rid ≤ countG (g ++ gs) i rid := by
  unfold countG; rw [List.filter_append, List.length_append]; omega

theorem countG_cons_self (gs : List (CallId × RVReq)) (k : CallId) (q : RVReq) :
    countG ((k, q) :: gs) k.1 k.2.1 = countG gs k.1 k.2.1 + 1 := by
  unfold countG; simp [List.filter_cons]

/-- Steps that change one node but neither the call history nor the vote rounds in a
    way that matters: `other`, `crash` (with more calls returned), `fail`. -/
theorem inv_frame {cfg : Config} {c : Cluster} (hi : Inv cfg c) (i : Nat) (n' : Node) (hok : NodeStepOK (c.nodes i) n')
    (hrole : n'.role = .leader → (c.nodes i).role = .leader ∧ n'.term = (c.nodes i).term)
    (hrounds : ∀ rid cnt, (rid, cnt) ∈ n'.rvRounds → (rid, cnt) ∈ (c.nodes i).rvRounds)
    (ret' : List CallId) (hret : ∀ k, k ∈ c.returned → k ∈ ret') :
    Inv cfg { (c.withNode i n') with returned := ret' } := by
  obtain ⟨v1, v2, v3, v4, v5, v6, v7, vold⟩ := votes_step hi i n' hok
  have hnode : ∀ j, (c.withNode i n').nodes j = if j = i then n' else c.nodes j := fun j => rfl
  have hld : leaderDelta i (c.nodes i) n' = [] := by
    unfold leaderDelta
    by_cases h : n'.role = .leader ∧ ((c.nodes i).role ≠ .leader ∨ (c.nodes i).term ≠ n'.term)
    · obtain ⟨h1, h2⟩ := h
      obtain ⟨h3, h4⟩ := hrole h1
      rcases h2 with h2 | h2
      · exact absurd h3 h2
      · exact absurd h4.symm h2
    · rw [if_neg h]
  refine { ids := v1, cfgs := v2, vote_nz := v3, vote_le := v4, vote_cur := v5, cur_vote := v6, vote_uniq := v7,
           rq_cand := hi.rq_cand, rq_round := ?_, rq_voter := hi.rq_voter, rq_term := ?_, rq_self := ?_,
           rq_same := hi.rq_same, rp_req := hi.rp_req, rp_vote := ?_, gr_req := ?_, gr_nodup := hi.gr_nodup,
           rd_lt := ?_, rd_cnt := ?_, ld_quorum := ?_ }
  · intro k q h
    show k.2.1 < ((c.withNode i n').nodes k.1).nextRound
    rw [hnode]; split
    · rename_i hk; have := hi.rq_round k q h; rw [hk] at this; exact Nat.lt_of_lt_of_le this hok.nextRound_le
    · exact hi.rq_round k q h
  · intro k q h hp
    show q.term ≤ ((c.withNode i n').nodes k.1).term
    rw [hnode]; split
    · rename_i hk; have := hi.rq_term k q h hp; rw [hk] at this; exact Nat.le_trans this hok.tv.1
    · exact hi.rq_term k q h hp
  · intro k q h hp; exact vold _ _ _ (hi.rq_self k q h hp)
  · intro k q r h hg hp; exact vold _ _ _ (hi.rp_vote k q r h hg hp)
  · intro k q h
    obtain ⟨a, b, cc⟩ := hi.gr_req k q h
    exact ⟨a, hret k b, cc⟩
  · intro j rid cnt h
    show rid < ((c.withNode i n').nodes j).nextRound
    have h' : (rid, cnt) ∈ ((c.withNode i n').nodes j).rvRounds := h
    rw [hnode] at h' ⊢
    by_cases hj : j = i
    · rw [if_pos hj] at h' ⊢
      exact Nat.lt_of_lt_of_le (hi.rd_lt i rid cnt (hrounds rid cnt h')) hok.nextRound_le
    · rw [if_neg hj] at h' ⊢; exact hi.rd_lt j rid cnt h'
  · intro j rid cnt h
    have h' : (rid, cnt) ∈ ((c.withNode i n').nodes j).rvRounds := h
    rw [hnode] at h'
    by_cases hj : j = i
    · rw [if_pos hj] at h'; rw [hj]; exact hi.rd_cnt i rid cnt (hrounds rid cnt h')
    · rw [if_neg hj] at h'; exact hi.rd_cnt j rid cnt h'
  · intro t l h
    have h' : (t, l) ∈ leaderDelta i (c.nodes i) n' ++ c.leaders := h
    rw [hld] at h'
    obtain ⟨Q, q1, q2, q3⟩ := hi.ld_quorum t l h'
    exact ⟨Q, q1, fun v hv => ⟨(q2 v hv).1, vold _ _ _ (q2 v hv).2⟩, q3⟩

theorem inv_other {cfg : Config} {c : Cluster} (hi : Inv cfg c) (i : Nat) (n' : Node) (ho : OtherStep (c.nodes i) n') :
    Inv cfg (c.withNode i n') := by
  have hok : NodeStepOK (c.nodes i) n' :=
    ⟨ho.id_eq, ho.config_eq, ⟨ho.term_le, fun h => Or.inl (ho.vote_keep h)⟩, ho.nextRound_le⟩
  have := inv_frame hi i n' hok ho.no_new_leader (fun rid cnt h => by rw [ho.rounds_eq] at h; exact h) c.returned (fun _ h => h)
  exact this

theorem inv_crash {cfg : Config} {c : Cluster} (hi : Inv cfg c) (i : Nat) (n' : Node) (hc : CrashStep (c.nodes i) n') :
    Inv cfg { (c.withNode i n') with
              returned := (c.requests.map (·.1)).filter (fun k => k.1 = i) ++ c.returned } := by
  have hok : NodeStepOK (c.nodes i) n' :=
    ⟨hc.id_eq, hc.config_eq, ⟨by simp [hc.term_eq], fun _ => Or.inl hc.vote_eq⟩, hc.nextRound_le⟩
  exact inv_frame hi i n' hok (fun h => by rw [hc.role_eq] at h; exact absurd h (by simp))
    (fun rid cnt h => by rw [hc.rounds_eq] at h; simp at h) _ (fun k h => List.mem_append_right _ h)

theorem inv_fail {cfg : Config} {c : Cluster} (hi : Inv cfg c) (k : CallId) :
    Inv cfg { c with returned := k :: c.returned } := by
  have hok : NodeStepOK (c.nodes 0) (c.nodes 0) := ⟨rfl, rfl, TVStep.refl _, Nat.le_refl _⟩
  have h := inv_frame hi 0 (c.nodes 0) hok (fun h => ⟨h, rfl⟩) (fun _ _ h => h) (k :: c.returned)
    (fun _ h => List.mem_cons_of_mem _ h)
  -- replacing a node by itself changes nothing observable
  have hvd : voteDelta 0 (c.nodes 0) (c.nodes 0) = [] := by unfold voteDelta; simp
  have hld : leaderDelta 0 (c.nodes 0) (c.nodes 0) = [] := by unfold leaderDelta; simp
  have hnodes : ∀ j, (c.withNode 0 (c.nodes 0)).nodes j = c.nodes j := by
    intro j; show (if j = 0 then c.nodes 0 else c.nodes j) = c.nodes j; split
    · rename_i hj; rw [hj]
    · rfl
  have hv : (c.withNode 0 (c.nodes 0)).votes = c.votes := by show voteDelta _ _ _ ++ _ = _; rw [hvd]; rfl
  have hl : (c.withNode 0 (c.nodes 0)).leaders = c.leaders := by show leaderDelta _ _ _ ++ _ = _; rw [hld]; rfl
  exact {
    ids := fun j => by have := h.ids j; simp only [hnodes] at this; exact this
    cfgs := fun j => by have := h.cfgs j; simp only [hnodes] at this; exact this
    vote_nz := fun t v x hx => h.vote_nz t v x (by show _ ∈ (c.withNode 0 (c.nodes 0)).votes; rw [hv]; exact hx)
    vote_le := fun t v x hx => by
      have := h.vote_le t v x (by show _ ∈ (c.withNode 0 (c.nodes 0)).votes; rw [hv]; exact hx)
      simp only [hnodes] at this; exact this
    vote_cur := fun t v x hx ht => by
      have := h.vote_cur t v x (by show _ ∈ (c.withNode 0 (c.nodes 0)).votes; rw [hv]; exact hx)
      simp only [hnodes] at this; exact this ht
    cur_vote := fun v hv0 => by
      have := h.cur_vote v
      simp only [hnodes] at this
      have := this hv0
      rw [hv] at this; exact this
    vote_uniq := fun t v x y hx hy => h.vote_uniq t v x y
      (by show _ ∈ (c.withNode 0 (c.nodes 0)).votes; rw [hv]; exact hx)
      (by show _ ∈ (c.withNode 0 (c.nodes 0)).votes; rw [hv]; exact hy)
    rq_cand := h.rq_cand
    rq_round := fun k q hk => by have := h.rq_round k q hk; simp only [hnodes] at this; exact this
    rq_voter := h.rq_voter
    rq_term := fun k q hk hp => by have := h.rq_term k q hk hp; simp only [hnodes] at this; exact this
    rq_self := fun k q hk hp => by have := h.rq_self k q hk hp; rw [hv] at this; exact this
    rq_same := h.rq_same
    rp_req := h.rp_req
    rp_vote := fun k q r hk hg hp => by have := h.rp_vote k q r hk hg hp; rw [hv] at this; exact this
    gr_req := h.gr_req
    gr_nodup := h.gr_nodup
    rd_lt := fun j rid cnt hj => by
      have := h.rd_lt j rid cnt (by simp only [hnodes]; exact hj)
      simp only [hnodes] at this; exact this
    rd_cnt := fun j rid cnt hj => h.rd_cnt j rid cnt (by simp only [hnodes]; exact hj)
    ld_quorum := fun t l hl' => by
      obtain ⟨Q, q1, q2, q3⟩ := h.ld_quorum t l (by show _ ∈ (c.withNode 0 (c.nodes 0)).leaders; rw [hl]; exact hl')
      exact ⟨Q, q1, fun v hv' => ⟨(q2 v hv').1, by have := (q2 v hv').2; rw [hv] at this; exact this⟩, q3⟩ }

theorem requestVote_tv {n n' : Node} {now : Nat} {q : RVReq} {r : RVResp} {eff : List Effect} (hc : q.candidate ≠ 0)
    (h : requestVote n now q = some (n', r, eff)) : TVStep (n.term, n.votedFor) (n'.term, n'.votedFor) := by
  have hg := rvSect_good now q hc
  have hs : rvSect now q n = some (n', eff, if r.granted && !q.prevote then some ⟨r.term, q.candidate⟩ else none) := by
    unfold rvSect; rw [h]; rfl
  rw [← hg.final _ _ _ _ hs]
  exact (hg.chain _ _ _ _ hs).persistAfter_step

theorem voter_ne_zero {cfg : Config} (hc : CfgOK cfg) {v : Nat} (h : cfg.isVoter v = true) : v ≠ 0 := by
  intro h0; rw [h0, hc.zero] at h; exact absurd h (by simp)

theorem inv_deliver {cfg : Config} (hc : CfgOK cfg) {c : Cluster} (hi : Inv cfg c) (k : CallId) (q : RVReq) (now : Nat)
    (n' : Node) (r : RVResp) (eff : List Effect) (hk : (k, q) ∈ c.requests)
    (hrv : requestVote (c.nodes k.2.2) now q = some (n', r, eff)) :
    Inv cfg { (c.withNode k.2.2 n') with replies := (k, q, r) :: c.replies } := by
  have hcand : q.candidate ≠ 0 := by
    rw [hi.rq_cand k q hk]; exact voter_ne_zero hc (hi.rq_voter k q hk).2.2
  obtain ⟨f1, f2, f3, f4, f5⟩ := requestVote_frame hrv
  have hok : NodeStepOK (c.nodes k.2.2) n' := ⟨f1, f2, requestVote_tv hcand hrv, by rw [f4]; exact Nat.le_refl _⟩
  have h := inv_frame hi k.2.2 n' hok f5 (fun rid cnt hh => by rw [f3] at hh; exact hh) c.returned (fun _ hh => hh)
  obtain ⟨v1, v2, v3, v4, v5, v6, v7, vold⟩ := votes_step hi k.2.2 n' hok
  exact { h with
    rp_req := fun k' q' r' hm => by
      have hm' : (k', q', r') ∈ (k, q, r) :: c.replies := hm
      rcases List.mem_cons.mp hm' with he | he
      · injection he with e1 e2; injection e2 with e2 e3; subst e1 e2; exact hk
      · exact hi.rp_req k' q' r' he
    rp_vote := fun k' q' r' hm hg hp => by
      have hm' : (k', q', r') ∈ (k, q, r) :: c.replies := hm
      rcases List.mem_cons.mp hm' with he | he
      · injection he with e1 e2; injection e2 with e2 e3; subst e1 e2 e3
        obtain ⟨g1, _, g3, _, _⟩ := C08_grant_recorded hrv hg hp
        have hnz : ((c.withNode k'.2.2 n').nodes k'.2.2).votedFor ≠ 0 := by
          show (if k'.2.2 = k'.2.2 then n' else c.nodes k'.2.2).votedFor ≠ 0
          rw [if_pos rfl, g3]; exact hcand
        have := v6 k'.2.2 hnz
        have hn : (c.withNode k'.2.2 n').nodes k'.2.2 = n' := by
          show (if k'.2.2 = k'.2.2 then n' else c.nodes k'.2.2) = n'; rw [if_pos rfl]
        rw [hn, g1, g3] at this
        exact this
      · exact vold _ _ _ (hi.rp_vote k' q' r' he hg hp)
    gr_req := fun k' q' hm => by
      obtain ⟨a, b, r', cc, d⟩ := hi.gr_req k' q' hm
      exact ⟨a, b, r', List.mem_cons_of_mem _ cc, d⟩ }

/-- the voters whose grants a round has counted -/
def roundVoters (gs : List (CallId × RVReq)) (i rid : Nat) : List Nat :=
  (gs.filter (fun g => g.1.1 = i ∧ g.1.2.1 = rid)).map (fun g => g.1.2.2)

theorem roundVoters_length (gs : List (CallId × RVReq)) (i rid : Nat) : (roundVoters gs i rid).length = countG gs i rid := by
  simp [roundVoters, countG]

theorem roundVoters_nodup (gs : List (CallId × RVReq)) (i rid : Nat) (h : (gs.map (·.1)).Nodup) :
    (roundVoters gs i rid).Nodup := by
  induction gs with
  | nil => simp [roundVoters]
  | cons g gs ih =>
    simp only [List.map_cons, List.nodup_cons] at h
    have ih' := ih h.2
    unfold roundVoters at ih' ⊢
    rw [List.filter_cons]
    split
    · rename_i hg
      simp only [decide_eq_true_eq] at hg
      rw [List.map_cons, List.nodup_cons]
      refine ⟨?_, ih'⟩
      intro hm
      obtain ⟨g', hg', he⟩ := List.mem_map.mp hm
      obtain ⟨hg'm, hg'f⟩ := List.mem_filter.mp hg'
      simp only [decide_eq_true_eq] at hg'f
      apply h.1
      have : g'.1 = g.1 := by
        rcases g with ⟨⟨a, b, cc⟩, qq⟩
        rcases g' with ⟨⟨a', b', cc'⟩, qq'⟩
        simp only at hg hg'f he ⊢
        rw [hg.1, hg.2, ← hg'f.1, ← hg'f.2, he]
      rw [← this]
      exact List.mem_map.mpr ⟨g', hg'm, rfl⟩
    · exact ih'

theorem inv_ret {cfg : Config} (hc : CfgOK cfg) {c : Cluster} (hi : Inv cfg c) (k : CallId) (q : RVReq) (r : RVResp) (now : Nat)
    (hk : (k, q) ∈ c.requests) (hr : (k, q, r) ∈ c.replies) (hnr : k ∉ c.returned) :
    Inv cfg { (c.withNode k.1 ((c.nodes k.1).onVoteReply now k.2.2 k.2.1 q (some r)).1) with
              returned := k :: c.returned,
              granters := (if r.granted then [(k, q)] else []) ++ c.granters } := by
  generalize hn' : ((c.nodes k.1).onVoteReply now k.2.2 k.2.1 q (some r)).1 = n'
  have sp := onVoteReply_spec (c.nodes k.1) now k.2.2 k.2.1 q r
  rw [hn'] at sp
  have hok : NodeStepOK (c.nodes k.1) n' :=
    ⟨sp.id_eq, sp.config_eq, ⟨sp.term_le, fun h => Or.inl (sp.vote_keep h)⟩, sp.nextRound_le⟩
  obtain ⟨v1, v2, v3, v4, v5, v6, v7, vold⟩ := votes_step hi k.1 n' hok
  have hnode : ∀ j, (c.withNode k.1 n').nodes j = if j = k.1 then n' else c.nodes j := fun j => rfl
  -- new granters
  generalize hG : (if r.granted then [(k, q)] else []) ++ c.granters = G
  have hGold : ∀ g, g ∈ c.granters → g ∈ G := by intro g hg; rw [← hG]; exact List.mem_append_right _ hg
  have hGmem : ∀ g, g ∈ G → g ∈ c.granters ∨ (g = (k, q) ∧ r.granted = true) := by
    intro g hg; rw [← hG] at hg
    rcases List.mem_append.mp hg with h | h
    · right; split at h
      · rename_i hgr; simp only [List.mem_singleton] at h; exact ⟨h, hgr⟩
      · simp at h
    · left; exact h
  have hknew : k ∉ c.granters.map (·.1) := by
    intro hm
    obtain ⟨g, hg, he⟩ := List.mem_map.mp hm
    have := (hi.gr_req g.1 g.2 (by simpa using hg)).2.1
    rw [he] at this; exact hnr this
  have hGnodup : (G.map (·.1)).Nodup := by
    rw [← hG]
    split
    · simp only [List.singleton_append, List.map_cons, List.nodup_cons]; exact ⟨hknew, hi.gr_nodup⟩
    · simpa using hi.gr_nodup
  have hGreq : ∀ k' q', (k', q') ∈ G → (k', q') ∈ c.requests ∧ k' ∈ k :: c.returned ∧ ∃ r', (k', q', r') ∈ c.replies ∧ r'.granted = true := by
    intro k' q' hg
    rcases hGmem _ hg with h | ⟨h, hgr⟩
    · obtain ⟨a, b, cc⟩ := hi.gr_req k' q' h
      exact ⟨a, List.mem_cons_of_mem _ b, cc⟩
    · injection h with e1 e2; subst e1 e2
      exact ⟨hk, List.mem_cons_self, r, hr, hgr⟩
  have hcntold : ∀ i rid, countG c.granters i rid ≤ countG G i rid := by
    intro i rid; rw [← hG]; exact countG_mono _ _ _ _
  -- counters of the node that processed the reply
  have hrounds : ∀ rid cnt, (rid, cnt) ∈ n'.rvRounds → rid < n'.nextRound ∧ cnt ≤ 1 + countG G k.1 rid := by
    intro rid cnt hm
    rcases sp.rounds with hs | ⟨hgr, hs⟩
    · rw [hs] at hm
      exact ⟨Nat.lt_of_lt_of_le (hi.rd_lt k.1 rid cnt hm) sp.nextRound_le,
             Nat.le_trans (hi.rd_cnt k.1 rid cnt hm) (by have := hcntold k.1 rid; omega)⟩
    · rw [hs] at hm
      rcases bumpRound_mem hm with ⟨e1, c0, hc0, e2⟩ | ⟨e1, hold⟩
      · simp only at e1 e2
        have h1 := hi.rd_lt k.1 k.2.1 c0 hc0
        have h2 := hi.rd_cnt k.1 k.2.1 c0 hc0
        have hGe : G = (k, q) :: c.granters := by rw [← hG, if_pos hgr]; rfl
        have h3 : countG G k.1 k.2.1 = countG c.granters k.1 k.2.1 + 1 := by rw [hGe]; exact countG_cons_self _ _ _
        rw [e1, e2]
        exact ⟨Nat.lt_of_lt_of_le h1 sp.nextRound_le, by omega⟩
      · exact ⟨Nat.lt_of_lt_of_le (hi.rd_lt k.1 rid cnt hold) sp.nextRound_le,
               Nat.le_trans (hi.rd_cnt k.1 rid cnt hold) (by have := hcntold k.1 rid; omega)⟩
  refine { ids := v1, cfgs := v2, vote_nz := v3, vote_le := v4, vote_cur := v5, cur_vote := v6, vote_uniq := v7,
           rq_cand := hi.rq_cand, rq_round := ?_, rq_voter := hi.rq_voter, rq_term := ?_, rq_self := ?_,
           rq_same := hi.rq_same, rp_req := hi.rp_req, rp_vote := ?_, gr_req := hGreq, gr_nodup := hGnodup,
           rd_lt := ?_, rd_cnt := ?_, ld_quorum := ?_ }
  · intro k' q' h
    show k'.2.1 < ((c.withNode k.1 n').nodes k'.1).nextRound
    rw [hnode]; split
    · rename_i hk'; have := hi.rq_round k' q' h; rw [hk'] at this; exact Nat.lt_of_lt_of_le this sp.nextRound_le
    · exact hi.rq_round k' q' h
  · intro k' q' h hp
    show q'.term ≤ ((c.withNode k.1 n').nodes k'.1).term
    rw [hnode]; split
    · rename_i hk'; have := hi.rq_term k' q' h hp; rw [hk'] at this; exact Nat.le_trans this sp.term_le
    · exact hi.rq_term k' q' h hp
  · intro k' q' h hp; exact vold _ _ _ (hi.rq_self k' q' h hp)
  · intro k' q' r' h hg hp; exact vold _ _ _ (hi.rp_vote k' q' r' h hg hp)
  · intro j rid cnt h
    have h' : (rid, cnt) ∈ ((c.withNode k.1 n').nodes j).rvRounds := h
    show rid < ((c.withNode k.1 n').nodes j).nextRound
    rw [hnode] at h' ⊢
    by_cases hj : j = k.1
    · rw [if_pos hj] at h' ⊢; exact (hrounds rid cnt h').1
    · rw [if_neg hj] at h' ⊢; exact hi.rd_lt j rid cnt h'
  · intro j rid cnt h
    have h' : (rid, cnt) ∈ ((c.withNode k.1 n').nodes j).rvRounds := h
    rw [hnode] at h'
    by_cases hj : j = k.1
    · rw [if_pos hj] at h'; rw [hj]; exact (hrounds rid cnt h').2
    · rw [if_neg hj] at h'
      show cnt ≤ 1 + countG G j rid
      exact Nat.le_trans (hi.rd_cnt j rid cnt h') (by have := hcntold j rid; omega)
  · intro t l h
    have h' : (t, l) ∈ leaderDelta k.1 (c.nodes k.1) n' ++ c.leaders := h
    rcases List.mem_append.mp h' with hnew | hold
    · -- a new leader: its round has counted a quorum of distinct voters of its term
      unfold leaderDelta at hnew
      split at hnew
      · rename_i hcond
        simp only [List.mem_singleton, Prod.mk.injEq] at hnew
        obtain ⟨et, el⟩ := hnew; subst et el
        obtain ⟨hlead, hwhy⟩ := hcond
        have hnl : (c.nodes k.1).role ≠ .leader := by
          rcases hwhy with h1 | h1
          · exact h1
          · exact absurd (sp.leader_term hlead).symm h1
        obtain ⟨np, nle, nt, nq⟩ := sp.new_leader hlead hnl
        have hqt : q.term = n'.term := by
          have := hi.rq_term k q hk np
          omega
        refine ⟨k.1 :: roundVoters G k.1 k.2.1, ?_, ?_, ?_⟩
        · rw [List.nodup_cons]
          refine ⟨?_, roundVoters_nodup G k.1 k.2.1 hGnodup⟩
          intro hm
          obtain ⟨g, hg, he⟩ := List.mem_map.mp hm
          obtain ⟨hgm, hgf⟩ := List.mem_filter.mp hg
          simp only [decide_eq_true_eq] at hgf
          have := (hi.rq_voter g.1 g.2 (hGreq g.1 g.2 (by simpa using hgm)).1).2.1
          rw [hgf.1] at this
          exact this he
        · intro v hv
          rcases List.mem_cons.mp hv with hv | hv
          · subst hv
            exact ⟨(hi.rq_voter k q hk).2.2, by rw [← hqt]; exact vold _ _ _ (hi.rq_self k q hk np)⟩
          · obtain ⟨g, hg, he⟩ := List.mem_map.mp hv
            obtain ⟨hgm, hgf⟩ := List.mem_filter.mp hg
            simp only [decide_eq_true_eq] at hgf
            obtain ⟨greq, _, r', grep, ggr⟩ := hGreq g.1 g.2 (by simpa using hgm)
            obtain ⟨st, sp'⟩ := hi.rq_same k q g.1 g.2 hk greq hgf.1 hgf.2
            have hvote := hi.rp_vote g.1 g.2 r' grep ggr (by rw [sp']; exact np)
            rw [st, hi.rq_cand g.1 g.2 greq, hgf.1, he, hqt] at hvote
            refine ⟨?_, vold _ _ _ hvote⟩
            rw [← he]; exact (hi.rq_voter g.1 g.2 greq).1
        · rw [List.length_cons, roundVoters_length]
          have hb : roundCount n'.rvRounds k.2.1 ≤ 1 + countG G k.1 k.2.1 := by
            rcases roundCount_mem_or_zero n'.rvRounds k.2.1 with h0 | hm
            · omega
            · exact (hrounds _ _ hm).2
          have hq' : cfg.hasQuorum (roundCount n'.rvRounds k.2.1) = true := by rw [← hi.cfgs k.1]; exact nq
          exact hasQuorum_mono cfg (by omega) hq'
      · simp at hnew
    · obtain ⟨Q, q1, q2, q3⟩ := hi.ld_quorum t l hold
      exact ⟨Q, q1, fun v hv => ⟨(q2 v hv).1, vold _ _ _ (q2 v hv).2⟩, q3⟩

theorem mem_spawnedCalls {n' : Node} {rid : Nat} {eff : List Effect} {k : CallId} {q : RVReq}
    (h : (k, q) ∈ spawnedCalls n' rid eff) :
    ∃ peer pv, Effect.spawnRV peer pv ∈ eff ∧ n'.prepareRV peer pv = some q ∧ k = (n'.id, rid, peer) := by
  unfold spawnedCalls at h
  obtain ⟨e, he, hm⟩ := List.mem_filterMap.mp h
  cases e with
  | spawnRV peer pv =>
    simp only at hm
    cases hp : n'.prepareRV peer pv with
    | none => rw [hp] at hm; simp at hm
    | some q' =>
      rw [hp] at hm
      simp only [Option.some.injEq, Prod.mk.injEq] at hm
      exact ⟨peer, pv, he, by rw [hp, hm.2], hm.1.symm⟩
  | _ => simp at hm

/-- An election-loop iteration that starts a (pre)vote round. -/
theorem inv_election_round {cfg : Config} (hc : CfgOK cfg) {c : Cluster} (hi : Inv cfg c) (i : Nat) (n' : Node) (pv : Bool)
    (eff : List Effect)
    (hid : n'.id = (c.nodes i).id) (hcfg : n'.config = (c.nodes i).config)
    (htv : TVStep ((c.nodes i).term, (c.nodes i).votedFor) (n'.term, n'.votedFor))
    (hrd : n'.rvRounds = ((c.nodes i).nextRound, 1) :: (c.nodes i).rvRounds)
    (hnr : n'.nextRound = (c.nodes i).nextRound + 1)
    (hrole : n'.role ≠ .leader)
    (heff : ∀ peer pv', Effect.spawnRV peer pv' ∈ eff → pv' = pv ∧ peer ≠ i)
    (hself : pv = false → n'.votedFor = i) :
    Inv cfg { (c.withNode i n') with requests := spawnedCalls n' (c.nodes i).nextRound eff ++ c.requests } := by
  have hok : NodeStepOK (c.nodes i) n' := ⟨hid, hcfg, htv, by rw [hnr]; omega⟩
  obtain ⟨v1, v2, v3, v4, v5, v6, v7, vold⟩ := votes_step hi i n' hok
  have hnode : ∀ j, (c.withNode i n').nodes j = if j = i then n' else c.nodes j := fun j => rfl
  have hni : (c.withNode i n').nodes i = n' := by rw [hnode, if_pos rfl]
  have hn'id : n'.id = i := by rw [hid]; exact hi.ids i
  have hn'cfg : n'.config = cfg := by rw [hcfg]; exact hi.cfgs i
  have hld : leaderDelta i (c.nodes i) n' = [] := by
    unfold leaderDelta; rw [if_neg]; intro h; exact hrole h.1
  -- the new calls
  have hnew : ∀ k q, (k, q) ∈ spawnedCalls n' (c.nodes i).nextRound eff →
      k.1 = i ∧ k.2.1 = (c.nodes i).nextRound ∧ k.2.2 ≠ i ∧ q.candidate = i ∧ q.prevote = pv ∧
      q.term = (if pv then n'.term + 1 else n'.term) ∧ cfg.isVoter k.2.2 = true ∧ cfg.isVoter i = true := by
    intro k q h
    obtain ⟨peer, pv', he, hp, hk⟩ := mem_spawnedCalls h
    obtain ⟨e1, e2⟩ := heff peer pv' he
    subst e1
    obtain ⟨p1, p2, p3, p4, p5⟩ := prepareRV_some hp
    rw [hk]
    refine ⟨hn'id, rfl, e2, by rw [p1, hn'id], p2, p3, by rw [← hn'cfg]; exact p4, by rw [← hn'cfg, ← hn'id]; exact p5⟩
  have hsplit : ∀ k q, (k, q) ∈ spawnedCalls n' (c.nodes i).nextRound eff ++ c.requests →
      (k, q) ∈ spawnedCalls n' (c.nodes i).nextRound eff ∨ (k, q) ∈ c.requests := fun k q h => List.mem_append.mp h
  refine { ids := v1, cfgs := v2, vote_nz := v3, vote_le := v4, vote_cur := v5, cur_vote := v6, vote_uniq := v7,
           rq_cand := ?_, rq_round := ?_, rq_voter := ?_, rq_term := ?_, rq_self := ?_,
           rq_same := ?_, rp_req := ?_, rp_vote := ?_, gr_req := ?_, gr_nodup := hi.gr_nodup,
           rd_lt := ?_, rd_cnt := ?_, ld_quorum := ?_ }
  · intro k q h
    rcases hsplit k q h with h | h
    · obtain ⟨a, _, _, d, _⟩ := hnew k q h; rw [d, a]
    · exact hi.rq_cand k q h
  · intro k q h
    show k.2.1 < ((c.withNode i n').nodes k.1).nextRound
    rcases hsplit k q h with h | h
    · obtain ⟨a, b, _⟩ := hnew k q h; rw [a, hni, b, hnr]; omega
    · rw [hnode]; split
      · rename_i hk; have := hi.rq_round k q h; rw [hk] at this; rw [hnr]; omega
      · exact hi.rq_round k q h
  · intro k q h
    rcases hsplit k q h with h | h
    · obtain ⟨a, _, cc, _, _, _, g, hh⟩ := hnew k q h; exact ⟨g, by rw [a]; exact cc, by rw [a]; exact hh⟩
    · exact hi.rq_voter k q h
  · intro k q h hp
    show q.term ≤ ((c.withNode i n').nodes k.1).term
    rcases hsplit k q h with h | h
    · obtain ⟨a, _, _, _, e, f, _⟩ := hnew k q h
      rw [a, hni, f]; rw [hp] at e; rw [← e]; simp
    · rw [hnode]; split
      · rename_i hk; have := hi.rq_term k q h hp; rw [hk] at this; exact Nat.le_trans this htv.1
      · exact hi.rq_term k q h hp
  · intro k q h hp
    show (q.term, k.1, k.1) ∈ (c.withNode i n').votes
    rcases hsplit k q h with h | h
    · obtain ⟨a, _, _, _, e, f, _, hv⟩ := hnew k q h
      rw [hp] at e
      have hvi : n'.votedFor = i := hself e.symm
      have hnz : ((c.withNode i n').nodes i).votedFor ≠ 0 := by rw [hni, hvi]; exact voter_ne_zero hc hv
      have := v6 i hnz
      rw [hni, hvi] at this
      rw [a, f, ← e]; simpa using this
    · exact vold _ _ _ (hi.rq_self k q h hp)
  · intro k q k' q' h h' e1 e2
    rcases hsplit k q h with h | h <;> rcases hsplit k' q' h' with h' | h'
    · obtain ⟨_, _, _, _, e, f, _⟩ := hnew k q h
      obtain ⟨_, _, _, _, e', f', _⟩ := hnew k' q' h'
      exact ⟨by rw [f, f'], by rw [e, e']⟩
    · obtain ⟨a, b, _⟩ := hnew k q h
      have := hi.rq_round k' q' h'
      rw [e1, a, e2, b] at this; omega
    · obtain ⟨a, b, _⟩ := hnew k' q' h'
      have := hi.rq_round k q h
      rw [← e1, a, ← e2, b] at this; omega
    · exact hi.rq_same k q k' q' h h' e1 e2
  · intro k q r h; exact List.mem_append_right _ (hi.rp_req k q r h)
  · intro k q r h hg hp; exact vold _ _ _ (hi.rp_vote k q r h hg hp)
  · intro k q h
    obtain ⟨a, b, cc⟩ := hi.gr_req k q h
    exact ⟨List.mem_append_right _ a, b, cc⟩
  · intro j rid cnt h
    have h' : (rid, cnt) ∈ ((c.withNode i n').nodes j).rvRounds := h
    show rid < ((c.withNode i n').nodes j).nextRound
    rw [hnode] at h' ⊢
    by_cases hj : j = i
    · rw [if_pos hj] at h' ⊢
      rw [hrd] at h'; rw [hnr]
      rcases List.mem_cons.mp h' with he | he
      · injection he with e1 e2; omega
      · have := hi.rd_lt i rid cnt he; omega
    · rw [if_neg hj] at h' ⊢; exact hi.rd_lt j rid cnt h'
  · intro j rid cnt h
    have h' : (rid, cnt) ∈ ((c.withNode i n').nodes j).rvRounds := h
    show cnt ≤ 1 + countG c.granters j rid
    rw [hnode] at h'
    by_cases hj : j = i
    · rw [if_pos hj] at h'; rw [hrd] at h'
      rcases List.mem_cons.mp h' with he | he
      · injection he with e1 e2; omega
      · rw [hj]; exact hi.rd_cnt i rid cnt he
    · rw [if_neg hj] at h'; exact hi.rd_cnt j rid cnt h'
  · intro t l h
    have h' : (t, l) ∈ leaderDelta i (c.nodes i) n' ++ c.leaders := h
    rw [hld] at h'
    obtain ⟨Q, q1, q2, q3⟩ := hi.ld_quorum t l h'
    exact ⟨Q, q1, fun v hv => ⟨(q2 v hv).1, vold _ _ _ (q2 v hv).2⟩, q3⟩

theorem inv_election {cfg : Config} (hc : CfgOK cfg) {c : Cluster} (hi : Inv cfg c) (i now : Nat) :
    Inv cfg { (c.withNode i ((c.nodes i).election now).1) with
              requests := spawnedCalls ((c.nodes i).election now).1 (c.nodes i).nextRound ((c.nodes i).election now).2
                            ++ c.requests } := by
  have h2 : 2 ≤ (c.nodes i).config.voters := by rw [hi.cfgs i]; exact hc.two
  have hidn := hi.ids i
  have out := election_outcome (c.nodes i) now h2
  generalize ((c.nodes i).election now).1 = n' at out ⊢
  generalize ((c.nodes i).election now).2 = eff at out ⊢
  cases out with
  | idle hn heff =>
    subst hn heff
    have hok : NodeStepOK (c.nodes i) (c.nodes i) := ⟨rfl, rfl, TVStep.refl _, Nat.le_refl _⟩
    exact inv_frame hi i (c.nodes i) hok (fun h => ⟨h, rfl⟩) (fun _ _ h => h) c.returned (fun _ h => h)
  | prevote r1 r2 r3 r4 r5 r6 r7 r8 r9 =>
    refine inv_election_round hc hi i n' true eff r4 r5 ⟨by simp [r2], fun _ => Or.inl r3⟩ r6 r7 (by rw [r1]; simp) ?_ (by simp)
    intro peer pv' hm
    rw [r8] at hm
    obtain ⟨x, hx, he⟩ := List.mem_map.mp hm
    injection he with e1 e2
    have := (List.mem_filter.mp hx).2
    simp only [decide_eq_true_eq] at this
    exact ⟨e2.symm, by rw [← e1, ← hidn]; exact this⟩
  | real r1 r2 r3 r4 r5 r6 r7 r8 r9 =>
    refine inv_election_round hc hi i n' false eff r4 r5 ⟨by simp [r2], fun h => by simp [r2] at h⟩ r6 r7 (by rw [r1]; simp) ?_
      (fun _ => by rw [r3]; exact hidn)
    intro peer pv' hm
    rw [r8] at hm
    rcases List.mem_cons.mp hm with he | hm
    · simp at he
    · obtain ⟨x, hx, he⟩ := List.mem_map.mp hm
      injection he with e1 e2
      have := (List.mem_filter.mp hx).2
      simp only [decide_eq_true_eq] at this
      exact ⟨e2.symm, by rw [← e1, ← hidn]; exact this⟩

/-- The invariant holds in every reachable state. -/
theorem inv_reachable {cfg : Config} (hc : CfgOK cfg) {init c : Cluster} (h0 : Inv cfg init) (hr : Reachable init c) : Inv cfg c := by
  induction hr with
  | base => exact h0
  | step _ hs ih =>
    cases hs with
    | election i now => exact inv_election hc ih i now
    | deliver k q now n' r eff hk hrv => exact inv_deliver hc ih k q now n' r eff hk hrv
    | ret k q r now hk hr hnr => exact inv_ret hc ih k q r now hk hr hnr
    | fail k q hk hnr => exact inv_fail ih k
    | other i n' ho => exact inv_other ih i n' ho
    | crash i n' hcr => exact inv_crash ih i n' hcr

/-- **Election safety**: two recorded leaderships of one term are the same node. -/
theorem election_safety {cfg : Config} (hc : CfgOK cfg) {c : Cluster} (hi : Inv cfg c) (t a b : Nat)
    (ha : (t, a) ∈ c.leaders) (hb : (t, b) ∈ c.leaders) : a = b := by
  obtain ⟨Qa, a1, a2, a3⟩ := hi.ld_quorum t a ha
  obtain ⟨Qb, b1, b2, b3⟩ := hi.ld_quorum t b hb
  obtain ⟨v, va, vb⟩ := quorums_intersect cfg hc.nodup Qa Qb a1 b1 (fun v hv => (a2 v hv).1) (fun v hv => (b2 v hv).1) a3 b3
  exact hi.vote_uniq t v a b (a2 v va).2 (b2 v vb).2

end Cluster
end Raft
