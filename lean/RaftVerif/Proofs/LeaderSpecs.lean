/-
  Proofs/LeaderSpecs.lean — commit, apply and submission sections analysed once.
-/
import RaftVerif.Proofs.ElectionLemmas
import RaftVerif.Proofs.LogLemmas
set_option linter.unusedSimpArgs false
set_option linter.unusedVariables false
namespace Raft
namespace Node
open Log

/-- the voters (other than the leader) whose match index covers `index` -/
def matchers (n : Node) (index : Nat) : List Follower :=
  n.followers.filter (fun f => f.id ≠ n.id && n.config.isVoter f.id && decide (f.mtch ≥ index))

/-- An index is committable: it holds an entry of the current term and the leader (if it
    is a voter: fix S24) plus the matching voters pass `hasQuorum`. -/
def Committable (n : Node) (c : Nat) : Prop :=
  ∃ e, n.log.get? c = some e ∧ e.term = n.term ∧ n.config.hasQuorum (n.selfCount + (n.matchers c).length) = true

theorem commitScan_spec (n : Node) : ∀ (fuel index best c : Nat), commitScan n fuel index best = some c →
    c = best ∨ (index ≤ c ∧ c < index + fuel ∧ n.Committable c) := by
  intro fuel
  induction fuel with
  | zero => intro index best c h; simp [commitScan] at h; left; exact h.symm
  | succ fuel ih =>
    intro index best c h
    unfold commitScan at h
    cases hg : n.log.get? index with
    | none => rw [hg] at h; simp at h
    | some e =>
      rw [hg] at h
      simp only [] at h
      by_cases ht : e.term ≠ n.term
      · rw [if_pos ht] at h
        rcases ih (index + 1) best c h with h1 | ⟨h1, h2, h3⟩
        · left; exact h1
        · right; exact ⟨by omega, by omega, h3⟩
      · rw [if_neg ht] at h
        have hte : e.term = n.term := Classical.byContradiction fun hh => ht hh
        by_cases hq : n.config.hasQuorum (n.selfCount + (n.followers.filter (fun f => f.id ≠ n.id && n.config.isVoter f.id && decide (f.mtch ≥ index))).length) = true
        · rw [if_pos hq] at h
          rcases ih (index + 1) index c h with h1 | ⟨h1, h2, h3⟩
          · right; exact ⟨by omega, by omega, by rw [h1]; exact ⟨e, hg, hte, hq⟩⟩
          · right; exact ⟨by omega, by omega, h3⟩
        · rw [if_neg hq] at h
          rcases ih (index + 1) best c h with h1 | ⟨h1, h2, h3⟩
          · left; exact h1
          · right; exact ⟨by omega, by omega, h3⟩

/-- **The commit rule.** One wake-up of the commit loop never lowers the commit index;
    when it raises it, the new commit index holds an entry of the leader's *current* term
    that the leader and a `hasQuorum` set of *voters* have stored (match index); log, term,
    vote and role are untouched. -/
theorem commitStep_spec (n : Node) (now : Nat) :
    let n' := (n.commitStep now).1
    n.commitIndex ≤ n'.commitIndex ∧ n'.log = n.log ∧ n'.term = n.term ∧ n'.votedFor = n.votedFor ∧ n'.role = n.role ∧
    (n.commitIndex < n'.commitIndex → n.role = .leader ∧ n.Committable n'.commitIndex ∧ n'.commitIndex ≤ n.log.lastIndex) := by
  unfold commitStep
  split
  · exact ⟨Nat.le_refl _, rfl, rfl, rfl, rfl, fun h => absurd h (Nat.lt_irrefl _)⟩
  · rename_i hl
    have hrole : n.role = .leader := Classical.byContradiction fun hh => hl hh
    cases hs : commitScan n (n.log.lastIndex - n.commitIndex) (n.commitIndex + 1) n.commitIndex with
    | none => exact ⟨Nat.le_refl _, rfl, rfl, rfl, rfl, fun h => absurd h (Nat.lt_irrefl _)⟩
    | some c =>
      simp only
      split
      · rename_i hgt
        have hsp := commitScan_spec n _ _ _ _ hs
        obtain ⟨f1, f2, f3, f4, f5, f6, f7⟩ := sendAEToPeers_fields ({ n with commitIndex := c } : Node) now
        have hci : (({ n with commitIndex := c } : Node).sendAEToPeers now).1.commitIndex = c := by
          unfold sendAEToPeers; simp only; split <;> rfl
        have hlog : (({ n with commitIndex := c } : Node).sendAEToPeers now).1.log = n.log := by
          unfold sendAEToPeers; simp only; split <;> rfl
        refine ⟨by rw [hci]; omega, hlog, f1, f2, f3, fun _ => ?_⟩
        rw [hci]
        rcases hsp with h1 | ⟨h1, h2, h3⟩
        · omega
        · exact ⟨hrole, h3, by omega⟩
      · exact ⟨Nat.le_refl _, rfl, rfl, rfl, rfl, fun h => absurd h (Nat.lt_irrefl _)⟩

/-- **The apply rule.** One iteration of the apply loop either does nothing or hands out
    exactly the log entry at `lastApplied + 1`, which is at or below the commit index, and
    advances `lastApplied` by one; the log, commit index, term and vote are untouched. -/
theorem applyStep_spec (n : Node) (now : Nat) :
    let r := n.applyStep now
    r.1.log = n.log ∧ r.1.commitIndex = n.commitIndex ∧ r.1.term = n.term ∧ r.1.votedFor = n.votedFor ∧
    (r.2.2 = .none → r.1.lastApplied = n.lastApplied) ∧
    (∀ e f, r.2.2 = .op e f → n.log.get? (n.lastApplied + 1) = some e ∧ n.lastApplied + 1 ≤ n.commitIndex ∧
        r.1.lastApplied = n.lastApplied + 1 ∧ f = n.pendingRep.contains e.index ∧ e.index ∉ r.1.pendingRep) := by
  unfold applyStep
  split
  · rename_i hc
    cases hg : n.log.get? (n.lastApplied + 1) with
    | none => simp
    | some e =>
      simp only
      split
      · simp
      · split
        · cases hcfg : e.cfg with
          | none => simp
          | some c =>
            simp only
            have hl : (n.applyConfiguration now c).1.log = n.log ∧ (n.applyConfiguration now c).1.commitIndex = n.commitIndex ∧
                (n.applyConfiguration now c).1.term = n.term ∧ (n.applyConfiguration now c).1.votedFor = n.votedFor := by
              unfold applyConfiguration
              cases n.committed with
              | none => simp [nextConfiguration_log, nextConfiguration_commitIndex, nextConfiguration_term, nextConfiguration_votedFor]
              | some cc =>
                simp only
                split
                · exact ⟨rfl, rfl, rfl, rfl⟩
                · simp [nextConfiguration_log, nextConfiguration_commitIndex, nextConfiguration_term, nextConfiguration_votedFor]
            refine ⟨hl.1, hl.2.1, hl.2.2.1, hl.2.2.2, fun h => by simp at h, fun e' f h => by simp at h⟩
        · split
          · refine ⟨rfl, rfl, rfl, rfl, fun h => by simp at h, fun e' f h => ?_⟩
            simp only [Applied.op.injEq] at h
            obtain ⟨h1, h2⟩ := h
            subst h1 h2
            refine ⟨rfl, by omega, rfl, rfl, ?_⟩
            simp [List.mem_filter]
          · simp
  · simp

/-- the entry `submitReplicatedOperation` creates -/
def submitEntry (n : Node) (data : Nat) : Entry := { index := n.log.nextIndex, term := n.term, kind := kOp, data := data }

/-- Client submission: the entry is appended at the end of the log with the leader's
    term, registered under exactly that index, and the append precedes every send. -/
theorem submitReplicated_spec (n : Node) (now data : Nat) (hl : n.role = .leader) :
    let r := n.submitReplicated now data
    r.2.2 = .accepted n.log.nextIndex ∧ r.1.log = n.log.append [n.submitEntry data] ∧
    r.1.term = n.term ∧ r.1.role = .leader ∧
    (∃ rest, r.2.1 = Effect.logAppend [n.submitEntry data] :: rest ∧
      ∀ p, Effect.spawnAE p ∈ r.2.1 → Effect.spawnAE p ∈ rest) := by
  unfold submitReplicated
  have hl' : ¬ n.role ≠ .leader := fun h => h hl
  simp only [hl', if_false]
  generalize hm : ({ n with log := n.log.append [{ index := n.log.nextIndex, term := n.term, kind := kOp, data := data }],
                            pendingRep := n.pendingRep ++ [n.log.nextIndex] } : Node) = m
  obtain ⟨f1, f2, f3, f4, f5, f6, f7⟩ := sendAEToPeers_fields m now
  have hlog : (m.sendAEToPeers now).1.log = m.log := by
    unfold sendAEToPeers; simp only; split <;> rfl
  have hmlog : m.log = n.log.append [n.submitEntry data] := by rw [← hm]; rfl
  have hmt : m.term = n.term := by rw [← hm]
  have hmr : m.role = n.role := by rw [← hm]
  refine ⟨trivial, by rw [hlog, hmlog], by rw [f1, hmt], by rw [f3, hmr]; exact hl, ⟨_, rfl, fun p hp => ?_⟩⟩
  simp only [List.singleton_append, List.mem_cons, reduceCtorEq, false_or] at hp
  exact hp

/-- Leaving leadership drops every pending registration: nothing registered in an earlier
    stint can be answered by a later application. -/
theorem becomeFollower_clears_futures (n : Node) (now l t : Nat) :
    (n.becomeFollower now l t).1.pendingRep = [] ∧ (n.becomeFollower now l t).1.pendingReads = [] ∧
    Effect.failFutures ∈ (n.becomeFollower now l t).2 := by
  unfold becomeFollower resetSnapshots
  simp

theorem becomeLeader_clears_futures (n : Node) (now : Nat) : (n.becomeLeader now).1.pendingRep = [] := by
  unfold becomeLeader
  simp only
  have : ∀ (m : Node), (m.sendAEToPeers now).1.pendingRep = m.pendingRep := by
    intro m; unfold sendAEToPeers; simp only; split <;> rfl
  rw [this]; rfl

/-- Becoming leader keeps the whole log and appends one no-op entry of the new term. -/
theorem becomeLeader_log (n : Node) (now : Nat) :
    (n.becomeLeader now).1.log = n.log.append [{ index := n.log.nextIndex, term := n.term, kind := kNoop, data := 0 }] := by
  unfold becomeLeader
  simp only
  have : ∀ (m : Node), (m.sendAEToPeers now).1.log = m.log := by
    intro m; unfold sendAEToPeers; simp only; split <;> rfl
  rw [this]; rfl

end Node
end Raft

namespace Raft
namespace Node

theorem nextConfiguration_lastApplied (m : Node) (now : Nat) (y : Option Config) :
    (m.nextConfiguration now y).1.lastApplied = m.lastApplied := by
  unfold nextConfiguration
  cases y with
  | none => rfl
  | some c =>
    simp only
    split
    · rfl
    · split <;> rfl

theorem applyConfiguration_lastApplied (n : Node) (now : Nat) (c : Config) :
    (n.applyConfiguration now c).1.lastApplied = n.lastApplied := by
  unfold applyConfiguration
  cases n.committed with
  | none => exact nextConfiguration_lastApplied _ _ _
  | some cc =>
    simp only
    split
    · rfl
    · exact nextConfiguration_lastApplied _ _ _

/-- What each outcome of an apply-loop iteration says about the applied index and the
    kind of the entry consumed. -/
def ApplyOutcomeOK (n : Node) (r : Node × List Effect × Applied) : Prop :=
  match r.2.2 with
  | .none => r.1.lastApplied = n.lastApplied
  | .noop _ => r.1.lastApplied = n.lastApplied + 1 ∧ ∃ e, n.log.get? (n.lastApplied + 1) = some e ∧ e.kind = kNoop
  | .config _ _ _ => r.1.lastApplied = n.lastApplied + 1 ∧ ∃ e, n.log.get? (n.lastApplied + 1) = some e ∧ e.kind = kConfig
  | .op e _ => r.1.lastApplied = n.lastApplied + 1 ∧ n.log.get? (n.lastApplied + 1) = some e ∧ e.kind = kOp

theorem applyStep_kinds (n : Node) (now : Nat) : ApplyOutcomeOK n (n.applyStep now) := by
  unfold applyStep
  split
  · cases hg : n.log.get? (n.lastApplied + 1) with
    | none => simp [ApplyOutcomeOK]
    | some e =>
      simp only
      split
      · rename_i hk; exact ⟨rfl, e, hg, hk⟩
      · split
        · rename_i hk
          cases hcfg : e.cfg with
          | none => simp [ApplyOutcomeOK]
          | some c =>
            simp only [ApplyOutcomeOK]
            exact ⟨by rw [applyConfiguration_lastApplied], e, hg, hk⟩
        · split
          · rename_i hk; exact ⟨rfl, hg, hk⟩
          · simp [ApplyOutcomeOK]
  · simp [ApplyOutcomeOK]

end Node
end Raft
