/-
  Proofs/Lockset.lean — why the lock discipline of Properties/C20.lean excludes data races.

  A trace is a list of events of threads over one mutex (newest first): acquire, release,
  access of a location. It is *well-locked* when acquire happens only on a free mutex and
  release only by the holder (what sync.Mutex guarantees / requires of its users). If an
  access by thread t1 and a later access by another thread t2 both happen with the mutex
  held, then between them t1 releases and afterwards t2 acquires: the accesses are ordered
  by the mutex's release→acquire edge, so in the Go memory model they do not race.
-/
namespace Raft.Lockset

inductive Ev
  | acq (t : Nat)
  | rel (t : Nat)
  | access (t : Nat) (loc : Nat) (write : Bool)
deriving DecidableEq, Repr

/-- holder of the mutex after the trace (`none` = free) -/
def holder : List Ev → Option Nat
  | [] => none
  | .acq t :: _ => some t
  | .rel _ :: _ => none
  | .access .. :: es => holder es

def WellLocked : List Ev → Prop
  | [] => True
  | .acq _ :: es => WellLocked es ∧ holder es = none
  | .rel t :: es => WellLocked es ∧ holder es = some t
  | .access .. :: es => WellLocked es

theorem wellLocked_tail {e : Ev} {es : List Ev} (h : WellLocked (e :: es)) : WellLocked es := by
  cases e with
  | acq t => exact h.1
  | rel t => exact h.1
  | access t l w => exact h

/-- a holder that no longer holds has released in between -/
theorem released (earlier : List Ev) (t1 : Nat) (h1 : holder earlier = some t1) :
    ∀ later, WellLocked (later ++ earlier) → holder (later ++ earlier) ≠ some t1 →
      ∃ l2 l3, later = l2 ++ [Ev.rel t1] ++ l3 := by
  intro later
  induction later with
  | nil => intro _ h; exact absurd h1 (by simpa using h)
  | cons e es ih =>
    intro hw hne
    have hw' := wellLocked_tail hw
    by_cases hstill : holder (es ++ earlier) = some t1
    · cases e with
      | acq t =>
        have : holder (es ++ earlier) = none := hw.2
        rw [this] at hstill; exact absurd hstill (by simp)
      | access t l w => exact absurd hstill (by simpa [holder] using hne)
      | rel t =>
        have : holder (es ++ earlier) = some t := hw.2
        rw [this] at hstill
        injection hstill with hEq
        subst hEq
        exact ⟨[], es, by simp⟩
    · obtain ⟨l2, l3, h⟩ := ih hw' hstill
      exact ⟨e :: l2, l3, by rw [h]; simp⟩

/-- **Lockset soundness**: two accesses under the mutex by different threads are separated by
    a release of the first thread followed by an acquire of the second. -/
theorem release_acquire_between (earlier : List Ev) (t1 t2 : Nat) (hne : t1 ≠ t2) (h1 : holder earlier = some t1) :
    ∀ later, WellLocked (later ++ earlier) → holder (later ++ earlier) = some t2 →
      ∃ l1 l2 l3, later = l1 ++ [Ev.acq t2] ++ l2 ++ [Ev.rel t1] ++ l3 := by
  intro later
  induction later with
  | nil =>
    intro _ h2
    simp only [List.nil_append] at h2
    rw [h1] at h2; injection h2 with h; exact absurd h hne
  | cons e es ih =>
    intro hw h2
    have hw' := wellLocked_tail hw
    cases e with
    | access t l w =>
      have h2' : holder (es ++ earlier) = some t2 := by simpa [holder] using h2
      obtain ⟨l1, l2, l3, h⟩ := ih hw' h2'
      exact ⟨Ev.access t l w :: l1, l2, l3, by rw [h]; simp⟩
    | rel t => simp [holder] at h2
    | acq t =>
      have ht : t = t2 := by simpa [holder] using h2
      subst ht
      have hfree : holder (es ++ earlier) = none := hw.2
      obtain ⟨l2, l3, h⟩ := released earlier t1 h1 es hw' (by rw [hfree]; simp)
      exact ⟨[], l2, l3, by rw [h]; simp⟩

/-- the hypotheses are satisfiable: thread 1 writes under the lock, then thread 2 reads under it -/
example : WellLocked ([Ev.access 2 7 false, Ev.acq 2, Ev.rel 1] ++ [Ev.access 1 7 true, Ev.acq 1]) ∧
    holder [Ev.access 1 7 true, Ev.acq 1] = some 1 ∧
    holder ([Ev.access 2 7 false, Ev.acq 2, Ev.rel 1] ++ [Ev.access 1 7 true, Ev.acq 1]) = some 2 := by
  simp [WellLocked, holder]

end Raft.Lockset
