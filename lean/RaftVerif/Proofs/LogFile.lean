/-
  Proofs/LogFile.lean — what `Replay` reads back from a log file that ends in a torn record.
  Parametric in the record body codec.
-/
import RaftVerif.Proofs.Codec
namespace Raft.LogFile
open Raft.Bytes Raft.Codec

variable {α : Type}

/-- A record body codec: decoding inverts encoding, and bodies fit the int32 length prefix. -/
structure BodyCodec (α : Type) where
  enc : α → Bytes
  dec : Bytes → Option α
  ok : α → Prop
  dec_enc : ∀ a, ok a → dec (enc a) = some a
  small : ∀ a, ok a → (enc a).length < 2 ^ 32

def frames (c : BodyCodec α) (es : List α) : Bytes := (es.map (fun e => frame (c.enc e))).flatten

@[simp] theorem frames_nil (c : BodyCodec α) : frames c [] = [] := rfl
@[simp] theorem frames_cons (c : BodyCodec α) (e : α) (es : List α) :
    frames c (e :: es) = frame (c.enc e) ++ frames c es := by simp [frames]
theorem frames_append (c : BodyCodec α) (xs ys : List α) : frames c (xs ++ ys) = frames c xs ++ frames c ys := by
  simp [frames]

theorem frame_length (b : Bytes) : (frame b).length = 4 + b.length := by simp [frame, be32]; omega

/-- Lift the result of scanning a suffix over the complete records in front of it. -/
def Scan.prepend (es : List α) : Scan α → Scan α
  | .ok es' g => .ok (es ++ es') g
  | .corrupt => .corrupt

theorem scan_frames (c : BodyCodec α) : ∀ (es : List α) (k pos : Nat) (tail : Bytes), (∀ e ∈ es, c.ok e) →
    scan c.dec (es.length + k) pos (frames c es ++ tail) =
      Scan.prepend es (scan c.dec k (pos + (frames c es).length) tail) := by
  intro es
  induction es with
  | nil =>
    intro k pos tail _
    simp only [List.length_nil, Nat.zero_add, frames_nil, List.nil_append, Nat.add_zero]
    cases scan c.dec k pos tail <;> simp [Scan.prepend]
  | cons e es ih =>
    intro k pos tail hok
    have he := hok e List.mem_cons_self
    have hN : (frames c (e :: es)).length = 4 + (c.enc e).length + (frames c es).length := by
      rw [frames_cons, List.length_append, frame_length]
    have hrest := ih k (pos + 4 + (c.enc e).length) tail (fun x hx => hok x (List.mem_cons_of_mem _ hx))
    rw [show pos + 4 + (c.enc e).length + (frames c es).length = pos + (frames c (e :: es)).length by omega] at hrest
    generalize (frames c (e :: es)).length = N at hrest ⊢
    rw [show (e :: es).length + k = (es.length + k) + 1 by simp; omega]
    conv => lhs; unfold scan
    have hfr : frames c (e :: es) ++ tail = be32 (c.enc e).length ++ (c.enc e ++ (frames c es ++ tail)) := by
      simp [frame]
    rw [hfr, readBe32_be32 _ _ (c.small e he)]
    simp only
    have hlen : ¬ ((c.enc e ++ (frames c es ++ tail)).length < (c.enc e).length) := by simp
    simp only [hlen, if_false, List.take_left, List.drop_left, c.dec_enc e he, hrest]
    cases scan c.dec k (pos + N) tail <;> simp [Scan.prepend]

/-- A strict prefix of one record is a torn tail: the scan stops in front of it. -/
theorem scan_torn (c : BodyCodec α) (e : α) (he : c.ok e) (p : Bytes) (hp : p <+: frame (c.enc e))
    (hlt : p.length < (frame (c.enc e)).length) (k pos : Nat) : scan c.dec (k + 1) pos p = .ok [] pos := by
  unfold scan
  by_cases h4 : p.length < 4
  · have : readBe32 p = none := by
      match p, h4 with
      | [], _ => rfl
      | [_], _ => rfl
      | [_, _], _ => rfl
      | [_, _, _], _ => rfl
      | _ :: _ :: _ :: _ :: _, h => simp at h; omega
    simp [this]
  · -- the header is complete, the body is not
    obtain ⟨t, ht⟩ := hp
    have hfl := frame_length (c.enc e)
    have hb4 : (be32 (c.enc e).length).length = 4 := by simp [be32]
    have hsplit : p = be32 (c.enc e).length ++ (c.enc e).take (p.length - 4) := by
      have h1 : (p ++ t).take p.length = p := by simp
      rw [ht] at h1
      simp only [frame] at h1
      rw [List.take_append, hb4, List.take_of_length_le (by omega)] at h1
      exact h1.symm
    have hqlen : ((c.enc e).take (p.length - 4)).length < (c.enc e).length := by
      rw [List.length_take]; omega
    generalize (c.enc e).take (p.length - 4) = q at hsplit hqlen
    rw [hsplit, readBe32_be32 _ _ (c.small e he)]
    simp [hqlen]

/-- Any byte prefix of a sequence of records is some complete records followed by a
    strict prefix of the next one (or nothing). -/
theorem prefix_of_frames (c : BodyCodec α) : ∀ (es : List α) (p : Bytes), p <+: frames c es →
    ∃ j, j ≤ es.length ∧ ∃ p', p = frames c (es.take j) ++ p' ∧
      (p' = [] ∨ ∃ e, es[j]? = some e ∧ p' <+: frame (c.enc e) ∧ p'.length < (frame (c.enc e)).length) := by
  intro es
  induction es with
  | nil =>
    intro p hp
    have : p = [] := by simpa using hp
    exact ⟨0, Nat.le_refl _, [], by simp [this], Or.inl rfl⟩
  | cons e es ih =>
    intro p hp
    rw [frames_cons] at hp
    by_cases hlt : p.length < (frame (c.enc e)).length
    · -- inside the first record
      refine ⟨0, Nat.zero_le _, p, by simp, ?_⟩
      by_cases hnil : p = []
      · exact Or.inl hnil
      · right
        refine ⟨e, by simp, ?_, hlt⟩
        obtain ⟨t, ht⟩ := hp
        have : p = (frame (c.enc e)).take p.length := by
          have h1 : (p ++ t).take p.length = p := by simp
          rw [ht, List.take_append_of_le_length (by omega)] at h1
          exact h1.symm
        rw [this]; exact List.take_prefix _ _
    · -- the first record is complete
      obtain ⟨t, ht⟩ := hp
      have hsplit : p = frame (c.enc e) ++ p.drop (frame (c.enc e)).length := by
        have h1 : (p ++ t).take (frame (c.enc e)).length = frame (c.enc e) := by rw [ht]; simp
        rw [List.take_append_of_le_length (by omega)] at h1
        conv => lhs; rw [← List.take_append_drop (frame (c.enc e)).length p]
        rw [h1]
      have hp2 : p.drop (frame (c.enc e)).length <+: frames c es := by
        refine ⟨t, ?_⟩
        have h2 : (p ++ t).drop (frame (c.enc e)).length = frames c es := by rw [ht]; simp
        rw [List.drop_append_of_le_length (by omega)] at h2
        exact h2
      obtain ⟨j, hj, p', hp', hcase⟩ := ih _ hp2
      refine ⟨j + 1, by simp; omega, p', ?_, ?_⟩
      · rw [hsplit, hp']; simp
      · rcases hcase with h | ⟨e', he', h1, h2⟩
        · exact Or.inl h
        · exact Or.inr ⟨e', by simpa using he', h1, h2⟩

/-- **Recovery after a crash inside an append.** The file held the records `old`; an
    append of `es` was cut at an arbitrary byte. `Replay` succeeds, returns `old` followed
    by a prefix of `es`, and the end of the last complete record it reports is exactly the
    length of those records — so truncating there restores a file of complete records. -/
theorem replay_torn_append (c : BodyCodec α) (old es : List α) (hold : ∀ e ∈ old, c.ok e) (hes : ∀ e ∈ es, c.ok e)
    (p : Bytes) (hp : p <+: frames c es) :
    ∃ j, j ≤ es.length ∧
      replay c.dec (frames c old ++ p) = .ok (old ++ es.take j) (frames c (old ++ es.take j)).length ∧
      (frames c old ++ p).take (frames c (old ++ es.take j)).length = frames c (old ++ es.take j) := by
  obtain ⟨j, hj, p', hp', hcase⟩ := prefix_of_frames c es p hp
  refine ⟨j, hj, ?_, ?_⟩
  · unfold replay
    have hall : ∀ e ∈ old ++ es.take j, c.ok e := by
      intro e he
      rcases List.mem_append.mp he with h | h
      · exact hold e h
      · exact hes e (List.mem_of_mem_take h)
    have hfile : frames c old ++ p = frames c (old ++ es.take j) ++ p' := by
      rw [hp', frames_append, List.append_assoc]
    -- enough fuel: one unit per record plus one
    have hfuel : ∃ k, (frames c old ++ p).length + 1 = (old ++ es.take j).length + (k + 1) := by
      have : (old ++ es.take j).length ≤ (frames c (old ++ es.take j)).length := by
        generalize (old ++ es.take j) = xs
        induction xs with
        | nil => simp
        | cons x xs ih => rw [frames_cons, List.length_append, frame_length, List.length_cons]; omega
      refine ⟨(frames c old ++ p).length - (old ++ es.take j).length, ?_⟩
      have hl : (frames c old ++ p).length = (frames c (old ++ es.take j)).length + p'.length := by
        rw [hfile, List.length_append]
      omega
    obtain ⟨k, hk⟩ := hfuel
    rw [hk, hfile, scan_frames c _ (k + 1) 0 p' hall]
    rcases hcase with h | ⟨e, he, h1, h2⟩
    · subst h
      simp only [Nat.zero_add]
      unfold scan
      simp [readBe32, Scan.prepend]
    · have hok : c.ok e := hes e (List.mem_of_getElem? he)
      rw [scan_torn c e hok p' h1 h2]
      simp [Scan.prepend]
  · have hfile : frames c old ++ p = frames c (old ++ es.take j) ++ p' := by
      rw [hp', frames_append, List.append_assoc]
    rw [hfile]; simp

end Raft.LogFile
