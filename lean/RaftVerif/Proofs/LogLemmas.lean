/-
  Proofs/LogLemmas.lean — facts about the in-memory log model.
-/
import RaftVerif.Model.Log
namespace Raft
namespace Log

theorem contig_getElem {b : Nat} {es : List Entry} (h : Contig b es) :
    ∀ (k : Nat) (hk : k < es.length), (es[k]'hk).index = b + k + 1 := by
  induction es generalizing b with
  | nil => intro k hk; simp at hk
  | cons e es ih =>
    intro k hk
    obtain ⟨h1, h2⟩ := h
    cases k with
    | zero => simp [h1]
    | succ k =>
      simp only [List.getElem_cons_succ]
      have := ih h2 k (by simpa using hk)
      omega

theorem contig_append {b : Nat} {xs ys : List Entry} :
    Contig b (xs ++ ys) ↔ Contig b xs ∧ Contig (b + xs.length) ys := by
  induction xs generalizing b with
  | nil => simp [Contig]
  | cons x xs ih =>
    simp only [List.cons_append, Contig, List.length_cons]
    rw [ih]
    constructor
    · rintro ⟨h1, h2, h3⟩; exact ⟨⟨h1, h2⟩, by rwa [show b + (xs.length + 1) = b + 1 + xs.length by omega]⟩
    · rintro ⟨⟨h1, h2⟩, h3⟩; exact ⟨h1, h2, by rwa [show b + 1 + xs.length = b + (xs.length + 1) by omega]⟩

theorem contig_take {b : Nat} {es : List Entry} (h : Contig b es) (k : Nat) : Contig b (es.take k) := by
  have : Contig b (es.take k ++ es.drop k) := by rwa [List.take_append_drop]
  exact (contig_append.mp this).1

theorem contig_drop {b : Nat} {es : List Entry} (h : Contig b es) (k : Nat) (hk : k ≤ es.length) :
    Contig (b + k) (es.drop k) := by
  have : Contig b (es.take k ++ es.drop k) := by rwa [List.take_append_drop]
  have h2 := (contig_append.mp this).2
  rwa [List.length_take, Nat.min_eq_left hk] at h2

theorem contig_getLast {b : Nat} {es : List Entry} (h : Contig b es) (e : Entry)
    (hl : es.getLast? = some e) : e.index = b + es.length := by
  have hne : es ≠ [] := by intro h0; simp [h0] at hl
  have hlen : 0 < es.length := List.length_pos_iff.mpr hne
  rw [List.getLast?_eq_getElem?] at hl
  have hk : es.length - 1 < es.length := by omega
  rw [List.getElem?_eq_getElem hk] at hl
  have := contig_getElem h (es.length - 1) hk
  injection hl with hl
  rw [← hl, this]; omega

theorem wf_lastIndex {l : Log} (h : l.WF) : l.lastIndex = l.base + l.ents.length := by
  unfold lastIndex
  cases hl : l.ents.getLast? with
  | none =>
    have : l.ents = [] := by simpa using hl
    simp [this]
  | some e => simpa using contig_getLast h e hl

theorem contains_iff {l : Log} {i : Nat} : l.contains i = true ↔ l.base < i ∧ i ≤ l.base + l.ents.length := by
  unfold contains; simp; omega

theorem wf_contains_iff {l : Log} (h : l.WF) {i : Nat} : l.contains i = true ↔ l.base < i ∧ i ≤ l.lastIndex := by
  rw [contains_iff, wf_lastIndex h]

theorem get?_eq_some_iff {l : Log} {i : Nat} {e : Entry} :
    l.get? i = some e ↔ l.contains i = true ∧ l.ents[i - l.base - 1]? = some e := by
  unfold get?; split <;> simp_all

theorem get?_isSome_of_contains {l : Log} {i : Nat} (h : l.contains i = true) : (l.get? i).isSome := by
  unfold get?; simp only [h, if_true]
  have := contains_iff.mp h
  rw [List.getElem?_eq_getElem (by omega)]; simp

theorem get?_none_of_not_contains {l : Log} {i : Nat} (h : l.contains i = false) : l.get? i = none := by
  unfold get?; simp [h]

theorem wf_get?_index {l : Log} (h : l.WF) {i : Nat} {e : Entry} (hg : l.get? i = some e) : e.index = i := by
  obtain ⟨hc, he⟩ := get?_eq_some_iff.mp hg
  have hb := contains_iff.mp hc
  have hk : i - l.base - 1 < l.ents.length := by omega
  rw [List.getElem?_eq_getElem hk] at he
  injection he with he
  rw [← he, contig_getElem h _ hk]; omega

@[simp] theorem append_base (l : Log) (es : List Entry) : (l.append es).base = l.base := rfl
@[simp] theorem append_baseTerm (l : Log) (es : List Entry) : (l.append es).baseTerm = l.baseTerm := rfl
@[simp] theorem append_ents (l : Log) (es : List Entry) : (l.append es).ents = l.ents ++ es := rfl
@[simp] theorem append_nil (l : Log) : l.append [] = l := by simp [append]

theorem wf_append {l : Log} {es : List Entry} (h : l.WF) (hc : Contig l.lastIndex es) : (l.append es).WF := by
  unfold WF; simp only [append_base, append_ents]
  rw [contig_append]; exact ⟨h, by rwa [← wf_lastIndex h]⟩

theorem get?_append_left {l : Log} {es : List Entry} {i : Nat} (h : l.contains i = true) :
    (l.append es).get? i = l.get? i := by
  have hb := contains_iff.mp h
  have h2 : (l.append es).contains i = true := by
    rw [contains_iff]; simp; omega
  unfold get?; simp only [h, h2, if_true, append_base, append_ents]
  rw [List.getElem?_append_left (by omega)]

theorem truncate_eq_some {l : Log} {i : Nat} (h : l.contains i = true) :
    l.truncate i = some { l with ents := l.ents.take (i - l.base - 1) } := by
  unfold truncate; simp [h]

theorem wf_truncate {l l' : Log} {i : Nat} (h : l.WF) (ht : l.truncate i = some l') :
    l'.WF ∧ l'.base = l.base ∧ l'.baseTerm = l.baseTerm ∧ l'.ents = l.ents.take (i - l.base - 1) ∧
      l.contains i = true := by
  unfold truncate at ht
  split at ht
  · injection ht with ht; subst ht
    exact ⟨contig_take h _, rfl, rfl, rfl, by assumption⟩
  · simp at ht

theorem truncate_lastIndex {l l' : Log} {i : Nat} (h : l.WF) (ht : l.truncate i = some l') :
    l'.lastIndex = i - 1 := by
  obtain ⟨hw, hb, _, he, hc⟩ := wf_truncate h ht
  have hcc := contains_iff.mp hc
  rw [wf_lastIndex hw, hb, he, List.length_take]; omega

theorem get?_truncate_lt {l l' : Log} {i j : Nat} (h : l.WF) (ht : l.truncate i = some l') (hj : j < i) :
    l'.get? j = l.get? j := by
  obtain ⟨_, hb, _, he, hc⟩ := wf_truncate h ht
  have hcc := contains_iff.mp hc
  by_cases hjc : l.base < j
  · have c1 : l.contains j = true := by rw [contains_iff]; omega
    have c2 : l'.contains j = true := by rw [contains_iff, hb, he, List.length_take]; omega
    unfold get?; simp only [c1, c2, if_true, hb, he]
    rw [List.getElem?_take]; simp; omega
  · have c1 : l.contains j = false := by
      cases hcj : l.contains j with
      | false => rfl
      | true => have := contains_iff.mp hcj; omega
    have c2 : l'.contains j = false := by
      cases hcj : l'.contains j with
      | false => rfl
      | true => have := contains_iff.mp hcj; omega
    simp [get?, c1, c2]

end Log
end Raft
