/-
  Proofs/Meta.lean — round trip of the snapshot metadata file (decimal, base64, the JSON shape).
-/
import RaftVerif.Model.Meta
set_option linter.unusedSimpArgs false
set_option linter.unusedVariables false
namespace Raft.Meta
open Raft.Bytes

/-! ### decimal -/

def dval (v : Nat) (ds : Bytes) : Nat := ds.foldl (fun a d => a * 10 + (d - 48)) v

theorem decAux_spec : ∀ (fuel n : Nat) (acc : Bytes), n < 10 ^ (fuel + 1) →
    ∃ ds, decAux fuel n acc = ds ++ acc ∧ ds ≠ [] ∧ (∀ d ∈ ds, isDigit d = true) ∧
      ∀ v, dval v ds = v * 10 ^ ds.length + n := by
  intro fuel
  induction fuel with
  | zero =>
    intro n acc h
    have hn : n < 10 := by simpa using h
    refine ⟨[48 + n], by simp [decAux, Nat.mod_eq_of_lt hn], by simp, ?_, ?_⟩
    · intro d hd; simp only [List.mem_singleton] at hd; subst hd; simp [isDigit]; omega
    · intro v; simp [dval]
  | succ fuel ih =>
    intro n acc h
    unfold decAux
    by_cases hn : n < 10
    · rw [if_pos hn]
      refine ⟨[48 + n], by simp, by simp, ?_, ?_⟩
      · intro d hd; simp only [List.mem_singleton] at hd; subst hd; simp [isDigit]; omega
      · intro v; simp [dval]
    · rw [if_neg hn]
      have hdiv : n / 10 < 10 ^ (fuel + 1) := by
        have : 10 ^ (fuel + 1 + 1) = 10 * 10 ^ (fuel + 1) := by rw [Nat.pow_succ]; omega
        rw [this] at h
        exact Nat.div_lt_of_lt_mul h
      obtain ⟨ds, h1, h2, h3, h4⟩ := ih (n / 10) ((48 + n % 10) :: acc) hdiv
      refine ⟨ds ++ [48 + n % 10], by rw [h1]; simp, by simp, ?_, ?_⟩
      · intro d hd
        rcases List.mem_append.mp hd with h | h
        · exact h3 d h
        · simp only [List.mem_singleton] at h; subst h; simp [isDigit]; omega
      · intro v
        have := h4 v
        unfold dval at this ⊢
        rw [List.foldl_append, this]
        simp only [List.foldl_cons, List.foldl_nil, List.length_append, List.length_cons, List.length_nil]
        have e : 48 + n % 10 - 48 = n % 10 := by omega
        rw [e, Nat.pow_succ, ← Nat.mul_assoc]
        generalize v * 10 ^ ds.length = X
        omega

theorem readDigits_append (ds rest : Bytes) (v : Nat) (hd : ∀ d ∈ ds, isDigit d = true)
    (hr : ∀ b r, rest = b :: r → isDigit b = false) : readDigits (ds ++ rest) v = (dval v ds, rest) := by
  induction ds generalizing v with
  | nil =>
    simp only [List.nil_append, dval, List.foldl_nil]
    cases rest with
    | nil => rfl
    | cons b r => simp [readDigits, hr b r rfl]
  | cons d ds ih =>
    simp only [List.cons_append, readDigits, hd d List.mem_cons_self, if_true]
    rw [ih _ (fun x hx => hd x (List.mem_cons_of_mem _ hx))]
    rfl

/-- a number below 2^64 (indeed below 10^20) is read back, up to the first non-digit -/
theorem readDec_encDec (n : Nat) (rest : Bytes) (h : n < 2 ^ 64) (hr : ∀ b r, rest = b :: r → isDigit b = false) :
    readDec (encDec n ++ rest) = some (n, rest) := by
  have hlt : n < 10 ^ (19 + 1) := by
    have : (2 : Nat) ^ 64 ≤ 10 ^ 20 := by decide
    omega
  obtain ⟨ds, h1, h2, h3, h4⟩ := decAux_spec 19 n [] hlt
  unfold encDec
  rw [h1, List.append_nil]
  cases ds with
  | nil => exact absurd rfl h2
  | cons d ds' =>
    unfold readDec
    simp only [List.cons_append, h3 d List.mem_cons_self, if_true]
    have := readDigits_append (d :: ds') rest 0 h3 hr
    simp only [List.cons_append] at this
    rw [this, h4 0]
    simp

/-! ### base64 -/

theorem b64_table : ∀ i, i < 64 → b64val (b64char i) = some i ∧ b64char i ≠ 34 ∧ b64char i ≠ 61 := by decide

theorem b64val_char {i : Nat} (h : i < 64) : b64val (b64char i) = some i := (b64_table i h).1
theorem b64char_ne_quote {i : Nat} (h : i < 64) : b64char i ≠ 34 := (b64_table i h).2.1
theorem b64char_ne_pad {i : Nat} (h : i < 64) : b64char i ≠ 61 := (b64_table i h).2.2

theorem b64dec_enc : ∀ (bs : List Nat) (fuel : Nat) (rest : List Nat), (∀ b ∈ bs, b < 256) → bs.length < fuel →
    b64dec fuel (b64enc bs ++ 34 :: rest) = some (bs, 34 :: rest) := by
  intro bs
  induction bs using b64enc.induct with
  | case1 =>
    intro fuel rest _ hf
    cases fuel with
    | zero => omega
    | succ fuel => simp [b64enc, b64dec]
  | case2 a =>
    intro fuel rest hb hf
    have ha : a < 256 := hb a List.mem_cons_self
    cases fuel with
    | zero => omega
    | succ fuel =>
      have h1 : a / 4 < 64 := by omega
      have h2 : a % 4 * 16 < 64 := by omega
      simp only [b64enc, List.cons_append, List.nil_append, b64dec, b64char_ne_quote h1, if_false,
        b64val_char h1, b64val_char h2, and_self, if_true]
      have : a % 4 * 16 % 16 = 0 := by omega
      simp only [this, if_true, Option.some.injEq, Prod.mk.injEq, List.cons.injEq, and_true]
      omega
  | case3 a b =>
    intro fuel rest hb hf
    have ha : a < 256 := hb a List.mem_cons_self
    have hb' : b < 256 := hb b (List.mem_cons_of_mem _ List.mem_cons_self)
    cases fuel with
    | zero => omega
    | succ fuel =>
      have h1 : a / 4 < 64 := by omega
      have h2 : a % 4 * 16 + b / 16 < 64 := by omega
      have h3 : b % 16 * 4 < 64 := by omega
      have hne : ¬ (b64char (b % 16 * 4) = 61 ∧ (61 : Nat) = 61) := fun h => b64char_ne_pad h3 h.1
      simp only [b64enc, List.cons_append, List.nil_append, b64dec, b64char_ne_quote h1, if_false,
        b64val_char h1, b64val_char h2, hne, b64val_char h3, if_true]
      have : b % 16 * 4 % 4 = 0 := by omega
      simp only [this, if_true]
      rw [if_neg (fun h => b64char_ne_pad h3 h.1)]
      simp only [Option.some.injEq, Prod.mk.injEq, List.cons.injEq, and_true]
      refine ⟨?_, ?_⟩ <;> omega
  | case4 a b c rest' ih =>
    intro fuel rest hb hf
    have ha : a < 256 := hb a List.mem_cons_self
    have hb' : b < 256 := hb b (List.mem_cons_of_mem _ List.mem_cons_self)
    have hc : c < 256 := hb c (List.mem_cons_of_mem _ (List.mem_cons_of_mem _ List.mem_cons_self))
    cases fuel with
    | zero => omega
    | succ fuel =>
      have h1 : a / 4 < 64 := by omega
      have h2 : a % 4 * 16 + b / 16 < 64 := by omega
      have h3 : b % 16 * 4 + c / 64 < 64 := by omega
      have h4 : c % 64 < 64 := by omega
      have hne : ¬ (b64char (b % 16 * 4 + c / 64) = 61 ∧ b64char (c % 64) = 61) := fun h => b64char_ne_pad h3 h.1
      have hrec := ih fuel rest (fun x hx => hb x (List.mem_cons_of_mem _ (List.mem_cons_of_mem _ (List.mem_cons_of_mem _ hx))))
        (by simp only [List.length_cons] at hf; omega)
      simp only [b64enc, List.cons_append, b64dec, b64char_ne_quote h1, if_false,
        b64val_char h1, b64val_char h2, hne, b64val_char h3, b64char_ne_pad h4, b64val_char h4, hrec]
      rw [if_neg (fun h => h.2)]
      simp only [Option.some.injEq, Prod.mk.injEq, List.cons.injEq, and_true]
      refine ⟨?_, ?_, ?_⟩ <;> omega

end Raft.Meta

namespace Raft.Meta
open Raft.Bytes

theorem b64enc_length_ge : ∀ (bs : List Nat), bs.length ≤ (b64enc bs).length := by
  intro bs
  induction bs using b64enc.induct with
  | case1 => simp [b64enc]
  | case2 a => simp [b64enc]
  | case3 a b => simp [b64enc]
  | case4 a b c rest ih => simp only [b64enc, List.length_cons]; omega

theorem dropPrefix_append (p rest : Bytes) : dropPrefix p (p ++ rest) = some rest := by
  unfold dropPrefix
  simp

theorem k2_head : ∃ t, k2 = 44 :: t := ⟨_, rfl⟩
theorem k3_head : ∃ t, k3 = 44 :: t := ⟨_, rfl⟩
theorem null_close : str "null" ++ [125] = str "null}" := by decide
theorem null_head : ∃ t, str "null}" = 110 :: t := ⟨_, rfl⟩

def SnapMeta.Valid (m : SnapMeta) : Prop :=
  m.index < 2 ^ 64 ∧ m.term < 2 ^ 64 ∧ ∀ c, m.config = some c → ∀ b ∈ c, b < 256

/-- **The snapshot metadata file reads back what was written.** -/
theorem decodeMeta_encodeMeta (m : SnapMeta) (h : m.Valid) : decodeMeta (encodeMeta m) = some m := by
  obtain ⟨hi, ht, hc⟩ := h
  obtain ⟨t2, ht2⟩ := k2_head
  obtain ⟨t3, ht3⟩ := k3_head
  unfold decodeMeta encodeMeta
  simp only [List.append_assoc]
  rw [dropPrefix_append]
  simp only
  rw [readDec_encDec _ _ hi (by intro b r hbr; rw [ht2] at hbr; simp only [List.cons_append, List.cons.injEq] at hbr; rw [← hbr.1]; decide)]
  simp only
  rw [dropPrefix_append]
  simp only
  rw [readDec_encDec _ _ ht (by intro b r hbr; rw [ht3] at hbr; simp only [List.cons_append, List.cons.injEq] at hbr; rw [← hbr.1]; decide)]
  simp only
  rw [dropPrefix_append]
  simp only
  cases hcfg : m.config with
  | none =>
    simp only [null_close, if_true]
    cases m; simp_all
  | some c =>
    obtain ⟨tn, htn⟩ := null_head
    simp only [List.append_assoc, List.cons_append, List.nil_append]
    have hne : ¬ (34 :: (b64enc c ++ [34, 125]) = str "null}") := by
      rw [htn]; simp
    rw [if_neg hne]
    have hb := hc c hcfg
    have hlen := b64enc_length_ge c
    rw [b64dec_enc c _ [125] hb (by simp only [List.length_append, List.length_cons, List.length_nil]; omega)]
    cases m; simp_all

end Raft.Meta
