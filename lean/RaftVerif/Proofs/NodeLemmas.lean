/-
  Proofs/NodeLemmas.lean — what the role-transition helpers leave untouched.
-/
import RaftVerif.Model.Handlers
namespace Raft
namespace Node

@[simp] theorem resetSnapshots_log (n : Node) : n.resetSnapshots.1.log = n.log := rfl
@[simp] theorem resetSnapshots_term (n : Node) : n.resetSnapshots.1.term = n.term := rfl
@[simp] theorem resetSnapshots_votedFor (n : Node) : n.resetSnapshots.1.votedFor = n.votedFor := rfl
@[simp] theorem resetSnapshots_role (n : Node) : n.resetSnapshots.1.role = n.role := rfl
@[simp] theorem resetSnapshots_commitIndex (n : Node) : n.resetSnapshots.1.commitIndex = n.commitIndex := rfl
@[simp] theorem resetSnapshots_config (n : Node) : n.resetSnapshots.1.config = n.config := rfl
@[simp] theorem resetSnapshots_id (n : Node) : n.resetSnapshots.1.id = n.id := rfl

@[simp] theorem becomeFollower_log (n : Node) (now l t : Nat) : (n.becomeFollower now l t).1.log = n.log := rfl
@[simp] theorem becomeFollower_term (n : Node) (now l t : Nat) : (n.becomeFollower now l t).1.term = t := rfl
@[simp] theorem becomeFollower_role (n : Node) (now l t : Nat) : (n.becomeFollower now l t).1.role = .follower := rfl
@[simp] theorem becomeFollower_commitIndex (n : Node) (now l t : Nat) :
    (n.becomeFollower now l t).1.commitIndex = n.commitIndex := rfl
@[simp] theorem becomeFollower_lastApplied (n : Node) (now l t : Nat) :
    (n.becomeFollower now l t).1.lastApplied = n.lastApplied := rfl
@[simp] theorem becomeFollower_config (n : Node) (now l t : Nat) : (n.becomeFollower now l t).1.config = n.config := rfl
@[simp] theorem becomeFollower_committed (n : Node) (now l t : Nat) :
    (n.becomeFollower now l t).1.committed = n.committed := rfl
@[simp] theorem becomeFollower_snapIndex (n : Node) (now l t : Nat) :
    (n.becomeFollower now l t).1.snapIndex = n.snapIndex := rfl
@[simp] theorem becomeFollower_snapTerm (n : Node) (now l t : Nat) :
    (n.becomeFollower now l t).1.snapTerm = n.snapTerm := rfl
@[simp] theorem becomeFollower_id (n : Node) (now l t : Nat) : (n.becomeFollower now l t).1.id = n.id := rfl
@[simp] theorem becomeFollower_et (n : Node) (now l t : Nat) : (n.becomeFollower now l t).1.et = n.et := rfl
@[simp] theorem becomeFollower_lastContact (n : Node) (now l t : Nat) :
    (n.becomeFollower now l t).1.lastContact = n.lastContact := rfl
@[simp] theorem becomeFollower_votedFor (n : Node) (now l t : Nat) :
    (n.becomeFollower now l t).1.votedFor = if t > n.term then 0 else n.votedFor := rfl

theorem becomeFollower_effects (n : Node) (now l t : Nat) :
    ∃ rest, (n.becomeFollower now l t).2 = Effect.setState t (if t > n.term then 0 else n.votedFor) :: rest := by
  unfold becomeFollower; simp

/-- No helper of this file ever emits `fatal`. -/
theorem becomeFollower_no_fatal (n : Node) (now l t : Nat) : Effect.fatal ∉ (n.becomeFollower now l t).2 := by
  unfold becomeFollower resetSnapshots
  simp only [List.mem_append, List.mem_cons, not_or]
  refine ⟨⟨⟨by simp, ?_⟩, by simp⟩, ?_⟩ <;> split <;> simp

@[simp] theorem stepdown_log (n : Node) (now : Nat) : (n.stepdown now).1.log = n.log := rfl
@[simp] theorem stepdown_term (n : Node) (now : Nat) : (n.stepdown now).1.term = n.term := rfl
@[simp] theorem stepdown_commitIndex (n : Node) (now : Nat) : (n.stepdown now).1.commitIndex = n.commitIndex := rfl
@[simp] theorem stepdown_votedFor (n : Node) (now : Nat) : (n.stepdown now).1.votedFor = n.votedFor := rfl

theorem nextConfiguration_log (n : Node) (now : Nat) (c : Option Config) :
    (n.nextConfiguration now c).1.log = n.log := by
  unfold nextConfiguration
  cases c with
  | none => rfl
  | some c =>
    simp only
    split
    · rfl
    · split <;> rfl

theorem nextConfiguration_commitIndex (n : Node) (now : Nat) (c : Option Config) :
    (n.nextConfiguration now c).1.commitIndex = n.commitIndex := by
  unfold nextConfiguration
  cases c with
  | none => rfl
  | some c =>
    simp only
    split
    · rfl
    · split <;> rfl

theorem nextConfiguration_term (n : Node) (now : Nat) (c : Option Config) :
    (n.nextConfiguration now c).1.term = n.term := by
  unfold nextConfiguration
  cases c with
  | none => rfl
  | some c =>
    simp only
    split
    · rfl
    · split <;> rfl

theorem nextConfiguration_votedFor (n : Node) (now : Nat) (c : Option Config) :
    (n.nextConfiguration now c).1.votedFor = n.votedFor := by
  unfold nextConfiguration
  cases c with
  | none => rfl
  | some c =>
    simp only
    split
    · rfl
    · split <;> rfl

theorem nextConfiguration_no_fatal (n : Node) (now : Nat) (c : Option Config) :
    Effect.fatal ∉ (n.nextConfiguration now c).2 := by
  unfold nextConfiguration
  cases c with
  | none => simp
  | some c =>
    simp only
    split
    · simp
    · unfold stepdown resetSnapshots
      split <;> simp <;> split <;> simp

end Node
end Raft

namespace Raft
namespace Node

theorem nextConfiguration_id (n : Node) (now : Nat) (c : Option Config) :
    (n.nextConfiguration now c).1.id = n.id := by
  unfold nextConfiguration
  cases c with
  | none => rfl
  | some c =>
    simp only
    split
    · rfl
    · split <;> rfl

theorem nextConfiguration_rvRounds (n : Node) (now : Nat) (c : Option Config) :
    (n.nextConfiguration now c).1.rvRounds = n.rvRounds := by
  unfold nextConfiguration
  cases c with
  | none => rfl
  | some c =>
    simp only
    split
    · rfl
    · split <;> rfl

theorem nextConfiguration_nextRound (n : Node) (now : Nat) (c : Option Config) :
    (n.nextConfiguration now c).1.nextRound = n.nextRound := by
  unfold nextConfiguration
  cases c with
  | none => rfl
  | some c =>
    simp only
    split
    · rfl
    · split <;> rfl

theorem nextConfiguration_config (n : Node) (now : Nat) (c : Config) :
    (n.nextConfiguration now (some c)).1.config = c := by
  unfold nextConfiguration
  simp only

theorem nextConfiguration_role_leader (n : Node) (now : Nat) (c : Option Config) :
    (n.nextConfiguration now c).1.role = .leader → n.role = .leader := by
  unfold nextConfiguration
  cases c with
  | none => exact fun h => h
  | some c =>
    simp only
    split
    · exact fun h => h
    · split
      · intro h; simp [stepdown, resetSnapshots] at h
      · exact fun h => h

end Node
end Raft
