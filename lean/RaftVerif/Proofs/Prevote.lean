/-
  Proofs/Prevote.lean — C16 at the cluster level: while a quorum stays in prompt contact with a
  leader, no prevote round begun in that period ever leads to a candidacy; without a candidacy
  terms are only copied, so no term in the cluster exceeds what was there.
-/
import RaftVerif.Model.Prevote
import RaftVerif.Proofs.ReplInv
set_option linter.unusedSimpArgs false
set_option linter.unusedVariables false
namespace Raft
namespace Prevote

theorem RunP.holds {cfg : Config} {ET : Nat} {P : PState → Prop} {s0 s : PState} (h : RunP cfg ET P s0 s) : P s := by
  cases h with
  | base h => exact h
  | step _ _ h => exact h

theorem step_now_le {cfg : Config} {ET : Nat} {a b : PState} (h : PStep cfg ET a b) : a.now ≤ b.now := by
  cases h <;> simp

theorem RunP.now_le {cfg : Config} {ET : Nat} {P : PState → Prop} {s0 s : PState} (h : RunP cfg ET P s0 s) : s0.now ≤ s.now := by
  induction h with
  | base _ => exact Nat.le_refl _
  | step _ hs _ ih => exact Nat.le_trans ih (step_now_le hs)

/-- grant times never lie in the future -/
theorem grants_past {cfg : Config} {ET : Nat} {s : PState} (h : PReachable cfg ET s) : ∀ c m τ, (c, m, τ) ∈ s.grants → τ ≤ s.now := by
  induction h with
  | base => intro c m τ h; simp at h
  | step _ hs ih =>
    cases hs with
    | tick d => intro c m τ h; have := ih c m τ h; simp only; omega
    | contact m' => exact ih
    | startRound c' => exact ih
    | grant c' m' hg =>
      intro c m τ h
      rcases List.mem_cons.mp h with heq | hold
      · simp only [Prod.mk.injEq] at heq; simp only; omega
      · exact ih c m τ hold
    | candidacy c' Q hQ hg => exact ih
    | adopt n k hk => exact ih
    | crash n => exact ih

/-- a prevote granted while the members of `Q` are in contact is not granted by a member of `Q` -/
theorem new_grants_outside {cfg : Config} {ET : Nat} {Q : List Nat} {s0 s : PState}
    (h : RunP cfg ET (QContact ET Q) s0 s) :
    ∀ c m τ, (c, m, τ) ∈ s.grants → (c, m, τ) ∈ s0.grants ∨ (s0.now ≤ τ ∧ m ∉ Q) := by
  induction h with
  | base _ => intro c m τ h; exact Or.inl h
  | step hrun hs _ ih =>
    have hP := hrun.holds
    have hnow := hrun.now_le
    cases hs with
    | tick d => exact ih
    | contact m' => exact ih
    | startRound c' => exact ih
    | grant c' m' hg =>
      intro c m τ h
      rcases List.mem_cons.mp h with heq | hold
      · simp only [Prod.mk.injEq] at heq
        obtain ⟨_, h2, h3⟩ := heq
        right
        refine ⟨by omega, ?_⟩
        intro hmQ
        subst h2
        exact hg (hP m hmQ)
      · exact ih c m τ hold
    | candidacy c' Q' hQ hg => exact ih
    | adopt n k hk => exact ih
    | crash n => exact ih

/-- **No prevote round begun while a quorum is in prompt contact with a leader leads to a
    candidacy.** In a run from a reachable state `s0` every state of which has all members of the
    quorum `Q` in contact: whenever a candidacy step is enabled for `c`, `c`'s round began no later
    than the run. (Rounds begun before may still complete on grants given before; every node
    starts a fresh round at each of its election timeouts.) -/
theorem candidacy_needs_old_round {cfg : Config} (hnd : cfg.voterIds.Nodup) {ET : Nat} {Q : List Nat} (hQ : Repl.IsQuorum cfg Q)
    {s0 a : PState} (hr : PReachable cfg ET s0) (hrun : RunP cfg ET (QContact ET Q) s0 a)
    (c : Nat) (Q' : List Nat) (hQ' : Repl.IsQuorum cfg Q')
    (hg : ∀ m ∈ Q', ∃ τ, a.roundStart c ≤ τ ∧ (c, m, τ) ∈ a.grants) :
    a.roundStart c ≤ s0.now := by
  obtain ⟨v, hv1, hv2⟩ := Repl.quorum_meet hnd hQ hQ'
  obtain ⟨τ, hτ1, hτ2⟩ := hg v hv2
  rcases new_grants_outside hrun c v τ hτ2 with hold | ⟨_, hnot⟩
  · have := grants_past hr c v τ hold
    omega
  · exact absurd hv1 hnot

/-- a run without a candidacy -/
inductive RunNoCand (cfg : Config) (ET : Nat) (s0 : PState) : PState → Prop
  | base : RunNoCand cfg ET s0 s0
  | step {a b} : RunNoCand cfg ET s0 a → PStep cfg ET a b → (∀ c, b.term c ≤ a.term c ∨ ∃ k, b.term c = a.term k) → RunNoCand cfg ET s0 b

/-- without a candidacy terms are only copied: every term in the cluster was there before -/
theorem terms_only_copied {cfg : Config} {ET : Nat} {s0 s : PState} (h : RunNoCand cfg ET s0 s) :
    ∀ n, ∃ k, s.term n ≤ s0.term k := by
  induction h with
  | base => intro n; exact ⟨n, Nat.le_refl _⟩
  | step _ _ hb ih =>
    intro n
    rcases hb n with h | ⟨k, hk⟩
    · obtain ⟨k, hk⟩ := ih n; exact ⟨k, Nat.le_trans h hk⟩
    · obtain ⟨k', hk'⟩ := ih k; exact ⟨k', by rw [hk]; exact hk'⟩

/-- every step but a candidacy only copies terms -/
theorem step_copies {cfg : Config} {ET : Nat} {a b : PState} (h : PStep cfg ET a b)
    (hnc : ∀ c Q, b ≠ { a with term := setAt a.term c (a.term c + 1) } ∨ ¬ Repl.IsQuorum cfg Q) :
    (∀ c, b.term c ≤ a.term c ∨ ∃ k, b.term c = a.term k) := by
  cases h with
  | tick d => intro c; exact Or.inl (Nat.le_refl _)
  | contact m => intro c; exact Or.inl (Nat.le_refl _)
  | startRound c' => intro c; exact Or.inl (Nat.le_refl _)
  | grant c' m hg => intro c; exact Or.inl (Nat.le_refl _)
  | candidacy c' Q hQ hg =>
    rcases hnc c' Q with h | h
    · exact absurd rfl h
    · exact absurd hQ h
  | adopt n k hk =>
    intro c
    simp only [setAt]
    by_cases hc : c = n
    · right; exact ⟨k, by simp [hc]⟩
    · left; simp [hc]
  | crash n => intro c; exact Or.inl (Nat.le_refl _)

end Prevote
end Raft
