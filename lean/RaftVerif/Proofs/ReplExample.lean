/-
  Proofs/ReplExample.lean — non-vacuity of the replication-layer theorems: a concrete run of a
  three-voter cluster (election of node 1, a client operation, replication to node 2, commit)
  is reachable, and in its last state the leader has committed two entries.
-/
import RaftVerif.Proofs.ReplSafety
namespace Raft
namespace Repl

def cfg3 : Config := ⟨1, [(1, true), (2, true), (3, true)]⟩

theorem cfg3_nodup : cfg3.voterIds.Nodup := by decide
theorem quorum12 : IsQuorum cfg3 [1, 2] := by
  refine ⟨by decide, ?_, by decide⟩
  intro v hv
  simp at hv
  rcases hv with h | h <;> subst h <;> decide

def q1 : RVMsg := ⟨1, 1, 0, 0⟩
def msg1 : AEMsg := ⟨1, 0, 0, [⟨1, 0⟩, ⟨1, 42⟩], 0, 0⟩

def s1 : AState := { init with
  nodes := setNode init 1 { init.nodes 1 with term := (init.nodes 1).term + 1, role := .candidate },
  votes := ((init.nodes 1).term + 1, 1, 1) :: init.votes,
  rvs := ⟨(init.nodes 1).term + 1, 1, (init.nodes 1).log.length, lastTerm (init.nodes 1).log⟩ :: init.rvs }

theorem step1 : Step cfg3 init s1 := Step.timeout init 1 (by decide)

def s2 : AState := { s1 with
  nodes := setNode s1 2 { s1.nodes 2 with term := q1.term, role := if (s1.nodes 2).term < q1.term then .follower else (s1.nodes 2).role },
  votes := (q1.term, 2, q1.cand) :: s1.votes }

theorem step2 : Step cfg3 s1 s2 :=
  Step.grant s1 2 q1 (by decide) (by decide)
    (by intro c h; simp [s1, init, q1] at h)
    (by right; decide)

def s3 : AState := { s2 with
  nodes := setNode s2 1 { s2.nodes 1 with role := .leader, log := (s2.nodes 1).log ++ [⟨(s2.nodes 1).term, 0⟩] },
  glog := fun t => if t = (s2.nodes 1).term then some (1, (s2.nodes 1).log ++ [⟨(s2.nodes 1).term, 0⟩]) else s2.glog t,
  acked := (1, (s2.nodes 1).log.length + 1, (s2.nodes 1).term) :: s2.acked }

theorem step3 : Step cfg3 s2 s3 :=
  Step.becomeLeader s2 1 [1, 2] (by decide) quorum12
    (by intro m hm; simp at hm; rcases hm with h | h <;> subst h <;> decide)

def s4 : AState := { s3 with
  nodes := setNode s3 1 { s3.nodes 1 with log := (s3.nodes 1).log ++ [⟨(s3.nodes 1).term, 42⟩] },
  glog := fun t => if t = (s3.nodes 1).term then some (1, (s3.nodes 1).log ++ [⟨(s3.nodes 1).term, 42⟩]) else s3.glog t,
  acked := (1, (s3.nodes 1).log.length + 1, (s3.nodes 1).term) :: s3.acked }

theorem step4 : Step cfg3 s3 s4 := Step.clientAppend s3 1 42 (by decide)

def s5 : AState := { s4 with
  aes := ⟨(s4.nodes 1).term, 0, termAt (s4.nodes 1).log 0, ((s4.nodes 1).log.drop 0).take 2, (s4.nodes 1).commit, 0⟩ :: s4.aes }

theorem step5 : Step cfg3 s4 s5 := Step.sendAE s4 1 0 2 0 (by decide) (by decide)

theorem msg1_in : msg1 ∈ s5.aes := by decide

def s6 : AState := { s5 with
  nodes := setNode s5 2 { term := msg1.term, role := .follower,
                          log := merge (s5.nodes 2).log msg1.prev msg1.entries,
                          commit := max (s5.nodes 2).commit (min msg1.commit (msg1.prev + msg1.entries.length)) },
  acked := (2, msg1.prev + msg1.entries.length, msg1.term) :: s5.acked }

theorem step6 : Step cfg3 s5 s6 :=
  Step.recvAEok s5 2 msg1 msg1_in (by decide) (Or.inl (by decide)) (by decide) (by decide)

def s7 : AState := { s6 with
  nodes := setNode s6 1 { s6.nodes 1 with commit := max (s6.nodes 1).commit 2 } }

theorem step7 : Step cfg3 s6 s7 :=
  Step.advanceCommit s6 1 2 [1, 2] (by decide) (by decide) (by decide) quorum12
    (by intro m hm; simp at hm; rcases hm with h | h <;> subst h <;> exact ⟨2, by decide, by decide⟩)

theorem s7_reachable : Reachable cfg3 s7 :=
  .step (.step (.step (.step (.step (.step (.step .base step1) step2) step3) step4) step5) step6) step7

/-- the run commits: node 1 has committed `[no-op, 42]`, node 2 stores the same two entries -/
theorem s7_committed : (s7.nodes 1).commit = 2 ∧ (s7.nodes 1).log = [⟨1, 0⟩, ⟨1, 42⟩] ∧ (s7.nodes 2).log = [⟨1, 0⟩, ⟨1, 42⟩] := by
  decide

end Repl
end Raft
