/-
  Proofs/ReplInv.lean — the inductive invariant of the replication layer (Model/Repl.lean).

  Ghost vocabulary:
  * `AckedGE s m i t`  — node m acknowledged, in term t, a log prefix reaching at least index i;
  * `Dead s i t`       — position (i, t) can never be acknowledged by a quorum: some later
                          leader was elected by a quorum none of whose members had acknowledged
                          it (and, being in a later term, none ever will);
  * `QuorumAcked`, `IsCommitted` — what "committed" means on the ghost history.
-/
import RaftVerif.Proofs.ReplLemmas
import RaftVerif.Proofs.ElectionSafety
set_option linter.unusedSimpArgs false
set_option linter.unusedVariables false
namespace Raft
namespace Repl

def AckedGE (s : AState) (m i t : Nat) : Prop := ∃ j, i ≤ j ∧ (m, j, t) ∈ s.acked

def Dead (cfg : Config) (s : AState) (i t : Nat) : Prop :=
  ∃ T c g Q, t < T ∧ s.glog T = some (c, g) ∧ IsQuorum cfg Q ∧ (∀ m ∈ Q, (T, m, c) ∈ s.votes) ∧
    (∀ m ∈ Q, ¬ AckedGE s m i t)

def QuorumAcked (cfg : Config) (s : AState) (i t : Nat) : Prop :=
  ∃ Q, IsQuorum cfg Q ∧ ∀ m ∈ Q, AckedGE s m i t

/-- `P` is a committed prefix, witnessed by a position of a term at most `bound`. -/
def IsCommitted (cfg : Config) (s : AState) (bound : Nat) (P : List AEntry) : Prop :=
  P = [] ∨ ∃ i t c g, t ≤ bound ∧ s.glog t = some (c, g) ∧ 1 ≤ i ∧ i ≤ g.length ∧ termAt g i = t ∧
    QuorumAcked cfg s i t ∧ P <+: g.take i

structure Inv (cfg : Config) (s : AState) : Prop where
  votes_term : ∀ T m c, (T, m, c) ∈ s.votes → T ≤ (s.nodes m).term
  votes_unique : ∀ T m c c', (T, m, c) ∈ s.votes → (T, m, c') ∈ s.votes → c = c'
  rvs_term : ∀ q ∈ s.rvs, q.term ≤ (s.nodes q.cand).term
  votes_cand : ∀ T m c, (T, m, c) ∈ s.votes → T ≤ (s.nodes c).term
  self_vote : ∀ i, (s.nodes i).role ≠ .follower → ((s.nodes i).term, i, i) ∈ s.votes
  leader_glog : ∀ i, (s.nodes i).role = .leader → s.glog (s.nodes i).term = some (i, (s.nodes i).log)
  glog_votes : ∀ T c g, s.glog T = some (c, g) → ∃ Q, IsQuorum cfg Q ∧ ∀ m ∈ Q, (T, m, c) ∈ s.votes
  glog_term : ∀ T c g, s.glog T = some (c, g) → T ≤ (s.nodes c).term
  glog_cand : ∀ T c g, s.glog T = some (c, g) → (s.nodes c).term = T → (s.nodes c).role ≠ .candidate
  glog_shape : ∀ T c g, s.glog T = some (c, g) → (∀ e ∈ g, e.term ≤ T) ∧ Sorted g ∧ 1 ≤ g.length ∧ lastTerm g = T
  log_shape : ∀ i, (∀ e ∈ (s.nodes i).log, e.term ≤ (s.nodes i).term) ∧ Sorted (s.nodes i).log
  cand_log : ∀ i, (s.nodes i).role = .candidate → ∀ e ∈ (s.nodes i).log, e.term < (s.nodes i).term
  rvs_cand : ∀ q ∈ s.rvs, (s.nodes q.cand).role = .candidate → (s.nodes q.cand).term = q.term →
    q.lastIdx = (s.nodes q.cand).log.length ∧ q.lastTerm = lastTerm (s.nodes q.cand).log
  node_lm : ∀ n i, 1 ≤ i → i ≤ (s.nodes n).log.length →
    ∃ c g, s.glog (termAt (s.nodes n).log i) = some (c, g) ∧ i ≤ g.length ∧ (s.nodes n).log.take i = g.take i
  glog_lm : ∀ T c g, s.glog T = some (c, g) → ∀ i, 1 ≤ i → i ≤ g.length →
    ∃ c' g', s.glog (termAt g i) = some (c', g') ∧ i ≤ g'.length ∧ g.take i = g'.take i
  msg_ok : ∀ m ∈ s.aes, ∃ c g, s.glog m.term = some (c, g) ∧ m.prev + m.entries.length ≤ g.length ∧
    m.entries = (g.drop m.prev).take m.entries.length ∧ m.prevTerm = termAt g m.prev ∧ m.commit ≤ g.length ∧
    IsCommitted cfg s m.term (g.take m.commit)
  ack_ok : ∀ m j t, (m, j, t) ∈ s.acked → t ≤ (s.nodes m).term ∧ ∃ c g, s.glog t = some (c, g) ∧ j ≤ g.length
  ack_prefix : ∀ m j t c g i, (m, j, t) ∈ s.acked → s.glog t = some (c, g) → 1 ≤ i → i ≤ j → termAt g i = t →
    (s.nodes m).log.take i = g.take i ∨ Dead cfg s i t
  lc : ∀ T c gT t c' g i, s.glog T = some (c, gT) → s.glog t = some (c', g) → t < T → 1 ≤ i → i ≤ g.length →
    termAt g i = t → gT.take i = g.take i ∨ Dead cfg s i t
  vote_prefix : ∀ T m c t j c' g i, (T, m, c) ∈ s.votes → (s.nodes c).role = .candidate → (s.nodes c).term = T →
    t < T → (m, j, t) ∈ s.acked → s.glog t = some (c', g) → 1 ≤ i → i ≤ j → termAt g i = t →
    (s.nodes c).log.take i = g.take i ∨ Dead cfg s i t
  commit_ok : ∀ n, (s.nodes n).commit ≤ (s.nodes n).log.length ∧
    IsCommitted cfg s (s.nodes n).term ((s.nodes n).log.take (s.nodes n).commit)
  role_pos : ∀ i, (s.nodes i).role ≠ .follower → 1 ≤ (s.nodes i).term
  glog_pos : ∀ T c g, s.glog T = some (c, g) → 1 ≤ T

theorem inv_init (cfg : Config) : Inv cfg init := by
  refine { votes_term := ?_, votes_unique := ?_, rvs_term := ?_, votes_cand := ?_, self_vote := ?_, leader_glog := ?_,
           glog_votes := ?_, glog_term := ?_, glog_cand := ?_, glog_shape := ?_, log_shape := ?_, cand_log := ?_,
           rvs_cand := ?_, node_lm := ?_, glog_lm := ?_, msg_ok := ?_, ack_ok := ?_, ack_prefix := ?_, lc := ?_,
           vote_prefix := ?_, commit_ok := ?_, role_pos := ?_, glog_pos := ?_ } <;> simp [init, IsCommitted] <;> omega

/-! ### monotonicity of the ghost vocabulary -/

/-- `s'` extends the ghost history of `s`. -/
structure Ext (s s' : AState) : Prop where
  votes : ∀ x ∈ s.votes, x ∈ s'.votes
  acked : ∀ x ∈ s.acked, x ∈ s'.acked
  glog : ∀ t c g, s.glog t = some (c, g) → ∃ g', s'.glog t = some (c, g') ∧ g <+: g'
  newack : ∀ m j t, (m, j, t) ∈ s'.acked → (m, j, t) ∈ s.acked ∨ (s.nodes m).term ≤ t

theorem Ext.refl_of (s s' : AState) (hv : s'.votes = s.votes) (ha : s'.acked = s.acked) (hg : s'.glog = s.glog) : Ext s s' :=
  ⟨by rw [hv]; exact fun _ h => h, by rw [ha]; exact fun _ h => h,
   by rw [hg]; exact fun t c g h => ⟨g, h, List.prefix_refl g⟩, by rw [ha]; exact fun _ _ _ h => Or.inl h⟩

theorem AckedGE.mono {s s' : AState} (h : Ext s s') {m i t : Nat} : AckedGE s m i t → AckedGE s' m i t := by
  rintro ⟨j, hj, hm⟩; exact ⟨j, hj, h.acked _ hm⟩

theorem Dead.mono {cfg : Config} {s s' : AState} (hi : Inv cfg s) (h : Ext s s') {i t : Nat} : Dead cfg s i t → Dead cfg s' i t := by
  rintro ⟨T, c, g, Q, htT, hg, hQ, hv, hna⟩
  obtain ⟨g', hg', _⟩ := h.glog T c g hg
  refine ⟨T, c, g', Q, htT, hg', hQ, fun m hm => h.votes _ (hv m hm), ?_⟩
  intro m hm ⟨j, hj, hmem⟩
  rcases h.newack m j t hmem with hold | hnew
  · exact hna m hm ⟨j, hj, hold⟩
  · have := hi.votes_term T m c (hv m hm)
    omega

theorem QuorumAcked.mono {cfg : Config} {s s' : AState} (h : Ext s s') {i t : Nat} : QuorumAcked cfg s i t → QuorumAcked cfg s' i t := by
  rintro ⟨Q, hQ, ha⟩; exact ⟨Q, hQ, fun m hm => (ha m hm).mono h⟩

theorem take_prefix_stable {g g' : List AEntry} (h : g <+: g') {i : Nat} (hi : i ≤ g.length) : g'.take i = g.take i := by
  obtain ⟨r, hr⟩ := h
  rw [← hr, List.take_append_of_le_length hi]

theorem termAt_prefix_stable {g g' : List AEntry} (h : g <+: g') {i : Nat} (hi : i ≤ g.length) : termAt g' i = termAt g i := by
  obtain ⟨r, hr⟩ := h
  rw [← hr, termAt_append_left hi]

theorem IsCommitted.mono {cfg : Config} {s s' : AState} (h : Ext s s') {b b' : Nat} (hb : b ≤ b') {P : List AEntry} :
    IsCommitted cfg s b P → IsCommitted cfg s' b' P := by
  rintro (h0 | ⟨i, t, c, g, htb, hg, h1, hil, hterm, hq, hp⟩)
  · exact Or.inl h0
  · obtain ⟨g', hg', hpre⟩ := h.glog t c g hg
    refine Or.inr ⟨i, t, c, g', by omega, hg', h1, by have := hpre.length_le; omega, ?_, hq.mono h, ?_⟩
    · rw [termAt_prefix_stable hpre hil]; exact hterm
    · rw [take_prefix_stable hpre hil]; exact hp

theorem IsCommitted.prefix {cfg : Config} {s : AState} {b : Nat} {P P' : List AEntry} (hp : P' <+: P) :
    IsCommitted cfg s b P → IsCommitted cfg s b P' := by
  rintro (h0 | ⟨i, t, c, g, htb, hg, h1, hil, hterm, hq, hpp⟩)
  · subst h0; exact Or.inl (List.prefix_nil.mp hp)
  · exact Or.inr ⟨i, t, c, g, htb, hg, h1, hil, hterm, hq, hp.trans hpp⟩

/-! ### consequences of the invariant -/

/-- quorums intersect (static configuration with distinct voter ids) -/
theorem quorum_meet {cfg : Config} (hnd : cfg.voterIds.Nodup) {Q1 Q2 : List Nat} (h1 : IsQuorum cfg Q1) (h2 : IsQuorum cfg Q2) :
    ∃ v, v ∈ Q1 ∧ v ∈ Q2 :=
  Cluster.quorums_intersect cfg hnd Q1 Q2 h1.1 h2.1 h1.2.1 h2.2.1 h1.2.2 h2.2.2

/-- a position acknowledged by a quorum is not dead -/
theorem not_dead_of_quorumAcked {cfg : Config} (hnd : cfg.voterIds.Nodup) {s : AState} {i t : Nat}
    (hq : QuorumAcked cfg s i t) : ¬ Dead cfg s i t := by
  rintro ⟨T, c, g, Q, _, _, hQ, _, hna⟩
  obtain ⟨Q', hQ', ha⟩ := hq
  obtain ⟨v, hv1, hv2⟩ := quorum_meet hnd hQ hQ'
  exact hna v hv1 (ha v hv2)

/-- log matching against a leader log: same term at the same index means same prefix -/
theorem lm_agree {cfg : Config} {s : AState} (hi : Inv cfg s) (n T c : Nat) (g : List AEntry) (hg : s.glog T = some (c, g))
    (i : Nat) (h1 : 1 ≤ i) (hl : i ≤ (s.nodes n).log.length) (hgl : i ≤ g.length)
    (ht : termAt (s.nodes n).log i = termAt g i) : (s.nodes n).log.take i = g.take i := by
  obtain ⟨c1, g1, hg1, _, hp1⟩ := hi.node_lm n i h1 hl
  obtain ⟨c2, g2, hg2, _, hp2⟩ := hi.glog_lm T c g hg i h1 hgl
  rw [ht, hg2] at hg1
  injection hg1 with hEq
  injection hEq with _ hEq2
  rw [hp1, hp2, hEq2]

/-- two leader logs: same term at the same index means same prefix -/
theorem lm_agree_glog {cfg : Config} {s : AState} (hi : Inv cfg s) (T1 c1 : Nat) (g1 : List AEntry) (T2 c2 : Nat) (g2 : List AEntry)
    (h1g : s.glog T1 = some (c1, g1)) (h2g : s.glog T2 = some (c2, g2))
    (i : Nat) (h1 : 1 ≤ i) (hl1 : i ≤ g1.length) (hl2 : i ≤ g2.length)
    (ht : termAt g1 i = termAt g2 i) : g1.take i = g2.take i := by
  obtain ⟨a1, b1, hb1, _, hp1⟩ := hi.glog_lm T1 c1 g1 h1g i h1 hl1
  obtain ⟨a2, b2, hb2, _, hp2⟩ := hi.glog_lm T2 c2 g2 h2g i h1 hl2
  rw [ht, hb2] at hb1
  injection hb1 with hEq
  injection hEq with _ hEq2
  rw [hp1, hp2, hEq2]

end Repl
end Raft
