/-
  Proofs/ReplLease.lean — lease reads are fresh while the timing assumption holds (C17).

  `no_later_leader_under_lease`: in every timely run with `LD + D ≤ ET`, while a leader's lease
  is valid no leader of a later term exists. `lease_read_fresh`: hence a read registered at the
  lease holder and answered under a valid lease (with the usual read-index guard) contains every
  commit made before it was registered.
-/
import RaftVerif.Model.ReplLease
import RaftVerif.Proofs.ReplRead
set_option linter.unusedSimpArgs false
set_option linter.unusedVariables false
namespace Raft
namespace Repl

structure LInv (cfg : Config) (ET LD D : Nat) (l : LState) : Prop where
  base : RInv cfg l.r
  contact_ge : ∀ n T st τa, (n, T, st, τa) ∈ l.r.hbAck → τa ≤ l.contact n
  sticky : ∀ T' m c τv T st τa, (T', m, c, τv) ∈ l.r.voteAt → (m, T, st, τa) ∈ l.r.hbAck → τa < τv → τa + ET ≤ τv
  vote_answer_ne : ∀ T' m c τv T st τa, (T', m, c, τv) ∈ l.r.voteAt → (m, T, st, τa) ∈ l.r.hbAck → τv ≠ τa
  proc_ok : ∀ ldr m T st τp, (ldr, m, T, st, τp) ∈ l.proc → ∃ τa, (m, T, st, τa) ∈ l.r.hbAck
  lease_ok : ∀ ldr T untl, (ldr, T, untl) ∈ l.leases → ∃ st Q, IsQuorum cfg Q ∧ untl ≤ st + D + LD ∧
    ∀ m ∈ Q, m = ldr ∨ ∃ τa, (m, T, st, τa) ∈ l.r.hbAck

theorem linv_init (cfg : Config) (ET LD D : Nat) : LInv cfg ET LD D linit := by
  refine { base := rinv_init cfg, contact_ge := ?_, sticky := ?_, vote_answer_ne := ?_, proc_ok := ?_, lease_ok := ?_ } <;>
    simp [linit, rinit]

theorem linv_step {cfg : Config} (hnd : cfg.voterIds.Nodup) {ET LD D : Nat} {l l' : LState} (hl : LInv cfg ET LD D l)
    (h : LStep cfg ET LD D l l') : LInv cfg ET LD D l' := by
  cases h with
  | vote r' T m c hs hv hh hst =>
    have hb' := rinv_step hnd hl.base hs
    refine { base := hb', contact_ge := ?_, sticky := ?_, vote_answer_ne := ?_, proc_ok := ?_, lease_ok := ?_ }
    · intro n T0 st τa h; rw [hh] at h; exact hl.contact_ge n T0 st τa h
    · intro T' m' c' τv T0 st τa hvv hack hlt
      rw [hh] at hack; rw [hv] at hvv
      rcases List.mem_cons.mp hvv with hn | ho
      · injection hn with h1 h2; injection h2 with h2 h3; injection h3 with h3 h4
        subst h2 h4
        have := hl.contact_ge _ T0 st τa hack
        omega
      · exact hl.sticky T' m' c' τv T0 st τa ho hack hlt
    · intro T' m' c' τv T0 st τa hvv hack
      rw [hh] at hack; rw [hv] at hvv
      rcases List.mem_cons.mp hvv with hn | ho
      · injection hn with h1 h2; injection h2 with h2 h3; injection h3 with h3 h4
        subst h4
        have := (hl.base.hb_ok m' T0 st τa hack).1
        omega
      · exact hl.vote_answer_ne T' m' c' τv T0 st τa ho hack
    · intro ldr m' T0 st τp h
      obtain ⟨τa, hτa⟩ := hl.proc_ok ldr m' T0 st τp h
      exact ⟨τa, by rw [hh]; exact hτa⟩
    · intro ldr T0 untl h
      obtain ⟨st, Q, hQ, hu, hall⟩ := hl.lease_ok ldr T0 untl h
      refine ⟨st, Q, hQ, hu, ?_⟩
      intro m' hm'
      rcases hall m' hm' with h | ⟨τa, hτa⟩
      · exact Or.inl h
      · exact Or.inr ⟨τa, by rw [hh]; exact hτa⟩
  | answer r' n T st hs hv hh =>
    have hb' := rinv_step hnd hl.base hs
    refine { base := hb', contact_ge := ?_, sticky := ?_, vote_answer_ne := ?_, proc_ok := ?_, lease_ok := ?_ }
    · intro n' T0 st0 τa h
      rw [hh] at h
      show τa ≤ (if n' = n then l.r.now else l.contact n')
      rcases List.mem_cons.mp h with hn | ho
      · injection hn with h1 h2; injection h2 with h2 h3; injection h3 with h3 h4
        subst h1 h4; simp
      · by_cases hnn : n' = n
        · simp [hnn]; have := (hl.base.hb_ok n' T0 st0 τa ho).1; omega
        · simp [hnn]; exact hl.contact_ge n' T0 st0 τa ho
    · intro T' m' c' τv T0 st0 τa hvv hack hlt
      rw [hv] at hvv; rw [hh] at hack
      rcases List.mem_cons.mp hack with hn | ho
      · injection hn with h1 h2; injection h2 with h2 h3; injection h3 with h3 h4
        subst h4
        have := (hl.base.vote_time T' m' c' τv hvv).1
        omega
      · exact hl.sticky T' m' c' τv T0 st0 τa hvv ho hlt
    · intro T' m' c' τv T0 st0 τa hvv hack
      rw [hv] at hvv; rw [hh] at hack
      rcases List.mem_cons.mp hack with hn | ho
      · injection hn with h1 h2; injection h2 with h2 h3; injection h3 with h3 h4
        subst h4
        have := (hl.base.vote_time T' m' c' τv hvv).1
        omega
      · exact hl.vote_answer_ne T' m' c' τv T0 st0 τa hvv ho
    · intro ldr m' T0 st0 τp h
      obtain ⟨τa, hτa⟩ := hl.proc_ok ldr m' T0 st0 τp h
      exact ⟨τa, by rw [hh]; exact List.mem_cons_of_mem _ hτa⟩
    · intro ldr T0 untl h
      obtain ⟨st0, Q, hQ, hu, hall⟩ := hl.lease_ok ldr T0 untl h
      refine ⟨st0, Q, hQ, hu, ?_⟩
      intro m' hm'
      rcases hall m' hm' with h | ⟨τa, hτa⟩
      · exact Or.inl h
      · exact Or.inr ⟨τa, by rw [hh]; exact List.mem_cons_of_mem _ hτa⟩
  | quiet r' hs hv hh =>
    have hb' := rinv_step hnd hl.base hs
    refine { base := hb', contact_ge := ?_, sticky := ?_, vote_answer_ne := ?_, proc_ok := ?_, lease_ok := ?_ }
    · intro n T0 st τa h; rw [hh] at h; exact hl.contact_ge n T0 st τa h
    · intro T' m' c' τv T0 st τa hvv hack hlt; rw [hv] at hvv; rw [hh] at hack; exact hl.sticky T' m' c' τv T0 st τa hvv hack hlt
    · intro T' m' c' τv T0 st τa hvv hack; rw [hv] at hvv; rw [hh] at hack; exact hl.vote_answer_ne T' m' c' τv T0 st τa hvv hack
    · intro ldr m' T0 st τp h
      obtain ⟨τa, hτa⟩ := hl.proc_ok ldr m' T0 st τp h
      exact ⟨τa, by rw [hh]; exact hτa⟩
    · intro ldr T0 untl h
      obtain ⟨st, Q, hQ, hu, hall⟩ := hl.lease_ok ldr T0 untl h
      refine ⟨st, Q, hQ, hu, ?_⟩
      intro m' hm'
      rcases hall m' hm' with h | ⟨τa, hτa⟩
      · exact Or.inl h
      · exact Or.inr ⟨τa, by rw [hh]; exact hτa⟩
  | process ldr m T st τa hack hD =>
    refine { base := hl.base, contact_ge := hl.contact_ge, sticky := hl.sticky, vote_answer_ne := hl.vote_answer_ne, proc_ok := ?_, lease_ok := hl.lease_ok }
    intro ldr' m' T0 st0 τp h
    rcases List.mem_cons.mp h with hn | ho
    · injection hn with h1 h2; injection h2 with h2 h3; injection h3 with h3 h4; injection h4 with h4 h5
      subst h2 h3 h4
      exact ⟨τa, hack⟩
    · exact hl.proc_ok ldr' m' T0 st0 τp ho
  | renew ldr st Q hld hQ hall hD =>
    refine { base := hl.base, contact_ge := hl.contact_ge, sticky := hl.sticky, vote_answer_ne := hl.vote_answer_ne, proc_ok := hl.proc_ok, lease_ok := ?_ }
    intro ldr' T0 untl h
    rcases List.mem_cons.mp h with hn | ho
    · injection hn with h1 h2; injection h2 with h2 h3
      subst h1 h2 h3
      refine ⟨st, Q, hQ, by omega, ?_⟩
      intro m hm
      rcases hall m hm with h | ⟨τp, hτp⟩
      · exact Or.inl h
      · exact Or.inr (hl.proc_ok _ m _ st τp hτp)
    · exact hl.lease_ok ldr' T0 untl ho

theorem linv_reachable {cfg : Config} (hnd : cfg.voterIds.Nodup) {ET LD D : Nat} {l : LState} (h : LReachable cfg ET LD D l) :
    LInv cfg ET LD D l := by
  induction h with
  | base => exact linv_init cfg ET LD D
  | step _ hs ih => exact linv_step hnd ih hs

/-- **While a lease is valid there is no leader of a later term.** Timely runs,
    `LD + D ≤ ET`. -/
theorem no_later_leader_under_lease {cfg : Config} (hnd : cfg.voterIds.Nodup) {ET LD D : Nat} (hT : LD + D ≤ ET) {l : LState}
    (hreach : LReachable cfg ET LD D l) (ldr : Nat) (hv : LeaseValid l ldr) :
    ∀ T' c g, l.r.s.glog T' = some (c, g) → T' ≤ (l.r.s.nodes ldr).term := by
  have hl := linv_reachable hnd hreach
  have hr := hl.base
  obtain ⟨hrole, untl, hlease, hnow⟩ := hv
  intro T' c g hg
  by_cases hle : T' ≤ (l.r.s.nodes ldr).term
  · exact hle
  · exfalso
    obtain ⟨τe, hτe⟩ := hr.glog_elect T' c g hg
    obtain ⟨hτe1, _, Q', hQ', hv'⟩ := hr.elect_ok T' c τe hτe
    obtain ⟨st, Q, hQ, hu, hall⟩ := hl.lease_ok ldr _ untl hlease
    obtain ⟨m, hm1, hm2⟩ := quorum_meet hnd hQ hQ'
    obtain ⟨τv, hτv1, hτv2⟩ := hv' m hm2
    rcases hall m hm1 with hself | ⟨τa, hack⟩
    · subst hself
      have := hr.base.votes_term T' _ c (hr.vote_time _ _ _ _ hτv2).2
      omega
    · obtain ⟨_, hst, hterm⟩ := hr.hb_ok m _ st τa hack
      by_cases hlt : τv < τa
      · have := hterm T' c τv hτv2 hlt; omega
      · have hne := hl.vote_answer_ne T' m c τv _ st τa hτv2 hack
        have := hl.sticky T' m c τv _ st τa hτv2 hack (by omega)
        omega

/-- **Lease reads are fresh.** A read registered at the lease holder and answered while its
    lease is valid, with an entry of its term committed and the read index applied, contains
    every commit made — by any leader — before the read was registered. -/
theorem lease_read_fresh {cfg : Config} (hnd : cfg.voterIds.Nodup) {ET LD D : Nat} (hT : LD + D ≤ ET) {l : LState}
    (hreach : LReachable cfg ET LD D l) (rd : Read) (a : Nat) (hrd : rd ∈ l.r.reads)
    (hv : LeaseValid l rd.leader) (hterm : (l.r.s.nodes rd.leader).term = rd.term)
    (hri : rd.readIndex ≤ a) :
    ∀ e ∈ l.r.commitAt, e.time < rd.time → e.index ≤ a ∧ e.pre <+: (l.r.s.nodes rd.leader).log.take a := by
  have hl := linv_reachable hnd hreach
  have hr := hl.base
  intro e he hlt
  obtain ⟨_, _, hlen, _, ⟨g, hg, _⟩, _⟩ := hr.commit_ok e he
  have hle : e.term ≤ rd.term := by
    rw [← hterm]; exact no_later_leader_under_lease hnd hT hreach rd.leader hv e.term e.leader g hg
  obtain ⟨_, _, h3⟩ := hr.read_ok rd hrd
  obtain ⟨h4, h5⟩ := h3 hv.1 hterm e he hlt hle
  exact ⟨by omega, List.prefix_take_iff.mpr ⟨h5, by omega⟩⟩

end Repl
end Raft
