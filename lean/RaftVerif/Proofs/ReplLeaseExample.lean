/-
  Proofs/ReplLeaseExample.lean — non-vacuity of the lease theorems: a timely run
  (ET = 10, LD = 5, D = 5) that reaches a state with a valid lease.
-/
import RaftVerif.Proofs.ReplLease
import RaftVerif.Proofs.ReplExample
namespace Raft
namespace Repl

def u0 : RState := { rinit with now := rinit.now + 1 + 9 }
theorem us0 : RStep cfg3 rinit u0 := RStep.tick rinit 9

def u1 : RState := { u0 with s := timeoutS u0.s 1, now := u0.now + 1, voteAt := ((u0.s.nodes 1).term + 1, 1, 1, u0.now) :: u0.voteAt }
theorem us1 : RStep cfg3 u0 u1 := RStep.timeout u0 1 (by decide)

def u2 : RState := { u1 with s := grantS u1.s 2 q1, now := u1.now + 1, voteAt := (q1.term, 2, q1.cand, u1.now) :: u1.voteAt }
theorem us2 : RStep cfg3 u1 u2 :=
  RStep.grant u1 2 q1 (by decide) (by decide) (by intro c h; simp [u1, u0, rinit, init, timeoutS, q1] at h) (by right; decide)

def u3 : RState := { u2 with s := becomeLeaderS u2.s 1, now := u2.now + 1, electAt := ((u2.s.nodes 1).term, 1, u2.now) :: u2.electAt }
theorem us3 : RStep cfg3 u2 u3 :=
  RStep.becomeLeader u2 1 [1, 2] (by decide) quorum12 (by intro m hm; simp at hm; rcases hm with h | h <;> subst h <;> decide)

def u4 : RState := { u3 with s := sendAES u3.s 1 0 1 u3.now, now := u3.now + 1 }
theorem us4 : RStep cfg3 u3 u4 := RStep.sendAE u3 1 0 1 (by decide) (by decide)

def mu : AEMsg := ⟨1, 0, 0, [⟨1, 0⟩], 0, 13⟩
def u5 : RState := { u4 with s := recvAEokS u4.s 2 mu, now := u4.now + 1, hbAck := (2, mu.term, mu.stamp, u4.now) :: u4.hbAck }
theorem us5 : RStep cfg3 u4 u5 := RStep.recvAEok u4 2 mu (by decide) (by decide) (Or.inl (by decide)) (by decide) (by decide)

def v0 : LState := { linit with r := u0 }
def v1 : LState := { v0 with r := u1 }
def v2 : LState := { v1 with r := u2 }
def v3 : LState := { v2 with r := u3 }
def v4 : LState := { v3 with r := u4 }
def v5 : LState := { v4 with r := u5, contact := fun j => if j = 2 then v4.r.now else v4.contact j }
def v6 : LState := { v5 with proc := (1, 2, 1, 13, v5.r.now) :: v5.proc }
def v7 : LState := { v6 with leases := (1, (v6.r.s.nodes 1).term, v6.r.now + 5) :: v6.leases }

theorem v7_reachable : LReachable cfg3 10 5 5 v7 := by
  have h0 : LStep cfg3 10 5 5 linit v0 := LStep.quiet linit u0 us0 rfl rfl
  have h1 : LStep cfg3 10 5 5 v0 v1 := LStep.vote v0 u1 1 1 1 us1 rfl rfl (by decide)
  have h2 : LStep cfg3 10 5 5 v1 v2 := LStep.vote v1 u2 1 2 1 us2 rfl rfl (by decide)
  have h3 : LStep cfg3 10 5 5 v2 v3 := LStep.quiet v2 u3 us3 rfl rfl
  have h4 : LStep cfg3 10 5 5 v3 v4 := LStep.quiet v3 u4 us4 rfl rfl
  have h5 : LStep cfg3 10 5 5 v4 v5 := LStep.answer v4 u5 2 1 13 us5 rfl rfl
  have h6 : LStep cfg3 10 5 5 v5 v6 := LStep.process v5 1 2 1 13 14 (by decide) (by decide)
  have h7 : LStep cfg3 10 5 5 v6 v7 := LStep.renew v6 1 13 [1, 2] (by decide) quorum12
    (by intro m hm; simp at hm; rcases hm with h | h
        · left; exact h
        · right; subst h; exact ⟨15, by decide⟩) (by decide)
  exact .step (.step (.step (.step (.step (.step (.step (.step .base h0) h1) h2) h3) h4) h5) h6) h7

/-- the lease of node 1 is valid in that state (now = 15 < 20) and `LD + D ≤ ET` -/
theorem v7_lease_valid : LeaseValid v7 1 ∧ 5 + 5 ≤ 10 :=
  ⟨⟨by decide, 20, by decide, by decide⟩, by decide⟩

end Repl
end Raft
