/-
  Proofs/ReplLemmas.lean — list facts behind the replication-layer invariants:
  `termAt`, prefixes (`take`), sortedness, and the specification of `merge`.
-/
import RaftVerif.Model.Repl
set_option linter.unusedSimpArgs false
set_option linter.unusedVariables false
namespace Raft
namespace Repl

abbrev Sorted (l : List AEntry) : Prop := l.Pairwise (fun a b => a.term ≤ b.term)

theorem termAt_zero (l : List AEntry) : termAt l 0 = 0 := rfl

theorem termAt_succ (l : List AEntry) (i : Nat) (h : i < l.length) : termAt l (i + 1) = (l[i]).term := by
  unfold termAt; simp [List.getElem?_eq_getElem h]

theorem termAt_beyond (l : List AEntry) (i : Nat) (h : l.length < i) : termAt l i = 0 := by
  cases i with
  | zero => rfl
  | succ i => unfold termAt; simp [List.getElem?_eq_none (by omega : l.length ≤ i)]

theorem termAt_take {l : List AEntry} {i k : Nat} (h : i ≤ k) : termAt (l.take k) i = termAt l i := by
  cases i with
  | zero => rfl
  | succ i => unfold termAt; simp [List.getElem?_take, (by omega : i < k)]

theorem termAt_append_left {l r : List AEntry} {i : Nat} (h : i ≤ l.length) : termAt (l ++ r) i = termAt l i := by
  cases i with
  | zero => rfl
  | succ i => unfold termAt; simp [List.getElem?_append_left (by omega : i < l.length)]

theorem termAt_append_last (l : List AEntry) (e : AEntry) : termAt (l ++ [e]) (l.length + 1) = e.term := by
  unfold termAt; simp

theorem lastTerm_append (l : List AEntry) (e : AEntry) : lastTerm (l ++ [e]) = e.term := by
  unfold lastTerm; simp [termAt_append_last]

theorem termAt_of_take_eq {l1 l2 : List AEntry} {i : Nat} (h : l1.take i = l2.take i) : termAt l1 i = termAt l2 i := by
  rw [← termAt_take (Nat.le_refl i), h, termAt_take (Nat.le_refl i)]

theorem termAt_mem {l : List AEntry} {i : Nat} (h1 : 1 ≤ i) (h2 : i ≤ l.length) : ∃ e ∈ l, e.term = termAt l i := by
  cases i with
  | zero => omega
  | succ i => exact ⟨l[i], List.getElem_mem _, (termAt_succ l i (by omega)).symm⟩

theorem termAt_le_of_sorted {l : List AEntry} (hs : Sorted l) {i j : Nat} (h1 : 1 ≤ i) (hij : i ≤ j) (hj : j ≤ l.length) :
    termAt l i ≤ termAt l j := by
  cases i with
  | zero => omega
  | succ i =>
    cases j with
    | zero => omega
    | succ j =>
      rw [termAt_succ l i (by omega), termAt_succ l j (by omega)]
      by_cases hEq : i = j
      · subst hEq; exact Nat.le_refl _
      · exact (List.pairwise_iff_getElem.mp hs) i j (by omega) (by omega) (by omega)

theorem termAt_le_bound {l : List AEntry} {b : Nat} (h : ∀ e ∈ l, e.term ≤ b) (i : Nat) : termAt l i ≤ b := by
  by_cases h1 : 1 ≤ i ∧ i ≤ l.length
  · obtain ⟨e, he, het⟩ := termAt_mem h1.1 h1.2
    rw [← het]; exact h e he
  · by_cases h0 : i = 0
    · subst h0; simp [termAt_zero]
    · rw [termAt_beyond l i (by omega)]; exact Nat.zero_le _

theorem sorted_take {l : List AEntry} (hs : Sorted l) (k : Nat) : Sorted (l.take k) :=
  List.Pairwise.sublist (List.take_sublist k l) hs

theorem sorted_append_one {l : List AEntry} (hs : Sorted l) (e : AEntry) (h : ∀ x ∈ l, x.term ≤ e.term) : Sorted (l ++ [e]) := by
  unfold Sorted
  rw [List.pairwise_append]
  refine ⟨hs, by simp, ?_⟩
  intro a ha b hb
  simp only [List.mem_singleton] at hb
  subst hb; exact h a ha

/-- prefixes agree below a point where they agree -/
theorem take_eq_of_le {l1 l2 : List AEntry} {i k : Nat} (h : l1.take k = l2.take k) (hik : i ≤ k) : l1.take i = l2.take i := by
  have := congrArg (List.take i) h
  simpa [List.take_take, Nat.min_eq_left hik] using this

theorem length_of_take_eq {l1 l2 : List AEntry} {i : Nat} (h : l1.take i = l2.take i) (h2 : i ≤ l2.length) : i ≤ l1.length := by
  have := congrArg List.length h
  simp only [List.length_take] at this
  omega

theorem take_append_one_of_le {l : List AEntry} {e : AEntry} {i : Nat} (h : i ≤ l.length) : (l ++ [e]).take i = l.take i :=
  List.take_append_of_le_length h

theorem take_eq_of_prefix {p g : List AEntry} (h : p <+: g) : p = g.take p.length := List.prefix_iff_eq_take.mp h

theorem prefix_comparable {a b g : List AEntry} (ha : a <+: g) (hb : b <+: g) : a <+: b ∨ b <+: a := by
  by_cases h : a.length ≤ b.length
  · exact Or.inl (List.prefix_of_prefix_length_le ha hb h)
  · exact Or.inr (List.prefix_of_prefix_length_le hb ha (by omega))

/-- the higher of two sorted positions: a strictly larger term sits at a strictly larger index -/
theorem index_lt_of_term_lt {l : List AEntry} (hs : Sorted l) {i j : Nat} (h1 : 1 ≤ i) (hj1 : 1 ≤ j) (hj : j ≤ l.length)
    (hi : i ≤ l.length) (ht : termAt l i < termAt l j) : i < j := by
  by_cases h : i < j
  · exact h
  · have := termAt_le_of_sorted hs hj1 (by omega : j ≤ i) hi
    omega

/-! ### merge -/

theorem seg_cons {g : List AEntry} {pos : Nat} {e : AEntry} {es : List AEntry}
    (h : e :: es = (g.drop pos).take (es.length + 1)) : g[pos]? = some e ∧ es = (g.drop (pos + 1)).take es.length := by
  cases hd : g.drop pos with
  | nil => rw [hd] at h; simp at h
  | cons x xs =>
    rw [hd] at h
    simp only [List.take_succ_cons, List.cons.injEq] at h
    have hx : g[pos]? = some x := by
      have := congrArg (fun l => l[0]?) hd
      simpa [List.getElem?_drop] using this
    have hxs : g.drop (pos + 1) = xs := by
      have := congrArg List.tail hd
      simpa [List.tail_drop] using this
    exact ⟨by rw [hx, h.1], by rw [hxs]; exact h.2⟩

theorem take_add_seg (g : List AEntry) (pos len : Nat) : g.take pos ++ (g.drop pos).take len = g.take (pos + len) :=
  List.take_add.symm

/-- What `merge` returns when the request is a segment of a reference log `g` (the log of the
    leader that sent it), the node's log agrees with `g` below the segment, and matching terms
    mean matching prefixes (log matching). -/
theorem merge_spec (log g : List AEntry) :
    ∀ (es : List AEntry) (pos : Nat), pos ≤ log.length → log.take pos = g.take pos →
      es = (g.drop pos).take es.length →
      (∀ i, pos < i → i ≤ log.length → i ≤ pos + es.length → termAt log i = termAt g i → log.take i = g.take i) →
      (merge log pos es).take (pos + es.length) = g.take (pos + es.length) ∧
      (merge log pos es = log ∨ merge log pos es = g.take (pos + es.length)) ∧
      (pos + es.length ≤ log.length → log.take (pos + es.length) = g.take (pos + es.length) → merge log pos es = log) := by
  intro es
  induction es with
  | nil =>
    intro pos hpos hpre _ _
    simp only [merge, List.length_nil, Nat.add_zero]
    exact ⟨hpre, by simp, by simp⟩
  | cons e es ih =>
    intro pos hpos hpre hseg hmatch
    simp only [List.length_cons] at hseg hmatch ⊢
    obtain ⟨hge, hes⟩ := seg_cons hseg
    have hfull : g.take pos ++ (e :: es) = g.take (pos + (es.length + 1)) := by
      rw [hseg]; exact take_add_seg g pos _
    unfold merge
    cases hl : log[pos]? with
    | none =>
      have hlen : log.length = pos := by
        have := List.getElem?_eq_none_iff.mp hl; omega
      simp only
      have hlog : log = g.take pos := by rw [← hpre, List.take_of_length_le (by omega)]
      have hR : log ++ e :: es = g.take (pos + (es.length + 1)) := by rw [← hfull]; rw [← hlog]
      refine ⟨?_, Or.inr hR, ?_⟩
      · rw [hR, List.take_take, Nat.min_self]
      · intro h _; omega
    | some x =>
      simp only
      have hposlt : pos < log.length := by
        have := (List.getElem?_eq_some_iff.mp hl).1; exact this
      have hxt : termAt log (pos + 1) = x.term := by unfold termAt; simp [hl]
      have het : termAt g (pos + 1) = e.term := by unfold termAt; simp [hge]
      by_cases hxe : x.term = e.term
      · rw [if_pos hxe]
        have hpre' : log.take (pos + 1) = g.take (pos + 1) :=
          hmatch (pos + 1) (by omega) (by omega) (by omega) (by rw [hxt, het, hxe])
        have := ih (pos + 1) (by omega) hpre' hes
          (fun i h1 h2 h3 h4 => hmatch i (by omega) h2 (by omega) h4)
        have heq : pos + 1 + es.length = pos + (es.length + 1) := by omega
        rw [heq] at this
        exact this
      · rw [if_neg hxe]
        have hR : log.take pos ++ e :: es = g.take (pos + (es.length + 1)) := by rw [hpre]; exact hfull
        refine ⟨?_, Or.inr hR, ?_⟩
        · rw [hR, List.take_take, Nat.min_self]
        · intro h1 h2
          exfalso
          have := termAt_of_take_eq (take_eq_of_le h2 (by omega : pos + 1 ≤ pos + (es.length + 1)))
          rw [hxt, het] at this
          exact hxe this

end Repl
end Raft
