/-
  Proofs/ReplOrder.lean — real-time order of replicated operations (C03), on the
  replication-layer model.

  "Committed before invoked" is a fact about the state in which the later operation is appended:
  some position (i1, T1) of a leader log, of that leader's own term, is acknowledged by a quorum
  and covers the earlier operation's index. Proved: the later operation, appended by a leader of
  term T2, either gets an index beyond i1 (T2 >= T1: the same leader, or a later one, whose log
  holds everything committed), or (T2 < T1: a deposed leader that does not know it yet) lands on a
  position that is dead — no quorum will ever acknowledge it, in this state or any later one, so it
  never commits and its client is never told success.
-/
import RaftVerif.Proofs.ReplSafety
set_option linter.unusedSimpArgs false
set_option linter.unusedVariables false
namespace Raft
namespace Repl

/-- the state after `clientAppend` -/
def appendState (s : AState) (l payload : Nat) : AState := { s with
  nodes := setNode s l { s.nodes l with log := (s.nodes l).log ++ [⟨(s.nodes l).term, payload⟩] },
  glog := fun t => if t = (s.nodes l).term then some (l, (s.nodes l).log ++ [⟨(s.nodes l).term, payload⟩]) else s.glog t,
  acked := (l, (s.nodes l).log.length + 1, (s.nodes l).term) :: s.acked }

theorem appendState_step {cfg : Config} (s : AState) (l payload : Nat) (hl : (s.nodes l).role = .leader) :
    Step cfg s (appendState s l payload) := Step.clientAppend s l payload hl

/-- **An operation appended after another one committed comes later in the order, or never
    commits.** -/
theorem append_after_commit {cfg : Config} (hnd : cfg.voterIds.Nodup) {s : AState} (hr : Reachable cfg s)
    (l payload : Nat) (hl : (s.nodes l).role = .leader)
    (i1 T1 c1 : Nat) (g1 : List AEntry) (hg1 : s.glog T1 = some (c1, g1)) (h1 : 1 ≤ i1) (hi1 : i1 ≤ g1.length)
    (ht1 : termAt g1 i1 = T1) (hq : QuorumAcked cfg s i1 T1) :
    (T1 ≤ (s.nodes l).term → i1 < (s.nodes l).log.length + 1) ∧
    ((s.nodes l).term < T1 → Dead cfg (appendState s l payload) ((s.nodes l).log.length + 1) (s.nodes l).term) := by
  have hi := inv_reachable hnd hr
  have hlg := hi.leader_glog l hl
  constructor
  · intro hle
    by_cases heq : T1 = (s.nodes l).term
    · rw [heq, hlg] at hg1
      injection hg1 with h; injection h with _ h
      rw [← h] at hi1; omega
    · have hlt : T1 < (s.nodes l).term := by omega
      rcases hi.lc (s.nodes l).term l (s.nodes l).log T1 c1 g1 i1 hlg hg1 hlt h1 hi1 ht1 with h | h
      · have hlen := congrArg List.length h
        rw [List.length_take, List.length_take] at hlen
        omega
      · exact absurd h (not_dead_of_quorumAcked hnd hq)
  · intro hlt
    obtain ⟨Q, hQ, hvotes⟩ := hi.glog_votes T1 c1 g1 hg1
    refine ⟨T1, c1, g1, Q, hlt, ?_, hQ, ?_, ?_⟩
    · show (appendState s l payload).glog T1 = some (c1, g1)
      unfold appendState
      simp only
      rw [if_neg (by omega)]
      exact hg1
    · intro m hm
      show (T1, m, c1) ∈ (appendState s l payload).votes
      unfold appendState
      exact hvotes m hm
    · rintro m hm ⟨j, hj, hmem⟩
      unfold appendState at hmem
      simp only at hmem
      rcases List.mem_cons.mp hmem with heq | hold
      · -- the leader itself did not vote in the later term T1
        simp only [Prod.mk.injEq] at heq
        have := hi.votes_term T1 m c1 (hvotes m hm)
        rw [heq.1] at this
        omega
      · -- nobody acknowledged a position the leader's log did not reach yet
        obtain ⟨_, c, g, hg, hjg⟩ := hi.ack_ok m j (s.nodes l).term hold
        rw [hlg] at hg
        injection hg with h; injection h with _ h
        rw [← h] at hjg
        omega

/-- a dead position stays dead, and is never acknowledged by a quorum -/
theorem dead_forever {cfg : Config} (hnd : cfg.voterIds.Nodup) {s s' : AState} (hr : Reachable cfg s) (hfrom : ReachableFrom cfg s s')
    {i t : Nat} (hd : Dead cfg s i t) : Dead cfg s' i t ∧ ¬ QuorumAcked cfg s' i t := by
  have hd' : Dead cfg s' i t := by
    induction hfrom with
    | base => exact hd
    | step hab hs ih =>
      have hra := reachable_trans hr hab
      exact ih.mono (inv_reachable hnd hra) (step_ext hnd (inv_reachable hnd hra) hs)
  exact ⟨hd', fun hq => not_dead_of_quorumAcked hnd hq hd'⟩

end Repl
end Raft
