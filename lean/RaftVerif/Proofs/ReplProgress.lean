/-
  Proofs/ReplProgress.lean — no reachable state of the replication-layer model is a dead end.

  From EVERY reachable state (whatever crashes, partitions, lost, duplicated and reordered
  messages, competing candidates and half-finished replications led to it) there is a
  continuation — the one a fault-free period allows: one voter times out, the others grant,
  the winner replicates its log and commits — that ends in a state with a leader of a new
  term whose whole log, including an entry of the new term, is committed and held by every
  voter with the same commit index. This is the possibility half of C15 ("once faults stop:
  one leader, progress, everyone catches up"); that the real timers and the real network make
  the continuation happen within a bounded time is what the E4 fault-free periods check.
-/
import RaftVerif.Proofs.ReplSnapshot
set_option linter.unusedSimpArgs false
set_option linter.unusedVariables false
namespace Raft
namespace Repl

theorem ReachableFrom.trans {cfg : Config} {a b c : AState} (h1 : ReachableFrom cfg a b) (h2 : ReachableFrom cfg b c) :
    ReachableFrom cfg a c := by
  induction h2 with
  | base => exact h1
  | step _ hs ih => exact ReachableFrom.step ih hs

theorem ReachableFrom.one {cfg : Config} {a b : AState} (h : Step cfg a b) : ReachableFrom cfg a b :=
  ReachableFrom.step ReachableFrom.base h

/-! ### counting steps -/

/-- `s'` is reached from `s` in exactly `k` steps -/
inductive ReachableIn (cfg : Config) (s : AState) : Nat → AState → Prop
  | base : ReachableIn cfg s 0 s
  | step {k a b} : ReachableIn cfg s k a → Step cfg a b → ReachableIn cfg s (k + 1) b

theorem ReachableIn.trans {cfg : Config} {a b c : AState} {j k : Nat} (h1 : ReachableIn cfg a j b) (h2 : ReachableIn cfg b k c) :
    ReachableIn cfg a (j + k) c := by
  induction h2 with
  | base => exact h1
  | step _ hs ih => exact ReachableIn.step ih hs

theorem ReachableIn.one {cfg : Config} {a b : AState} (h : Step cfg a b) : ReachableIn cfg a 1 b :=
  ReachableIn.step ReachableIn.base h

theorem ReachableIn.cast {cfg : Config} {a b : AState} {j k : Nat} (h : ReachableIn cfg a j b) (e : j = k) : ReachableIn cfg a k b :=
  e ▸ h

theorem ReachableIn.toFrom {cfg : Config} {a b : AState} {k : Nat} (h : ReachableIn cfg a k b) : ReachableFrom cfg a b := by
  induction h with
  | base => exact ReachableFrom.base
  | step _ hs ih => exact ReachableFrom.step ih hs

/-! ### configuration -/

theorem voterIds_isVoter (cfg : Config) : ∀ v ∈ cfg.voterIds, cfg.isVoter v = true := by
  intro v hv
  unfold Config.voterIds at hv
  obtain ⟨m, hm, rfl⟩ := List.mem_map.mp hv
  obtain ⟨hm1, hm2⟩ := List.mem_filter.mp hm
  unfold Config.isVoter
  simp only [List.any_eq_true, Bool.and_eq_true, beq_iff_eq]
  exact ⟨m, hm1, rfl, hm2⟩

theorem isVoter_mem (cfg : Config) (v : Nat) (hv : cfg.isVoter v = true) : v ∈ cfg.voterIds := by
  unfold Config.isVoter at hv
  simp only [List.any_eq_true, Bool.and_eq_true, beq_iff_eq] at hv
  obtain ⟨m, hm, h1, h2⟩ := hv
  unfold Config.voterIds
  exact List.mem_map.mpr ⟨m, List.mem_filter.mpr ⟨hm, h2⟩, h1⟩

/-- all voters together are a quorum -/
theorem all_voters_quorum (cfg : Config) (hnd : cfg.voterIds.Nodup) (hne : cfg.voterIds ≠ []) : IsQuorum cfg cfg.voterIds := by
  refine ⟨hnd, voterIds_isVoter cfg, ?_⟩
  have hvl : cfg.voterIds.length = cfg.voters := by simp [Config.voterIds, Config.voters]
  have hpos : 0 < cfg.voterIds.length := List.length_pos_iff.mpr hne
  unfold Config.hasQuorum
  simp only [decide_eq_true_eq]
  omega

/-! ### choosing the candidate -/

theorem exists_bound (f : Nat → Nat) (vs : List Nat) : ∃ B, ∀ v ∈ vs, f v ≤ B := by
  induction vs with
  | nil => exact ⟨0, by simp⟩
  | cons v vs ih =>
    obtain ⟨B, hB⟩ := ih
    refine ⟨max B (f v), ?_⟩
    intro x hx
    rcases List.mem_cons.mp hx with rfl | h
    · omega
    · have := hB x h; omega

/-- among finitely many logs one is at least as up to date as all the others -/
theorem exists_most_upToDate (logs : Nat → List AEntry) (vs : List Nat) (hne : vs ≠ []) :
    ∃ c ∈ vs, ∀ m ∈ vs, lastTerm (logs c) > lastTerm (logs m) ∨
      (lastTerm (logs c) = lastTerm (logs m) ∧ (logs c).length ≥ (logs m).length) := by
  induction vs with
  | nil => exact absurd rfl hne
  | cons v vs ih =>
    by_cases hvs : vs = []
    · subst hvs
      refine ⟨v, List.mem_cons_self, ?_⟩
      intro m hm
      simp only [List.mem_cons, List.mem_nil_iff, or_false] at hm
      subst hm; right; exact ⟨rfl, Nat.le_refl _⟩
    · obtain ⟨c, hc, hmax⟩ := ih hvs
      by_cases hge : lastTerm (logs v) > lastTerm (logs c) ∨
          (lastTerm (logs v) = lastTerm (logs c) ∧ (logs v).length ≥ (logs c).length)
      · refine ⟨v, List.mem_cons_self, ?_⟩
        intro m hm
        rcases List.mem_cons.mp hm with rfl | h
        · right; exact ⟨rfl, Nat.le_refl _⟩
        · have := hmax m h; omega
      · refine ⟨c, List.mem_cons_of_mem _ hc, ?_⟩
        intro m hm
        rcases List.mem_cons.mp hm with rfl | h
        · omega
        · exact hmax m h

/-! ### the others grant -/

theorem grant_all {cfg : Config} (q : RVMsg) (T0 : Nat) (hq : T0 < q.term) :
    ∀ (ms : List Nat) (s : AState), ms.Nodup → q ∈ s.rvs →
      (∀ m ∈ ms, (s.nodes m).term ≤ T0) →
      (∀ m ∈ ms, upToDate q (s.nodes m).log) →
      (∀ m ∈ ms, ∀ c', (q.term, m, c') ∈ s.votes → c' = q.cand) →
      ∃ s', ReachableIn cfg s ms.length s' ∧
        (∀ m ∈ ms, (q.term, m, q.cand) ∈ s'.votes) ∧ (∀ x ∈ s.votes, x ∈ s'.votes) ∧
        (∀ j, j ∉ ms → s'.nodes j = s.nodes j) ∧
        (∀ m ∈ ms, (s'.nodes m).term = q.term ∧ (s'.nodes m).role = .follower ∧
          (s'.nodes m).log = (s.nodes m).log ∧ (s'.nodes m).commit = (s.nodes m).commit) ∧
        s'.glog = s.glog ∧ s'.acked = s.acked ∧ s'.aes = s.aes := by
  intro ms
  induction ms with
  | nil =>
    intro s _ _ _ _ _
    exact ⟨s, ReachableIn.base, by simp, fun x h => h, fun j _ => rfl, by simp, rfl, rfl, rfl⟩
  | cons m ms ih =>
    intro s hnd hqin hterm hup hvotes
    obtain ⟨hmn, hnd'⟩ := List.nodup_cons.mp hnd
    have htm := hterm m List.mem_cons_self
    have hstep := Step.grant (cfg := cfg) s m q hqin (by omega) (hvotes m List.mem_cons_self) (hup m List.mem_cons_self)
    -- the state after the grant
    obtain ⟨s2, hs2⟩ : ∃ s2 : AState, s2 = { s with
        nodes := setNode s m { s.nodes m with term := q.term,
                                              role := if (s.nodes m).term < q.term then .follower else (s.nodes m).role },
        votes := (q.term, m, q.cand) :: s.votes } := ⟨_, rfl⟩
    rw [← hs2] at hstep
    have hother : ∀ j, j ≠ m → s2.nodes j = s.nodes j := by
      intro j hj; rw [hs2]; simp [setNode, hj]
    have hself : s2.nodes m = { s.nodes m with term := q.term, role := .follower } := by
      rw [hs2]; simp only [setNode, if_true]
      rw [if_pos (by omega)]
    have hne : ∀ m' ∈ ms, m' ≠ m := fun m' h e => hmn (e ▸ h)
    obtain ⟨s', hreach, hv1, hv2, hfr, hnodes, hg, ha, hae⟩ := ih s2 hnd' (by rw [hs2]; exact hqin)
      (fun m' h => by rw [hother m' (hne m' h)]; exact hterm m' (List.mem_cons_of_mem _ h))
      (fun m' h => by rw [hother m' (hne m' h)]; exact hup m' (List.mem_cons_of_mem _ h))
      (fun m' h c' hc' => by
        rw [hs2] at hc'
        rcases List.mem_cons.mp hc' with heq | hold
        · simp only [Prod.mk.injEq] at heq; exact absurd heq.2.1 (hne m' h)
        · exact hvotes m' (List.mem_cons_of_mem _ h) c' hold)
    refine ⟨s', ((ReachableIn.one hstep).trans hreach).cast (by simp only [List.length_cons]; omega), ?_, ?_, ?_, ?_, ?_, ?_, ?_⟩
    · intro x hx
      rcases List.mem_cons.mp hx with rfl | h
      · exact hv2 _ (by rw [hs2]; exact List.mem_cons_self)
      · exact hv1 x h
    · intro x hx; exact hv2 x (by rw [hs2]; exact List.mem_cons_of_mem _ hx)
    · intro j hj
      have hj1 : j ≠ m := fun e => hj (e ▸ List.mem_cons_self)
      have hj2 : j ∉ ms := fun h => hj (List.mem_cons_of_mem _ h)
      rw [hfr j hj2, hother j hj1]
    · intro x hx
      rcases List.mem_cons.mp hx with rfl | h
      · rw [hfr x hmn, hself]; exact ⟨rfl, rfl, rfl, rfl⟩
      · have := hnodes x h
        rw [hother x (hne x h)] at this
        exact this
    · rw [hg, hs2]
    · rw [ha, hs2]
    · rw [hae, hs2]

/-! ### the leader replicates -/

/-- the leader builds a request from position `prev` with `k` entries, node `n` accepts it -/
theorem replicate_one {cfg : Config} (hnd : cfg.voterIds.Nodup) {s : AState} (hr : Reachable cfg s)
    (l n prev k : Nat) (hl : (s.nodes l).role = .leader) (hp : prev ≤ (s.nodes l).log.length) (hn : n ≠ l)
    (ht : (s.nodes n).term ≤ (s.nodes l).term) (hpn : prev ≤ (s.nodes n).log.length)
    (hpt : termAt (s.nodes n).log prev = termAt (s.nodes l).log prev) :
    ∃ s2, ReachableIn cfg s 2 s2 ∧
      s2.nodes n = { term := (s.nodes l).term, role := .follower,
                     log := merge (s.nodes n).log prev (((s.nodes l).log.drop prev).take k),
                     commit := max (s.nodes n).commit (min (s.nodes l).commit (prev + (((s.nodes l).log.drop prev).take k).length)) } ∧
      (∀ j, j ≠ n → s2.nodes j = s.nodes j) ∧ s2.glog = s.glog ∧ s2.votes = s.votes ∧
      s2.acked = (n, prev + (((s.nodes l).log.drop prev).take k).length, (s.nodes l).term) :: s.acked := by
  obtain ⟨m, hm⟩ : ∃ m : AEMsg, m = ⟨(s.nodes l).term, prev, termAt (s.nodes l).log prev, ((s.nodes l).log.drop prev).take k, (s.nodes l).commit, 0⟩ := ⟨_, rfl⟩
  obtain ⟨s1, hs1⟩ : ∃ s1 : AState, s1 = { s with aes := m :: s.aes } := ⟨_, rfl⟩
  have hstep1 : Step cfg s s1 := by
    rw [hs1, hm]; exact Step.sendAE s l prev k 0 hl hp
  have hn1 : s1.nodes = s.nodes := by rw [hs1]
  have hrole : (s1.nodes n).role ≠ .leader ∨ (s1.nodes n).term < m.term := by
    rw [hn1, hm]
    by_cases hrl : (s.nodes n).role = .leader
    · right
      show (s.nodes n).term < (s.nodes l).term
      by_cases heq : (s.nodes n).term = (s.nodes l).term
      · exact absurd (one_leader_per_term hnd hr n l hrl hl heq) hn
      · omega
    · left; exact hrl
  have hstep2 := Step.recvAEok (cfg := cfg) s1 n m (by rw [hs1]; exact List.mem_cons_self)
    (by rw [hn1, hm]; exact ht) hrole (by rw [hn1, hm]; exact hpn) (by rw [hn1, hm]; exact hpt)
  refine ⟨_, (ReachableIn.one hstep1).trans (ReachableIn.one hstep2), ?_, ?_, ?_, ?_, ?_⟩
  · simp only [setNode, if_true, hn1, hm]
  · intro j hj; simp only [setNode, if_neg hj, hn1]
  · rw [hs1]
  · rw [hs1]
  · simp only [hm, hs1]

/-- the new leader hands its whole log to the others, one after the other -/
theorem replicate_all {cfg : Config} (hnd : cfg.voterIds.Nodup) (l T : Nat) (g : List AEntry) (hg1 : 1 ≤ g.length)
    (hlt : lastTerm g = T) :
    ∀ (ms : List Nat) (s : AState), Reachable cfg s → ms.Nodup → l ∉ ms →
      (s.nodes l).role = .leader → (s.nodes l).log = g → (s.nodes l).term = T →
      (∀ m ∈ ms, (s.nodes m).term ≤ T) → (∀ m ∈ ms, ∀ e ∈ (s.nodes m).log, e.term < T) →
      ∃ s', ReachableIn cfg s (2 * ms.length) s' ∧
        (∀ m ∈ ms, (s'.nodes m).log = g ∧ (s'.nodes m).term = T ∧ (m, g.length, T) ∈ s'.acked) ∧
        (∀ j, j ∉ ms → s'.nodes j = s.nodes j) ∧ s'.glog = s.glog ∧ s'.votes = s.votes ∧
        (∀ x ∈ s.acked, x ∈ s'.acked) := by
  intro ms
  induction ms with
  | nil =>
    intro s _ _ _ _ _ _ _ _
    exact ⟨s, ReachableIn.base, by simp, fun j _ => rfl, rfl, rfl, fun x h => h⟩
  | cons m ms ih =>
    intro s hr hndm hlm hl hlog hterm hts hes
    obtain ⟨hmn, hnd'⟩ := List.nodup_cons.mp hndm
    have hml : m ≠ l := fun e => hlm (e ▸ List.mem_cons_self)
    have hlms : l ∉ ms := fun h => hlm (List.mem_cons_of_mem _ h)
    have hinv := inv_reachable hnd hr
    obtain ⟨s2, hreach, hnode, hother, hg2, hv2, ha2⟩ := replicate_one hnd hr l m 0 g.length hl (Nat.zero_le _) hml
      (by rw [hterm]; exact hts m List.mem_cons_self) (Nat.zero_le _) rfl
    have hr2 := reachable_trans hr hreach.toFrom
    -- what m holds now
    have hseg : ((s.nodes l).log.drop 0).take g.length = g := by rw [hlog]; simp
    have hmlog : (s2.nodes m).log = g := by
      rw [hnode]
      show merge (s.nodes m).log 0 (((s.nodes l).log.drop 0).take g.length) = g
      rw [hseg]
      have hgt : g.take g.length = g := List.take_length
      have := install_eq_merge (s.nodes m).log g g.length (Nat.le_refl _)
        (fun j hj1 hj2 hj3 hj4 => lm_agree hinv m T l g (by rw [← hterm, ← hlog]; exact hinv.leader_glog l hl) j hj1 hj2 hj3 hj4)
      rw [hgt] at this
      rw [this]
      unfold installLog
      rw [if_neg, hgt]
      rintro ⟨hle, hte⟩
      obtain ⟨e, he, het⟩ := termAt_mem (l := (s.nodes m).log) hg1 hle
      have hlt' : termAt g g.length = T := hlt
      have := hes m List.mem_cons_self e he
      omega
    have hmterm : (s2.nodes m).term = T := by rw [hnode]; exact hterm
    have hne : ∀ m' ∈ ms, m' ≠ m := fun m' h e => hmn (e ▸ h)
    obtain ⟨s', hreach', hall, hfr, hg', hv', ha'⟩ := ih s2 hr2 hnd' hlms
      (by rw [hother l (Ne.symm hml)]; exact hl) (by rw [hother l (Ne.symm hml)]; exact hlog)
      (by rw [hother l (Ne.symm hml)]; exact hterm)
      (fun m' h => by rw [hother m' (hne m' h)]; exact hts m' (List.mem_cons_of_mem _ h))
      (fun m' h => by rw [hother m' (hne m' h)]; exact hes m' (List.mem_cons_of_mem _ h))
    refine ⟨s', (hreach.trans hreach').cast (by simp only [List.length_cons]; omega), ?_, ?_, ?_, ?_, ?_⟩
    · intro x hx
      rcases List.mem_cons.mp hx with rfl | h
      · rw [hfr x hmn]
        refine ⟨hmlog, hmterm, ha' _ ?_⟩
        rw [ha2, hseg, hterm]; simp
      · exact hall x h
    · intro j hj
      have hj1 : j ≠ m := fun e => hj (e ▸ List.mem_cons_self)
      have hj2 : j ∉ ms := fun h => hj (List.mem_cons_of_mem _ h)
      rw [hfr j hj2, hother j hj1]
    · rw [hg', hg2]
    · rw [hv', hv2]
    · intro x hx; exact ha' x (by rw [ha2]; exact List.mem_cons_of_mem _ hx)

/-- a round of empty requests carries the commit index to the others -/
theorem heartbeat_all {cfg : Config} (hnd : cfg.voterIds.Nodup) (l T : Nat) (g : List AEntry) :
    ∀ (ms : List Nat) (s : AState), Reachable cfg s → ms.Nodup → l ∉ ms →
      (s.nodes l).role = .leader → (s.nodes l).log = g → (s.nodes l).term = T → (s.nodes l).commit = g.length →
      (∀ m ∈ ms, (s.nodes m).log = g ∧ (s.nodes m).term ≤ T) →
      ∃ s', ReachableIn cfg s (2 * ms.length) s' ∧
        (∀ m ∈ ms, (s'.nodes m).log = g ∧ (s'.nodes m).commit = g.length ∧ (s'.nodes m).term = T ∧ (s'.nodes m).role = .follower) ∧
        (∀ j, j ∉ ms → s'.nodes j = s.nodes j) := by
  intro ms
  induction ms with
  | nil =>
    intro s _ _ _ _ _ _ _ _
    exact ⟨s, ReachableIn.base, by simp, fun j _ => rfl⟩
  | cons m ms ih =>
    intro s hr hndm hlm hl hlog hterm hcom hms
    obtain ⟨hmn, hnd'⟩ := List.nodup_cons.mp hndm
    have hml : m ≠ l := fun e => hlm (e ▸ List.mem_cons_self)
    have hlms : l ∉ ms := fun h => hlm (List.mem_cons_of_mem _ h)
    have hinv := inv_reachable hnd hr
    obtain ⟨hmlog, hmterm⟩ := hms m List.mem_cons_self
    obtain ⟨s2, hreach, hnode, hother, _, _, _⟩ := replicate_one hnd hr l m g.length 0 hl (by rw [hlog]; exact Nat.le_refl _) hml
      (by rw [hterm]; exact hmterm) (by rw [hmlog]; exact Nat.le_refl _) (by rw [hmlog, hlog])
    have hr2 := reachable_trans hr hreach.toFrom
    have hmc : (s.nodes m).commit ≤ g.length := by have := (hinv.commit_ok m).1; rw [hmlog] at this; exact this
    have hnode' : s2.nodes m = { term := T, role := .follower, log := g, commit := g.length } := by
      rw [hnode, hterm, hmlog, hcom]
      simp only [List.take_zero, merge, List.length_nil, Nat.add_zero, Nat.min_self]
      congr 1
      omega
    have hne : ∀ m' ∈ ms, m' ≠ m := fun m' h e => hmn (e ▸ h)
    obtain ⟨s', hreach', hall, hfr⟩ := ih s2 hr2 hnd' hlms
      (by rw [hother l (Ne.symm hml)]; exact hl) (by rw [hother l (Ne.symm hml)]; exact hlog)
      (by rw [hother l (Ne.symm hml)]; exact hterm) (by rw [hother l (Ne.symm hml)]; exact hcom)
      (fun m' h => by rw [hother m' (hne m' h)]; exact hms m' (List.mem_cons_of_mem _ h))
    refine ⟨s', (hreach.trans hreach').cast (by simp only [List.length_cons]; omega), ?_, ?_⟩
    · intro x hx
      rcases List.mem_cons.mp hx with rfl | h
      · rw [hfr x hmn, hnode']; exact ⟨rfl, rfl, rfl, rfl⟩
      · exact hall x h
    · intro j hj
      have hj1 : j ≠ m := fun e => hj (e ▸ List.mem_cons_self)
      have hj2 : j ∉ ms := fun h => hj (List.mem_cons_of_mem _ h)
      rw [hfr j hj2, hother j hj1]

/-! ### the theorem -/

/-- **No reachable state is a dead end.** From every reachable state there is a continuation
    that ends with a leader `l` (a voter) of a term `T` above every term any voter had, whose log
    is its old log plus one entry of term `T`, entirely committed, and every voter holds
    exactly that log, with the same commit index and term. -/
theorem progress_possible_in {cfg : Config} (hnd : cfg.voterIds.Nodup) (hne : cfg.voterIds ≠ []) {s : AState}
    (hr : Reachable cfg s) :
    ∃ s' l T k, k ≤ 5 * cfg.voterIds.length + 4 ∧ ReachableIn cfg s k s' ∧ cfg.isVoter l = true ∧ (s'.nodes l).role = .leader ∧ (s'.nodes l).term = T ∧
      (∀ v, cfg.isVoter v = true → (s.nodes v).term < T) ∧
      (s'.nodes l).log = (s.nodes l).log ++ [⟨T, 0⟩] ∧
      (∀ v, cfg.isVoter v = true → (s'.nodes v).log = (s'.nodes l).log ∧
        (s'.nodes v).commit = (s'.nodes l).log.length ∧ (s'.nodes v).term = T) := by
  have hinv := inv_reachable hnd hr
  obtain ⟨c, hc, hmax⟩ := exists_most_upToDate (fun v => (s.nodes v).log) cfg.voterIds hne
  obtain ⟨T0, hT0⟩ := exists_bound (fun v => (s.nodes v).term) cfg.voterIds
  have hQ := all_voters_quorum cfg hnd hne
  -- 1. c learns of a term above all, 2. times out
  obtain ⟨sA, hsA⟩ : ∃ sA : AState, sA = { s with nodes := setNode s c { s.nodes c with term := T0 + 1, role := .follower } } := ⟨_, rfl⟩
  have hstepA : Step cfg s sA := by
    rw [hsA]; exact Step.higherTerm s c (T0 + 1) (by have := hT0 c hc; omega)
  have hAc : sA.nodes c = { s.nodes c with term := T0 + 1, role := .follower } := by rw [hsA]; simp [setNode]
  have hAo : ∀ j, j ≠ c → sA.nodes j = s.nodes j := by intro j hj; rw [hsA]; simp [setNode, hj]
  obtain ⟨q, hq⟩ : ∃ q : RVMsg, q = ⟨T0 + 2, c, (s.nodes c).log.length, lastTerm (s.nodes c).log⟩ := ⟨_, rfl⟩
  obtain ⟨sB, hsB⟩ : ∃ sB : AState, sB = { sA with
      nodes := setNode sA c { sA.nodes c with term := (sA.nodes c).term + 1, role := .candidate },
      votes := ((sA.nodes c).term + 1, c, c) :: sA.votes,
      rvs := ⟨(sA.nodes c).term + 1, c, (sA.nodes c).log.length, lastTerm (sA.nodes c).log⟩ :: sA.rvs } := ⟨_, rfl⟩
  have hstepB : Step cfg sA sB := by
    rw [hsB]; exact Step.timeout sA c (by rw [hAc]; simp)
  have hBc : sB.nodes c = { s.nodes c with term := T0 + 2, role := .candidate } := by
    rw [hsB]; simp only [setNode, if_true, hAc]
  have hBo : ∀ j, j ≠ c → sB.nodes j = s.nodes j := by
    intro j hj; rw [hsB]; simp only [setNode, if_neg hj]; exact hAo j hj
  have hBvotes : sB.votes = (T0 + 2, c, c) :: s.votes := by rw [hsB, hAc, hsA]
  have hBq : q ∈ sB.rvs := by rw [hsB, hAc, hq]; exact List.mem_cons_self
  have hBg : sB.glog = s.glog := by rw [hsB, hsA]
  have hBa : sB.acked = s.acked := by rw [hsB, hsA]
  -- 3. the other voters grant
  obtain ⟨ms, hms⟩ : ∃ ms, ms = cfg.voterIds.filter (fun v => decide (v ≠ c)) := ⟨_, rfl⟩
  have hmsnd : ms.Nodup := by rw [hms]; exact hnd.filter _
  have hmsmem : ∀ m, m ∈ ms ↔ (m ∈ cfg.voterIds ∧ m ≠ c) := by
    intro m; rw [hms]; simp [List.mem_filter]
  have hcms : c ∉ ms := fun h => ((hmsmem c).mp h).2 rfl
  have hqt : q.term = T0 + 2 := by rw [hq]
  have hqc : q.cand = c := by rw [hq]
  obtain ⟨sC, hreachC, hCv1, hCv2, hCfr, hCn, hCg, hCa, _⟩ := grant_all (cfg := cfg) q T0 (by rw [hqt]; omega) ms sB hmsnd hBq
    (fun m h => by
      obtain ⟨h1, h2⟩ := (hmsmem m).mp h
      rw [hBo m h2]; exact hT0 m h1)
    (fun m h => by
      obtain ⟨h1, h2⟩ := (hmsmem m).mp h
      rw [hBo m h2]
      have := hmax m h1
      unfold upToDate; rw [hq]; simp only at this ⊢; omega)
    (fun m h c' hc' => by
      obtain ⟨h1, h2⟩ := (hmsmem m).mp h
      rw [hBvotes, hqt] at hc'
      rcases List.mem_cons.mp hc' with heq | hold
      · simp only [Prod.mk.injEq] at heq; exact absurd heq.2.1 h2
      · have h3 := hinv.votes_term _ _ _ hold
        have h4 := hT0 m h1
        omega)
  have hCc : sC.nodes c = { s.nodes c with term := T0 + 2, role := .candidate } := by rw [hCfr c hcms, hBc]
  -- 4. c becomes leader
  have hvotesQ : ∀ m ∈ cfg.voterIds, ((sC.nodes c).term, m, c) ∈ sC.votes := by
    intro m hm
    rw [hCc]
    by_cases hmc : m = c
    · subst hmc; exact hCv2 _ (by rw [hBvotes]; exact List.mem_cons_self)
    · have := hCv1 m ((hmsmem m).mpr ⟨hm, hmc⟩)
      rw [hqt, hqc] at this; exact this
  obtain ⟨g, hg⟩ : ∃ g, g = (s.nodes c).log ++ [(⟨T0 + 2, 0⟩ : AEntry)] := ⟨_, rfl⟩
  obtain ⟨sD, hsD⟩ : ∃ sD : AState, sD = { sC with
      nodes := setNode sC c { sC.nodes c with role := .leader, log := (sC.nodes c).log ++ [⟨(sC.nodes c).term, 0⟩] },
      glog := fun t => if t = (sC.nodes c).term then some (c, (sC.nodes c).log ++ [⟨(sC.nodes c).term, 0⟩]) else sC.glog t,
      acked := (c, (sC.nodes c).log.length + 1, (sC.nodes c).term) :: sC.acked } := ⟨_, rfl⟩
  have hstepD : Step cfg sC sD := by
    rw [hsD]; exact Step.becomeLeader sC c cfg.voterIds (by rw [hCc]) hQ hvotesQ
  have hDc : sD.nodes c = { term := T0 + 2, role := .leader, log := g, commit := (s.nodes c).commit } := by
    rw [hsD]; simp only [setNode, if_true, hCc, hg]
  have hDo : ∀ j, j ≠ c → sD.nodes j = sC.nodes j := by intro j hj; rw [hsD]; simp [setNode, hj]
  have hDack : (c, g.length, T0 + 2) ∈ sD.acked := by
    rw [hsD, hCc, hg]; simp
  have hglen : g.length = (s.nodes c).log.length + 1 := by rw [hg]; simp
  have hglast : lastTerm g = T0 + 2 := by rw [hg]; exact lastTerm_append _ _
  have hreachD : ReachableIn cfg s (1 + 1 + ms.length + 1) sD :=
    (((ReachableIn.one hstepA).trans (ReachableIn.one hstepB)).trans hreachC).trans (ReachableIn.one hstepD)
  have hrD := reachable_trans hr hreachD.toFrom
  -- 5. it replicates its log
  have hDm : ∀ m ∈ ms, (sD.nodes m).term = T0 + 2 ∧ (sD.nodes m).log = (s.nodes m).log := by
    intro m h
    obtain ⟨h1, h2⟩ := (hmsmem m).mp h
    rw [hDo m h2]
    obtain ⟨a1, _, a3, _⟩ := hCn m h
    rw [hBo m h2] at a3
    exact ⟨by rw [a1, hqt], a3⟩
  obtain ⟨sE, hreachE, hEall, hEfr, _, _, hEa⟩ := replicate_all hnd c (T0 + 2) g (by omega) hglast ms sD hrD hmsnd hcms
    (by rw [hDc]) (by rw [hDc]) (by rw [hDc])
    (fun m h => by rw [(hDm m h).1]; exact Nat.le_refl _)
    (fun m h e he => by
      obtain ⟨h1, h2⟩ := (hmsmem m).mp h
      rw [(hDm m h).2] at he
      have h3 := (hinv.log_shape m).1 e he
      have h4 := hT0 m h1
      omega)
  have hEc : sE.nodes c = sD.nodes c := hEfr c hcms
  have hrE := reachable_trans hrD hreachE.toFrom
  -- 6. it commits
  obtain ⟨sF, hsF⟩ : ∃ sF : AState, sF = { sE with nodes := setNode sE c { sE.nodes c with commit := max (sE.nodes c).commit g.length } } := ⟨_, rfl⟩
  have hstepF : Step cfg sE sF := by
    rw [hsF]
    refine Step.advanceCommit sE c g.length cfg.voterIds (by rw [hEc, hDc]) (by rw [hEc, hDc]; exact Nat.le_refl _)
      (by rw [hEc, hDc]; exact hglast) hQ ?_
    intro m hm
    rw [hEc, hDc]
    by_cases hmc : m = c
    · subst hmc; exact ⟨g.length, Nat.le_refl _, hEa _ hDack⟩
    · exact ⟨g.length, Nat.le_refl _, (hEall m ((hmsmem m).mpr ⟨hm, hmc⟩)).2.2⟩
  have hcc : (s.nodes c).commit ≤ (s.nodes c).log.length := (hinv.commit_ok c).1
  have hFc : sF.nodes c = { term := T0 + 2, role := .leader, log := g, commit := g.length } := by
    rw [hsF]; simp only [setNode, if_true, hEc, hDc]
    congr 1; omega
  have hFo : ∀ j, j ≠ c → sF.nodes j = sE.nodes j := by intro j hj; rw [hsF]; simp [setNode, hj]
  have hrF := Reachable.step hrE hstepF
  -- 7. a round of empty requests carries the commit index
  obtain ⟨sG, hreachG, hGall, hGfr⟩ := heartbeat_all hnd c (T0 + 2) g ms sF hrF hmsnd hcms
    (by rw [hFc]) (by rw [hFc]) (by rw [hFc]) (by rw [hFc])
    (fun m h => by
      obtain ⟨h1, h2⟩ := (hmsmem m).mp h
      rw [hFo m h2]
      exact ⟨(hEall m h).1, by rw [(hEall m h).2.1]; exact Nat.le_refl _⟩)
  have hGc : sG.nodes c = { term := T0 + 2, role := .leader, log := g, commit := g.length } := by rw [hGfr c hcms, hFc]
  have hmslen : ms.length ≤ cfg.voterIds.length := by rw [hms]; exact List.length_filter_le _ _
  refine ⟨sG, c, T0 + 2, _, by omega, ((hreachD.trans hreachE).trans (ReachableIn.one hstepF)).trans hreachG,
    voterIds_isVoter cfg c hc, by rw [hGc], by rw [hGc], ?_, by rw [hGc, hg], ?_⟩
  · intro v hv
    have := hT0 v (isVoter_mem cfg v hv)
    omega
  · intro v hv
    have hvm := isVoter_mem cfg v hv
    by_cases hvc : v = c
    · subst hvc; rw [hGc]; exact ⟨rfl, rfl, rfl⟩
    · obtain ⟨a1, a2, a3, _⟩ := hGall v ((hmsmem v).mpr ⟨hvm, hvc⟩)
      rw [hGc]; exact ⟨a1, a2, a3⟩

/-- the same without the count (the form the property files use) -/
theorem progress_possible {cfg : Config} (hnd : cfg.voterIds.Nodup) (hne : cfg.voterIds ≠ []) {s : AState}
    (hr : Reachable cfg s) :
    ∃ s' l T, ReachableFrom cfg s s' ∧ cfg.isVoter l = true ∧ (s'.nodes l).role = .leader ∧ (s'.nodes l).term = T ∧
      (∀ v, cfg.isVoter v = true → (s.nodes v).term < T) ∧
      (s'.nodes l).log = (s.nodes l).log ++ [⟨T, 0⟩] ∧
      (∀ v, cfg.isVoter v = true → (s'.nodes v).log = (s'.nodes l).log ∧
        (s'.nodes v).commit = (s'.nodes l).log.length ∧ (s'.nodes v).term = T) := by
  obtain ⟨s', l, T, k, _, hk, rest⟩ := progress_possible_in hnd hne hr
  exact ⟨s', l, T, hk.toFrom, rest⟩

end Repl
end Raft
