/-
  Proofs/ReplRead.lean — linearizable reads are never stale (C05), on the timed
  replication-layer model (Model/ReplRead.lean).

  `linearizable_read`: in every reachable state, if the guard `CanServe` holds for a registered
  read, then every commit a leader made (i.e. every operation acknowledged to a client) *before
  the read was registered* is inside the prefix the read is answered from. No assumption on
  timing, on clocks, or on who else believes to be leader.
-/
import RaftVerif.Model.ReplRead
import RaftVerif.Proofs.ReplSafety
set_option linter.unusedSimpArgs false
set_option linter.unusedVariables false
namespace Raft
namespace Repl

/-- what a step may do to the nodes, as far as the time invariants care -/
structure NodeRel (s s' : AState) : Prop where
  /-- a node that is leader afterwards and was leader of the same term before kept its log as a prefix and its commit index -/
  stay : ∀ j, (s'.nodes j).role = .leader → (s.nodes j).role = .leader → (s'.nodes j).term = (s.nodes j).term →
    (s.nodes j).log <+: (s'.nodes j).log ∧ (s.nodes j).commit ≤ (s'.nodes j).commit
  /-- terms never decrease -/
  term_mono : ∀ j, (s.nodes j).term ≤ (s'.nodes j).term

structure RInv (cfg : Config) (r : RState) : Prop where
  base : Inv cfg r.s
  vote_time : ∀ T m c τ, (T, m, c, τ) ∈ r.voteAt → τ < r.now ∧ (T, m, c) ∈ r.s.votes
  vote_has_time : ∀ T m c, (T, m, c) ∈ r.s.votes → ∃ τ, (T, m, c, τ) ∈ r.voteAt
  elect_ok : ∀ T c τe, (T, c, τe) ∈ r.electAt → τe < r.now ∧ (∃ g, r.s.glog T = some (c, g)) ∧
    ∃ Q, IsQuorum cfg Q ∧ ∀ m ∈ Q, ∃ τv, τv < τe ∧ (T, m, c, τv) ∈ r.voteAt
  glog_elect : ∀ T c g, r.s.glog T = some (c, g) → ∃ τe, (T, c, τe) ∈ r.electAt
  msg_stamp : ∀ m ∈ r.s.aes, m.stamp < r.now
  hb_ok : ∀ m T st τa, (m, T, st, τa) ∈ r.hbAck → τa < r.now ∧ st < τa ∧
    ∀ T' c τv, (T', m, c, τv) ∈ r.voteAt → τv < τa → T' ≤ T
  commit_ok : ∀ e ∈ r.commitAt, e.time < r.now ∧ (∃ τe, τe ≤ e.time ∧ (e.term, e.leader, τe) ∈ r.electAt) ∧
    e.pre.length = e.index ∧ IsCommitted cfg r.s e.term e.pre ∧
    (∃ g, r.s.glog e.term = some (e.leader, g) ∧ e.pre <+: g) ∧
    ((r.s.nodes e.leader).role = .leader → (r.s.nodes e.leader).term = e.term → e.index ≤ (r.s.nodes e.leader).commit)
  read_ok : ∀ rd ∈ r.reads, rd.time < r.now ∧ (∃ g, r.s.glog rd.term = some (rd.leader, g)) ∧
    ((r.s.nodes rd.leader).role = .leader → (r.s.nodes rd.leader).term = rd.term →
      ∀ e ∈ r.commitAt, e.time < rd.time → e.term ≤ rd.term →
        e.index ≤ rd.readIndex ∧ e.pre <+: (r.s.nodes rd.leader).log)

theorem rinv_init (cfg : Config) : RInv cfg rinit := by
  refine { base := inv_init cfg, vote_time := ?_, vote_has_time := ?_, elect_ok := ?_, glog_elect := ?_, msg_stamp := ?_,
           hb_ok := ?_, commit_ok := ?_, read_ok := ?_ } <;> simp [rinit, init]

/-- entries of a committed prefix have terms at most the bound -/
theorem committed_terms {cfg : Config} {s : AState} (hi : Inv cfg s) {b : Nat} {P : List AEntry} (h : IsCommitted cfg s b P) :
    ∀ x ∈ P, x.term ≤ b := by
  rcases h with h0 | ⟨i, t, c, g, htb, hg, _, _, _, _, hp⟩
  · rw [h0]; simp
  · intro x hx
    have hxg : x ∈ g := List.mem_of_mem_take (hp.subset hx)
    exact Nat.le_trans ((hi.glog_shape t c g hg).1 x hxg) htb

/-- a committed prefix with a bound below `T` is a prefix of the leader log of `T` -/
theorem committed_prefix_of_later {cfg : Config} (hnd : cfg.voterIds.Nodup) {s : AState} (hi : Inv cfg s) {b : Nat} {P : List AEntry}
    (h : IsCommitted cfg s b P) (T c : Nat) (gT : List AEntry) (hT : s.glog T = some (c, gT)) (hlt : b < T) : P <+: gT := by
  rcases h with h0 | ⟨i, t, c1, g, htb, hg, h1, hig, hti, hq, hp⟩
  · rw [h0]; exact List.nil_prefix
  · rcases hi.lc T c gT t c1 g i hT hg (by omega) h1 hig hti with h | h
    · rw [← h] at hp; exact hp.trans (List.take_prefix _ _)
    · exact absurd h (not_dead_of_quorumAcked hnd hq)

/-- The frame: how the time invariants move along one step, given what the step adds to the
    ghost history. All additions carry the current time. -/
theorem rinv_frame {cfg : Config} (hnd : cfg.voterIds.Nodup) {r : RState} (hr : RInv cfg r) (d : Nat) (s' : AState)
    (hi' : Inv cfg s') (hext : Ext r.s s') (hrel : NodeRel r.s s')
    (newV : List (Nat × Nat × Nat × Nat)) (newE : List (Nat × Nat × Nat)) (newH : List (Nat × Nat × Nat × Nat))
    (newC : List CommitEv) (newR : List Read)
    -- votes: exactly the old ones and the timed new ones
    (hV1 : ∀ T m c τ, (T, m, c, τ) ∈ newV → τ = r.now ∧ (T, m, c) ∈ s'.votes)
    (hV2 : ∀ T m c, (T, m, c) ∈ s'.votes → (T, m, c) ∈ r.s.votes ∨ (T, m, c, r.now) ∈ newV)
    -- elections
    (hE1 : ∀ T c τe, (T, c, τe) ∈ newE → τe = r.now ∧ (∃ g, s'.glog T = some (c, g)) ∧
      ∃ Q, IsQuorum cfg Q ∧ ∀ m ∈ Q, (T, m, c) ∈ r.s.votes)
    (hE2 : ∀ T c g, s'.glog T = some (c, g) → (∃ g0, r.s.glog T = some (c, g0)) ∨ (T, c, r.now) ∈ newE)
    -- messages
    (hM : ∀ m ∈ s'.aes, m ∈ r.s.aes ∨ m.stamp = r.now)
    -- answers to replication requests
    (hH : ∀ m T st τa, (m, T, st, τa) ∈ newH → τa = r.now ∧ st < r.now ∧ (r.s.nodes m).term ≤ T ∧ newV = [])
    -- commits
    (hC : ∀ e ∈ newC, e.time = r.now ∧ (∃ g, r.s.glog e.term = some (e.leader, g) ∧ e.pre <+: g ∧ s'.glog e.term = some (e.leader, g)) ∧
      e.pre.length = e.index ∧ IsCommitted cfg s' e.term e.pre ∧ e.index ≤ (s'.nodes e.leader).commit)
    -- a node that is leader afterwards was leader of the same term before, or was just elected
    (hL : ∀ j, (s'.nodes j).role = .leader → ((r.s.nodes j).role = .leader ∧ (s'.nodes j).term = (r.s.nodes j).term) ∨
      (((s'.nodes j).term, j, r.now) ∈ newE ∧ r.s.glog (s'.nodes j).term = none))
    -- reads
    (hR : ∀ rd ∈ newR, rd.time = r.now ∧ (r.s.nodes rd.leader).role = .leader ∧ rd.term = (r.s.nodes rd.leader).term ∧
      rd.readIndex = readIndexOf (r.s.nodes rd.leader) ∧ s' = r.s) :
    RInv cfg { r with s := s', now := r.now + 1 + d, voteAt := newV ++ r.voteAt, electAt := newE ++ r.electAt,
                      hbAck := newH ++ r.hbAck, commitAt := newC ++ r.commitAt, reads := newR ++ r.reads } := by
  have hi := hr.base
  have hglogKeep : ∀ T c g, r.s.glog T = some (c, g) → ∃ g', s'.glog T = some (c, g') ∧ g <+: g' := hext.glog
  refine { base := hi', vote_time := ?_, vote_has_time := ?_, elect_ok := ?_, glog_elect := ?_, msg_stamp := ?_,
           hb_ok := ?_, commit_ok := ?_, read_ok := ?_ }
  · -- vote_time
    intro T m c τ h
    rcases List.mem_append.mp h with hn | ho
    · obtain ⟨h1, h2⟩ := hV1 T m c τ hn
      exact ⟨by show τ < r.now + 1 + d; omega, h2⟩
    · obtain ⟨h1, h2⟩ := hr.vote_time T m c τ ho
      exact ⟨by show τ < r.now + 1 + d; omega, hext.votes _ h2⟩
  · -- vote_has_time
    intro T m c h
    rcases hV2 T m c h with ho | hn
    · obtain ⟨τ, hτ⟩ := hr.vote_has_time T m c ho
      exact ⟨τ, List.mem_append_right _ hτ⟩
    · exact ⟨r.now, List.mem_append_left _ hn⟩
  · -- elect_ok
    intro T c τe h
    rcases List.mem_append.mp h with hn | ho
    · obtain ⟨h1, h2, Q, hQ, hv⟩ := hE1 T c τe hn
      refine ⟨by show τe < r.now + 1 + d; omega, h2, Q, hQ, ?_⟩
      intro m hm
      obtain ⟨τv, hτv⟩ := hr.vote_has_time T m c (hv m hm)
      exact ⟨τv, by rw [h1]; exact (hr.vote_time T m c τv hτv).1, List.mem_append_right _ hτv⟩
    · obtain ⟨h1, ⟨g, hg⟩, Q, hQ, hv⟩ := hr.elect_ok T c τe ho
      obtain ⟨g', hg', _⟩ := hglogKeep T c g hg
      refine ⟨by show τe < r.now + 1 + d; omega, ⟨g', hg'⟩, Q, hQ, ?_⟩
      intro m hm
      obtain ⟨τv, h2, h3⟩ := hv m hm
      exact ⟨τv, h2, List.mem_append_right _ h3⟩
  · -- glog_elect
    intro T c g h
    rcases hE2 T c g h with ⟨g0, hg0⟩ | hn
    · obtain ⟨τe, hτe⟩ := hr.glog_elect T c g0 hg0
      exact ⟨τe, List.mem_append_right _ hτe⟩
    · exact ⟨r.now, List.mem_append_left _ hn⟩
  · -- msg_stamp
    intro m hm
    rcases hM m hm with ho | hn
    · have := hr.msg_stamp m ho; show m.stamp < r.now + 1 + d; omega
    · show m.stamp < r.now + 1 + d; omega
  · -- hb_ok
    intro m T st τa h
    rcases List.mem_append.mp h with hn | ho
    · obtain ⟨h1, h2, h3, h4⟩ := hH m T st τa hn
      refine ⟨by show τa < r.now + 1 + d; omega, by omega, ?_⟩
      intro T' c τv hv hlt
      rw [h4] at hv
      simp only [List.nil_append] at hv
      obtain ⟨_, hvote⟩ := hr.vote_time T' m c τv hv
      exact Nat.le_trans (hi.votes_term T' m c hvote) h3
    · obtain ⟨h1, h2, h3⟩ := hr.hb_ok m T st τa ho
      refine ⟨by show τa < r.now + 1 + d; omega, h2, ?_⟩
      intro T' c τv hv hlt
      rcases List.mem_append.mp hv with hvn | hvo
      · have := (hV1 T' m c τv hvn).1; omega
      · exact h3 T' c τv hvo hlt
  · -- commit_ok
    intro e he
    rcases List.mem_append.mp he with hn | ho
    · obtain ⟨h1, ⟨g, hg, hpre, hg'⟩, h3, h4, h5⟩ := hC e hn
      obtain ⟨τe, hτe⟩ := hr.glog_elect e.term e.leader g hg
      have hτlt := (hr.elect_ok e.term e.leader τe hτe).1
      exact ⟨by show e.time < r.now + 1 + d; omega, ⟨τe, by omega, List.mem_append_right _ hτe⟩, h3, h4, ⟨g, hg', hpre⟩, fun _ _ => h5⟩
    · obtain ⟨h1, ⟨τe, hτe1, hτe2⟩, h3, h4, ⟨g, hg, hpre⟩, h6⟩ := hr.commit_ok e ho
      obtain ⟨g', hg', hpp⟩ := hglogKeep _ _ g hg
      refine ⟨by show e.time < r.now + 1 + d; omega, ⟨τe, hτe1, List.mem_append_right _ hτe2⟩, h3, h4.mono hext (Nat.le_refl _), ⟨g', hg', hpre.trans hpp⟩, ?_⟩
      intro hl ht
      rcases hL e.leader hl with ⟨hl0, ht0⟩ | ⟨_, hnone⟩
      · have := h6 hl0 (by rw [← ht0]; exact ht)
        exact Nat.le_trans this (hrel.stay e.leader hl hl0 ht0).2
      · rw [ht, hg] at hnone; simp at hnone
  · -- read_ok
    intro rd hrd
    rcases List.mem_append.mp hrd with hn | ho
    · obtain ⟨h1, hl, ht, hri, hs⟩ := hR rd hn
      subst hs
      have hg := hi.leader_glog rd.leader hl
      rw [← ht] at hg
      refine ⟨by show rd.time < r.now + 1 + d; omega, ⟨_, hg⟩, ?_⟩
      intro _ _ e he hlt hle
      -- new commit events carry the current time: only old ones are earlier
      have heo : e ∈ r.commitAt := by
        rcases List.mem_append.mp he with hen | heo
        · have := (hC e hen).1; omega
        · exact heo
      obtain ⟨_, _, hlen, hcom, ⟨g, hge, hpre⟩, hcl⟩ := hr.commit_ok e heo
      have hcl1 := (hi.commit_ok rd.leader).1
      by_cases hEq : e.term = rd.term
      · -- committed by this very leader
        have hsame : e.leader = rd.leader ∧ g = (r.s.nodes rd.leader).log := by
          rw [hEq, hg] at hge; injection hge with h; injection h with h1 h2; exact ⟨h1.symm, h2.symm⟩
        have hidx := hcl (by rw [hsame.1]; exact hl) (by rw [hsame.1, ← ht]; exact hEq.symm)
        rw [hsame.1] at hidx
        refine ⟨?_, by rw [← hsame.2]; exact hpre⟩
        rw [hri]; unfold readIndexOf; split <;> omega
      · have hlt' : e.term < rd.term := by omega
        have hp : e.pre <+: (r.s.nodes rd.leader).log := committed_prefix_of_later hnd hi hcom rd.term rd.leader _ hg hlt'
        refine ⟨?_, hp⟩
        rw [hri, ← hlen]; unfold readIndexOf
        split
        · rename_i hct
          -- an entry of the leader's term sits at its commit index: the older prefix ends before it
          by_cases hle' : e.pre.length ≤ (r.s.nodes rd.leader).commit
          · exact hle'
          · exfalso
            have hc1 : 1 ≤ (r.s.nodes rd.leader).commit := by
              by_cases h0 : (r.s.nodes rd.leader).commit = 0
              · rw [h0] at hct; simp [termAt] at hct
                have := hi.role_pos rd.leader (by rw [hl]; simp); omega
              · omega
            obtain ⟨x, hx, hxt⟩ := termAt_mem (l := e.pre) hc1 (by omega)
            have hxb := committed_terms hi hcom x hx
            have : termAt e.pre (r.s.nodes rd.leader).commit = termAt (r.s.nodes rd.leader).log (r.s.nodes rd.leader).commit := by
              obtain ⟨rest, hrest⟩ := hp
              rw [← hrest, termAt_append_left (by omega)]
            rw [hxt, this, hct, ← ht] at hxb
            omega
        · exact hp.length_le
    · obtain ⟨h1, ⟨g, hg⟩, h3⟩ := hr.read_ok rd ho
      obtain ⟨g', hg', _⟩ := hglogKeep _ _ g hg
      refine ⟨by show rd.time < r.now + 1 + d; omega, ⟨g', hg'⟩, ?_⟩
      intro hl ht e he hlt hle
      have heo : e ∈ r.commitAt := by
        rcases List.mem_append.mp he with hen | heo
        · have := (hC e hen).1; omega
        · exact heo
      rcases hL rd.leader hl with ⟨hl0, ht0⟩ | ⟨_, hnone⟩
      · obtain ⟨h4, h5⟩ := h3 hl0 (by rw [← ht0]; exact ht) e heo hlt hle
        exact ⟨h4, h5.trans (hrel.stay rd.leader hl hl0 ht0).1⟩
      · rw [ht, hg] at hnone; simp at hnone

/-! ### every step of the timed model -/

theorem noderel_set (s : AState) (i : Nat) (n' : ANode) (h1 : (s.nodes i).term ≤ n'.term)
    (h2 : n'.role = .leader → (s.nodes i).role = .leader → n'.term = (s.nodes i).term →
      (s.nodes i).log <+: n'.log ∧ (s.nodes i).commit ≤ n'.commit) :
    ∀ s' : AState, s'.nodes = setNode s i n' → NodeRel s s' := by
  intro s' hs
  refine ⟨?_, ?_⟩
  · intro j hl hl0 ht
    rw [hs] at hl ht ⊢
    by_cases h : j = i
    · subst h; simp only [setNode_same] at hl ht ⊢; exact h2 hl hl0 ht
    · rw [setNode_other s n' h]; exact ⟨List.prefix_refl _, Nat.le_refl _⟩
  · intro j
    rw [hs]
    by_cases h : j = i
    · subst h; simp only [setNode_same]; exact h1
    · rw [setNode_other s n' h]; exact Nat.le_refl _

theorem leaderkeep_set (s : AState) (i : Nat) (n' : ANode)
    (h : n'.role = .leader → (s.nodes i).role = .leader ∧ n'.term = (s.nodes i).term) :
    ∀ s' : AState, s'.nodes = setNode s i n' →
      ∀ j, (s'.nodes j).role = .leader → (s.nodes j).role = .leader ∧ (s'.nodes j).term = (s.nodes j).term := by
  intro s' hs j hl
  rw [hs] at hl ⊢
  by_cases hj : j = i
  · subst hj; simp only [setNode_same] at hl ⊢; exact h hl
  · rw [setNode_other s n' hj] at hl ⊢; exact ⟨hl, rfl⟩

theorem rinv_tick_aux {cfg : Config} (hnd : cfg.voterIds.Nodup) {r : RState} (hr : RInv cfg r) (d : Nat) :
    RInv cfg { r with now := r.now + 1 + d } := by
  have hrel : NodeRel r.s r.s := ⟨fun j _ _ _ => ⟨List.prefix_refl _, Nat.le_refl _⟩, fun j => Nat.le_refl _⟩
  have := rinv_frame hnd hr d r.s hr.base (Ext.refl_of _ _ rfl rfl rfl) hrel [] [] [] [] []
    (by intro T v c τ h; simp at h) (by intro T v c h; exact Or.inl h) (by intro T c τ h; simp at h)
    (by intro T c g h; exact Or.inl ⟨g, h⟩) (by intro a ha; exact Or.inl ha) (by intro a T st τ h; simp at h)
    (by intro e he; simp at he) (by intro j hl'; exact Or.inl ⟨hl', rfl⟩) (by intro rd h; simp at h)
  simpa using this

theorem rinv_step {cfg : Config} (hnd : cfg.voterIds.Nodup) {r r' : RState} (hr : RInv cfg r) (h : RStep cfg r r') : RInv cfg r' := by
  have hi := hr.base
  cases h with
  | timeout i hnl =>
    have hs : Step cfg r.s (timeoutS r.s i) := Step.timeout r.s i hnl
    have hi' := inv_step hnd hi hs
    have hext := step_ext hnd hi hs
    have hrel : NodeRel r.s (timeoutS r.s i) := noderel_set r.s i { r.s.nodes i with term := (r.s.nodes i).term + 1, role := .candidate } (by simp) (by intro h; simp at h) _ rfl
    have hkeep := leaderkeep_set r.s i { r.s.nodes i with term := (r.s.nodes i).term + 1, role := .candidate } (by intro h; simp at h) (timeoutS r.s i) rfl
    have := rinv_frame hnd hr 0 (timeoutS r.s i) hi' hext hrel [((r.s.nodes i).term + 1, i, i, r.now)] [] [] [] []
      (by intro T m c τ h; simp at h; obtain ⟨h1, h2, h3, h4⟩ := h; subst h1 h2 h3 h4; exact ⟨rfl, by simp [timeoutS]⟩)
      (by intro T m c h
          simp only [timeoutS, List.mem_cons] at h
          rcases h with h | h
          · right; injection h with h1 h2; injection h2 with h2 h3; subst h1 h2 h3; simp
          · exact Or.inl h)
      (by intro T c τ h; simp at h)
      (by intro T c g h; exact Or.inl ⟨g, h⟩)
      (by intro m hm; exact Or.inl hm)
      (by intro m T st τ h; simp at h)
      (by intro e he; simp at he)
      (by intro j hl; exact Or.inl (hkeep j hl))
      (by intro rd h; simp at h)
    simpa using this
  | grant m q hq ht hone hup =>
    have hs : Step cfg r.s (grantS r.s m q) := Step.grant r.s m q hq ht hone hup
    have hi' := inv_step hnd hi hs
    have hext := step_ext hnd hi hs
    have hrel : NodeRel r.s (grantS r.s m q) := noderel_set r.s m { r.s.nodes m with term := q.term, role := if (r.s.nodes m).term < q.term then .follower else (r.s.nodes m).role } ht
      (by intro _ _ _; exact ⟨List.prefix_refl _, Nat.le_refl _⟩) _ rfl
    have hkeep := leaderkeep_set r.s m { r.s.nodes m with term := q.term, role := if (r.s.nodes m).term < q.term then .follower else (r.s.nodes m).role }
      (by intro h
          simp only at h
          by_cases hlt : (r.s.nodes m).term < q.term
          · simp [hlt] at h
          · simp [hlt] at h; exact ⟨h, by simp; omega⟩) (grantS r.s m q) rfl
    have := rinv_frame hnd hr 0 (grantS r.s m q) hi' hext hrel [(q.term, m, q.cand, r.now)] [] [] [] []
      (by intro T v c τ h; simp at h; obtain ⟨h1, h2, h3, h4⟩ := h; subst h1 h2 h3 h4; exact ⟨rfl, by simp [grantS]⟩)
      (by intro T v c h
          simp only [grantS, List.mem_cons] at h
          rcases h with h | h
          · right; injection h with h1 h2; injection h2 with h2 h3; subst h1 h2 h3; simp
          · exact Or.inl h)
      (by intro T c τ h; simp at h)
      (by intro T c g h; exact Or.inl ⟨g, h⟩)
      (by intro a ha; exact Or.inl ha)
      (by intro a T st τ h; simp at h)
      (by intro e he; simp at he)
      (by intro j hl; exact Or.inl (hkeep j hl))
      (by intro rd h; simp at h)
    simpa using this
  | becomeLeader c Q hc hQ hv =>
    have hs : Step cfg r.s (becomeLeaderS r.s c) := Step.becomeLeader r.s c Q hc hQ hv
    have hi' := inv_step hnd hi hs
    have hext := step_ext hnd hi hs
    have hnone : r.s.glog (r.s.nodes c).term = none := by
      cases hgl : r.s.glog (r.s.nodes c).term with
      | none => rfl
      | some x =>
        obtain ⟨c', g⟩ := x
        exfalso
        obtain ⟨Q', hQ', hv'⟩ := hi.glog_votes _ c' g hgl
        obtain ⟨v, hv1, hv2⟩ := quorum_meet hnd hQ hQ'
        have hEq := hi.votes_unique _ v c c' (hv v hv1) (hv' v hv2)
        subst hEq
        exact hi.glog_cand _ c g hgl rfl hc
    have hrel : NodeRel r.s (becomeLeaderS r.s c) := noderel_set r.s c { r.s.nodes c with role := .leader, log := (r.s.nodes c).log ++ [⟨(r.s.nodes c).term, 0⟩] } (Nat.le_refl _)
      (by intro _ h; rw [hc] at h; simp at h) _ rfl
    have := rinv_frame hnd hr 0 (becomeLeaderS r.s c) hi' hext hrel [] [((r.s.nodes c).term, c, r.now)] [] [] []
      (by intro T m c' τ h; simp at h)
      (by intro T m c' h; exact Or.inl h)
      (by intro T c' τ h
          simp at h; obtain ⟨h1, h2, h3⟩ := h; subst h1 h2 h3
          exact ⟨rfl, ⟨(r.s.nodes c').log ++ [⟨(r.s.nodes c').term, 0⟩], by simp [becomeLeaderS]⟩, Q, hQ, hv⟩)
      (by intro T c' g h
          by_cases hT : T = (r.s.nodes c).term
          · right
            subst hT
            simp [becomeLeaderS] at h
            simp [h.1]
          · left; simp [becomeLeaderS, hT] at h; exact ⟨g, h⟩)
      (by intro a ha; exact Or.inl ha)
      (by intro a T st τ h; simp at h)
      (by intro e he; simp at he)
      (by intro j hl
          by_cases hj : j = c
          · subst hj
            right
            have : ((becomeLeaderS r.s j).nodes j).term = (r.s.nodes j).term := by simp [becomeLeaderS]
            rw [this]; exact ⟨by simp, hnone⟩
          · left
            have : (becomeLeaderS r.s c).nodes j = r.s.nodes j := setNode_other r.s _ hj
            rw [this] at hl ⊢; exact ⟨hl, rfl⟩)
      (by intro rd h; simp at h)
    simpa using this
  | clientAppend l p hl =>
    have hs : Step cfg r.s (clientAppendS r.s l p) := Step.clientAppend r.s l p hl
    have hi' := inv_step hnd hi hs
    have hext := step_ext hnd hi hs
    have hrel : NodeRel r.s (clientAppendS r.s l p) := noderel_set r.s l { r.s.nodes l with log := (r.s.nodes l).log ++ [⟨(r.s.nodes l).term, p⟩] } (Nat.le_refl _)
      (by intro _ _ _; exact ⟨List.prefix_append _ _, Nat.le_refl _⟩) _ rfl
    have hkeep := leaderkeep_set r.s l { r.s.nodes l with log := (r.s.nodes l).log ++ [⟨(r.s.nodes l).term, p⟩] }
      (by intro h; exact ⟨h, rfl⟩) (clientAppendS r.s l p) rfl
    have hg := hi.leader_glog l hl
    have := rinv_frame hnd hr 0 (clientAppendS r.s l p) hi' hext hrel [] [] [] [] []
      (by intro T m c τ h; simp at h)
      (by intro T m c h; exact Or.inl h)
      (by intro T c τ h; simp at h)
      (by intro T c g h
          left
          by_cases hT : T = (r.s.nodes l).term
          · subst hT; simp [clientAppendS] at h; exact ⟨_, by rw [hg, h.1]⟩
          · simp [clientAppendS, hT] at h; exact ⟨g, h⟩)
      (by intro a ha; exact Or.inl ha)
      (by intro a T st τ h; simp at h)
      (by intro e he; simp at he)
      (by intro j hl'; exact Or.inl (hkeep j hl'))
      (by intro rd h; simp at h)
    simpa using this
  | sendAE l prev k hl hp =>
    have hs : Step cfg r.s (sendAES r.s l prev k r.now) := Step.sendAE r.s l prev k r.now hl hp
    have hi' := inv_step hnd hi hs
    have hext := step_ext hnd hi hs
    have hrel : NodeRel r.s (sendAES r.s l prev k r.now) := ⟨fun j _ _ _ => ⟨List.prefix_refl _, Nat.le_refl _⟩, fun j => Nat.le_refl _⟩
    have := rinv_frame hnd hr 0 (sendAES r.s l prev k r.now) hi' hext hrel [] [] [] [] []
      (by intro T m c τ h; simp at h)
      (by intro T m c h; exact Or.inl h)
      (by intro T c τ h; simp at h)
      (by intro T c g h; exact Or.inl ⟨g, h⟩)
      (by intro a ha
          simp only [sendAES, List.mem_cons] at ha
          rcases ha with h | h
          · right; rw [h]
          · exact Or.inl h)
      (by intro a T st τ h; simp at h)
      (by intro e he; simp at he)
      (by intro j hl'; exact Or.inl ⟨hl', rfl⟩)
      (by intro rd h; simp at h)
    simpa using this
  | recvAEok n m hm ht hrole hp hpt =>
    have hs : Step cfg r.s (recvAEokS r.s n m) := Step.recvAEok r.s n m hm ht hrole hp hpt
    have hi' := inv_step hnd hi hs
    have hext := step_ext hnd hi hs
    have hrel : NodeRel r.s (recvAEokS r.s n m) := noderel_set r.s n { term := m.term, role := .follower, log := merge (r.s.nodes n).log m.prev m.entries, commit := max (r.s.nodes n).commit (min m.commit (m.prev + m.entries.length)) } ht (by intro h; simp at h) _ rfl
    have hkeep := leaderkeep_set r.s n { term := m.term, role := .follower, log := merge (r.s.nodes n).log m.prev m.entries, commit := max (r.s.nodes n).commit (min m.commit (m.prev + m.entries.length)) } (by intro h; simp at h) (recvAEokS r.s n m) rfl
    have := rinv_frame hnd hr 0 (recvAEokS r.s n m) hi' hext hrel [] [] [(n, m.term, m.stamp, r.now)] [] []
      (by intro T v c τ h; simp at h)
      (by intro T v c h; exact Or.inl h)
      (by intro T c τ h; simp at h)
      (by intro T c g h; exact Or.inl ⟨g, h⟩)
      (by intro a ha; exact Or.inl ha)
      (by intro a T st τ h
          simp at h; obtain ⟨h1, h2, h3, h4⟩ := h; subst h1 h2 h3 h4
          exact ⟨rfl, hr.msg_stamp m hm, ht, rfl⟩)
      (by intro e he; simp at he)
      (by intro j hl'; exact Or.inl (hkeep j hl'))
      (by intro rd h; simp at h)
    simpa using this
  | recvAErej n m hm ht hrole =>
    have hs : Step cfg r.s (recvAErejS r.s n m) := Step.recvAErej r.s n m hm ht hrole
    have hi' := inv_step hnd hi hs
    have hext := step_ext hnd hi hs
    have hrel : NodeRel r.s (recvAErejS r.s n m) := noderel_set r.s n { r.s.nodes n with term := m.term, role := .follower } ht (by intro h; simp at h) _ rfl
    have hkeep := leaderkeep_set r.s n { r.s.nodes n with term := m.term, role := .follower } (by intro h; simp at h) (recvAErejS r.s n m) rfl
    have := rinv_frame hnd hr 0 (recvAErejS r.s n m) hi' hext hrel [] [] [(n, m.term, m.stamp, r.now)] [] []
      (by intro T v c τ h; simp at h)
      (by intro T v c h; exact Or.inl h)
      (by intro T c τ h; simp at h)
      (by intro T c g h; exact Or.inl ⟨g, h⟩)
      (by intro a ha; exact Or.inl ha)
      (by intro a T st τ h
          simp at h; obtain ⟨h1, h2, h3, h4⟩ := h; subst h1 h2 h3 h4
          exact ⟨rfl, hr.msg_stamp m hm, ht, rfl⟩)
      (by intro e he; simp at he)
      (by intro j hl'; exact Or.inl (hkeep j hl'))
      (by intro rd h; simp at h)
    simpa using this
  | advanceCommit l i Q hl hil hti hQ ha =>
    have hs : Step cfg r.s (advanceCommitS r.s l i) := Step.advanceCommit r.s l i Q hl hil hti hQ ha
    have hi' := inv_step hnd hi hs
    have hext := step_ext hnd hi hs
    have hrel : NodeRel r.s (advanceCommitS r.s l i) := noderel_set r.s l { r.s.nodes l with commit := max (r.s.nodes l).commit i } (Nat.le_refl _)
      (by intro _ _ _; exact ⟨List.prefix_refl _, Nat.le_max_left _ _⟩) _ rfl
    have hkeep := leaderkeep_set r.s l { r.s.nodes l with commit := max (r.s.nodes l).commit i }
      (by intro h; exact ⟨h, rfl⟩) (advanceCommitS r.s l i) rfl
    have hg := hi.leader_glog l hl
    have hnode : (advanceCommitS r.s l i).nodes l = { r.s.nodes l with commit := max (r.s.nodes l).commit i } := setNode_same _ _ _
    have hc' := hi'.commit_ok l
    rw [hnode] at hc'
    have := rinv_frame hnd hr 0 (advanceCommitS r.s l i) hi' hext hrel [] [] []
      [⟨l, (r.s.nodes l).term, max (r.s.nodes l).commit i, (r.s.nodes l).log.take (max (r.s.nodes l).commit i), r.now⟩] []
      (by intro T v c τ h; simp at h)
      (by intro T v c h; exact Or.inl h)
      (by intro T c τ h; simp at h)
      (by intro T c g h; exact Or.inl ⟨g, h⟩)
      (by intro a ha'; exact Or.inl ha')
      (by intro a T st τ h; simp at h)
      (by intro e he
          simp only [List.mem_singleton] at he
          subst he
          refine ⟨rfl, ⟨_, hg, List.take_prefix _ _, hg⟩, ?_, hc'.2, ?_⟩
          · simp only [List.length_take]; have := hc'.1; simp at this; omega
          · rw [hnode]; exact Nat.le_refl _)
      (by intro j hl'; exact Or.inl (hkeep j hl'))
      (by intro rd h; simp at h)
    simpa using this
  | higherTerm n t hlt =>
    have hs : Step cfg r.s (higherTermS r.s n t) := Step.higherTerm r.s n t hlt
    have hi' := inv_step hnd hi hs
    have hext := step_ext hnd hi hs
    have hrel : NodeRel r.s (higherTermS r.s n t) := noderel_set r.s n { r.s.nodes n with term := t, role := .follower } (by simp; omega) (by intro h; simp at h) _ rfl
    have hkeep := leaderkeep_set r.s n { r.s.nodes n with term := t, role := .follower } (by intro h; simp at h) (higherTermS r.s n t) rfl
    have := rinv_frame hnd hr 0 (higherTermS r.s n t) hi' hext hrel [] [] [] [] []
      (by intro T v c τ h; simp at h) (by intro T v c h; exact Or.inl h) (by intro T c τ h; simp at h)
      (by intro T c g h; exact Or.inl ⟨g, h⟩) (by intro a ha; exact Or.inl ha) (by intro a T st τ h; simp at h)
      (by intro e he; simp at he) (by intro j hl'; exact Or.inl (hkeep j hl')) (by intro rd h; simp at h)
    simpa using this
  | crash n =>
    have hs : Step cfg r.s (crashS r.s n) := Step.crash r.s n
    have hi' := inv_step hnd hi hs
    have hext := step_ext hnd hi hs
    have hrel : NodeRel r.s (crashS r.s n) := noderel_set r.s n { r.s.nodes n with role := .follower, commit := 0 } (Nat.le_refl _) (by intro h; simp at h) _ rfl
    have hkeep := leaderkeep_set r.s n { r.s.nodes n with role := .follower, commit := 0 } (by intro h; simp at h) (crashS r.s n) rfl
    have := rinv_frame hnd hr 0 (crashS r.s n) hi' hext hrel [] [] [] [] []
      (by intro T v c τ h; simp at h) (by intro T v c h; exact Or.inl h) (by intro T c τ h; simp at h)
      (by intro T c g h; exact Or.inl ⟨g, h⟩) (by intro a ha; exact Or.inl ha) (by intro a T st τ h; simp at h)
      (by intro e he; simp at he) (by intro j hl'; exact Or.inl (hkeep j hl')) (by intro rd h; simp at h)
    simpa using this
  | readSubmit l hl =>
    have hrel : NodeRel r.s r.s := ⟨fun j _ _ _ => ⟨List.prefix_refl _, Nat.le_refl _⟩, fun j => Nat.le_refl _⟩
    have := rinv_frame hnd hr 0 r.s hi (Ext.refl_of _ _ rfl rfl rfl) hrel [] [] [] [] [⟨l, (r.s.nodes l).term, readIndexOf (r.s.nodes l), r.now⟩]
      (by intro T v c τ h; simp at h) (by intro T v c h; exact Or.inl h) (by intro T c τ h; simp at h)
      (by intro T c g h; exact Or.inl ⟨g, h⟩) (by intro a ha; exact Or.inl ha) (by intro a T st τ h; simp at h)
      (by intro e he; simp at he) (by intro j hl'; exact Or.inl ⟨hl', rfl⟩)
      (by intro rd h; simp only [List.mem_singleton] at h; subst h; exact ⟨rfl, hl, rfl, rfl, rfl⟩)
    simpa using this
  | tick d => exact rinv_tick_aux hnd hr d

theorem rinv_reachable {cfg : Config} (hnd : cfg.voterIds.Nodup) {r : RState} (h : RReachable cfg r) : RInv cfg r := by
  induction h with
  | base => exact rinv_init cfg
  | step _ hs ih => exact rinv_step hnd ih hs

/-- **Linearizable reads are never stale.** In every reachable state of the timed model: when
    the guard under which the code answers a registered read holds, every commit any leader made
    before the read was registered — every operation acknowledged to some client before the read
    was invoked — lies inside the prefix the read is answered from, with exactly the committed
    entries. No timing assumption. -/
theorem linearizable_read {cfg : Config} (hnd : cfg.voterIds.Nodup) {r : RState} (hreach : RReachable cfg r)
    (rd : Read) (a : Nat) (Q : List Nat) (hs : CanServe cfg r rd a Q) :
    ∀ e ∈ r.commitAt, e.time < rd.time → e.index ≤ a ∧ e.pre <+: (r.s.nodes rd.leader).log.take a := by
  have hr := rinv_reachable hnd hreach
  obtain ⟨hrd, hl, ht, hct, hria, hac, hQ, hacks⟩ := hs
  intro e he hlt
  obtain ⟨_, ⟨τe, hτe1, hτe2⟩, hlen, _, _, _⟩ := hr.commit_ok e he
  by_cases hle : e.term ≤ rd.term
  · obtain ⟨_, _, h3⟩ := hr.read_ok rd hrd
    obtain ⟨h4, h5⟩ := h3 hl ht e he hlt hle
    refine ⟨by omega, ?_⟩
    exact List.prefix_take_iff.mpr ⟨h5, by omega⟩
  · -- a leader of a later term committed before the read was registered: impossible
    exfalso
    obtain ⟨_, _, Q', hQ', hv'⟩ := hr.elect_ok e.term e.leader τe hτe2
    obtain ⟨m, hm1, hm2⟩ := quorum_meet hnd hQ hQ'
    obtain ⟨τv, hτv1, hτv2⟩ := hv' m hm2
    rcases hacks m hm1 with hself | ⟨stamp, τa, hst, hack⟩
    · subst hself
      have := hr.base.votes_term e.term _ e.leader (hr.vote_time _ _ _ _ hτv2).2
      omega
    · obtain ⟨_, hst2, hall⟩ := hr.hb_ok m rd.term stamp τa hack
      have := hall e.term e.leader τv hτv2 (by omega)
      omega

end Repl
end Raft
