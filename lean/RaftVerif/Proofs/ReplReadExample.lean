/-
  Proofs/ReplReadExample.lean — non-vacuity of `linearizable_read`: a reachable state of the
  timed model in which a read registered after a commit can be served (the guard holds).
-/
import RaftVerif.Proofs.ReplRead
import RaftVerif.Proofs.ReplExample
namespace Raft
namespace Repl

def t1 : RState := { rinit with s := timeoutS rinit.s 1, now := rinit.now + 1,
                                voteAt := ((rinit.s.nodes 1).term + 1, 1, 1, rinit.now) :: rinit.voteAt }
theorem ts1 : RStep cfg3 rinit t1 := RStep.timeout rinit 1 (by decide)

def t2 : RState := { t1 with s := grantS t1.s 2 q1, now := t1.now + 1, voteAt := (q1.term, 2, q1.cand, t1.now) :: t1.voteAt }
theorem ts2 : RStep cfg3 t1 t2 :=
  RStep.grant t1 2 q1 (by decide) (by decide) (by intro c h; simp [t1, rinit, init, timeoutS, q1] at h) (by right; decide)

def t3 : RState := { t2 with s := becomeLeaderS t2.s 1, now := t2.now + 1, electAt := ((t2.s.nodes 1).term, 1, t2.now) :: t2.electAt }
theorem ts3 : RStep cfg3 t2 t3 :=
  RStep.becomeLeader t2 1 [1, 2] (by decide) quorum12 (by intro m hm; simp at hm; rcases hm with h | h <;> subst h <;> decide)

def t4 : RState := { t3 with s := clientAppendS t3.s 1 42, now := t3.now + 1 }
theorem ts4 : RStep cfg3 t3 t4 := RStep.clientAppend t3 1 42 (by decide)

def t5 : RState := { t4 with s := sendAES t4.s 1 0 2 t4.now, now := t4.now + 1 }
theorem ts5 : RStep cfg3 t4 t5 := RStep.sendAE t4 1 0 2 (by decide) (by decide)

def m5 : AEMsg := ⟨1, 0, 0, [⟨1, 0⟩, ⟨1, 42⟩], 0, 4⟩
def t6 : RState := { t5 with s := recvAEokS t5.s 2 m5, now := t5.now + 1, hbAck := (2, m5.term, m5.stamp, t5.now) :: t5.hbAck }
theorem ts6 : RStep cfg3 t5 t6 := RStep.recvAEok t5 2 m5 (by decide) (by decide) (Or.inl (by decide)) (by decide) (by decide)

def ev7 : CommitEv := ⟨1, (t6.s.nodes 1).term, max (t6.s.nodes 1).commit 2, (t6.s.nodes 1).log.take (max (t6.s.nodes 1).commit 2), t6.now⟩
def t7 : RState := { t6 with s := advanceCommitS t6.s 1 2, now := t6.now + 1, commitAt := ev7 :: t6.commitAt }
theorem ts7 : RStep cfg3 t6 t7 :=
  RStep.advanceCommit t6 1 2 [1, 2] (by decide) (by decide) (by decide) quorum12
    (by intro m hm; simp at hm; rcases hm with h | h <;> subst h <;> exact ⟨2, by decide, by decide⟩)

def rd8 : Read := ⟨1, 1, 2, 7⟩
def t8 : RState := { t7 with now := t7.now + 1, reads := ⟨1, (t7.s.nodes 1).term, readIndexOf (t7.s.nodes 1), t7.now⟩ :: t7.reads }
theorem ts8 : RStep cfg3 t7 t8 := RStep.readSubmit t7 1 (by decide)

def t9 : RState := { t8 with s := sendAES t8.s 1 2 0 t8.now, now := t8.now + 1 }
theorem ts9 : RStep cfg3 t8 t9 := RStep.sendAE t8 1 2 0 (by decide) (by decide)

def m9 : AEMsg := ⟨1, 2, 1, [], 2, 8⟩
def t10 : RState := { t9 with s := recvAEokS t9.s 2 m9, now := t9.now + 1, hbAck := (2, m9.term, m9.stamp, t9.now) :: t9.hbAck }
theorem ts10 : RStep cfg3 t9 t10 := RStep.recvAEok t9 2 m9 (by decide) (by decide) (Or.inl (by decide)) (by decide) (by decide)

theorem t10_reachable : RReachable cfg3 t10 :=
  .step (.step (.step (.step (.step (.step (.step (.step (.step (.step .base ts1) ts2) ts3) ts4) ts5) ts6) ts7) ts8) ts9) ts10

/-- the read registered at time 7, after the commit of time 6, can be served at time 10 -/
theorem t10_can_serve : CanServe cfg3 t10 rd8 2 [1, 2] := by
  refine ⟨by decide, by decide, by decide, by decide, by decide, by decide, quorum12, ?_⟩
  intro m hm
  simp at hm
  rcases hm with h | h
  · left; subst h; rfl
  · right; subst h; exact ⟨8, 9, by decide, by decide⟩

/-- and a commit lies before it: the theorem's conclusion is about something -/
theorem t10_has_earlier_commit : ∃ e ∈ t10.commitAt, e.time < rd8.time ∧ e.index = 2 := by
  refine ⟨⟨1, 1, 2, [⟨1, 0⟩, ⟨1, 42⟩], 6⟩, by decide, by decide, rfl⟩

end Repl
end Raft
