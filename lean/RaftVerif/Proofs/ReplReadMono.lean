/-
  Proofs/ReplReadMono.lean — reads that do not overlap in time never go backwards (C05, second
  clause), on the timed replication-layer model (Model/ReplRead.lean).

  `LeaderCommitEv`: whenever a leader's commit index points at an entry of its own term (the
  condition under which the code serves reads), the ghost history holds the commit event that
  put it there, with exactly the prefix the leader has committed. With `linearizable_read` this
  gives `reads_never_go_backwards`: if a read was answered in some state from the first `a1`
  entries, every read REGISTERED at or after that moment — on any leader, of any later term — is
  answered from a prefix that extends it.
-/
import RaftVerif.Proofs.ReplRead
import RaftVerif.Proofs.ReplReadExample
set_option linter.unusedSimpArgs false
set_option linter.unusedVariables false
namespace Raft
namespace Repl

def LeaderCommitEv (r : RState) : Prop :=
  ∀ l, (r.s.nodes l).role = .leader → termAt (r.s.nodes l).log (r.s.nodes l).commit = (r.s.nodes l).term →
    ∃ e ∈ r.commitAt, e.leader = l ∧ e.term = (r.s.nodes l).term ∧ e.index = (r.s.nodes l).commit ∧
      e.pre = (r.s.nodes l).log.take (r.s.nodes l).commit

/-- a step that replaces one node and only adds commit events -/
theorem lce_set {r : RState} (h : LeaderCommitEv r) (i : Nat) (n' : ANode) (r' : RState)
    (hs : r'.s.nodes = setNode r.s i n') (hsub : ∀ e ∈ r.commitAt, e ∈ r'.commitAt)
    (hn : n'.role = .leader → termAt n'.log n'.commit = n'.term →
      ∃ e ∈ r'.commitAt, e.leader = i ∧ e.term = n'.term ∧ e.index = n'.commit ∧ e.pre = n'.log.take n'.commit) :
    LeaderCommitEv r' := by
  intro l hl ht
  rw [hs] at hl ht ⊢
  by_cases hli : l = i
  · subst hli
    simp only [setNode_same] at hl ht ⊢
    exact hn hl ht
  · rw [setNode_other r.s n' hli] at hl ht ⊢
    obtain ⟨e, he, h1, h2, h3, h4⟩ := h l hl ht
    exact ⟨e, hsub e he, h1, h2, h3, h4⟩

/-- a step that leaves the nodes alone -/
theorem lce_same {r : RState} (h : LeaderCommitEv r) (r' : RState)
    (hs : r'.s.nodes = r.s.nodes) (hsub : ∀ e ∈ r.commitAt, e ∈ r'.commitAt) : LeaderCommitEv r' := by
  intro l hl ht
  rw [hs] at hl ht ⊢
  obtain ⟨e, he, h1, h2, h3, h4⟩ := h l hl ht
  exact ⟨e, hsub e he, h1, h2, h3, h4⟩

theorem lce_init : LeaderCommitEv rinit := by
  intro l hl
  simp [rinit, init] at hl

theorem lce_step {cfg : Config} {r r' : RState} (hr : RInv cfg r) (h : LeaderCommitEv r) (hst : RStep cfg r r') :
    LeaderCommitEv r' := by
  have hi := hr.base
  cases hst with
  | timeout i hnl =>
    exact lce_set h i { r.s.nodes i with term := (r.s.nodes i).term + 1, role := .candidate } _ rfl (fun e he => he)
      (by intro hl; simp at hl)
  | grant m q hq ht hone hup =>
    refine lce_set h m { r.s.nodes m with term := q.term, role := if (r.s.nodes m).term < q.term then .follower else (r.s.nodes m).role } _ rfl (fun e he => he) ?_
    intro hl htm
    simp only at hl htm ⊢
    by_cases hlt : (r.s.nodes m).term < q.term
    · simp [hlt] at hl
    · simp only [hlt, if_false] at hl
      have hq' : q.term = (r.s.nodes m).term := by omega
      rw [hq'] at htm ⊢
      exact h m hl htm
  | becomeLeader c Q hc hQ hv =>
    refine lce_set h c { r.s.nodes c with role := .leader, log := (r.s.nodes c).log ++ [⟨(r.s.nodes c).term, 0⟩] } _ rfl (fun e he => he) ?_
    intro _ htm
    simp only at htm
    exfalso
    have hcl := (hi.commit_ok c).1
    rw [termAt_append_left hcl] at htm
    have hpos := hi.role_pos c (by rw [hc]; simp)
    by_cases h0 : (r.s.nodes c).commit = 0
    · rw [h0, termAt_zero] at htm; omega
    · obtain ⟨e, he, het⟩ := termAt_mem (l := (r.s.nodes c).log) (i := (r.s.nodes c).commit) (by omega) hcl
      have := hi.cand_log c hc e he
      omega
  | clientAppend l p hl =>
    refine lce_set h l { r.s.nodes l with log := (r.s.nodes l).log ++ [⟨(r.s.nodes l).term, p⟩] } _ rfl (fun e he => he) ?_
    intro hl' htm
    simp only at hl' htm ⊢
    have hcl := (hi.commit_ok l).1
    rw [termAt_append_left hcl] at htm
    obtain ⟨e, he, h1, h2, h3, h4⟩ := h l hl' htm
    exact ⟨e, he, h1, h2, h3, by rw [h4, List.take_append_of_le_length hcl]⟩
  | sendAE l prev k hl hp =>
    exact lce_same h _ rfl (fun e he => he)
  | recvAEok n m hm ht hrole hprev hpt =>
    exact lce_set h n { term := m.term, role := .follower, log := merge (r.s.nodes n).log m.prev m.entries,
                        commit := max (r.s.nodes n).commit (min m.commit (m.prev + m.entries.length)) } _ rfl (fun e he => he)
      (by intro hl; simp at hl)
  | recvAErej n m hm ht hrole =>
    exact lce_set h n { r.s.nodes n with term := m.term, role := .follower } _ rfl (fun e he => he) (by intro hl; simp at hl)
  | advanceCommit l i Q hl hil hti hQ hack =>
    refine lce_set h l { r.s.nodes l with commit := max (r.s.nodes l).commit i } _ rfl
      (fun e he => List.mem_cons_of_mem _ he) ?_
    intro _ _
    exact ⟨_, List.mem_cons_self, rfl, rfl, rfl, rfl⟩
  | higherTerm n t hlt =>
    exact lce_set h n { r.s.nodes n with term := t, role := .follower } _ rfl (fun e he => he) (by intro hl; simp at hl)
  | crash n =>
    exact lce_set h n { r.s.nodes n with role := .follower, commit := 0 } _ rfl (fun e he => he) (by intro hl; simp at hl)
  | readSubmit l hl =>
    exact lce_same h _ rfl (fun e he => he)
  | tick d =>
    exact lce_same h _ rfl (fun e he => he)

theorem lce_reachable {cfg : Config} (hnd : cfg.voterIds.Nodup) {r : RState} (h : RReachable cfg r) : LeaderCommitEv r := by
  induction h with
  | base => exact lce_init
  | step hr hst ih => exact lce_step (rinv_reachable hnd hr) ih hst

/-! ### later states -/

inductive RReachableFrom (cfg : Config) (r : RState) : RState → Prop
  | base : RReachableFrom cfg r r
  | step {a b} : RReachableFrom cfg r a → RStep cfg a b → RReachableFrom cfg r b

theorem rreachable_trans {cfg : Config} {r r' : RState} (h : RReachable cfg r) (h' : RReachableFrom cfg r r') : RReachable cfg r' := by
  induction h' with
  | base => exact h
  | step _ hst ih => exact .step ih hst

/-- the clock never runs backwards and the ghost history of commits only grows -/
theorem rstep_mono {cfg : Config} {r r' : RState} (h : RStep cfg r r') :
    r.now ≤ r'.now ∧ ∀ e ∈ r.commitAt, e ∈ r'.commitAt := by
  cases h <;> refine ⟨by simp <;> omega, ?_⟩ <;> intro e he <;> first | exact he | exact List.mem_cons_of_mem _ he

theorem rfrom_mono {cfg : Config} {r r' : RState} (h : RReachableFrom cfg r r') :
    r.now ≤ r'.now ∧ ∀ e ∈ r.commitAt, e ∈ r'.commitAt := by
  induction h with
  | base => exact ⟨Nat.le_refl _, fun e he => he⟩
  | step _ hst ih =>
    obtain ⟨h1, h2⟩ := rstep_mono hst
    exact ⟨Nat.le_trans ih.1 h1, fun e he => h2 e (ih.2 e he)⟩

/-- **Reads that do not overlap never go backwards.** A read was answered in the reachable state
    `r1` from the first `a1` entries of its leader's log (`CanServe`: the code's guard). In any
    later state `r2`, any read that was registered at or after that moment (`r1.now ≤ rd2.time`:
    invoked after the first one completed) and can be served — by whatever leader, of whatever
    term — is answered from a prefix that extends the first answer. No assumption on timing. -/
theorem reads_never_go_backwards {cfg : Config} (hnd : cfg.voterIds.Nodup) {r1 r2 : RState}
    (h1 : RReachable cfg r1) (h12 : RReachableFrom cfg r1 r2)
    (rd1 rd2 : Read) (a1 a2 : Nat) (Q1 Q2 : List Nat)
    (hs1 : CanServe cfg r1 rd1 a1 Q1) (hs2 : CanServe cfg r2 rd2 a2 Q2) (hafter : r1.now ≤ rd2.time) :
    a1 ≤ a2 ∧ (r1.s.nodes rd1.leader).log.take a1 <+: (r2.s.nodes rd2.leader).log.take a2 := by
  obtain ⟨_, hl1, ht1, hc1, _, ha1, _, _⟩ := hs1
  obtain ⟨e, he, _, _, hei, hep⟩ := lce_reachable hnd h1 rd1.leader hl1 (by rw [hc1, ht1])
  have het : e.time < r1.now := ((rinv_reachable hnd h1).commit_ok e he).1
  have he2 : e ∈ r2.commitAt := (rfrom_mono h12).2 e he
  obtain ⟨hle, hpre⟩ := linearizable_read hnd (rreachable_trans h1 h12) rd2 a2 Q2 hs2 e he2 (by omega)
  refine ⟨by omega, ?_⟩
  have e1 : (r1.s.nodes rd1.leader).log.take a1 = ((r1.s.nodes rd1.leader).log.take (r1.s.nodes rd1.leader).commit).take a1 := by
    rw [List.take_take]; congr 1; omega
  rw [e1, ← hep]
  exact List.IsPrefix.trans (List.take_prefix _ _) hpre

/-! ### non-vacuity: the run of Proofs/ReplReadExample.lean continued by a second read

  The first read (registered at 7) is served in `t10` (time 10). A second read is registered at
  time 10, the leader sends an empty request (stamp 11), node 2 answers: the second read can be
  served in `t13`, and the premises of the theorem hold for the pair. -/

def rd11 : Read := ⟨1, 1, 2, 10⟩
def t11 : RState := { t10 with now := t10.now + 1, reads := ⟨1, (t10.s.nodes 1).term, readIndexOf (t10.s.nodes 1), t10.now⟩ :: t10.reads }
theorem ts11 : RStep cfg3 t10 t11 := RStep.readSubmit t10 1 (by decide)

def t12 : RState := { t11 with s := sendAES t11.s 1 2 0 t11.now, now := t11.now + 1 }
theorem ts12 : RStep cfg3 t11 t12 := RStep.sendAE t11 1 2 0 (by decide) (by decide)

def m12 : AEMsg := ⟨1, 2, 1, [], 2, 11⟩
def t13 : RState := { t12 with s := recvAEokS t12.s 2 m12, now := t12.now + 1, hbAck := (2, m12.term, m12.stamp, t12.now) :: t12.hbAck }
theorem ts13 : RStep cfg3 t12 t13 := RStep.recvAEok t12 2 m12 (by decide) (by decide) (Or.inl (by decide)) (by decide) (by decide)

theorem t13_from_t10 : RReachableFrom cfg3 t10 t13 := .step (.step (.step .base ts11) ts12) ts13

theorem t13_can_serve : CanServe cfg3 t13 rd11 2 [1, 2] := by
  refine ⟨by decide, by decide, by decide, by decide, by decide, by decide, quorum12, ?_⟩
  intro m hm
  simp at hm
  rcases hm with h | h
  · left; subst h; rfl
  · right; subst h; exact ⟨11, 12, by decide, by decide⟩

example : t10.now ≤ rd11.time := by decide

end Repl
end Raft
