/-
  Proofs/ReplRefine.lean — the replication-layer model (Model/Repl.lean) against the node
  functions of Model/Handlers.lean / Model/Leader.lean, which E3/E4 compare with the code.

  An abstract log is the list of (term, payload) of the stored entries above the base; the
  abstract position of concrete index `i` is `i - base`. Proved: the follower's merge loop and
  the whole accepting path compute exactly `Repl.merge` on the abstraction (and the commit rule
  is the model's); the previous-entry check is the model's guard; a granted real vote implies
  the model's up-to-date guard; a client submission and `becomeLeader` append exactly one entry
  of the node's own term at the end of the log.
-/
import RaftVerif.Model.Repl
import RaftVerif.Properties.C06
import RaftVerif.Properties.C08
import RaftVerif.Proofs.LeaderSpecs
set_option linter.unusedSimpArgs false
set_option linter.unusedVariables false
namespace Raft
namespace Repl
open Log

/-- abstraction of an entry; `enc` is any encoding of what the entry carries besides its term -/
def absE (enc : Entry → Nat) (e : Entry) : AEntry := ⟨e.term, enc e⟩
def absL (enc : Entry → Nat) (l : Log) : List AEntry := l.ents.map (absE enc)

theorem wf_get?_getElem {l : Log} (hw : l.WF) {i : Nat} (hc : l.contains i = true) :
    l.get? i = l.ents[i - l.base - 1]? := by
  unfold Log.get?; simp [hc]

/-- **The merge loop is `Repl.merge`.** -/
theorem mergeScan_refines (enc : Entry → Nat) (l : Log) (hw : l.WF) :
    ∀ (es : List Entry) (p : Nat), Contig p es → l.base ≤ p → p ≤ l.lastIndex →
      ∃ l1 tr app, mergeScan l es = .ok l1 tr app ∧ l1.base = l.base ∧
        (l1.ents ++ app).map (absE enc) = merge (absL enc l) (p - l.base) (es.map (absE enc)) := by
  intro es
  induction es with
  | nil =>
    intro p _ _ _
    exact ⟨l, none, [], rfl, rfl, by simp [merge, absL]⟩
  | cons e es ih =>
    intro p hc hb hp
    obtain ⟨hei, hces⟩ := hc
    have hlast := wf_lastIndex hw
    unfold mergeScan
    by_cases hlt : l.lastIndex < e.index
    · rw [if_pos hlt]
      refine ⟨l, none, e :: es, rfl, rfl, ?_⟩
      have hpos : p - l.base = l.ents.length := by omega
      simp only [List.map_cons, merge, absL, hpos, List.map_append]
      simp
    · rw [if_neg hlt]
      have hcont : l.contains e.index = true := (wf_contains_iff hw).mpr ⟨by omega, by omega⟩
      obtain ⟨ex, hex⟩ := Option.isSome_iff_exists.mp (get?_isSome_of_contains hcont)
      rw [hex]
      have hexi : ex.index = e.index := wf_get?_index hw hex
      have hget : l.ents[p - l.base]? = some ex := by
        have := wf_get?_getElem hw hcont
        rw [hex] at this
        have hidx : e.index - l.base - 1 = p - l.base := by omega
        rw [hidx] at this; exact this.symm
      have habs : (absL enc l)[p - l.base]? = some (absE enc ex) := by
        simp [absL, hget]
      by_cases hconf : ex.term = e.term
      · have hnc : isConflict ex e = false := by simp [isConflict, hconf]
        simp only [hnc, Bool.not_false, if_true]
        obtain ⟨l1, tr, app, h1, h2, h3⟩ := ih (p + 1) hces (by omega) (by omega)
        refine ⟨l1, tr, app, h1, h2, ?_⟩
        rw [h3]
        simp only [List.map_cons, merge, habs]
        have : (absE enc ex).term = (absE enc e).term := hconf
        rw [if_pos this]
        congr 1; omega
      · have hc' : isConflict ex e = true := by simp [isConflict, hexi, hconf]
        simp only [hc', Bool.not_true]
        rw [truncate_eq_some hcont]
        refine ⟨_, some e.index, e :: es, rfl, rfl, ?_⟩
        simp only [List.map_cons, merge, habs]
        have : ¬ (absE enc ex).term = (absE enc e).term := hconf
        rw [if_neg this]
        have hidx : e.index - l.base - 1 = p - l.base := by omega
        simp [absL, hidx, List.map_take]

/-- **The accepting path of the AppendEntries handler is the model's `recvAEok`** on the log
    and the commit index. -/
theorem aeAccept_refines (enc : Entry → Nat) (n : Node) (now : Nat) (q : AEReq) (hp : AEPre n q)
    (h1 : n.log.base ≤ q.prevIndex) (h2 : q.prevIndex ≤ n.log.lastIndex) :
    absL enc (aeAccept n now q).1.log = merge (absL enc n.log) (q.prevIndex - n.log.base) (q.entries.map (absE enc)) ∧
    (aeAccept n now q).1.log.base = n.log.base ∧
    (aeAccept n now q).1.commitIndex = max n.commitIndex (min q.leaderCommit (q.prevIndex + q.entries.length)) := by
  obtain ⟨l1, tr, app, hms, hbase, habs⟩ := mergeScan_refines enc n.log hp.wf q.entries q.prevIndex hp.contig h1 h2
  unfold aeAccept
  rw [hms]
  simp only
  cases tr with
  | none =>
    simp only
    refine ⟨?_, ?_, ?_⟩
    · split <;> (simp only [absL, Log.append]; exact habs)
    · split <;> simp [Log.append, hbase]
    · split <;> simp <;> omega
  | some ti =>
    simp only
    refine ⟨?_, ?_, ?_⟩
    · split <;> split <;> (simp only [absL, Log.append, Node.nextConfiguration_log]; exact habs)
    · split <;> split <;> simp [Log.append, hbase, Node.nextConfiguration_log]
    · have hc1 := Node.nextConfiguration_commitIndex ({ n with log := l1 } : Node) now n.committed
      split <;> split <;> simp_all <;> omega

/-- term of the entry at abstract position `i` of the abstraction = term of `get? (base+i)` -/
theorem termAt_absL (enc : Entry → Nat) (l : Log) (hw : l.WF) (i : Nat) (h1 : 1 ≤ i) (e : Entry)
    (hg : l.get? (l.base + i) = some e) : termAt (absL enc l) i = e.term := by
  have hcont : l.contains (l.base + i) = true := by
    by_cases hc : l.contains (l.base + i) = true
    · exact hc
    · rw [get?_none_of_not_contains (by simpa using hc)] at hg; simp at hg
  have := wf_get?_getElem hw hcont
  rw [hg] at this
  cases i with
  | zero => omega
  | succ k =>
    have hidx : l.base + (k + 1) - l.base - 1 = k := by omega
    rw [hidx] at this
    unfold termAt
    simp [absL, ← this, absE]

/-- **The previous-entry check that lets a request through is the model's guard** (no
    compaction: boundary 0). -/
theorem aePrevCheck_ok_guard (enc : Entry → Nat) (n : Node) (q : AEReq) (hw : n.log.WF) (hb : n.log.base = 0)
    (hs : n.snapIndex = 0) (hst : n.snapTerm = 0) (h : aePrevCheck n q = .ok) :
    q.prevIndex ≤ (absL enc n.log).length ∧ termAt (absL enc n.log) q.prevIndex = q.prevTerm := by
  have hlast := wf_lastIndex hw
  obtain ⟨h1, h2, h3, h4⟩ := aePrevCheck_ok h
  have hlen : (absL enc n.log).length = n.log.lastIndex := by simp [absL, hlast, hb]
  refine ⟨by rw [hlen]; omega, ?_⟩
  by_cases h0 : q.prevIndex = 0
  · rw [h0]; have := h4 (by omega); rw [hst] at this; simp [termAt, ← this]
  · obtain ⟨pe, hpe, hpt⟩ := h3 (by omega)
    have := termAt_absL enc n.log hw q.prevIndex (by omega) pe (by rw [hb]; simpa using hpe)
    rw [this, hpt]

/-- **A granted real vote satisfies the model's up-to-date guard.** -/
theorem requestVote_grant_upToDate (enc : Entry → Nat) {n n' : Node} {now : Nat} {q : RVReq} {r : RVResp} {eff : List Effect}
    (h : requestVote n now q = some (n', r, eff)) (hg : r.granted = true) :
    q.lastTerm > n.log.lastTerm ∨ (q.lastTerm = n.log.lastTerm ∧ q.lastIndex ≥ n.log.lastIndex) := by
  have := C08_vote_up_to_date h hg
  omega

/-- sendAEToPeers never touches the log or the term -/
theorem sendAEToPeers_log (n : Node) (now : Nat) : (n.sendAEToPeers now).1.log = n.log ∧ (n.sendAEToPeers now).1.term = n.term := by
  unfold Node.sendAEToPeers Node.tryApplyReadOnly
  split <;> simp

/-- **A client submission is the model's `clientAppend`**: a leader appends exactly one entry
    of its own term at the end of its log. -/
theorem submitReplicated_refines (enc : Entry → Nat) (n : Node) (now d : Nat) (h : n.role = .leader) :
    ∃ e : Entry, e.term = n.term ∧ absL enc (n.submitReplicated now d).1.log = absL enc n.log ++ [absE enc e] := by
  refine ⟨{ index := n.log.nextIndex, term := n.term, kind := kOp, data := d }, rfl, ?_⟩
  unfold Node.submitReplicated
  rw [if_neg (by rw [h]; simp)]
  simp only
  rw [(sendAEToPeers_log _ now).1]
  simp [absL, Log.append]

/-- **`becomeLeader` is the model's `becomeLeader`** on the log: one no-op of the node's term. -/
theorem becomeLeader_refines (enc : Entry → Nat) (n : Node) (now : Nat) :
    ∃ e : Entry, e.term = n.term ∧ e.kind = kNoop ∧ absL enc (n.becomeLeader now).1.log = absL enc n.log ++ [absE enc e] ∧
      (n.becomeLeader now).1.role = .leader ∧ (n.becomeLeader now).1.term = n.term := by
  refine ⟨{ index := n.log.nextIndex, term := n.term, kind := kNoop, data := 0 }, rfl, rfl, ?_, ?_, ?_⟩
  · unfold Node.becomeLeader
    simp only
    rw [(sendAEToPeers_log _ now).1]
    simp [absL, Log.append, Node.resetSnapshots]
  · unfold Node.becomeLeader Node.sendAEToPeers Node.tryApplyReadOnly Node.resetSnapshots
    simp only
    split <;> simp
  · unfold Node.becomeLeader Node.sendAEToPeers Node.tryApplyReadOnly Node.resetSnapshots
    simp only
    split <;> simp

end Repl
end Raft
