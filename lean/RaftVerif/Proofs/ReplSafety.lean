/-
  Proofs/ReplSafety.lean — the invariant holds in every reachable state of the replication
  layer, and what follows from it: log matching, leader completeness, state machine safety.
-/
import RaftVerif.Proofs.ReplSteps4
set_option linter.unusedSimpArgs false
set_option linter.unusedVariables false
namespace Raft
namespace Repl

theorem inv_step {cfg : Config} (hnd : cfg.voterIds.Nodup) {s s' : AState} (hi : Inv cfg s) (h : Step cfg s s') : Inv cfg s' := by
  cases h with
  | timeout i hnl => exact inv_timeout hi i hnl
  | grant m q hq ht hone hup => exact inv_grant hi m q hq ht hone hup
  | becomeLeader c Q hc hQ hv => exact inv_becomeLeader hnd hi c Q hc hQ hv
  | clientAppend l p hl => exact inv_clientAppend hnd hi l p hl
  | sendAE l prev k stamp hl hp => exact inv_sendAE hi l prev k stamp hl hp
  | recvAEok n m hm ht hr hp hpt => exact inv_recvAEok hnd hi n m hm ht hr hp hpt
  | recvAErej n m hm ht hr => exact inv_recvAErej hi n m ht
  | advanceCommit l i Q hl hil hti hQ ha => exact inv_advanceCommit hi l i Q hl hil hti hQ ha
  | higherTerm n t h => exact inv_higherTerm hi n t h
  | crash n => exact inv_crash hi n

theorem inv_reachable {cfg : Config} (hnd : cfg.voterIds.Nodup) {s : AState} (h : Reachable cfg s) : Inv cfg s := by
  induction h with
  | base => exact inv_init cfg
  | step _ hs ih => exact inv_step hnd ih hs

/-- every step extends the ghost history -/
theorem step_ext {cfg : Config} (hnd : cfg.voterIds.Nodup) {s s' : AState} (hi : Inv cfg s) (h : Step cfg s s') : Ext s s' := by
  have hrefl : ∀ x : AState, x.votes = s.votes → x.acked = s.acked → x.glog = s.glog → Ext s x := fun x a b c => Ext.refl_of s x a b c
  cases h with
  | timeout i hnl => exact ⟨fun x h => List.mem_cons_of_mem _ h, fun x h => h, fun t c g h => ⟨g, h, List.prefix_refl g⟩, fun _ _ _ h => Or.inl h⟩
  | grant m q hq ht hone hup => exact ⟨fun x h => List.mem_cons_of_mem _ h, fun x h => h, fun t c g h => ⟨g, h, List.prefix_refl g⟩, fun _ _ _ h => Or.inl h⟩
  | becomeLeader c Q hc hQ hv =>
    refine ⟨fun x h => h, fun x h => List.mem_cons_of_mem _ h, ?_, ?_⟩
    · intro t c' g h
      by_cases ht : t = (s.nodes c).term
      · exfalso
        subst ht
        obtain ⟨Q', hQ', hv'⟩ := hi.glog_votes _ c' g h
        obtain ⟨v, hv1, hv2⟩ := quorum_meet hnd hQ hQ'
        have hEq := hi.votes_unique _ v c c' (hv v hv1) (hv' v hv2)
        subst hEq
        exact hi.glog_cand _ c g h rfl hc
      · exact ⟨g, by simp [ht]; exact h, List.prefix_refl g⟩
    · intro m j t h
      rcases List.mem_cons.mp h with hn | ho
      · injection hn with h1 h2; injection h2 with h2 h3; subst h1 h3; exact Or.inr (Nat.le_refl _)
      · exact Or.inl ho
  | clientAppend l p hl =>
    refine ⟨fun x h => h, fun x h => List.mem_cons_of_mem _ h, ?_, ?_⟩
    · intro t c' g h
      by_cases ht : t = (s.nodes l).term
      · subst ht
        have := hi.leader_glog l hl
        rw [this] at h; injection h with h; injection h with h1 h2; subst h1 h2
        exact ⟨(s.nodes l).log ++ [⟨(s.nodes l).term, p⟩], by simp, List.prefix_append _ _⟩
      · exact ⟨g, by simp [ht]; exact h, List.prefix_refl g⟩
    · intro m j t h
      rcases List.mem_cons.mp h with hn | ho
      · injection hn with h1 h2; injection h2 with h2 h3; subst h1 h3; exact Or.inr (Nat.le_refl _)
      · exact Or.inl ho
  | sendAE l prev k stamp hl hp => exact hrefl _ rfl rfl rfl
  | recvAEok n m hm ht hr hp hpt =>
    refine ⟨fun x h => h, fun x h => List.mem_cons_of_mem _ h, fun t c g h => ⟨g, h, List.prefix_refl g⟩, ?_⟩
    intro v j t h
    rcases List.mem_cons.mp h with hn | ho
    · injection hn with h1 h2; injection h2 with h2 h3; subst h1 h3; exact Or.inr ht
    · exact Or.inl ho
  | recvAErej n m hm ht hr => exact hrefl _ rfl rfl rfl
  | advanceCommit l i Q hl hil hti hQ ha => exact hrefl _ rfl rfl rfl
  | higherTerm n t h => exact hrefl _ rfl rfl rfl
  | crash n => exact hrefl _ rfl rfl rfl

/-- reachability from a state -/
inductive ReachableFrom (cfg : Config) (s : AState) : AState → Prop
  | base : ReachableFrom cfg s s
  | step {a b} : ReachableFrom cfg s a → Step cfg a b → ReachableFrom cfg s b

theorem reachable_trans {cfg : Config} {s s' : AState} (h : Reachable cfg s) (h' : ReachableFrom cfg s s') : Reachable cfg s' := by
  induction h' with
  | base => exact h
  | step _ hs ih => exact Reachable.step ih hs

theorem ext_trans {a b c : AState} (h1 : Ext a b) (h2 : Ext b c) (hterm : ∀ m, (a.nodes m).term ≤ (b.nodes m).term) : Ext a c := by
  refine ⟨fun x h => h2.votes x (h1.votes x h), fun x h => h2.acked x (h1.acked x h), ?_, ?_⟩
  · intro t c' g h
    obtain ⟨g1, hg1, hp1⟩ := h1.glog t c' g h
    obtain ⟨g2, hg2, hp2⟩ := h2.glog t c' g1 hg1
    exact ⟨g2, hg2, hp1.trans hp2⟩
  · intro m j t h
    rcases h2.newack m j t h with h | h
    · exact h1.newack m j t h
    · exact Or.inr (Nat.le_trans (hterm m) h)

/-- committed stays committed -/
theorem committed_stable {cfg : Config} (hnd : cfg.voterIds.Nodup) {s s' : AState} (hr : Reachable cfg s) (h : ReachableFrom cfg s s')
    {b : Nat} {P : List AEntry} (hc : IsCommitted cfg s b P) : IsCommitted cfg s' b P := by
  induction h with
  | base => exact hc
  | step hab hs ih =>
    exact ih.mono (step_ext hnd (inv_reachable hnd (reachable_trans hr hab)) hs) (Nat.le_refl _)

/-! ### The theorems -/

/-- **Log matching**: if two logs hold an entry of the same term at the same index, they are
    identical up to that index. -/
theorem log_matching {cfg : Config} (hnd : cfg.voterIds.Nodup) {s : AState} (hr : Reachable cfg s) (a b i : Nat)
    (h1 : 1 ≤ i) (ha : i ≤ (s.nodes a).log.length) (hb : i ≤ (s.nodes b).log.length)
    (ht : termAt (s.nodes a).log i = termAt (s.nodes b).log i) :
    (s.nodes a).log.take i = (s.nodes b).log.take i := by
  have hi := inv_reachable hnd hr
  obtain ⟨c1, g1, hg1, _, hp1⟩ := hi.node_lm a i h1 ha
  obtain ⟨c2, g2, hg2, _, hp2⟩ := hi.node_lm b i h1 hb
  rw [ht, hg2] at hg1
  injection hg1 with h; injection h with _ h
  rw [hp1, hp2, h]

/-- **Leader completeness**: a position acknowledged by a quorum in its own term is in the log
    of every leader of every later term, with the whole prefix before it. -/
theorem leader_completeness {cfg : Config} (hnd : cfg.voterIds.Nodup) {s : AState} (hr : Reachable cfg s)
    (t c : Nat) (g : List AEntry) (i : Nat) (hg : s.glog t = some (c, g)) (h1 : 1 ≤ i) (hig : i ≤ g.length)
    (hti : termAt g i = t) (hq : QuorumAcked cfg s i t)
    (T c' : Nat) (gT : List AEntry) (hT : s.glog T = some (c', gT)) (hlt : t < T) :
    gT.take i = g.take i := by
  have hi := inv_reachable hnd hr
  rcases hi.lc T c' gT t c g i hT hg hlt h1 hig hti with h | h
  · exact h
  · exact absurd h (not_dead_of_quorumAcked hnd hq)

/-- any two committed prefixes are comparable -/
theorem committed_comparable {cfg : Config} (hnd : cfg.voterIds.Nodup) {s : AState} (hr : Reachable cfg s)
    {b1 b2 : Nat} {P1 P2 : List AEntry} (h1 : IsCommitted cfg s b1 P1) (h2 : IsCommitted cfg s b2 P2) :
    P1 <+: P2 ∨ P2 <+: P1 := by
  have hi := inv_reachable hnd hr
  rcases h1 with h0 | ⟨i1, t1, c1, g1, _, hg1, h11, hi1, ht1, hq1, hp1⟩
  · subst h0; exact Or.inl (List.nil_prefix)
  rcases h2 with h0 | ⟨i2, t2, c2, g2, _, hg2, h12, hi2, ht2, hq2, hp2⟩
  · subst h0; exact Or.inr (List.nil_prefix)
  -- both are prefixes of one leader log
  have key : ∀ (ta ca : Nat) (ga : List AEntry) (ia : Nat) (Pa : List AEntry) (tb cb : Nat) (gb : List AEntry) (ib : Nat) (Pb : List AEntry),
      s.glog ta = some (ca, ga) → 1 ≤ ia → ia ≤ ga.length → termAt ga ia = ta → QuorumAcked cfg s ia ta → Pa <+: ga.take ia →
      s.glog tb = some (cb, gb) → Pb <+: gb.take ib → ta ≤ tb → Pa <+: gb ∧ Pb <+: gb := by
    intro ta ca ga ia Pa tb cb gb ib Pb hga h1a hia hta hqa hpa hgb hpb hle
    refine ⟨?_, hpb.trans (List.take_prefix _ _)⟩
    by_cases hEq : ta = tb
    · subst hEq; rw [hga] at hgb; injection hgb with h; injection h with _ h; subst h
      exact hpa.trans (List.take_prefix _ _)
    · have := leader_completeness hnd hr ta ca ga ia hga h1a hia hta hqa tb cb gb hgb (by omega)
      rw [← this] at hpa
      exact hpa.trans (List.take_prefix _ _)
  by_cases hle : t1 ≤ t2
  · obtain ⟨ha, hb⟩ := key t1 c1 g1 i1 P1 t2 c2 g2 i2 P2 hg1 h11 hi1 ht1 hq1 hp1 hg2 hp2 hle
    exact prefix_comparable ha hb
  · obtain ⟨ha, hb⟩ := key t2 c2 g2 i2 P2 t1 c1 g1 i1 P1 hg2 h12 hi2 ht2 hq2 hp2 hg1 hp1 (by omega)
    exact (prefix_comparable ha hb).symm

/-- **State machine safety**: the committed prefixes of any two nodes — in one state, or in a
    state and any state reachable from it (across crashes, restarts, leader changes) — are
    comparable: one is a prefix of the other. A node applies its log in order up to its commit
    index, so no two state machines ever see different operations at the same position. -/
theorem state_machine_safety {cfg : Config} (hnd : cfg.voterIds.Nodup) {s s' : AState} (hr : Reachable cfg s)
    (hfrom : ReachableFrom cfg s s') (a b : Nat) :
    (s.nodes a).log.take (s.nodes a).commit <+: (s'.nodes b).log.take (s'.nodes b).commit ∨
    (s'.nodes b).log.take (s'.nodes b).commit <+: (s.nodes a).log.take (s.nodes a).commit := by
  have hi := inv_reachable hnd hr
  have hr' := reachable_trans hr hfrom
  have hi' := inv_reachable hnd hr'
  have h1 := committed_stable hnd hr hfrom (hi.commit_ok a).2
  exact committed_comparable hnd hr' h1 (hi'.commit_ok b).2

/-- **What a node has applied is never rewritten**: between a state and any later state in
    which the node's commit index is at least what it was, the log prefix up to the old commit
    index is unchanged (no truncation at or below the commit index, across any steps of any
    nodes, crashes included). -/
theorem applied_prefix_stable {cfg : Config} (hnd : cfg.voterIds.Nodup) {s s' : AState} (hr : Reachable cfg s)
    (hfrom : ReachableFrom cfg s s') (n : Nat) (hmono : (s.nodes n).commit ≤ (s'.nodes n).commit) :
    (s'.nodes n).log.take (s.nodes n).commit = (s.nodes n).log.take (s.nodes n).commit := by
  have hi := inv_reachable hnd hr
  have hi' := inv_reachable hnd (reachable_trans hr hfrom)
  have hc := (hi.commit_ok n).1
  have hc' := (hi'.commit_ok n).1
  have hlen : ((s.nodes n).log.take (s.nodes n).commit).length = (s.nodes n).commit := by
    rw [List.length_take]; omega
  have hlen' : ((s'.nodes n).log.take (s'.nodes n).commit).length = (s'.nodes n).commit := by
    rw [List.length_take]; omega
  have hpre : (s.nodes n).log.take (s.nodes n).commit <+: (s'.nodes n).log.take (s'.nodes n).commit := by
    rcases state_machine_safety hnd hr hfrom n n with h | h
    · exact h
    · have hle := h.length_le
      have heq : ((s'.nodes n).log.take (s'.nodes n).commit).length = ((s.nodes n).log.take (s.nodes n).commit).length := by omega
      rw [List.prefix_iff_eq_take] at h
      rw [heq, List.take_length] at h
      rw [h]; exact List.prefix_refl _
  rw [List.prefix_iff_eq_take, hlen, List.take_take] at hpre
  rw [Nat.min_eq_left hmono] at hpre
  exact hpre.symm

/-- **A committed prefix is never lost**: it is a prefix of the log of every leader elected
    afterwards in a later term than its witness (C04 durability, C07 completeness). -/
theorem committed_in_later_leaders {cfg : Config} (hnd : cfg.voterIds.Nodup) {s : AState} (hr : Reachable cfg s)
    (a : Nat) (T c : Nat) (gT : List AEntry) (hT : s.glog T = some (c, gT)) (hlt : (s.nodes a).term < T) :
    (s.nodes a).log.take (s.nodes a).commit <+: gT := by
  have hi := inv_reachable hnd hr
  rcases (hi.commit_ok a).2 with h0 | ⟨i, t, c1, g, htb, hg, h1, hig, hti, hq, hp⟩
  · rw [h0]; exact List.nil_prefix
  · have := leader_completeness hnd hr t c1 g i hg h1 hig hti hq T c gT hT (by omega)
    rw [← this] at hp
    exact hp.trans (List.take_prefix _ _)

/-- **Election safety** in this model: one leader log per term, hence one leader per term. -/
theorem one_leader_per_term {cfg : Config} (hnd : cfg.voterIds.Nodup) {s : AState} (hr : Reachable cfg s) (a b : Nat)
    (ha : (s.nodes a).role = .leader) (hb : (s.nodes b).role = .leader) (ht : (s.nodes a).term = (s.nodes b).term) : a = b := by
  have hi := inv_reachable hnd hr
  have h1 := hi.leader_glog a ha
  have h2 := hi.leader_glog b hb
  rw [ht, h2] at h1
  injection h1 with h; injection h with h _; exact h.symm

end Repl
end Raft
