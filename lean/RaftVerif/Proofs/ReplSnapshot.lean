/-
  Proofs/ReplSnapshot.lean — snapshot installation inside the replication-layer model.

  The model of Model/Repl.lean keeps whole logs (a compaction is invisible at this level: the
  entries below the boundary are exactly what the snapshot stands for, C10). What the code
  does to a follower's log when it installs a snapshot labelled `i` taken from the log `g` of
  the leader — keep the log if it holds the entry (i, term of g at i), otherwise discard all of
  it and continue from the snapshot — is `installLog`. Proved: under log matching it is exactly
  the model's `merge` of the request "previous index 0, entries g[1..i]", so an installation is
  a `sendAE` followed by a `recvAEok` of the model, the state after it is reachable, and every
  safety theorem of Proofs/ReplSafety.lean holds across snapshot installations.
-/
import RaftVerif.Proofs.ReplSafety
set_option linter.unusedSimpArgs false
set_option linter.unusedVariables false
namespace Raft
namespace Repl

/-- the follower's log after installing a snapshot of `g` up to index `i` -/
def installLog (log g : List AEntry) (i : Nat) : List AEntry :=
  if i ≤ log.length ∧ termAt log i = termAt g i then log else g.take i

/-- **Installation is a merge**: with log matching between the follower's log and the
    leader's, installing the snapshot (i, g) leaves the log the replication request
    (prev = 0, entries = g[1..i]) would leave. -/
theorem install_eq_merge (log g : List AEntry) (i : Nat) (hig : i ≤ g.length)
    (hm : ∀ j, 1 ≤ j → j ≤ log.length → j ≤ g.length → termAt log j = termAt g j → log.take j = g.take j) :
    merge log 0 (g.take i) = installLog log g i := by
  have hlen : (g.take i).length = i := by rw [List.length_take]; omega
  have hseg : g.take i = (g.drop 0).take (g.take i).length := by rw [hlen]; simp
  obtain ⟨h1, h2, h3⟩ := merge_spec log g (g.take i) 0 (Nat.zero_le _) (by simp) hseg
    (fun j hj1 hj2 hj3 hj4 => hm j (by omega) hj2 (by rw [hlen] at hj3; omega) hj4)
  rw [hlen, Nat.zero_add] at h1 h2 h3
  unfold installLog
  by_cases hA : i ≤ log.length ∧ termAt log i = termAt g i
  · rw [if_pos hA]
    by_cases hi0 : i = 0
    · subst hi0; exact h3 (Nat.zero_le _) (by simp)
    · exact h3 hA.1 (hm i (by omega) hA.1 hig hA.2)
  · rw [if_neg hA]
    rcases h2 with h | h
    · -- the merge left the log alone: then the log is g[1..i]
      rw [h] at h1 ⊢
      by_cases hil : i ≤ log.length
      · exact absurd ⟨hil, termAt_of_take_eq h1⟩ hA
      · rw [List.take_of_length_le (by omega)] at h1; exact h1
    · exact h

/-- **A snapshot installation is two steps of the model.** In a reachable state, for a
    leader `l`, any index `i` up to its commit index and any other node `n` whose term is not
    ahead: there are steps (the leader builds the request, the node accepts it) after which
    `n` holds `installLog`, has commit index `max commit i`, the leader's term, and no other
    node has changed. -/
theorem install_snapshot_simulated {cfg : Config} (hnd : cfg.voterIds.Nodup) {s : AState} (hr : Reachable cfg s)
    (l n i stamp : Nat) (hl : (s.nodes l).role = .leader) (hi : i ≤ (s.nodes l).commit) (hn : n ≠ l)
    (ht : (s.nodes n).term ≤ (s.nodes l).term) :
    ∃ s1 s2, Step cfg s s1 ∧ Step cfg s1 s2 ∧
      (s2.nodes n).log = installLog (s.nodes n).log (s.nodes l).log i ∧
      (s2.nodes n).commit = max (s.nodes n).commit i ∧
      (s2.nodes n).term = (s.nodes l).term ∧ (∀ j, j ≠ n → s2.nodes j = s.nodes j) := by
  have hinv := inv_reachable hnd hr
  have hcl := (hinv.commit_ok l).1
  have hig : i ≤ (s.nodes l).log.length := by omega
  have hglog := hinv.leader_glog l hl
  let m : AEMsg := ⟨(s.nodes l).term, 0, termAt (s.nodes l).log 0, ((s.nodes l).log.drop 0).take i, (s.nodes l).commit, stamp⟩
  let s1 : AState := { s with aes := m :: s.aes }
  have hstep1 : Step cfg s s1 := Step.sendAE s l 0 i stamp hl (Nat.zero_le _)
  have hrole : (s1.nodes n).role ≠ .leader ∨ (s1.nodes n).term < m.term := by
    by_cases hrl : (s.nodes n).role = .leader
    · right
      show (s.nodes n).term < (s.nodes l).term
      by_cases heq : (s.nodes n).term = (s.nodes l).term
      · exact absurd (one_leader_per_term hnd hr n l hrl hl heq) hn
      · omega
    · left; exact hrl
  have hstep2 := Step.recvAEok (cfg := cfg) s1 n m List.mem_cons_self ht hrole (Nat.zero_le _) rfl
  refine ⟨s1, _, hstep1, hstep2, ?_, ?_, ?_, ?_⟩
  · show (setNode s1 n _ n).log = _
    simp only [setNode, if_true]
    have hent : m.entries = (s.nodes l).log.take i := by simp [m]
    show merge (s.nodes n).log 0 m.entries = _
    rw [hent]
    apply install_eq_merge _ _ _ hig
    intro j hj1 hj2 hj3 hj4
    exact lm_agree hinv n (s.nodes l).term l (s.nodes l).log hglog j hj1 hj2 hj3 hj4
  · show (setNode s1 n _ n).commit = _
    simp only [setNode, if_true]
    have hent : m.entries.length = i := by simp [m]; omega
    show max (s.nodes n).commit (min (s.nodes l).commit (0 + m.entries.length)) = _
    rw [hent]
    have : min (s.nodes l).commit (0 + i) = i := by omega
    rw [this]
  · show (setNode s1 n _ n).term = _
    simp only [setNode, if_true]
    rfl
  · intro j hj
    show setNode s1 n _ j = _
    simp only [setNode, if_neg hj]
    rfl

/-- … hence the state after an installation is reachable, and log matching, leader
    completeness and state machine safety hold in it and in everything after it. -/
theorem install_snapshot_reachable {cfg : Config} (hnd : cfg.voterIds.Nodup) {s : AState} (hr : Reachable cfg s)
    (l n i stamp : Nat) (hl : (s.nodes l).role = .leader) (hi : i ≤ (s.nodes l).commit) (hn : n ≠ l)
    (ht : (s.nodes n).term ≤ (s.nodes l).term) :
    ∃ s2, Reachable cfg s2 ∧ ReachableFrom cfg s s2 ∧
      (s2.nodes n).log = installLog (s.nodes n).log (s.nodes l).log i ∧
      (s2.nodes n).commit = max (s.nodes n).commit i := by
  obtain ⟨s1, s2, h1, h2, h3, h4, _, _⟩ := install_snapshot_simulated hnd hr l n i stamp hl hi hn ht
  exact ⟨s2, Reachable.step (Reachable.step hr h1) h2, ReachableFrom.step (ReachableFrom.step ReachableFrom.base h1) h2, h3, h4⟩

/-- What the installed log is, spelled out: the snapshot's prefix is in place, and entries
    of the old log survive only when the old log already held the snapshot's last entry. -/
theorem installLog_prefix (log g : List AEntry) (i : Nat) (hig : i ≤ g.length)
    (hm : ∀ j, 1 ≤ j → j ≤ log.length → j ≤ g.length → termAt log j = termAt g j → log.take j = g.take j) :
    (installLog log g i).take i = g.take i := by
  unfold installLog
  split
  · rename_i h
    by_cases hi0 : i = 0
    · subst hi0; simp
    · exact hm i (by omega) h.1 hig h.2
  · rw [List.take_take, Nat.min_self]

end Repl
end Raft
