/-
  Proofs/ReplSteps1.lean — preservation of the invariant by the steps that do not touch any log:
  sendAE, higherTerm, crash, recvAErej, advanceCommit.
-/
import RaftVerif.Proofs.ReplInv
set_option linter.unusedSimpArgs false
set_option linter.unusedVariables false
namespace Raft
namespace Repl

@[simp] theorem setNode_same (s : AState) (i : Nat) (n : ANode) : setNode s i n i = n := by simp [setNode]
theorem setNode_other (s : AState) {i j : Nat} (n : ANode) (h : j ≠ i) : setNode s i n j = s.nodes j := by simp [setNode, h]

/-- A step that replaces node `i` by a node with the same log, a term that does not decrease,
    a role that is `follower` unless role and term are both unchanged, and a commit index that
    does not grow; everything else is kept (messages may be added by the caller separately). -/
theorem inv_node {cfg : Config} {s : AState} (hi : Inv cfg s) (i : Nat) (n' : ANode)
    (hlog : n'.log = (s.nodes i).log) (hterm : (s.nodes i).term ≤ n'.term)
    (hrole : n'.role = .follower ∨ (n'.role = (s.nodes i).role ∧ n'.term = (s.nodes i).term))
    (hcommit : n'.commit ≤ (s.nodes i).log.length ∧ IsCommitted cfg s n'.term ((s.nodes i).log.take n'.commit)) :
    Inv cfg { s with nodes := setNode s i n' } := by
  have hext : Ext s { s with nodes := setNode s i n' } := Ext.refl_of _ _ rfl rfl rfl
  have hnode : ∀ j, (setNode s i n' j).log = (s.nodes j).log ∧ (s.nodes j).term ≤ (setNode s i n' j).term := by
    intro j
    by_cases h : j = i
    · subst h; simp [hlog, hterm]
    · rw [setNode_other s n' h]; exact ⟨rfl, Nat.le_refl _⟩
  have hroleKeep : ∀ j, (setNode s i n' j).role ≠ .follower → (setNode s i n' j).role = (s.nodes j).role ∧ (setNode s i n' j).term = (s.nodes j).term := by
    intro j hj
    by_cases h : j = i
    · subst h
      simp only [setNode_same] at hj ⊢
      rcases hrole with hr | hr
      · exact absurd hr hj
      · exact hr
    · rw [setNode_other s n' h]; exact ⟨rfl, rfl⟩
  refine { votes_term := ?_, votes_unique := hi.votes_unique, rvs_term := ?_, votes_cand := ?_, self_vote := ?_, leader_glog := ?_,
           glog_votes := hi.glog_votes, glog_term := ?_, glog_cand := ?_, glog_shape := hi.glog_shape, log_shape := ?_, cand_log := ?_,
           rvs_cand := ?_, node_lm := ?_, glog_lm := hi.glog_lm, msg_ok := ?_, ack_ok := ?_, ack_prefix := ?_, lc := ?_,
           vote_prefix := ?_, commit_ok := ?_, role_pos := ?_, glog_pos := hi.glog_pos }
  rotate_right
  · intro j hj
    obtain ⟨hr, ht⟩ := hroleKeep j hj
    show 1 ≤ (setNode s i n' j).term
    rw [ht]; exact hi.role_pos j (by rw [← hr]; exact hj)
  · intro T m c h; exact Nat.le_trans (hi.votes_term T m c h) (hnode m).2
  · intro q hq; exact Nat.le_trans (hi.rvs_term q hq) (hnode q.cand).2
  · intro T m c h; exact Nat.le_trans (hi.votes_cand T m c h) (hnode c).2
  · intro j hj
    obtain ⟨hr, ht⟩ := hroleKeep j hj
    show ((setNode s i n' j).term, j, j) ∈ s.votes
    rw [ht]; exact hi.self_vote j (by rw [← hr]; exact hj)
  · intro j hj
    have hne : (setNode s i n' j).role ≠ .follower := by
      show (setNode s i n' j).role ≠ .follower
      have : (setNode s i n' j).role = .leader := hj
      rw [this]; simp
    obtain ⟨hr, ht⟩ := hroleKeep j hne
    show s.glog (setNode s i n' j).term = some (j, (setNode s i n' j).log)
    rw [ht, (hnode j).1]; exact hi.leader_glog j (by rw [← hr]; exact hj)
  · intro T c g h; exact Nat.le_trans (hi.glog_term T c g h) (hnode c).2
  · intro T c g h ht hcand
    have hne : (setNode s i n' c).role ≠ .follower := by
      have : (setNode s i n' c).role = .candidate := hcand
      rw [this]; simp
    obtain ⟨hr, ht'⟩ := hroleKeep c hne
    exact hi.glog_cand T c g h (by rw [← ht']; exact ht) (by rw [← hr]; exact hcand)
  · intro j
    show (∀ e ∈ (setNode s i n' j).log, e.term ≤ (setNode s i n' j).term) ∧ Sorted (setNode s i n' j).log
    rw [(hnode j).1]
    exact ⟨fun e he => Nat.le_trans ((hi.log_shape j).1 e he) (hnode j).2, (hi.log_shape j).2⟩
  · intro j hj e he
    have hne : (setNode s i n' j).role ≠ .follower := by
      have : (setNode s i n' j).role = .candidate := hj
      rw [this]; simp
    obtain ⟨hr, ht⟩ := hroleKeep j hne
    show e.term < (setNode s i n' j).term
    rw [ht]
    exact hi.cand_log j (by rw [← hr]; exact hj) e (by rw [← (hnode j).1]; exact he)
  · intro q hq hc ht
    have hne : (setNode s i n' q.cand).role ≠ .follower := by
      have : (setNode s i n' q.cand).role = .candidate := hc
      rw [this]; simp
    obtain ⟨hr, ht'⟩ := hroleKeep q.cand hne
    show q.lastIdx = (setNode s i n' q.cand).log.length ∧ q.lastTerm = lastTerm (setNode s i n' q.cand).log
    rw [(hnode q.cand).1]
    exact hi.rvs_cand q hq (by rw [← hr]; exact hc) (by rw [← ht']; exact ht)
  · intro n k h1 hk
    show ∃ c g, s.glog (termAt (setNode s i n' n).log k) = some (c, g) ∧ k ≤ g.length ∧ (setNode s i n' n).log.take k = g.take k
    rw [(hnode n).1]
    exact hi.node_lm n k h1 (by rw [← (hnode n).1]; exact hk)
  · intro m hm
    obtain ⟨c, g, h1, h2, h3, h4, h5, h6⟩ := hi.msg_ok m hm
    exact ⟨c, g, h1, h2, h3, h4, h5, h6.mono hext (Nat.le_refl _)⟩
  · intro m j t h
    obtain ⟨h1, h2⟩ := hi.ack_ok m j t h
    exact ⟨Nat.le_trans h1 (hnode m).2, h2⟩
  · intro m j t c g k h hg h1 hk ht
    show (setNode s i n' m).log.take k = g.take k ∨ _
    rw [(hnode m).1]
    rcases hi.ack_prefix m j t c g k h hg h1 hk ht with h | h
    · exact Or.inl h
    · exact Or.inr (h.mono hi hext)
  · intro T c gT t c' g k hT ht hlt h1 hk hterm
    rcases hi.lc T c gT t c' g k hT ht hlt h1 hk hterm with h | h
    · exact Or.inl h
    · exact Or.inr (h.mono hi hext)
  · intro T m c t j c' g k hv hc hT hlt ha hg h1 hk hterm
    have hne : (setNode s i n' c).role ≠ .follower := by
      have : (setNode s i n' c).role = .candidate := hc
      rw [this]; simp
    obtain ⟨hr, ht'⟩ := hroleKeep c hne
    show (setNode s i n' c).log.take k = g.take k ∨ _
    rw [(hnode c).1]
    rcases hi.vote_prefix T m c t j c' g k hv (by rw [← hr]; exact hc) (by rw [← ht']; exact hT) hlt ha hg h1 hk hterm with h | h
    · exact Or.inl h
    · exact Or.inr (h.mono hi hext)
  · intro n
    show (setNode s i n' n).commit ≤ (setNode s i n' n).log.length ∧ IsCommitted cfg _ (setNode s i n' n).term ((setNode s i n' n).log.take (setNode s i n' n).commit)
    by_cases h : n = i
    · subst h
      simp only [setNode_same]
      rw [hlog]
      exact ⟨hcommit.1, hcommit.2.mono hext (Nat.le_refl _)⟩
    · rw [setNode_other s n' h]
      obtain ⟨hc1, hc2⟩ := hi.commit_ok n
      exact ⟨hc1, hc2.mono hext (Nat.le_refl _)⟩

/-- the same with a commit index that does not grow -/
theorem inv_demote {cfg : Config} {s : AState} (hi : Inv cfg s) (i : Nat) (n' : ANode)
    (hlog : n'.log = (s.nodes i).log) (hterm : (s.nodes i).term ≤ n'.term)
    (hrole : n'.role = .follower ∨ (n'.role = (s.nodes i).role ∧ n'.term = (s.nodes i).term))
    (hcommit : n'.commit ≤ (s.nodes i).commit) :
    Inv cfg { s with nodes := setNode s i n' } := by
  refine inv_node hi i n' hlog hterm hrole ?_
  obtain ⟨hc1, hc2⟩ := hi.commit_ok i
  refine ⟨by omega, ?_⟩
  have hp : (s.nodes i).log.take n'.commit <+: (s.nodes i).log.take (s.nodes i).commit := by
    have : (s.nodes i).log.take n'.commit = ((s.nodes i).log.take (s.nodes i).commit).take n'.commit := by
      rw [List.take_take, Nat.min_eq_left hcommit]
    rw [this]; exact List.take_prefix _ _
  exact (hc2.prefix hp).mono (Ext.refl_of _ _ rfl rfl rfl) hterm

theorem inv_higherTerm {cfg : Config} {s : AState} (hi : Inv cfg s) (n t : Nat) (h : (s.nodes n).term < t) :
    Inv cfg { s with nodes := setNode s n { s.nodes n with term := t, role := .follower } } :=
  inv_demote hi n _ rfl (by simp; omega) (Or.inl rfl) (Nat.le_refl _)

theorem inv_crash {cfg : Config} {s : AState} (hi : Inv cfg s) (n : Nat) :
    Inv cfg { s with nodes := setNode s n { s.nodes n with role := .follower, commit := 0 } } :=
  inv_demote hi n _ rfl (Nat.le_refl _) (Or.inl rfl) (Nat.zero_le _)

theorem inv_recvAErej {cfg : Config} {s : AState} (hi : Inv cfg s) (n : Nat) (m : AEMsg) (h : (s.nodes n).term ≤ m.term) :
    Inv cfg { s with nodes := setNode s n { s.nodes n with term := m.term, role := .follower } } :=
  inv_demote hi n _ rfl h (Or.inl rfl) (Nat.le_refl _)

/-- `advanceCommit`: the new commit index is a position of the leader's own term acknowledged by a quorum. -/
theorem inv_advanceCommit {cfg : Config} {s : AState} (hi : Inv cfg s) (l i : Nat) (Q : List Nat)
    (hl : (s.nodes l).role = .leader) (hil : i ≤ (s.nodes l).log.length) (hti : termAt (s.nodes l).log i = (s.nodes l).term)
    (hQ : IsQuorum cfg Q) (ha : ∀ m ∈ Q, ∃ j, i ≤ j ∧ (m, j, (s.nodes l).term) ∈ s.acked) :
    Inv cfg { s with nodes := setNode s l { s.nodes l with commit := max (s.nodes l).commit i } } := by
  refine inv_node hi l _ rfl (Nat.le_refl _) (Or.inr ⟨rfl, rfl⟩) ?_
  obtain ⟨hc1, hc2⟩ := hi.commit_ok l
  show max (s.nodes l).commit i ≤ (s.nodes l).log.length ∧ IsCommitted cfg s (s.nodes l).term ((s.nodes l).log.take (max (s.nodes l).commit i))
  refine ⟨by omega, ?_⟩
  by_cases hle : i ≤ (s.nodes l).commit
  · rw [Nat.max_eq_left hle]; exact hc2
  · rw [Nat.max_eq_right (by omega)]
    have hg := hi.leader_glog l hl
    by_cases h0 : i = 0
    · subst h0; simp [IsCommitted]
    · exact Or.inr ⟨i, (s.nodes l).term, l, (s.nodes l).log, Nat.le_refl _, hg, by omega, hil, hti, ⟨Q, hQ, ha⟩, List.prefix_refl _⟩

/-- `sendAE`: the request is a segment of the leader's log, which is the ghost log of its term. -/
theorem inv_sendAE {cfg : Config} {s : AState} (hi : Inv cfg s) (l prev k stamp : Nat)
    (hl : (s.nodes l).role = .leader) (hp : prev ≤ (s.nodes l).log.length) :
    Inv cfg { s with aes := ⟨(s.nodes l).term, prev, termAt (s.nodes l).log prev, ((s.nodes l).log.drop prev).take k, (s.nodes l).commit, stamp⟩ :: s.aes } := by
  have hext : Ext s { s with aes := ⟨(s.nodes l).term, prev, termAt (s.nodes l).log prev, ((s.nodes l).log.drop prev).take k, (s.nodes l).commit, stamp⟩ :: s.aes } :=
    Ext.refl_of _ _ rfl rfl rfl
  refine { hi with msg_ok := ?_ }
  intro m hm
  rcases List.mem_cons.mp hm with hnew | hold
  · subst hnew
    obtain ⟨hc1, hc2⟩ := hi.commit_ok l
    refine ⟨l, (s.nodes l).log, hi.leader_glog l hl, ?_, ?_, rfl, hc1, hc2⟩
    · simp only [List.length_take, List.length_drop]; omega
    · simp only [List.length_take, List.length_drop]
      rw [List.take_eq_take_iff]
      simp only [List.length_drop]
      omega
  · exact hi.msg_ok m hold

end Repl
end Raft
