/-
  Proofs/ReplSteps2.lean — preservation of the invariant by the election steps: timeout, grant.
-/
import RaftVerif.Proofs.ReplSteps1
set_option linter.unusedSimpArgs false
set_option linter.unusedVariables false
namespace Raft
namespace Repl

theorem inv_timeout {cfg : Config} {s : AState} (hi : Inv cfg s) (i : Nat) (hnl : (s.nodes i).role ≠ .leader) :
    Inv cfg { s with
      nodes := setNode s i { s.nodes i with term := (s.nodes i).term + 1, role := .candidate },
      votes := ((s.nodes i).term + 1, i, i) :: s.votes,
      rvs := ⟨(s.nodes i).term + 1, i, (s.nodes i).log.length, lastTerm (s.nodes i).log⟩ :: s.rvs } := by
  let n' : ANode := { s.nodes i with term := (s.nodes i).term + 1, role := .candidate }
  let s' : AState := { s with nodes := setNode s i n', votes := ((s.nodes i).term + 1, i, i) :: s.votes,
                              rvs := ⟨(s.nodes i).term + 1, i, (s.nodes i).log.length, lastTerm (s.nodes i).log⟩ :: s.rvs }
  show Inv cfg s'
  have hext : Ext s s' := ⟨fun x h => List.mem_cons_of_mem _ h, fun x h => h, fun t c g h => ⟨g, h, List.prefix_refl g⟩, fun _ _ _ h => Or.inl h⟩
  have hnode : ∀ j, (s'.nodes j).log = (s.nodes j).log ∧ (s.nodes j).term ≤ (s'.nodes j).term ∧ (s'.nodes j).commit = (s.nodes j).commit := by
    intro j
    by_cases h : j = i
    · subst h; simp [s', n']
    · show (setNode s i n' j).log = _ ∧ _ ≤ (setNode s i n' j).term ∧ (setNode s i n' j).commit = _
      rw [setNode_other s n' h]; exact ⟨rfl, Nat.le_refl _, rfl⟩
  have hother : ∀ j, j ≠ i → s'.nodes j = s.nodes j := fun j h => setNode_other s n' h
  have hself : s'.nodes i = n' := setNode_same s i n'
  refine { votes_term := ?_, votes_unique := ?_, rvs_term := ?_, votes_cand := ?_, self_vote := ?_, leader_glog := ?_,
           glog_votes := ?_, glog_term := ?_, glog_cand := ?_, glog_shape := hi.glog_shape, log_shape := ?_, cand_log := ?_,
           rvs_cand := ?_, node_lm := ?_, glog_lm := hi.glog_lm, msg_ok := ?_, ack_ok := ?_, ack_prefix := ?_, lc := ?_,
           vote_prefix := ?_, commit_ok := ?_, role_pos := ?_, glog_pos := hi.glog_pos }
  rotate_right
  · intro j hj
    by_cases h : j = i
    · subst h; rw [hself]; show 1 ≤ (s.nodes j).term + 1; omega
    · rw [hother j h] at hj ⊢; exact hi.role_pos j hj
  · -- votes_term
    intro T m c h
    rcases List.mem_cons.mp h with hnew | hold
    · injection hnew with h1 h2; injection h2 with h2 h3
      subst h1 h2; rw [hself]; exact Nat.le_refl _
    · exact Nat.le_trans (hi.votes_term T m c hold) (hnode m).2.1
  · -- votes_unique
    intro T m c c' h h'
    rcases List.mem_cons.mp h with hnew | hold <;> rcases List.mem_cons.mp h' with hnew' | hold'
    · injection hnew with _ h2; injection h2 with _ h3
      injection hnew' with _ h2'; injection h2' with _ h3'
      rw [h3, h3']
    · injection hnew with h1 h2; injection h2 with h2 h3
      subst h1 h2
      have := hi.votes_term _ _ _ hold'; omega
    · injection hnew' with h1 h2; injection h2 with h2 h3
      subst h1 h2
      have := hi.votes_term _ _ _ hold; omega
    · exact hi.votes_unique T m c c' hold hold'
  · -- rvs_term
    intro q hq
    rcases List.mem_cons.mp hq with hnew | hold
    · subst hnew; show (s.nodes i).term + 1 ≤ (s'.nodes i).term; rw [hself]; exact Nat.le_refl _
    · exact Nat.le_trans (hi.rvs_term q hold) (hnode q.cand).2.1
  · -- votes_cand
    intro T m c h
    rcases List.mem_cons.mp h with hnew | hold
    · injection hnew with h1 h2; injection h2 with h2 h3
      subst h1 h3; rw [hself]; exact Nat.le_refl _
    · exact Nat.le_trans (hi.votes_cand T m c hold) (hnode c).2.1
  · -- self_vote
    intro j hj
    by_cases h : j = i
    · subst h; rw [hself]; exact List.mem_cons_self
    · rw [hother j h] at hj ⊢; exact List.mem_cons_of_mem _ (hi.self_vote j hj)
  · -- leader_glog
    intro j hj
    by_cases h : j = i
    · subst h; rw [hself] at hj; simp [n'] at hj
    · rw [hother j h] at hj ⊢; exact hi.leader_glog j hj
  · -- glog_votes
    intro T c g h
    obtain ⟨Q, hQ, hv⟩ := hi.glog_votes T c g h
    exact ⟨Q, hQ, fun m hm => List.mem_cons_of_mem _ (hv m hm)⟩
  · intro T c g h; exact Nat.le_trans (hi.glog_term T c g h) (hnode c).2.1
  · -- glog_cand
    intro T c g h ht hcand
    by_cases hc : c = i
    · subst hc
      rw [hself] at ht
      have := hi.glog_term T c g h
      simp [n'] at ht; omega
    · rw [hother c hc] at ht hcand; exact hi.glog_cand T c g h ht hcand
  · -- log_shape
    intro j
    rw [(hnode j).1]
    exact ⟨fun e he => Nat.le_trans ((hi.log_shape j).1 e he) (hnode j).2.1, (hi.log_shape j).2⟩
  · -- cand_log
    intro j hj e he
    by_cases h : j = i
    · subst h
      rw [hself] at he ⊢
      have := (hi.log_shape j).1 e he
      show e.term < (s.nodes j).term + 1
      omega
    · rw [hother j h] at hj he ⊢; exact hi.cand_log j hj e he
  · -- rvs_cand
    intro q hq hc ht
    rcases List.mem_cons.mp hq with hnew | hold
    · subst hnew
      show (s.nodes i).log.length = (s'.nodes i).log.length ∧ lastTerm (s.nodes i).log = lastTerm (s'.nodes i).log
      rw [hself]; exact ⟨rfl, rfl⟩
    · by_cases h : q.cand = i
      · have h1 := hi.rvs_term q hold
        rw [h] at ht h1
        rw [hself] at ht
        simp [n'] at ht; omega
      · rw [hother _ h] at hc ht ⊢; exact hi.rvs_cand q hold hc ht
  · -- node_lm
    intro n k h1 hk
    rw [(hnode n).1] at hk ⊢
    exact hi.node_lm n k h1 hk
  · -- msg_ok
    intro m hm
    obtain ⟨c, g, h1, h2, h3, h4, h5, h6⟩ := hi.msg_ok m hm
    exact ⟨c, g, h1, h2, h3, h4, h5, h6.mono hext (Nat.le_refl _)⟩
  · intro m j t h
    obtain ⟨h1, h2⟩ := hi.ack_ok m j t h
    exact ⟨Nat.le_trans h1 (hnode m).2.1, h2⟩
  · -- ack_prefix
    intro m j t c g k h hg h1 hk ht
    rw [(hnode m).1]
    rcases hi.ack_prefix m j t c g k h hg h1 hk ht with h | h
    · exact Or.inl h
    · exact Or.inr (h.mono hi hext)
  · -- lc
    intro T c gT t c' g k hT ht hlt h1 hk hterm
    rcases hi.lc T c gT t c' g k hT ht hlt h1 hk hterm with h | h
    · exact Or.inl h
    · exact Or.inr (h.mono hi hext)
  · -- vote_prefix
    intro T m c t j c' g k hv hc hT hlt ha hg h1 hk hterm
    rw [(hnode c).1]
    rcases List.mem_cons.mp hv with hnew | hold
    · injection hnew with e1 e2; injection e2 with e2 e3
      subst e2 e3
      -- the self vote: the candidate's own acknowledgements
      rcases hi.ack_prefix _ j t c' g k ha hg h1 hk hterm with h | h
      · exact Or.inl h
      · exact Or.inr (h.mono hi hext)
    · by_cases hci : c = i
      · subst hci
        have := hi.votes_cand T m c hold
        rw [hself] at hT
        simp [n'] at hT; omega
      · rw [hother c hci] at hc hT
        rcases hi.vote_prefix T m c t j c' g k hold hc hT hlt ha hg h1 hk hterm with h | h
        · exact Or.inl h
        · exact Or.inr (h.mono hi hext)
  · -- commit_ok
    intro n
    obtain ⟨hc1, hc2⟩ := hi.commit_ok n
    rw [(hnode n).1, (hnode n).2.2]
    exact ⟨hc1, hc2.mono hext (hnode n).2.1⟩

theorem lastTerm_ge_termAt {l : List AEntry} (hs : Sorted l) {k : Nat} (h1 : 1 ≤ k) (hk : k ≤ l.length) : termAt l k ≤ lastTerm l :=
  termAt_le_of_sorted hs h1 hk (Nat.le_refl _)

/-- The vote restriction: if the voter's log holds the prefix of a leader-log position (k, t)
    and the candidate's log is at least as up to date, the candidate's log holds it too —
    unless the position is dead. -/
theorem uptodate_prefix {cfg : Config} {s : AState} (hi : Inv cfg s) (m c T : Nat) (q : RVMsg)
    (hcand : (s.nodes c).role = .candidate) (hcT : (s.nodes c).term = T)
    (hqi : q.lastIdx = (s.nodes c).log.length) (hqt : q.lastTerm = lastTerm (s.nodes c).log)
    (hup : upToDate q (s.nodes m).log)
    (t c' : Nat) (g : List AEntry) (hg : s.glog t = some (c', g)) (hlt : t < T)
    (k : Nat) (h1 : 1 ≤ k) (hkg : k ≤ g.length) (hterm : termAt g k = t)
    (hm : (s.nodes m).log.take k = g.take k) :
    (s.nodes c).log.take k = g.take k ∨ Dead cfg s k t := by
  have hkm : k ≤ (s.nodes m).log.length := length_of_take_eq hm hkg
  have htm : termAt (s.nodes m).log k = t := by rw [termAt_of_take_eq hm]; exact hterm
  have hlm : t ≤ lastTerm (s.nodes m).log := by rw [← htm]; exact lastTerm_ge_termAt (hi.log_shape m).2 h1 hkm
  have ht1 : 1 ≤ t := hi.glog_pos t c' g hg
  -- the candidate's last term is at least t
  have htc : t ≤ lastTerm (s.nodes c).log := by
    rcases hup with h | ⟨h, _⟩ <;> omega
  -- so its log is not empty
  have hL : 1 ≤ (s.nodes c).log.length := by
    by_cases h0 : (s.nodes c).log.length = 0
    · have : (s.nodes c).log = [] := List.eq_nil_of_length_eq_zero h0
      rw [this] at htc; simp [lastTerm, termAt] at htc; omega
    · omega
  obtain ⟨cc, gc, hgc, hLg, hpc⟩ := hi.node_lm c (s.nodes c).log.length hL (Nat.le_refl _)
  have hpc' : (s.nodes c).log = gc.take (s.nodes c).log.length := by rw [← hpc, List.take_length]
  by_cases hEq : lastTerm (s.nodes c).log = t
  · -- same last term: the candidate's log is at least as long as the voter's
    have hgEq : gc = g := by
      have : s.glog (termAt (s.nodes c).log (s.nodes c).log.length) = some (c', g) := by
        show s.glog (lastTerm (s.nodes c).log) = some (c', g); rw [hEq]; exact hg
      rw [this] at hgc; injection hgc with h; injection h with _ h2; exact h2.symm
    subst hgEq
    have hlen : k ≤ (s.nodes c).log.length := by
      rcases hup with h | ⟨_, h⟩ <;> omega
    left
    rw [hpc', List.take_take, Nat.min_eq_left hlen]
  · have hgt : t < lastTerm (s.nodes c).log := by omega
    have hltT : lastTerm (s.nodes c).log < T := by
      obtain ⟨e, he, het⟩ := termAt_mem hL (Nat.le_refl (s.nodes c).log.length)
      have := hi.cand_log c hcand e he
      show termAt (s.nodes c).log (s.nodes c).log.length < T
      rw [← het, ← hcT]; exact this
    rcases hi.lc (lastTerm (s.nodes c).log) cc gc t c' g k hgc hg hgt h1 hkg hterm with h | h
    · left
      have hkgc : k ≤ gc.length := length_of_take_eq h hkg
      have hterm_gc : termAt gc k = t := by rw [termAt_of_take_eq h]; exact hterm
      have hlast_gc : termAt gc (s.nodes c).log.length = lastTerm (s.nodes c).log := by
        show _ = termAt (s.nodes c).log (s.nodes c).log.length
        exact (termAt_of_take_eq hpc).symm
      have hklt : k < (s.nodes c).log.length :=
        index_lt_of_term_lt (hi.glog_shape _ cc gc hgc).2.1 h1 hL hLg hkgc (by rw [hterm_gc, hlast_gc]; exact hgt)
      rw [hpc', List.take_take, Nat.min_eq_left (by omega)]; exact h
    · exact Or.inr h

theorem inv_grant {cfg : Config} {s : AState} (hi : Inv cfg s) (m : Nat) (q : RVMsg)
    (hq : q ∈ s.rvs) (hterm : (s.nodes m).term ≤ q.term)
    (hone : ∀ c, (q.term, m, c) ∈ s.votes → c = q.cand) (hup : upToDate q (s.nodes m).log) :
    Inv cfg { s with
      nodes := setNode s m { s.nodes m with term := q.term,
                                            role := if (s.nodes m).term < q.term then .follower else (s.nodes m).role },
      votes := (q.term, m, q.cand) :: s.votes } := by
  let n' : ANode := { s.nodes m with term := q.term, role := if (s.nodes m).term < q.term then .follower else (s.nodes m).role }
  let s' : AState := { s with nodes := setNode s m n', votes := (q.term, m, q.cand) :: s.votes }
  show Inv cfg s'
  have hext : Ext s s' := ⟨fun x h => List.mem_cons_of_mem _ h, fun x h => h, fun t c g h => ⟨g, h, List.prefix_refl g⟩, fun _ _ _ h => Or.inl h⟩
  have hother : ∀ j, j ≠ m → s'.nodes j = s.nodes j := fun j h => setNode_other s n' h
  have hself : s'.nodes m = n' := setNode_same s m n'
  have hnode : ∀ j, (s'.nodes j).log = (s.nodes j).log ∧ (s.nodes j).term ≤ (s'.nodes j).term ∧ (s'.nodes j).commit = (s.nodes j).commit := by
    intro j
    by_cases h : j = m
    · subst h; rw [hself]; exact ⟨rfl, hterm, rfl⟩
    · rw [hother j h]; exact ⟨rfl, Nat.le_refl _, rfl⟩
  have hroleKeep : ∀ j, (s'.nodes j).role ≠ .follower → (s'.nodes j).role = (s.nodes j).role ∧ (s'.nodes j).term = (s.nodes j).term := by
    intro j hj
    by_cases h : j = m
    · subst h
      rw [hself] at hj ⊢
      simp only [n'] at hj ⊢
      by_cases hlt : (s.nodes j).term < q.term
      · simp [hlt] at hj
      · simp [hlt]; omega
    · rw [hother j h]; exact ⟨rfl, rfl⟩
  have hne_of : ∀ j r, (s'.nodes j).role = r → r ≠ .follower → (s'.nodes j).role ≠ .follower := fun j r h hr => by rw [h]; exact hr
  refine { votes_term := ?_, votes_unique := ?_, rvs_term := ?_, votes_cand := ?_, self_vote := ?_, leader_glog := ?_,
           glog_votes := ?_, glog_term := ?_, glog_cand := ?_, glog_shape := hi.glog_shape, log_shape := ?_, cand_log := ?_,
           rvs_cand := ?_, node_lm := ?_, glog_lm := hi.glog_lm, msg_ok := ?_, ack_ok := ?_, ack_prefix := ?_, lc := ?_,
           vote_prefix := ?_, commit_ok := ?_, role_pos := ?_, glog_pos := hi.glog_pos }
  · -- votes_term
    intro T v c h
    rcases List.mem_cons.mp h with hnew | hold
    · injection hnew with h1 h2; injection h2 with h2 h3
      subst h1 h2; rw [hself]; exact Nat.le_refl _
    · exact Nat.le_trans (hi.votes_term T v c hold) (hnode v).2.1
  · -- votes_unique
    intro T v c c' h h'
    rcases List.mem_cons.mp h with hnew | hold <;> rcases List.mem_cons.mp h' with hnew' | hold'
    · injection hnew with _ h2; injection h2 with _ h3
      injection hnew' with _ h2'; injection h2' with _ h3'
      rw [h3, h3']
    · injection hnew with h1 h2; injection h2 with h2 h3
      subst h1 h2 h3
      exact (hone c' hold').symm
    · injection hnew' with h1 h2; injection h2 with h2 h3
      subst h1 h2 h3
      exact hone c hold
    · exact hi.votes_unique T v c c' hold hold'
  · intro r hr; exact Nat.le_trans (hi.rvs_term r hr) (hnode r.cand).2.1
  · -- votes_cand
    intro T v c h
    rcases List.mem_cons.mp h with hnew | hold
    · injection hnew with h1 h2; injection h2 with h2 h3
      subst h1 h3
      exact Nat.le_trans (hi.rvs_term q hq) (hnode q.cand).2.1
    · exact Nat.le_trans (hi.votes_cand T v c hold) (hnode c).2.1
  · -- self_vote
    intro j hj
    obtain ⟨hr, ht⟩ := hroleKeep j hj
    rw [ht]; exact List.mem_cons_of_mem _ (hi.self_vote j (by rw [← hr]; exact hj))
  · -- leader_glog
    intro j hj
    obtain ⟨hr, ht⟩ := hroleKeep j (hne_of j _ hj (by simp))
    rw [ht, (hnode j).1]; exact hi.leader_glog j (by rw [← hr]; exact hj)
  · intro T c g h
    obtain ⟨Q, hQ, hv⟩ := hi.glog_votes T c g h
    exact ⟨Q, hQ, fun v hv' => List.mem_cons_of_mem _ (hv v hv')⟩
  · intro T c g h; exact Nat.le_trans (hi.glog_term T c g h) (hnode c).2.1
  · intro T c g h ht hcand
    obtain ⟨hr, ht'⟩ := hroleKeep c (hne_of c _ hcand (by simp))
    exact hi.glog_cand T c g h (by rw [← ht']; exact ht) (by rw [← hr]; exact hcand)
  · intro j
    rw [(hnode j).1]
    exact ⟨fun e he => Nat.le_trans ((hi.log_shape j).1 e he) (hnode j).2.1, (hi.log_shape j).2⟩
  · intro j hj e he
    obtain ⟨hr, ht⟩ := hroleKeep j (hne_of j _ hj (by simp))
    rw [ht]
    exact hi.cand_log j (by rw [← hr]; exact hj) e (by rw [← (hnode j).1]; exact he)
  · intro r hr hc ht
    obtain ⟨hr', ht'⟩ := hroleKeep r.cand (hne_of _ _ hc (by simp))
    rw [(hnode r.cand).1]
    exact hi.rvs_cand r hr (by rw [← hr']; exact hc) (by rw [← ht']; exact ht)
  · intro n k h1 hk
    rw [(hnode n).1] at hk ⊢
    exact hi.node_lm n k h1 hk
  · intro a ha
    obtain ⟨c, g, h1, h2, h3, h4, h5, h6⟩ := hi.msg_ok a ha
    exact ⟨c, g, h1, h2, h3, h4, h5, h6.mono hext (Nat.le_refl _)⟩
  · intro v j t h
    obtain ⟨h1, h2⟩ := hi.ack_ok v j t h
    exact ⟨Nat.le_trans h1 (hnode v).2.1, h2⟩
  · intro v j t c g k h hg h1 hk ht
    rw [(hnode v).1]
    rcases hi.ack_prefix v j t c g k h hg h1 hk ht with h | h
    · exact Or.inl h
    · exact Or.inr (h.mono hi hext)
  · intro T c gT t c' g k hT ht hlt h1 hk hterm'
    rcases hi.lc T c gT t c' g k hT ht hlt h1 hk hterm' with h | h
    · exact Or.inl h
    · exact Or.inr (h.mono hi hext)
  · -- vote_prefix
    intro T v c t j c' g k hv hc hT hlt ha hg h1 hk hterm'
    obtain ⟨hr, ht'⟩ := hroleKeep c (hne_of c _ hc (by simp))
    have hcold : (s.nodes c).role = .candidate := by rw [← hr]; exact hc
    have hTold : (s.nodes c).term = T := by rw [← ht']; exact hT
    rw [(hnode c).1]
    rcases List.mem_cons.mp hv with hnew | hold
    · injection hnew with e1 e2; injection e2 with e2 e3
      subst e1 e2 e3
      obtain ⟨_, _, gg, hgg, hjg⟩ := hi.ack_ok v j t ha
      rw [hg] at hgg; injection hgg with hgg; injection hgg with _ hgg; subst hgg
      rcases hi.ack_prefix v j t c' g k ha hg h1 hk hterm' with h | h
      · obtain ⟨hqi, hqt⟩ := hi.rvs_cand q hq hcold hTold
        rcases uptodate_prefix hi v q.cand q.term q hcold hTold hqi hqt hup t c' g hg hlt k h1 (by omega) hterm' h with h | h
        · exact Or.inl h
        · exact Or.inr (h.mono hi hext)
      · exact Or.inr (h.mono hi hext)
    · rcases hi.vote_prefix T v c t j c' g k hold hcold hTold hlt ha hg h1 hk hterm' with h | h
      · exact Or.inl h
      · exact Or.inr (h.mono hi hext)
  · intro n
    obtain ⟨hc1, hc2⟩ := hi.commit_ok n
    rw [(hnode n).1, (hnode n).2.2]
    exact ⟨hc1, hc2.mono hext (hnode n).2.1⟩
  · intro j hj
    obtain ⟨hr, ht⟩ := hroleKeep j hj
    rw [ht]; exact hi.role_pos j (by rw [← hr]; exact hj)

end Repl
end Raft
