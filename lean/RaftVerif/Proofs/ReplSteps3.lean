/-
  Proofs/ReplSteps3.lean — preservation of the invariant by the steps in which a leader extends
  its own log: clientAppend and becomeLeader (one common lemma, `inv_append`).
-/
import RaftVerif.Proofs.ReplSteps2
set_option linter.unusedSimpArgs false
set_option linter.unusedVariables false
namespace Raft
namespace Repl

theorem drop_take_prefix_stable {g g' : List AEntry} (h : g <+: g') {p n : Nat} (hb : p + n ≤ g.length) :
    (g'.drop p).take n = (g.drop p).take n := by
  obtain ⟨r, hr⟩ := h
  subst hr
  rw [List.drop_append_of_le_length (by omega), List.take_append_of_le_length (by simp; omega)]

theorem AckedGE_cons_ne {s : AState} {a : Nat × Nat × Nat} {m i t : Nat} (h : a.2.2 ≠ t ∨ a.1 ≠ m) :
    AckedGE { s with acked := a :: s.acked } m i t ↔ AckedGE s m i t := by
  constructor
  · rintro ⟨j, hj, hm⟩
    rcases List.mem_cons.mp hm with hnew | hold
    · exfalso
      rcases h with h | h
      · exact h (by rw [← hnew])
      · exact h (by rw [← hnew])
    · exact ⟨j, hj, hold⟩
  · rintro ⟨j, hj, hm⟩; exact ⟨j, hj, List.mem_cons_of_mem _ hm⟩

/-- The node `l`, candidate or leader of term `T` with the votes of a quorum, appends one entry
    of term `T` and is (or stays) leader; the ghost log of `T` becomes its new log. -/
theorem inv_append {cfg : Config} (hnd : cfg.voterIds.Nodup) {s : AState} (hi : Inv cfg s) (l T : Nat) (e : AEntry) (Q : List Nat)
    (hT : (s.nodes l).term = T) (hrole : (s.nodes l).role ≠ .follower)
    (hg : s.glog T = none ∨ s.glog T = some (l, (s.nodes l).log))
    (hQ : IsQuorum cfg Q) (hQv : ∀ m ∈ Q, (T, m, l) ∈ s.votes)
    (hnew : s.glog T = none → ∀ t c' g i, s.glog t = some (c', g) → t < T → 1 ≤ i → i ≤ g.length → termAt g i = t →
      (s.nodes l).log.take i = g.take i ∨ (∀ m ∈ Q, ¬ AckedGE s m i t) ∨ Dead cfg s i t)
    (he : e.term = T) :
    Inv cfg { s with
      nodes := setNode s l { s.nodes l with role := .leader, log := (s.nodes l).log ++ [e] },
      glog := fun t => if t = T then some (l, (s.nodes l).log ++ [e]) else s.glog t,
      acked := (l, (s.nodes l).log.length + 1, T) :: s.acked } := by
  let L := (s.nodes l).log
  let n' : ANode := { s.nodes l with role := .leader, log := L ++ [e] }
  let s' : AState := { s with nodes := setNode s l n',
                              glog := fun t => if t = T then some (l, L ++ [e]) else s.glog t,
                              acked := (l, L.length + 1, T) :: s.acked }
  show Inv cfg s'
  have hother : ∀ j, j ≠ l → s'.nodes j = s.nodes j := fun j h => setNode_other s n' h
  have hself : s'.nodes l = n' := setNode_same s l n'
  have hglogT : s'.glog T = some (l, L ++ [e]) := by simp [s']
  have hglogNe : ∀ t, t ≠ T → s'.glog t = s.glog t := by intro t h; simp [s', h]
  -- every old ghost log survives, possibly extended
  have hgold : ∀ t c g, s.glog t = some (c, g) → ∃ g', s'.glog t = some (c, g') ∧ g <+: g' := by
    intro t c g h
    by_cases ht : t = T
    · subst ht
      rcases hg with h0 | h1
      · rw [h0] at h; simp at h
      · rw [h1] at h; injection h with h; injection h with hc hgg
        subst hc hgg
        exact ⟨L ++ [e], hglogT, List.prefix_append _ _⟩
    · exact ⟨g, by rw [hglogNe t ht]; exact h, List.prefix_refl g⟩
  -- every new ghost log is the new one or an old one
  have hgnew : ∀ t c g', s'.glog t = some (c, g') → (t = T ∧ c = l ∧ g' = L ++ [e]) ∨ (t ≠ T ∧ s.glog t = some (c, g')) := by
    intro t c g' h
    by_cases ht : t = T
    · subst ht; rw [hglogT] at h; injection h with h; injection h with h1 h2
      exact Or.inl ⟨rfl, h1.symm, h2.symm⟩
    · exact Or.inr ⟨ht, by rw [← hglogNe t ht]; exact h⟩
  have hext : Ext s s' := by
    refine ⟨fun x h => h, fun x h => List.mem_cons_of_mem _ h, hgold, ?_⟩
    intro m j t h
    rcases List.mem_cons.mp h with hnew' | hold
    · injection hnew' with h1 h2; injection h2 with h2 h3
      subst h1 h3; right; rw [hT]; exact Nat.le_refl _
    · exact Or.inl hold
  have hLshape := hi.log_shape l
  have hLT : ∀ x ∈ L, x.term ≤ T := fun x hx => by rw [← hT]; exact hLshape.1 x hx
  have hT1 : 1 ≤ T := by rw [← hT]; exact hi.role_pos l hrole
  -- acknowledgements of term T reach at most the old length
  have hackT : ∀ m j, (m, j, T) ∈ s.acked → j ≤ L.length := by
    intro m j h
    obtain ⟨_, c, g, hgg, hj⟩ := hi.ack_ok m j T h
    rcases hg with h0 | h1
    · rw [h0] at hgg; simp at hgg
    · rw [h1] at hgg; injection hgg with hgg; injection hgg with _ hgg; subst hgg; exact hj
  -- the new position is dead for every later leader that already exists
  have hdeadNew : ∀ T1 c1 g1, T < T1 → s.glog T1 = some (c1, g1) → Dead cfg s' (L.length + 1) T := by
    intro T1 c1 g1 hlt hg1
    obtain ⟨Q1, hQ1, hv1⟩ := hi.glog_votes T1 c1 g1 hg1
    refine ⟨T1, c1, g1, Q1, hlt, by rw [hglogNe T1 (by omega)]; exact hg1, hQ1, hv1, ?_⟩
    intro m hm ⟨j, hj, hmem⟩
    rcases List.mem_cons.mp hmem with hn | ho
    · injection hn with h1 h2
      subst h1
      have := hi.votes_term T1 m c1 (hv1 m hm)
      omega
    · have := hackT m j ho; omega
  have hnode : ∀ j, (s.nodes j).term = (s'.nodes j).term ∧ (s'.nodes j).commit = (s.nodes j).commit := by
    intro j
    by_cases h : j = l
    · subst h; rw [hself]; exact ⟨rfl, rfl⟩
    · rw [hother j h]; exact ⟨rfl, rfl⟩
  have hlogOther : ∀ j, j ≠ l → (s'.nodes j).log = (s.nodes j).log := fun j h => by rw [hother j h]
  have hlogSelf : (s'.nodes l).log = L ++ [e] := by rw [hself]
  have hroleOther : ∀ j, j ≠ l → (s'.nodes j).role = (s.nodes j).role := fun j h => by rw [hother j h]
  have hroleSelf : (s'.nodes l).role = .leader := by rw [hself]
  -- prefixes of old logs are unchanged
  have htakeNode : ∀ j k, k ≤ (s.nodes j).log.length → (s'.nodes j).log.take k = (s.nodes j).log.take k := by
    intro j k hk
    by_cases h : j = l
    · subst h; rw [hlogSelf]; exact List.take_append_of_le_length hk
    · rw [hlogOther j h]
  refine { votes_term := ?_, votes_unique := hi.votes_unique, rvs_term := ?_, votes_cand := ?_, self_vote := ?_, leader_glog := ?_,
           glog_votes := ?_, glog_term := ?_, glog_cand := ?_, glog_shape := ?_, log_shape := ?_, cand_log := ?_,
           rvs_cand := ?_, node_lm := ?_, glog_lm := ?_, msg_ok := ?_, ack_ok := ?_, ack_prefix := ?_, lc := ?_,
           vote_prefix := ?_, commit_ok := ?_, role_pos := ?_, glog_pos := ?_ }
  · intro T' m c h; rw [← (hnode m).1]; exact hi.votes_term T' m c h
  · intro q hq; rw [← (hnode q.cand).1]; exact hi.rvs_term q hq
  · intro T' m c h; rw [← (hnode c).1]; exact hi.votes_cand T' m c h
  · -- self_vote
    intro j hj
    rw [← (hnode j).1]
    by_cases h : j = l
    · subst h; exact hi.self_vote j hrole
    · rw [hroleOther j h] at hj; exact hi.self_vote j hj
  · -- leader_glog
    intro j hj
    by_cases h : j = l
    · subst h; rw [← (hnode j).1, hT, hlogSelf]; exact hglogT
    · rw [hroleOther j h] at hj
      have hlg := hi.leader_glog j hj
      rw [← (hnode j).1, hlogOther j h]
      have hne : (s.nodes j).term ≠ T := by
        intro hEq
        rw [hEq] at hlg
        rcases hg with h0 | h1
        · rw [h0] at hlg; simp at hlg
        · rw [h1] at hlg; injection hlg with hlg; injection hlg with hlg _; exact h hlg.symm
      rw [hglogNe _ hne]; exact hlg
  · -- glog_votes
    intro T' c g h
    rcases hgnew T' c g h with ⟨h1, h2, _⟩ | ⟨_, h2⟩
    · subst h1 h2; exact ⟨Q, hQ, hQv⟩
    · exact hi.glog_votes T' c g h2
  · -- glog_term
    intro T' c g h
    rw [← (hnode c).1]
    rcases hgnew T' c g h with ⟨h1, h2, _⟩ | ⟨_, h2⟩
    · subst h1 h2; rw [hT]; exact Nat.le_refl _
    · exact hi.glog_term T' c g h2
  · -- glog_cand
    intro T' c g h ht hcand
    by_cases hc : c = l
    · subst hc; rw [hroleSelf] at hcand; simp at hcand
    · rw [hroleOther c hc] at hcand
      rw [← (hnode c).1] at ht
      rcases hgnew T' c g h with ⟨_, h2, _⟩ | ⟨_, h2⟩
      · exact hc h2
      · exact hi.glog_cand T' c g h2 ht hcand
  · -- glog_shape
    intro T' c g h
    rcases hgnew T' c g h with ⟨h1, h2, h3⟩ | ⟨_, h2⟩
    · subst h1 h2 h3
      refine ⟨?_, sorted_append_one hLshape.2 e (fun x hx => by rw [he]; exact hLT x hx), by simp, by rw [lastTerm_append]; exact he⟩
      intro x hx
      rcases List.mem_append.mp hx with hx | hx
      · exact hLT x hx
      · simp only [List.mem_singleton] at hx; rw [hx, he]; exact Nat.le_refl _
    · exact hi.glog_shape T' c g h2
  · -- log_shape
    intro j
    rw [← (hnode j).1]
    by_cases h : j = l
    · subst h
      rw [hlogSelf]
      refine ⟨?_, sorted_append_one hLshape.2 e (fun x hx => by rw [he]; exact hLT x hx)⟩
      intro x hx
      rcases List.mem_append.mp hx with hx | hx
      · exact hLshape.1 x hx
      · simp only [List.mem_singleton] at hx; rw [hx, he, hT]; exact Nat.le_refl _
    · rw [hlogOther j h]; exact hi.log_shape j
  · -- cand_log
    intro j hj x hx
    by_cases h : j = l
    · subst h; rw [hroleSelf] at hj; simp at hj
    · rw [hroleOther j h] at hj; rw [hlogOther j h] at hx; rw [← (hnode j).1]; exact hi.cand_log j hj x hx
  · -- rvs_cand
    intro q hq hc ht
    by_cases h : q.cand = l
    · rw [h, hroleSelf] at hc; simp at hc
    · rw [hroleOther _ h] at hc; rw [← (hnode _).1] at ht; rw [hlogOther _ h]; exact hi.rvs_cand q hq hc ht
  · -- node_lm
    intro n k h1 hk
    by_cases hkold : k ≤ (s.nodes n).log.length
    · have htk : termAt (s'.nodes n).log k = termAt (s.nodes n).log k := by
        rw [← termAt_take (Nat.le_refl k), htakeNode n k hkold, termAt_take (Nat.le_refl k)]
      obtain ⟨c, g, hgg, hkg, hp⟩ := hi.node_lm n k h1 hkold
      obtain ⟨g', hg', hpre⟩ := hgold _ c g hgg
      refine ⟨c, g', by rw [htk]; exact hg', by have := hpre.length_le; omega, ?_⟩
      rw [htakeNode n k hkold, hp, take_prefix_stable hpre hkg]
    · -- only the appended entry of l
      have hnl : n = l := by
        by_cases h : n = l
        · exact h
        · rw [hlogOther n h] at hk; omega
      subst hnl
      rw [hlogSelf] at hk ⊢
      have hLlen : L.length = (s.nodes n).log.length := rfl
      have hkeq : k = L.length + 1 := by simp at hk; omega
      subst hkeq
      refine ⟨n, L ++ [e], ?_, by simp, rfl⟩
      rw [termAt_append_last, he]; exact hglogT
  · -- glog_lm
    intro T' c g h k h1 hk
    rcases hgnew T' c g h with ⟨h1', h2, h3⟩ | ⟨hne, h2⟩
    · subst h1' h2 h3
      by_cases hkold : k ≤ L.length
      · obtain ⟨c1, g1, hg1, hk1, hp1⟩ := hi.node_lm c k h1 hkold
        obtain ⟨g1', hg1', hpre⟩ := hgold _ c1 g1 hg1
        refine ⟨c1, g1', by rw [termAt_append_left hkold]; exact hg1', by have := hpre.length_le; omega, ?_⟩
        rw [List.take_append_of_le_length hkold, hp1, take_prefix_stable hpre hk1]
      · have hkeq : k = L.length + 1 := by simp at hk; omega
        subst hkeq
        exact ⟨c, L ++ [e], by rw [termAt_append_last, he]; exact hglogT, by simp, rfl⟩
    · obtain ⟨c1, g1, hg1, hk1, hp1⟩ := hi.glog_lm T' c g h2 k h1 hk
      obtain ⟨g1', hg1', hpre⟩ := hgold _ c1 g1 hg1
      exact ⟨c1, g1', hg1', by have := hpre.length_le; omega, by rw [hp1, take_prefix_stable hpre hk1]⟩
  · -- msg_ok
    intro m hm
    obtain ⟨c, g, h1, h2, h3, h4, h5, h6⟩ := hi.msg_ok m hm
    obtain ⟨g', hg', hpre⟩ := hgold _ c g h1
    refine ⟨c, g', hg', by have := hpre.length_le; omega, ?_, ?_, by have := hpre.length_le; omega, ?_⟩
    · rw [drop_take_prefix_stable hpre h2]; exact h3
    · rw [termAt_prefix_stable hpre (by omega)]; exact h4
    · rw [take_prefix_stable hpre h5]; exact h6.mono hext (Nat.le_refl _)
  · -- ack_ok
    intro m j t h
    rw [← (hnode m).1]
    rcases List.mem_cons.mp h with hn | ho
    · injection hn with h1 h2; injection h2 with h2 h3
      subst h1 h2 h3
      exact ⟨by rw [hT]; exact Nat.le_refl _, m, L ++ [e], hglogT, by simp⟩
    · obtain ⟨h1, c, g, hgg, hj⟩ := hi.ack_ok m j t ho
      obtain ⟨g', hg', hpre⟩ := hgold _ c g hgg
      exact ⟨h1, c, g', hg', by have := hpre.length_le; omega⟩
  · -- ack_prefix
    intro m j t c g' k h hg' h1 hk hterm
    rcases List.mem_cons.mp h with hn | ho
    · injection hn with e1 e2; injection e2 with e2 e3
      subst e1 e2 e3
      rw [hglogT] at hg'; injection hg' with hg'; injection hg' with _ hg'; subst hg'
      left; rw [hlogSelf]
    · obtain ⟨_, c0, g0, hg0, hj0⟩ := hi.ack_ok m j t ho
      obtain ⟨g0', hg0', hpre⟩ := hgold _ c0 g0 hg0
      rw [hg0'] at hg'; injection hg' with hg'; injection hg' with hc hgg; subst hc hgg
      have hterm0 : termAt g0 k = t := by rw [← termAt_prefix_stable hpre (by omega)]; exact hterm
      rcases hi.ack_prefix m j t c0 g0 k ho hg0 h1 hk hterm0 with hp | hd
      · left
        have hkm : k ≤ (s.nodes m).log.length := length_of_take_eq hp (by omega)
        rw [htakeNode m k hkm, hp, take_prefix_stable hpre (by omega)]
      · exact Or.inr (hd.mono hi hext)
  · -- lc
    intro T1 c1 gT1 t c' g' k hT1g htg hlt h1 hk hterm
    rcases hgnew t c' g' htg with ⟨e1, e2, e3⟩ | ⟨hne, htold⟩
    · -- the earlier log is the new one: only its new position matters, older ones are old facts
      subst e1 e2 e3
      have hT1old : s.glog T1 = some (c1, gT1) := by rw [← hglogNe T1 (by omega)]; exact hT1g
      by_cases hkold : k ≤ L.length
      · rcases hg with h0 | hgl
        · -- no old log of this term: position k of the candidate's log has a term below T
          exfalso
          rw [termAt_append_left hkold] at hterm
          obtain ⟨x, hx, hxt⟩ := termAt_mem h1 hkold
          have hcl : (s.nodes c').role = .candidate ∨ (s.nodes c').role = .leader := by
            cases hr : (s.nodes c').role <;> simp_all
          rcases hcl with hc | hc
          · have := hi.cand_log c' hc x hx; rw [hxt, hterm, hT] at this; omega
          · have := hi.leader_glog c' hc; rw [hT, h0] at this; simp at this
        · rw [termAt_append_left hkold] at hterm
          rcases hi.lc T1 c1 gT1 t c' L k hT1old hgl hlt h1 hkold hterm with hp | hd
          · left; rw [hp, List.take_append_of_le_length hkold]
          · exact Or.inr (hd.mono hi hext)
      · have hkeq : k = L.length + 1 := by simp at hk; omega
        subst hkeq
        exact Or.inr (hdeadNew T1 c1 gT1 hlt hT1old)
    · rcases hgnew T1 c1 gT1 hT1g with ⟨e1, e2, e3⟩ | ⟨hne1, hT1old⟩
      · -- the later log is the new one
        subst e1 e2 e3
        rcases hg with h0 | hgl
        · rcases hnew h0 t c' g' k htold hlt h1 hk hterm with hp | hna | hd
          · left
            have hkl : k ≤ L.length := length_of_take_eq hp hk
            rw [List.take_append_of_le_length hkl]; exact hp
          · right
            refine ⟨T1, c1, L ++ [e], Q, hlt, hglogT, hQ, hQv, ?_⟩
            intro m hm hack
            exact hna m hm ((AckedGE_cons_ne (Or.inl (by simp; omega))).mp hack)
          · exact Or.inr (hd.mono hi hext)
        · rcases hi.lc T1 c1 L t c' g' k hgl htold hlt h1 hk hterm with hp | hd
          · left
            have hkl : k ≤ L.length := length_of_take_eq hp hk
            rw [List.take_append_of_le_length hkl]; exact hp
          · exact Or.inr (hd.mono hi hext)
      · rcases hi.lc T1 c1 gT1 t c' g' k hT1old htold hlt h1 hk hterm with hp | hd
        · exact Or.inl hp
        · exact Or.inr (hd.mono hi hext)
  · -- vote_prefix
    intro T1 m c t j c' g' k hv hc hT1 hlt ha hg' h1 hk hterm
    have hcl : c ≠ l := by intro h; rw [h, hroleSelf] at hc; simp at hc
    rw [hroleOther c hcl] at hc
    rw [← (hnode c).1] at hT1
    rw [hlogOther c hcl]
    rcases List.mem_cons.mp ha with hn | ho
    · injection hn with e1 e2; injection e2 with e2 e3
      subst e1 e3
      have := hi.votes_term T1 m c hv
      omega
    · obtain ⟨_, c0, g0, hg0, hj0⟩ := hi.ack_ok m j t ho
      obtain ⟨g0', hg0', hpre⟩ := hgold _ c0 g0 hg0
      rw [hg0'] at hg'; injection hg' with hg'; injection hg' with hc' hgg; subst hc' hgg
      have hterm0 : termAt g0 k = t := by rw [← termAt_prefix_stable hpre (by omega)]; exact hterm
      rcases hi.vote_prefix T1 m c t j c0 g0 k hv hc hT1 hlt ho hg0 h1 hk hterm0 with hp | hd
      · left; rw [hp, take_prefix_stable hpre (by omega)]
      · exact Or.inr (hd.mono hi hext)
  · -- commit_ok
    intro n
    obtain ⟨hc1, hc2⟩ := hi.commit_ok n
    rw [(hnode n).2, ← (hnode n).1, htakeNode n _ hc1]
    refine ⟨?_, hc2.mono hext (Nat.le_refl _)⟩
    by_cases h : n = l
    · subst h
      have hLlen : L.length = (s.nodes n).log.length := rfl
      rw [hlogSelf]; simp; omega
    · rw [hlogOther n h]; exact hc1
  · -- role_pos
    intro j hj
    rw [← (hnode j).1]
    by_cases h : j = l
    · subst h; exact hi.role_pos j hrole
    · rw [hroleOther j h] at hj; exact hi.role_pos j hj
  · -- glog_pos
    intro T' c g h
    rcases hgnew T' c g h with ⟨h1, _, _⟩ | ⟨_, h2⟩
    · rw [h1]; exact hT1
    · exact hi.glog_pos T' c g h2

theorem anode_leader_eq (n : ANode) (h : n.role = .leader) (X : List AEntry) :
    ({ n with log := X } : ANode) = { n with role := .leader, log := X } := by
  cases n; simp at h; simp [h]

theorem inv_clientAppend {cfg : Config} (hnd : cfg.voterIds.Nodup) {s : AState} (hi : Inv cfg s) (l payload : Nat)
    (hl : (s.nodes l).role = .leader) :
    Inv cfg { s with
      nodes := setNode s l { s.nodes l with log := (s.nodes l).log ++ [⟨(s.nodes l).term, payload⟩] },
      glog := fun t => if t = (s.nodes l).term then some (l, (s.nodes l).log ++ [⟨(s.nodes l).term, payload⟩]) else s.glog t,
      acked := (l, (s.nodes l).log.length + 1, (s.nodes l).term) :: s.acked } := by
  have hg := hi.leader_glog l hl
  obtain ⟨Q, hQ, hQv⟩ := hi.glog_votes _ l _ hg
  rw [anode_leader_eq (s.nodes l) hl]
  exact inv_append hnd hi l (s.nodes l).term ⟨(s.nodes l).term, payload⟩ Q rfl (by rw [hl]; simp) (Or.inr hg) hQ hQv
    (fun h0 => by rw [h0] at hg; simp at hg) rfl

theorem inv_becomeLeader {cfg : Config} (hnd : cfg.voterIds.Nodup) {s : AState} (hi : Inv cfg s) (c : Nat) (Q : List Nat)
    (hc : (s.nodes c).role = .candidate) (hQ : IsQuorum cfg Q) (hQv : ∀ m ∈ Q, ((s.nodes c).term, m, c) ∈ s.votes) :
    Inv cfg { s with
      nodes := setNode s c { s.nodes c with role := .leader, log := (s.nodes c).log ++ [⟨(s.nodes c).term, 0⟩] },
      glog := fun t => if t = (s.nodes c).term then some (c, (s.nodes c).log ++ [⟨(s.nodes c).term, 0⟩]) else s.glog t,
      acked := (c, (s.nodes c).log.length + 1, (s.nodes c).term) :: s.acked } := by
  -- no leader of this term yet: two vote quorums of one term meet, and a node votes once
  have hnone : s.glog (s.nodes c).term = none := by
    cases hgl : s.glog (s.nodes c).term with
    | none => rfl
    | some x =>
      obtain ⟨c', g⟩ := x
      exfalso
      obtain ⟨Q', hQ', hv'⟩ := hi.glog_votes _ c' g hgl
      obtain ⟨v, hv1, hv2⟩ := quorum_meet hnd hQ hQ'
      have hEq := hi.votes_unique _ v c c' (hQv v hv1) (hv' v hv2)
      subst hEq
      exact hi.glog_cand _ c g hgl rfl hc
  refine inv_append hnd hi c (s.nodes c).term ⟨(s.nodes c).term, 0⟩ Q rfl (by rw [hc]; simp) (Or.inl hnone) hQ hQv ?_ rfl
  intro _ t c' g i hg hlt h1 hig hterm
  by_cases hex : ∃ m ∈ Q, AckedGE s m i t
  · obtain ⟨m, hm, j, hj, hack⟩ := hex
    rcases hi.vote_prefix _ m c t j c' g i (hQv m hm) hc rfl hlt hack hg h1 hj hterm with h | h
    · exact Or.inl h
    · exact Or.inr (Or.inr h)
  · exact Or.inr (Or.inl (fun m hm hack => hex ⟨m, hm, hack⟩))

end Repl
end Raft
