/-
  Proofs/ReplSteps4.lean — preservation of the invariant when a node accepts a replication
  request (`recvAEok`): the merge keeps every committed and every quorum-relevant prefix.
-/
import RaftVerif.Proofs.ReplSteps3
set_option linter.unusedSimpArgs false
set_option linter.unusedVariables false
namespace Raft
namespace Repl

theorem take_take_le {l : List AEntry} {i k : Nat} (h : i ≤ k) : (l.take k).take i = l.take i := by
  rw [List.take_take, Nat.min_eq_left h]

theorem inv_recvAEok {cfg : Config} (hnd : cfg.voterIds.Nodup) {s : AState} (hi : Inv cfg s) (n : Nat) (m : AEMsg)
    (hm : m ∈ s.aes) (hterm : (s.nodes n).term ≤ m.term)
    (hrole : (s.nodes n).role ≠ .leader ∨ (s.nodes n).term < m.term)
    (hprev : m.prev ≤ (s.nodes n).log.length) (hpt : termAt (s.nodes n).log m.prev = m.prevTerm) :
    Inv cfg { s with
      nodes := setNode s n { term := m.term, role := .follower,
                             log := merge (s.nodes n).log m.prev m.entries,
                             commit := max (s.nodes n).commit (min m.commit (m.prev + m.entries.length)) },
      acked := (n, m.prev + m.entries.length, m.term) :: s.acked } := by
  obtain ⟨cm, gm, hgm, hKg, hseg, hprevT, hmc, hmcom⟩ := hi.msg_ok m hm
  let lg := (s.nodes n).log
  let K := m.prev + m.entries.length
  let R := merge lg m.prev m.entries
  let n' : ANode := { term := m.term, role := .follower, log := R, commit := max (s.nodes n).commit (min m.commit K) }
  let s' : AState := { s with nodes := setNode s n n', acked := (n, K, m.term) :: s.acked }
  show Inv cfg s'
  have hKdef : K = m.prev + m.entries.length := rfl
  have hlglen : lg.length = (s.nodes n).log.length := rfl
  have hother : ∀ j, j ≠ n → s'.nodes j = s.nodes j := fun j h => setNode_other s n' h
  have hself : s'.nodes n = n' := setNode_same s n n'
  -- the merge
  have hpre : lg.take m.prev = gm.take m.prev := by
    by_cases h0 : m.prev = 0
    · rw [h0]; simp
    · exact lm_agree hi n m.term cm gm hgm m.prev (by omega) hprev (by omega) (by rw [hpt, hprevT])
  have hmatch : ∀ i, m.prev < i → i ≤ lg.length → i ≤ m.prev + m.entries.length → termAt lg i = termAt gm i → lg.take i = gm.take i :=
    fun i h1 h2 h3 h4 => lm_agree hi n m.term cm gm hgm i (by omega) h2 (by omega) h4
  obtain ⟨hR1, hR2, hR3⟩ : R.take K = gm.take K ∧ (R = lg ∨ R = gm.take K) ∧ (K ≤ lg.length → lg.take K = gm.take K → R = lg) :=
    merge_spec lg gm m.entries m.prev hprev hpre hseg hmatch
  have hRK : K ≤ R.length := length_of_take_eq hR1 hKg
  have hext : Ext s s' := by
    refine ⟨fun x h => h, fun x h => List.mem_cons_of_mem _ h, fun t c g h => ⟨g, h, List.prefix_refl g⟩, ?_⟩
    intro v j t h
    rcases List.mem_cons.mp h with hn | ho
    · injection hn with h1 h2; injection h2 with h2 h3
      subst h1 h3; exact Or.inr hterm
    · exact Or.inl ho
  have hnodeT : ∀ j, (s.nodes j).term ≤ (s'.nodes j).term := by
    intro j
    by_cases h : j = n
    · subst h; rw [hself]; exact hterm
    · rw [hother j h]; exact Nat.le_refl _
  have hfol : (s'.nodes n).role = .follower := by rw [hself]
  have hkeep : ∀ j, (s'.nodes j).role ≠ .follower → j ≠ n := by
    intro j hj h; subst h; exact hj hfol
  -- a prefix of the old log that agrees with `gm` (or lies below the request) survives the merge
  have hsurvive : ∀ i, i ≤ lg.length → lg.take i = gm.take i → R.take i = lg.take i := by
    intro i hil hp
    rcases hR2 with h | h
    · rw [h]
    · by_cases hiK : i ≤ K
      · rw [h, take_take_le hiK, hp]
      · have hKl : K ≤ lg.length := by omega
        have : lg.take K = gm.take K := take_eq_of_le hp (by omega)
        rw [hR3 hKl this]
  -- relation between an older leader log and the sender's
  have hgmrel : ∀ t c g i, s.glog t = some (c, g) → t ≤ m.term → 1 ≤ i → i ≤ g.length → termAt g i = t →
      gm.take i = g.take i ∨ Dead cfg s i t := by
    intro t c g i hg htle h1 hig hti
    by_cases hEq : t = m.term
    · subst hEq; rw [hgm] at hg; injection hg with hg; injection hg with _ hg; subst hg; exact Or.inl rfl
    · exact hi.lc m.term cm gm t c g i hgm hg (by omega) h1 hig hti
  refine { votes_term := ?_, votes_unique := hi.votes_unique, rvs_term := ?_, votes_cand := ?_, self_vote := ?_, leader_glog := ?_,
           glog_votes := hi.glog_votes, glog_term := ?_, glog_cand := ?_, glog_shape := hi.glog_shape, log_shape := ?_, cand_log := ?_,
           rvs_cand := ?_, node_lm := ?_, glog_lm := hi.glog_lm, msg_ok := ?_, ack_ok := ?_, ack_prefix := ?_, lc := ?_,
           vote_prefix := ?_, commit_ok := ?_, role_pos := ?_, glog_pos := hi.glog_pos }
  · intro T v c h; exact Nat.le_trans (hi.votes_term T v c h) (hnodeT v)
  · intro q hq; exact Nat.le_trans (hi.rvs_term q hq) (hnodeT q.cand)
  · intro T v c h; exact Nat.le_trans (hi.votes_cand T v c h) (hnodeT c)
  · intro j hj
    have := hkeep j hj
    rw [hother j this] at hj ⊢; exact hi.self_vote j hj
  · intro j hj
    have := hkeep j (by rw [hj]; simp)
    rw [hother j this] at hj ⊢; exact hi.leader_glog j hj
  · intro T c g h; exact Nat.le_trans (hi.glog_term T c g h) (hnodeT c)
  · intro T c g h ht hc
    have := hkeep c (by rw [hc]; simp)
    rw [hother c this] at ht hc; exact hi.glog_cand T c g h ht hc
  · -- log_shape
    intro j
    by_cases h : j = n
    · subst h
      rw [hself]
      show (∀ e ∈ R, e.term ≤ m.term) ∧ Sorted R
      rcases hR2 with hR | hR
      · rw [hR]; exact ⟨fun e he => Nat.le_trans ((hi.log_shape j).1 e he) hterm, (hi.log_shape j).2⟩
      · rw [hR]
        obtain ⟨hs1, hs2, _, _⟩ := hi.glog_shape m.term cm gm hgm
        exact ⟨fun e he => hs1 e (List.mem_of_mem_take he), sorted_take hs2 K⟩
    · rw [hother j h]; exact hi.log_shape j
  · intro j hj e he
    have := hkeep j (by rw [hj]; simp)
    rw [hother j this] at hj he ⊢; exact hi.cand_log j hj e he
  · intro q hq hc ht
    have := hkeep q.cand (by rw [hc]; simp)
    rw [hother _ this] at hc ht ⊢; exact hi.rvs_cand q hq hc ht
  · -- node_lm
    intro j k h1 hk
    by_cases h : j = n
    · subst h
      rw [hself] at hk ⊢
      have hk' : k ≤ R.length := hk
      show ∃ c g, s.glog (termAt R k) = some (c, g) ∧ k ≤ g.length ∧ R.take k = g.take k
      rcases hR2 with hR | hR
      · rw [hR] at hk' ⊢; exact hi.node_lm j k h1 hk'
      · rw [hR] at hk' ⊢
        have hkK : k ≤ K := by simp at hk'; omega
        obtain ⟨c1, g1, hg1, hk1, hp1⟩ := hi.glog_lm m.term cm gm hgm k h1 (by omega)
        exact ⟨c1, g1, by rw [termAt_take hkK]; exact hg1, hk1, by rw [take_take_le hkK]; exact hp1⟩
    · rw [hother j h] at hk ⊢; exact hi.node_lm j k h1 hk
  · intro a ha
    obtain ⟨c, g, h1, h2, h3, h4, h5, h6⟩ := hi.msg_ok a ha
    exact ⟨c, g, h1, h2, h3, h4, h5, h6.mono hext (Nat.le_refl _)⟩
  · -- ack_ok
    intro v j t h
    rcases List.mem_cons.mp h with hn | ho
    · injection hn with h1 h2; injection h2 with h2 h3
      subst h1 h2 h3
      exact ⟨by rw [hself]; exact Nat.le_refl _, cm, gm, hgm, hKg⟩
    · obtain ⟨h1, h2⟩ := hi.ack_ok v j t ho
      exact ⟨Nat.le_trans h1 (hnodeT v), h2⟩
  · -- ack_prefix
    intro v j t c g k h hg h1 hk hti
    rcases List.mem_cons.mp h with hn | ho
    · injection hn with e1 e2; injection e2 with e2 e3
      subst e1 e2 e3
      rw [hgm] at hg; injection hg with hg; injection hg with _ hg; subst hg
      left; rw [hself]; exact take_eq_of_le hR1 hk
    · by_cases hv : v = n
      · subst hv
        rw [hself]
        show R.take k = g.take k ∨ _
        obtain ⟨htv, _, g0, hg0, hj0⟩ := hi.ack_ok v j t ho
        rw [hg] at hg0; injection hg0 with hg0; injection hg0 with _ hg0; subst hg0
        rcases hi.ack_prefix v j t c g k ho hg h1 hk hti with hp | hd
        · rcases hgmrel t c g k hg (by omega) h1 (by omega) hti with hrel | hd
          · left
            have hkl : k ≤ lg.length := length_of_take_eq hp (by omega)
            rw [hsurvive k hkl (by rw [hrel]; exact hp)]; exact hp
          · exact Or.inr (hd.mono hi hext)
        · exact Or.inr (hd.mono hi hext)
      · rw [hother v hv]
        rcases hi.ack_prefix v j t c g k ho hg h1 hk hti with hp | hd
        · exact Or.inl hp
        · exact Or.inr (hd.mono hi hext)
  · intro T c gT t c' g k hT ht hlt h1 hk hti
    rcases hi.lc T c gT t c' g k hT ht hlt h1 hk hti with h | h
    · exact Or.inl h
    · exact Or.inr (h.mono hi hext)
  · -- vote_prefix
    intro T v c t j c' g k hv hc hT hlt ha hg h1 hk hti
    have hcn := hkeep c (by rw [hc]; simp)
    rw [hother c hcn] at hc hT ⊢
    rcases List.mem_cons.mp ha with hn | ho
    · injection hn with e1 e2; injection e2 with e2 e3
      subst e1 e3
      have := hi.votes_term T v c hv
      omega
    · rcases hi.vote_prefix T v c t j c' g k hv hc hT hlt ho hg h1 hk hti with hp | hd
      · exact Or.inl hp
      · exact Or.inr (hd.mono hi hext)
  · -- commit_ok
    intro j
    by_cases h : j = n
    · subst h
      rw [hself]
      obtain ⟨hoc1, hoc2⟩ := hi.commit_ok j
      show max (s.nodes j).commit (min m.commit K) ≤ R.length ∧ IsCommitted cfg s' m.term (R.take (max (s.nodes j).commit (min m.commit K)))
      -- the committed prefix survives
      have hA : R.take (s.nodes j).commit = lg.take (s.nodes j).commit := by
        rcases hoc2 with h0 | ⟨i, t, c, g, htb, hg, h1, hig, hti, hq, hp⟩
        · have : (s.nodes j).commit = 0 ∨ lg = [] := by
            by_cases hz : (s.nodes j).commit = 0
            · exact Or.inl hz
            · right
              have := congrArg List.length h0
              simp only [List.length_take, List.length_nil] at this
              exact List.eq_nil_of_length_eq_zero (by omega)
          rcases this with hz | hz
          · rw [hz]; simp
          · have hz0 : (s.nodes j).commit = 0 := by
              have : lg.length = 0 := by rw [hz]; rfl
              omega
            rw [hz0]; simp
        · have hnd' := not_dead_of_quorumAcked hnd hq
          rcases hgmrel t c g i hg (by omega) h1 hig hti with hrel | hd
          · have hp' : lg.take (s.nodes j).commit <+: gm := by rw [← hrel] at hp; exact hp.trans (List.take_prefix _ _)
            have hlen : (lg.take (s.nodes j).commit).length = (s.nodes j).commit := by
              simp only [List.length_take]; omega
            have := take_eq_of_prefix hp'
            rw [hlen] at this
            exact hsurvive _ hoc1 this
          · exact absurd hd hnd'
      have hAlen : (s.nodes j).commit ≤ R.length := by
        have := congrArg List.length hA
        simp only [List.length_take] at this
        omega
      by_cases hle : min m.commit K ≤ (s.nodes j).commit
      · rw [Nat.max_eq_left hle, hA]
        exact ⟨hAlen, hoc2.mono hext hterm⟩
      · rw [Nat.max_eq_right (by omega)]
        refine ⟨by omega, ?_⟩
        have hB : R.take (min m.commit K) = (gm.take m.commit).take (min m.commit K) := by
          rw [take_take_le (Nat.min_le_left _ _)]
          exact take_eq_of_le hR1 (Nat.min_le_right _ _)
        rw [hB]
        exact (hmcom.prefix (List.take_prefix _ _)).mono hext (Nat.le_refl _)
    · rw [hother j h]
      obtain ⟨hc1, hc2⟩ := hi.commit_ok j
      exact ⟨hc1, hc2.mono hext (Nat.le_refl _)⟩
  · intro j hj
    have := hkeep j hj
    rw [hother j this] at hj ⊢; exact hi.role_pos j hj

end Repl
end Raft
