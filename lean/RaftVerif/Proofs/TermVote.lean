/-
  Proofs/TermVote.lean — durability of term and vote, once for all critical sections.

  A *section* is any function `Node → Option (Node × List Effect × Option Grant)`. It is
  `Good` when the `setState` effects it emits, read as a chain of persisted (term, vote)
  pairs, never lower the term and never replace a non-empty vote within a term, when
  the last persisted pair is the node's (term, vote) at the end of the section, and
  when a grant it reports is the persisted vote of the persisted term. The sequence
  theorem (one vote per term, terms monotone, across crashes cutting a section after
  any number of its storage effects) is proved for arbitrary lists of good sections;
  each handler then only has to be shown good.
-/
import RaftVerif.Proofs.AppendEntries
namespace Raft

/-- A real (non-prevote) vote as seen by a candidate: term and candidate. -/
structure Grant where
  term : Nat
  cand : Nat
deriving DecidableEq, Repr

/-- The persisted (term, vote) pair after a list of effects, starting from `p`. -/
def persistAfter (p : Nat × Nat) : List Effect → Nat × Nat
  | [] => p
  | .setState t v :: es => persistAfter (t, v) es
  | _ :: es => persistAfter p es

/-- One allowed change of the persisted pair. -/
def TVStep (p p' : Nat × Nat) : Prop := p.1 ≤ p'.1 ∧ (p'.1 = p.1 → p'.2 = p.2 ∨ p.2 = 0)

theorem TVStep.refl (p : Nat × Nat) : TVStep p p := ⟨Nat.le_refl _, fun _ => Or.inl rfl⟩

theorem TVStep.trans {a b c : Nat × Nat} (h1 : TVStep a b) (h2 : TVStep b c) : TVStep a c := by
  obtain ⟨h1a, h1b⟩ := h1; obtain ⟨h2a, h2b⟩ := h2
  refine ⟨by omega, fun h => ?_⟩
  have hb : b.1 = a.1 := by omega
  have hc : c.1 = b.1 := by omega
  rcases h1b hb with h | h
  · rcases h2b hc with h' | h'
    · left; rw [h', h]
    · by_cases ha : a.2 = 0
      · right; exact ha
      · exfalso; rw [h] at h'; exact ha h'
  · right; exact h

/-- Every `setState` of the list is an allowed step from the pair persisted before it. -/
def TVChain (p : Nat × Nat) : List Effect → Prop
  | [] => True
  | .setState t v :: es => TVStep p (t, v) ∧ TVChain (t, v) es
  | _ :: es => TVChain p es

theorem TVChain.persistAfter_step {p : Nat × Nat} {es : List Effect} (h : TVChain p es) :
    TVStep p (persistAfter p es) := by
  induction es generalizing p with
  | nil => exact TVStep.refl p
  | cons e es ih =>
    cases e <;> simp only [TVChain, persistAfter] at h ⊢ <;> try exact ih h
    exact TVStep.trans h.1 (ih h.2)

theorem TVChain.take {p : Nat × Nat} {es : List Effect} (h : TVChain p es) (k : Nat) : TVChain p (es.take k) := by
  induction es generalizing p k with
  | nil => simp [TVChain]
  | cons e es ih =>
    cases k with
    | zero => simp [TVChain]
    | succ k =>
      cases e <;> simp only [List.take_succ_cons, TVChain] at h ⊢ <;> try exact ih h k
      exact ⟨h.1, ih h.2 k⟩

theorem TVChain.append {p : Nat × Nat} {es fs : List Effect} (h1 : TVChain p es)
    (h2 : TVChain (persistAfter p es) fs) : TVChain p (es ++ fs) := by
  induction es generalizing p with
  | nil => simpa [persistAfter] using h2
  | cons e es ih =>
    cases e <;> simp only [List.cons_append, TVChain, persistAfter] at h1 h2 ⊢ <;> try exact ih h1 h2
    exact ⟨h1.1, ih h1.2 h2⟩

theorem persistAfter_append (p : Nat × Nat) (es fs : List Effect) :
    persistAfter p (es ++ fs) = persistAfter (persistAfter p es) fs := by
  induction es generalizing p with
  | nil => rfl
  | cons e es ih => cases e <;> simp only [List.cons_append, persistAfter] <;> exact ih _

abbrev Sect := Node → Option (Node × List Effect × Option Grant)

/-- What every critical section has to satisfy for term/vote durability. -/
structure Sect.Good (f : Sect) : Prop where
  chain : ∀ n n' eff g, f n = some (n', eff, g) → TVChain (n.term, n.votedFor) eff
  final : ∀ n n' eff g, f n = some (n', eff, g) →
    persistAfter (n.term, n.votedFor) eff = (n'.term, n'.votedFor)
  grant : ∀ n n' eff t c, f n = some (n', eff, some ⟨t, c⟩) → n'.term = t ∧ n'.votedFor = c ∧ c ≠ 0

/-- A stimulus: run a section to completion, or crash after `k` of its storage
    effects and restart as *some* node `r` (log, volatile state: arbitrary). -/
inductive Stim
  | run (f : Sect)
  | crashIn (f : Sect) (k : Nat) (r : Node)

structure Trace where
  node : Node
  grants : List Grant

/-- One step of a node's life. A crash cuts the section's effect list after `k`
    effects; the restarted node holds exactly the pair persisted by that prefix; the
    section's reply (and so its grant) is never sent. -/
inductive Exec : Trace → Stim → Trace → Prop
  | run {s : Trace} {f : Sect} {n' eff g} :
      f s.node = some (n', eff, g) → Exec s (.run f) ⟨n', g.toList ++ s.grants⟩
  | refused {s : Trace} {f : Sect} : f s.node = none → Exec s (.run f) s
  | crash {s : Trace} {f : Sect} {k : Nat} {r n' : Node} {eff g} :
      f s.node = some (n', eff, g) →
      (r.term, r.votedFor) = persistAfter (s.node.term, s.node.votedFor) (eff.take k) →
      Exec s (.crashIn f k r) ⟨r, s.grants⟩
  | crashIdle {s : Trace} {f : Sect} {k : Nat} {r : Node} :
      f s.node = none → (r.term, r.votedFor) = (s.node.term, s.node.votedFor) →
      Exec s (.crashIn f k r) ⟨r, s.grants⟩

def Stim.Good : Stim → Prop
  | .run f => f.Good
  | .crashIn f _ _ => f.Good

inductive Execs : Trace → List Stim → Trace → Prop
  | nil (s) : Execs s [] s
  | cons {s s' s'' st sts} : Exec s st s' → Execs s' sts s'' → Execs s (st :: sts) s''

/-- Invariant: every recorded grant is for a term not above the node's, and a grant of
    the node's current term is the node's current vote. -/
def GrantInv (s : Trace) : Prop :=
  ∀ g ∈ s.grants, g.cand ≠ 0 ∧ g.term ≤ s.node.term ∧ (g.term = s.node.term → s.node.votedFor = g.cand)

theorem GrantInv.step_tv {s : Trace} (h : GrantInv s) {r : Node}
    (hs : TVStep (s.node.term, s.node.votedFor) (r.term, r.votedFor)) : GrantInv ⟨r, s.grants⟩ := by
  intro g hg
  obtain ⟨h0, h1, h2⟩ := h g hg
  obtain ⟨hs1, hs2⟩ := hs
  simp only at hs1 hs2
  refine ⟨h0, by simp only; omega, fun ht => ?_⟩
  simp only at ht
  have e1 : r.term = s.node.term := by omega
  have e2 : g.term = s.node.term := by omega
  rcases hs2 e1 with h | h
  · rw [h]; exact h2 e2
  · exfalso; rw [h2 e2] at h; exact h0 h

theorem exec_inv {s s' : Trace} {st : Stim} (hg : st.Good) (he : Exec s st s') (hi : GrantInv s) :
    GrantInv s' ∧ s.node.term ≤ s'.node.term ∧
      (∀ g ∈ s'.grants, g ∉ s.grants → g.term = s'.node.term ∧ g.cand = s'.node.votedFor) := by
  cases he with
  | @run f n' eff g hf =>
    have hgood : f.Good := hg
    have hstep : TVStep (s.node.term, s.node.votedFor) (n'.term, n'.votedFor) := by
      rw [← hgood.final _ _ _ _ hf]; exact (hgood.chain _ _ _ _ hf).persistAfter_step
    have hbase := hi.step_tv hstep
    refine ⟨?_, hstep.1, ?_⟩
    · intro g' hg'
      simp only [List.mem_append] at hg'
      rcases hg' with hg' | hg'
      · cases g with
        | none => simp at hg'
        | some gr =>
          simp only [Option.toList_some, List.mem_singleton] at hg'
          subst hg'
          obtain ⟨h1, h2, h3⟩ := hgood.grant _ _ _ g'.term g'.cand hf
          exact ⟨h3, by simp [h1], fun _ => h2⟩
      · exact hbase g' hg'
    · intro g' hg' hnot
      simp only [List.mem_append] at hg'
      rcases hg' with hg' | hg'
      · cases g with
        | none => simp at hg'
        | some gr =>
          simp only [Option.toList_some, List.mem_singleton] at hg'
          subst hg'
          obtain ⟨h1, h2, _⟩ := hgood.grant _ _ _ g'.term g'.cand hf
          exact ⟨h1.symm, h2.symm⟩
      · exact absurd hg' hnot
  | refused hf => exact ⟨hi, Nat.le_refl _, fun g hg hn => absurd hg hn⟩
  | @crash f k r n' eff g hf hr =>
    have hgood : f.Good := hg
    have hstep : TVStep (s.node.term, s.node.votedFor) (r.term, r.votedFor) := by
      rw [hr]; exact ((hgood.chain _ _ _ _ hf).take k).persistAfter_step
    exact ⟨hi.step_tv hstep, hstep.1, fun g hg hn => absurd hg hn⟩
  | @crashIdle f k r hf hr =>
    have hstep : TVStep (s.node.term, s.node.votedFor) (r.term, r.votedFor) := by rw [hr]; exact TVStep.refl _
    exact ⟨hi.step_tv hstep, hstep.1, fun g hg hn => absurd hg hn⟩

/-- Unique vote per term along any execution. -/
def UniqueVotes (gs : List Grant) : Prop := ∀ g1 ∈ gs, ∀ g2 ∈ gs, g1.term = g2.term → g1.cand = g2.cand

theorem execs_inv {s s' : Trace} {sts : List Stim} (hg : ∀ st ∈ sts, st.Good) (he : Execs s sts s')
    (hi : GrantInv s) (hu : UniqueVotes s.grants) :
    GrantInv s' ∧ UniqueVotes s'.grants ∧ s.node.term ≤ s'.node.term := by
  induction he with
  | nil s => exact ⟨hi, hu, Nat.le_refl _⟩
  | @cons s s1 s2 st sts h1 _ ih =>
    obtain ⟨hi1, hm1, hnew⟩ := exec_inv (hg st List.mem_cons_self) h1 hi
    have hu1 : UniqueVotes s1.grants := by
      intro g1 hg1 g2 hg2 ht
      by_cases o1 : g1 ∈ s.grants <;> by_cases o2 : g2 ∈ s.grants
      · exact hu g1 o1 g2 o2 ht
      · obtain ⟨e1, e2⟩ := hnew g2 hg2 o2
        have := (hi1 g1 hg1).2.2 (by omega)
        rw [e2, this]
      · obtain ⟨e1, e2⟩ := hnew g1 hg1 o1
        have := (hi1 g2 hg2).2.2 (by omega)
        rw [e2, this]
      · obtain ⟨_, e2⟩ := hnew g1 hg1 o1
        obtain ⟨_, e4⟩ := hnew g2 hg2 o2
        rw [e2, e4]
    obtain ⟨a, b, c⟩ := ih (fun st' h => hg st' (List.mem_cons_of_mem _ h)) hi1 hu1
    exact ⟨a, b, by omega⟩

end Raft
