/-
  Properties/C01.lean — state-machine safety (node-level ingredients and status).

  Node level, for every node state: a state machine instance is handed operations in
  strictly increasing index order, each one the entry of the node's own log at
  `lastApplied + 1`, never beyond the commit index.

  Cluster level (`C01_state_machine_safety`, from Proofs/ReplSafety.lean): in every reachable
  state of the replication-layer model (Model/Repl.lean: any number of nodes, static
  configuration, requests lost / delayed / reordered / duplicated, crashes that keep log and
  vote, any interleaving, unbounded logs and terms) the committed prefixes of any two nodes —
  also of one state and any later state, i.e. across restarts and leader changes — are
  comparable. With the node-level theorems: no two state machines ever see different
  operations at one position. The induction is the 23-field invariant of Proofs/ReplInv.lean
  (log matching, leader completeness via "dead positions", vote restriction, commit rule).
  The model's steps are tied to the node functions by Proofs/ReplRefine.lean (merge loop,
  accepting path, previous-entry guard, vote guard, leader appends) and those to the code by
  E3; the cluster-level tie is E4 (every Apply call of every incarnation recorded and compared).
  Outside this theorem: membership changes (C09) and compaction (C10/C11).
-/
import RaftVerif.Proofs.LeaderSpecs
import RaftVerif.Proofs.ReplExample
import RaftVerif.Proofs.ReplRefine
set_option linter.unusedSimpArgs false
namespace Raft
open Node

/-- **Apply order.** Each step of the apply loop hands out the entry at `lastApplied + 1`
    of the node's own log, at or below the commit index, and then `lastApplied` is
    exactly one higher: indices handed to the state machine are strictly increasing and
    never skip a committed operation entry. -/
theorem C01_apply_in_order (n : Node) (now : Nat) (e : Entry) (f : Bool) (h : (n.applyStep now).2.2 = .op e f)
    (hw : n.log.WF) :
    e.index = n.lastApplied + 1 ∧ e.index ≤ n.commitIndex ∧ (n.applyStep now).1.lastApplied = e.index ∧
    n.log.get? e.index = some e := by
  obtain ⟨hg, hc, hl, _, _⟩ := (applyStep_spec n now).2.2.2.2.2 e f h
  have hi := Log.wf_get?_index hw hg
  exact ⟨hi, by omega, by omega, by rw [hi]; exact hg⟩

/-- The apply loop never changes the log or the commit index, and does nothing when
    everything committed has been applied. -/
theorem C01_apply_frame (n : Node) (now : Nat) :
    (n.applyStep now).1.log = n.log ∧ (n.applyStep now).1.commitIndex = n.commitIndex ∧
    (n.commitIndex ≤ n.lastApplied → (n.applyStep now).2.2 = .none) := by
  refine ⟨(applyStep_spec n now).1, (applyStep_spec n now).2.1, fun h => ?_⟩
  unfold applyStep
  have : ¬ (n.lastApplied < n.commitIndex ∧ n.role ≠ .shutdown) := fun hh => by omega
  simp [this]

/-! ### Cluster level -/

/-- **State machine safety.** In the replication-layer model, for every reachable state `s`,
    every state `s'` reachable from `s`, and any two nodes: the committed prefix of one (in
    `s`) and of the other (in `s'`) are comparable — one is a prefix of the other. -/
theorem C01_state_machine_safety {cfg : Config} (hnd : cfg.voterIds.Nodup) {s s' : Repl.AState}
    (hr : Repl.Reachable cfg s) (hfrom : Repl.ReachableFrom cfg s s') (a b : Nat) :
    (s.nodes a).log.take (s.nodes a).commit <+: (s'.nodes b).log.take (s'.nodes b).commit ∨
    (s'.nodes b).log.take (s'.nodes b).commit <+: (s.nodes a).log.take (s.nodes a).commit :=
  Repl.state_machine_safety hnd hr hfrom a b

/-- the same within one state, position by position: two nodes that have both committed
    index `i` hold the same entry there -/
theorem C01_same_entry_at_committed_index {cfg : Config} (hnd : cfg.voterIds.Nodup) {s : Repl.AState}
    (hr : Repl.Reachable cfg s) (a b i : Nat) (ha : i < (s.nodes a).commit) (hb : i < (s.nodes b).commit) :
    (s.nodes a).log[i]? = (s.nodes b).log[i]? := by
  have hi := Repl.inv_reachable hnd hr
  have hca := (hi.commit_ok a).1
  have hcb := (hi.commit_ok b).1
  have key : ∀ (x y : List Repl.AEntry) (cx cy : Nat), cx ≤ x.length → cy ≤ y.length → i < cx → i < cy →
      x.take cx <+: y.take cy → x[i]? = y[i]? := by
    intro x y cx cy hx hy hix hiy hp
    obtain ⟨r, hr⟩ := hp
    have h1 : (x.take cx)[i]? = x[i]? := by simp [List.getElem?_take, hix]
    have h2 : (y.take cy)[i]? = y[i]? := by simp [List.getElem?_take, hiy]
    rw [← h1, ← h2, ← hr, List.getElem?_append_left (by simp; omega)]
  rcases Repl.state_machine_safety hnd hr Repl.ReachableFrom.base a b with h | h
  · exact key _ _ _ _ hca hcb ha hb h
  · exact (key _ _ _ _ hcb hca hb ha h).symm

/-- non-vacuity: a run that elects a leader, replicates a client operation and commits it is
    reachable (Proofs/ReplExample.lean) -/
example : Repl.Reachable Repl.cfg3 Repl.s7 ∧ (Repl.s7.nodes 1).commit = 2 := ⟨Repl.s7_reachable, Repl.s7_committed.1⟩

end Raft
