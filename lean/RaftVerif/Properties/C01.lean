/-
  Properties/C01.lean — state-machine safety (node-level ingredients and status).

  Proved here, for every node state: a state machine instance is handed operations in
  strictly increasing index order, each one the entry of the node's own log at
  `lastApplied + 1`, never beyond the commit index. The cross-node statement (one
  operation per index on all replicas, all incarnations) is the corollary of leader
  completeness and log matching; of that chain this development has machine-checked
  election safety (C02), the handler-level log-matching theorems (C06), the vote
  restriction (C08), the commit rule (C04) and crash recovery of the log (C12); the
  remaining cluster-level induction (leader completeness) is stated in DESIGN.md §7 and is
  *not* claimed as proved. The cluster-level tie is E4: every Apply call of every
  incarnation of every node is recorded and compared.
-/
import RaftVerif.Proofs.LeaderSpecs
set_option linter.unusedSimpArgs false
namespace Raft
open Node

/-- **Apply order.** Each step of the apply loop hands out the entry at `lastApplied + 1`
    of the node's own log, at or below the commit index, and then `lastApplied` is
    exactly one higher: indices handed to the state machine are strictly increasing and
    never skip a committed operation entry. -/
theorem C01_apply_in_order (n : Node) (now : Nat) (e : Entry) (f : Bool) (h : (n.applyStep now).2.2 = .op e f)
    (hw : n.log.WF) :
    e.index = n.lastApplied + 1 ∧ e.index ≤ n.commitIndex ∧ (n.applyStep now).1.lastApplied = e.index ∧
    n.log.get? e.index = some e := by
  obtain ⟨hg, hc, hl, _, _⟩ := (applyStep_spec n now).2.2.2.2.2 e f h
  have hi := Log.wf_get?_index hw hg
  exact ⟨hi, by omega, by omega, by rw [hi]; exact hg⟩

/-- The apply loop never changes the log or the commit index, and does nothing when
    everything committed has been applied. -/
theorem C01_apply_frame (n : Node) (now : Nat) :
    (n.applyStep now).1.log = n.log ∧ (n.applyStep now).1.commitIndex = n.commitIndex ∧
    (n.commitIndex ≤ n.lastApplied → (n.applyStep now).2.2 = .none) := by
  refine ⟨(applyStep_spec n now).1, (applyStep_spec n now).2.1, fun h => ?_⟩
  unfold applyStep
  have : ¬ (n.lastApplied < n.commitIndex ∧ n.role ≠ .shutdown) := fun hh => by omega
  simp [this]

end Raft
