/-
  Properties/C02.lean — election safety: at most one leader per term.

  Cluster model: Model/Cluster.lean (any number of nodes, a network that loses, delays,
  reorders and duplicates requests and replies, late replies after restarts, crashes at
  section boundaries with term and vote persisted, arbitrary interleaving with all other
  sections of every node, abstracted by `OtherStep`). Static configuration `cfg` with at
  least two voters, which may contain non-voters.
-/
import RaftVerif.Proofs.ElectionSafety
set_option linter.unusedSimpArgs false
set_option linter.unusedVariables false
namespace Raft
namespace Cluster
open Node

/-- Initial states: every node knows the configuration, has not voted, leads nothing,
    has no vote round in flight; the history is empty. -/
structure Init (cfg : Config) (c : Cluster) : Prop where
  ids : ∀ i, (c.nodes i).id = i
  cfgs : ∀ i, (c.nodes i).config = cfg
  novote : ∀ i, (c.nodes i).votedFor = 0
  noleader : ∀ i, (c.nodes i).role ≠ .leader
  norounds : ∀ i, (c.nodes i).rvRounds = []
  requests : c.requests = []
  replies : c.replies = []
  granters : c.granters = []
  votes : c.votes = []
  leaders : c.leaders = []

theorem init_inv {cfg : Config} {c : Cluster} (h : Init cfg c) : Inv cfg c where
  ids := h.ids
  cfgs := h.cfgs
  vote_nz := by intro t v x hx; rw [h.votes] at hx; simp at hx
  vote_le := by intro t v x hx; rw [h.votes] at hx; simp at hx
  vote_cur := by intro t v x hx; rw [h.votes] at hx; simp at hx
  cur_vote := by intro v hv; exact absurd (h.novote v) hv
  vote_uniq := by intro t v x y hx; rw [h.votes] at hx; simp at hx
  rq_cand := by intro k q hk; rw [h.requests] at hk; simp at hk
  rq_round := by intro k q hk; rw [h.requests] at hk; simp at hk
  rq_voter := by intro k q hk; rw [h.requests] at hk; simp at hk
  rq_term := by intro k q hk; rw [h.requests] at hk; simp at hk
  rq_self := by intro k q hk; rw [h.requests] at hk; simp at hk
  rq_same := by intro k q k' q' hk; rw [h.requests] at hk; simp at hk
  rp_req := by intro k q r hk; rw [h.replies] at hk; simp at hk
  rp_vote := by intro k q r hk; rw [h.replies] at hk; simp at hk
  gr_req := by intro k q hk; rw [h.granters] at hk; simp at hk
  gr_nodup := by rw [h.granters]; simp
  rd_lt := by intro i rid cnt hm; rw [h.norounds i] at hm; simp at hm
  rd_cnt := by intro i rid cnt hm; rw [h.norounds i] at hm; simp at hm
  ld_quorum := by intro t i hl; rw [h.leaders] at hl; simp at hl

/-- **C02 (a): at most one node ever acts as leader in a term.** `leaders` receives an
    entry whenever a node enters the leader state, so "ever acts as leader" is covered,
    not only "is leader now". -/
theorem C02_one_leader_per_term {cfg : Config} (hc : CfgOK cfg) {init c : Cluster} (h0 : Init cfg init)
    (hr : Reachable init c) (t a b : Nat) (ha : (t, a) ∈ c.leaders) (hb : (t, b) ∈ c.leaders) : a = b :=
  election_safety hc (inv_reachable hc (init_inv h0) hr) t a b ha hb

/-- Every node that is in the leader state is recorded for its term. -/
def LeaderRecorded (c : Cluster) : Prop := ∀ i, (c.nodes i).role = .leader → ((c.nodes i).term, i) ∈ c.leaders

theorem leaderRecorded_withNode {c : Cluster} (h : LeaderRecorded c) (i : Nat) (n' : Node) :
    LeaderRecorded (c.withNode i n') := by
  intro j hj
  have hnode : (c.withNode i n').nodes j = if j = i then n' else c.nodes j := rfl
  show (((c.withNode i n').nodes j).term, j) ∈ leaderDelta i (c.nodes i) n' ++ c.leaders
  rw [hnode] at hj ⊢
  by_cases hji : j = i
  · rw [if_pos hji] at hj ⊢
    unfold leaderDelta
    by_cases hcond : n'.role = .leader ∧ ((c.nodes i).role ≠ .leader ∨ (c.nodes i).term ≠ n'.term)
    · rw [if_pos hcond, hji]; simp
    · rw [if_neg hcond]
      have hl : (c.nodes i).role = .leader := Classical.byContradiction fun hh => hcond ⟨hj, Or.inl hh⟩
      have ht : (c.nodes i).term = n'.term := Classical.byContradiction fun hh => hcond ⟨hj, Or.inr hh⟩
      rw [← ht, hji]; simpa using h i hl
  · rw [if_neg hji] at hj ⊢
    exact List.mem_append_right _ (h j hj)

theorem leaderRecorded_reachable {init c : Cluster} (h0 : LeaderRecorded init) (hr : Reachable init c) : LeaderRecorded c := by
  induction hr with
  | base => exact h0
  | step _ hs ih =>
    cases hs with
    | election i now => exact leaderRecorded_withNode ih i _
    | deliver k q now n' r eff hk hrv => exact leaderRecorded_withNode ih _ _
    | ret k q r now hk hr hnr => exact leaderRecorded_withNode ih _ _
    | fail k q hk hnr => exact ih
    | other i n' ho => exact leaderRecorded_withNode ih i n'
    | crash i n' hcr => exact leaderRecorded_withNode ih i n'

/-- **C02 (b): no two distinct nodes ever report the leader state for the same term.** -/
theorem C02_status {cfg : Config} (hc : CfgOK cfg) {init c : Cluster} (h0 : Init cfg init) (hr : Reachable init c)
    (a b : Nat) (ha : (c.nodes a).role = .leader) (hb : (c.nodes b).role = .leader)
    (ht : (c.nodes a).term = (c.nodes b).term) : a = b := by
  have hrec := leaderRecorded_reachable (fun i hi => absurd hi (h0.noleader i)) hr
  have h1 := hrec a ha
  have h2 := hrec b hb
  rw [ht] at h1
  exact C02_one_leader_per_term hc h0 hr _ a b h1 h2

/-- Replication requests are only built by a node in the leader state and carry its id
    and term. -/
theorem prepareAE_names_leader {n : Node} {peer : Nat} {q : AEReq} (h : n.prepareAE peer = .request q) :
    n.role = .leader ∧ q.term = n.term ∧ q.leaderId = n.id := by
  unfold prepareAE at h
  split at h; · simp at h
  rename_i hl
  have hrole : n.role = .leader := Classical.byContradiction fun hh => hl (Or.inl hh)
  split at h; · simp at h
  split at h; · simp at h
  simp only at h
  split at h
  · injection h with h; subst h; exact ⟨hrole, rfl, rfl⟩
  · simp at h

/-- **C02 (c): all AppendEntries requests that carry a given term name the same leader.**
    (Any two requests built in any two reachable states of one run; stated for two nodes
    of one state, the history version follows from `leaders` being monotone.) -/
theorem C02_requests_name_one_leader {cfg : Config} (hc : CfgOK cfg) {init c : Cluster} (h0 : Init cfg init)
    (hr : Reachable init c) (a b pa pb : Nat) (qa qb : AEReq)
    (ha : (c.nodes a).prepareAE pa = .request qa) (hb : (c.nodes b).prepareAE pb = .request qb)
    (ht : qa.term = qb.term) : qa.leaderId = qb.leaderId := by
  obtain ⟨a1, a2, a3⟩ := prepareAE_names_leader ha
  obtain ⟨b1, b2, b3⟩ := prepareAE_names_leader hb
  have hi := inv_reachable hc (init_inv h0) hr
  have : a = b := C02_status hc h0 hr a b a1 b1 (by rw [← a2, ← b2]; exact ht)
  rw [a3, b3, hi.ids a, hi.ids b, this]

/-! ### The abstract `other` step is what the real sections do -/

/-- The replication handler, in a cluster with static membership (the node's committed
    configuration is its configuration), is an `OtherStep`. -/
theorem appendEntries_otherStep {n n' : Node} {now : Nat} {q : AEReq} {r : AEResp} {eff : List Effect}
    (h : appendEntries n now q = some (n', r, eff)) (hs : n.committed = some n.config) : OtherStep n n' := by
  unfold appendEntries at h
  split at h; · simp at h
  split at h
  · injection h with h; injection h with h1 h2; subst h1
    exact ⟨rfl, rfl, Nat.le_refl _, fun _ => rfl, fun hh => absurd rfl hh, fun hh => ⟨hh, rfl⟩, rfl, Nat.le_refl _⟩
  rename_i hge
  have hle : n.term ≤ q.term := by omega
  have e1 := aeEnter_id n now q
  have e2 := aeEnter_config n now q
  have e3 := aeEnter_committed n now q
  have e4 := aeEnter_rvRounds n now q
  have e5 := aeEnter_nextRound n now q
  have e6 := aeEnter_role_leader n now q
  have et := aeEnter_term n now q hle
  have ev := aeEnter_votedFor n now q hle
  have base : OtherStep n (aeEnter n now q).1 := by
    refine ⟨e1, e2, by rw [et]; exact hle, fun hh => ?_, fun hh => ?_, fun hh => ?_, e4, by rw [e5]; exact Nat.le_refl _⟩
    · rw [ev]; rw [et] at hh; simp [hh]
    · rw [ev]; rw [et] at hh; have : q.term > n.term := by omega
      simp [this]
    · obtain ⟨a, b⟩ := e6 hh; exact ⟨a, by rw [et]; omega⟩
  simp only at h
  split at h
  · injection h with h; injection h with h1 h2; subst h1; exact base
  · injection h with h; injection h with h1 h2; subst h1; exact base
  · injection h with h; injection h with h1 h2; subst h1
    obtain ⟨c1, c3, c4, c5, c2⟩ := aeAccept_frame (aeEnter n now q).1 now q
    have c2' := c2 (by rw [e3, e2]; exact hs)
    obtain ⟨t1, t2⟩ := aeAccept_term (aeEnter n now q).1 now q
    refine ⟨by rw [c1]; exact base.id_eq, by rw [c2']; exact base.config_eq, by rw [t1]; exact base.term_le,
      fun hh => by rw [t2]; exact base.vote_keep (by rw [← t1]; exact hh),
      fun hh => by rw [t2]; exact base.vote_reset (by rw [← t1]; exact hh),
      fun hh => by rw [t1]; exact base.no_new_leader (c5 hh),
      by rw [c3]; exact base.rounds_eq, by rw [c4]; exact base.nextRound_le⟩

/-! Non-vacuity: a 3-voter configuration with a non-voter satisfies the side conditions;
    in it node 1 times out, wins a prevote and an election with the vote of node 2. -/
def exCfg : Config := ⟨1, [(1, true), (2, true), (3, true), (4, false)]⟩
example : CfgOK exCfg := ⟨by decide, by decide, by decide⟩

end Cluster
end Raft
