/-
  Properties/C03.lean — futures of replicated operations tell the truth (node level).

  For every node state: a submission is registered under exactly the index at which its
  entry (leader's term, submitted bytes) was appended; the apply loop answers a
  registration only when it applies the log entry at that very index, with that entry;
  every way of leaving or re-entering leadership drops all registrations, so nothing
  registered in an earlier stint is answered later. A leader never truncates its own log
  (no leader section emits a truncation), so the entry under a live registration is the
  submitted one. Ordering and at-most-once across nodes follow from C01/C07 (cluster
  level); the client-history tie is E4 (multiple clients, any target, timeouts, leader
  change between submit and apply).
-/
import RaftVerif.Proofs.LeaderSpecs
import RaftVerif.Proofs.ReplSafety
import RaftVerif.Proofs.AppendEntries
import RaftVerif.Proofs.ReplOrder
import RaftVerif.Proofs.ReplExample
set_option linter.unusedSimpArgs false
namespace Raft
open Node

/-- **Registration.** A leader registers the submission under the index of the entry it
    just appended; that entry carries the leader's term and the submitted bytes. -/
theorem C03_registered_at_own_index (n : Node) (now data : Nat) (hl : n.role = .leader) (hw : n.log.WF) :
    let r := n.submitReplicated now data
    r.2.2 = .accepted n.log.nextIndex ∧
    r.1.log.get? n.log.nextIndex = some { index := n.log.nextIndex, term := n.term, kind := kOp, data := data } := by
  obtain ⟨h1, h2, _⟩ := submitReplicated_spec n now data hl
  refine ⟨h1, ?_⟩
  rw [h2]
  have hc : Log.Contig n.log.lastIndex [n.submitEntry data] := ⟨rfl, trivial⟩
  exact get?_append_right hw hc (n.submitEntry data) (by simp)

/-- A non-leader refuses the submission and changes nothing. -/
theorem C03_not_leader_refused (n : Node) (now data : Nat) (hl : n.role ≠ .leader) :
    n.submitReplicated now data = (n, [], .notLeader) := by
  unfold submitReplicated; simp [hl]

/-- **Answering.** The apply loop hands out exactly the log entry at `lastApplied + 1`;
    it reports a registered future iff that index is registered, and consumes it. -/
theorem C03_answer_is_applied_entry (n : Node) (now : Nat) (e : Entry) (f : Bool)
    (h : (n.applyStep now).2.2 = .op e f) :
    n.log.get? (n.lastApplied + 1) = some e ∧ f = n.pendingRep.contains e.index ∧
    e.index ∉ (n.applyStep now).1.pendingRep :=
  let ⟨a, _, _, b, c⟩ := (applyStep_spec n now).2.2.2.2.2 e f h
  ⟨a, b, c⟩

/-- **No stale registration survives a change of leadership.** -/
theorem C03_stepdown_drops_registrations (n : Node) (now l t : Nat) :
    (n.becomeFollower now l t).1.pendingRep = [] ∧ (n.stepdown now).1.pendingRep = [] ∧
    (n.becomeLeader now).1.pendingRep = [] :=
  ⟨(becomeFollower_clears_futures n now l t).1, rfl, becomeLeader_clears_futures n now⟩

/-- A leader never truncates its own log in the submission section. -/
theorem C03_leader_submission_never_truncates (n : Node) (now data i : Nat) :
    Effect.logTruncate i ∉ (n.submitReplicated now data).2.1 := by
  unfold submitReplicated
  split
  · simp
  · unfold sendAEToPeers tryApplyReadOnly
    simp only
    split <;> simp <;> split <;> simp

/-! ### Cluster level (Proofs/ReplSafety.lean) -/

/-- **An acknowledged operation keeps its position.** What a leader has committed (it answers a
    client only for entries at or below its commit index, C03_answer_is_applied_entry) is, in
    every later state, a prefix of — or extended by — the committed prefix of every node: the
    operation acknowledged at index `i` is the operation every replica applies at `i`. -/
theorem C03_acknowledged_position_is_final {cfg : Config} (hnd : cfg.voterIds.Nodup) {s s' : Repl.AState}
    (hr : Repl.Reachable cfg s) (hfrom : Repl.ReachableFrom cfg s s') (leader b : Nat) :
    (s.nodes leader).log.take (s.nodes leader).commit <+: (s'.nodes b).log.take (s'.nodes b).commit ∨
    (s'.nodes b).log.take (s'.nodes b).commit <+: (s.nodes leader).log.take (s.nodes leader).commit :=
  Repl.state_machine_safety hnd hr hfrom leader b

/-! ### Real-time order (Proofs/ReplOrder.lean)

    "Operation A completed before operation B was invoked" is a fact about the state in which B is
    appended: a position (i1, T1) of a leader log, of that leader's own term, acknowledged by a quorum,
    covers A's index. -/

/-- **An operation submitted after another one was acknowledged comes later in the order — or never
    completes.** Appended by a leader of a term at least T1 (the same leader or a later one) it gets an
    index beyond i1; appended by a deposed leader that does not know it yet (term below T1) it lands on
    a position no quorum will ever acknowledge. -/
theorem C03_real_time_order {cfg : Config} (hnd : cfg.voterIds.Nodup) {s : Repl.AState} (hr : Repl.Reachable cfg s)
    (l payload : Nat) (hl : (s.nodes l).role = .leader)
    (i1 T1 c1 : Nat) (g1 : List Repl.AEntry) (hg1 : s.glog T1 = some (c1, g1)) (h1 : 1 ≤ i1) (hi1 : i1 ≤ g1.length)
    (ht1 : Repl.termAt g1 i1 = T1) (hq : Repl.QuorumAcked cfg s i1 T1) :
    (T1 ≤ (s.nodes l).term → i1 < (s.nodes l).log.length + 1) ∧
    ((s.nodes l).term < T1 → ∀ s'', Repl.ReachableFrom cfg (Repl.appendState s l payload) s'' →
      ¬ Repl.QuorumAcked cfg s'' ((s.nodes l).log.length + 1) (s.nodes l).term) := by
  obtain ⟨h_a, h_b⟩ := Repl.append_after_commit hnd hr l payload hl i1 T1 c1 g1 hg1 h1 hi1 ht1 hq
  refine ⟨h_a, fun hlt s'' hfrom => ?_⟩
  have hr' := Repl.Reachable.step hr (Repl.appendState_step (cfg := cfg) s l payload hl)
  exact (Repl.dead_forever hnd hr' hfrom (h_b hlt)).2

/-- Non-vacuity (Proofs/ReplExample.lean): in `s7` leader 1 has committed index 2 of its term 1; the
    next operation it appends gets index 3. -/
example : (2 : Nat) < (Repl.s7.nodes 1).log.length + 1 := by
  have h := (C03_real_time_order Repl.cfg3_nodup Repl.s7_reachable 1 0 (by decide) 2 1 1 [⟨1, 0⟩, ⟨1, 42⟩]
    (by decide) (by decide) (by decide) (by decide)
    ⟨[1, 2], Repl.quorum12, by
      intro m hm
      simp only [List.mem_cons, List.mem_nil_iff, or_false] at hm
      rcases hm with rfl | rfl
      · exact ⟨2, Nat.le_refl _, by decide⟩
      · exact ⟨2, Nat.le_refl _, by decide⟩⟩).1
  exact h (by decide)

end Raft
