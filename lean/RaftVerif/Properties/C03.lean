/-
  Properties/C03.lean — futures of replicated operations tell the truth (node level).

  For every node state: a submission is registered under exactly the index at which its
  entry (leader's term, submitted bytes) was appended; the apply loop answers a
  registration only when it applies the log entry at that very index, with that entry;
  every way of leaving or re-entering leadership drops all registrations, so nothing
  registered in an earlier stint is answered later. A leader never truncates its own log
  (no leader section emits a truncation), so the entry under a live registration is the
  submitted one. Ordering and at-most-once across nodes follow from C01/C07 (cluster
  level); the client-history tie is E4 (multiple clients, any target, timeouts, leader
  change between submit and apply).
-/
import RaftVerif.Proofs.LeaderSpecs
import RaftVerif.Proofs.ReplSafety
import RaftVerif.Proofs.AppendEntries
set_option linter.unusedSimpArgs false
namespace Raft
open Node

/-- **Registration.** A leader registers the submission under the index of the entry it
    just appended; that entry carries the leader's term and the submitted bytes. -/
theorem C03_registered_at_own_index (n : Node) (now data : Nat) (hl : n.role = .leader) (hw : n.log.WF) :
    let r := n.submitReplicated now data
    r.2.2 = .accepted n.log.nextIndex ∧
    r.1.log.get? n.log.nextIndex = some { index := n.log.nextIndex, term := n.term, kind := kOp, data := data } := by
  obtain ⟨h1, h2, _⟩ := submitReplicated_spec n now data hl
  refine ⟨h1, ?_⟩
  rw [h2]
  have hc : Log.Contig n.log.lastIndex [n.submitEntry data] := ⟨rfl, trivial⟩
  exact get?_append_right hw hc (n.submitEntry data) (by simp)

/-- A non-leader refuses the submission and changes nothing. -/
theorem C03_not_leader_refused (n : Node) (now data : Nat) (hl : n.role ≠ .leader) :
    n.submitReplicated now data = (n, [], .notLeader) := by
  unfold submitReplicated; simp [hl]

/-- **Answering.** The apply loop hands out exactly the log entry at `lastApplied + 1`;
    it reports a registered future iff that index is registered, and consumes it. -/
theorem C03_answer_is_applied_entry (n : Node) (now : Nat) (e : Entry) (f : Bool)
    (h : (n.applyStep now).2.2 = .op e f) :
    n.log.get? (n.lastApplied + 1) = some e ∧ f = n.pendingRep.contains e.index ∧
    e.index ∉ (n.applyStep now).1.pendingRep :=
  let ⟨a, _, _, b, c⟩ := (applyStep_spec n now).2.2.2.2.2 e f h
  ⟨a, b, c⟩

/-- **No stale registration survives a change of leadership.** -/
theorem C03_stepdown_drops_registrations (n : Node) (now l t : Nat) :
    (n.becomeFollower now l t).1.pendingRep = [] ∧ (n.stepdown now).1.pendingRep = [] ∧
    (n.becomeLeader now).1.pendingRep = [] :=
  ⟨(becomeFollower_clears_futures n now l t).1, rfl, becomeLeader_clears_futures n now⟩

/-- A leader never truncates its own log in the submission section. -/
theorem C03_leader_submission_never_truncates (n : Node) (now data i : Nat) :
    Effect.logTruncate i ∉ (n.submitReplicated now data).2.1 := by
  unfold submitReplicated
  split
  · simp
  · unfold sendAEToPeers tryApplyReadOnly
    simp only
    split <;> simp <;> split <;> simp

/-! ### Cluster level (Proofs/ReplSafety.lean) -/

/-- **An acknowledged operation keeps its position.** What a leader has committed (it answers a
    client only for entries at or below its commit index, C03_answer_is_applied_entry) is, in
    every later state, a prefix of — or extended by — the committed prefix of every node: the
    operation acknowledged at index `i` is the operation every replica applies at `i`. -/
theorem C03_acknowledged_position_is_final {cfg : Config} (hnd : cfg.voterIds.Nodup) {s s' : Repl.AState}
    (hr : Repl.Reachable cfg s) (hfrom : Repl.ReachableFrom cfg s s') (leader b : Nat) :
    (s.nodes leader).log.take (s.nodes leader).commit <+: (s'.nodes b).log.take (s'.nodes b).commit ∨
    (s'.nodes b).log.take (s'.nodes b).commit <+: (s.nodes leader).log.take (s.nodes leader).commit :=
  Repl.state_machine_safety hnd hr hfrom leader b

end Raft
