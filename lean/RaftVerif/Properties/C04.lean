/-
  Properties/C04.lean — acknowledged operations are on a majority's disk (section level).

  The commit rule and the order of effects, for every node state: the commit index of a
  leader only ever advances to an index that holds an entry of its *current* term and
  that the leader itself plus a `hasQuorum` set of *voters* (match index) store; a match
  index is only raised by a successful reply to a request of the current term covering
  that index; the leader's own append precedes every send of the entry, a follower's
  append precedes its reply. Combined with quorum intersection (C02 development) and the
  crash-recovery theorems (C12) this is "acknowledged ⇒ on a majority's disk"; the
  cluster-level tie is E4: at every acknowledgement the voters' logs are inspected.
-/
import RaftVerif.Proofs.LeaderSpecs
import RaftVerif.Proofs.ReplSafety
import RaftVerif.Proofs.ReplExample
import RaftVerif.Properties.C06
set_option linter.unusedSimpArgs false
namespace Raft
open Node

/-- **Commit needs a current-term entry on a voter majority.** The leader counts itself only if it is a
    voter (`selfCount`, fix S24). -/
theorem C04_commit_rule (n : Node) (now : Nat) (h : n.commitIndex < (n.commitStep now).1.commitIndex) :
    n.role = .leader ∧ (n.commitStep now).1.commitIndex ≤ n.log.lastIndex ∧
    ∃ e, n.log.get? (n.commitStep now).1.commitIndex = some e ∧ e.term = n.term ∧
      n.config.hasQuorum (n.selfCount + (n.matchers (n.commitStep now).1.commitIndex).length) = true ∧
      ∀ f ∈ n.matchers (n.commitStep now).1.commitIndex,
        n.config.isVoter f.id = true ∧ f.id ≠ n.id ∧ (n.commitStep now).1.commitIndex ≤ f.mtch := by
  obtain ⟨_, _, _, _, _, hc⟩ := commitStep_spec n now
  obtain ⟨hl, ⟨e, he, ht, hq⟩, hli⟩ := hc h
  refine ⟨hl, hli, e, he, ht, hq, fun f hf => ?_⟩
  unfold matchers at hf
  obtain ⟨_, hp⟩ := List.mem_filter.mp hf
  simp only [Bool.and_eq_true, decide_eq_true_eq, bne_iff_ne, ne_eq] at hp
  exact ⟨hp.1.2, hp.1.1, hp.2⟩

/-- The commit index never moves backwards in the commit loop. -/
theorem C04_commit_monotone (n : Node) (now : Nat) : n.commitIndex ≤ (n.commitStep now).1.commitIndex :=
  (commitStep_spec n now).1

/-- **Leader: append before send.** The entry a client submitted is appended to the
    leader's log (the first effect) before any request carrying it is started. -/
theorem C04_leader_appends_before_send (n : Node) (now data : Nat) (hl : n.role = .leader) :
    ∃ rest, (n.submitReplicated now data).2.1 = Effect.logAppend [n.submitEntry data] :: rest :=
  let ⟨rest, h, _⟩ := (submitReplicated_spec n now data hl).2.2.2.2
  ⟨rest, h⟩

/-- **Match index only from the current term's acknowledgements.** A reply to a request
    of another term changes no match index; a reply that reports failure changes none. -/
theorem C04_match_only_from_current_term (n : Node) (now peer round : Nat) (q : AEReq) (r : AEResp)
    (h : n.term ≠ q.term) : (n.onAEReply now peer round q (some r)).1.followers = n.followers := by
  unfold onAEReply
  simp only
  split
  · rfl
  · simp [h]

/-- **Follower: store before acknowledging.** A successful reply is only produced by a
    section whose effects contain the append of the request's missing entries; with a
    well-formed log every request entry is then in the log (C06_accept). -/
theorem C04_follower_stores_before_ack {n n' : Node} {now : Nat} {q : AEReq} {r : AEResp} {eff : List Effect}
    (h : appendEntries n now q = some (n', r, eff)) (hr : r.success = true) (hp : AEPre n q) :
    (∃ es, Effect.logAppend es ∈ eff) ∧ ∀ e ∈ q.entries, ∃ g, n'.log.get? e.index = some g ∧ g.term = e.term := by
  have hnf := (C06_accept h hr hp).1
  refine ⟨?_, (C06_accept h hr hp).2.2.2.1⟩
  unfold appendEntries at h
  split at h; · simp at h
  split at h
  · injection h with h; injection h with h1 h2; injection h2 with h2 h3; subst h2; simp at hr
  · simp only at h
    split at h
    · injection h with h; injection h with h1 h2; injection h2 with h2 h3; subst h2; simp at hr
    · injection h with h; injection h with h1 h2; injection h2 with h2 h3; subst h2; simp at hr
    · injection h with h; injection h with h1 h2; injection h2 with h2 h3; subst h3
      unfold aeAccept at hnf ⊢
      cases hm : mergeScan (aeEnter n now q).1.log q.entries with
      | fatal => rw [hm] at hnf; simp at hnf
      | ok l1 t app => exact ⟨app, by simp⟩

/-! Non-vacuity: a leader of term 2 in a 3-voter cluster with one follower matched at index 2 commits index 2. -/
def exL : Node :=
  { id := 1, role := .leader, term := 2, commitIndex := 1, config := ⟨1, [(1, true), (2, true), (3, true)]⟩,
    log := { ents := [⟨1, 1, kConfig, 0, none⟩, ⟨2, 2, kNoop, 0, none⟩] },
    followers := [{ id := 1 }, { id := 2, next := 3, mtch := 2 }, { id := 3, next := 1, mtch := 0 }] }
example : (exL.commitStep 0).1.commitIndex = 2 := by decide

/-- **A new leadership starts from no acknowledgements**: `becomeLeader` resets every match index
    (what an earlier leadership of the same node had recorded may have been overwritten since:
    the commit rule may only count acknowledgements of this term). -/
theorem C04_become_leader_resets_match (n : Node) (now : Nat) :
    ∀ f ∈ (n.becomeLeader now).1.followers, f.mtch = 0 := by
  intro f hf
  unfold Node.becomeLeader Node.sendAEToPeers Node.tryApplyReadOnly Node.resetSnapshots at hf
  simp only at hf
  split at hf <;> simp only [List.mem_map] at hf <;> (obtain ⟨g, ⟨a, _, rfl⟩, rfl⟩ := hf; rfl)

/-! ### Cluster level (Proofs/ReplSafety.lean) -/

/-- **What is committed stays committed**: a committed prefix (a leader advanced its commit
    index over it, i.e. acknowledged it to the client) is still a committed prefix in every
    later state — across crashes of any nodes, leader changes and further appends — and so
    (C01) a prefix of, or extended by, whatever any node commits later. -/
theorem C04_committed_is_stable {cfg : Config} (hnd : cfg.voterIds.Nodup) {s s' : Repl.AState} (hr : Repl.Reachable cfg s)
    (hfrom : Repl.ReachableFrom cfg s s') (a : Nat) :
    Repl.IsCommitted cfg s' (s.nodes a).term ((s.nodes a).log.take (s.nodes a).commit) :=
  Repl.committed_stable hnd hr hfrom ((Repl.inv_reachable hnd hr).commit_ok a).2

/-- **No node ever rewrites what it has applied**: between a state and any later state in
    which the node's commit index is not lower, its log up to the old commit index is the
    same list of entries — no replication request, from any leader of any term, truncates at
    or below the commit index. -/
theorem C04_applied_prefix_never_rewritten {cfg : Config} (hnd : cfg.voterIds.Nodup) {s s' : Repl.AState}
    (hr : Repl.Reachable cfg s) (hfrom : Repl.ReachableFrom cfg s s') (n : Nat)
    (hmono : (s.nodes n).commit ≤ (s'.nodes n).commit) :
    (s'.nodes n).log.take (s.nodes n).commit = (s.nodes n).log.take (s.nodes n).commit :=
  Repl.applied_prefix_stable hnd hr hfrom n hmono

/-- **Acknowledged ⇒ on a majority, at that moment** (cluster level, the statement's first clause).
    In any reachable state of the replication-layer model, whenever the leader `l` may advance its
    commit index to `i` (the guard of the code's commit rule: an entry of its own term at `i`, a
    quorum of voters `Q` whose acknowledgements of this term reach `i`), every member of `Q` holds,
    in its log and at that very moment, exactly the leader's first `i` entries — the acknowledged
    operation and everything before it. (An acknowledgement alone is a fact about the past; that the
    entries are still there follows because a quorum-acknowledged position is never dead.) -/
theorem C04_acknowledged_is_on_a_majority {cfg : Config} (hnd : cfg.voterIds.Nodup) {s : Repl.AState}
    (hr : Repl.Reachable cfg s) (l i : Nat) (Q : List Nat) (hl : (s.nodes l).role = .leader) (h1 : 1 ≤ i)
    (hil : i ≤ (s.nodes l).log.length) (hti : Repl.termAt (s.nodes l).log i = (s.nodes l).term)
    (hQ : Repl.IsQuorum cfg Q) (hack : ∀ m ∈ Q, ∃ j, i ≤ j ∧ (m, j, (s.nodes l).term) ∈ s.acked) :
    ∀ m ∈ Q, (s.nodes m).log.take i = (s.nodes l).log.take i := by
  have hi := Repl.inv_reachable hnd hr
  have hg := hi.leader_glog l hl
  have hnd' : ¬ Repl.Dead cfg s i (s.nodes l).term := Repl.not_dead_of_quorumAcked hnd ⟨Q, hQ, hack⟩
  intro m hm
  obtain ⟨j, hij, hmem⟩ := hack m hm
  rcases hi.ack_prefix m j (s.nodes l).term l (s.nodes l).log i hmem hg h1 hij hti with h | h
  · exact h
  · exact absurd h hnd'

/-- non-vacuity: in the example run (Proofs/ReplExample.lean) the leader 1 and node 2 form such a
    quorum for index 2 -/
example : Repl.Reachable Repl.cfg3 Repl.s7 ∧ (Repl.s7.nodes 1).role = .leader ∧ 2 ≤ (Repl.s7.nodes 1).log.length ∧
    Repl.termAt (Repl.s7.nodes 1).log 2 = (Repl.s7.nodes 1).term ∧ Repl.IsQuorum Repl.cfg3 [1, 2] ∧
    (∀ m ∈ [1, 2], ∃ j, 2 ≤ j ∧ (m, j, (Repl.s7.nodes 1).term) ∈ Repl.s7.acked) :=
  ⟨Repl.s7_reachable, by decide, by decide, by decide, Repl.quorum12,
   by intro m hm; simp at hm; rcases hm with h | h <;> subst h <;> exact ⟨2, by decide, by decide⟩⟩

end Raft
